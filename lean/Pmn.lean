import Pmn.Model.Num
import Pmn.Model.Const
import Pmn.Model.Grid
import Pmn.Proofs.ListLemmas
import Pmn.Props.C16
