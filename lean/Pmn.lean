import Pmn.Model.Num
import Pmn.Model.Const
import Pmn.Model.Grid
import Pmn.Proofs.ListLemmas
import Pmn.Props.C16
import Pmn.Model.Fmt
import Pmn.Proofs.FmtLemmas
import Pmn.Props.C19
