import Pmn.Model.Session
open Pmn.Session
namespace Driver
def opSess (args : List String) : String :=
  match args with
  | ["geocaches"] => " ".intercalate geoCaches
  | ["writes", "setF"] => " ".intercalate (writes (.setF 0 : Op Nat Nat))
  | ["writes", "compute"] => " ".intercalate (writes (.compute : Op Nat Nat))
  | ["writes", "far"] => " ".intercalate (writes (.far 0 : Op Nat Nat))
  | ["writes", "near"] => " ".intercalate (writes (.near 0 : Op Nat Nat))
  | _ => "bad-op"
end Driver
