import Pmn.Model.Guard
open Pmn.Guard
namespace Driver

def clsOfName (s : String) : Option NumClass :=
  if s == "neg" then some .neg else if s == "zero" then some .zero else if s == "pos" then some .pos
  else if s == "inf" then some .inf else if s == "nan" then some .nan else if s == "word" then some .word else none

def outcomeName : Outcome → String
  | .usage => "usage" | .diag => "diag" | .report => "report" | .crash e => "crash:" ++ e.name | .nonfinite => "nonfinite"

def fieldPairs : List String → List (Field × NumClass)
  | f :: c :: r =>
    match Field.all.find? (fun x => x.name == f), clsOfName c with
    | some fld, some cl => (fld, cl) :: fieldPairs r
    | _, _ => fieldPairs r
  | _ => []

def opGuard (args : List String) : String :=
  match args with
  | ["fields"] => " ".intercalate (Field.all.map Field.name)
  | ["expected", f, c] =>
    match Field.all.find? (fun x => x.name == f), clsOfName c with
    | some fld, some cl => outcomeName (expected fld cl)
    | _, _ => "unknown"
  | "compose" :: rest =>
    -- f1 c1 f2 c2 …  →  the outcome of main's validation when all these inputs hold these classes at once
    outcomeName (composeOutcome ((fieldPairs rest).map fun fc => expected fc.1 fc.2))
  | "composesel" :: optsCsv :: ng :: rest =>
    -- result options ("-" for none given, else comma separated), `--near-field` present (0/1), f1 c1 f2 c2 …
    let opts : List ResOpt := (if optsCsv == "-" then [] else optsCsv.splitOn ",").filterMap fun o =>
      if o == "far-field" then some .farField else if o == "far-field-absolute" then some .farAbs
      else if o == "near-field" then some .nearField else if o == "none" then some .none else Option.none
    outcomeName (composeSel opts (ng == "1") (fieldPairs rest))
  | ["caught", which, e] =>
    let hs := if which == "kernel" then Pmn.Const.kernelCaught else Pmn.Const.setupCaught
    match ([Exc.ZeroDivisionError, .OverflowError, .FloatingPointError, .ArithmeticError, .ValueError,
            .LinAlgError, .MemoryError, .TypeError, .IndexError, .KeyError, .AssertionError,
            .UnboundLocalError] : List Exc).find? (fun x => x.name == e) with
    | some x => if caughtBy hs x then "1" else "0"
    | none => "unknown"
  | ["output", e] =>
    -- outcome of the output-file stage: "continue" or the outcome main ends with
    let o : Option Output :=
      if e == "none" then some .notRequested else if e == "written" then some .written
      else (outputRaises.find? (fun x => x.name == e)).map Output.raises
    match o with
    | some o => match wrapOutput Pmn.Const.outputCaught o with
      | none => "continue"
      | some r => outcomeName r
    | none => "unknown"
  | _ => "bad-op"

end Driver
