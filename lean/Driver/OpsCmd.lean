import Pmn.Model.Cmd
import Driver.Proto
import Driver.OpsBasic
open Pmn.Cmd
namespace Driver

def pSrc : P Src := do
  let k ← nextTok
  let a ← pNat; let t ← pNat; let v ← pNat; let d ← pNat
  pure ⟨if k == "abs" then .abs a else .rel a t, v, d == 1⟩

def pObjP : P (Nat × List Nat) := do
  let tag ← pNat; let n ← pNat
  let ps ← pRepeat pNat n
  pure (tag, ps)

def clsOf (s : String) : LClass :=
  if s == "imp" then .imp else if s == "rlc" then .rlc else if s == "trap" then .trap else .laplace

def clsName : LClass → String
  | .imp => "imp" | .rlc => "rlc" | .trap => "trap" | .laplace => "laplace"

def pLump : P (LClass × Nat × List Nat) := do
  let c ← nextTok; let p ← pNat; let n ← pNat
  let ps ← pRepeat pNat n
  pure (clsOf c, p, ps)

def showAddr : Addr → String
  | .abs k => s!"abs:{k}"
  | .rel k t => s!"rel:{k}:{t}"

def showAtt : Att → String
  | .pulse k => s!"p:{k}"
  | .rel k t => s!"r:{k}:{t}"
  | .allObj t => s!"o:{t}"
  | .all => "all"

def opCmd (args : List String) : String :=
  match args with
  | "write" :: rest =>
    let prog : P (List Src × List (Nat × List Nat) × List (LClass × Nat × List Nat)) := do
      let ns ← pNat; let ss ← pRepeat pSrc ns
      let no ← pNat; let os ← pRepeat pObjP no
      let nl ← pNat; let ls ← pRepeat pLump nl
      pure (ss, os, ls)
    match prog.run rest with
    | some ((ss, objs, ls), _) =>
      let sopts := writeSources ss
      let lumps : List Lump := ls.map fun (c, p, att) => ⟨c, p, writeAtt true objs att⟩
      let lopts := writeLoads lumps
      let rtS := match readSources 5 sopts with
        | .ok ss' => decide (ss' = ss)
        | .error _ => false
      let rtL := match readLoads lopts with
        | .ok ls' => decide (ls' = lumps)
        | .error _ => lumps.isEmpty
      let sTxt := ",".intercalate (sopts.map fun o => match o with
        | .pulse a => "P" ++ showAddr a
        | .volt v => s!"V{v}")
      let lTxt := ",".intercalate (lopts.map fun o => match o with
        | .load c p => s!"L{clsName c}:{p}"
        | .attach i a => s!"A{i}:{showAtt a}")
      s!"{if rtS then 1 else 0} {if rtL then 1 else 0} S[{sTxt}] L[{lTxt}]"
    | none => "parse-error"
  | "dist" :: rest =>
    -- ntags tags… nloads (kind par obj all)…  →  written options and "does reading them back give the loads"
    let kindOf (s : String) : DKind := if s == "cond" then .skinCond else if s == "res" then .skinRes else .coat
    let kindName : DKind → String
      | .skinCond => "cond" | .skinRes => "res" | .coat => "coat"
    let pLoad : P DLoad := do
      let k ← nextTok; let p ← pNat; let o ← pNat; let a ← pNat
      pure ⟨kindOf k, p, o, a == 1⟩
    let prog : P (List Nat × List DLoad) := do
      let nt ← pNat; let ts ← pRepeat pNat nt
      let nl ← pNat; let ls ← pRepeat pLoad nl
      pure (ts, ls)
    match prog.run rest with
    | some ((tags, ls), _) =>
      let opts := writeDist true [] ls
      let rt := decide (readDist tags opts = ls)
      let txt := ",".intercalate (opts.map fun o =>
        s!"{kindName o.kind}:{o.par}:{match o.tag with | none => "all" | some t => toString t}")
      s!"{if rt then 1 else 0} D[{txt}]"
    | none => "parse-error"
  | "parseatt" :: rest =>
    -- nloads nfields (i<v> | all | junk)…  →  "error" | "ok lidx pulse|- tag|-"
    let pF : P Fld := do
      let t ← nextTok
      if t == "all" then pure .all else if t == "junk" then pure .junk
      else if t.startsWith "i-" then pure (.int (-(parseN (t.drop 2).toString : Int))) else pure (.int (parseN (t.drop 1).toString : Int))
    let prog : P (Nat × List Fld) := do
      let n ← pNat; let k ← pNat; let fs ← pRepeat pF k
      pure (n, fs)
    match prog.run rest with
    | some ((n, fs), _) =>
      match parseAttach n fs with
      | .error _ => "error"
      | .ok (l, p, t) =>
        let sh : Option Int → String := fun o => match o with | none => "-" | some v => toString v
        s!"ok {l} {sh p} {sh t}"
    | none => "parse-error"
  | "media" :: rest =>
    -- inf circ radCount radRadius(-1 = not given, coded +1) n (eps sigma height coord+1|0)…
    -- → "error" or "ok" + the media the model builds + " | " + the options the model writes for them + round-trip flag
    let pOpt : P MedOpt := do
      let e ← pNat; let s ← pNat; let h ← pNat; let c ← pNat
      pure ⟨e, s, h, if c == 0 then none else some (c - 1)⟩
    let prog : P (Nat × MediaOpts) := do
      let inf ← pNat; let circ ← pNat; let rc ← pNat; let rr ← pNat
      let n ← pNat; let os ← pRepeat pOpt n
      pure (inf, ⟨os, circ == 1, rc, if rr == 0 then none else some (rr - 1)⟩)
    match prog.run rest with
    | some ((inf, g), _) =>
      match readMedia inf g with
      | .error _ => "error"
      | .ok ms =>
        let w := writeMedia ms
        let rt := match readMedia inf w with
          | .ok ms' => decide (ms' = normBoundary ms)
          | .error _ => false
        let mTxt := " ".intercalate (ms.map fun m =>
          s!"{m.eps},{m.sigma},{m.height},{m.coord},{m.nradials},{m.radius},{if m.circular then 1 else 0}")
        let oTxt := " ".intercalate (w.media.map fun o =>
          s!"{o.eps},{o.sigma},{o.height},{match o.coord with | none => "-" | some c => toString c}")
        s!"ok {ms.length} {mTxt} | {if w.circular then 1 else 0} {w.radCount} {match w.radRadius with | none => "-" | some r => toString r} {oTxt} | {if rt then 1 else 0}"
    | none => "parse-error"
  | _ => "bad-op"

end Driver
