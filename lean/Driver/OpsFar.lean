import Pmn.Model.Far
import Pmn.Model.Const
import Driver.Proto
import Driver.OpsBasic
open Pmn.Far
namespace Driver

def pF : P Float := do let t ← nextTok; pure (parseF t)
def pV3 : P (V3 Float) := do let x ← pF; let y ← pF; let z ← pF; pure ⟨x, y, z⟩
def pHalf : P (Half Float) := do
  let s ← pF; let l ← pF; let d ← pV3; let g ← pNat; let i ← pNat
  pure ⟨s, l, d, g == 1, i == 1⟩
def pPulse : P (PulseF Float × Cx Float) := do
  let pt ← pV3; let h0 ← pHalf; let h1 ← pHalf; let re ← pF; let im ← pF
  pure (⟨pt, h0, h1⟩, ⟨re, im⟩)

def pEnvF (tfac : Float) : P (Env Float) := do
  let k ← nextTok
  if k == "free" then pure .free
  else if k == "ideal" then pure .ideal
  else
    let c ← pNat; let nr ← pNat; let rr ← pF; let n ← pNat
    let ms ← pRepeat (do
      let coord ← pF; let h ← pF; let eps ← pF; let sig ← pF
      pure (⟨coord, h, surfaceZ eps sig tfac⟩ : MediumF Float)) n
    pure (.real (c == 1) nr rr ms)

def opFar (args : List String) : String :=
  match args with
  | "run" :: rest =>
    let prog : P String := do
      let f ← pF
      -- t = 2 * np.pi * f * 8.85e-6 with the literal of the current source
      let tfac := 2 * 3.141592653589793 * f * Pmn.Const.mediumT.toFloat
      let env ← pEnvF tfac
      let w ← pF; let power ← pF
      let np ← pNat
      let pcs ← pRepeat pPulse np
      let nd ← pNat
      let dirs ← pRepeat (do let t ← pF; let p ← pF; pure (t, p)) nd
      let g0 := Pmn.Const.g0.toFloat
      let k9c := Pmn.Const.k9Factor.toFloat
      let out := dirs.map fun (td, pd) =>
        let t := td / 180 * 3.141592653589793
        let p := pd / 180 * 3.141592653589793
        let g := gvec env w t p (pcs.map (·.1)) (pcs.map (·.2))
        let a := h12 g0 g t p
        let b := x34 g0 g p
        let (t1, t2, t3) := linGains k9c power a b
        let th := Pmn.Const.ffThresh.toFloat
        let fl := Pmn.Const.ffFloor.toFloat
        showFs [t1, t2, t3, a.re, a.im, b.re, b.im, toDb th fl t1, toDb th fl t2, toDb th fl t3]
      pure (" ".intercalate out)
    match prog.run rest with
    | some (s, _) => s
    | none => "parse-error"
  | ["surfz", f, eps, sig] =>
    let tfac := 2 * 3.141592653589793 * parseF f * Pmn.Const.mediumT.toFloat
    let z := surfaceZ (parseF eps) (parseF sig) tfac
    s!"{showF z.re} {showF z.im}"
  | "mindex" :: b9 :: coords => toString (mediumIndex (coords.map parseF) (parseF b9))
  | _ => "bad-op"

end Driver
