/- line-protocol helpers: floats travel as the decimal of their IEEE-754 bit pattern -/
namespace Driver

def parseF (s : String) : Float := Float.ofBits (s.toNat!.toUInt64)
def showF (x : Float) : String := toString x.toBits.toNat
def showFs (xs : List Float) : String := " ".intercalate (xs.map showF)
def parseN (s : String) : Nat := s.toNat!
def parseI (s : String) : Int := s.toInt!

def hexDigit (c : Char) : Nat :=
  if c.isDigit then c.toNat - '0'.toNat
  else if 'a' ≤ c ∧ c ≤ 'f' then c.toNat - 'a'.toNat + 10
  else c.toNat - 'A'.toNat + 10

/-- strings travel hex-encoded (UTF-8 bytes); the empty string is `-` -/
def unhex (s : String) : String :=
  if s == "-" then "" else
  let cs := s.toList
  let rec go : List Char → List UInt8
    | a :: b :: r => (hexDigit a * 16 + hexDigit b).toUInt8 :: go r
    | _ => []
  match String.fromUTF8? ⟨(go cs).toArray⟩ with
  | some r => r
  | none => ""

def hexNib (n : Nat) : Char := if n < 10 then Char.ofNat (48 + n) else Char.ofNat (87 + n)
def hex (s : String) : String :=
  if s.isEmpty then "-" else
  String.ofList (s.toUTF8.toList.flatMap fun b => [hexNib (b.toNat / 16), hexNib (b.toNat % 16)])

end Driver
