import Pmn.Model.Geom
import Pmn.Model.Const
import Driver.Proto
open Pmn.Geom
namespace Driver

def showV (v : V3 Float) : String := s!"{showF v.x} {showF v.y} {showF v.z}"
def showSegs (l : List (V3 Float × V3 Float)) : String :=
  " ".intercalate (l.map fun s => showV s.1 ++ " " ++ showV s.2)

def pyMod (a b : Float) : Float :=
  -- Python's float % for b > 0
  let r := a - b * Float.floor (a / b)
  r

def taperErrName : TaperErr → String
  | .tooFewSegments => "tooFewSegments" | .tooShort => "tooShort" | .minAboveMax => "minAboveMax"
  | .tooLong => "tooLong" | .noSolution => "noSolution" | .assertion w => "assertion:" ++ w.replace " " "_"

def optF (s : String) : Option Float := if s == "n" then none else some (parseF s)

def parseV (x y z : String) : V3 Float := ⟨parseF x, parseF y, parseF z⟩

def opGeom (args : List String) : String :=
  match args with
  | ["equal", x1, y1, z1, x2, y2, z2, n] =>
    showSegs (equalSegments (parseV x1 y1 z1) (parseV x2 y2 z2) (parseN n))
  | ["arc", n, r, a1, a2] =>
    " ".intercalate ((arcEnds (parseN n) (parseF r) (parseF a1) (parseF a2)).map showV)
  | ["helix", n, len, turn, rx1, ry1, rx2, ry2] =>
    let l := parseF len; let t := parseF turn
    let prod := l * t
    let s : Float := if prod > 0 then 1 else if prod < 0 then -1 else 0
    " ".intercalate ((helixEnds pyMod Float.abs s (l < 0) (parseN n) l t (parseF rx1) (parseF ry1)
      (parseF rx2) (parseF ry2)).map showV)
  | ["rot", rx, ry, rz, x, y, z] =>
    showV ((rotMatrix (fun a => a == 0) (parseF rx) (parseF ry) (parseF rz)).mulVec (parseV x y z))
  | ["taper1", x1, y1, z1, x2, y2, z2, n, r, mn, mx, e] =>
    match taper1 (parseV x1 y1 z1) (parseV x2 y2 z2) (parseN n) (parseF r) (parseF mn) (optF mx) (e == "1")
        Pmn.Const.taperRad1.toFloat (fun a => a == 0) with
    | .ok segs => "ok " ++ showSegs segs
    | .error er => "err " ++ taperErrName er
  | ["taper2", x1, y1, z1, x2, y2, z2, n, r, mn, mx] =>
    match taper2 (parseV x1 y1 z1) (parseV x2 y2 z2) (parseN n) (parseF r) (parseF mn) (optF mx)
        Pmn.Const.taperRad1.toFloat with
    | .ok segs => "ok " ++ showSegs segs
    | .error er => "err " ++ taperErrName er
  | "order" :: nr :: rest =>
    -- keys of rotations then translations; answer: indices in application order
    let keys := rest.map parseF
    let nr := parseN nr
    let ts : List (Transform Float) := keys.zipIdx.map fun (k, i) =>
      ⟨k, if i < nr then .rotate else .translate, ⟨0, 0, 0⟩, some i⟩
    let o := orderTransforms (ts.take nr) (ts.drop nr)
    " ".intercalate (o.map fun t => toString (t.tag.getD 0))
  | "pipeline" :: nr :: nt :: ns :: np :: rest =>
    -- nr rotations (key x y z tag|n), nt translations (same), ns scales (factor tag|n), np points (tag x y z)
    let nr := parseN nr; let nt := parseN nt; let ns := parseN ns; let np := parseN np
    let optN (s : String) : Option Nat := if s == "n" then none else some (parseN s)
    let rec chunks (k : Nat) (l : List String) (fuel : Nat) : List (List String) :=
      match fuel with
      | 0 => []
      | fuel + 1 => if l.isEmpty then [] else l.take k :: chunks k (l.drop k) fuel
    let tr (kind : TKind) (c : List String) : Transform Float :=
      match c with
      | [k, x, y, z, t] => ⟨parseF k, kind, parseV x y z, optN t⟩
      | _ => ⟨0, kind, ⟨0, 0, 0⟩, none⟩
    let rs := (chunks 5 (rest.take (5 * nr)) nr).map (tr .rotate)
    let rest := rest.drop (5 * nr)
    let ts := (chunks 5 (rest.take (5 * nt)) nt).map (tr .translate)
    let rest := rest.drop (5 * nt)
    let ss : List (Scale Float) := (chunks 2 (rest.take (2 * ns)) ns).map fun c =>
      match c with
      | [f, t] => ⟨parseF f, optN t⟩
      | _ => ⟨1, none⟩
    let rest := rest.drop (2 * ns)
    let ps := (chunks 4 (rest.take (4 * np)) np).map fun c =>
      match c with
      | [t, x, y, z] => showV (pipeline (fun a => a == 0) rs ts ss (parseN t) (parseV x y z))
      | _ => "bad"
    " ".intercalate ps
  | "readtr" :: n :: rest =>
    -- n options in the order they stand in the file: key kind(r|t) tag(-1 = none); answers the indices of the
    -- options in the order `main` applies them
    let rec go : Nat → Nat → List String → List (Transform Float)
      | 0, _, _ => []
      | k + 1, i, key :: kind :: tag :: r =>
        ⟨parseF key, (if kind == "r" then TKind.rotate else TKind.translate), ⟨Float.ofNat i, 0, 0⟩,
          (if tag == "-1" then none else some (parseN tag))⟩ :: go k (i + 1) r
      | _, _, _ => []
    let opts := go (parseN n) 0 rest
    " ".intercalate ((readTransforms opts).map fun t => toString t.vec.x.toUInt64)
  | _ => "bad-op"

end Driver
