import Pmn.Model.Report
import Driver.Proto
open Pmn.Report

namespace Driver

def rowTok : Row → String
  | .geoHead t => s!"GH{t}" | .geoNone => "GN" | .geoRow n => s!"G{n}"
  | .srcCount n => s!"SC{n}" | .srcLine n => s!"S{n}"
  | .loadCount n => s!"LC{n}" | .impLine n => s!"LI{n}" | .sparHead n o => s!"LS{n}:{o}" | .sparCoef d => s!"LK{d}"
  | .srcData n => s!"D{n}" | .curHead t => s!"CH{t}" | .curE => "CE" | .curJ => "CJ" | .curRow n => s!"C{n}"

/-- `n` followed by `n` naturals -/
def takeNats (l : List String) : List Nat × List String :=
  match l with
  | n :: r => let k := parseN n; ((r.take k).map parseN, r.drop k)
  | [] => ([], [])

def parseRObjs : Nat → List String → List RObj × List String
  | 0, r => ([], r)
  | n + 1, t :: r =>
    let (ps, r) := takeNats r
    match r with
    | g0 :: g1 :: c0 :: c1 :: ne :: r =>
      let (os, rest) := parseRObjs n r
      (⟨parseN t, ps, g0 == "1", g1 == "1", c0 == "1", c1 == "1", ne == "1"⟩ :: os, rest)
    | _ => ([], [])
  | _, r => ([], r)

def parseRLoads : Nat → List String → List RLoad × List String
  | 0, r => ([], r)
  | n + 1, sp :: ord :: r =>
    let (ps, r) := takeNats r
    let (ls, rest) := parseRLoads n r
    (⟨sp == "1", parseN ord, ps⟩ :: ls, rest)
  | _, r => ([], r)

/-- `report rows <nobj> objs… <junctionflags> <srcs: n p…> <nloads> loads…` → row tokens -/
def opReport (args : List String) : String :=
  match args with
  | "rows" :: nobj :: rest =>
    let (objs, rest) := parseRObjs (parseN nobj) rest
    match rest with
    | jf :: rest =>
      let isJ := fun p => jf.toList[p]? == some '1'
      let (srcs, rest) := takeNats rest
      match rest with
      | nl :: rest =>
        let (ls, _) := parseRLoads (parseN nl) rest
        " ".intercalate ((report isJ objs srcs ls).map rowTok)
      | _ => "parse-error"
    | _ => "parse-error"
  | _ => "bad-op"

end Driver
