import Pmn.Model.Topo
import Pmn.Model.Const
import Driver.Proto
open Pmn.Topo

namespace Driver

def jOptNat : Option Nat → String
  | some n => toString n
  | none => "null"

def jList (xs : List String) : String := "[" ++ ",".intercalate xs ++ "]"

def jHit : Option (Nat × Nat) → String
  | some (a, b) => s!"[{a},{b}]"
  | none => "null"

def jConn (c : Conn) : String := s!"[{c.geobj},{c.ow},{c.endIdx},{c.sign}]"

def jLine : EndLine → String
  | .none => "\"none\""
  | .E => "\"E\""
  | .J t => "{\"J\":" ++ jList (t.map fun (p, s) => s!"[{jOptNat p},{s}]") ++ "}"

def codeLine (l : EndLine) (e : Nat) : EndLine :=
  match l with
  | .J t => .J (codeTerms e t)
  | x => x

def jPulse (p : Pulse) : String :=
  s!"[{p.geo0},{p.geo1},{p.sgn0},{p.sgn1},{match p.gnd with | some g => toString g | none => "-1"},{p.owner}]"

def jExceptNat : Except String Nat → String
  | .ok n => toString n
  | .error e => "\"" ++ e ++ "\""

def jExceptList : Except String (List Nat) → String
  | .ok l => jList (l.map toString)
  | .error e => "\"" ++ e ++ "\""

/-- parse `n` objects of 8 tokens each: tag|-1 nseg x0 y0 z0 x1 y1 z1 -/
def parseObjs : Nat → List String → List (Option Nat × Nat × V3 Float × V3 Float) × List String
  | 0, r => ([], r)
  | n + 1, t :: ns :: x0 :: y0 :: z0 :: x1 :: y1 :: z1 :: r =>
    let (os, rest) := parseObjs n r
    let tag := if t == "-1" then none else some (parseN t)
    ((tag, parseN ns, ⟨parseF x0, parseF y0, parseF z0⟩, ⟨parseF x1, parseF y1, parseF z1⟩) :: os, rest)
  | _, r => ([], r)

def parseQueries : Nat → List String → List (String × Int × Int)
  | 0, _ => []
  | n + 1, k :: a :: b :: r => (k, parseI a, parseI b) :: parseQueries n r
  | _, _ => []

def opTopo (args : List String) : String :=
  match args with
  | "full" :: hg :: minseg :: nobj :: rest =>
    let hasGround := hg == "1"
    -- `parent.min_seglen * 1e-3` with the literal of the current source
    let tol := parseF minseg * Pmn.Const.matchTol.toFloat
    let eps := parseF minseg * Pmn.Const.groundTol.toFloat
    let (raw, rest) := parseObjs (parseN nobj) rest
    match assignTags (raw.map (·.1)) with
    | .error e => "{\"status\":\"" ++ e ++ "\"}"
    | .ok tags =>
      let order := sortByTag tags            -- (tag, creation index)
      let sorted := order.filterMap fun (_, ci) => raw[ci]?
      let ends : List (EndsIn Float) := sorted.map fun (_, ns, p0, p1) =>
        ⟨ns, p0, p1, hasGround && p0.z.abs < eps, hasGround && p1.z.abs < eps⟩
      let ins := matchAll ends tol
      match build ins with
      | .error e => "{\"status\":\"" ++ (match e with | .badSeg => "badSeg" | .badHit => "badHit" | .dup => "dup") ++ "\"}"
      | .ok st =>
        let otags := order.map (·.1)
        let objs := (List.range st.objs.length).filterMap fun k =>
          st.objs[k]?.map fun ob =>
            "{" ++ s!"\"h0\":{jHit ob.inp.h0},\"h1\":{jHit ob.inp.h1},\"g0\":{ob.inp.g0},\"g1\":{ob.inp.g1}," ++
            s!"\"es0\":{jOptNat ob.es0},\"es1\":{jOptNat ob.es1},\"start\":{ob.start},\"count\":{ob.count}," ++
            s!"\"conn0\":{jList ((connList st.objs k 0).map jConn)},\"conn1\":{jList ((connList st.objs k 1).map jConn)}," ++
            s!"\"line0\":{jLine (endLine st.objs k 0)},\"line1\":{jLine (endLine st.objs k 1)}," ++
            s!"\"code0\":{jLine (codeLine (endLine st.objs k 0) 0)},\"code1\":{jLine (codeLine (endLine st.objs k 1) 1)}," ++
            s!"\"pulses\":{jList ((pulsesOf st.objs k).map toString)}" ++ "}"
        let qs := match rest with
          | "Q" :: nq :: r => parseQueries (parseN nq) r
          | _ => []
        let answers := qs.map fun (k, a, b) =>
          if k == "abs" then jExceptNat (resolveAbs st a)
          else if k == "rel" then jExceptNat (resolveRel st otags a b.toNat)
          else if k == "all" then jExceptList (resolveAll st otags (if b < 0 then none else some b.toNat))
          else "\"bad-query\""
        "{\"status\":\"ok\"," ++ s!"\"tags\":{jList (tags.map toString)},\"order\":{jList (order.map fun x => toString x.2)}," ++
          s!"\"objs\":{jList objs},\"pulses\":{jList (st.pulses.map jPulse)},\"answers\":{jList answers}" ++ "}"
  | "minseg" :: nobj :: rest =>
    -- nobj, then per object: count, lengths…  →  bit pattern of the shortest segment
    let rec go : Nat → List String → List (List Float)
      | 0, _ => []
      | n + 1, c :: r =>
        let k := parseN c
        (r.take k).map parseF :: go n (r.drop k)
      | _, _ => []
    let objs := go (parseN nobj) rest
    toString (minSegLen (0.0 : Float) objs).toBits
  | _ => "bad-op"

end Driver
