import Pmn.Model.Near
import Pmn.Model.Const
import Driver.Proto
import Driver.OpsBasic
import Driver.OpsFar
import Driver.OpsFill
open Pmn.Fill Pmn.Near Pmn.Far
namespace Driver

def showCV3 (v : CV3 Float) : String :=
  s!"{showF v.x.re} {showF v.x.im} {showF v.y.re} {showF v.y.im} {showF v.z.re} {showF v.z.im}"

def opNear (args : List String) : String :=
  match args with
  | "fields" :: rest =>
    let prog : P String := do
      let w ← pF; let wavelen ← pF; let hg ← pNat
      let s0 ← pF; let m ← pF; let fe ← pF
      let t2 ← pTable; let t4 ← pTable; let t8 ← pTable
      let np ← pNat
      let ps ← pRepeat pPulseD np
      let cur ← pRepeat (do let a ← pF; let b ← pF; pure (⟨a, b⟩ : Cx Float)) np
      let nq ← pNat
      let qs ← pRepeat pV3 nq
      let c : Ctx Float :=
        { w := w, w2 := w * w / 2, srm := Pmn.Const.srmFactor.toFloat * wavelen, pi := 3.141592653589793,
          ellipk := ellipkF, lg := fun n => if n == 2 then t2 else if n == 4 then t4 else t8,
          exactT := Pmn.Const.exactT.toFloat, g4 := Pmn.Const.gauss4T.toFloat, g2 := Pmn.Const.gauss2T.toFloat }
      let out := qs.map fun v =>
        let e := eField (psi c) c.w2 s0 m fe (hg == 1) v ps cur
        let h := hField (psi c) s0 fe (4 * 3.141592653589793) (hg == 1) v ps cur
        showCV3 e ++ " " ++ showCV3 h
      pure (" ".intercalate out)
    match prog.run rest with
    | some (s, _) => s
    | none => "parse-error"
  | _ => "bad-op"

end Driver
