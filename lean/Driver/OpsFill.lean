import Pmn.Model.Fill
import Pmn.Model.Const
import Driver.Proto
import Driver.OpsBasic
import Driver.OpsFar
open Pmn.Fill
namespace Driver

/-- complete elliptic integral of the first kind K(m) (parameter m) by the AGM -/
def ellipkF (m : Float) : Float :=
  let rec go : Nat → Float → Float → Float
    | 0, a, _ => a
    | n + 1, a, b => go n ((a + b) / 2) (Float.sqrt (a * b))
  3.141592653589793 / (2 * go 40 1.0 (Float.sqrt (1 - m)))

def pSide : P (Side Float) := do
  let len ← pF; let dir ← pV3; let r ← pF; let i6 ← pF; let fend ← pV3
  let sign ← pF; let dsgn ← pF; let gsgn ← pF; let g ← pNat
  pure ⟨len, dir, r, i6, fend, sign, dsgn, gsgn, g == 1⟩

def pPulseD : P (PulseD Float) := do
  let idx ← pNat; let pt ← pV3; let s0 ← pSide; let s1 ← pSide; let owner ← pNat
  let plain ← pNat; let geo0 ← pNat; let nvg ← pNat
  pure ⟨idx, pt, s0, s1, owner, plain == 1, geo0, nvg == 1⟩

def pTable : P (List (Float × Float)) := do
  let n ← pNat
  pRepeat (do let x ← pF; let w ← pF; pure (x, w)) n

def cabs (z : Cx Float) : Float := Float.sqrt (z.re * z.re + z.im * z.im)

def opFill (args : List String) : String :=
  match args with
  | "entries" :: rest =>
    let prog : P String := do
      let specN ← pNat
      let spec := specN == 1
      let w ← pF; let wavelen ← pF; let hg ← pNat
      let t2 ← pTable; let t4 ← pTable; let t8 ← pTable
      let np ← pNat
      let ps ← pRepeat pPulseD np
      let nq ← pNat
      let qs ← pRepeat (do let i ← pNat; let j ← pNat; let x ← pNat; pure (i, j, x == 1)) nq
      let c : Ctx Float :=
        { w := w, w2 := w * w / 2, srm := Pmn.Const.srmFactor.toFloat * wavelen, pi := 3.141592653589793,
          ellipk := ellipkF, lg := fun n => if n == 2 then t2 else if n == 4 then t4 else t8,
          exactT := Pmn.Const.exactT.toFloat, g4 := Pmn.Const.gauss4T.toFloat, g2 := Pmn.Const.gauss2T.toFloat }
      let out := qs.map fun (i, j, x) =>
        match ps[i]?, ps[j]? with
        | some pi, some pj =>
          let z := entryAlgo c (hg == 1) pi pj x
          let zs := if spec then entrySpec c 1e-9 (hg == 1) pi pj x else z
          -- magnitude of the potential terms the entry is composed of (C02 measure)
          let ks : List (Float × Bool) := if hg == 1 && !(pj.s0.gnd || pj.s1.gnd) then [(1, false), (-1, true)] else [(1, false)]
          let sc := ks.foldl (fun acc (k, kn) =>
            let terms := [vecpot (psi c) c k kn pi pj true x, vecpot (psi c) c k kn pi pj false x,
              scapot (psi c) c k kn pi pj true true (sameMid pi.idx pj.idx true true) x,
              scapot (psi c) c k kn pi pj false true (sameMid pi.idx pj.idx false true) x,
              scapot (psi c) c k kn pi pj true false (sameMid pi.idx pj.idx true false) x,
              scapot (psi c) c k kn pi pj false false (sameMid pi.idx pj.idx false false) x]
            terms.foldl (fun a t => if cabs t > a then cabs t else a) acc) 0.0
          let zd := entryK8 (psi c) c 1 false pi pj x (f8Of pi pj)
          s!"{showF z.re} {showF z.im} {showF sc} {showF zs.re} {showF zs.im} {showF zd.re} {showF zd.im}"
        | _, _ => "0 0 0 0 0 0 0"
      pure (" ".intercalate out)
    match prog.run rest with
    | some (s, _) => s
    | none => "parse-error"
  | ["ellipk", m] => showF (ellipkF (parseF m))
  | _ => "bad-op"

end Driver
