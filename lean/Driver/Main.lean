import Pmn.Model.Grid
import Pmn.Model.Fmt
import Driver.Proto
import Driver.OpsTopo
import Driver.OpsCkt
import Driver.OpsSess
import Driver.OpsBasic
import Driver.OpsCmd
import Driver.OpsGuard
import Driver.OpsGeom
import Driver.OpsFar
import Driver.OpsFill
import Driver.OpsNear
import Driver.OpsReport
open Driver

def opGrid (args : List String) : String :=
  match args with
  | ["angles", a, d, n] => showFs (Pmn.Grid.anglesDeg (parseF a) (parseF d) (parseN n))
  | ["axis", s, i, n] => showFs (Pmn.Grid.axis (parseF s) (parseF i) (parseN n))
  | ["oldlen", s, i, n] => toString (Pmn.Grid.oldAxisLen (parseF s) (parseF i) (parseN n))
  | ["near", sx, sy, sz, ix, iy, iz, nx, ny, nz] =>
      let g := Pmn.Grid.nearGrid ⟨parseF sx, parseF sy, parseF sz⟩ ⟨parseF ix, parseF iy, parseF iz⟩
                 (parseN nx) (parseN ny) (parseN nz)
      showFs (g.flatMap fun p => [p.x, p.y, p.z])
  | ["fartable", nz, na] =>
      -- index pairs (zenith index, azimuth index) in table order
      let t := Pmn.Grid.farTable (List.range (parseN nz)) (List.range (parseN na))
      " ".intercalate (t.map fun (z, a) => s!"{z},{a}")
  | _ => "bad-op"

def opFmt (args : List String) : String :=
  match args with
  | ["ff", b, ue] =>
    match Pmn.Fmt.ofBits (parseN b).toUInt64 with
    | none => "nonfinite"
    | some x =>
      let useE := ue == "1"
      let s := Pmn.Fmt.formatFloat x useE
      let v := Pmn.Fmt.fmtVal x useE
      let ok := match Pmn.Fmt.readField s with
        | some r => r.same v
        | none => false
      s!"{hex s} {if ok then 1 else 0} {if v.neg then 1 else 0} {v.n} {v.scale} {v.exp10}"
  | _ => "bad-op"

def dispatch (line : String) : String :=
  match (line.trimAscii.toString.splitOn " ").filter (· ≠ "") with
  | "grid" :: r => opGrid r
  | "fmt" :: r => opFmt r
  | "topo" :: r => opTopo r
  | "ckt" :: r => opCkt r
  | "sess" :: r => opSess r
  | "basic" :: r => opBasic r
  | "cmd" :: r => opCmd r
  | "guard" :: r => opGuard r
  | "geom" :: r => opGeom r
  | "far" :: r => opFar r
  | "fill" :: r => opFill r
  | "near" :: r => opNear r
  | "report" :: r => opReport r
  | _ => "bad-op"

partial def loop (h : IO.FS.Stream) (out : IO.FS.Stream) : IO Unit := do
  let line ← h.getLine
  if line.isEmpty then return ()
  out.putStrLn (dispatch line)
  out.flush
  loop h out

def main : IO Unit := do loop (← IO.getStdin) (← IO.getStdout)
