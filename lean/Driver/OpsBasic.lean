import Pmn.Model.Basic
import Driver.Proto
open Pmn.Basic
namespace Driver

/-- token stream parser state: remaining tokens -/
abbrev P := StateT (List String) Option

def nextTok : P String := do
  let s ← get
  match s with
  | t :: r => set r; pure t
  | [] => failure

def pNat : P Nat := do let t ← nextTok; pure (parseN t)
def pTriple : P (Nat × Nat × Nat) := do
  let a ← pNat; let b ← pNat; let c ← pNat; pure (a, b, c)

def pRepeat {α : Type} (p : P α) : Nat → P (List α)
  | 0 => pure []
  | n + 1 => do let x ← p; let xs ← pRepeat p n; pure (x :: xs)

def pMedium : P (Medium Nat) := do
  let e ← pNat; let s ← pNat; let h ← pNat; let c ← pNat; let nr ← pNat; let rad ← pNat
  pure ⟨e, s, h, c, nr, rad⟩

def pEnv : P (Env Nat) := do
  let k ← nextTok
  if k == "free" then pure .free
  else if k == "ideal" then pure .ideal
  else
    let c ← pNat
    let n ← pNat
    let ms ← pRepeat pMedium n
    pure (.media (c == 1) ms)

def pObj : P (Obj Nat) := do
  let single ← pNat; let nseg ← pNat
  let p1 ← pTriple; let p2 ← pTriple; let r ← pNat
  let ns ← pNat
  let segs ← pRepeat (do let a ← pTriple; let b ← pTriple; let c ← pTriple; pure (a, b, c)) ns
  pure ⟨single == 1, nseg, p1, p2, segs, r⟩

def pSource : P (Source Nat) := do
  let p ← pNat; let m ← pNat; let ph ← pNat; pure ⟨p, m, ph⟩

def pLoad : P (Load Nat) := do
  let k ← nextTok
  if k == "imp" then
    let p ← pNat; let re ← pNat; let im ← pNat; pure (.imp p re im)
  else
    let p ← pNat; let n ← pNat
    let cs ← pRepeat (do let b ← pNat; let a ← pNat; pure (b, a)) n
    pure (.spar p cs)

def pPattern : P (Option (Pattern Nat)) := do
  let k ← nextTok
  if k == "nopat" then pure none
  else
    let ffAbs ← pNat
    let hasPwr ← pNat; let pwr ← pNat; let dist ← pNat
    let zen ← pTriple; let azi ← pTriple
    let g ← nextTok
    pure (some ⟨ffAbs == 1, if hasPwr == 1 then some pwr else none, dist, zen, azi,
      if g == "-" then none else some (unhex g)⟩)

def pNear : P (Option (NearReq Nat)) := do
  let k ← nextTok
  if k == "nonear" then pure none
  else
    let rg : P (Nat × Nat × Int) := do
      let a ← pNat; let b ← pNat; let c ← pNat; pure (a, b, (c : Int))
    let x ← rg; let y ← rg; let z ← rg
    let hasPwr ← pNat; let pwr ← pNat
    pure (some ⟨x, y, z, if hasPwr == 1 then some pwr else none⟩)

def pModel : P (Model Nat × Tail Nat) := do
  let file ← nextTok
  let f ← pNat
  let env ← pEnv
  let no ← pNat
  let objs ← pRepeat pObj no
  let ns ← pNat
  let srcs ← pRepeat pSource ns
  let isS ← pNat
  let nl ← pNat
  let loads ← pRepeat pLoad nl
  let pat ← pPattern
  let nr ← pNear
  pure (⟨unhex file, f, env, objs.flatMap emulate, srcs, isS == 1, loads⟩, ⟨pat, nr⟩)

def showTok : Tok Nat → String
  | .lit s => "L" ++ hex s
  | .int n => "I" ++ toString n
  | .num x fmt => "N" ++ toString x ++ ":" ++ hex fmt

def opBasic (args : List String) : String :=
  match args with
  | "write" :: rest =>
    match (pModel.run rest) with
    | some ((m, tl), _) =>
      let lines := writeAntenna m ++ writeTail tl
      let rt := match readAntenna 0 (writeAntenna m ++ writeTail tl) with
        | some (m', r) => decide (m' = m) && decide (readTail 0 r = some tl)
        | none => false
      (if rt then "1" else "0") ++ " " ++ "|".intercalate (lines.map fun l => ",".intercalate (l.map showTok))
    | none => "parse-error"
  | _ => "bad-op"

end Driver
