import Pmn.Model.Circuit
import Pmn.Model.Const
import Driver.Proto
open Pmn.Circuit

namespace Driver

abbrev CF := Cx Float

def cxOfReal (x : Float) : CF := ⟨x, 0⟩
def showC (z : CF) : String := s!"{showF z.re} {showF z.im}"
def isZeroC (z : CF) : Bool := z.re == 0 && z.im == 0

/-- principal complex square root -/
def csqrt (z : CF) : CF :=
  let r := Float.sqrt (z.re * z.re + z.im * z.im)
  if r == 0 then ⟨0, 0⟩ else
  let a := Float.sqrt ((r + z.re) / 2)
  let b := Float.sqrt ((r - z.re) / 2)
  ⟨a, if z.im < 0 then -b else b⟩

/-- `J0(z)/J1(z)` by backward recurrence of the ratios `r_n = J_n/J_{n-1} = 1/(2n/z − r_{n+1})` -/
def besselRatio (z : CF) : CF :=
  let n0 := (Float.sqrt (z.re * z.re + z.im * z.im)).toUInt64.toNat + 60
  let one : CF := ⟨1, 0⟩
  let rec go : Nat → CF → CF
    | 0, r => r
    | n + 1, r => go n (one / (cxOfReal (2 * Float.ofNat (n + 1)) / z - r))
  -- go n r computes r_1 from r_{n+1}
  one / go n0 ⟨0, 0⟩

def parseOptC (s : String) : Option CF := if s == "n" then none else some (cxOfReal (parseF s))

def parseCs : List String → List CF
  | re :: im :: r => ⟨parseF re, parseF im⟩ :: parseCs r
  | _ => []

def parseReals (n : Nat) (l : List String) : List CF × List String :=
  ((l.take n).map (fun t => cxOfReal (parseF t)), l.drop n)

def parseAtt : Nat → List String → List (Nat × CF)
  | 0, _ => []
  | n + 1, p :: re :: im :: r => (parseN p, ⟨parseF re, parseF im⟩) :: parseAtt n r
  | _, _ => []

def twoPi : Float := 2 * 3.141592653589793

def opCkt (args : List String) : String :=
  match args with
  | "laplace" :: w :: na :: rest =>
    let (a, rest) := parseReals (parseN na) rest
    match rest with
    | nb :: rest =>
      let (b, _) := parseReals (parseN nb) rest
      showC (laplace a b (cxOfReal (parseF w)))
    | _ => "bad-op"
  | ["rlc", w, r, l, c] =>
    let (a, b) := rlcCoeffs isZeroC (parseOptC r) (parseOptC l) (parseOptC c)
    showC (laplace a b (cxOfReal (parseF w)))
  | ["trap", w, r, l, c] =>
    let (a, b) := trapCoeffs (cxOfReal (parseF r)) (cxOfReal (parseF l)) (cxOfReal (parseF c))
    showC (laplace a b (cxOfReal (parseF w)))
  | ["incr", minv, g, zre, zim] =>
    showC (loadIncr (cxOfReal (parseF minv)) (g == "1") ⟨parseF zre, parseF zim⟩)
  | "rhs" :: n :: minv :: gflags :: ns :: rest =>
    let g := fun p => gflags.toList[p]? == some '1'
    let srcs := parseAtt (parseN ns) rest
    let ps := srcs.map (·.1)
    let V := fun i => (srcs[i]?.map (·.2)).getD ⟨0, 0⟩
    " ".intercalate ((rhs (parseN n) (cxOfReal (parseF minv)) g ps V).map showC)
  | "ldiag" :: n :: minv :: gflags :: na :: rest =>
    let g := fun p => gflags.toList[p]? == some '1'
    " ".intercalate ((loadDiag (parseN n) (cxOfReal (parseF minv)) g (parseAtt (parseN na) rest)).map showC)
  | ["srcdata", vre, vim, ire, iim] =>
    let v : CF := ⟨parseF vre, parseF vim⟩
    let i : CF := ⟨parseF ire, parseF iim⟩
    s!"{showC (srcImpedance v i)} {showF (srcPower v i : Float)}"
  | ["zins", a, b, epsr] =>
    showF (insulZins Pmn.Const.mu0.toFloat twoPi Float.log (parseF a) (parseF b) (parseF epsr))
  | ["equivr", a, b, epsr] =>
    showF (equivRadius Float.pow (parseF a) (parseF b) (parseF epsr))
  | ["skin", omg, sigma, r] =>
    let lim := Pmn.Const.skinAsym.toFloat
    showC (skinZint csqrt besselRatio (fun kr => Cx.abs kr < lim)
      (cxOfReal (parseF omg)) (cxOfReal Pmn.Const.mu0.toFloat) (cxOfReal (parseF sigma))
      (cxOfReal (parseF r)) (cxOfReal twoPi))
  | "dist" :: nh :: rest =>
    -- nh halves, each: has(0/1) z.re z.im len  →  impedance of the pulse
    let rec go : Nat → List String → List (Option CF × CF)
      | 0, _ => []
      | n + 1, h :: zr :: zi :: l :: r =>
        ((if h == "1" then some (⟨parseF zr, parseF zi⟩ : CF) else none), cxOfReal (parseF l)) :: go n r
      | _, _ => []
    showC (distImpedance (go (parseN nh) rest))
  | ["distloads", owner, g0, g1, flags] =>
    -- which per-object loads list the pulse; flags: one char per object, '1' = loaded
    let loaded := fun k => flags.toList[k]? == some '1'
    " ".intercalate ((distLoadsOf (parseN owner) (parseN g0) (parseN g1) loaded).map toString)
  | _ => "bad-op"

end Driver
