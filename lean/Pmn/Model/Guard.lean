/-
Pmn.Model.Guard — the fail-safe structure of `main` (C20).

* `Exc`, `isSub`, `caughtBy`: Python's exception classes that the numerical code can raise, their
  subclass relation, and whether an `except (…)` clause (given by the *names* extracted from the
  current source, `Pmn.Const.kernelCaught` / `setupCaught`) catches them.
* `wrapKernel`: the compute loop of `main`: results are collected, a raised exception that the
  clause names becomes the diagnostic (return value 23), results that are not finite become the
  diagnostic, otherwise the report is printed.
* `Field`, `NumClass`, `expected`: the decision table of the validation front end — what `main`
  does when exactly one documented numeric input holds a value of the given class and everything
  else is valid.  (Transcribed from the validation code; compared entry by entry, exhaustively,
  with the implementation on every run.)
-/
import Pmn.Model.Const

namespace Pmn.Guard

inductive Exc where
  | ZeroDivisionError | OverflowError | FloatingPointError | ArithmeticError
  | ValueError | LinAlgError | MemoryError
  | TypeError | IndexError | KeyError | AssertionError | UnboundLocalError
  | OSError | FileNotFoundError | IsADirectoryError | PermissionError | NotImplementedError | RuntimeError
deriving Repr, DecidableEq, Inhabited

def Exc.name : Exc → String
  | .ZeroDivisionError => "ZeroDivisionError" | .OverflowError => "OverflowError"
  | .FloatingPointError => "FloatingPointError" | .ArithmeticError => "ArithmeticError"
  | .ValueError => "ValueError" | .LinAlgError => "LinAlgError" | .MemoryError => "MemoryError"
  | .TypeError => "TypeError" | .IndexError => "IndexError" | .KeyError => "KeyError"
  | .AssertionError => "AssertionError" | .UnboundLocalError => "UnboundLocalError"
  | .OSError => "OSError" | .FileNotFoundError => "FileNotFoundError" | .IsADirectoryError => "IsADirectoryError"
  | .PermissionError => "PermissionError" | .NotImplementedError => "NotImplementedError"
  | .RuntimeError => "RuntimeError"

/-- proper superclasses (Python / NumPy class hierarchy, below `Exception`) -/
def Exc.parent : Exc → Option Exc
  | .ZeroDivisionError => some .ArithmeticError
  | .OverflowError => some .ArithmeticError
  | .FloatingPointError => some .ArithmeticError
  | .LinAlgError => some .ValueError
  | .FileNotFoundError => some .OSError
  | .IsADirectoryError => some .OSError
  | .PermissionError => some .OSError
  | .NotImplementedError => some .RuntimeError
  | _ => none

/-- an `except` clause naming `handlers` catches `e` iff it names `e` or a superclass -/
def caughtBy (handlers : List String) (e : Exc) : Bool :=
  handlers.contains e.name || (match e.parent with
    | some p => handlers.contains p.name
    | none => false) || handlers.contains "Exception" || handlers.contains "BaseException"

inductive Outcome where
  | usage | diag | report | crash (e : Exc) | nonfinite
deriving Repr, DecidableEq, Inhabited

/-- what the numerical part does once the input passed validation -/
inductive Kernel where
  | finite            -- all results finite
  | notFinite         -- some result is nan / inf
  | raises (e : Exc)
deriving Repr, DecidableEq, Inhabited

/-- the compute loop of `main` with its `try … except` and the finiteness test -/
def wrapKernel (handlers : List String) : Kernel → Outcome
  | .finite => .report
  | .notFinite => .diag
  | .raises e => if caughtBy handlers e then .diag else .crash e

/-- exceptions the numerical kernel (NumPy/SciPy linear algebra, number formatting, float
arithmetic, allocation) can raise on validated input -/
def kernelRaises : List Exc :=
  [.ZeroDivisionError, .OverflowError, .FloatingPointError, .ArithmeticError, .ValueError,
   .LinAlgError, .MemoryError]

/-- what writing the requested output files (`--output-basic-input`, `--output-cmdline`) does: the stage
between the construction of the model and the compute loop -/
inductive Output where
  | notRequested | written | raises (e : Exc)
deriving Repr, DecidableEq, Inhabited

/-- the output stage of `main` with its `try … except`: `none` = carry on with the computation -/
def wrapOutput (handlers : List String) : Output → Option Outcome
  | .notRequested => none
  | .written => none
  | .raises e => if caughtBy handlers e then some .diag else some (.crash e)

/-- exceptions the output stage can raise on an accepted model: `open` on a path that does not exist, is a
directory or is not writable; a load combination the BASIC input format cannot express; a number beyond the float
range handed to a `%g` format (an angle count of several hundred digits) -/
def outputRaises : List Exc :=
  [.OSError, .FileNotFoundError, .IsADirectoryError, .PermissionError, .NotImplementedError, .OverflowError]

inductive NumClass where
  | neg | zero | pos | inf | nan
  | word      -- not a number at all: the keyword `all` (legal in one slot only, the pulse of `--attach-load`)
deriving Repr, DecidableEq, Inhabited

def NumClass.all : List NumClass := [.neg, .zero, .pos, .inf, .nan, .word]

inductive Field where
  | frequency | freqSteps | freqIncrement | wireNseg | wireCoord | wireRadius | voltage | load | rlcR | rlcL | rlcC | trapR | laplaceA | laplaceB | skinConductivity | skinResistivity | insulationRadius | insulationEps | geoScale | geoRotateAngle | geoTranslate | geoKey | taperMin | taperMax | mediumEps | mediumSigma | mediumHeight | mediumCoord | radialCount | radialRadius | nfStart | nfInc | nfCount | nfPower | ffPower | ffDistance | thetaStart | thetaCount | phiInc | arcRadius | arcAngle | arcNseg | helixLength | helixTurnlen | helixRadius | helixNseg | excitationPulse | attachLoadIdx | attachPulse
deriving Repr, DecidableEq, Inhabited

def Field.all : List Field := [.frequency, .freqSteps, .freqIncrement, .wireNseg, .wireCoord, .wireRadius, .voltage, .load, .rlcR, .rlcL, .rlcC, .trapR, .laplaceA, .laplaceB, .skinConductivity, .skinResistivity, .insulationRadius, .insulationEps, .geoScale, .geoRotateAngle, .geoTranslate, .geoKey, .taperMin, .taperMax, .mediumEps, .mediumSigma, .mediumHeight, .mediumCoord, .radialCount, .radialRadius, .nfStart, .nfInc, .nfCount, .nfPower, .ffPower, .ffDistance, .thetaStart, .thetaCount, .phiInc, .arcRadius, .arcAngle, .arcNseg, .helixLength, .helixTurnlen, .helixRadius, .helixNseg, .excitationPulse, .attachLoadIdx, .attachPulse]

def Field.name : Field → String
  | .frequency => "frequency"
  | .freqSteps => "freq_steps"
  | .freqIncrement => "freq_increment"
  | .wireNseg => "wire_nseg"
  | .wireCoord => "wire_coord"
  | .wireRadius => "wire_radius"
  | .voltage => "voltage"
  | .load => "load"
  | .rlcR => "rlc_r"
  | .rlcL => "rlc_l"
  | .rlcC => "rlc_c"
  | .trapR => "trap_r"
  | .laplaceA => "laplace_a"
  | .laplaceB => "laplace_b"
  | .skinConductivity => "skin_conductivity"
  | .skinResistivity => "skin_resistivity"
  | .insulationRadius => "insulation_radius"
  | .insulationEps => "insulation_eps"
  | .geoScale => "geo_scale"
  | .geoRotateAngle => "geo_rotate_angle"
  | .geoTranslate => "geo_translate"
  | .geoKey => "geo_key"
  | .taperMin => "taper_min"
  | .taperMax => "taper_max"
  | .mediumEps => "medium_eps"
  | .mediumSigma => "medium_sigma"
  | .mediumHeight => "medium_height"
  | .mediumCoord => "medium_coord"
  | .radialCount => "radial_count"
  | .radialRadius => "radial_radius"
  | .nfStart => "nf_start"
  | .nfInc => "nf_inc"
  | .nfCount => "nf_count"
  | .nfPower => "nf_power"
  | .ffPower => "ff_power"
  | .ffDistance => "ff_distance"
  | .thetaStart => "theta_start"
  | .thetaCount => "theta_count"
  | .phiInc => "phi_inc"
  | .arcRadius => "arc_radius"
  | .arcAngle => "arc_angle"
  | .arcNseg => "arc_nseg"
  | .helixLength => "helix_length"
  | .helixTurnlen => "helix_turnlen"
  | .helixRadius => "helix_radius"
  | .helixNseg => "helix_nseg"
  | .excitationPulse => "excitation_pulse"
  | .attachLoadIdx => "attach_load_idx"
  | .attachPulse => "attach_pulse"

def Field.isInt : Field → Bool
  | .freqSteps => true
  | .wireNseg => true
  | .radialCount => true
  | .nfCount => true
  | .thetaCount => true
  | .arcNseg => true
  | .helixNseg => true
  | .excitationPulse => true
  | .attachLoadIdx => true
  | .attachPulse => true
  | _ => false

/-- outcome of `main` when the field holds a value of the class and everything else is valid -/
def expected : Field → NumClass → Outcome
  | .frequency, .neg => .diag
  | .frequency, .zero => .diag
  | .frequency, .pos => .report
  | .frequency, .inf => .diag
  | .frequency, .nan => .diag
  | .frequency, .word => .usage
  | .freqSteps, .neg => .diag
  | .freqSteps, .zero => .diag
  | .freqSteps, .pos => .report
  | .freqSteps, .inf => .usage
  | .freqSteps, .nan => .usage
  | .freqSteps, .word => .usage
  | .freqIncrement, .neg => .report
  | .freqIncrement, .zero => .report
  | .freqIncrement, .pos => .report
  | .freqIncrement, .inf => .diag
  | .freqIncrement, .nan => .diag
  | .freqIncrement, .word => .usage
  | .wireNseg, .neg => .usage
  | .wireNseg, .zero => .diag
  | .wireNseg, .pos => .report
  | .wireNseg, .inf => .usage
  | .wireNseg, .nan => .usage
  | .wireNseg, .word => .diag
  | .wireCoord, .neg => .report
  | .wireCoord, .zero => .report
  | .wireCoord, .pos => .report
  | .wireCoord, .inf => .diag
  | .wireCoord, .nan => .diag
  | .wireCoord, .word => .diag
  | .wireRadius, .neg => .diag
  | .wireRadius, .zero => .diag
  | .wireRadius, .pos => .report
  | .wireRadius, .inf => .diag
  | .wireRadius, .nan => .diag
  | .wireRadius, .word => .diag
  | .voltage, .neg => .report
  | .voltage, .zero => .diag
  | .voltage, .pos => .report
  | .voltage, .inf => .diag
  | .voltage, .nan => .diag
  | .voltage, .word => .usage
  | .load, .neg => .report
  | .load, .zero => .report
  | .load, .pos => .report
  | .load, .inf => .diag
  | .load, .nan => .diag
  | .load, .word => .usage
  | .rlcR, .neg => .report
  | .rlcR, .zero => .report
  | .rlcR, .pos => .report
  | .rlcR, .inf => .diag
  | .rlcR, .nan => .diag
  | .rlcR, .word => .diag
  | .rlcL, .neg => .report
  | .rlcL, .zero => .report
  | .rlcL, .pos => .report
  | .rlcL, .inf => .diag
  | .rlcL, .nan => .diag
  | .rlcL, .word => .diag
  | .rlcC, .neg => .report
  | .rlcC, .zero => .report
  | .rlcC, .pos => .report
  | .rlcC, .inf => .diag
  | .rlcC, .nan => .diag
  | .rlcC, .word => .diag
  | .trapR, .neg => .report
  | .trapR, .zero => .report
  | .trapR, .pos => .report
  | .trapR, .inf => .diag
  | .trapR, .nan => .diag
  | .trapR, .word => .diag
  | .laplaceA, .neg => .report
  | .laplaceA, .zero => .report
  | .laplaceA, .pos => .report
  | .laplaceA, .inf => .diag
  | .laplaceA, .nan => .diag
  | .laplaceA, .word => .diag
  | .laplaceB, .neg => .report
  | .laplaceB, .zero => .report
  | .laplaceB, .pos => .report
  | .laplaceB, .inf => .diag
  | .laplaceB, .nan => .diag
  | .laplaceB, .word => .diag
  | .skinConductivity, .neg => .diag
  | .skinConductivity, .zero => .diag
  | .skinConductivity, .pos => .report
  | .skinConductivity, .inf => .diag
  | .skinConductivity, .nan => .diag
  | .skinConductivity, .word => .diag
  | .skinResistivity, .neg => .diag
  | .skinResistivity, .zero => .diag
  | .skinResistivity, .pos => .report
  | .skinResistivity, .inf => .diag
  | .skinResistivity, .nan => .diag
  | .skinResistivity, .word => .diag
  | .insulationRadius, .neg => .diag
  | .insulationRadius, .zero => .diag
  | .insulationRadius, .pos => .report
  | .insulationRadius, .inf => .diag
  | .insulationRadius, .nan => .diag
  | .insulationRadius, .word => .diag
  | .insulationEps, .neg => .diag
  | .insulationEps, .zero => .diag
  | .insulationEps, .pos => .report
  | .insulationEps, .inf => .diag
  | .insulationEps, .nan => .diag
  | .insulationEps, .word => .diag
  | .geoScale, .neg => .diag
  | .geoScale, .zero => .diag
  | .geoScale, .pos => .report
  | .geoScale, .inf => .diag
  | .geoScale, .nan => .diag
  | .geoScale, .word => .diag
  | .geoRotateAngle, .neg => .report
  | .geoRotateAngle, .zero => .report
  | .geoRotateAngle, .pos => .report
  | .geoRotateAngle, .inf => .diag
  | .geoRotateAngle, .nan => .diag
  | .geoRotateAngle, .word => .diag
  | .geoTranslate, .neg => .report
  | .geoTranslate, .zero => .report
  | .geoTranslate, .pos => .report
  | .geoTranslate, .inf => .diag
  | .geoTranslate, .nan => .diag
  | .geoTranslate, .word => .diag
  | .geoKey, .neg => .report
  | .geoKey, .zero => .report
  | .geoKey, .pos => .report
  | .geoKey, .inf => .report
  | .geoKey, .nan => .report
  | .geoKey, .word => .diag
  | .taperMin, .neg => .report
  | .taperMin, .zero => .report
  | .taperMin, .pos => .report
  | .taperMin, .inf => .report
  | .taperMin, .nan => .report
  | .taperMin, .word => .diag
  | .taperMax, .neg => .report
  | .taperMax, .zero => .report
  | .taperMax, .pos => .report
  | .taperMax, .inf => .report
  | .taperMax, .nan => .report
  | .taperMax, .word => .diag
  | .mediumEps, .neg => .report
  | .mediumEps, .zero => .report
  | .mediumEps, .pos => .report
  | .mediumEps, .inf => .diag
  | .mediumEps, .nan => .diag
  | .mediumEps, .word => .diag
  | .mediumSigma, .neg => .report
  | .mediumSigma, .zero => .diag
  | .mediumSigma, .pos => .report
  | .mediumSigma, .inf => .diag
  | .mediumSigma, .nan => .diag
  | .mediumSigma, .word => .diag
  | .mediumHeight, .neg => .report
  | .mediumHeight, .zero => .report
  | .mediumHeight, .pos => .report
  | .mediumHeight, .inf => .diag
  | .mediumHeight, .nan => .diag
  | .mediumHeight, .word => .diag
  | .mediumCoord, .neg => .report
  | .mediumCoord, .zero => .report
  | .mediumCoord, .pos => .report
  | .mediumCoord, .inf => .diag
  | .mediumCoord, .nan => .diag
  | .mediumCoord, .word => .diag
  | .radialCount, .neg => .diag
  | .radialCount, .zero => .report
  | .radialCount, .pos => .report
  | .radialCount, .inf => .usage
  | .radialCount, .nan => .usage
  | .radialCount, .word => .usage
  | .radialRadius, .neg => .diag
  | .radialRadius, .zero => .diag
  | .radialRadius, .pos => .report
  | .radialRadius, .inf => .diag
  | .radialRadius, .nan => .diag
  | .radialRadius, .word => .usage
  | .nfStart, .neg => .report
  | .nfStart, .zero => .report
  | .nfStart, .pos => .report
  | .nfStart, .inf => .diag
  | .nfStart, .nan => .diag
  | .nfStart, .word => .diag
  | .nfInc, .neg => .report
  | .nfInc, .zero => .report
  | .nfInc, .pos => .report
  | .nfInc, .inf => .diag
  | .nfInc, .nan => .diag
  | .nfInc, .word => .diag
  | .nfCount, .neg => .diag
  | .nfCount, .zero => .diag
  | .nfCount, .pos => .report
  | .nfCount, .inf => .usage
  | .nfCount, .nan => .usage
  | .nfCount, .word => .diag
  | .nfPower, .neg => .diag
  | .nfPower, .zero => .report
  | .nfPower, .pos => .report
  | .nfPower, .inf => .diag
  | .nfPower, .nan => .diag
  | .nfPower, .word => .usage
  | .ffPower, .neg => .diag
  | .ffPower, .zero => .report
  | .ffPower, .pos => .report
  | .ffPower, .inf => .diag
  | .ffPower, .nan => .diag
  | .ffPower, .word => .usage
  | .ffDistance, .neg => .report
  | .ffDistance, .zero => .report
  | .ffDistance, .pos => .report
  | .ffDistance, .inf => .diag
  | .ffDistance, .nan => .diag
  | .ffDistance, .word => .usage
  | .thetaStart, .neg => .report
  | .thetaStart, .zero => .report
  | .thetaStart, .pos => .report
  | .thetaStart, .inf => .diag
  | .thetaStart, .nan => .diag
  | .thetaStart, .word => .diag
  | .thetaCount, .neg => .report
  | .thetaCount, .zero => .report
  | .thetaCount, .pos => .report
  | .thetaCount, .inf => .usage
  | .thetaCount, .nan => .usage
  | .thetaCount, .word => .diag
  | .phiInc, .neg => .report
  | .phiInc, .zero => .report
  | .phiInc, .pos => .report
  | .phiInc, .inf => .diag
  | .phiInc, .nan => .diag
  | .phiInc, .word => .diag
  | .arcRadius, .neg => .diag
  | .arcRadius, .zero => .diag
  | .arcRadius, .pos => .report
  | .arcRadius, .inf => .diag
  | .arcRadius, .nan => .diag
  | .arcRadius, .word => .diag
  | .arcAngle, .neg => .report
  | .arcAngle, .zero => .report
  | .arcAngle, .pos => .report
  | .arcAngle, .inf => .diag
  | .arcAngle, .nan => .diag
  | .arcAngle, .word => .diag
  | .arcNseg, .neg => .usage
  | .arcNseg, .zero => .diag
  | .arcNseg, .pos => .report
  | .arcNseg, .inf => .usage
  | .arcNseg, .nan => .usage
  | .arcNseg, .word => .diag
  | .helixLength, .neg => .report
  | .helixLength, .zero => .diag
  | .helixLength, .pos => .report
  | .helixLength, .inf => .diag
  | .helixLength, .nan => .diag
  | .helixLength, .word => .diag
  | .helixTurnlen, .neg => .report
  | .helixTurnlen, .zero => .diag
  | .helixTurnlen, .pos => .report
  | .helixTurnlen, .inf => .diag
  | .helixTurnlen, .nan => .diag
  | .helixTurnlen, .word => .diag
  | .helixRadius, .neg => .diag
  | .helixRadius, .zero => .diag
  | .helixRadius, .pos => .report
  | .helixRadius, .inf => .diag
  | .helixRadius, .nan => .diag
  | .helixRadius, .word => .diag
  | .helixNseg, .neg => .usage
  | .helixNseg, .zero => .diag
  | .helixNseg, .pos => .report
  | .helixNseg, .inf => .usage
  | .helixNseg, .nan => .usage
  | .helixNseg, .word => .diag
  | .excitationPulse, .neg => .diag
  | .excitationPulse, .zero => .diag
  | .excitationPulse, .pos => .report
  | .excitationPulse, .inf => .usage
  | .excitationPulse, .nan => .usage
  | .excitationPulse, .word => .diag
  | .attachLoadIdx, .neg => .diag
  | .attachLoadIdx, .zero => .diag
  | .attachLoadIdx, .pos => .report
  | .attachLoadIdx, .inf => .usage
  | .attachLoadIdx, .nan => .usage
  | .attachLoadIdx, .word => .diag
  | .attachPulse, .neg => .diag
  | .attachPulse, .zero => .diag
  | .attachPulse, .pos => .report
  | .attachPulse, .inf => .usage
  | .attachPulse, .nan => .usage
  | .attachPulse, .word => .report

/-- value classes with which the numerical kernel can produce a finite report (independent of the
table: positive quantities, counts ≥ 1, finite values, non-zero values, free parameters) -/
def harmless : Field → NumClass → Bool
  -- strictly positive, finite
  | .frequency, c | .wireRadius, c | .skinConductivity, c | .skinResistivity, c
  | .insulationRadius, c | .geoScale, c | .radialRadius, c | .arcRadius, c | .helixRadius, c
  -- counts and numbers of things: at least one
  | .freqSteps, c | .wireNseg, c | .nfCount, c | .arcNseg, c | .helixNseg, c
  | .excitationPulse, c | .attachLoadIdx, c => c == .pos
  -- the pulse of an attachment: a number ≥ 1 or the keyword `all`
  | .attachPulse, c => c == .pos || c == .word
  -- finite and different from zero
  | .voltage, c | .helixLength, c | .helixTurnlen, c | .insulationEps, c | .mediumSigma, c =>
      c == .neg || c == .pos
  -- ignored when zero, otherwise positive
  | .nfPower, c | .ffPower, c | .radialCount, c => c == .zero || c == .pos
  -- only used for ordering / fail-soft limits / loop counts
  | .geoKey, _ | .taperMin, _ | .taperMax, _ | .thetaCount, _ => true
  -- any finite value
  | _, c => c == .neg || c == .zero || c == .pos


/-- several inputs at once: `argparse` looks at every option before `main` validates anything, so a usage error of any
input wins; otherwise the first diagnostic of `main`'s own validation ends the run; otherwise everything is accepted.
(For inputs that are all evaluated: with `--near-field` and no `--option` only the near field is computed and the far-field
angles are not looked at — then an input that is never evaluated cannot produce its diagnostic.) -/
def composeOutcome (os : List Outcome) : Outcome :=
  if os.any (· == .usage) then .usage
  else match os.find? (· != .report) with
    | some o => o
    | none => .report

/-! ### Which results a run computes (`--option`, `--near-field`), and which inputs those results look at

`main` builds the set `options` from every `--option`; an empty set means *near field* when `--near-field` parameters were
given and *far field* otherwise; `--option=near-field` without parameters is a diagnostic.  The far field is computed when
any option starts with `far`, the near field when `near-field` is in the set.  A few inputs are looked at only by one of
these stages (or, for the distance, only when the V/m table is rendered); everything else is validated while the model is
built or is used by the solve itself, whatever was requested. -/

inductive ResOpt where
  | farField | farAbs | nearField | none
deriving Repr, DecidableEq, Inhabited

structure Selection where
  far : Bool        -- `compute_far_field` runs
  farAbs : Bool     -- the V/m table is rendered
  near : Bool       -- `compute_near_field` runs
deriving Repr, DecidableEq, Inhabited

/-- `none`: the diagnostic "Option near-field needs --near-field parameters" -/
def select (opts : List ResOpt) (nearGiven : Bool) : Option Selection :=
  if opts.contains .nearField && !nearGiven then none
  else some { far := opts.any (fun o => o == .farField || o == .farAbs) || (opts.isEmpty && !nearGiven)
              farAbs := opts.contains .farAbs
              near := opts.contains .nearField || (opts.isEmpty && nearGiven) }

inductive Stage where
  | always | far | farRows | farAbs | near
deriving Repr, DecidableEq, Inhabited

/-- where the diagnostic of a malformed input comes from (`farRows`: in the values computed for each direction of the far
field — with an empty list of directions, a count of zero or less, there is nothing that could fail to be finite) -/
def stage : Field → NumClass → Stage
  | .radialCount, .neg => .farRows
  | .ffPower, .neg => .farRows
  | .ffPower, .inf | .ffPower, .nan => .far
  | .ffDistance, .nan => .far
  | .ffDistance, .inf => .farAbs
  | .thetaStart, .inf | .thetaStart, .nan => .far
  | .phiInc, .inf | .phiInc, .nan => .far
  | .nfPower, .neg | .nfPower, .inf | .nfPower, .nan => .near
  | _, _ => .always

def Selection.runs (s : Selection) (rows : Bool) : Stage → Bool
  | .always => true
  | .far => s.far
  | .farRows => s.far && rows
  | .farAbs => s.farAbs
  | .near => s.near

/-- the far-field table has no rows when the number of zenith angles is zero or negative -/
def farHasRows (inputs : List (Field × NumClass)) : Bool :=
  !inputs.any fun fc => fc.1 == .thetaCount && (fc.2 == .neg || fc.2 == .zero)

/-- the outcome of one input when the results `s` are computed: a diagnostic of a stage that does not run cannot occur -/
def expectedSel (s : Selection) (rows : Bool) (f : Field) (c : NumClass) : Outcome :=
  match expected f c with
  | .diag => if s.runs rows (stage f c) then .diag else .report
  | o => o

/-- validation of a whole command line: the inputs, the result options, whether `--near-field` parameters are present -/
def composeSel (opts : List ResOpt) (nearGiven : Bool) (inputs : List (Field × NumClass)) : Outcome :=
  match select opts nearGiven with
  | none => composeOutcome (inputs.map (fun fc => expected fc.1 fc.2) ++ [.diag])
  | some s => composeOutcome (inputs.map fun fc => expectedSel s (farHasRows inputs) fc.1 fc.2)

end Pmn.Guard
