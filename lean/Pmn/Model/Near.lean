/-
Pmn.Model.Near — near field of the solved pulse currents (mininec.py `compute_near_field`,
`nf_helper`, `psi_near_field_56`), written per observation point, per pulse, per image pass.

  A_p(r)   : vector potential of the two half segments of pulse p (each half with its own
             direction, sign, ground sign, length and radius), per unit current      (`nfA`)
  E(r)     = −j m / s0 · f_e · Σ_k k Σ_p I_p · ( w²/2 · 2 s0 · A_p(r) + ΔΦ_p(r) )
             ΔΦ_p: differences over ±s0/2 along each axis of the potentials of the two charged
             segments of p, divided by the segment lengths                           (`ePulse`)
  H(r)     = f_e / (4 π s0) · central-difference curl over ±s0/2 of Σ_k k Σ_p I_p A_p (`hField`)

The image pass `k = −1` is skipped for pulses on the ground plane.  Generic in the scalar and in
the potential functional.
-/
import Pmn.Model.Fill

namespace Pmn.Near
open Pmn.Fill Pmn.Far

variable {K : Type} [Add K] [Sub K] [Mul K] [Div K] [Neg K] [NatCast K]

section Model
variable [HasSqrt K] [HasTrig K] [HasExpLog K] [LT K] [DecidableLT K] [LE K] [DecidableLE K]

/-- `nf_helper (k, v1, p)`: vector potential of pulse `p` at `v1` per unit current, image factor `k` -/
def nfA (Ψ : PsiFn K) (k : K) (kneg : Bool) (v1 : V3 K) (p : PulseD K) : CV3 K :=
  let half : K := ((1 : Nat) : K) / ((2 : Nat) : K)
  let ab1 := dvecs p true half
  let u := Cx.scale p.s1.sign (Ψ (vsub v1 (kmul k ab1.1)) (vsub v1 (kmul k ab1.2)) kneg half true p false false)
  let ab0 := dvecs p false half
  let v := Cx.scale p.s0.sign (Ψ (vsub v1 (kmul k ab0.1)) (vsub v1 (kmul k ab0.2)) kneg half false p false false)
  ⟨Cx.scale p.s0.dir.x v + Cx.scale p.s1.dir.x u,
   Cx.scale p.s0.dir.y v + Cx.scale p.s1.dir.y u,
   Cx.scale k (Cx.scale (p.s0.gsgn * p.s0.dir.z) v + Cx.scale (p.s1.gsgn * p.s1.dir.z) u)⟩

/-- `psi_near_field_56`: potential of the charged segment on side `pos2` of pulse `p` at `vec1` -/
def psi56 (Ψ : PsiFn K) (k : K) (kneg : Bool) (vec1 : V3 K) (p : PulseD K) (pos2 : Bool) : Cx K :=
  let ab := dvecs p pos2 ((1 : Nat) : K)
  Ψ (vsub vec1 (kmul k ab.1)) (vsub vec1 (kmul k ab.2)) kneg ((1 : Nat) : K) pos2 p false true

/-- unit vector of axis `i` times `d` -/
def axis (i : Nat) (d : K) : V3 K :=
  let z : K := ((0 : Nat) : K)
  match i with
  | 0 => ⟨d, z, z⟩
  | 1 => ⟨z, d, z⟩
  | _ => ⟨z, z, d⟩

/-- component `i` of what pulse `p` contributes to the E-field sum for image factor `k` -/
def eComp (Ψ : PsiFn K) (w2 s0 : K) (k : K) (kneg : Bool) (vec : V3 K) (p : PulseD K) (i : Nat) (a : CV3 K) : Cx K :=
  let h : K := s0 / ((2 : Nat) : K)
  let plus := vadd vec (axis i h)
  let minus := vadd vec (axis i (-h))
  let one : K := ((1 : Nat) : K)
  let u := Cx.scale (one / p.s1.len) (psi56 Ψ k kneg minus p true - psi56 Ψ k kneg plus p true)
  let t := Cx.scale (one / p.s0.len) (psi56 Ψ k kneg plus p false - psi56 Ψ k kneg minus p false)
  let ai := match i with | 0 => a.x | 1 => a.y | _ => a.z
  let d := Cx.scale (w2 * (((2 : Nat) : K) * s0)) ai
  Cx.scale k (u + t + d)

/-- `u56` of one pulse for one image pass -/
def ePulse (Ψ : PsiFn K) (w2 s0 : K) (k : K) (kneg : Bool) (vec : V3 K) (p : PulseD K) : CV3 K :=
  let a := nfA Ψ k kneg vec p
  ⟨eComp Ψ w2 s0 k kneg vec p 0 a, eComp Ψ w2 s0 k kneg vec p 1 a, eComp Ψ w2 s0 k kneg vec p 2 a⟩

/-- is pulse `p` part of image pass `kneg`? (pulses on the ground plane have no image) -/
def active (kneg : Bool) (p : PulseD K) : Bool := !kneg || !(p.s0.gnd || p.s1.gnd)

/-- Σ_p I_p · f p over the pulses that take part in the pass -/
def sumP (kneg : Bool) (f : PulseD K → CV3 K) : List (PulseD K) → List (Cx K) → CV3 K
  | p :: ps, c :: cs =>
    if active kneg p then CV3.add (CV3.smul c (f p)) (sumP kneg f ps cs) else sumP kneg f ps cs
  | _, _ => CV3.zero

/-- the passes: direct, and the image over a ground plane -/
def passes (hasGround : Bool) : List (K × Bool) :=
  let one : K := ((1 : Nat) : K)
  if hasGround then [(one, false), (-one, true)] else [(one, false)]

def sumPasses (hasGround : Bool) (f : K → Bool → CV3 K) : CV3 K :=
  (passes hasGround).foldl (fun acc kb => CV3.add acc (f kb.1 kb.2)) CV3.zero

/-- `e_field` at `vec` (`m` = 4.77783352 λ, `fe = sqrt (pwr / power)`) -/
def eField (Ψ : PsiFn K) (w2 s0 m fe : K) (hasGround : Bool) (vec : V3 K) (ps : List (PulseD K)) (cur : List (Cx K)) : CV3 K :=
  let u78 := sumPasses hasGround fun k kneg => sumP kneg (ePulse Ψ w2 s0 k kneg vec) ps cur
  -- u78 * (−j m / s0) * fe
  CV3.smul (⟨((0 : Nat) : K), -(m / s0) * fe⟩ : Cx K) u78

/-- total vector potential (per `k`-weighted pass) at `v` -/
def aTot (Ψ : PsiFn K) (hasGround : Bool) (v : V3 K) (ps : List (PulseD K)) (cur : List (Cx K)) : CV3 K :=
  sumPasses hasGround fun k kneg => CV3.smul (cxOfReal k) (sumP kneg (nfA Ψ k kneg v) ps cur)

/-- `kf [j8][i]`: total vector potential at `vec ± s0/2` along axis `i` -/
def kf (Ψ : PsiFn K) (s0 : K) (hasGround : Bool) (vec : V3 K) (ps : List (PulseD K)) (cur : List (Cx K))
    (plus : Bool) (i : Nat) : CV3 K :=
  let h : K := s0 / ((2 : Nat) : K)
  aTot Ψ hasGround (vadd vec (axis i (if plus then h else -h))) ps cur

/-- `h_field` at `vec`, by the index arithmetic of the implementation (`h [1] = kf [0][0][2] − kf [1][0][2]` …) -/
def hField (Ψ : PsiFn K) (s0 fe fourPi : K) (hasGround : Bool) (vec : V3 K) (ps : List (PulseD K)) (cur : List (Cx K)) : CV3 K :=
  let kf0 := fun i => kf Ψ s0 hasGround vec ps cur false i
  let kf1 := fun i => kf Ψ s0 hasGround vec ps cur true i
  let hx : Cx K := ((kf1 1).z - (kf0 1).z) + ((kf0 2).y - (kf1 2).y)
  let hy : Cx K := ((kf0 0).z - (kf1 0).z) + ((kf1 2).x - (kf0 2).x)
  let hz : Cx K := ((kf1 0).y - (kf0 0).y) + ((kf0 1).x - (kf1 1).x)
  let fh := fe / s0 / fourPi
  ⟨Cx.scale fh hx, Cx.scale fh hy, Cx.scale fh hz⟩

end Model

end Pmn.Near
