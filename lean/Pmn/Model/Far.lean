/-
Pmn.Model.Far — far field of the solved pulse currents (mininec.py `compute_far_field`,
`Medium.impedance`, `Far_Field_Pattern`), written per direction, per pulse, per half segment.

Each half segment's current moment `I_p · (sign·k·Δ/2) · dir` is placed at the pulse point;
over a ground plane the image pass `k = −1` adds the mirrored moment (ideal ground: sign flip of
the horizontal components; real ground: Fresnel coefficients from the surface impedance of the
medium found at the reflection point).  Grounded pulses: only the real half contributes, in the
`k = +1` pass, with direction `(0, 0, 2·dir_z)`.

Generic in the real scalar `K`; complex numbers are `Cx K`.
-/
import Pmn.Model.Num

namespace Pmn.Far

variable {K : Type} [Add K] [Sub K] [Mul K] [Div K] [Neg K] [NatCast K]

/-- one half of a pulse: `sign`, segment length, direction, "this half is the image half of a
grounded pulse", "the other half is" -/
structure Half (K : Type) where
  sign : K
  seglen : K
  dir : V3 K
  gnd : Bool
  inv : Bool
deriving Repr, Inhabited

structure PulseF (K : Type) where
  pt : V3 K
  h0 : Half K
  h1 : Half K
deriving Repr, Inhabited

/-- one ground medium as the far field sees it: boundary coordinate towards the next medium,
height, surface impedance at the current frequency -/
structure MediumF (K : Type) where
  coord : K
  height : K
  z : Cx K
deriving Repr, Inhabited

inductive Env (K : Type) where
  | free
  | ideal
  | real (circular : Bool) (nradials : Nat) (rradius : K) (media : List (MediumF K))
deriving Repr, Inhabited

def cxZero : Cx K := ⟨((0 : Nat) : K), ((0 : Nat) : K)⟩
def cxOne : Cx K := ⟨((1 : Nat) : K), ((0 : Nat) : K)⟩
def cxOfReal (x : K) : Cx K := ⟨x, ((0 : Nat) : K)⟩
def cxI : Cx K := ⟨((0 : Nat) : K), ((1 : Nat) : K)⟩

/-- complex 3-vector -/
structure CV3 (K : Type) where
  x : Cx K
  y : Cx K
  z : Cx K
deriving Repr, Inhabited

def CV3.zero : CV3 K := ⟨cxZero, cxZero, cxZero⟩
def CV3.add (a b : CV3 K) : CV3 K := ⟨a.x + b.x, a.y + b.y, a.z + b.z⟩
def CV3.smul (c : Cx K) (a : CV3 K) : CV3 K := ⟨c * a.x, c * a.y, c * a.z⟩
/-- real vector times complex amplitude, with a real mask per component -/
def CV3.ofMasked (mask d : V3 K) (b : Cx K) : CV3 K :=
  ⟨Cx.scale (mask.x * d.x) b, Cx.scale (mask.y * d.y) b, Cx.scale (mask.z * d.z) b⟩
/-- projection on a real unit vector -/
def CV3.dotR (a : CV3 K) (u : V3 K) : Cx K := Cx.scale u.x a.x + Cx.scale u.y a.y + Cx.scale u.z a.z

section Dir
variable [HasTrig K]

/-- radial, θ and φ unit vectors for zenith angle `t` and azimuth `p` (radians) -/
def rhat (t p : K) : V3 K := ⟨HasTrig.sin t * HasTrig.cos p, HasTrig.sin t * HasTrig.sin p, HasTrig.cos t⟩
def thetahat (t p : K) : V3 K := ⟨HasTrig.cos t * HasTrig.cos p, HasTrig.cos t * HasTrig.sin p, -HasTrig.sin t⟩
def phihat (p : K) : V3 K := ⟨-HasTrig.sin p, HasTrig.cos p, ((0 : Nat) : K)⟩

/-- `exp (j s)` -/
def cis (s : K) : Cx K := ⟨HasTrig.cos s, HasTrig.sin s⟩

end Dir

section Real
variable [HasTrig K] [HasSqrt K] [HasExpLog K] [LT K] [DecidableLT K] [BEq K]

/-- principal square root of a complex number -/
def csqrt (z : Cx K) : Cx K :=
  let r := HasSqrt.sqrt (z.re * z.re + z.im * z.im)
  let a := HasSqrt.sqrt ((r + z.re) / ((2 : Nat) : K))
  let b := HasSqrt.sqrt ((r - z.re) / ((2 : Nat) : K))
  ⟨a, if z.im < ((0 : Nat) : K) then -b else b⟩

/-- index of the medium at horizontal coordinate `b9`: the first medium whose outer boundary is
not exceeded, medium 0 if `b9` lies beyond every boundary (`np.argmin (b9 > coords)`) -/
def mediumIndex (coords : List K) (b9 : K) : Nat :=
  match coords.findIdx? (fun c => !(decide (c < b9))) with
  | some i => i
  | none => 0

/-- amplitude of a half segment at the pulse point for direction `r̂`, image factor `kz` on z and
a height offset `hh` (twice the medium height) -/
def moment (w : K) (r : V3 K) (pt : V3 K) (kz hh : K) (h : Half K) (cur : Cx K) : Cx K :=
  let f3 := h.sign * w * h.seglen / ((2 : Nat) : K)
  let s2 := w * (pt.x * r.x + pt.y * r.y + kz * (pt.z - hh) * r.z)
  Cx.scale f3 (cis s2 * cur)

/-- contribution of one half segment in the free-space / ideal-ground formula for image factor `k` -/
def halfIdeal (w : K) (t p : K) (k : K) (isK1 : Bool) (pt : V3 K) (h : Half K) (cur : Cx K) : CV3 K :=
  if h.gnd then CV3.zero
  else
    let mask : V3 K :=
      if h.inv then (if isK1 then ⟨((0 : Nat) : K), ((0 : Nat) : K), ((2 : Nat) : K)⟩
                     else ⟨((0 : Nat) : K), ((0 : Nat) : K), ((0 : Nat) : K)⟩)
      else ⟨k, k, ((1 : Nat) : K)⟩
    CV3.ofMasked mask h.dir (moment w (rhat t p) pt k ((0 : Nat) : K) h cur)

/-- contribution of one half segment in the image pass over real ground -/
def halfReal (w : K) (t p : K) (circular : Bool) (nr : Nat) (rr : K) (media : List (MediumF K))
    (pt : V3 K) (h : Half K) (cur : Cx K) : CV3 K :=
  if h.gnd || h.inv then CV3.zero
  else
    let one : K := ((1 : Nat) : K)
    let ct := HasTrig.cos t
    let st := HasTrig.sin t
    let t4 := if ct == ((0 : Nat) : K) then ((100000 : Nat) : K) else (-pt.z * (-st)) / ct
    let b9lin := t4 * HasTrig.cos p + pt.x
    let b9 := if circular then
        HasSqrt.sqrt (b9lin * b9lin + (t4 * HasTrig.sin p + pt.y) * (t4 * HasTrig.sin p + pt.y))
      else b9lin
    let j2 := mediumIndex (media.map (·.coord)) b9
    let md := (media[j2]?).getD ⟨one, ((0 : Nat) : K), cxZero⟩
    let z45 : Cx K :=
      if nr ≠ 0 ∧ j2 = 0 then
        let prod := (nr : K) * rr
        let r := b9 + prod
        let z8 := w * r * HasExpLog.log (r / prod) / (nr : K)
        let jz8 : Cx K := ⟨((0 : Nat) : K), z8⟩
        (md.z * jz8) / (md.z + jz8)
      else md.z
    let w67 := csqrt (cxOne - Cx.scale (st * st) (z45 * z45))
    let cct : Cx K := cxOfReal ct
    let v89 := (cct - w67 * z45) / (cct + w67 * z45)
    let h89 := (w67 - cct * z45) / (w67 + cct * z45) - v89
    let hh := md.height * ((2 : Nat) : K)
    let kz : K := -one
    let b := moment w (rhat t p) pt kz hh h cur
    let dd := (-HasTrig.sin p) * h.dir.x + HasTrig.cos p * h.dir.y
    let z67 := Cx.scale dd (b * h89)
    -- mask (k, k, 1) with k = -1
    let bx := Cx.scale h.dir.x (b * v89) + Cx.scale (-HasTrig.sin p) z67
    let by' := Cx.scale h.dir.y (b * v89) + Cx.scale (HasTrig.cos p) z67
    let bz := Cx.scale h.dir.z (b * v89)
    ⟨Cx.scale kz bx, Cx.scale kz by', bz⟩

/-- everything one pulse contributes to the vector amplitude `G` for direction (t, p) -/
def pulseG (env : Env K) (w t p : K) (pu : PulseF K) (cur : Cx K) : CV3 K :=
  let one : K := ((1 : Nat) : K)
  let direct := CV3.add (halfIdeal w t p one true pu.pt pu.h0 cur) (halfIdeal w t p one true pu.pt pu.h1 cur)
  match env with
  | .free => direct
  | .ideal =>
    CV3.add direct (CV3.add (halfIdeal w t p (-one) false pu.pt pu.h0 cur) (halfIdeal w t p (-one) false pu.pt pu.h1 cur))
  | .real c nr rr media =>
    CV3.add direct (CV3.add (halfReal w t p c nr rr media pu.pt pu.h0 cur) (halfReal w t p c nr rr media pu.pt pu.h1 cur))

/-- vector amplitude `G (r̂) = Σ_p (pulse p)` -/
def gvec (env : Env K) (w t p : K) : List (PulseF K) → List (Cx K) → CV3 K
  | pu :: ps, c :: cs => CV3.add (pulseG env w t p pu c) (gvec env w t p ps cs)
  | _, _ => CV3.zero

/-- `h12 = −j g0 G·θ̂`, `x34 = −j g0 G·φ̂` -/
def h12 (g0 : K) (g : CV3 K) (t p : K) : Cx K :=
  Cx.scale g0 (CV3.dotR g (thetahat t p)) * (⟨((0 : Nat) : K), -((1 : Nat) : K)⟩ : Cx K)

def x34 (g0 : K) (g : CV3 K) (p : K) : Cx K :=
  Cx.scale g0 (CV3.dotR g (phihat p)) * (⟨((0 : Nat) : K), -((1 : Nat) : K)⟩ : Cx K)

/-- linear gains (vertical, horizontal, total) with `k9 = k9c / P` -/
def linGains (k9c power : K) (a b : Cx K) : K × K × K :=
  let k9 := k9c / power
  let t1 := k9 * (a.re * a.re + a.im * a.im)
  let t2 := k9 * (b.re * b.re + b.im * b.im)
  (t1, t2, t1 + t2)

/-- dBi with the floor for vanishing gain -/
def toDb (thresh floor : K) (x : K) : K :=
  if thresh < x then HasExpLog.log x / HasExpLog.log ((10 : Nat) : K) * ((10 : Nat) : K) else floor

/-- field strength in V/m: `h12 / r · sqrt (P_req / P)` (r = 0 means "no distance given") -/
def eField (a : Cx K) (rd ratio : K) : Cx K :=
  let a := if rd == ((0 : Nat) : K) then a else ⟨a.re / rd, a.im / rd⟩
  Cx.scale (HasSqrt.sqrt ratio) a

/-- `Medium.impedance`: `1 / sqrt (ε − j σ / (2π f · 8.85e-6))` -/
def surfaceZ (eps sigma tfac : K) : Cx K :=
  cxOne / csqrt ⟨eps, -(sigma / tfac)⟩

end Real

end Pmn.Far
