/-
Pmn.Model.Topo — which current pulses exist, where they sit, how they are numbered and
addressed (mininec.py: `Geo_Container.compute_tags`, `Geobj.compute_connections`,
`Connected_Geobj`, `Pulse_Container.add`, `register_source`, `register_load`,
`currents_as_mininec`).  Discrete; core Lean only.

The geometric part (which wire end meets which) is `matchAll`; its result per object end is a
*hit*: `none` — the end is the first one at its point (it "registers"), or
`some (n2, other)` — it attaches to end `n2` of the earlier object `other` that registered there.
Everything else (`build`) is a function of segment counts, ground flags and hits.

State kept per object is what the implementation keeps: `conn` lists are *derived* from the hits
(`connList`) and compared entry by entry, in order, with `Connected_Geobj.list`.
-/
import Pmn.Model.Num

namespace Pmn.Topo

/-- one geometry object as `compute_connections` sees it (objects are in tag order) -/
structure ObjIn where
  nseg : Nat
  g0 : Bool
  g1 : Bool
  h0 : Option (Nat × Nat)
  h1 : Option (Nat × Nat)
deriving Repr, DecidableEq, Inhabited

def ObjIn.ground (o : ObjIn) (e : Nat) : Bool := if e = 0 then o.g0 else o.g1
def ObjIn.hit (o : ObjIn) (e : Nat) : Option (Nat × Nat) := if e = 0 then o.h0 else o.h1

/-- a current pulse: the two objects whose segments it joins, the direction signs of the two
halves, the grounded half (if any) and the object in whose block it is listed -/
structure Pulse where
  geo0 : Nat
  geo1 : Nat
  sgn0 : Int
  sgn1 : Int
  gnd : Option Nat
  owner : Nat
deriving Repr, DecidableEq, Inhabited

/-- what is remembered of a processed object -/
structure Obj where
  inp : ObjIn
  start : Nat                -- global index of its first pulse
  count : Nat                -- number of pulses it owns
  es0 : Option Nat           -- end_segs [0]
  es1 : Option Nat           -- end_segs [1]
deriving Repr, DecidableEq, Inhabited

structure State where
  objs : List Obj := []
  pulses : List Pulse := []
deriving Repr, DecidableEq, Inhabited

inductive Err where
  | badSeg        -- fewer than one segment
  | badHit        -- a hit that `matchAll` cannot produce (not a registered, earlier, non-ground end)
  | dup           -- `assert geobj not in self.geo` in `Connected_Geobj.add`
deriving Repr, DecidableEq, Inhabited

/-- `s = -1 if n2 == n1 else 1` in `_add_conn` -/
def sgnOf (n2 n1 : Nat) : Int := if n2 = n1 then -1 else 1

/-- the object closes on itself: its second end attaches to its own first end -/
def selfLoop (n : Nat) (o : ObjIn) : Bool := o.h1 == some (0, n)

/-- `Geobj.idx (e)` at the time object `n` is processed -/
def idxAt (n : Nat) (o : ObjIn) (e : Nat) : Int :=
  if o.ground e then -((n : Int) + 1)
  else match o.hit e with
    | some (n2, other) => ((other : Int) + 1) * sgnOf n2 e
    | none => if e = 0 ∧ selfLoop n o then (n : Int) + 1 else 0

def isign (i : Int) : Int := if i < 0 then -1 else if i = 0 then 0 else 1

/-- pulse(s) created at the first end -/
def firstPulses (n : Nat) (o : ObjIn) : List Pulse :=
  let i0 := idxAt n o 0
  if i0 ≠ 0 ∧ i0.natAbs - 1 ≠ n then [⟨i0.natAbs - 1, n, isign i0, 1, none, n⟩]
  else if o.g0 then [⟨n, n, 1, 1, some 0, n⟩]
  else []

/-- pulse(s) created at the second end -/
def lastPulses (n : Nat) (o : ObjIn) : List Pulse :=
  let i1 := idxAt n o 1
  if o.g1 then [⟨n, n, 1, 1, some 1, n⟩]
  else if i1 ≠ 0 then [⟨n, i1.natAbs - 1, 1, isign i1, none, n⟩]
  else []

/-- all pulses object `n` creates, in creation order -/
def mkPulses (n : Nat) (o : ObjIn) : List Pulse :=
  firstPulses n o ++ List.replicate (o.nseg - 1) ⟨n, n, 1, 1, none, n⟩ ++ lastPulses n o

def b2n (b : Bool) : Nat := if b then 1 else 0

/-- `npulse` of `compute_connections` -/
def npulse (n : Nat) (o : ObjIn) : Nat :=
  o.nseg - b2n (idxAt n o 0 == 0) - b2n (idxAt n o 1 == 0) - b2n (selfLoop n o)

def endSeg0 (n : Nat) (o : ObjIn) (start : Nat) : Option Nat :=
  if o.nseg = 1 ∧ idxAt n o 0 = 0 then none else some start

def endSeg1 (n : Nat) (o : ObjIn) (start : Nat) : Option Nat :=
  if o.nseg = 1 ∧ idxAt n o 1 = 0 then none else some (start + npulse n o)

/-- is end `e` of processed object `k` one that registered (first at its point)? -/
def isRegistrant (objs : List Obj) (k e : Nat) : Bool :=
  match objs[k]? with
  | some ob => e < 2 && !ob.inp.ground e && (ob.inp.hit e).isNone
  | none => false

/-- validity of the hits of object `n` against the objects processed so far -/
def hitOk (objs : List Obj) (n : Nat) (o : ObjIn) (e : Nat) : Bool :=
  match o.hit e with
  | none => true
  | some (n2, other) =>
    !o.ground e &&
    (isRegistrant objs other n2 ||
      (e == 1 && other == n && n2 == 0 && !o.g0 && o.h0.isNone))

/-- process one object (the discrete part of `Geobj.compute_connections`) -/
def step (st : State) (o : ObjIn) : Except Err State :=
  let n := st.objs.length
  if o.nseg = 0 then .error .badSeg
  else if !(hitOk st.objs n o 0 && hitOk st.objs n o 1) then .error .badHit
  else if o.h0.isSome && o.h0 == o.h1 then .error .dup
  else
    let start := st.pulses.length
    let ps := mkPulses n o
    .ok { objs := st.objs ++ [⟨o, start, ps.length, endSeg0 n o start, endSeg1 n o start⟩],
          pulses := st.pulses ++ ps }

def build (objs : List ObjIn) : Except Err State :=
  objs.foldlM step {}

/-! ### derived: `Connected_Geobj.list`, junction lines of the current report -/

structure Conn where
  geobj : Nat
  ow : Nat
  endIdx : Nat
  sign : Int
deriving Repr, DecidableEq, Inhabited

/-- entries appended to `conn [e]` of object `k` by the ends of object `b` (both ends, in the
order the implementation processes them) -/
def connFrom (k e : Nat) (b : Nat) (ob : ObjIn) : List Conn :=
  ([0, 1] : List Nat).flatMap fun eb =>
    match ob.hit eb with
    | none => []
    | some (n2, other) =>
      -- `other.conn [n2].add (self, self, n1, s, s)` then `self.conn [n1].add (other, self, n1, 1, s)`
      (if other = k ∧ n2 = e then [⟨b, b, eb, sgnOf n2 eb⟩] else []) ++
      (if b = k ∧ eb = e then [⟨other, b, eb, 1⟩] else [])

/-- `objs [k].conn [e].list`, in insertion order -/
def connList (objs : List Obj) (k e : Nat) : List Conn :=
  (List.range objs.length).flatMap fun b =>
    match objs[b]? with
    | some ob => connFrom k e b ob.inp
    | none => []

def endSegOf (objs : List Obj) (k e : Nat) : Option Nat :=
  match objs[k]? with
  | some ob => if e = 0 then ob.es0 else ob.es1
  | none => none

/-- insertion sort by `geobj` (stable), as `sorted (self.list, key = lambda x: x [0].n)` -/
def insertConn (c : Conn) : List Conn → List Conn
  | [] => [c]
  | d :: r => if c.geobj < d.geobj then c :: d :: r else d :: insertConn c r

def sortConn (l : List Conn) : List Conn := l.foldl (fun acc c => insertConn c acc) []

/-- `Connected_Geobj.pulse_iter`: (pulse index, sign) sorted by geo index -/
def pulseIter (objs : List Obj) (k e : Nat) : List (Option Nat × Int) :=
  (sortConn (connList objs k e)).map fun c => (endSegOf objs c.ow c.endIdx, c.sign)

/-- what the current table prints at end `e` of object `k` -/
inductive EndLine where
  | none                                  -- grounded end: no line
  | E                                     -- free end: `E 0 0 0 0`
  | J (terms : List (Option Nat × Int))   -- junction line, value = combination of pulse currents
deriving Repr, DecidableEq, Inhabited

def endLine (objs : List Obj) (k e : Nat) : EndLine :=
  match objs[k]? with
  | none => .none
  | some ob =>
    if ob.inp.ground e then .none
    else
      let t := pulseIter objs k e
      if t.isEmpty then .E else .J t

/-- the terms the *current* code adds up for a junction line: at the first end only the last
term survives (`c = s * …`, mininec.py `currents_as_mininec`), at the second end all (`c += …`) -/
def codeTerms (e : Nat) (t : List (Option Nat × Int)) : List (Option Nat × Int) :=
  if e = 0 then (match t.getLast? with | some x => [x] | none => []) else t

/-! ### tags and addressing -/

/-- `Geo_Container.compute_tags`: explicit tags must be positive and distinct; automatic tags
continue after the largest explicit one; returns the tag of every object in *creation* order -/
def assignTags (tags : List (Option Nat)) : Except String (List Nat) :=
  let explicit := tags.filterMap id
  if explicit.any (· == 0) then .error "tag-not-allowed"
  else if !explicit.Nodup then .error "duplicate-tag"
  else
    let mx := explicit.foldl max 0
    let rec go (ts : List (Option Nat)) (next : Nat) : List Nat :=
      match ts with
      | [] => []
      | some t :: r => t :: go r next
      | none :: r => (next + 1) :: go r (next + 1)
    .ok (go tags mx)

/-- insertion into a list sorted by tag (stable) -/
def insertByTag (x : Nat × Nat) : List (Nat × Nat) → List (Nat × Nat)
  | [] => [x]
  | y :: r => if x.1 < y.1 then x :: y :: r else y :: insertByTag x r

/-- processing order: creation indices sorted by tag (`self.geo.sort (key = tag)`, stable) -/
def sortByTag (tags : List Nat) : List (Nat × Nat) :=
  tags.zipIdx.foldl (fun acc x => insertByTag x acc) []

/-- indices of the pulses listed in the block of object `k` (`geobj.pulses`) -/
def pulsesOf (objs : List Obj) (k : Nat) : List Nat :=
  match objs[k]? with
  | some ob => (List.range ob.count).map (· + ob.start)
  | none => []

/-- absolute addressing (0-based `pulse`), `register_source` / `register_load` -/
def resolveAbs (st : State) (pulse : Int) : Except String Nat :=
  if pulse < 0 then .error "pulse-tag-must-be-ge-1"
  else if pulse.toNat ≥ st.pulses.length then .error "invalid-pulse"
  else .ok pulse.toNat

/-- per-object addressing: pulse `pulse` (0-based) of the object with tag `tag`;
`otags` are the tags of the objects in processing order -/
def resolveRel (st : State) (otags : List Nat) (pulse : Int) (tag : Nat) : Except String Nat :=
  if pulse < 0 then .error "pulse-tag-must-be-ge-1"
  else match otags.idxOf? tag with
    | none => .error "invalid-geo-tag"
    | some k =>
      match (pulsesOf st.objs k)[pulse.toNat]? with
      | some p => .ok p
      | none => .error "invalid-pulse-for-object"

/-- all pulses of one object / of the antenna (load attachment without pulse number) -/
def resolveAll (st : State) (otags : List Nat) (tag : Option Nat) : Except String (List Nat) :=
  match tag with
  | none => .ok ((List.range st.objs.length).flatMap (pulsesOf st.objs))
  | some t => match otags.idxOf? t with
    | none => .error "invalid-geo-tag"
    | some k => .ok (pulsesOf st.objs k)

/-! ### geometric end matching -/

section Match
variable {K : Type} [Add K] [Sub K] [Mul K] [HasSqrt K] [BEq K] [LE K] [DecidableLE K]

structure EndsIn (K : Type) where
  nseg : Nat
  p0 : V3 K
  p1 : V3 K
  g0 : Bool
  g1 : Bool

def veq (a b : V3 K) : Bool := a.x == b.x && a.y == b.y && a.z == b.z

/-- look up a point in `end_dict`: exact tuple first, then the first entry within `tol` -/
def lookup (reg : List (V3 K × (Nat × Nat))) (p : V3 K) (tol : K) : Option ((Nat × Nat) × Bool) :=
  match reg.find? (fun r => veq r.1 p) with
  | some r => some (r.2, true)
  | none =>
    match reg.find? (fun r => decide (V3.norm (p - r.1) ≤ tol)) with
    | some r => some (r.2, false)
    | none => none

/-- hits of all objects, processing them in order (the geometric half of `compute_connections`) -/
def matchAll (objs : List (EndsIn K)) (tol : K) : List ObjIn :=
  let rec go (os : List (EndsIn K)) (n : Nat) (reg : List (V3 K × (Nat × Nat))) : List ObjIn :=
    match os with
    | [] => []
    | o :: r =>
      let (h0, reg) :=
        if o.g0 then (none, reg) else
        match lookup reg o.p0 tol with
        | some (v, exact) => (some v, if exact then reg else reg ++ [(o.p0, v)])
        | none => (none, reg ++ [(o.p0, (0, n))])
      let (h1, reg) :=
        if o.g1 then (none, reg) else
        match lookup reg o.p1 tol with
        | some (v, exact) => (some v, if exact then reg else reg ++ [(o.p1, v)])
        | none => (none, reg ++ [(o.p1, (1, n))])
      ⟨o.nseg, o.g0, o.g1, h0, h1⟩ :: go r (n + 1) reg
  go objs 0 []

end Match

/-! ### the shortest segment (`Geobj.min_seglen`, `Geo_Container.compute_segments`) -/

section MinSeg
variable {K : Type}

/-- minimum of a non-empty list, `d` for the empty one (`min (s.seg_len for s in segments)`) -/
def minOf [LT K] [DecidableRel (α := K) (· < ·)] (d : K) : List K → K
  | [] => d
  | x :: r => r.foldl (fun m y => if y < m then y else m) x

/-- shortest segment of a structure: the minimum over the objects of the minimum over their segment lengths -/
def minSegLen [LT K] [DecidableRel (α := K) (· < ·)] (d : K) (objs : List (List K)) : K :=
  minOf d (objs.map (minOf d))

/-- the former rule: a tapered wire and a curve reported the length of their *first* segment -/
def minSegLenFirst [LT K] [DecidableRel (α := K) (· < ·)] (d : K) (objs : List (List K)) : K :=
  minOf d (objs.map (fun l => l.headD d))

end MinSeg

end Pmn.Topo
