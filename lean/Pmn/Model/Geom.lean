/-
Pmn.Model.Geom — segmentation of geometry objects and geometric transformations
(mininec.py: `Wire.compute_equal_segments`, `Arc.__init__`, `Helix.__init__`, `Rotation_Matrix`,
`Geo_Container.rotate/translate/scale`; taper.py: `taper1`, `taper2`).

Generic in the scalar; executed with `Float`, reasoned about with `ℝ`.
-/
import Pmn.Model.Num

namespace Pmn.Geom

section Basic
variable {K : Type} [Add K] [Sub K] [Mul K] [Div K] [Neg K] [NatCast K]

/-- `Wire.compute_equal_segments`: `s_i = p1 + ((i+1)·dirvec)·seg_len`, chained -/
def equalEnds [HasSqrt K] (p1 p2 : V3 K) (n : Nat) : List (V3 K) :=
  let diff := p2 - p1
  let len := V3.norm diff
  let dir : V3 K := ⟨diff.x / len, diff.y / len, diff.z / len⟩
  let sl := len / (n : K)
  (List.range n).map fun (i : Nat) =>
    (⟨p1.x + (((i + 1 : Nat) : K) * dir.x) * sl, p1.y + (((i + 1 : Nat) : K) * dir.y) * sl,
      p1.z + (((i + 1 : Nat) : K) * dir.z) * sl⟩ : V3 K)

/-- pair consecutive points `start, e_0, e_1, …` into segments -/
def chain : V3 K → List (V3 K) → List (V3 K × V3 K)
  | _, [] => []
  | s, e :: r => (s, e) :: chain e r

def equalSegments [HasSqrt K] (p1 p2 : V3 K) (n : Nat) : List (V3 K × V3 K) :=
  chain p1 (equalEnds p1 p2 n)

/-- segment end points of an arc (`Arc.__init__`): angles in degrees from +X towards +Z -/
def arcEnds [HasTrig K] (n : Nat) (radius ang1 ang2 : K) : List (V3 K) :=
  let a1 := ang1 / ((180 : Nat) : K) * HasTrig.pi
  let a2 := ang2 / ((180 : Nat) : K) * HasTrig.pi
  ((List.range n).map fun (i : Nat) =>
    let a := a1 + (a2 - a1) / (n : K) * (i : K)
    (⟨radius * HasTrig.cos a, ((0 : Nat) : K), radius * HasTrig.sin a⟩ : V3 K)) ++
  [⟨radius * HasTrig.cos a2, ((0 : Nat) : K), radius * HasTrig.sin a2⟩]

/-- one helix point: fraction `f` of the length, radii interpolated; `fmod` is Python's `%` -/
def helixPoint [HasTrig K] (fmod : K → K → K) (absK : K → K) (s : K) (neg : Bool)
    (length turnlen xm ym z : K) : V3 K :=
  let a := s * (fmod z (absK turnlen)) / absK turnlen * ((2 : Nat) : K) * HasTrig.pi
  if neg then ⟨(-xm) * HasTrig.sin a, ym * HasTrig.cos a, z⟩
  else ⟨xm * HasTrig.cos a, ym * HasTrig.sin a, z⟩

/-- segment end points of a generalised helix (`Helix.__init__`); `s = sign (length·turnlen)`,
`neg = (length < 0)` are passed by the caller -/
def helixEnds [HasTrig K] (fmod : K → K → K) (absK : K → K) (s : K) (neg : Bool) (n : Nat)
    (length turnlen rx1 ry1 rx2 ry2 : K) : List (V3 K) :=
  ((List.range n).map fun (i : Nat) =>
    let f := (i : K) / (n : K)
    let z := f * absK length
    let xm := f * (rx2 - rx1) + rx1
    let ym := f * (ry2 - ry1) + ry1
    helixPoint fmod absK s neg length turnlen xm ym z) ++
  [helixPoint fmod absK s neg length turnlen rx2 ry2 (absK length)]

/-- 3×3 matrices as rows -/
structure M3 (K : Type) where
  r0 : V3 K
  r1 : V3 K
  r2 : V3 K
deriving Repr, Inhabited

def M3.col0 (m : M3 K) : V3 K := ⟨m.r0.x, m.r1.x, m.r2.x⟩
def M3.col1 (m : M3 K) : V3 K := ⟨m.r0.y, m.r1.y, m.r2.y⟩
def M3.col2 (m : M3 K) : V3 K := ⟨m.r0.z, m.r1.z, m.r2.z⟩

def M3.mulVec (m : M3 K) (v : V3 K) : V3 K := ⟨V3.dot m.r0 v, V3.dot m.r1 v, V3.dot m.r2 v⟩

def M3.mul (a b : M3 K) : M3 K :=
  ⟨⟨V3.dot a.r0 b.col0, V3.dot a.r0 b.col1, V3.dot a.r0 b.col2⟩,
   ⟨V3.dot a.r1 b.col0, V3.dot a.r1 b.col1, V3.dot a.r1 b.col2⟩,
   ⟨V3.dot a.r2 b.col0, V3.dot a.r2 b.col1, V3.dot a.r2 b.col2⟩⟩

def M3.transpose (m : M3 K) : M3 K := ⟨m.col0, m.col1, m.col2⟩

def M3.one : M3 K :=
  ⟨⟨((1 : Nat) : K), ((0 : Nat) : K), ((0 : Nat) : K)⟩, ⟨((0 : Nat) : K), ((1 : Nat) : K), ((0 : Nat) : K)⟩,
   ⟨((0 : Nat) : K), ((0 : Nat) : K), ((1 : Nat) : K)⟩⟩

def rotX [HasTrig K] (a : K) : M3 K :=
  ⟨⟨((1 : Nat) : K), ((0 : Nat) : K), ((0 : Nat) : K)⟩,
   ⟨((0 : Nat) : K), HasTrig.cos a, -HasTrig.sin a⟩,
   ⟨((0 : Nat) : K), HasTrig.sin a, HasTrig.cos a⟩⟩

def rotY [HasTrig K] (a : K) : M3 K :=
  ⟨⟨HasTrig.cos a, ((0 : Nat) : K), HasTrig.sin a⟩,
   ⟨((0 : Nat) : K), ((1 : Nat) : K), ((0 : Nat) : K)⟩,
   ⟨-HasTrig.sin a, ((0 : Nat) : K), HasTrig.cos a⟩⟩

def rotZ [HasTrig K] (a : K) : M3 K :=
  ⟨⟨HasTrig.cos a, -HasTrig.sin a, ((0 : Nat) : K)⟩,
   ⟨HasTrig.sin a, HasTrig.cos a, ((0 : Nat) : K)⟩,
   ⟨((0 : Nat) : K), ((0 : Nat) : K), ((1 : Nat) : K)⟩⟩

/-- `Rotation_Matrix`: angles in degrees, `rot_z @ rot_y @ rot_x`, the identity for an angle that
is zero (Python truthiness) -/
def rotMatrix [HasTrig K] (isZero : K → Bool) (rx ry rz : K) : M3 K :=
  let rad := fun (d : K) => d / ((180 : Nat) : K) * HasTrig.pi
  let mx := if isZero rx then M3.one else rotX (rad rx)
  let my := if isZero ry then M3.one else rotY (rad ry)
  let mz := if isZero rz then M3.one else rotZ (rad rz)
  M3.mul (M3.mul mz my) mx

end Basic

/-! ### transformation pipeline -/

inductive TKind where
  | rotate | translate
deriving Repr, DecidableEq, Inhabited

/-- one `--geo-rotate` / `--geo-translate` option: sort key, kind, vector, optional tag -/
structure Transform (K : Type) where
  key : K
  kind : TKind
  vec : V3 K
  tag : Option Nat
deriving Repr, Inhabited

section Pipeline
variable {K : Type} [LT K] [DecidableLT K]

/-- stable insertion by key -/
def insertT (t : Transform K) : List (Transform K) → List (Transform K)
  | [] => [t]
  | u :: r => if t.key < u.key then t :: u :: r else u :: insertT t r

/-- `sorted (geo_transforms, key = …)` over rotations followed by translations (the order in which
`main` collects them) -/
def orderTransforms (rots transl : List (Transform K)) : List (Transform K) :=
  (rots ++ transl).foldl (fun acc t => insertT t acc) []

/-- is it a `--geo-rotate` -/
def isRot (t : Transform K) : Bool :=
  match t.kind with
  | .rotate => true
  | .translate => false

/-- what `main` makes of the transformation options of a command line written by `Geo_Container.as_cmdline` (which
writes `self.transforms` in the order they were applied, rotations and translations mixed): all rotations, then all
translations, stably sorted by key -/
def readTransforms (opts : List (Transform K)) : List (Transform K) :=
  orderTransforms (opts.filter isRot) (opts.filter (fun t => !isRot t))

end Pipeline

section Apply
variable {K : Type} [Add K] [Sub K] [Mul K] [Div K] [Neg K] [NatCast K] [HasTrig K]
  [LT K] [DecidableLT K]

/-- does an option with optional tag `t` act on the object tagged `tg` (no tag: every object) -/
def actsOn (t : Option Nat) (tg : Nat) : Bool :=
  match t with
  | none => true
  | some u => u == tg

/-- `Geobj.rotate` / `Geobj.translate` on one point of the object tagged `tg` -/
def applyT (isZero : K → Bool) (t : Transform K) (tg : Nat) (p : V3 K) : V3 K :=
  if actsOn t.tag tg then
    match t.kind with
    | .rotate => (rotMatrix isZero t.vec.x t.vec.y t.vec.z).mulVec p
    | .translate => p + t.vec
  else p

/-- one `--geo-scale` option -/
structure Scale (K : Type) where
  factor : K
  tag : Option Nat
deriving Repr, Inhabited

def applyS (s : Scale K) (tg : Nat) (p : V3 K) : V3 K :=
  if actsOn s.tag tg then ⟨p.x * s.factor, p.y * s.factor, p.z * s.factor⟩ else p

/-- product of the scale factors that act on object `tg` (the factor its radius is multiplied by) -/
def scaleOf (scales : List (Scale K)) (tg : Nat) : K :=
  scales.foldl (fun acc s => if actsOn s.tag tg then acc * s.factor else acc) ((1 : Nat) : K)

/-- the whole geometry pipeline of `main` for one point of object `tg`: rotations and
translations in sort-key order, then every scale option in command-line order -/
def pipeline (isZero : K → Bool) (rots transl : List (Transform K)) (scales : List (Scale K))
    (tg : Nat) (p : V3 K) : V3 K :=
  scales.foldl (fun q s => applyS s tg q)
    ((orderTransforms rots transl).foldl (fun q t => applyT isZero t tg q) p)

end Apply

/-! ### tapering (taper.py) -/

section Taper
variable {K : Type} [Add K] [Sub K] [Mul K] [Div K] [Neg K] [NatCast K] [HasSqrt K]
  [LT K] [DecidableLT K] [LE K] [DecidableLE K]

inductive TaperErr where
  | tooFewSegments | tooShort | minAboveMax | tooLong | noSolution | assertion (which : String)
deriving Repr, DecidableEq, Inhabited

def maxK (a b : K) : K := if a < b then b else a

def smulV (c : K) (v : V3 K) : V3 K := ⟨c * v.x, c * v.y, c * v.z⟩
def divV (v : V3 K) (c : K) : V3 K := ⟨v.x / c, v.y / c, v.z / c⟩

/-- common precondition checks of `taper1` / `taper2`; returns `min_t` -/
def taperPre (l : K) (n : Nat) (r minT : K) (maxT : Option K) (c25 : K) : Except TaperErr K :=
  let minT := maxK (c25 * r) minT   -- `max (2.5 * r, min_t)`: the first argument wins ties
  if n ≤ 1 then .error .tooFewSegments
  else if ¬ (minT ≤ l / (n : K)) then .error .tooShort
  else match maxT with
    | some mx =>
      if ¬ (minT ≤ mx) then .error .minAboveMax
      else if ¬ (l / (n : K) ≤ mx) then .error .tooLong
      else .ok minT
    | none => .ok minT

/-- search loop of `taper1` for a maximum: `for k in range (n - 1, 0, -1)` -/
def taper1Search (l mx eps : K) (n : Nat) : Nat → Except TaperErr K
  | 0 => .error .noSolution
  | k + 1 =>
    let kk := k + 1
    let p : K := ((2 ^ kk - 1 : Nat) : K)
    let nminl := (l - ((n - kk : Nat) : K) * mx) / p
    let x := (l - p * nminl) / ((n - kk : Nat) : K)
    if ¬ (x - eps ≤ mx) then .error (.assertion "x - eps <= max_t")
    else
      let last := ((2 ^ (kk - 1) : Nat) : K) * nminl
      if last ≤ x ∧ x ≤ ((2 : Nat) : K) * last then .ok nminl
      else taper1Search l mx eps n k

/-- `minl` of `taper1` after the optional search -/
def taper1Minl (l : K) (n : Nat) (minT : K) (maxT : Option K) : Except TaperErr (K × K) :=
  let npieces : K := ((2 ^ n - 1 : Nat) : K)
  let minl0 := l / npieces
  let minl0 := if minl0 < minT then minT else minl0
  let eps := minl0 / ((10 : Nat) : K)
  match maxT with
  | none => .ok (minl0, eps)
  | some mx =>
    let maxl := mx / ((2 ^ (n - 1) : Nat) : K)
    if maxl < minl0 then
      match taper1Search l mx eps n (n - 1) with
      | .error e => .error e
      | .ok nminl =>
        if ¬ (maxl < nminl + eps) then .error (.assertion "nminl + eps > maxl")
        else .ok (if minl0 < nminl then nminl else minl0, eps)
    else .ok (minl0, eps)

/-- prepend a segment to a successfully computed rest -/
def consOk {E α : Type} (x : α) : Except E (List α) → Except E (List α)
  | .ok r => .ok (x :: r)
  | .error e => .error e

/-- main loop of `taper1` (end = 0): returns the list of segments -/
def taper1Loop (p1 p2 lv minc : V3 K) (eps minT mt : K) (n : Nat) :
    Nat → Nat → Bool → V3 K → V3 K → Except TaperErr (List (V3 K × V3 K))
  | 0, _, _, _, _ => .ok []
  | fuel + 1, i, steady, p, inc1Prev =>
    let rem := n - i
    let inc := smulV ((2 ^ i : Nat) : K) minc
    let inc1 := if steady then inc1Prev else divV (lv - (p - p1)) (rem : K)
    let incdif := V3.norm inc1 - V3.norm inc - eps
    let steady' := steady || decide (incdif < ((0 : Nat) : K))
    let inc := if steady' then inc1 else inc
    if i = n - 1 then
      let d := V3.norm (p2 - p)
      if minT - eps ≤ d ∧ d ≤ mt + eps then .ok [(p, p2)]
      else .error (.assertion "min_t - eps <= |p2 - p| <= mt + eps")
    else
      let q := p + inc
      let d := V3.norm (q - p)
      if minT - eps ≤ d ∧ d ≤ mt + eps then
        consOk (p, q) (taper1Loop p1 p2 lv minc eps minT mt n fuel (i + 1) steady' q inc1)
      else .error (.assertion "min_t - eps <= |inc| <= mt + eps")

/-- `taper1 (p1, p2, n, r, min_t, max_t, end = 0)` -/
def taper1Fwd (p1 p2 : V3 K) (n : Nat) (r minT : K) (maxT : Option K) (c25 : K) (isZero : K → Bool) :
    Except TaperErr (List (V3 K × V3 K)) :=
  let lv := p2 - p1
  let l := V3.norm lv
  match taperPre l n r minT maxT c25 with
  | .error e => .error e
  | .ok minT' =>
    match taper1Minl l n minT' maxT with
    | .error e => .error e
    | .ok (minl, eps) =>
      let minc := smulV (minl / l) lv
      -- `mt = max_t or l`
      let mt := match maxT with
        | some mx => if isZero mx then l else mx
        | none => l
      taper1Loop p1 p2 lv minc eps minT' mt n n 0 false p1 lv

/-- `taper1` with `end`: the second end is tapered by running from `p2` to `p1` and reversing -/
def taper1 (p1 p2 : V3 K) (n : Nat) (r minT : K) (maxT : Option K) (atEnd : Bool) (c25 : K)
    (isZero : K → Bool) : Except TaperErr (List (V3 K × V3 K)) :=
  if atEnd then
    match taper1Fwd p2 p1 n r minT maxT c25 isZero with
    | .ok segs => .ok (segs.reverse.map fun s => (s.2, s.1))
    | .error e => .error e
  else taper1Fwd p1 p2 n r minT maxT c25 isZero

/-- search loop of `taper2`: `for k in range (n - d, 0, -2)` -/
def taper2Search (l mx eps : K) (n : Nat) : Nat → Nat → Except TaperErr K
  | 0, _ => .error .noSolution
  | fuel + 1, k =>
    if k = 0 then .error .noSolution else
    let p : K := ((2 * (2 ^ (k / 2) - 1) : Nat) : K)
    let nminl := (l - ((n - k : Nat) : K) * mx) / p
    if ¬ (((0 : Nat) : K) < nminl) then .error (.assertion "nminl > 0")
    else
      let x := (l - p * nminl) / ((n - k : Nat) : K)
      if ¬ (x - eps ≤ mx) then .error (.assertion "x - eps <= max_t")
      else
        let last := ((2 ^ (k / 2 - 1) : Nat) : K) * nminl
        let vlen := p * nminl
        if last ≤ x ∧ x ≤ ((2 : Nat) : K) * last + eps ∧ l ≤ ((n - k : Nat) : K) * x + vlen + eps then .ok nminl
        else if ¬ (x ≤ ((2 : Nat) : K) * last + eps) then .error (.assertion "x <= 2 * last + eps")
        else taper2Search l mx eps n fuel (k - 2)

def taper2Minl (l : K) (n : Nat) (minT : K) (maxT : Option K) : Except TaperErr (K × K) :=
  let odd := n % 2 = 1
  let h := n / 2
  let npiecesN : Nat := if odd then 2 * (2 ^ h - 1) + 2 ^ h else 2 * (2 ^ h - 1)
  let npieces : K := (npiecesN : K)
  let minl0 := l / npieces
  let minl0 := if minl0 < minT then minT else minl0
  let eps := minl0 / ((10 : Nat) : K)
  match maxT with
  | none => .ok (minl0, eps)
  | some mx =>
    let maxl := if odd then mx / ((2 ^ h : Nat) : K) else mx / ((2 ^ (h - 1) : Nat) : K)
    if maxl < l / npieces then
      let d := if odd then 1 else 2
      match taper2Search l mx eps n n (n - d) with
      | .error e => .error e
      | .ok nminl =>
        if ¬ (maxl < nminl + eps) then .error (.assertion "nminl + eps > maxl")
        else .ok (if minl0 < nminl then nminl else minl0, eps)
    else .ok (minl0, eps)

/-- main loop of `taper2`; `state`: 0 increase, 1 steady, 2 decrease -/
def taper2Loop (p1 p2 lv minc : V3 K) (eps : K) (n : Nat) :
    Nat → Nat → Nat → Nat → V3 K → V3 K → List (V3 K × V3 K)
  | 0, _, _, _, _, _ => []
  | fuel + 1, i, state, bound, p, inc1Prev =>
    let rem := (n : Int) - 2 * (i : Int)
    let inc := smulV ((2 ^ i : Nat) : K) minc
    let remK : K := if rem < 0 then -((rem.natAbs : Nat) : K) else ((rem.natAbs : Nat) : K)
    let inc1 := if state = 0 then divV (lv - smulV ((2 : Nat) : K) (p - p1)) remK else inc1Prev
    let incdif := V3.norm inc1 - V3.norm inc - eps
    let (state, bound) := if state = 0 ∧ incdif < ((0 : Nat) : K) then (1, n - i) else (state, bound)
    let state := if state = 1 ∧ bound ≤ i then 2 else state
    let inc := if state = 1 then inc1 else if state = 2 then smulV ((2 ^ (n - i - 1) : Nat) : K) minc else inc
    if i = n - 1 then [(p, p2)]
    else (p, p + inc) :: taper2Loop p1 p2 lv minc eps n fuel (i + 1) state bound (p + inc) inc1

/-- `taper2 (p1, p2, n, r, min_t, max_t)` -/
def taper2 (p1 p2 : V3 K) (n : Nat) (r minT : K) (maxT : Option K) (c25 : K) :
    Except TaperErr (List (V3 K × V3 K)) :=
  let lv := p2 - p1
  let l := V3.norm lv
  match taperPre l n r minT maxT c25 with
  | .error e => .error e
  | .ok minT' =>
    match taper2Minl l n minT' maxT with
    | .error e => .error e
    | .ok (minl, eps) =>
      let minc := smulV (minl / l) lv
      .ok (taper2Loop p1 p2 lv minc eps n n 0 0 0 p1 lv)

end Taper

end Pmn.Geom
