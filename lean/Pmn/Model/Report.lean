/-
Pmn.Model.Report — the row structure of the MININEC-style report (`Mininec.as_mininec`:
`wires_as_mininec` (antenna-geometry part), `sources_as_mininec`, `loads_as_mininec`,
`source_data_as_mininec`, `currents_as_mininec`).

Numbers are not modelled here (that is `Pmn.Model.Fmt`); a row is what it is *about*: which object
block it stands in and which pulse, source or load it reports.  Pulses are 0-based indices, printed
numbers are `idx + 1`.
-/
namespace Pmn.Report

/-- one geo object as the report sees it -/
structure RObj where
  tag : Nat
  pulses : List Nat          -- `geobj.pulses`, the pulses the object owns, in order
  g0 : Bool                  -- `is_ground [0]`
  g1 : Bool
  c0 : Bool                  -- `bool (conn [0])`: something is connected at end 1
  c1 : Bool
  noEnds : Bool              -- `end_segs [0] is None and end_segs [1] is None`
deriving Repr, DecidableEq, Inhabited

/-- a load: lumped impedance-type (one line per pulse) or S-parameter type of the given order (one
header and `order + 1` coefficient lines per pulse) -/
structure RLoad where
  spar : Bool
  order : Nat
  pulses : List Nat
deriving Repr, DecidableEq, Inhabited

inductive Row where
  | geoHead (tag : Nat)              -- "WIRE NO. t COORDINATES …"
  | geoNone                          -- "- - - … 0": object without any pulse end
  | geoRow (no : Nat)                -- one pulse: coordinates, radius, connections, number
  | srcCount (n : Nat)               -- "NO. OF SOURCES : n"
  | srcLine (no : Nat)               -- "PULSE NO., VOLTAGE MAGNITUDE, PHASE (DEGREES): no , …"
  | loadCount (n : Nat)              -- "NUMBER OF LOADS n"
  | impLine (no : Nat)               -- "PULSE NO.,RESISTANCE,REACTANCE: no , …"
  | sparHead (no order : Nat)        -- "PULSE NO., ORDER OF S-PARAMETER FUNCTION: no , order"
  | sparCoef (d : Nat)               -- "NUMERATOR, DENOMINATOR COEFFICIENTS OF S^d : …"
  | srcData (no : Nat)               -- "PULSE no VOLTAGE = … CURRENT … IMPEDANCE … POWER"
  | curHead (tag : Nat)              -- "WIRE NO. t :"
  | curE                             -- "E 0 0 0 0"
  | curJ                             -- "J …"
  | curRow (no : Nat)                -- numbered current row
deriving Repr, DecidableEq, Inhabited

/-- antenna-geometry block of one object -/
def geoBlock (o : RObj) : List Row :=
  Row.geoHead o.tag :: ((if o.noEnds then [Row.geoNone] else []) ++ o.pulses.map (fun p => Row.geoRow (p + 1)))

def geometry (objs : List RObj) : List Row := objs.flatMap geoBlock

def sources (srcs : List Nat) : List Row :=
  Row.srcCount srcs.length :: srcs.map (fun p => Row.srcLine (p + 1))

/-- the lines of one load: `_Load.as_mininec` / `Laplace_Load.as_mininec` -/
def loadLines (l : RLoad) : List Row :=
  l.pulses.flatMap fun p =>
    if l.spar then Row.sparHead (p + 1) l.order :: (List.range (l.order + 1)).map Row.sparCoef
    else [Row.impLine (p + 1)]

def loads (ls : List RLoad) : List Row :=
  Row.loadCount ((ls.map (·.pulses.length)).sum) :: ls.flatMap loadLines

def sourceData (srcs : List Nat) : List Row := srcs.map (fun p => Row.srcData (p + 1))

/-- current block of one object: `[E | J]?` for a first end that is not grounded, one numbered row per own pulse
that is not a junction pulse (`pulse_iter (yield_ends = False)`), `[E | J]?` for the second end -/
def curBlock (isJunction : Nat → Bool) (o : RObj) : List Row :=
  Row.curHead o.tag ::
    ((if o.g0 then [] else [if o.c0 then Row.curJ else Row.curE]) ++
     (o.pulses.filter (fun p => !isJunction p)).map (fun p => Row.curRow (p + 1)) ++
     (if o.g1 then [] else [if o.c1 then Row.curJ else Row.curE]))

def currents (isJunction : Nat → Bool) (objs : List RObj) : List Row := objs.flatMap (curBlock isJunction)

/-- the part of `as_mininec` between the geo-object table and the field tables -/
def report (isJunction : Nat → Bool) (objs : List RObj) (srcs : List Nat) (ls : List RLoad) : List Row :=
  geometry objs ++ sources srcs ++ loads ls ++ sourceData srcs ++ currents isJunction objs

/-! projections used by the statements -/

def Row.geoNo? : Row → Option Nat
  | .geoRow n => some n
  | _ => none

def Row.curNo? : Row → Option Nat
  | .curRow n => some n
  | _ => none

def Row.isLoadEntry : Row → Bool
  | .impLine _ => true
  | .sparHead _ _ => true
  | _ => false

def Row.loadNo? : Row → Option Nat
  | .impLine n => some n
  | .sparHead n _ => some n
  | _ => none

end Pmn.Report
