/-
Pmn.Model.Circuit — lumped and distributed load impedances, right-hand side, load weights and
source data (mininec.py: `Laplace_Load.impedance`, `Series_RLC_Load`, `Trap_Load`,
`Skin_Effect_Load.impedance`, `Insulation_Load.impedance`, `Geobj.r`,
`compute_impedance_matrix_loads`, `compute_rhs`, `Excitation.impedance/.power`).

Generic in the complex scalar `C` (executed with `Cx Float`, reasoned about with `ℂ`): only the
ordinary arithmetic classes, the imaginary unit (`HasI`) and, for source power, `HasConjRe`.
Real quantities are embedded by the caller.
-/
import Pmn.Model.Num

class HasI (C : Type) where
  I : C

class HasConjRe (C : Type) (K : outParam Type) where
  conj : C → C
  re : C → K

instance : HasI (Cx Float) := ⟨⟨0, 1⟩⟩
instance : HasConjRe (Cx Float) Float := ⟨Cx.conj, Cx.re⟩
instance : NatCast (Cx Float) := ⟨fun n => ⟨Float.ofNat n, 0⟩⟩

namespace Pmn.Circuit
variable {C : Type} [Add C] [Sub C] [Mul C] [Div C] [Neg C] [NatCast C] [HasI C]

/-- zero-padding of coefficient arrays to a common length (`Laplace_Load.__init__`) -/
def pad (l : List C) (n : Nat) : List C := l ++ List.replicate (n - l.length) ((0 : Nat) : C)

/-- the loop of `Laplace_Load.impedance`: `u += b[j]*m; d += a[j]*m; m *= 1j*w` -/
def laplaceLoop (s : C) : List (C × C) → C → C → C → C × C
  | [], _, u, d => (u, d)
  | (aj, bj) :: r, m, u, d => laplaceLoop s r (m * s) (u + bj * m) (d + aj * m)

/-- `Laplace_Load (a, b).impedance` at angular frequency `w` (already `2π·f·10⁶`) -/
def laplace (a b : List C) (w : C) : C :=
  let n := max a.length b.length
  let ud := laplaceLoop (HasI.I * w) ((pad a n).zip (pad b n)) ((1 : Nat) : C) ((0 : Nat) : C) ((0 : Nat) : C)
  ud.1 / ud.2

/-- Python truthiness of an optional number: `None` and `0` are false -/
def truthy (isZero : C → Bool) : Option C → Bool
  | none => false
  | some x => !isZero x

/-- coefficient arrays `(a, b)` built by `Series_RLC_Load.__init__` (`R or 0`, `L or 0`, `if C:`) -/
def rlcCoeffs (isZero : C → Bool) (R L Cp : Option C) : List C × List C :=
  let r := if truthy isZero R then R.getD ((0 : Nat) : C) else ((0 : Nat) : C)
  let l := if truthy isZero L then L.getD ((0 : Nat) : C) else ((0 : Nat) : C)
  match Cp with
  | some c => if isZero c then ([((1 : Nat) : C)], [r, l])
              else ([((0 : Nat) : C), c], [((1 : Nat) : C), r * c, l * c])
  | none => ([((1 : Nat) : C)], [r, l])

/-- coefficient arrays built by `Trap_Load.__init__`: `a = (1, R*C, L*C)`, `b = (R, L)` -/
def trapCoeffs (R L Cp : C) : List C × List C :=
  ([((1 : Nat) : C), R * Cp, L * Cp], [R, L])

/-- weight of a load on the matrix diagonal: `-f2 * Z_L * 1j`, `f2 = 1/m`, doubled on a grounded
pulse over a ground plane (`compute_impedance_matrix_loads`) -/
def loadIncr (minv : C) (grounded : Bool) (zl : C) : C :=
  let f2 := if grounded then minv * ((2 : Nat) : C) else minv
  (-f2) * zl * HasI.I

/-- right-hand side entry of a source: `f2 * V`, `f2 = -1j/m` or `-2j/m` (`compute_rhs`) -/
def rhsEntry (minv : C) (grounded : Bool) (v : C) : C :=
  let f2 := if grounded then (-(((2 : Nat) : C) * HasI.I)) * minv else (-HasI.I) * minv
  f2 * v

/-- index of the last source registered on pulse `p` -/
def lastIdx (ps : List Nat) (p : Nat) : Option Nat :=
  (List.range ps.length).reverse.find? (fun i => ps[i]? == some p)

/-- entry `p` of the right-hand side.  `compute_rhs` starts from zeros and makes one *assignment*
per source, in order, so the entry is that of the last source on the pulse (or zero) -/
def rhsAt (minv : C) (grounded : Nat → Bool) (ps : List Nat) (V : Nat → C) (p : Nat) : C :=
  match lastIdx ps p with
  | some i => rhsEntry minv (grounded p) (V i)
  | none => ((0 : Nat) : C)

def rhs (n : Nat) (minv : C) (grounded : Nat → Bool) (ps : List Nat) (V : Nat → C) : List C :=
  (List.range n).map (rhsAt minv grounded ps V)

/-- entry `p` of the diagonal increment of all (load, pulse) attachments: they accumulate (`+=`),
so several loads on one pulse add up -/
def loadDiagAt (minv : C) (grounded : Nat → Bool) (att : List (Nat × C)) (p : Nat) : C :=
  ((att.filter (fun a => a.1 == p)).map (fun a => loadIncr minv (grounded p) a.2)).foldl (· + ·) ((0 : Nat) : C)

def loadDiag (n : Nat) (minv : C) (grounded : Nat → Bool) (att : List (Nat × C)) : List C :=
  (List.range n).map (loadDiagAt minv grounded att)

/-- `Excitation.impedance` -/
def srcImpedance (v i : C) : C := v / i

section Power
variable {K : Type} [HasConjRe C K] [Mul K] [Div K] [NatCast K]
/-- `Excitation.power`: `(0.5 * V * conj I).real`; written as `Re (V·conj I) / 2` -/
def srcPower (v i : C) : K := HasConjRe.re (v * HasConjRe.conj i) / ((2 : Nat) : K)
end Power

/-- `Geobj.r` with an insulation: equivalent radius `b·(a/b)^(1/ε_r)`; the power is a parameter -/
def equivRadius {K : Type} [Mul K] [Div K] [NatCast K] (pow : K → K → K) (a b epsr : K) : K :=
  b * pow (a / b) (((1 : Nat) : K) / epsr)

/-- per-length insulation inductance `μ0 (ε_r − 1)/ε_r · ln (b/a) / 2π` (`Insulation_Load`) -/
def insulZins {K : Type} [Sub K] [Mul K] [Div K] [NatCast K] (mu0 twopi : K) (ln : K → K) (a b epsr : K) : K :=
  mu0 * (epsr - ((1 : Nat) : K)) / epsr * ln (b / a) / twopi

/-- skin-effect internal impedance per length: `k / (2π r σ) · B`, `k = sqrt (−j ω μ0 σ)`,
`B = J0(kr)/J1(kr)` below the asymptotic limit, `j` above; `sqrt`, the Bessel ratio and the
magnitude test are parameters -/
def skinZint (sqrtC : C → C) (besselRatio : C → C) (isSmall : C → Bool)
    (omg mu0 sigma r twopi : C) : C :=
  let k := sqrtC ((-HasI.I) * omg * mu0 * sigma)
  let kr := k * r
  let b := if isSmall kr then besselRatio kr else HasI.I
  k / (twopi * r * sigma) * b

/-- contribution of one half of a pulse to a distributed load: conductor length of the half times the per-length
impedance of the wire it belongs to (`none`: that wire carries no such load — the code skips the half) -/
def distTerm (h : Option C × C) : C :=
  match h.1 with
  | some z => h.2 * z
  | none => ((0 : Nat) : C)

/-- `Skin_Effect_Load.impedance` / `Insulation_Load.impedance` of one pulse: the sum over its two halves.  For the
skin effect the length is the distance between the ends of the half segment and the per-length value `zint`; for an
insulation the length is half the segment length and the value `jω·zins`. -/
def distImpedance (halves : List (Option C × C)) : C :=
  halves.foldl (fun x h => x + distTerm h) ((0 : Nat) : C)

/-- which per-object distributed loads (skin effect or insulation; named by their geo object) list a pulse after
`register_load (load, None, tag)` for every loaded object and `fix_distributed_loads`: the load of the object that
owns the pulse, and — for a pulse between two different objects of which exactly one is loaded — the load of that
object unless it already lists the pulse.  `g0`, `g1`: the objects of the two halves; `owner` one of them. -/
def distLoadsOf (owner g0 g1 : Nat) (loaded : Nat → Bool) : List Nat :=
  let own := if loaded owner then [owner] else []
  let fix :=
    if g0 != g1 && (loaded g0 != loaded g1) then
      let w := if loaded g0 then g0 else g1
      if own.contains w then [] else [w]
    else []
  own ++ fix

end Pmn.Circuit
