/-
Pmn.Model.Basic — the input generated for the original BASIC program (mininec.py
`Mininec.as_basic_input` and the per-class `as_basic_input` writers), at token level.

A line is a list of tokens; numbers are opaque values of a type `N` (how a number is printed —
`%g`, `%.12g`, `%.15g`, `%.8g` — is recorded in the token so that the harness can render it; the
reader does not depend on it).  `writeAntenna` answers the prompts of MININEC-3 in their order:

  D, file name, frequency, environment (+1 | -1, number of media, media blocks), number of wires,
  per wire: segments, end one, end two, radius, `N` (no change), `N` (no geometry change),
  number of sources, per source: pulse, magnitude, phase in DEGREES, number of loads,
  [S-parameter loads Y/N], per load: pulse, resistance, reactance | pulse, order, coefficient pairs.

`readAntenna` is a reader that follows the same prompt order.
-/
namespace Pmn.Basic

inductive Tok (N : Type) where
  | lit (s : String)
  | int (n : Int)
  | num (x : N) (fmt : String)
deriving Repr, DecidableEq, Inhabited

abbrev Line (N : Type) := List (Tok N)

structure Medium (N : Type) where
  eps : N
  sigma : N
  height : N            -- printed for every medium but the first
  coord : N             -- boundary to the next medium, printed for every medium but the last
  nradials : Nat        -- first medium, circular boundary
  radius : N
deriving Repr, DecidableEq, Inhabited

inductive Env (N : Type) where
  | free
  | ideal
  | media (circular : Bool) (ms : List (Medium N))   -- at least one real medium
deriving Repr, DecidableEq, Inhabited

structure Wire (N : Type) where
  nseg : Nat
  p1 : N × N × N
  p2 : N × N × N
  r : N
deriving Repr, DecidableEq, Inhabited

structure Source (N : Type) where
  pulse : Nat           -- number as printed in the geometry table (index + 1)
  mag : N
  phaseDeg : N
deriving Repr, DecidableEq, Inhabited

inductive Load (N : Type) where
  | imp (pulse : Nat) (re im : N)
  | spar (pulse : Nat) (coeffs : List (N × N))   -- (numerator, denominator) of s^0, s^1, …; length = order + 1
deriving Repr, DecidableEq, Inhabited

structure Model (N : Type) where
  file : String
  f : N
  env : Env N
  wires : List (Wire N)
  sources : List (Source N)
  sLoads : Bool         -- answer to "S-PARAMETER (S=jw) IMPEDANCE LOAD (Y/N)"
  loads : List (Load N)
deriving Repr, DecidableEq, Inhabited

variable {N : Type}

def point (p : N × N × N) (fmt : String) : Line N := [.num p.1 fmt, .num p.2.1 fmt, .num p.2.2 fmt]

/-! ### writer -/

/-- one medium block; `i` = position, `n` = number of media (the type-of-boundary answer, asked once
before the first medium when there are several, is written by `writeEnv`) -/
def writeMedium (circular : Bool) (i n : Nat) (m : Medium N) : List (Line N) :=
  [[.num m.eps "%g", .num m.sigma "%g"]] ++
  (if 0 < i then [[.num m.height "%g"]]
   else if 1 < n ∧ circular then
     [[Tok.int m.nradials]] ++ (if m.nradials ≠ 0 then [[.num m.radius "%g"]] else [])
   else []) ++
  (if i + 1 < n then [[.num m.coord "%g"]] else [])

def writeMediaFrom (circular : Bool) (n : Nat) : Nat → List (Medium N) → List (Line N)
  | _, [] => []
  | i, m :: r => writeMedium circular i n m ++ writeMediaFrom circular n (i + 1) r

def writeEnv : Env N → List (Line N)
  | .free => [[.lit "+1"]]
  | .ideal => [[.lit "-1"], [.int 0]]
  | .media c ms => [[.lit "-1"], [.int ms.length]] ++
      (if 1 < ms.length then [[Tok.lit (if c then "2" else "1")]] else []) ++
      writeMediaFrom c ms.length 0 ms

def writeWire (w : Wire N) : List (Line N) :=
  [[.int w.nseg], point w.p1 "%.15g", point w.p2 "%.15g", [.num w.r "%.8g"], [.lit "N"]]

def writeSource (s : Source N) : List (Line N) :=
  [[.int s.pulse, .num s.mag "%g", .num s.phaseDeg "%g"]]

def writeLoad : Load N → List (Line N)
  | .imp p re im => [[.int p, .num re "%g", .num im "%g"]]
  | .spar p cs => [[.int p, .int ((cs.length : Int) - 1)]] ++ cs.map fun c => [.num c.1 "%g", .num c.2 "%g"]

def writeAntenna (m : Model N) : List (Line N) :=
  [[.lit "D"], [.lit m.file], [.num m.f "%.12g"]] ++ writeEnv m.env ++
  [[.int m.wires.length]] ++ m.wires.flatMap writeWire ++ [[.lit "N"]] ++
  [[.int m.sources.length]] ++ m.sources.flatMap writeSource ++
  [[.int m.loads.length]] ++
  (if m.loads.isEmpty then [] else [[Tok.lit (if m.sLoads then "Y" else "N")]]) ++
  m.loads.flatMap writeLoad

/-! ### reader (follows the prompts) -/

def readMedium (circular : Bool) (i n : Nat) (dflt : N) : List (Line N) → Option (Medium N × List (Line N))
  | [.num e _, .num s _] :: r =>
    if 0 < i then
      match r with
      | [.num h _] :: r =>
        if i + 1 < n then
          match r with
          | [.num c _] :: r => some (⟨e, s, h, c, 0, dflt⟩, r)
          | _ => none
        else some (⟨e, s, h, dflt, 0, dflt⟩, r)
      | _ => none
    else if 1 < n ∧ circular then
      match r with
      | [.int nr] :: r =>
        if nr ≠ 0 then
          match r with
          | [.num rad _] :: [.num c _] :: r => some (⟨e, s, dflt, c, nr.toNat, rad⟩, r)
          | _ => none
        else
          match r with
          | [.num c _] :: r => some (⟨e, s, dflt, c, 0, dflt⟩, r)
          | _ => none
      | _ => none
    else if 1 < n then
      match r with
      | [.num c _] :: r => some (⟨e, s, dflt, c, 0, dflt⟩, r)
      | _ => none
    else some (⟨e, s, dflt, dflt, 0, dflt⟩, r)
  | _ => none

def readMediaFrom (circular : Bool) (n : Nat) (dflt : N) : Nat → Nat → List (Line N) → Option (List (Medium N) × List (Line N))
  | 0, _, r => some ([], r)
  | k + 1, i, r =>
    match readMedium circular i n dflt r with
    | none => none
    | some (m, r) =>
      match readMediaFrom circular n dflt k (i + 1) r with
      | none => none
      | some (ms, r) => some (m :: ms, r)

def readEnv (dflt : N) : List (Line N) → Option (Env N × List (Line N))
  | [.lit s] :: r =>
    if s = "+1" then some (.free, r)
    else if s = "-1" then
      match r with
      | [.int n] :: r =>
        if n = 0 then some (.ideal, r)
        else if n.toNat = 1 then
          match readMediaFrom false 1 dflt 1 0 r with
          | some (ms, r) => some (.media false ms, r)
          | none => none
        else
          match r with
          | [.lit b] :: r =>
            match readMediaFrom (b == "2") n.toNat dflt n.toNat 0 r with
            | some (ms, r) => some (.media (b == "2") ms, r)
            | none => none
          | _ => none
      | _ => none
    else none
  | _ => none

def readWire : List (Line N) → Option (Wire N × List (Line N))
  | [.int n] :: [.num x1 _, .num y1 _, .num z1 _] :: [.num x2 _, .num y2 _, .num z2 _] :: [.num r _] :: [.lit "N"] :: rest =>
    some (⟨n.toNat, (x1, y1, z1), (x2, y2, z2), r⟩, rest)
  | _ => none

def readSource : List (Line N) → Option (Source N × List (Line N))
  | [.int p, .num m _, .num ph _] :: rest => some (⟨p.toNat, m, ph⟩, rest)
  | _ => none

def readCoeffs : Nat → List (Line N) → Option (List (N × N) × List (Line N))
  | 0, r => some ([], r)
  | k + 1, [.num b _, .num a _] :: r =>
    match readCoeffs k r with
    | some (cs, r) => some ((b, a) :: cs, r)
    | none => none
  | _, _ => none

def readLoad (isS : Bool) : List (Line N) → Option (Load N × List (Line N))
  | [.int p, .num re _, .num im _] :: rest => if isS then none else some (.imp p.toNat re im, rest)
  | [.int p, .int ord] :: rest =>
    if isS then
      match readCoeffs (ord.toNat + 1) rest with
      | some (cs, r) => some (.spar p.toNat cs, r)
      | none => none
    else none
  | _ => none

/-- read `k` items with `rd` -/
def readMany {α : Type} (rd : List (Line N) → Option (α × List (Line N))) : Nat → List (Line N) → Option (List α × List (Line N))
  | 0, r => some ([], r)
  | k + 1, r =>
    match rd r with
    | none => none
    | some (x, r) =>
      match readMany rd k r with
      | none => none
      | some (xs, r) => some (x :: xs, r)

def readAntenna (dflt : N) : List (Line N) → Option (Model N × List (Line N))
  | [.lit "D"] :: [.lit file] :: [.num f _] :: r =>
    match readEnv dflt r with
    | none => none
    | some (env, r) =>
      match r with
      | [.int nw] :: r =>
        match readMany readWire nw.toNat r with
        | none => none
        | some (ws, r) =>
          match r with
          | [.lit "N"] :: [.int ns] :: r =>
            match readMany readSource ns.toNat r with
            | none => none
            | some (ss, r) =>
              match r with
              | [.int nl] :: r =>
                if nl.toNat = 0 then some (⟨file, f, env, ws, ss, false, []⟩, r)
                else
                  match r with
                  | [.lit yn] :: r =>
                    let isS := yn == "Y"
                    match readMany (readLoad isS) nl.toNat r with
                    | none => none
                    | some (ls, r) => some (⟨file, f, env, ws, ss, isS, ls⟩, r)
                  | _ => none
              | _ => none
          | _ => none
      | _ => none
  | _ => none

/-! ### emulation of tapered wires, arcs and helices by one-segment wires -/

/-- a geometry object as the writer sees it: `single` = plain equally segmented wire -/
structure Obj (N : Type) where
  single : Bool
  nseg : Nat
  p1 : N × N × N                 -- consolidated end points (`parent.endpoint`)
  p2 : N × N × N
  segs : List ((N × N × N) × (N × N × N) × (N × N × N))   -- per segment: p1, p2, consolidated p2
  r : N
deriving Repr, DecidableEq, Inhabited

/-- `Geobj.as_basic_input`: one wire, or one single-segment wire per segment; the first starts at
the consolidated first end point, every further one ends at the consolidated form of its end -/
def emulate (o : Obj N) : List (Wire N) :=
  if o.single then [⟨o.nseg, o.p1, o.p2, o.r⟩]
  else
    match o.segs with
    | [] => []
    | s0 :: rest =>
      ⟨1, o.p1, s0.2.1, o.r⟩ :: rest.map fun s => ⟨1, s.1, s.2.2, o.r⟩

end Pmn.Basic

namespace Pmn.Basic
variable {N : Type}

/-- far-field request of the generated input (`azi`/`zen` given) -/
structure Pattern (N : Type) where
  ffAbs : Bool
  pwr : Option N
  dist : N
  zen : N × N × N
  azi : N × N × N
  gainfile : Option String
deriving Repr, DecidableEq, Inhabited

/-- near-field request of the generated input (`near` given; only through the Python API): the three coordinate ranges
`initial, increment, number` and an optional new power level; written twice, for the electric and the magnetic field -/
structure NearReq (N : Type) where
  x : N × N × Int
  y : N × N × Int
  z : N × N × Int
  pwr : Option N
deriving Repr, DecidableEq, Inhabited

/-- what follows the antenna description -/
structure Tail (N : Type) where
  pat : Option (Pattern N)
  near : Option (NearReq N)
deriving Repr, DecidableEq, Inhabited

def writePattern (p : Pattern N) : List (Line N) :=
  [[.lit "P"], [.lit (if p.ffAbs then "V" else "D")]] ++
  (if p.ffAbs then
     (match p.pwr with
      | some w => [[.lit "Y"], [.num w "%g"], [.lit "N"]]
      | none => [[.lit "N"]]) ++ [[.num p.dist "%g"]]
   else []) ++
  [[.num p.zen.1 "%g", .num p.zen.2.1 "%g", .num p.zen.2.2 "%g"],
   [.num p.azi.1 "%g", .num p.azi.2.1 "%g", .num p.azi.2.2 "%g"]] ++
  (match p.gainfile with
   | some g => [[.lit "Y"], [.lit g]]
   | none => [[.lit "N"]])

def rangeLine (r : N × N × Int) : Line N := [.num r.1 "%g", .num r.2.1 "%g", .int r.2.2]

def writeNearBlock (ft : String) (q : NearReq N) : List (Line N) :=
  [[.lit "N"], [.lit ft], rangeLine q.x, rangeLine q.y, rangeLine q.z] ++
  (match q.pwr with
   | some w => [[.lit "Y"], [.num w "%g"], [.lit "N"]]
   | none => [[.lit "N"]]) ++
  [[.lit "N"]]

/-- the commands after the antenna description: `C`, `N` (currents, not saved), the optional pattern block, the optional
near-field blocks (electric, then magnetic), `Q` -/
def writeTail (t : Tail N) : List (Line N) :=
  [[.lit "C"], [.lit "N"]] ++
  (match t.pat with
   | none => []
   | some p => writePattern p) ++
  (match t.near with
   | none => []
   | some q => writeNearBlock "E" q ++ writeNearBlock "H" q) ++
  [[.lit "Q"]]

/-! reader of the tail, following the prompts -/

def readPower : List (Line N) → Option (Option N × List (Line N))
  | [.lit "N"] :: r => some (none, r)
  | [.lit "Y"] :: [.num w _] :: [.lit "N"] :: r => some (some w, r)
  | _ => none

def readTriple : List (Line N) → Option ((N × N × N) × List (Line N))
  | [.num a _, .num b _, .num c _] :: r => some ((a, b, c), r)
  | _ => none

def readRange : List (Line N) → Option ((N × N × Int) × List (Line N))
  | [.num a _, .num b _, .int c] :: r => some ((a, b, c), r)
  | _ => none

def readGainfile : List (Line N) → Option (Option String × List (Line N))
  | [.lit "N"] :: r => some (none, r)
  | [.lit "Y"] :: [.lit g] :: r => some (some g, r)
  | _ => none

/-- pattern block after the command `P`; `dflt` is the distance of a dBi request (not asked for) -/
def readPattern (dflt : N) : List (Line N) → Option (Pattern N × List (Line N))
  | [.lit "D"] :: r =>
    match readTriple r with
    | some (zen, r) =>
      match readTriple r with
      | some (azi, r) =>
        match readGainfile r with
        | some (g, r) => some (⟨false, none, dflt, zen, azi, g⟩, r)
        | none => none
      | none => none
    | none => none
  | [.lit "V"] :: r =>
    match readPower r with
    | some (pw, [.num d _] :: r) =>
      match readTriple r with
      | some (zen, r) =>
        match readTriple r with
        | some (azi, r) =>
          match readGainfile r with
          | some (g, r) => some (⟨true, pw, d, zen, azi, g⟩, r)
          | none => none
        | none => none
      | none => none
    | _ => none
  | _ => none

/-- one near-field block after the command `N`: field type, three ranges, power, `N` (not saved) -/
def readNearBlock (ft : String) : List (Line N) → Option (NearReq N × List (Line N))
  | [.lit f] :: r =>
    if f = ft then
      match readRange r with
      | some (x, r) =>
        match readRange r with
        | some (y, r) =>
          match readRange r with
          | some (z, r) =>
            match readPower r with
            | some (pw, [.lit "N"] :: r) => some (⟨x, y, z, pw⟩, r)
            | _ => none
          | none => none
        | none => none
      | none => none
    else none
  | _ => none

def readNear [DecidableEq N] : List (Line N) → Option (Option (NearReq N) × List (Line N))
  | [.lit "N"] :: r =>
    match readNearBlock "E" r with
    | some (qe, [.lit "N"] :: r) =>
      match readNearBlock "H" r with
      | some (qh, r) => if qe = qh then some (some qe, r) else none
      | none => none
    | _ => none
  | r => some (none, r)

def readTail [DecidableEq N] (dflt : N) : List (Line N) → Option (Tail N)
  | [.lit "C"] :: [.lit "N"] :: r =>
    let pr : Option (Option (Pattern N) × List (Line N)) :=
      match r with
      | [.lit "P"] :: r' => (readPattern dflt r').map fun (p, r'') => (some p, r'')
      | _ => some (none, r)
    match pr with
    | some (pat, r) =>
      match readNear r with
      | some (nr, [[.lit "Q"]]) => some ⟨pat, nr⟩
      | _ => none
    | none => none
  | _ => none

end Pmn.Basic
