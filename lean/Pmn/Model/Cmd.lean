/-
Pmn.Model.Cmd — sub-languages of the option file (`as_cmdline` writers, `main` reader) in which
"written options reproduce the model" is decided by discrete structure:

* sources: `--excitation-pulse` / `--excitation-voltage` lists paired by position, defaults;
* lumped loads: definition order vs. `--attach-load` numbering;
* attachment forms: `N,all` / `N,all,tag` / `N,pulse` chosen by `as_cmdline_load_attach`;
* the text of a complex load value;
* `--taper-wire` naming the wire by tag.

Numbers are opaque identifiers (`Nat`); `0` stands for the unit voltage `1+0j` where that matters.
-/
namespace Pmn.Cmd

/-! ### sources -/

inductive Addr where
  | abs (k : Nat)
  | rel (k tag : Nat)
deriving Repr, DecidableEq, Inhabited

structure Src where
  addr : Addr
  volt : Nat            -- 0 = the unit voltage 1+0j
  isDefault : Bool
deriving Repr, DecidableEq, Inhabited

inductive SOpt where
  | pulse (a : Addr)
  | volt (v : Nat)
deriving Repr, DecidableEq, Inhabited

/-- `Excitation.as_cmdline (force_voltage)` -/
def writeSrc (force : Bool) (s : Src) : List SOpt :=
  (if force ∨ s.volt ≠ 0 then [SOpt.volt s.volt] else []) ++
  (if s.isDefault then [] else [SOpt.pulse s.addr])

/-- the source block of `Mininec.as_cmdline`: voltages are forced when there are several sources -/
def writeSources (ss : List Src) : List SOpt :=
  ss.flatMap (writeSrc (decide (1 < ss.length)))

/-- the source block of the writer before the repair (voltage only if different from 1) -/
def writeSourcesOld (ss : List Src) : List SOpt := ss.flatMap (writeSrc false)

def SOpt.pulse? : SOpt → Option Addr
  | .pulse a => some a
  | _ => none

def SOpt.volt? : SOpt → Option Nat
  | .volt v => some v
  | _ => none

/-- `main`: collect both option lists, apply the defaults (pulse 5, 1 V), pair by position -/
def readSources (dfltPulse : Nat) (opts : List SOpt) : Except String (List Src) :=
  let ps := opts.filterMap SOpt.pulse?
  let vs := opts.filterMap SOpt.volt?
  let dflt := ps.isEmpty
  let ps := if dflt then [Addr.abs dfltPulse] else ps
  let vs := if vs.isEmpty then [0] else vs
  if ps.length ≠ vs.length then .error "number-of-excitation-pulses-must-match-voltages"
  else .ok (List.zipWith (fun a v => ⟨a, v, dflt⟩) ps vs)

/-! ### lumped loads -/

inductive LClass where
  | imp | rlc | trap | laplace
deriving Repr, DecidableEq, Inhabited

def LClass.rank : LClass → Nat
  | .imp => 0 | .rlc => 1 | .trap => 2 | .laplace => 3

/-- one `--attach-load` form -/
inductive Att where
  | pulse (k : Nat)            -- `N,k`  absolute pulse number
  | rel (k tag : Nat)          -- `N,k,tag`
  | allObj (tag : Nat)         -- `N,all,tag`
  | all                        -- `N,all`
deriving Repr, DecidableEq, Inhabited

structure Lump where
  cls : LClass
  params : Nat
  att : List Att
deriving Repr, DecidableEq, Inhabited

inductive LOpt where
  | load (cls : LClass) (params : Nat)
  | attach (idx : Nat) (a : Att)
deriving Repr, DecidableEq, Inhabited

/-- loads are written in the order of `m.loads`, each followed by its attachments carrying the
load's number `n + 1` -/
def writeLoadsFrom : Nat → List Lump → List LOpt
  | _, [] => []
  | i, l :: r => (LOpt.load l.cls l.params :: l.att.map (LOpt.attach (i + 1))) ++ writeLoadsFrom (i + 1) r

def writeLoads (ls : List Lump) : List LOpt := writeLoadsFrom 0 ls

def LOpt.load? : LOpt → Option (LClass × Nat)
  | .load c p => some (c, p)
  | _ => none

def LOpt.attachOf (i : Nat) : LOpt → Option Att
  | .attach j a => if j = i then some a else none
  | _ => none

/-- an `--attach-load` whose load number is not in `1 … n` -/
def LOpt.badIdx (n : Nat) : LOpt → Bool
  | .attach j _ => decide (j = 0 ∨ n < j)
  | _ => false

/-- `main` numbers the loads by class: all `--load`, then `--rlc-load`, `--trap-load`, Laplace -/
def groupByClass (ds : List (LClass × Nat)) : List (LClass × Nat) :=
  ds.filter (·.1 = .imp) ++ ds.filter (·.1 = .rlc) ++ ds.filter (·.1 = .trap) ++ ds.filter (·.1 = .laplace)

def attachFrom (opts : List LOpt) : Nat → List (LClass × Nat) → List Lump
  | _, [] => []
  | i, d :: r => ⟨d.1, d.2, opts.filterMap (LOpt.attachOf (i + 1))⟩ :: attachFrom opts (i + 1) r

/-- the loads `main` builds from the options: class-ordered definitions, each with the attachments
that carry its number, in option order (index errors and unused loads are rejected) -/
def readLoads (opts : List LOpt) : Except String (List Lump) :=
  let defs := groupByClass (opts.filterMap LOpt.load?)
  if opts.any (LOpt.badIdx defs.length) then .error "load-index-out-of-range"
  else
    let ls := attachFrom opts 0 defs
    if ls.any (·.att.isEmpty) then .error "not-all-loads-were-used" else .ok ls

/-! ### attachment forms chosen by the writer -/

/-- how often `x` occurs -/
def countOf (x : Nat) (l : List Nat) : Nat := (l.filter (· = x)).length

/-- object `(tag, pulses)` is written as `all,tag` when every one of its pulses is attached exactly
once (`strict`, the repaired rule) resp. when the number of attachments on it equals its number of
pulses (the former rule) -/
def objAll (strict : Bool) (attached : List Nat) (o : Nat × List Nat) : Bool :=
  let onObj := attached.filter (fun p => o.2.contains p)
  if strict then !o.2.isEmpty && o.2.all (fun p => countOf p attached = 1)
  else !onObj.isEmpty && onObj.length = o.2.length

/-- `as_cmdline_load_attach`: objects are `(tag, own pulse numbers)`, `attached` the load's pulses -/
def normAtt (strict : Bool) (objs : List (Nat × List Nat)) (attached : List Nat) : List Att :=
  let full := objs.filter (objAll strict attached)
  let rest := attached.filter (fun p => !(full.any (fun o => o.2.contains p)))
  (if !full.isEmpty && full.length = objs.length then [Att.all]
   else full.map (fun o => Att.allObj o.1)) ++ rest.map Att.pulse

/-- `as_cmdline_load_attach` as a whole: a load that ended up on no pulse at all (it was attached to all pulses
of a geo object that owns none) keeps an attachment — `all,tag` of the first pulse-less object — because the
reader insists on at least one attachment per load (`keepUnused`, the repaired rule; the former writer wrote
nothing for such a load) -/
def writeAtt (keepUnused : Bool) (objs : List (Nat × List Nat)) (attached : List Nat) : List Att :=
  if attached.isEmpty then
    (if keepUnused then
      match objs.find? (·.2.isEmpty) with
      | some o => [Att.allObj o.1]
      | none => []
    else [])
  else normAtt true objs attached

/-- pulses an attachment form denotes (`register_load`) -/
def expandAtt (objs : List (Nat × List Nat)) : Att → List Nat
  | .pulse k => [k]
  | .rel k tag => match objs.find? (·.1 = tag) with
    | some o => (o.2[k - 1]?).toList
    | none => []
  | .allObj tag => match objs.find? (·.1 = tag) with
    | some o => o.2
    | none => []
  | .all => objs.flatMap (·.2)

/-! ### text of a complex load value -/

structure SNum where
  neg : Bool
  mag : Nat        -- the digits (opaque, unsigned)
deriving Repr, DecidableEq, Inhabited

inductive CTok where
  | sgn (neg : Bool)
  | digits (d : Nat)
  | j
deriving Repr, DecidableEq, Inhabited

/-- `'%g' % x` -/
def renderNum (x : SNum) : List CTok := (if x.neg then [CTok.sgn true] else []) ++ [CTok.digits x.mag]

/-- `'--load=%g' % re` followed, for a non-zero imaginary part, by `'%+gj' % im` -/
def writeComplex (re im : SNum) (imZero : Bool) : List CTok :=
  renderNum re ++ (if imZero then [] else [CTok.sgn im.neg, CTok.digits im.mag, CTok.j])

/-- the writer before the repair: `'+%gj' % im` -/
def writeComplexOld (re im : SNum) (imZero : Bool) : List CTok :=
  renderNum re ++ (if imZero then [] else [CTok.sgn false] ++ renderNum im ++ [CTok.j])

/-- Python's `complex ()` on such a text: `[±]digits[(+|-)digits j]` -/
def parseComplex : List CTok → Option (SNum × Option SNum)
  | [.digits a] => some (⟨false, a⟩, none)
  | [.sgn s, .digits a] => some (⟨s, a⟩, none)
  | [.digits a, .sgn t, .digits b, .j] => some (⟨false, a⟩, some ⟨t, b⟩)
  | [.sgn s, .digits a, .sgn t, .digits b, .j] => some (⟨s, a⟩, some ⟨t, b⟩)
  | _ => none

/-! ### `--taper-wire` -/

/-- what is written for the wire at position `k` of the (tag-sorted) object list -/
def writeTaper (byTag : Bool) (tags : List Nat) (k : Nat) : Option Nat :=
  if byTag then tags[k]? else some (k + 1)

/-- `geo.by_tag [tag]`: position of the object with that tag -/
def readTaper (tags : List Nat) (t : Nat) : Option Nat := tags.idxOf? t

/-! ### distributed loads: `--skin-effect-conductivity`, `--skin-effect-resistivity`, `--insulation-load` -/

/-- the three option kinds; conductivity and resistivity build the same load class -/
inductive DKind where
  | skinCond | skinRes | coat
deriving Repr, DecidableEq, Inhabited

/-- the Python class of the load built from an option of that kind (`l.__class__`) -/
def DKind.isCoat : DKind → Bool
  | .coat => true
  | _ => false

/-- one option: kind, parameter token, optional geo object tag -/
structure DOpt where
  kind : DKind
  par : Nat
  tag : Option Nat
deriving Repr, DecidableEq, Inhabited

/-- one `Distributed_Load` object in `Mininec.loads`: its geo object and the `all_wires` flag -/
structure DLoad where
  kind : DKind
  par : Nat
  obj : Nat
  allWires : Bool
deriving Repr, DecidableEq, Inhabited

/-- `main`: an option without tag builds one load per geo object (`all_wires = True`), an option
with a tag builds one load on that object -/
def readDist (tags : List Nat) (opts : List DOpt) : List DLoad :=
  opts.flatMap fun o =>
    match o.tag with
    | none => tags.map fun t => ⟨o.kind, o.par, t, true⟩
    | some t => [⟨o.kind, o.par, t, false⟩]

/-- `Mininec.as_cmdline`: every load is written, except that of the loads one untagged option
produced only the first is (`allOnly`, the repaired rule); the former rule skipped every later
load of a class already written -/
def writeDist (allOnly : Bool) : List Bool → List DLoad → List DOpt
  | _, [] => []
  | seen, l :: r =>
    if (l.allWires || !allOnly) && seen.contains l.kind.isCoat then writeDist allOnly seen r
    else ⟨l.kind, l.par, if l.allWires then none else some l.obj⟩ :: writeDist allOnly (l.kind.isCoat :: seen) r

/-- option lists `main` accepts as far as the writer depends on it: an untagged option is the
first of its load class (`Only one skin-effect load per geo object`) -/
def distValid : List Bool → List DOpt → Bool
  | _, [] => true
  | seen, o :: r => (o.tag.isSome || !seen.contains o.kind.isCoat) && distValid (o.kind.isCoat :: seen) r


/-! ### media (`--medium`, `--boundary`, `--radial-count`, `--radial-radius`)

`main` builds one `Medium` per `--medium` option (radials and the first-height rule apply to the first one),
`Mininec.check_ground` links them; `Medium.as_cmdline` writes them back.  Numbers are opaque identifiers, `0` is the
number zero, `inf` stands for the default coordinate `1e6` ("infinity"). -/

structure MedOpt where
  eps : Nat
  sigma : Nat
  height : Nat
  coord : Option Nat
deriving Repr, DecidableEq, Inhabited

structure MediaOpts where
  media : List MedOpt
  circular : Bool          -- `--boundary=circular` (default linear)
  radCount : Nat           -- `--radial-count` (default 0)
  radRadius : Option Nat   -- `--radial-radius`; `some 0` = a radius that is not positive
deriving Repr, DecidableEq, Inhabited

structure Medium where
  eps : Nat
  sigma : Nat
  height : Nat
  coord : Nat
  nradials : Nat
  radius : Nat
  circular : Bool
deriving Repr, DecidableEq, Inhabited

def Medium.ideal (m : Medium) : Bool := m.eps == 0 && m.sigma == 0

/-- the part of `main` that turns option `n` into a `Medium` (`first` = it is the first `--medium`), with the checks of
`main` and of `Medium.__init__` -/
def mkMedium (inf : Nat) (g : MediaOpts) (first : Bool) (o : MedOpt) : Except String Medium :=
  let nrad := if first then g.radCount else 0
  let ideal := o.eps == 0 && o.sigma == 0
  if first ∧ o.height ≠ 0 then .error "first-medium-must-have-height-0"
  else if nrad ≠ 0 ∧ g.radRadius = none then .error "radials-need-a-radius"
  else if ideal ∧ nrad ≠ 0 then .error "ideal-ground-may-not-use-radials"
  else if ideal ∧ o.height ≠ 0 then .error "ideal-ground-must-have-height-0"
  else if nrad ≠ 0 ∧ g.radRadius = some 0 then .error "radius-must-be-positive"
  else if o.eps ≠ 0 ∧ o.sigma = 0 then .error "non-ideal-ground-needs-ground-parameters"
  else .ok { eps := o.eps, sigma := o.sigma, height := o.height
             coord := if ideal then 0 else o.coord.getD inf
             nradials := nrad
             radius := if nrad ≠ 0 then g.radRadius.getD 0 else 0
             circular := g.circular || nrad ≠ 0 }

def mkRest (inf : Nat) (g : MediaOpts) : List MedOpt → Except String (List Medium)
  | [] => .ok []
  | o :: r =>
    match mkMedium inf g false o with
    | .error e => .error e
    | .ok m =>
      match mkRest inf g r with
      | .error e => .error e
      | .ok ms => .ok (m :: ms)

/-- `check_ground` behind the first medium's boundary type `c`: every medium that has a next one must not be ideal ground
(`set_next`), all take the boundary type of the first, the last one must not carry radials (that is a single medium with
radials) and extends to infinity (`set_next (None)`: coordinate := `inf`) -/
def linkAux (inf : Nat) (c : Bool) : List Medium → Except String (List Medium)
  | [] => .ok []
  | [m] =>
    if m.nradials ≠ 0 then .error "radials-only-on-first-medium-of-more-than-one"
    else .ok [{ m with circular := c, coord := inf }]
  | m :: r =>
    if m.ideal then .error "ideal-ground-must-be-the-only-medium"
    else match linkAux inf c r with
      | .error e => .error e
      | .ok t => .ok ({ m with circular := c } :: t)

def link (inf : Nat) : List Medium → Except String (List Medium)
  | [] => .ok []
  | f :: r => linkAux inf f.circular (f :: r)

/-- the same before the repair 51d80cd: with several media the last one kept the coordinate it was given -/
def linkAuxOld (c : Bool) : List Medium → Except String (List Medium)
  | [] => .ok []
  | [m] => .ok [{ m with circular := c }]
  | m :: r =>
    if m.ideal then .error "ideal-ground-must-be-the-only-medium"
    else match linkAuxOld c r with
      | .error e => .error e
      | .ok t => .ok ({ m with circular := c } :: t)

def linkOld (inf : Nat) : List Medium → Except String (List Medium)
  | [] => .ok []
  | [f] => link inf [f]
  | f :: r => linkAuxOld f.circular (f :: r)

def readMediaWith (lk : List Medium → Except String (List Medium)) (inf : Nat) (g : MediaOpts) :
    Except String (List Medium) :=
  match g.media with
  | [] => .ok []
  | o :: os =>
    match mkMedium inf g true o with
    | .error e => .error e
    | .ok f =>
      match mkRest inf g os with
      | .error e => .error e
      | .ok r => lk (f :: r)

def readMedia (inf : Nat) (g : MediaOpts) : Except String (List Medium) := readMediaWith (link inf) inf g

def writeMedOpts : List Medium → List MedOpt
  | [] => []
  | [m] => [⟨m.eps, m.sigma, m.height, none⟩]
  | m :: r => ⟨m.eps, m.sigma, m.height, some m.coord⟩ :: writeMedOpts r

/-- `Medium.as_cmdline` for every medium: the coordinate only when there is a next medium, `--boundary` on the first
when there is a next one, the radial options on the first when it has radials -/
def writeMedia (ms : List Medium) : MediaOpts :=
  { media := writeMedOpts ms
    circular := match ms with
      | f :: _ :: _ => f.circular
      | _ => false
    radCount := match ms with
      | f :: _ => f.nradials
      | [] => 0
    radRadius := match ms with
      | f :: _ => if f.nradials ≠ 0 then some f.radius else none
      | [] => none }

/-- what the option file cannot carry: the boundary type of a single medium (it has no boundary) -/
def normBoundary : List Medium → List Medium
  | [m] => [{ m with circular := false }]
  | ms => ms


/-! ### the fields of `--attach-load` and `--excitation-pulse` as `main` reads them

A field (the text between two commas) is an integer, the keyword `all`, or something else. -/

inductive Fld where
  | int (v : Int)
  | all
  | junk
deriving Repr, DecidableEq, Inhabited

def Fld.int? : Fld → Option Int
  | .int v => some v
  | _ => none

/-- `--attach-load=L,P[,T]`: load number, pulse (or `all`), optional tag → (0-based load index, 0-based pulse or none,
tag or none) as handed to `register_load` -/
def parseAttach (nloads : Nat) (fs : List Fld) : Except String (Nat × Option Int × Option Int) :=
  match fs with
  | [l, p] | [l, p, _] =>
    let tagFld : Option Fld := match fs with | [_, _, t] => some t | _ => none
    match l.int? with
    | none => .error "attach-load-not-a-number"
    | some lv =>
      let pOpt : Except String (Option Int) :=
        match p with
        | .all => .ok none
        | .int v => .ok (some (v - 1))
        | .junk => .error "attach-load-not-a-number"
      match pOpt with
      | .error e => .error e
      | .ok pv =>
        let tOpt : Except String (Option Int) :=
          match tagFld with
          | none => .ok none
          | some (.int v) => .ok (some v)
          | some _ => .error "attach-load-not-a-number"
        match tOpt with
        | .error e => .error e
        | .ok tv =>
          if lv < 1 ∨ (nloads : Int) < lv then .error "load-index-out-of-range"
          else .ok ((lv - 1).toNat, pv, tv)
  | _ => .error "attach-load-needs-2-3-parameters"

/-- the rule of the seeded change C20-f: the keyword is accepted in every field (`None`), the load number is then
`None - 1` -/
def parseAttachLax (fs : List Fld) : Bool :=
  match fs with
  | [.all, _] | [.all, _, _] => true      -- reaches `att [0] - 1` with `att [0] = None`: TypeError
  | _ => false

/-- the fields `as_cmdline_load_attach` writes for one attachment of load `i` (1-based) -/
def showAttach (i : Nat) : Att → List Fld
  | .pulse k => [.int i, .int k]
  | .rel k t => [.int i, .int k, .int t]
  | .allObj t => [.int i, .all, .int t]
  | .all => [.int i, .all]

/-- `--excitation-pulse=P[,T]` → (0-based pulse, tag or none) -/
def parseExcitation (fs : List Fld) : Except String (Int × Option Int) :=
  match fs with
  | [.int p] => .ok (p - 1, none)
  | [.int p, .int t] => .ok (p - 1, some t)
  | [_] | [_, _] => .error "invalid-pulse-for-excitation"
  | _ => .error "invalid-number-of-pulse-index-parameters"

end Pmn.Cmd
