/-
Pmn.Model.Session — one `Mininec` object as an abstract state machine (C14).

What the real object keeps between operations, as far as results can depend on it:
the frequency, the result of the last `compute` (Z, rhs, current, power — one unit here, they
are written together) and the per-object caches of the distributed loads
(`Geobj.zint`, skin effect, depends on the frequency; `Geobj.zins`, insulation, does not).
The physics is abstract: `Phys` are arbitrary functions of the *inputs*.

Operations (mininec.py): the `f` setter, `compute`, `compute_far_field`, `compute_near_field`.
`step` transcribes their effect on that state; `clearZint` says whether the `f` setter resets the
skin-effect cache (the repaired code does, the original did not).
-/
namespace Pmn.Session

/-- abstract physics: `F` frequencies, `V` values, `A` request arguments, objects are numbered -/
structure Phys (F V A : Type) where
  zintF : Nat → F → V                       -- skin-effect impedance per length of object w at f
  zinsF : Nat → V                           -- insulation inductance per length of object w
  solveF : F → (Nat → V) → (Nat → V) → V    -- currents/power from f and the per-object load data used
  farF : V → F → A → V                      -- far field from currents, f, request
  nearF : V → F → A → V

structure St (F V : Type) where
  f : F
  zint : Nat → Option V
  zins : Nat → Option V
  cur : Option (F × V)        -- result of the last compute together with the frequency it was made for
deriving Inhabited

inductive Op (F A : Type) where
  | setF (f : F)
  | compute
  | far (a : A)
  | near (a : A)
deriving Repr, DecidableEq

variable {F V A : Type}

def init (f : F) : St F V := ⟨f, fun _ => none, fun _ => none, none⟩

/-- value of a cache after it has been consulted: filled only when it was empty -/
def useCache (c : Option V) (fresh : V) : V := c.getD fresh

def step (ph : Phys F V A) (clearZint : Bool) (s : St F V) : Op F A → St F V × Option V
  | .setF f =>
    -- `_f, wavelen, m, srm, w, w2` follow f; `Z`, `rhs` are cleared (the solved currents are kept by
    -- the real object, which is why a field request directly after a frequency change is not a
    -- valid history)
    ({ s with f := f, cur := none, zint := if clearZint then fun _ => none else s.zint }, none)
  | .compute =>
    let zi := fun w => useCache (s.zint w) (ph.zintF w s.f)
    let zn := fun w => useCache (s.zins w) (ph.zinsF w)
    let r := ph.solveF s.f zi zn
    ({ s with zint := fun w => some (zi w), zins := fun w => some (zn w), cur := some (s.f, r) }, some r)
  | .far a =>
    match s.cur with
    | some (_, r) => (s, some (ph.farF r s.f a))
    | none => (s, none)
  | .near a =>
    match s.cur with
    | some (_, r) => (s, some (ph.nearF r s.f a))
    | none => (s, none)

/-- run a history, collecting the observations -/
def run (ph : Phys F V A) (clearZint : Bool) : St F V → List (Op F A) → St F V × List (Option V)
  | s, [] => (s, [])
  | s, op :: r =>
    let (s', o) := step ph clearZint s op
    let (s'', os) := run ph clearZint s' r
    (s'', o :: os)

/-- what a fresh object, set to frequency `f`, computes -/
def freshCur (ph : Phys F V A) (f : F) : V :=
  ph.solveF f (fun w => ph.zintF w f) (fun w => ph.zinsF w)

/-- what a fresh single-frequency run answers to one operation at frequency `f` -/
def freshObs (ph : Phys F V A) (f : F) : Op F A → Option V
  | .setF _ => none
  | .compute => some (freshCur ph f)
  | .far a => some (ph.farF (freshCur ph f) f a)
  | .near a => some (ph.nearF (freshCur ph f) f a)

/-- attributes written by each operation (declared write-sets, compared with the attribute diff of
the real object) -/
def writes : Op F A → List String
  | .setF _ => ["_f", "wavelen", "m", "srm", "w", "w2", "currents", "rhs", "Z", "geo.zint"]
  | .compute => ["Z", "rhs", "current", "power", "geo.zint", "geo.zins", "pulses.cache"]
  | .far _ => ["ff_dist", "ff_power", "far_field_angles", "far_field", "pulses.cache"]
  | .near _ => ["nf_param", "e_field", "h_field", "nf_power", "near_field_coord", "pulses.cache"]

/-- the caches of the pulse container (`Pulse_Container.reset` plus its cached properties): all of
them functions of the geometry alone — in the model they are the `zins` kind of cache, filled once
and never invalidated.  The correspondence check compares this list with the attributes the real
container carries and compares every cached value with a fresh object's at another frequency. -/
def geoCaches : List String :=
  ["dvecs_cache", "endseg_cache", "matrix_dvecs_cache", "matrix_endseg_cache", "_matrix_geo_unconnected",
   "dir_sgn", "dirvec", "geo_idx", "geo_idx_0", "gnd_sgn", "ground", "i6", "idx", "inv_ground",
   "is_non_vertical_grounded", "point", "radius", "same_dir", "same_geobj", "same_len", "seg_len", "sign",
   "matrix_dir_sgn", "matrix_dirvec", "matrix_geo_idx", "matrix_geo_idx_0", "matrix_gnd_sgn", "matrix_ground",
   "matrix_idx", "matrix_is_non_vertical_grounded", "matrix_point", "matrix_radius", "matrix_same_dir",
   "matrix_same_geobj", "matrix_same_len", "matrix_seg_len", "matrix_sign", "pulse_idx"]

end Pmn.Session
