/-
Pmn.Model.Grid — sample points of the far-field table and the near-field grid (C16).

* `anglesDeg`  transcribes `Angle.angle_deg` (mininec.py:96): `initial + idx * inc`.
* `farTable`   is the row order of the far-field tables: azimuth outer, zenith inner
               (`np.meshgrid (zenith, azimuth)` flattened row-major).
* `axis`       transcribes one axis of the near-field grid (mininec.py `compute_near_field`):
               `s + np.arange (n) * ((s + i) - s)` — NumPy's own `arange` element rule with an
               explicit count.
* `nearGrid`   is `np.meshgrid (z, y, x, indexing='ij')` flattened and flipped: x fastest.
* `arangeLen`  is the length rule of `np.arange (start, stop, step)` for doubles,
               `ceil ((stop - start) / step)`, kept to state the defect of the former grid code.
-/
import Pmn.Model.Num

namespace Pmn.Grid
variable {K : Type} [Add K] [Sub K] [Mul K] [NatCast K]

def anglesDeg (init inc : K) (n : Nat) : List K :=
  (List.range n).map fun (i : Nat) => init + (i : K) * inc

def farTable (zen azi : List K) : List (K × K) :=
  azi.flatMap fun a => zen.map fun z => (z, a)

def axis (s i : K) (n : Nat) : List K :=
  (List.range n).map fun (k : Nat) => s + (k : K) * ((s + i) - s)

def nearGrid (s i : V3 K) (nx ny nz : Nat) : List (V3 K) :=
  (axis s.z i.z nz).flatMap fun z =>
    (axis s.y i.y ny).flatMap fun y =>
      (axis s.x i.x nx).map fun x => ⟨x, y, z⟩

/-- `ceil` written with kernel-reducible Float operations only. -/
def ceilNat (x : Float) : Nat :=
  if x ≤ 0 then 0 else
  let n := x.toUInt64
  if x > n.toFloat then n.toNat + 1 else n.toNat

/-- length of `np.arange (start, stop, step)` -/
def arangeLen (start stop step : Float) : Nat := ceilNat ((stop - start) / step)

/-- the grid axis length of the code before the repair: `np.arange (s, s + n * i, i)` -/
def oldAxisLen (s i : Float) (n : Nat) : Nat := arangeLen s (s + Float.ofNat n * i) i

end Pmn.Grid
