/-
Pmn.Model.Num — scalar abstraction shared by all numeric layers of the model.

Model files import nothing outside Lean core.  Numeric definitions are generic in the
scalar `K`; they use the ordinary notation classes (`Add`, `Mul`, …) plus the small classes
below for the transcendental functions.  `Float` instances live here (they are what the
driver executes); the `ℝ` / `ℂ` instances live in `Pmn/Proofs/Inst.lean`.
-/

class HasSqrt (K : Type) where
  sqrt : K → K

class HasTrig (K : Type) where
  sin : K → K
  cos : K → K
  atan2 : K → K → K
  pi : K

class HasExpLog (K : Type) where
  exp : K → K
  log : K → K
  log10 : K → K

instance : HasSqrt Float := ⟨Float.sqrt⟩
instance : HasTrig Float := ⟨Float.sin, Float.cos, Float.atan2, 3.141592653589793⟩
instance : HasExpLog Float := ⟨Float.exp, Float.log, Float.log10⟩
instance : NatCast Float := ⟨Float.ofNat⟩
instance : IntCast Float := ⟨Float.ofInt⟩

/-- 3-vectors over an arbitrary scalar. -/
structure V3 (K : Type) where
  x : K
  y : K
  z : K
deriving Repr, BEq, DecidableEq, Inhabited

namespace V3
variable {K : Type}

def add [Add K] (a b : V3 K) : V3 K := ⟨a.x + b.x, a.y + b.y, a.z + b.z⟩
def sub [Sub K] (a b : V3 K) : V3 K := ⟨a.x - b.x, a.y - b.y, a.z - b.z⟩
def smul [Mul K] (c : K) (a : V3 K) : V3 K := ⟨c * a.x, c * a.y, c * a.z⟩
def neg [Neg K] (a : V3 K) : V3 K := ⟨-a.x, -a.y, -a.z⟩
def dot [Add K] [Mul K] (a b : V3 K) : K := a.x * b.x + a.y * b.y + a.z * b.z
def normSq [Add K] [Mul K] (a : V3 K) : K := dot a a
def norm [Add K] [Mul K] [HasSqrt K] (a : V3 K) : K := HasSqrt.sqrt (normSq a)
/-- component-wise product (numpy `*` on vectors) -/
def had [Mul K] (a b : V3 K) : V3 K := ⟨a.x * b.x, a.y * b.y, a.z * b.z⟩
def cross [Sub K] [Mul K] (a b : V3 K) : V3 K :=
  ⟨a.y * b.z - a.z * b.y, a.z * b.x - a.x * b.z, a.x * b.y - a.y * b.x⟩

instance [Add K] : Add (V3 K) := ⟨add⟩
instance [Sub K] : Sub (V3 K) := ⟨sub⟩
instance [Neg K] : Neg (V3 K) := ⟨neg⟩

end V3

/-- Complex numbers over an arbitrary scalar (`re + j·im`). -/
structure Cx (K : Type) where
  re : K
  im : K
deriving Repr, BEq, DecidableEq, Inhabited

namespace Cx
variable {K : Type}

def add [Add K] (a b : Cx K) : Cx K := ⟨a.re + b.re, a.im + b.im⟩
def sub [Sub K] (a b : Cx K) : Cx K := ⟨a.re - b.re, a.im - b.im⟩
def neg [Neg K] (a : Cx K) : Cx K := ⟨-a.re, -a.im⟩
def mul [Add K] [Sub K] [Mul K] (a b : Cx K) : Cx K :=
  ⟨a.re * b.re - a.im * b.im, a.re * b.im + a.im * b.re⟩
def conj [Neg K] (a : Cx K) : Cx K := ⟨a.re, -a.im⟩
def normSq [Add K] [Mul K] (a : Cx K) : K := a.re * a.re + a.im * a.im
def abs [Add K] [Mul K] [HasSqrt K] (a : Cx K) : K := HasSqrt.sqrt (normSq a)
def scale [Mul K] (c : K) (a : Cx K) : Cx K := ⟨c * a.re, c * a.im⟩
/-- textbook quotient `a·conj b / |b|²` (numerically differs from C99 division in the last bits) -/
def div [Add K] [Sub K] [Mul K] [Div K] (a b : Cx K) : Cx K :=
  let d := normSq b
  ⟨(a.re * b.re + a.im * b.im) / d, (a.im * b.re - a.re * b.im) / d⟩
def ofReal [OfNat K 0] (r : K) : Cx K := ⟨r, 0⟩

instance [Add K] : Add (Cx K) := ⟨add⟩
instance [Sub K] : Sub (Cx K) := ⟨sub⟩
instance [Neg K] : Neg (Cx K) := ⟨neg⟩
instance [Add K] [Sub K] [Mul K] : Mul (Cx K) := ⟨mul⟩
instance [Add K] [Sub K] [Mul K] [Div K] : Div (Cx K) := ⟨div⟩

end Cx
