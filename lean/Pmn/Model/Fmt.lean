/-
Pmn.Model.Fmt — number formatting of the report (util.py:27 `format_float`) on exact values.

A finite IEEE double is the exact fraction `± num / den` (`ofBits`).  All digit generation is
integer arithmetic on that fraction; Python's `'% .Nf'` and `'% e'` are modelled as correctly
rounded, ties to even, which is what CPython guarantees for `float.__format__`.

Two parallel descriptions of `format_float`:
* `formatFloat`  — the printed text (compared string-for-string with the implementation);
* `fmtVal`       — the rational number that text denotes (what the C19 theorems speak about);
  `readField (formatFloat …)` is executed against `fmtVal` on every correspondence case.
-/
import Pmn.Model.Const

namespace Pmn.Fmt

/-- non-negative fraction `num / den` with a sign flag -/
structure Frac where
  neg : Bool
  num : Nat
  den : Nat
deriving Repr, DecidableEq, Inhabited

/-- exact value of a finite double given by its bit pattern; `none` for ±inf and NaN -/
def ofBits (b : UInt64) : Option Frac :=
  let bits := b.toNat
  let sign := bits / 2 ^ 63 == 1
  let e := (bits / 2 ^ 52) % 2048
  let m := bits % 2 ^ 52
  if e == 2047 then none
  else if e == 0 then some ⟨sign, m, 2 ^ 1074⟩
  else
    let mant := m + 2 ^ 52
    if e ≥ 1075 then some ⟨sign, mant * 2 ^ (e - 1075), 1⟩
    else some ⟨sign, mant, 2 ^ (1075 - e)⟩

/-- round `num/den` to the nearest integer, ties to even (`den > 0`) -/
def roundHalfEven (num den : Nat) : Nat :=
  let n := num / den
  let r2 := 2 * (num % den)
  if r2 > den ∨ (r2 = den ∧ n % 2 = 1) then n + 1 else n

/-- `int (log10 (num/den))`, truncated toward zero, for `num/den ≥ 1`: number of integer digits − 1 -/
def ilogGe1 : Nat → Nat → Nat → Nat
  | 0, _, _ => 0
  | fuel + 1, num, den => if num ≥ 10 * den then ilogGe1 fuel num (10 * den) + 1 else 0

/-- for `0 < num/den < 1`: the `k ≥ 0` with `10^-(k+1) ≤ num/den < 10^-k` -/
def ilogLt1 : Nat → Nat → Nat → Nat
  | 0, _, _ => 0
  | fuel + 1, num, den => if 10 * num < den then ilogLt1 fuel (10 * num) den + 1 else 0

/-- the `prec` of `format_float`: `max 0 (digits − int (log10 |f|))` for `f ≠ 0`.
Fuel: `10^k·den ≤ num` implies `k < num`, and `10^k·num < den` implies `k < den`. -/
def precOf (digits : Nat) (num den : Nat) : Nat :=
  if num ≥ den then digits - ilogGe1 num num den
  else digits + ilogLt1 den num den

def padLeft (s : String) (n : Nat) (c : Char) : String :=
  String.ofList (List.replicate (n - s.length) c) ++ s

def padRight (s : String) (n : Nat) (c : Char) : String :=
  s ++ String.ofList (List.replicate (n - s.length) c)

/-- `'% .{prec}f' % (±num/den)` -/
def fixedStr (neg : Bool) (num den prec : Nat) : String :=
  let n := roundHalfEven (num * 10 ^ prec) den
  let s := padLeft (toString n) (prec + 1) '0'
  let sign := if neg then "-" else " "
  if prec == 0 then sign ++ s
  else
    let cs := s.toList
    sign ++ String.ofList (cs.take (cs.length - prec)) ++ "." ++ String.ofList (cs.drop (cs.length - prec))

/-- normalise `num/den > 0` to a mantissa `a/b` in [1,10) and a decimal exponent -/
def sciNorm (num den : Nat) : Nat × Nat × Int :=
  if num ≥ den then
    let e := ilogGe1 num num den
    (num, den * 10 ^ e, (e : Int))
  else
    let k := ilogLt1 den num den
    (num * 10 ^ (k + 1), den, -((k : Int) + 1))

/-- mantissa integer (7 digits) and exponent of `'% e'` -/
def sciParts (num den : Nat) : Nat × Int :=
  let r := sciNorm num den
  let n := roundHalfEven (r.1 * 10 ^ 6) r.2.1
  if n ≥ 10 ^ 7 then (n / 10, r.2.2 + 1) else (n, r.2.2)

/-- `('% e' % (±num/den)).upper ()` for `num/den > 0` -/
def sciStr (neg : Bool) (num den : Nat) : String :=
  let (n, e) := sciParts num den
  let s := (toString n).toList
  let sign := if neg then "-" else " "
  sign ++ String.ofList (s.take 1) ++ "." ++ String.ofList (s.drop 1) ++ "E"
    ++ (if e < 0 then "-" else "+") ++ padLeft (toString e.natAbs) 2 '0'

def rstripChar (cs : List Char) (c : Char) : List Char :=
  (cs.reverse.dropWhile (· == c)).reverse

/-- the post-processing of a fixed-point text that contains a '.' -/
def cutFixed (s : String) : String :=
  let cs := s.toList.take 9
  let cs := rstripChar cs '0'
  let cs := rstripChar cs '.'
  let cs := match cs with
    | ' ' :: '0' :: '.' :: r => ' ' :: '.' :: r
    | '-' :: '0' :: '.' :: r => '-' :: '.' :: r
    | _ => cs
  padRight (String.ofList cs) 9 ' '

def fixMinusZero (s : String) : String :=
  if s.trimAscii.toString == "-0" then " " ++ String.ofList (s.toList.drop 1) else s

/-- `format_float ((f,), use_e)[0]` for the finite double `f = ± num/den` -/
def formatFloatP (digits tn td : Nat) (x : Frac) (useE : Bool) : String :=
  if x.num == 0 then
    -- '% .1f' (or '% .0f' with use_e) of ±0
    if useE then fixMinusZero ((if x.neg then "-" else " ") ++ "0")
    else fixMinusZero (cutFixed ((if x.neg then "-" else " ") ++ "0.0"))
  else if useE ∧ x.num * td < tn * x.den then
    sciStr x.neg x.num x.den
  else
    let prec := precOf digits x.num x.den
    let s := fixedStr x.neg x.num x.den prec
    fixMinusZero (if s.toList.contains '.' then cutFixed s else s)

/-- `format_float` with the constants of the current source (`6 - int (log …)`, `abs (f) < 1e-1`) -/
def formatFloat (x : Frac) (useE : Bool) : String :=
  formatFloatP Pmn.Const.fmtDigits.num.toNat Pmn.Const.fmtEThresh.num.toNat Pmn.Const.fmtEThresh.den x useE

/-! ### value level -/

/-- a printed decimal: value `± n / 10^scale · 10^exp10` -/
structure DecVal where
  neg : Bool
  n : Nat
  scale : Nat
  exp10 : Int := 0
deriving Repr, DecidableEq, Inhabited

/-- number of decimal digits of `n` (`1` for `0`), as a cascade up to 10^7 (larger integer parts
never occur together with a decimal point) -/
def ndigits (n : Nat) : Nat :=
  if n < 10 then 1 else if n < 100 then 2 else if n < 1000 then 3 else if n < 10000 then 4
  else if n < 100000 then 5 else if n < 1000000 then 6 else if n < 10000000 then 7 else 8

/-- value after `s [:9]`: the text is sign, integer digits, '.', `prec` decimals, of which
`7 − (number of integer digits)` survive the cut to nine characters -/
def cutVal (neg : Bool) (n prec : Nat) : DecVal :=
  let keep := 7 - ndigits (n / 10 ^ prec)
  if keep ≥ prec then ⟨neg && n != 0, n, prec, 0⟩
  else ⟨neg && (n / 10 ^ (prec - keep)) != 0, n / 10 ^ (prec - keep), keep, 0⟩

/-- the value denoted by `formatFloat x useE` -/
def fmtValP (digits tn td : Nat) (x : Frac) (useE : Bool) : DecVal :=
  if x.num == 0 then ⟨false, 0, 0, 0⟩
  else if useE ∧ x.num * td < tn * x.den then
    let (n, e) := sciParts x.num x.den
    ⟨x.neg, n, 6, e⟩
  else
    let prec := precOf digits x.num x.den
    let n := roundHalfEven (x.num * 10 ^ prec) x.den
    if prec == 0 then ⟨x.neg && n != 0, n, 0, 0⟩
    else cutVal x.neg n prec

def fmtVal (x : Frac) (useE : Bool) : DecVal :=
  fmtValP Pmn.Const.fmtDigits.num.toNat Pmn.Const.fmtEThresh.num.toNat Pmn.Const.fmtEThresh.den x useE

/-- reader for one report field: optional sign, digits, optional '.', digits, optional E±dd.
returns the decimal read, `none` on anything else -/
def readField (s : String) : Option DecVal :=
  let cs := s.trimAscii.toString.toList
  let (neg, cs) := match cs with
    | '-' :: r => (true, r)
    | '+' :: r => (false, r)
    | r => (false, r)
  let ip := cs.takeWhile Char.isDigit
  let rest := cs.dropWhile Char.isDigit
  let (fp, rest) := match rest with
    | '.' :: r => (r.takeWhile Char.isDigit, r.dropWhile Char.isDigit)
    | r => ([], r)
  if ip.isEmpty ∧ fp.isEmpty then none else
  let n := (String.ofList (ip ++ fp)).toNat!
  match rest with
  | [] => some ⟨neg, n, fp.length, 0⟩
  | 'E' :: sg :: ds =>
    if (sg == '-' ∨ sg == '+') ∧ ds.all Char.isDigit ∧ !ds.isEmpty then
      let e : Int := (String.ofList ds).toNat!
      some ⟨neg, n, fp.length, if sg == '-' then -e else e⟩
    else none
  | _ => none

/-- equality of denoted values: `a.n·10^(b.scale)·10^(a.exp) = b.n·10^(a.scale)·10^(b.exp)` with
signs, decided on integers -/
def DecVal.same (a b : DecVal) : Bool :=
  let e := min a.exp10 b.exp10
  let ea := (a.exp10 - e).toNat
  let eb := (b.exp10 - e).toNat
  let l := a.n * 10 ^ b.scale * 10 ^ ea
  let r := b.n * 10 ^ a.scale * 10 ^ eb
  l == r && (l == 0 || a.neg == b.neg)

end Pmn.Fmt
