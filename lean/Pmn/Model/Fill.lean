/-
Pmn.Model.Fill — one entry of the impedance matrix, written per pulse pair (the "direct" fill:
mininec.py `compute_impedance_matrix` without its copy shortcuts, `vector_potential`,
`scalar_potential`, `psi`, `fast_quad`, `integral_i2_i3`).

  Z[i,j] = Σ_{k ∈ images} k · ( w²/2 · A_j·t_i  +  ΔΦ_j(i) )

* `A_j·t_i`: vector potential of the two half segments of source pulse `j`, projected on the two
  half segments of observer pulse `i`;
* `ΔΦ`: differences of the scalar potentials of the two charged segments of `j` at the half-segment
  ends of `i`, divided by the segment lengths;
* image pass `k = −1` over a ground plane (mirror z), skipped for source pulses on the ground plane.

Generic in the scalar; the quadrature table, the complete elliptic integral, `exp`, `log` are
parameters / class operations, so every theorem holds for any quadrature rule.
-/
import Pmn.Model.Far

namespace Pmn.Fill
open Pmn.Far (cxZero cxOne cxOfReal cis)

variable {K : Type} [Add K] [Sub K] [Mul K] [Div K] [Neg K] [NatCast K]

/-- one side (half) of a pulse: the segment it lies on -/
structure Side (K : Type) where
  len : K           -- segment length
  dir : V3 K        -- unit direction of the segment
  r : K             -- (equivalent) wire radius
  i6 : K            -- wire constant of the exact kernel
  fend : V3 K       -- far end of the pulse on this side (`Pulse.ends`)
  sign : K          -- `Pulse.sign` (direction sign times ground sign)
  dsgn : K          -- `Pulse.dir_sgn`
  gsgn : K          -- `Pulse.gnd_sgn`
  gnd : Bool        -- this half is the image half of a grounded pulse
deriving Repr, Inhabited

structure PulseD (K : Type) where
  idx : Nat
  pt : V3 K
  s0 : Side K
  s1 : Side K
  owner : Nat       -- `Pulse.geobj.n`
  plain : Bool      -- both halves on the same object, with equal length and direction
  geo0 : Nat        -- `Pulse.geo [0].n`
  nvg : Bool        -- grounded and not vertical
deriving Repr, Inhabited

/-- physics and numerics the fill depends on -/
structure Ctx (K : Type) where
  w : K                         -- wave number 2π/λ
  w2 : K                        -- w²/2
  srm : K                       -- small-radius limit 1e-4 λ
  pi : K
  ellipk : K → K                -- complete elliptic integral K(m)
  lg : Nat → List (K × K)       -- Gauss–Legendre nodes/weights on (−1/2, 1/2) for the orders used
  exactT : K                    -- 1.1
  g4 : K                        -- 6
  g2 : K                        -- 10

def side (p : PulseD K) (pos : Bool) : Side K := if pos then p.s1 else p.s0

section Kernel
variable [HasSqrt K] [HasTrig K] [HasExpLog K] [LT K] [DecidableLT K] [LE K] [DecidableLE K]

def vadd (a b : V3 K) : V3 K := ⟨a.x + b.x, a.y + b.y, a.z + b.z⟩
def vsub (a b : V3 K) : V3 K := ⟨a.x - b.x, a.y - b.y, a.z - b.z⟩
def vsmul (c : K) (a : V3 K) : V3 K := ⟨c * a.x, c * a.y, c * a.z⟩
/-- mirror factor `(1, 1, k)` -/
def kmul (k : K) (a : V3 K) : V3 K := ⟨a.x, a.y, k * a.z⟩

/-- the integrand of `psi` at parameter `t` (`integral_i2_i3`) -/
def integrand (c : Ctx K) (t : K) (vec2 vecv : V3 K) (kneg : Bool) (r : K) (exact : Bool) : Cx K :=
  let a := if kneg then vecv else vec2
  let b := if kneg then vec2 else vecv
  let v3 := vadd a (vsmul t (vsub b a))
  let d := V3.norm v3
  let d3 := d * d
  let a2 := r * r
  let thick := decide (c.srm < r)
  let d' := if thick then HasSqrt.sqrt (a2 + d3) else d
  let t34 : K :=
    if thick && exact then
      let bb := d3 / (d3 + ((4 : Nat) : K) * a2)
      let v0 := c.ellipk (((1 : Nat) : K) - bb) * HasSqrt.sqrt (((1 : Nat) : K) - bb)
      (v0 + HasExpLog.log (d3 / (((64 : Nat) : K) * a2)) / ((2 : Nat) : K)) / c.pi / r - ((1 : Nat) : K) / d'
    else ((0 : Nat) : K)
  let e := cis (-(d' * c.w))
  ⟨t34 + e.re / d', e.im / d'⟩

/-- `psi`: potential integral over one half segment (`scale` = ±1/2) or segment (±1) of pulse `pj` -/
def psi (c : Ctx K) (vec2 vecv : V3 K) (kneg : Bool) (scaleAbs : K) (pos : Bool) (pj : PulseD K)
    (exact : Bool) (fvs1 : Bool) : Cx K :=
  let s := side pj pos
  let d0 := V3.norm vec2
  let d3 := V3.norm vecv
  let s4 := scaleAbs * s.len
  let t := (d0 + d3) / s.len
  let exact := exact && decide (t ≤ c.exactT)
  let fvsf : K := if fvs1 then ((2 : Nat) : K) else ((1 : Nat) : K)
  if exact && decide (s.r ≤ c.srm) then
    ⟨fvsf * HasExpLog.log (s.len / s.r), -(fvsf * c.w * s.len / ((2 : Nat) : K))⟩
  else
    let n : Nat := if exact then 8 else if c.g2 < t then 2 else if c.g4 < t then 4 else 8
    let b : K := if exact then ((1 : Nat) : K) / (((2 : Nat) : K) * scaleAbs) else ((1 : Nat) : K)
    let q : Cx K := (c.lg n).foldl (fun acc xw =>
        let v := integrand c ((xw.1 + ((1 : Nat) : K) / ((2 : Nat) : K)) * b) vec2 vecv kneg s.r exact
        ⟨acc.re + xw.2 * v.re, acc.im + xw.2 * v.im⟩) cxZero
    let q : Cx K := if exact then ⟨q.re + s.i6, q.im⟩ else q
    ⟨q.re * s4, q.im * s4⟩

/-- a potential-integral functional: arguments as `psi` -/
abbrev PsiFn (K : Type) := V3 K → V3 K → Bool → K → Bool → PulseD K → Bool → Bool → Cx K

/-- adaptive Simpson quadrature of a complex-valued function on [a, b] -/
def simpsonAux (f : K → Cx K) (tol : K) : Nat → K → K → Cx K → Cx K → Cx K → Cx K → Cx K
  | 0, _, _, _, _, _, whole => whole
  | fuel + 1, a, b, fa, fm, fb, whole =>
    let two : K := ((2 : Nat) : K)
    let m := (a + b) / two
    let lm := (a + m) / two
    let rm := (m + b) / two
    let flm := f lm
    let frm := f rm
    let h := (b - a) / two
    let six : K := ((6 : Nat) : K)
    let left : Cx K := Cx.scale (h / six) (fa + Cx.scale ((4 : Nat) : K) flm + fm)
    let right : Cx K := Cx.scale (h / six) (fm + Cx.scale ((4 : Nat) : K) frm + fb)
    let delta := left + right - whole
    if Cx.normSq delta ≤ ((225 : Nat) : K) * tol * tol then
      left + right + Cx.scale (((1 : Nat) : K) / ((15 : Nat) : K)) delta
    else
      simpsonAux f (tol / two) fuel a m fa flm fm left + simpsonAux f (tol / two) fuel m b fm frm fb right

def simpson (f : K → Cx K) (tol : K) (depth : Nat) (a b : K) : Cx K :=
  let fa := f a
  let fb := f b
  let fm := f ((a + b) / ((2 : Nat) : K))
  let whole : Cx K := Cx.scale ((b - a) / ((6 : Nat) : K)) (fa + Cx.scale ((4 : Nat) : K) fm + fb)
  simpsonAux f tol depth a b fa fm fb whole

/-- **specification** of the potential integral: the published MININEC-3 formulation — reduced
(thin-wire) kernel `exp (−jkR)/R`, `R² = d² + a²` — integrated adaptively over the straight path,
from nothing but the geometry, the radius and the frequency -/
def psiSpec (c : Ctx K) (tol : K) : PsiFn K := fun vec2 vecv kneg scaleAbs pos pj _ _ =>
  let s := side pj pos
  let f := fun t => integrand { c with srm := ((0 : Nat) : K) } t vec2 vecv kneg s.r false
  let q := simpson f tol 40 ((0 : Nat) : K) ((1 : Nat) : K)
  Cx.scale (scaleAbs * s.len) q

/-- `Pulse.endseg (ds)` -/
def endseg (p : PulseD K) (pos : Bool) (a : K) : V3 K :=
  vadd (vsmul a (vsub (side p pos).fend p.pt)) p.pt

/-- `Pulse.dvecs (ds)`: the two end points of the integration path, in wire direction -/
def dvecs (p : PulseD K) (pos : Bool) (a : K) : V3 K × V3 K :=
  if pos then (p.pt, endseg p pos a) else (endseg p pos a, p.pt)

/-- `vector_potential (k, pi, pj, ds = ±1/2)` -/
def vecpot (Ψ : PsiFn K) (c : Ctx K) (k : K) (kneg : Bool) (pi pj : PulseD K) (pos : Bool) (xct : Bool) : Cx K :=
  let s := side pj pos
  let half : K := ((1 : Nat) : K) / ((2 : Nat) : K)
  if pi.idx ≠ pj.idx ∨ kneg ∨ ¬ (s.r < c.srm) then
    let ab := dvecs pj pos half
    Ψ (vsub (kmul k ab.1) pi.pt) (vsub (kmul k ab.2) pi.pt) kneg half pos pj xct false
  else ⟨HasExpLog.log (s.len / s.r), -(c.w * s.len / ((2 : Nat) : K))⟩

/-- `scalar_potential (k, pi, pj, ds1 = ±1/2, ds2 = ±1)`; `same` says whether the observation point
is the middle of the source segment (`pi.idx + ds1 == pj.idx + ds2/2`) -/
def scapot (Ψ : PsiFn K) (c : Ctx K) (k : K) (kneg : Bool) (pi pj : PulseD K) (pos1 pos2 : Bool) (same : Bool)
    (xct : Bool) : Cx K :=
  let s := side pj pos2
  let half : K := ((1 : Nat) : K) / ((2 : Nat) : K)
  if ¬ same ∨ pi.owner ≠ pj.owner ∨ ¬ (s.r < c.srm) ∨ kneg then
    let v1 := endseg pi pos1 half
    let ab := dvecs pj pos2 ((1 : Nat) : K)
    Ψ (vsub (kmul k ab.1) v1) (vsub (kmul k ab.2) v1) kneg ((1 : Nat) : K) pos2 pj xct true
  else ⟨((2 : Nat) : K) * HasExpLog.log (s.len / s.r), -(c.w * s.len)⟩

/-- is the observation point `pi.idx ± 1/2` the middle of the source segment `pj.idx ± 1`? (indices
compared as in the code: `pi.idx + ds1 == pj.idx + ds2 / 2`) -/
def sameMid (i j : Nat) (pos1 pos2 : Bool) : Bool :=
  -- 2 i ± 1 = 2 j ± 1
  (2 * i + (if pos1 then 2 else 0)) == (2 * j + (if pos2 then 2 else 0))

/-- the part of entry (i, j) contributed by one image pass `k`.  `f8` selects the evaluation the
implementation uses inside one straight, equally segmented object: `0` every potential integral on
its own; `1` the scalar potential over a whole segment as the sum of the two half-segment integrals
already computed for the vector potential; `2` (diagonal) additionally the symmetry of the two
halves -/
def entryK8 (Ψ : PsiFn K) (c : Ctx K) (k : K) (kneg : Bool) (pi pj : PulseD K) (xct : Bool) (f8 : Nat) : Cx K :=
  let vpP := vecpot Ψ c k kneg pi pj true xct
  let vpM := if f8 < 2 then vecpot Ψ c k kneg pi pj false xct else vpP
  let u := Cx.scale pj.s1.sign vpP
  let v := Cx.scale pj.s0.sign vpM
  -- vec3 = (f7·u·dir1 + f6·v·dir0)·kvec with f6/f7 = (1, 1, gnd_sgn); zzz = Σ_h dsgn_h·len_h·dir_h
  let zzz : V3 K := vadd (vsmul (pi.s0.dsgn * pi.s0.len) pi.s0.dir) (vsmul (pi.s1.dsgn * pi.s1.len) pi.s1.dir)
  let f7 : V3 K := ⟨pj.s1.dir.x, pj.s1.dir.y, k * (pj.s1.gsgn * pj.s1.dir.z)⟩
  let f6 : V3 K := ⟨pj.s0.dir.x, pj.s0.dir.y, k * (pj.s0.gsgn * pj.s0.dir.z)⟩
  let du := V3.dot f7 zzz
  let dv := V3.dot f6 zzz
  let d : Cx K := Cx.scale c.w2 (Cx.scale du u + Cx.scale dv v)
  let one : K := ((1 : Nat) : K)
  let sp1 := scapot Ψ c k kneg pi pj false true (sameMid pi.idx pj.idx false true) xct
  let u12 : Cx K :=
    if f8 < 2 then
      let u56 := if f8 = 1 then Cx.scale pj.s1.sign u + vpM
                 else scapot Ψ c k kneg pi pj true true (sameMid pi.idx pj.idx true true) xct
      let u34 := scapot Ψ c k kneg pi pj true false (sameMid pi.idx pj.idx true false) xct
      let sp2 := if f8 = 1 then u56
                 else scapot Ψ c k kneg pi pj false false (sameMid pi.idx pj.idx false false) xct
      Cx.scale (one / pj.s1.len) (sp1 - u56) + Cx.scale (one / pj.s0.len) (u34 - sp2)
    else
      Cx.scale (one / pj.s1.len) (Cx.scale ((2 : Nat) : K) sp1 - Cx.scale (((4 : Nat) : K) * pj.s1.sign) u)
  Cx.scale k (d + u12)

/-- every integral on its own (the published formulation) -/
def entryK (Ψ : PsiFn K) (c : Ctx K) (k : K) (kneg : Bool) (pi pj : PulseD K) (xct : Bool) : Cx K :=
  entryK8 Ψ c k kneg pi pj xct 0

/-- `f8` of the implementation for the direct pass: 1 inside one plain object between pulses of the same segment
length (on a tapered wire several pulses have equal halves of different length), 2 on its diagonal, 0 otherwise
(and always 0 for grounded non-vertical pulses and for the image pass) -/
def f8Of [BEq K] (pi pj : PulseD K) : Nat :=
  if pi.plain && pj.plain && pi.geo0 == pj.geo0 && pi.s0.len == pj.s0.len && !(pi.nvg || pj.nvg)
  then (if pi.idx == pj.idx then 2 else 1) else 0

/-- **matrix entry** `Z[i, j]`: direct pass, plus the image pass over a ground plane unless the
source pulse sits on the ground plane -/
def entry (Ψ : PsiFn K) (c : Ctx K) (hasGround : Bool) (pi pj : PulseD K) (xct : Bool) : Cx K :=
  let one : K := ((1 : Nat) : K)
  let direct := entryK Ψ c one false pi pj xct
  if hasGround && !(pj.s0.gnd || pj.s1.gnd) then direct + entryK Ψ c (-one) true pi pj xct
  else direct

/-- the fill as the implementation computes it (Gauss rule selected by distance, exact kernel and
small-radius shortcuts near the source) -/
def entryAlgo [BEq K] (c : Ctx K) (hasGround : Bool) (pi pj : PulseD K) (xct : Bool) : Cx K :=
  let one : K := ((1 : Nat) : K)
  let direct := entryK8 (psi c) c one false pi pj xct (f8Of pi pj)
  if hasGround && !(pj.s0.gnd || pj.s1.gnd) then direct + entryK8 (psi c) c (-one) true pi pj xct 0
  else direct

/-- the fill according to the published formulation with adaptive quadrature -/
def entrySpec (c : Ctx K) (tol : K) (hasGround : Bool) (pi pj : PulseD K) (xct : Bool) : Cx K :=
  entry (psiSpec c tol) c hasGround pi pj xct

end Kernel

end Pmn.Fill
