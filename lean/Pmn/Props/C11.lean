/-
C11 — real ground changes only the far field, consistently with its limits.

Over ℝ for `Pmn.Model.Far`:
* the medium looked up for a reflection point is unchanged when a medium (other than a first medium
  with radials) is split into adjacent pieces with identical constants, and when a further medium is
  appended beyond every reflection point;
* with vanishing surface impedance the real-ground image term *is* the ideal-ground image term, and
  the modulus of the surface impedance is `(ε² + (σ/t)²)^(-1/4)`, which tends to 0 as σ → ∞.
That the matrix, right-hand side, currents and near field do not depend on the media constants is
established on the implementation (bit-identical results for different media, and an AST scan of
the uses of `self.media`), see harness/c11.py.
-/
import Pmn.Proofs.FarLemmas
import Mathlib.Analysis.SpecialFunctions.Sqrt
import Mathlib.Analysis.SpecificLimits.Basic
import Mathlib.Topology.Algebra.Order.Field

namespace Pmn.Props.C11
open Pmn.Far Pmn.FarLemmas

/-- constants of the medium found for the reflection point `b9` -/
noncomputable def lookupM (media : List (MediumF ℝ)) (b9 : ℝ) : Option (Cx ℝ × ℝ) :=
  (media[mediumIndex (media.map (·.coord)) b9]?).map fun m => (m.z, m.height)

theorem findIdx_append_none {α : Type} (p : α → Bool) (l r : List α) (h : l.findIdx? p = none) :
    (l ++ r).findIdx? p = (r.findIdx? p).map (· + l.length) := by
  induction l with
  | nil => simp
  | cons a t ih =>
    simp only [List.findIdx?_cons] at h
    split at h
    · cases h
    · rename_i hp
      simp only [Option.map_eq_none_iff] at h
      simp only [List.cons_append, List.findIdx?_cons, hp, Bool.false_eq_true, if_false, ih h,
        Option.map_map, List.length_cons]
      congr 1

theorem findIdx_append_some {α : Type} (p : α → Bool) (l r : List α) (i : Nat)
    (h : l.findIdx? p = some i) : (l ++ r).findIdx? p = some i := by
  induction l generalizing i with
  | nil => simp at h
  | cons a t ih =>
    simp only [List.findIdx?_cons] at h
    simp only [List.cons_append, List.findIdx?_cons]
    split at h
    · rename_i hp; simp [hp] at h ⊢; exact h
    · rename_i hp
      simp only [hp, Bool.false_eq_true, if_false]
      cases ht : t.findIdx? p with
      | none => rw [ht] at h; cases h
      | some k =>
        rw [ht] at h
        rw [ih k ht]
        exact h

/-- **appending a medium beyond every reflection point**: the last medium's outer boundary becomes
`U` and a further medium follows; for every reflection point with `b9 ≤ U` the medium found is
the same -/
theorem C11_beyond (pre : List (MediumF ℝ)) (last new : MediumF ℝ) (U b9 : ℝ)
    (hb : b9 ≤ U) (hbig : b9 ≤ last.coord) :
    lookupM (pre ++ [{ last with coord := U }, new]) b9 = lookupM (pre ++ [last]) b9 := by
  unfold lookupM mediumIndex
  simp only [List.map_append, List.map_cons, List.map_nil]
  cases hpre : (pre.map (·.coord)).findIdx? (fun c => !(decide (c < b9))) with
  | some i =>
    rw [findIdx_append_some _ _ _ i hpre, findIdx_append_some _ _ _ i hpre]
    have hi : i < pre.length := by
      have := List.findIdx?_eq_some_iff_findIdx_eq.mp hpre
      have := this.1; simpa using this
    simp only [List.getElem?_append_left hi]
  | none =>
    rw [findIdx_append_none _ _ _ hpre, findIdx_append_none _ _ _ hpre]
    have h1 : ¬ (U < b9) := not_lt.mpr hb
    have h2 : ¬ (last.coord < b9) := not_lt.mpr hbig
    simp [List.findIdx?_cons, h1, h2]

/-- **splitting a medium**: medium `m` (not the first, or no radials — the radial screen acts on
index 0 only) is replaced by two adjacent pieces with the same constants and height, the inner one
ending at `u ≤ m.coord`; the constants found for any reflection point are the same -/
theorem C11_split (pre post : List (MediumF ℝ)) (m : MediumF ℝ) (u b9 : ℝ) (hu : u ≤ m.coord)
    (hfound : ∃ i, ((pre ++ m :: post).map (·.coord)).findIdx? (fun c => !(decide (c < b9))) = some i) :
    lookupM (pre ++ { m with coord := u } :: m :: post) b9 = lookupM (pre ++ m :: post) b9 := by
  unfold lookupM mediumIndex
  simp only [List.map_append, List.map_cons]
  cases hpre : (pre.map (·.coord)).findIdx? (fun c => !(decide (c < b9))) with
  | some i =>
    rw [findIdx_append_some _ _ _ i hpre, findIdx_append_some _ _ _ i hpre]
    have hi : i < pre.length := by
      have := (List.findIdx?_eq_some_iff_findIdx_eq.mp hpre).1; simpa using this
    simp only [List.getElem?_append_left hi]
  | none =>
    obtain ⟨i, hi⟩ := hfound
    simp only [List.map_append, List.map_cons] at hi
    rw [findIdx_append_none _ _ _ hpre] at hi ⊢
    rw [findIdx_append_none _ _ _ hpre]
    simp only [List.length_map]
    by_cases hm : m.coord < b9
    · -- beyond m: both pieces are passed, the index moves by one
      have hu' : u < b9 := lt_of_le_of_lt hu hm
      simp only [List.findIdx?_cons, hm, hu', decide_true, Bool.not_true, Bool.false_eq_true, if_false] at hi ⊢
      cases hp : (post.map (·.coord)).findIdx? (fun c => !(decide (c < b9))) with
      | none => rw [hp] at hi; simp at hi
      | some k =>
        simp only [hp, Option.map_some, Option.map_map]
        have e1 : pre.length + 1 + (k + 1) - pre.length = k + 2 := by omega
        simp only [Function.comp, List.getElem?_append_right (by omega : pre.length ≤ k + 1 + 1 + pre.length),
          List.getElem?_append_right (by omega : pre.length ≤ k + 1 + pre.length)]
        have : k + 1 + 1 + pre.length - pre.length = k + 2 := by omega
        have h2 : k + 1 + pre.length - pre.length = k + 1 := by omega
        rw [this, h2]
        simp
    · by_cases hu' : u < b9
      · simp [List.findIdx?_cons, hm, hu', List.getElem?_append_right]
      · simp [List.findIdx?_cons, hm, hu', List.getElem?_append_right]

/-! ### the ideal-ground limit -/

theorem csqrt_one : csqrt (⟨1, 0⟩ : Cx ℝ) = ⟨1, 0⟩ := by
  unfold csqrt
  simp [HasSqrt.sqrt]

/-- **vanishing surface impedance**: with `z = 0`, height 0 and no radial screen the image term of
the real-ground formula equals the ideal-ground image term, at every elevation above grazing
(`cos θ ≠ 0`) -/
theorem C11_limit_value (w t p : ℝ) (c : Bool) (coord : ℝ) (pt : V3 ℝ) (h : Half ℝ) (cur : Cx ℝ)
    (hct : Real.cos t ≠ 0) (hg : h.gnd = false) (hi : h.inv = false) :
    halfReal w t p c 0 0 [⟨coord, 0, ⟨0, 0⟩⟩] pt h cur = halfIdeal w t p (-1) false pt h cur := by
  unfold halfReal halfIdeal
  simp only [hg, hi, Bool.or_self, Bool.false_eq_true, if_false]
  have hidx : mediumIndex ([(⟨coord, 0, ⟨0, 0⟩⟩ : MediumF ℝ)].map (·.coord)) = fun _ => 0 := by
    funext b; unfold mediumIndex
    by_cases hb : coord < b <;> simp [List.findIdx?_cons, hb]
  simp only [hidx, List.getElem?_cons_zero, Option.getD_some, ne_eq, not_true_eq_false, false_and, if_false]
  have hz : (cxOne - Cx.scale (HasTrig.sin t * HasTrig.sin t) ((⟨0, 0⟩ : Cx ℝ) * ⟨0, 0⟩) : Cx ℝ) = ⟨1, 0⟩ := by
    cx_unfold; simp
  rw [hz, csqrt_one]
  have hc : (HasTrig.cos t : ℝ) ≠ 0 := hct
  cx_unfold
  simp only [CV3.mk.injEq, Cx.mk.injEq, moment]
  have hcc : (HasTrig.cos t : ℝ) * HasTrig.cos t ≠ 0 := mul_ne_zero hc hc
  refine ⟨⟨?_, ?_⟩, ⟨?_, ?_⟩, ⟨?_, ?_⟩⟩
  all_goals (try simp)
  all_goals (try field_simp)
  all_goals (try ring)
  all_goals exact Or.inl trivial

/-- `|csqrt z|² = |z|` -/
theorem normSq_csqrt (z : Cx ℝ) : Cx.normSq (csqrt z) = Real.sqrt (Cx.normSq z) := by
  unfold csqrt Cx.normSq
  simp only [HasSqrt.sqrt, Nat.cast_ofNat]
  set r := Real.sqrt (z.re * z.re + z.im * z.im) with hr
  have hr0 : 0 ≤ r := Real.sqrt_nonneg _
  have hrr : r * r = z.re * z.re + z.im * z.im := Real.mul_self_sqrt (by nlinarith [sq_nonneg z.re, sq_nonneg z.im])
  have habs : |z.re| ≤ r := by
    rw [← Real.sqrt_sq_eq_abs]; apply Real.sqrt_le_sqrt; nlinarith [sq_nonneg z.im]
  have h1 : 0 ≤ (r + z.re) / 2 := by have := neg_abs_le z.re; linarith
  have h2 : 0 ≤ (r - z.re) / 2 := by have := le_abs_self z.re; linarith
  have e1 := Real.mul_self_sqrt h1
  have e2 := Real.mul_self_sqrt h2
  by_cases hneg : z.im < ((0 : Nat) : ℝ)
  · simp only [hneg, if_true, neg_mul_neg]; rw [e1, e2]; ring
  · simp only [hneg, if_false]; rw [e1, e2]; ring

/-- modulus of the surface impedance: `|Z|² = 1 / sqrt (ε² + (σ/t)²)` -/
theorem C11_surfaceZ_modulus (eps sigma tfac : ℝ) (hpos : 0 < eps * eps + sigma / tfac * (sigma / tfac)) :
    Cx.normSq (surfaceZ eps sigma tfac) = 1 / Real.sqrt (eps * eps + sigma / tfac * (sigma / tfac)) := by
  unfold surfaceZ
  have hn : Cx.normSq (csqrt (⟨eps, -(sigma / tfac)⟩ : Cx ℝ)) = Real.sqrt (eps * eps + sigma / tfac * (sigma / tfac)) := by
    rw [normSq_csqrt]; simp [Cx.normSq]
  have hs : 0 < Real.sqrt (eps * eps + sigma / tfac * (sigma / tfac)) := Real.sqrt_pos.mpr hpos
  generalize csqrt (⟨eps, -(sigma / tfac)⟩ : Cx ℝ) = q at hn
  rw [← hn] at hs ⊢
  unfold Cx.normSq at hs ⊢
  have hne : q.re * q.re + q.im * q.im ≠ 0 := hs.ne'
  have key : ∀ x y s : ℝ, s = x * x + y * y → s ≠ 0 →
      ((1 * x + 0 * y) / s) * ((1 * x + 0 * y) / s) + ((0 * x - 1 * y) / s) * ((0 * x - 1 * y) / s) = 1 / s := by
    intro x y s hs hne; field_simp; rw [hs]; ring
  cx_unfold
  exact key _ _ _ rfl hne

/-- **σ → ∞**: the modulus of the surface impedance tends to 0, so the real-ground reflection
coefficients tend to those of ideal ground (`C11_limit_value`) -/
theorem C11_limit (eps tfac : ℝ) (ht : 0 < tfac) :
    Filter.Tendsto (fun sigma : ℝ => 1 / Real.sqrt (eps * eps + sigma / tfac * (sigma / tfac)))
      Filter.atTop (nhds 0) := by
  have hlin : Filter.Tendsto (fun sigma : ℝ => sigma / tfac) Filter.atTop Filter.atTop :=
    Filter.tendsto_id.atTop_div_const ht
  have hsq : Filter.Tendsto (fun sigma : ℝ => Real.sqrt (eps * eps + sigma / tfac * (sigma / tfac)))
      Filter.atTop Filter.atTop := by
    apply Filter.tendsto_atTop_mono' Filter.atTop _ hlin
    filter_upwards [Filter.eventually_ge_atTop 0] with s hs
    have : 0 ≤ s / tfac := div_nonneg hs ht.le
    calc s / tfac = Real.sqrt (s / tfac * (s / tfac)) := (Real.sqrt_mul_self this).symm
      _ ≤ Real.sqrt (eps * eps + s / tfac * (s / tfac)) := Real.sqrt_le_sqrt (by nlinarith [mul_self_nonneg eps])
  simp only [one_div]
  exact hsq.inv_tendsto_atTop

end Pmn.Props.C11
