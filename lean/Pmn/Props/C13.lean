/-
C13 — segmentation tiles each object; arcs, helices and transformations as documented.

Over ℝ (instances in `Pmn.Proofs.Inst`), for the model functions of `Pmn.Model.Geom`.
The taper clauses "positive lengths, growth ≤ 2.1, ≥ minimum, ≤ maximum" are not theorems
(see harness/c13.py: evaluated on every generated taper); count, chaining and end points are.
-/
import Pmn.Model.Geom
import Pmn.Model.Const
import Pmn.Proofs.Inst
import Mathlib.Tactic.Ring
import Mathlib.Tactic.FieldSimp
import Mathlib.Tactic.LinearCombination
import Mathlib.Analysis.SpecialFunctions.Sqrt

namespace Pmn.Props.C13
open Pmn.Geom

/-! ### chaining -/

/-- segments produced by `chain` join end to end, start at `s` and end at the last point -/
def Chained {K : Type} : V3 K → List (V3 K × V3 K) → Prop
  | _, [] => True
  | s, (a, b) :: r => a = s ∧ Chained b r

theorem chain_chained {K : Type} (s : V3 K) (es : List (V3 K)) : Chained s (chain s es) := by
  induction es generalizing s with
  | nil => trivial
  | cons e r ih => exact ⟨rfl, ih e⟩

theorem chain_length {K : Type} (s : V3 K) (es : List (V3 K)) : (chain s es).length = es.length := by
  induction es generalizing s with
  | nil => rfl
  | cons e r ih => simp [chain, ih]

/-- **equal segmentation**: exactly `n` segments, chained from `p1` -/
theorem C13_equal_count (p1 p2 : V3 ℝ) (n : Nat) :
    (equalSegments p1 p2 n).length = n ∧ Chained p1 (equalSegments p1 p2 n) := by
  refine ⟨?_, chain_chained _ _⟩
  simp [equalSegments, chain_length, equalEnds]

theorem norm_sq (v : V3 ℝ) : V3.norm v * V3.norm v = V3.normSq v := by
  unfold V3.norm
  exact Real.mul_self_sqrt (by unfold V3.normSq V3.dot; nlinarith [sq_nonneg v.x, sq_nonneg v.y, sq_nonneg v.z])

/-- end point `i` of equal segmentation is `p1 + (i+1)/n · (p2 − p1)` -/
theorem C13_equal_point (p1 p2 : V3 ℝ) (n i : Nat) (hi : i < n) (hne : V3.norm (p2 - p1) ≠ 0) :
    (equalEnds p1 p2 n)[i]? = some
      ⟨p1.x + ((i : ℝ) + 1) / n * (p2.x - p1.x), p1.y + ((i : ℝ) + 1) / n * (p2.y - p1.y),
       p1.z + ((i : ℝ) + 1) / n * (p2.z - p1.z)⟩ := by
  have hn : (n : ℝ) ≠ 0 := by
    have : 0 < n := by omega
    exact_mod_cast this.ne'
  simp only [equalEnds, List.getElem?_map, List.getElem?_range hi, Option.map_some]
  congr 1
  have hx : (p2 - p1 : V3 ℝ).x = p2.x - p1.x := rfl
  have hy : (p2 - p1 : V3 ℝ).y = p2.y - p1.y := rfl
  have hz : (p2 - p1 : V3 ℝ).z = p2.z - p1.z := rfl
  rw [hx, hy, hz]
  congr 1 <;> (push_cast; field_simp)

/-- … so the last segment ends exactly at `p2` -/
theorem C13_equal_last (p1 p2 : V3 ℝ) (n : Nat) (hn : 0 < n) (hne : V3.norm (p2 - p1) ≠ 0) :
    (equalEnds p1 p2 n)[n - 1]? = some p2 := by
  rw [C13_equal_point p1 p2 n (n - 1) (by omega) hne]
  have hnr : (n : ℝ) ≠ 0 := by exact_mod_cast hn.ne'
  have : ((n - 1 : Nat) : ℝ) + 1 = n := by
    have : n - 1 + 1 = n := by omega
    exact_mod_cast this
  rw [this]
  congr 1
  cases p2; cases p1
  simp only [V3.mk.injEq]
  refine ⟨?_, ?_, ?_⟩ <;> field_simp <;> ring

/-! ### arcs and helices -/

/-- every arc point lies in the X–Z plane on the circle of the given radius -/
theorem C13_arc_on_circle (n : Nat) (R a1 a2 : ℝ) : ∀ p ∈ arcEnds n R a1 a2,
    p.x ^ 2 + p.z ^ 2 = R ^ 2 ∧ p.y = 0 := by
  intro p hp
  simp only [arcEnds, List.mem_append, List.mem_map, List.mem_range, List.mem_singleton] at hp
  rcases hp with ⟨i, _, rfl⟩ | rfl
  · refine ⟨?_, by simp⟩
    simp only [HasTrig.cos, HasTrig.sin]
    have := Real.sin_sq_add_cos_sq (a1 / ((180 : Nat) : ℝ) * HasTrig.pi
      + (a2 / ((180 : Nat) : ℝ) * HasTrig.pi - a1 / ((180 : Nat) : ℝ) * HasTrig.pi) / (n : ℝ) * (i : ℝ))
    linear_combination R ^ 2 * this
  · refine ⟨?_, by simp⟩
    simp only [HasTrig.cos, HasTrig.sin]
    have := Real.sin_sq_add_cos_sq (a2 / ((180 : Nat) : ℝ) * HasTrig.pi)
    linear_combination R ^ 2 * this

/-- arc point `i` sits at the angle `ang1 + i·(ang2 − ang1)/n` (degrees → radians), uniform steps,
measured from +X towards +Z; there are `n + 1` points -/
theorem C13_arc_uniform (n : Nat) (R a1 a2 : ℝ) (i : Nat) (hi : i < n) :
    (arcEnds n R a1 a2).length = n + 1 ∧
    (arcEnds n R a1 a2)[i]? = some
      ⟨R * Real.cos (a1 / 180 * Real.pi + (a2 / 180 * Real.pi - a1 / 180 * Real.pi) / n * i), 0,
       R * Real.sin (a1 / 180 * Real.pi + (a2 / 180 * Real.pi - a1 / 180 * Real.pi) / n * i)⟩ := by
  constructor
  · simp [arcEnds]
  · simp only [arcEnds]
    rw [List.getElem?_append_left (by simp [hi])]
    simp [List.getElem?_map, List.getElem?_range hi, HasTrig.cos, HasTrig.sin, HasTrig.pi]

/-- every helix point lies on the ellipse with the (interpolated) semi-axes at its height -/
theorem C13_helix_ellipse (fmod : ℝ → ℝ → ℝ) (absK : ℝ → ℝ) (s : ℝ) (neg : Bool)
    (length turnlen xm ym z : ℝ) (hx : xm ≠ 0) (hy : ym ≠ 0) :
    let p := helixPoint fmod absK s neg length turnlen xm ym z
    (p.x / xm) ^ 2 + (p.y / ym) ^ 2 = 1 ∧ p.z = z := by
  intro p
  have key : ∀ a : ℝ, Real.sin a ^ 2 + Real.cos a ^ 2 = 1 := Real.sin_sq_add_cos_sq
  cases neg
  · refine ⟨?_, rfl⟩
    simp only [p, helixPoint, Bool.false_eq_true, if_false, HasTrig.cos, HasTrig.sin]
    rw [mul_div_cancel_left₀ _ hx, mul_div_cancel_left₀ _ hy]
    linear_combination key _
  · refine ⟨?_, rfl⟩
    simp only [p, helixPoint, if_true, HasTrig.cos, HasTrig.sin]
    rw [neg_mul, neg_div, mul_div_cancel_left₀ _ hx, mul_div_cancel_left₀ _ hy]
    linear_combination key _

/-! ### rotations -/

theorem mulVec_mul (a b : M3 ℝ) (v : V3 ℝ) : (M3.mul a b).mulVec v = a.mulVec (b.mulVec v) := by
  simp only [M3.mul, M3.mulVec, V3.dot, M3.col0, M3.col1, M3.col2]
  congr 1 <;> ring

/-- a matrix preserves dot products -/
def Orthogonal (m : M3 ℝ) : Prop := ∀ u v : V3 ℝ, V3.dot (m.mulVec u) (m.mulVec v) = V3.dot u v

theorem orth_one : Orthogonal (M3.one : M3 ℝ) := by
  intro u v; simp [M3.one, M3.mulVec, V3.dot]

theorem orth_mul (a b : M3 ℝ) (ha : Orthogonal a) (hb : Orthogonal b) : Orthogonal (M3.mul a b) := by
  intro u v; rw [mulVec_mul, mulVec_mul, ha, hb]

theorem orth_rotX (a : ℝ) : Orthogonal (rotX a) := by
  intro u v
  simp only [rotX, M3.mulVec, V3.dot, HasTrig.cos, HasTrig.sin]
  have := Real.sin_sq_add_cos_sq a
  push_cast
  linear_combination (u.y * v.y + u.z * v.z) * this

theorem orth_rotY (a : ℝ) : Orthogonal (rotY a) := by
  intro u v
  simp only [rotY, M3.mulVec, V3.dot, HasTrig.cos, HasTrig.sin]
  have := Real.sin_sq_add_cos_sq a
  push_cast
  linear_combination (u.x * v.x + u.z * v.z) * this

theorem orth_rotZ (a : ℝ) : Orthogonal (rotZ a) := by
  intro u v
  simp only [rotZ, M3.mulVec, V3.dot, HasTrig.cos, HasTrig.sin]
  have := Real.sin_sq_add_cos_sq a
  push_cast
  linear_combination (u.x * v.x + u.y * v.y) * this

/-- **rotations preserve every length and angle**: the rotation matrix of `--geo-rotate` (any three
angles, with the identity shortcut for zero angles) preserves all dot products -/
theorem C13_rot_orthogonal (isZero : ℝ → Bool) (rx ry rz : ℝ) :
    Orthogonal (rotMatrix isZero rx ry rz) := by
  unfold rotMatrix
  apply orth_mul
  · apply orth_mul
    · split
      · exact orth_one
      · exact orth_rotZ _
    · split
      · exact orth_one
      · exact orth_rotY _
  · split
    · exact orth_one
    · exact orth_rotX _

/-- in particular the length of every segment is unchanged -/
theorem C13_rot_length (isZero : ℝ → Bool) (rx ry rz : ℝ) (a b : V3 ℝ) :
    V3.normSq ((rotMatrix isZero rx ry rz).mulVec a - (rotMatrix isZero rx ry rz).mulVec b)
      = V3.normSq (a - b) := by
  have hlin : (rotMatrix isZero rx ry rz).mulVec a - (rotMatrix isZero rx ry rz).mulVec b
      = (rotMatrix isZero rx ry rz).mulVec (a - b) := by
    show V3.sub _ _ = _
    simp only [M3.mulVec, V3.dot, V3.sub]
    have hs : (a - b : V3 ℝ) = V3.sub a b := rfl
    rw [hs]; simp only [V3.sub]
    congr 1 <;> ring
  rw [hlin]
  exact C13_rot_orthogonal isZero rx ry rz (a - b) (a - b)

/-- scaling by `s` multiplies every length by `s` (squared lengths by `s²`), the radius included
(`Geobj._r * factor`), and is applied after all rotations and translations -/
theorem C13_scale (s : ℝ) (a b : V3 ℝ) :
    V3.normSq ((⟨s * a.x, s * a.y, s * a.z⟩ : V3 ℝ) - ⟨s * b.x, s * b.y, s * b.z⟩)
      = s ^ 2 * V3.normSq (a - b) := by
  show V3.normSq (V3.sub _ _) = s ^ 2 * V3.normSq (V3.sub a b)
  simp only [V3.normSq, V3.dot, V3.sub]; ring

/-! ### transformation order -/

theorem insertT_perm (t : Transform ℝ) (l : List (Transform ℝ)) :
    (insertT t l).length = l.length + 1 := by
  induction l with
  | nil => rfl
  | cons u r ih =>
    unfold insertT
    split
    · simp
    · simp [ih]

theorem insertT_sorted (t : Transform ℝ) (l : List (Transform ℝ))
    (h : l.Pairwise (fun a b => a.key ≤ b.key)) :
    (insertT t l).Pairwise (fun a b => a.key ≤ b.key) := by
  induction l with
  | nil => simp [insertT]
  | cons u r ih =>
    rw [List.pairwise_cons] at h
    unfold insertT
    split
    · rename_i hlt
      rw [List.pairwise_cons]
      refine ⟨?_, List.pairwise_cons.mpr h⟩
      intro y hy
      rcases List.mem_cons.mp hy with rfl | hy
      · exact le_of_lt hlt
      · exact le_trans (le_of_lt hlt) (h.1 y hy)
    · rename_i hge
      rw [List.pairwise_cons]
      refine ⟨?_, ih h.2⟩
      intro y hy
      have hmem : ∀ (l : List (Transform ℝ)) (y : Transform ℝ), y ∈ insertT t l → y = t ∨ y ∈ l := by
        intro l
        induction l with
        | nil => intro y hy; simp [insertT] at hy; exact Or.inl hy
        | cons a r ih2 =>
          intro y hy
          unfold insertT at hy
          split at hy
          · rcases List.mem_cons.mp hy with rfl | hy
            · exact Or.inl rfl
            · exact Or.inr hy
          · rcases List.mem_cons.mp hy with rfl | hy
            · exact Or.inr (List.mem_cons_self ..)
            · rcases ih2 y hy with h | h
              · exact Or.inl h
              · exact Or.inr (List.mem_cons_of_mem _ h)
      rcases hmem r y hy with rfl | hy
      · exact not_lt.mp hge
      · exact h.1 y hy

/-- **transformations act in sort-key order**: the application order is sorted by key and contains
every requested transformation (as many entries as options) -/
theorem C13_order (rots transl : List (Transform ℝ)) :
    (orderTransforms rots transl).Pairwise (fun a b => a.key ≤ b.key) ∧
    (orderTransforms rots transl).length = rots.length + transl.length := by
  unfold orderTransforms
  suffices H : ∀ (l acc : List (Transform ℝ)), acc.Pairwise (fun a b => a.key ≤ b.key) →
      (l.foldl (fun acc t => insertT t acc) acc).Pairwise (fun a b => a.key ≤ b.key) ∧
      (l.foldl (fun acc t => insertT t acc) acc).length = l.length + acc.length by
    have := H (rots ++ transl) [] List.Pairwise.nil
    simpa using this
  intro l
  induction l with
  | nil => intro acc h; exact ⟨h, by simp⟩
  | cons c r ih =>
    intro acc h
    simp only [List.foldl_cons]
    obtain ⟨hs, hl⟩ := ih (insertT c acc) (insertT_sorted c acc h)
    refine ⟨hs, ?_⟩
    rw [hl, insertT_perm]; simp; omega

/-! ### tapers: count, chaining, end points -/

/-! ### the whole pipeline: rigid motion in key order, then scaling -/

theorem applyT_dist (isZero : ℝ → Bool) (t : Transform ℝ) (tg : Nat) (a b : V3 ℝ) :
    V3.normSq (applyT isZero t tg a - applyT isZero t tg b) = V3.normSq (a - b) := by
  unfold applyT
  split
  · cases t.kind with
    | rotate => exact C13_rot_length isZero _ _ _ a b
    | translate =>
      show V3.normSq (V3.sub (V3.add a t.vec) (V3.add b t.vec)) = V3.normSq (V3.sub a b)
      simp only [V3.normSq, V3.dot, V3.sub, V3.add]; ring
  · rfl

theorem foldT_dist (isZero : ℝ → Bool) (ts : List (Transform ℝ)) (tg : Nat) (a b : V3 ℝ) :
    V3.normSq (ts.foldl (fun q t => applyT isZero t tg q) a - ts.foldl (fun q t => applyT isZero t tg q) b)
      = V3.normSq (a - b) := by
  induction ts generalizing a b with
  | nil => rfl
  | cons t r ih => simp only [List.foldl_cons]; rw [ih, applyT_dist]

/-- product of the factors acting on `tg`, as a structural recursion -/
def prodOf (scales : List (Scale ℝ)) (tg : Nat) : ℝ :=
  match scales with
  | [] => 1
  | s :: r => (if actsOn s.tag tg then s.factor else 1) * prodOf r tg

theorem scaleOf_eq (scales : List (Scale ℝ)) (tg : Nat) : scaleOf scales tg = prodOf scales tg := by
  unfold scaleOf
  suffices H : ∀ c : ℝ, scales.foldl (fun acc s => if actsOn s.tag tg then acc * s.factor else acc) c
      = c * prodOf scales tg by
    have := H ((1 : Nat) : ℝ); simpa using this
  induction scales with
  | nil => intro c; simp [prodOf]
  | cons s r ih =>
    intro c
    simp only [List.foldl_cons, prodOf]
    rw [ih]
    split <;> ring

theorem applyS_dist (s : Scale ℝ) (tg : Nat) (a b : V3 ℝ) :
    V3.normSq (applyS s tg a - applyS s tg b)
      = (if actsOn s.tag tg then s.factor else 1) ^ 2 * V3.normSq (a - b) := by
  unfold applyS
  split
  · show V3.normSq (V3.sub _ _) = _ * V3.normSq (V3.sub a b)
    simp only [V3.normSq, V3.dot, V3.sub]; ring
  · simp

theorem foldS_dist (scales : List (Scale ℝ)) (tg : Nat) (a b : V3 ℝ) :
    V3.normSq (scales.foldl (fun q s => applyS s tg q) a - scales.foldl (fun q s => applyS s tg q) b)
      = prodOf scales tg ^ 2 * V3.normSq (a - b) := by
  induction scales generalizing a b with
  | nil => simp [prodOf]
  | cons s r ih =>
    simp only [List.foldl_cons, prodOf]
    rw [ih, applyS_dist]; ring

/-- **the geometry pipeline keeps the shape of every object**: whatever rotations, translations and
scale options are given (with or without tags, any keys), the distance between two points of the
same object after the pipeline is the original distance times the product of the scale factors that
act on that object — the same factor `Geobj.scale` applies to the wire radius.  Rotations and
translations therefore act in unscaled coordinates: `pipeline` applies them first, in key order. -/
theorem C13_pipeline_shape (isZero : ℝ → Bool) (rots transl : List (Transform ℝ))
    (scales : List (Scale ℝ)) (tg : Nat) (a b : V3 ℝ) :
    V3.normSq (pipeline isZero rots transl scales tg a - pipeline isZero rots transl scales tg b)
      = scaleOf scales tg ^ 2 * V3.normSq (a - b) := by
  unfold pipeline
  rw [foldS_dist, foldT_dist, scaleOf_eq]

/-- a translation by `v` keyed before a global scale `s` moves a point by `s·v`, not by `v`:
scaling happens after translation, so translation parameters are in unscaled coordinates -/
theorem C13_translate_then_scale (isZero : ℝ → Bool) (k s : ℝ) (v p : V3 ℝ) (tg : Nat) :
    pipeline isZero [] [⟨k, .translate, v, none⟩] [⟨s, none⟩] tg p
      = ⟨(p.x + v.x) * s, (p.y + v.y) * s, (p.z + v.z) * s⟩ := by
  simp only [pipeline, orderTransforms, insertT, applyT, applyS, actsOn, List.append_nil, List.nil_append,
    List.foldl_cons, List.foldl_nil, if_true]
  rfl


theorem taper2Loop_spec (p1 p2 lv minc : V3 ℝ) (eps : ℝ) (n : Nat) :
    ∀ (fuel i state bound : Nat) (p inc1 : V3 ℝ), i + fuel = n → 0 < fuel →
      (taper2Loop p1 p2 lv minc eps n fuel i state bound p inc1).length = fuel ∧
      Chained p (taper2Loop p1 p2 lv minc eps n fuel i state bound p inc1) ∧
      ((taper2Loop p1 p2 lv minc eps n fuel i state bound p inc1).getLast?.map (·.2)) = some p2 := by
  intro fuel
  induction fuel with
  | zero => intro i state bound p inc1 _ h; omega
  | succ f ih =>
    intro i state bound p inc1 hi _
    unfold taper2Loop
    simp only
    by_cases hlast : i = n - 1
    · have hf : f = 0 := by omega
      subst hf
      simp [hlast, Chained]
    · rw [if_neg hlast]
      have hf : 0 < f := by omega
      -- whatever the state machine decides, the rest of the loop satisfies the induction hypothesis
      have key : ∀ (st bd : Nat) (q i1 : V3 ℝ),
          ((p, q) :: taper2Loop p1 p2 lv minc eps n f (i + 1) st bd q i1).length = f + 1 ∧
          Chained p ((p, q) :: taper2Loop p1 p2 lv minc eps n f (i + 1) st bd q i1) ∧
          (((p, q) :: taper2Loop p1 p2 lv minc eps n f (i + 1) st bd q i1).getLast?.map (·.2)) = some p2 := by
        intro st bd q i1
        obtain ⟨h1, h2, h3⟩ := ih (i + 1) st bd q i1 (by omega) hf
        refine ⟨by simp [h1], ⟨rfl, h2⟩, ?_⟩
        rw [List.getLast?_cons_of_ne_nil]
        · exact h3
        · intro hnil; rw [hnil] at h1; simp at h1; omega
      exact key _ _ _ _

/-- **two-sided taper tiles the wire**: whenever `taper2` accepts, it yields exactly `n` segments
that chain from `p1` and end at `p2` -/
theorem C13_taper2_tiles (p1 p2 : V3 ℝ) (n : Nat) (r minT : ℝ) (maxT : Option ℝ) (c25 : ℝ)
    (segs : List (V3 ℝ × V3 ℝ)) (h : taper2 p1 p2 n r minT maxT c25 = .ok segs) :
    segs.length = n ∧ Chained p1 segs ∧ segs.getLast?.map (·.2) = some p2 := by
  unfold taper2 at h
  simp only at h
  cases hpre : taperPre (V3.norm (p2 - p1)) n r minT maxT c25 with
  | error e => rw [hpre] at h; cases h
  | ok mt =>
    rw [hpre] at h
    have hn : 1 < n := by
      unfold taperPre at hpre
      simp only at hpre
      split at hpre
      · cases hpre
      · omega
    simp only at h
    cases hm : taper2Minl (V3.norm (p2 - p1)) n mt maxT with
    | error e => rw [hm] at h; cases h
    | ok v =>
      rw [hm] at h
      obtain ⟨minl, eps⟩ := v
      simp only at h
      injection h with h
      subst h
      exact taper2Loop_spec p1 p2 _ _ eps n n 0 0 0 p1 _ (by omega) (by omega)

theorem ok_shape {E α : Type} (c : Prop) [Decidable c] (rec : Except E (List α)) (x : α) (e1 : E)
    (segs : List α)
    (h : (if c then consOk x rec else Except.error e1) = Except.ok segs) :
    ∃ r, rec = .ok r ∧ segs = x :: r := by
  split at h
  · cases hr : rec with
    | ok r => rw [hr] at h; simp only [consOk] at h; injection h with h; exact ⟨r, rfl, h.symm⟩
    | error e => rw [hr] at h; simp only [consOk] at h; cases h
  · cases h

theorem taper1Loop_spec (p1 p2 lv minc : V3 ℝ) (eps minT mt : ℝ) (n : Nat) :
    ∀ (fuel i : Nat) (steady : Bool) (p inc1 : V3 ℝ) (segs : List (V3 ℝ × V3 ℝ)), i + fuel = n → 0 < fuel →
      taper1Loop p1 p2 lv minc eps minT mt n fuel i steady p inc1 = .ok segs →
      segs.length = fuel ∧ Chained p segs ∧ segs.getLast?.map (·.2) = some p2 := by
  intro fuel
  induction fuel with
  | zero => intro i steady p inc1 segs _ h; omega
  | succ f ih =>
    intro i steady p inc1 segs hi _ hok
    unfold taper1Loop at hok
    simp only at hok
    by_cases hlast : i = n - 1
    · have hf : f = 0 := by omega
      subst hf
      rw [if_pos hlast] at hok
      split at hok
      · injection hok with hok; subst hok; simp [Chained]
      · cases hok
    · rw [if_neg hlast] at hok
      have hf : 0 < f := by omega
      obtain ⟨r, hr, hsegs⟩ := ok_shape _ _ _ _ _ hok
      subst hsegs
      obtain ⟨h1, h2, h3⟩ := ih (i + 1) _ _ _ r (by omega) hf hr
      refine ⟨by simp [h1], ⟨rfl, h2⟩, ?_⟩
      rw [List.getLast?_cons_of_ne_nil]
      · exact h3
      · intro hnil; rw [hnil] at h1; simp at h1; omega

/-- **one-sided taper tiles the wire** (tapered end first): exactly `n` segments chaining from `p1`
to `p2` whenever the taper is accepted -/
theorem C13_taper1_tiles (p1 p2 : V3 ℝ) (n : Nat) (r minT : ℝ) (maxT : Option ℝ) (c25 : ℝ)
    (isZero : ℝ → Bool) (segs : List (V3 ℝ × V3 ℝ))
    (h : taper1 p1 p2 n r minT maxT false c25 isZero = .ok segs) :
    segs.length = n ∧ Chained p1 segs ∧ segs.getLast?.map (·.2) = some p2 := by
  unfold taper1 at h
  simp only [Bool.false_eq_true, if_false] at h
  unfold taper1Fwd at h
  simp only at h
  cases hpre : taperPre (V3.norm (p2 - p1)) n r minT maxT c25 with
  | error e => rw [hpre] at h; cases h
  | ok mt =>
    rw [hpre] at h
    have hn : 1 < n := by
      unfold taperPre at hpre
      simp only at hpre
      split at hpre
      · cases hpre
      · omega
    simp only at h
    cases hm : taper1Minl (V3.norm (p2 - p1)) n mt maxT with
    | error e => rw [hm] at h; cases h
    | ok v =>
      rw [hm] at h
      obtain ⟨minl, eps⟩ := v
      simp only at h
      exact taper1Loop_spec p1 p2 _ _ eps mt _ n n 0 false p1 _ segs (by omega) (by omega) h


theorem ok_shape' {E α : Type} (c : Prop) [Decidable c] (rec : Except E (List α)) (x : α) (e1 : E)
    (segs : List α)
    (h : (if c then consOk x rec else Except.error e1) = Except.ok segs) :
    c ∧ ∃ r, rec = .ok r ∧ segs = x :: r := by
  split at h
  · rename_i hc
    cases hr : rec with
    | ok r => rw [hr] at h; simp only [consOk] at h; injection h with h; exact ⟨hc, r, rfl, h.symm⟩
    | error e => rw [hr] at h; simp only [consOk] at h; cases h
  · cases h

/-- every segment the main loop of `taper1` lets through has a length within `[min_t − eps, mt + eps]`: the loop
checks each one before it is appended -/
theorem taper1Loop_bounds (p1 p2 lv minc : V3 ℝ) (eps minT mt : ℝ) (n : Nat) :
    ∀ (fuel i : Nat) (steady : Bool) (p inc1 : V3 ℝ) (segs : List (V3 ℝ × V3 ℝ)), i + fuel = n → 0 < fuel →
      taper1Loop p1 p2 lv minc eps minT mt n fuel i steady p inc1 = .ok segs →
      ∀ s ∈ segs, minT - eps ≤ V3.norm (s.2 - s.1) ∧ V3.norm (s.2 - s.1) ≤ mt + eps := by
  intro fuel
  induction fuel with
  | zero => intro i steady p inc1 segs _ h; omega
  | succ f ih =>
    intro i steady p inc1 segs hi _ hok
    unfold taper1Loop at hok
    simp only at hok
    by_cases hlast : i = n - 1
    · rw [if_pos hlast] at hok
      split at hok
      · rename_i hc
        injection hok with hok; subst hok
        intro s hs
        simp only [List.mem_singleton] at hs
        subst hs
        exact hc
      · cases hok
    · rw [if_neg hlast] at hok
      have hf : 0 < f := by omega
      obtain ⟨hc, r, hr, hsegs⟩ := ok_shape' _ _ _ _ _ hok
      subst hsegs
      intro s hs
      rcases List.mem_cons.mp hs with rfl | hs
      · exact hc
      · exact ih (i + 1) _ _ _ r (by omega) hf hr s hs


theorem taper1Minl_eps (l : ℝ) (n : Nat) (minT : ℝ) (maxT : Option ℝ) (minl eps : ℝ)
    (hm : taper1Minl l n minT maxT = .ok (minl, eps)) :
    eps = (if l / (((2 ^ n - 1 : Nat) : ℝ)) < minT then minT else l / (((2 ^ n - 1 : Nat) : ℝ))) / ((10 : Nat) : ℝ) := by
  unfold taper1Minl at hm
  simp only at hm
  cases maxT with
  | none =>
    simp only at hm
    injection hm with hm
    exact (Prod.mk.inj hm).2.symm
  | some mx =>
    simp only at hm
    by_cases hc : mx / ((2 ^ (n - 1) : Nat) : ℝ) < (if l / (((2 ^ n - 1 : Nat) : ℝ)) < minT then minT else l / (((2 ^ n - 1 : Nat) : ℝ)))
    · rw [if_pos hc] at hm
      cases hs : taper1Search l mx ((if l / (((2 ^ n - 1 : Nat) : ℝ)) < minT then minT else l / (((2 ^ n - 1 : Nat) : ℝ))) / ((10 : Nat) : ℝ)) n (n - 1) with
      | error e => rw [hs] at hm; cases hm
      | ok nminl =>
        rw [hs] at hm
        simp only at hm
        by_cases hg : ¬ mx / ((2 ^ (n - 1) : Nat) : ℝ) < nminl +
            (if l / (((2 ^ n - 1 : Nat) : ℝ)) < minT then minT else l / (((2 ^ n - 1 : Nat) : ℝ))) / ((10 : Nat) : ℝ)
        · rw [if_pos hg] at hm; cases hm
        · rw [if_neg hg] at hm
          injection hm with hm
          exact (Prod.mk.inj hm).2.symm
    · rw [if_neg hc] at hm
      injection hm with hm
      exact (Prod.mk.inj hm).2.symm

/-- `mt = max_t or l`: the upper limit the loop checks against -/
def taperHi (isZero : ℝ → Bool) (maxT : Option ℝ) (l : ℝ) : ℝ :=
  match maxT with
  | some mx => if isZero mx then l else mx
  | none => l

/-- **taper limits** (tapered end first): every segment of an accepted one-sided taper is at least
`max (2.5 r, min_t) − eps` and at most `(max_t or the wire length) + eps` long, where `eps` is a tenth of the first
segment aimed at (`max (l / (2ⁿ − 1), max (2.5 r, min_t))`) -/
theorem C13_taper1_bounds (p1 p2 : V3 ℝ) (n : Nat) (r minT : ℝ) (maxT : Option ℝ) (c25 : ℝ)
    (isZero : ℝ → Bool) (segs : List (V3 ℝ × V3 ℝ))
    (h : taper1 p1 p2 n r minT maxT false c25 isZero = .ok segs) :
    let l := V3.norm (p2 - p1)
    let lo := maxK (c25 * r) minT
    let hi := taperHi isZero maxT l
    ∃ eps : ℝ, (eps = l / (((2 ^ n - 1 : Nat) : ℝ)) / ((10 : Nat) : ℝ) ∨ eps = lo / ((10 : Nat) : ℝ)) ∧
      ∀ s ∈ segs, lo - eps ≤ V3.norm (s.2 - s.1) ∧ V3.norm (s.2 - s.1) ≤ hi + eps := by
  intro l lo hi
  unfold taper1 at h
  simp only [Bool.false_eq_true, if_false] at h
  unfold taper1Fwd at h
  simp only at h
  cases hpre : taperPre (V3.norm (p2 - p1)) n r minT maxT c25 with
  | error e => rw [hpre] at h; cases h
  | ok mt =>
    rw [hpre] at h
    have hn : 1 < n := by
      unfold taperPre at hpre
      simp only at hpre
      split at hpre
      · cases hpre
      · omega
    have hmt : mt = lo := by
      unfold taperPre at hpre
      simp only at hpre
      split at hpre
      · cases hpre
      · split at hpre
        · cases hpre
        · cases maxT with
          | none => simp only at hpre; injection hpre with hpre; exact hpre.symm
          | some mx =>
            simp only at hpre
            split at hpre
            · cases hpre
            · split at hpre
              · cases hpre
              · injection hpre with hpre; exact hpre.symm
    simp only at h
    cases hm : taper1Minl (V3.norm (p2 - p1)) n mt maxT with
    | error e => rw [hm] at h; cases h
    | ok v =>
      rw [hm] at h
      obtain ⟨minl, eps⟩ := v
      simp only at h
      have heps : eps = l / (((2 ^ n - 1 : Nat) : ℝ)) / ((10 : Nat) : ℝ) ∨ eps = lo / ((10 : Nat) : ℝ) := by
        have := taper1Minl_eps _ n mt maxT minl eps hm
        rw [this]
        split
        · right; rw [hmt]
        · left; rfl
      refine ⟨eps, heps, ?_⟩
      have := taper1Loop_bounds p1 p2 _ _ eps mt _ n n 0 false p1 _ segs (by omega) (by omega) h
      rw [hmt] at this
      intro s hs
      have := this s hs
      cases maxT <;> exact this


/-- the same limits when the *second* end is tapered (`end = 1`): the segments are those of the taper run from `p2` to
`p1`, reversed -/
theorem C13_taper1_bounds_end2 (p1 p2 : V3 ℝ) (n : Nat) (r minT : ℝ) (maxT : Option ℝ) (c25 : ℝ)
    (isZero : ℝ → Bool) (segs : List (V3 ℝ × V3 ℝ))
    (h : taper1 p1 p2 n r minT maxT true c25 isZero = .ok segs) :
    let l := V3.norm (p1 - p2)
    let lo := maxK (c25 * r) minT
    let hi := taperHi isZero maxT l
    ∃ eps : ℝ, (eps = l / (((2 ^ n - 1 : Nat) : ℝ)) / ((10 : Nat) : ℝ) ∨ eps = lo / ((10 : Nat) : ℝ)) ∧
      ∀ s ∈ segs, lo - eps ≤ V3.norm (s.1 - s.2) ∧ V3.norm (s.1 - s.2) ≤ hi + eps := by
  intro l lo hi
  unfold taper1 at h
  simp only [if_true] at h
  cases h0 : taper1Fwd p2 p1 n r minT maxT c25 isZero with
  | error e => rw [h0] at h; cases h
  | ok segs0 =>
    rw [h0] at h
    simp only at h
    injection h with h
    have hf : taper1 p2 p1 n r minT maxT false c25 isZero = .ok segs0 := by
      unfold taper1
      simp only [Bool.false_eq_true, if_false]
      exact h0
    obtain ⟨eps, he, hb⟩ := C13_taper1_bounds p2 p1 n r minT maxT c25 isZero segs0 hf
    refine ⟨eps, he, ?_⟩
    intro s hs
    rw [← h] at hs
    obtain ⟨t, ht, rfl⟩ := List.mem_map.mp hs
    exact hb t (List.mem_reverse.mp ht)

/-- **mirroring**: tapering the other end is tapering from `p2` to `p1`, reversed, with the end
points of every segment exchanged -/
theorem C13_taper_mirror (p1 p2 : V3 ℝ) (n : Nat) (r minT : ℝ) (maxT : Option ℝ) (c25 : ℝ)
    (isZero : ℝ → Bool) (segs : List (V3 ℝ × V3 ℝ))
    (h : taper1 p2 p1 n r minT maxT false c25 isZero = .ok segs) :
    taper1 p1 p2 n r minT maxT true c25 isZero = .ok (segs.reverse.map fun s => (s.2, s.1)) := by
  unfold taper1 at h ⊢
  simp only [Bool.false_eq_true, if_false] at h
  simp only [if_true, h]

/-- the taper radius factor of the current source: segments are kept at or above 2.5 radii -/
theorem C13_taper_radius_factor : Pmn.Const.taperRad1 = ⟨5, 2⟩ := by decide

end Pmn.Props.C13
