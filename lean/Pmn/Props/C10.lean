/-
C10 — the far field is the radiation integral of the currents; dBi and V/m agree.

Over ℝ for the model of `Pmn.Model.Far` (free space, ideal and real ground where stated).
The clause "within 2 % of the exact integral over the straight half-segments" is proved in part
(`C10_exact_integral_partial`: per straight pulse with equal halves the exact integral of its constant
current deviates from the point moment by less than (k h)²/6 of that moment, 0.52 % for segments up to λ/18);
relating the sum over pulses to the *pattern maximum* has no theorem and is evaluated by the harness
(exact sinc integral vs the model's point moments) on generated antennas.
-/
import Pmn.Proofs.FarLemmas
import Pmn.Model.Const
import Mathlib.Analysis.SpecialFunctions.Sqrt
import Mathlib.Analysis.SpecialFunctions.Trigonometric.Bounds
import Mathlib.Analysis.SpecialFunctions.Integrals.Basic
import Mathlib.Analysis.Real.Pi.Bounds

namespace Pmn.Props.C10
open Pmn.Far Pmn.FarLemmas

/-! ### linearity in the currents -/

theorem moment_lin (w : ℝ) (r pt : V3 ℝ) (kz hh : ℝ) (h : Half ℝ) (a b i j : Cx ℝ) :
    moment w r pt kz hh h (a * i + b * j)
      = a * moment w r pt kz hh h i + b * moment w r pt kz hh h j := by
  unfold moment cis
  cx_unfold
  congr 1 <;> ring

theorem halfIdeal_lin (w t p k : ℝ) (isK1 : Bool) (pt : V3 ℝ) (h : Half ℝ) (a b i j : Cx ℝ) :
    halfIdeal w t p k isK1 pt h (a * i + b * j)
      = CV3.add (CV3.smul a (halfIdeal w t p k isK1 pt h i)) (CV3.smul b (halfIdeal w t p k isK1 pt h j)) := by
  unfold halfIdeal
  split
  · cx_unfold; simp
  · rw [moment_lin]
    cx_unfold
    simp only [CV3.mk.injEq, Cx.mk.injEq]
    refine ⟨⟨?_, ?_⟩, ⟨?_, ?_⟩, ⟨?_, ?_⟩⟩ <;> ring

theorem halfReal_lin (w t p : ℝ) (c : Bool) (nr : Nat) (rr : ℝ) (media : List (MediumF ℝ)) (pt : V3 ℝ)
    (h : Half ℝ) (a b i j : Cx ℝ) :
    halfReal w t p c nr rr media pt h (a * i + b * j)
      = CV3.add (CV3.smul a (halfReal w t p c nr rr media pt h i))
                (CV3.smul b (halfReal w t p c nr rr media pt h j)) := by
  unfold halfReal
  split
  · cx_unfold; simp
  · simp only [moment_lin]
    cx_unfold
    simp only [CV3.mk.injEq, Cx.mk.injEq]
    refine ⟨⟨?_, ?_⟩, ⟨?_, ?_⟩, ⟨?_, ?_⟩⟩ <;> ring

theorem cv3_add_lin (a b : Cx ℝ) (x1 y1 x2 y2 : CV3 ℝ) :
    CV3.add (CV3.add (CV3.smul a x1) (CV3.smul b y1)) (CV3.add (CV3.smul a x2) (CV3.smul b y2))
      = CV3.add (CV3.smul a (CV3.add x1 x2)) (CV3.smul b (CV3.add y1 y2)) := by
  cx_unfold
  simp only [CV3.mk.injEq, Cx.mk.injEq]
  refine ⟨⟨?_, ?_⟩, ⟨?_, ?_⟩, ⟨?_, ?_⟩⟩ <;> ring

theorem pulseG_lin (env : Env ℝ) (w t p : ℝ) (pu : PulseF ℝ) (a b i j : Cx ℝ) :
    pulseG env w t p pu (a * i + b * j)
      = CV3.add (CV3.smul a (pulseG env w t p pu i)) (CV3.smul b (pulseG env w t p pu j)) := by
  cases env with
  | free => simp only [pulseG, halfIdeal_lin, cv3_add_lin]
  | ideal => simp only [pulseG, halfIdeal_lin, cv3_add_lin]
  | real c nr rr media => simp only [pulseG, halfIdeal_lin, halfReal_lin, cv3_add_lin]

/-- **the far field is linear in the pulse currents** (free space, ideal and real ground): the
vector amplitude of `a·I + b·J` is `a·G(I) + b·G(J)` -/
theorem C10_linear (env : Env ℝ) (w t p : ℝ) (ps : List (PulseF ℝ)) (I J : List (Cx ℝ)) (a b : Cx ℝ)
    (hI : I.length = ps.length) (hJ : J.length = ps.length) :
    gvec env w t p ps (List.zipWith (fun i j => a * i + b * j) I J)
      = CV3.add (CV3.smul a (gvec env w t p ps I)) (CV3.smul b (gvec env w t p ps J)) := by
  induction ps generalizing I J with
  | nil =>
    simp only [gvec]
    cx_unfold; simp
  | cons pu r ih =>
    match I, J, hI, hJ with
    | i :: I', j :: J', hI, hJ =>
      simp only [List.zipWith_cons_cons, gvec]
      rw [pulseG_lin, ih I' J' (by simpa using hI) (by simpa using hJ), cv3_add_lin]

/-! ### dBi and V/m describe the same field -/

/-- total = vertical + horizontal (power sum) -/
theorem C10_total (k9c power : ℝ) (a b : Cx ℝ) :
    (linGains k9c power a b).2.2 = (linGains k9c power a b).1 + (linGains k9c power a b).2.1 := rfl

/-- **gain = |E|² r² / (P / k9c)**: the V/m value `E = h12 / r · sqrt (P_req / P)` and the linear
gain `k9c/P · |h12|²` satisfy `gain = k9c · |E|² r² / P_req` -/
theorem C10_units (k9c power preq rd : ℝ) (a b : Cx ℝ) (hP : 0 < power) (hq : 0 < preq) (hr : rd ≠ 0) :
    (linGains k9c power a b).1
      = k9c * (Cx.normSq (eField a rd (preq / power)) * rd ^ 2) / preq := by
  have hs : Real.sqrt (preq / power) * Real.sqrt (preq / power) = preq / power :=
    Real.mul_self_sqrt (div_nonneg hq.le hP.le)
  unfold linGains eField
  have hrd : (rd == ((0 : Nat) : ℝ)) = false := by simpa using hr
  simp only [hrd, Bool.false_eq_true, if_false, Cx.scale, Cx.normSq, HasSqrt.sqrt]
  have h2 : Real.sqrt (preq / power) ^ 2 = preq / power := by rw [sq]; exact hs
  field_simp
  have : Real.sqrt (preq / power) ^ 2 * power = preq := by rw [h2]; field_simp
  linear_combination (-(k9c * (a.re ^ 2 + a.im ^ 2))) * this

/-- `1 / k9c = 59.96` to the printed precision: the constant of the current source -/
theorem C10_k9 : |(1 : ℚ) / ((Pmn.Const.k9Factor.num : ℚ) / Pmn.Const.k9Factor.den) - 5996 / 100| < 1 / 100 := by
  simp only [Pmn.Const.k9Factor]; norm_num

/-- V/m values scale with the square root of the requested power and inversely with distance -/
theorem C10_scaling (a : Cx ℝ) (rd ratio c : ℝ) (hr : rd ≠ 0) (hc : 0 < c) (hq : 0 ≤ ratio) :
    eField a rd (c * ratio) = Cx.scale (Real.sqrt c) (eField a rd ratio) ∧
    eField a (c * rd) ratio = Cx.scale (1 / c) (eField a rd ratio) := by
  have hrd : (rd == ((0 : Nat) : ℝ)) = false := by simpa using hr
  have hcrd : (c * rd == ((0 : Nat) : ℝ)) = false := by simpa using mul_ne_zero hc.ne' hr
  constructor
  · unfold eField
    simp only [hrd, Bool.false_eq_true, if_false, Cx.scale, HasSqrt.sqrt, Real.sqrt_mul hc.le]
    congr 1 <;> ring
  · unfold eField
    simp only [hrd, hcrd, Bool.false_eq_true, if_false, Cx.scale, HasSqrt.sqrt]
    congr 1 <;> field_simp

/-! ### periodicity and the zenith -/

/-- degrees: adding 360° adds 2π -/
theorem deg_period (d : ℝ) : (d + 360) / 180 * Real.pi = d / 180 * Real.pi + 2 * Real.pi := by ring

/-- **directions 360° apart give identical rows**: the amplitude is 2π-periodic in both angles -/
theorem C10_period (env : Env ℝ) (w t p : ℝ) (ps : List (PulseF ℝ)) (I : List (Cx ℝ)) :
    gvec env w (t + 2 * Real.pi) p ps I = gvec env w t p ps I ∧
    gvec env w t (p + 2 * Real.pi) ps I = gvec env w t p ps I ∧
    thetahat (t + 2 * Real.pi) p = thetahat t p ∧ thetahat t (p + 2 * Real.pi) = thetahat t p ∧
    phihat (p + 2 * Real.pi) = phihat p := by
  have hs : ∀ x : ℝ, HasTrig.sin (x + 2 * Real.pi) = HasTrig.sin x := Real.sin_add_two_pi
  have hc : ∀ x : ℝ, HasTrig.cos (x + 2 * Real.pi) = HasTrig.cos x := Real.cos_add_two_pi
  refine ⟨?_, ?_, ?_, ?_, ?_⟩
  · induction ps generalizing I with
    | nil => cases I <;> rfl
    | cons pu r ih =>
      cases I with
      | nil => rfl
      | cons i I' =>
        simp only [gvec, ih]
        congr 1
        cases env <;> simp only [pulseG, halfIdeal, halfReal, rhat, hs, hc]
  · induction ps generalizing I with
    | nil => cases I <;> rfl
    | cons pu r ih =>
      cases I with
      | nil => rfl
      | cons i I' =>
        simp only [gvec, ih]
        congr 1
        cases env <;> simp only [pulseG, halfIdeal, halfReal, rhat, hs, hc]
  · simp only [thetahat, hs, hc]
  · simp only [thetahat, hs, hc]
  · simp only [phihat, hs, hc]

/-- at the zenith the radial unit vector does not depend on the azimuth … -/
theorem rhat_zenith (p : ℝ) : rhat (0 : ℝ) p = ⟨0, 0, 1⟩ := by
  simp [rhat, HasTrig.sin, HasTrig.cos]

/-- … and for *any* amplitude vector the total of the two polarisations is `|G_x|² + |G_y|²`,
the same for every azimuth: **the total gain at the zenith is the same for every azimuth** -/
theorem C10_zenith (g : CV3 ℝ) (g0 p : ℝ) :
    Cx.normSq (h12 g0 g 0 p) + Cx.normSq (x34 g0 g p)
      = g0 ^ 2 * (Cx.normSq g.x + Cx.normSq g.y) := by
  unfold h12 x34 thetahat phihat
  cx_unfold
  simp only [Cx.normSq, HasTrig.sin, HasTrig.cos, Real.sin_zero, Real.cos_zero]
  have := Real.sin_sq_add_cos_sq p
  ring_nf
  linear_combination (g0 ^ 2 * (g.x.re ^ 2 + g.x.im ^ 2 + g.y.re ^ 2 + g.y.im ^ 2)) * this

/-- the amplitude vector at the zenith does not depend on the azimuth (free space, ideal ground) -/
theorem C10_zenith_amplitude (w p q : ℝ) (ps : List (PulseF ℝ)) (I : List (Cx ℝ)) :
    gvec .free w 0 p ps I = gvec .free w 0 q ps I ∧ gvec .ideal w 0 p ps I = gvec .ideal w 0 q ps I := by
  constructor <;>
  · induction ps generalizing I with
    | nil => cases I <;> rfl
    | cons pu r ih =>
      cases I with
      | nil => rfl
      | cons i I' =>
        simp only [gvec, ih]
        congr 1
        simp only [pulseG, halfIdeal, rhat_zenith]

/-! ### the pattern does not depend on the excitation level (used by C07) -/

/-- multiplying every pulse current by `c` multiplies the vector amplitude by `c` -/
theorem gvec_smul (env : Env ℝ) (w t p : ℝ) (ps : List (PulseF ℝ)) (I : List (Cx ℝ)) (c : Cx ℝ)
    (hI : I.length = ps.length) :
    gvec env w t p ps (I.map (fun i => c * i)) = CV3.smul c (gvec env w t p ps I) := by
  have h := C10_linear env w t p ps I I c ⟨0, 0⟩ hI hI
  have hz : List.zipWith (fun i j => c * i + (⟨0, 0⟩ : Cx ℝ) * j) I I = I.map (fun i => c * i) := by
    clear h hI
    induction I with
    | nil => rfl
    | cons a r ih =>
      simp only [List.zipWith_cons_cons, List.map_cons, ih]
      congr 1
      cx_unfold
      simp
  rw [hz] at h
  rw [h]
  cx_unfold
  simp

theorem h12_smul (g0 t p : ℝ) (g : CV3 ℝ) (c : Cx ℝ) : h12 g0 (CV3.smul c g) t p = c * h12 g0 g t p := by
  unfold h12
  cx_unfold
  simp only [Cx.mk.injEq]
  constructor <;> ring

theorem x34_smul (g0 p : ℝ) (g : CV3 ℝ) (c : Cx ℝ) : x34 g0 (CV3.smul c g) p = c * x34 g0 g p := by
  unfold x34
  cx_unfold
  simp only [Cx.mk.injEq]
  constructor <;> ring

theorem lin_scale (k9c power : ℝ) (c a : Cx ℝ) (hc : Cx.normSq c ≠ 0) (hP : power ≠ 0) :
    k9c / (Cx.normSq c * power) * ((c * a).re * (c * a).re + (c * a).im * (c * a).im)
      = k9c / power * (a.re * a.re + a.im * a.im) := by
  have hm : (c * a).re * (c * a).re + (c * a).im * (c * a).im = Cx.normSq c * (a.re * a.re + a.im * a.im) := by
    cx_unfold
    simp only [Cx.normSq]
    ring
  rw [hm]
  field_simp

/-- **scaling all currents by `c` (hence the power by `|c|²`) leaves the three linear gains, and with them the dBi
pattern, unchanged** -/
theorem C10_pattern_scale (k9c g0 power t p : ℝ) (g : CV3 ℝ) (c : Cx ℝ) (hc : Cx.normSq c ≠ 0) (hP : power ≠ 0) :
    linGains k9c (Cx.normSq c * power) (h12 g0 (CV3.smul c g) t p) (x34 g0 (CV3.smul c g) p)
      = linGains k9c power (h12 g0 g t p) (x34 g0 g p) := by
  rw [h12_smul, x34_smul]
  unfold linGains
  simp only [lin_scale k9c power c _ hc hP]

/-! ### the exact integral over straight half segments (partial) -/

/-- the phase factor of a constant current along a straight pulse, integrated over its two halves of length `h`
(`u` runs along the wire, `k = w·c` with `c` the cosine between wire and direction): the real part is
`2 sin (k h)/k`, the imaginary part vanishes by symmetry -/
theorem exact_pair_integral (k h : ℝ) (hk : k ≠ 0) :
    (∫ u in (-h)..h, Real.cos (k * u)) = 2 * Real.sin (k * h) / k ∧ (∫ u in (-h)..h, Real.sin (k * u)) = 0 := by
  constructor
  · rw [intervalIntegral.integral_comp_mul_left (fun x => Real.cos x) hk]
    simp only [integral_cos, mul_neg, Real.sin_neg, smul_eq_mul]
    field_simp
    ring
  · rw [intervalIntegral.integral_comp_mul_left (fun x => Real.sin x) hk]
    simp [integral_sin]

theorem sinc_bound (x : ℝ) (h0 : 0 < x) : |Real.sin x / x - 1| < x ^ 2 / 6 := by
  have hs := Real.sin_lt h0
  have hg := Real.sin_gt_sub_cube h0
  rw [abs_sub_comm, abs_of_pos]
  · rw [sub_lt_iff_lt_add, ← sub_lt_iff_lt_add', lt_div_iff₀ h0]
    nlinarith
  · rw [sub_pos, div_lt_one h0]; exact hs

/-- **exact integral vs point moment, per pulse** (partial: the property relates the *sum* to the pattern maximum): for
a straight pulse with two equal halves of length `h`, wave number `w` and any direction (cosine `c ≠ 0`, `|c| ≤ 1`;
for `c = 0` both are `2h`), the exact integral `2 sin (w c h)/(w c)` of the phase factor deviates from the point
moment `2h` by at most `(w h)²/6` of that moment -/
theorem C10_exact_integral_partial (w c h : ℝ) (hw : 0 < w) (hh : 0 < h) (hc : |c| ≤ 1) (hc0 : c ≠ 0) :
    |2 * Real.sin (w * c * h) / (w * c) - 2 * h| ≤ 2 * h * ((w * h) ^ 2 / 6) := by
  have hx : 0 < w * |c| * h := by positivity
  have hxe : Real.sin (w * c * h) / (w * c) = h * (Real.sin (w * |c| * h) / (w * |c| * h)) := by
    rcases lt_or_gt_of_ne hc0 with hneg | hpos
    · rw [abs_of_neg hneg]
      have : w * c * h = -(w * -c * h) := by ring
      rw [this, Real.sin_neg]
      field_simp
    · rw [abs_of_pos hpos]; field_simp
  have : 2 * Real.sin (w * c * h) / (w * c) - 2 * h = 2 * h * (Real.sin (w * |c| * h) / (w * |c| * h) - 1) := by
    rw [mul_div_assoc, hxe]; ring
  rw [this, abs_mul, abs_of_pos (by positivity : (0 : ℝ) < 2 * h)]
  apply mul_le_mul_of_nonneg_left _ (by positivity)
  refine (sinc_bound _ hx).le.trans ?_
  have : w * |c| * h ≤ w * h := by
    have := mul_le_mul_of_nonneg_left hc (by positivity : (0 : ℝ) ≤ w * h)
    nlinarith
  have h2 : (w * |c| * h) ^ 2 ≤ (w * h) ^ 2 := pow_le_pow_left₀ hx.le this 2
  linarith

/-- for segments up to 1/18 wavelength (`h` = half a segment) that is less than 0.52 % -/
theorem C10_exact_integral_lambda18 (lam d : ℝ) (hl : 0 < lam) (hd : 0 < d) (h18 : d ≤ lam / 18) :
    (2 * Real.pi / lam * (d / 2)) ^ 2 / 6 < 0.0052 := by
  have hp := Real.pi_lt_d2
  have hp0 := Real.pi_pos
  have h1 : 2 * Real.pi / lam * (d / 2) ≤ Real.pi / 18 := by
    rw [div_mul_eq_mul_div, div_le_div_iff₀ hl (by norm_num)]
    nlinarith
  have h0 : 0 ≤ 2 * Real.pi / lam * (d / 2) := by positivity
  have h2 : (2 * Real.pi / lam * (d / 2)) ^ 2 ≤ (Real.pi / 18) ^ 2 := pow_le_pow_left₀ h0 h1 2
  have h3 : (Real.pi / 18) ^ 2 < (3.15 / 18) ^ 2 := by
    apply pow_lt_pow_left₀ _ (by positivity) (by norm_num)
    exact div_lt_div_of_pos_right hp (by norm_num)
  norm_num at h3 ⊢
  linarith

end Pmn.Props.C10
