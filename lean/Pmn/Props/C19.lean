/-
C19 — the report text carries the computed values.

`fmtVal x useE` is the decimal number that the text `formatFloat x useE` denotes (the driver
re-reads its own text on every correspondence case and compares with `fmtVal`; the text is
compared string-for-string with `util.format_float`).  The theorems bound the distance of that
number from the exact value of the double, for *every* finite double `x = ± num/den`, by
magnitude class — the classes of the property statement:

* `C19_ge1`          |f| ≥ 1                     relative error ≤ 5e-7  (seven digits)
* `C19_frac`         0.1 ≤ |f| < 1               absolute ≤ 5e-7, i.e. relative ≤ 5e-6 (six digits)
* `C19_sci`          0 < |f| < 0.1, use_e        relative error ≤ 5e-7  (seven digits)
* `C19_fixed_small`  0 < |f| < 0.1, fixed point  absolute error < 1e-6
* `C19_zero`         ±0 prints as the number 0
-/
import Pmn.Proofs.FmtLemmas

namespace Pmn.Props.C19
open Pmn.Fmt Pmn.FmtLemmas

/-- sign factor -/
def sgn (b : Bool) : ℚ := if b then -1 else 1

/-- exact value of the double -/
def fval (x : Frac) : ℚ := sgn x.neg * ((x.num : ℚ) / x.den)

/-- value denoted by a printed decimal -/
def dval (v : DecVal) : ℚ := sgn v.neg * mag v

private theorem sign_abs (b : Bool) (a c : ℚ) : |sgn b * a - sgn b * c| = |a - c| := by
  cases b
  · simp [sgn]
  · simp only [sgn, if_true, neg_one_mul]; rw [← abs_neg]; ring_nf

private theorem abs_fval (x : Frac) : |fval x| = (x.num : ℚ) / x.den := by
  unfold fval sgn
  cases x.neg <;> simp [abs_of_nonneg (by positivity : (0 : ℚ) ≤ (x.num : ℚ) / x.den)]

/-- a decimal whose sign flag is dropped exactly when its digits are all zero -/
private theorem dval_of_neg (v : DecVal) (b : Bool) (h : v.neg = (b && v.n != 0)) :
    dval v = sgn b * mag v := by
  unfold dval
  by_cases h0 : v.n = 0
  · simp [mag, h0]
  · rw [h]
    have : (v.n != 0) = true := by simpa using h0
    rw [this, Bool.and_true]

private theorem cutVal_neg (b : Bool) (n p : Nat) :
    (cutVal b n p).neg = (b && (cutVal b n p).n != 0) := by
  unfold cutVal; simp only; split <;> rfl

/-- the constants of the current source are `6` digits and the threshold `1/10` -/
theorem C19_constants (x : Frac) (ue : Bool) : fmtVal x ue = fmtValP 6 1 10 x ue := rfl

/-- zero (of either sign) is printed as the number 0 -/
theorem C19_zero (x : Frac) (ue : Bool) (h : x.num = 0) : dval (fmtVal x ue) = 0 := by
  simp [fmtVal, fmtValP, h, dval, mag]

/-- six printed decimals for 0.1 ≤ |f| < 1: absolute error ≤ 5e-7, hence ≤ 5e-6 relative -/
theorem C19_frac (x : Frac) (ue : Bool) (hd : 0 < x.den) (h1 : x.num < x.den)
    (h2 : x.den ≤ 10 * x.num) :
    |dval (fmtVal x ue) - fval x| ≤ 5 / 10 ^ 7 ∧ 5 / 10 ^ 7 ≤ 5 / 10 ^ 6 * |fval x| := by
  have hn0 : x.num ≠ 0 := by omega
  have hk : ilogLt1 x.den x.num x.den = 0 := by
    obtain ⟨d, hd'⟩ : ∃ d, x.den = d + 1 := ⟨x.den - 1, by omega⟩
    rw [hd']; unfold ilogLt1; simp; omega
  have hprec : precOf 6 x.num x.den = 6 := by
    unfold precOf; rw [if_neg (by omega), hk]
  have hnotsci : ¬ (ue = true ∧ x.num * 10 < 1 * x.den) := by omega
  have hdq : (0 : ℚ) < x.den := by exact_mod_cast hd
  set n := roundHalfEven (x.num * 10 ^ 6) x.den with hn
  have herr := roundHalfEven_err (x.num * 10 ^ 6) x.den hd
  rw [← hn] at herr
  have hq1 : ((x.num : ℚ)) / x.den < 1 := by rw [div_lt_one hdq]; exact_mod_cast h1
  have hq0 : (1 : ℚ) / 10 ≤ (x.num : ℚ) / x.den := by
    rw [div_le_div_iff₀ (by norm_num) hdq]; exact_mod_cast (by omega : 1 * x.den ≤ x.num * 10)
  have hy : ((x.num * 10 ^ 6 : Nat) : ℚ) / x.den = (x.num : ℚ) / x.den * 10 ^ 6 := by
    push_cast; ring
  rw [hy, abs_le] at herr
  have hnle : n ≤ 10 ^ 7 := by
    have : (n : ℚ) < 10 ^ 6 + 1 := by linarith [herr.2]
    have : n < 10 ^ 6 + 1 := by exact_mod_cast this
    omega
  have hval : fmtVal x ue = cutVal x.neg n 6 := by
    rw [C19_constants]; unfold fmtValP
    rw [if_neg (by simpa using hn0), if_neg hnotsci]
    simp only [hprec, ← hn]
    simp
  constructor
  · rw [hval, dval_of_neg _ _ (cutVal_neg _ _ _), cutVal_mag _ _ _ (by norm_num) (by norm_num) hnle,
      fval, sign_abs, abs_le]
    constructor <;> linarith [herr.1, herr.2]
  · rw [abs_fval]; linarith

/-- seven printed digits for |f| ≥ 1: relative error ≤ 5e-7 -/
theorem C19_ge1 (x : Frac) (ue : Bool) (hd : 0 < x.den) (h1 : x.den ≤ x.num) :
    |dval (fmtVal x ue) - fval x| ≤ 5 / 10 ^ 7 * |fval x| := by
  have hn0 : x.num ≠ 0 := by omega
  have hnotsci : ¬ (ue = true ∧ x.num * 10 < 1 * x.den) := by omega
  have hdq : (0 : ℚ) < x.den := by exact_mod_cast hd
  obtain ⟨e, he⟩ : ∃ e, ilogGe1 x.num x.num x.den = e := ⟨_, rfl⟩
  have hspec := ilogGe1_spec' x.num x.den hd h1
  rw [he] at hspec
  have hlo : (10 : ℚ) ^ e ≤ (x.num : ℚ) / x.den := by
    rw [le_div_iff₀ hdq]; exact_mod_cast hspec.1
  have hhi : (x.num : ℚ) / x.den < 10 ^ (e + 1) := by
    rw [div_lt_iff₀ hdq]; exact_mod_cast hspec.2
  have hprec : precOf 6 x.num x.den = 6 - e := by
    unfold precOf; rw [if_pos h1, he]
  rw [abs_fval]
  by_cases h6 : 6 ≤ e
  · -- no decimals: integer rounding
    have hp0 : 6 - e = 0 := by omega
    set n := roundHalfEven (x.num * 10 ^ 0) x.den with hn
    have herr := roundHalfEven_err (x.num * 10 ^ 0) x.den hd
    rw [← hn] at herr
    simp only [pow_zero, mul_one] at herr
    have hval : fmtVal x ue = ⟨x.neg && n != 0, n, 0, 0⟩ := by
      rw [C19_constants]; unfold fmtValP
      rw [if_neg (by simpa using hn0), if_neg hnotsci]
      simp only [hprec, hp0, ← hn]
      simp
    have h106 : (10 : ℚ) ^ 6 ≤ 10 ^ e := pow_le_pow_right₀ (by norm_num) h6
    rw [hval, dval_of_neg _ _ rfl, fval, sign_abs]
    simp only [mag, pow_zero, div_one, zpow_zero, mul_one]
    calc |(n : ℚ) - (x.num : ℚ) / x.den| ≤ 1 / 2 := herr
      _ ≤ 5 / 10 ^ 7 * ((x.num : ℚ) / x.den) := by nlinarith
  · -- 6 - e decimals, seven digits in total
    have he5 : e ≤ 5 := by omega
    set p := 6 - e with hp
    have hpe : p + e = 6 := by omega
    set n := roundHalfEven (x.num * 10 ^ p) x.den with hn
    have herr := roundHalfEven_err (x.num * 10 ^ p) x.den hd
    rw [← hn] at herr
    have hy : ((x.num * 10 ^ p : Nat) : ℚ) / x.den = (x.num : ℚ) / x.den * 10 ^ p := by
      push_cast; ring
    rw [hy, abs_le] at herr
    have hP : (0 : ℚ) < 10 ^ p := by positivity
    have h7 : (x.num : ℚ) / x.den * 10 ^ p < 10 ^ 7 := by
      calc (x.num : ℚ) / x.den * 10 ^ p < 10 ^ (e + 1) * 10 ^ p := by nlinarith
        _ = 10 ^ 7 := by rw [← pow_add]; congr 1; omega
    have hnle : n ≤ 10 ^ 7 := by
      have : (n : ℚ) < 10 ^ 7 + 1 := by linarith [herr.2]
      have : n < 10 ^ 7 + 1 := by exact_mod_cast this
      omega
    have hval : fmtVal x ue = cutVal x.neg n p := by
      rw [C19_constants]; unfold fmtValP
      rw [if_neg (by simpa using hn0), if_neg hnotsci]
      simp only [hprec, ← hn]
      rw [if_neg (by simp; omega)]
    rw [hval, dval_of_neg _ _ (cutVal_neg _ _ _), cutVal_mag _ _ _ (by omega) (by omega) hnle,
      fval, sign_abs]
    have hscale : (5 : ℚ) / 10 ^ 7 * 10 ^ e = 1 / 2 / 10 ^ p := by
      have : (10 : ℚ) ^ p * 10 ^ e = 10 ^ 6 := by rw [← pow_add, hpe]
      field_simp; nlinarith
    have hb : |(n : ℚ) / 10 ^ p - (x.num : ℚ) / x.den| ≤ 1 / 2 / 10 ^ p := by
      rw [abs_le]
      constructor
      · rw [le_sub_iff_add_le, le_div_iff₀ hP]
        have : (-(1 / 2 / 10 ^ p) + (x.num : ℚ) / x.den) * 10 ^ p
            = -(1 / 2) + (x.num : ℚ) / x.den * 10 ^ p := by field_simp
        rw [this]; linarith [herr.1]
      · rw [sub_le_iff_le_add, div_le_iff₀ hP]
        have : (1 / 2 / 10 ^ p + (x.num : ℚ) / x.den) * 10 ^ p
            = 1 / 2 + (x.num : ℚ) / x.den * 10 ^ p := by field_simp
        rw [this]; linarith [herr.2]
    calc |(n : ℚ) / 10 ^ p - (x.num : ℚ) / x.den| ≤ 1 / 2 / 10 ^ p := hb
      _ = 5 / 10 ^ 7 * 10 ^ e := hscale.symm
      _ ≤ 5 / 10 ^ 7 * ((x.num : ℚ) / x.den) := by
        apply mul_le_mul_of_nonneg_left hlo; positivity

/-- fixed-point fields below 0.1: absolute error < 1e-6 (rounding at 6+k decimals, cut to 6) -/
theorem C19_fixed_small (x : Frac) (hd : 0 < x.den) (h0 : 0 < x.num) (h1 : 10 * x.num < x.den) :
    |dval (fmtVal x false) - fval x| < 1 / 10 ^ 6 := by
  have hn0 : x.num ≠ 0 := by omega
  have hdq : (0 : ℚ) < x.den := by exact_mod_cast hd
  obtain ⟨k, hk⟩ : ∃ k, ilogLt1 x.den x.num x.den = k := ⟨_, rfl⟩
  have hspec := ilogLt1_spec' x.num x.den h0 (by omega)
  rw [hk] at hspec
  have hk1 : 1 ≤ k := by
    rcases Nat.eq_zero_or_pos k with h | h
    · subst h; simp at hspec; omega
    · exact h
  have hprec : precOf 6 x.num x.den = 6 + k := by
    unfold precOf; rw [if_neg (by omega), hk]
  set n := roundHalfEven (x.num * 10 ^ (6 + k)) x.den with hn
  have herr := roundHalfEven_err (x.num * 10 ^ (6 + k)) x.den hd
  rw [← hn] at herr
  set z : ℚ := (x.num : ℚ) / x.den * 10 ^ 6 with hz
  have hP : (10 : ℚ) ≤ 10 ^ k := by
    calc (10 : ℚ) = 10 ^ 1 := by norm_num
      _ ≤ 10 ^ k := pow_le_pow_right₀ (by norm_num) hk1
  have hy : ((x.num * 10 ^ (6 + k) : Nat) : ℚ) / x.den = z * 10 ^ k := by
    rw [hz]; push_cast; ring
  rw [hy, abs_le] at herr
  have hq : (x.num : ℚ) / x.den * 10 ^ k < 1 := by
    rw [div_mul_eq_mul_div, div_lt_one hdq]
    have := hspec.1
    exact_mod_cast (by rw [Nat.mul_comm]; exact this)
  have hzP : z * 10 ^ k < 10 ^ 6 := by rw [hz]; nlinarith
  have hnle : n ≤ 10 ^ 6 := by
    have : (n : ℚ) < 10 ^ 6 + 1 := by linarith [herr.2]
    have : n < 10 ^ 6 + 1 := by exact_mod_cast this
    omega
  have hip : n / 10 ^ (6 + k) = 0 := by
    apply Nat.div_eq_of_lt
    calc n ≤ 10 ^ 6 := hnle
      _ < 10 ^ (6 + k) := Nat.pow_lt_pow_right (by norm_num) (by omega)
  have hval : fmtVal x false = ⟨x.neg && (n / 10 ^ k) != 0, n / 10 ^ k, 6, 0⟩ := by
    rw [C19_constants]; unfold fmtValP
    rw [if_neg (by simpa using hn0), if_neg (by simp)]
    simp only [hprec, ← hn]
    rw [if_neg (by simp)]
    unfold cutVal
    simp only [hip, ndigits]
    have hk0 : ¬ (k = 0) := by omega
    simp [hk0]
  -- n = 10^k * n' + m
  have hdm : (n : ℚ) = (10 : ℚ) ^ k * ((n / 10 ^ k : Nat) : ℚ) + ((n % 10 ^ k : Nat) : ℚ) := by
    exact_mod_cast (Nat.div_add_mod n (10 ^ k)).symm
  have hm0 : (0 : ℚ) ≤ ((n % 10 ^ k : Nat) : ℚ) := by positivity
  have hm1 : ((n % 10 ^ k : Nat) : ℚ) ≤ 10 ^ k - 1 := by
    have : n % 10 ^ k < 10 ^ k := Nat.mod_lt _ (by positivity)
    have : n % 10 ^ k + 1 ≤ 10 ^ k := this
    have : ((n % 10 ^ k + 1 : Nat) : ℚ) ≤ ((10 ^ k : Nat) : ℚ) := by exact_mod_cast this
    push_cast at this; linarith
  rw [hval, dval_of_neg _ _ rfl, fval, sign_abs]
  simp only [mag, zpow_zero, mul_one]
  set n' : ℚ := ((n / 10 ^ k : Nat) : ℚ) with hn'
  have hPpos : (0 : ℚ) < 10 ^ k := by positivity
  have key : |n' - z| < 1 := by
    rw [abs_lt]
    constructor
    · by_contra hc
      rw [not_lt] at hc
      nlinarith
    · by_contra hc
      rw [not_lt] at hc
      nlinarith
  have : n' / 10 ^ 6 - (x.num : ℚ) / x.den = (n' - z) / 10 ^ 6 := by rw [hz]; field_simp
  rw [this, abs_div, abs_of_pos (by positivity : (0 : ℚ) < 10 ^ 6)]
  exact div_lt_div_of_pos_right key (by positivity)

/-- exponent-format fields (0 < |f| < 0.1 with use_e): seven digits, relative error ≤ 5e-7 -/
theorem C19_sci (x : Frac) (hd : 0 < x.den) (h0 : 0 < x.num) (h1 : 10 * x.num < x.den) :
    |dval (fmtVal x true) - fval x| ≤ 5 / 10 ^ 7 * |fval x| := by
  have hn0 : x.num ≠ 0 := by omega
  have hdq : (0 : ℚ) < x.den := by exact_mod_cast hd
  obtain ⟨k, hk⟩ : ∃ k, ilogLt1 x.den x.num x.den = k := ⟨_, rfl⟩
  have hspec := ilogLt1_spec' x.num x.den h0 (by omega)
  rw [hk] at hspec
  have hnorm : sciNorm x.num x.den = (x.num * 10 ^ (k + 1), x.den, -((k : Int) + 1)) := by
    unfold sciNorm; rw [if_neg (by omega), hk]
  set a := x.num * 10 ^ (k + 1) with ha
  set n := roundHalfEven (a * 10 ^ 6) x.den with hn
  have herr := roundHalfEven_err (a * 10 ^ 6) x.den hd
  rw [← hn] at herr
  -- mantissa r = a / den ∈ [1, 10)
  set r : ℚ := (a : ℚ) / x.den with hr
  have hr1 : 1 ≤ r := by
    rw [hr, le_div_iff₀ hdq, one_mul]
    have : x.den ≤ a := by rw [ha, Nat.mul_comm]; exact hspec.2
    exact_mod_cast this
  have hr10 : r < 10 := by
    rw [hr, div_lt_iff₀ hdq]
    have : a < 10 * x.den := by
      rw [ha, pow_succ]
      have := hspec.1
      nlinarith
    exact_mod_cast this
  have hy : ((a * 10 ^ 6 : Nat) : ℚ) / x.den = r * 10 ^ 6 := by rw [hr]; push_cast; ring
  rw [hy, abs_le] at herr
  have hnle : n ≤ 10 ^ 7 := by
    have : (n : ℚ) < 10 ^ 7 + 1 := by linarith [herr.2]
    have : n < 10 ^ 7 + 1 := by exact_mod_cast this
    omega
  -- exact value in terms of the mantissa
  have hE : (0 : ℚ) < (10 : ℚ) ^ (-((k : Int) + 1)) := zpow_pos (by norm_num) _
  have hq : (x.num : ℚ) / x.den = r * (10 : ℚ) ^ (-((k : Int) + 1)) := by
    rw [hr, ha]
    have : (10 : ℚ) ^ (-((k : Int) + 1)) = 1 / 10 ^ (k + 1) := by
      rw [zpow_neg, one_div, show ((k : Int) + 1) = ((k + 1 : Nat) : Int) by push_cast; ring,
        zpow_natCast]
    rw [this]; push_cast; field_simp
  have hmain : ∀ (m : ℚ) (e : Int), m / 10 ^ 6 * (10 : ℚ) ^ e
      = (n : ℚ) / 10 ^ 6 * (10 : ℚ) ^ (-((k : Int) + 1)) →
      |m / 10 ^ 6 * (10 : ℚ) ^ e - (x.num : ℚ) / x.den| ≤ 5 / 10 ^ 7 * ((x.num : ℚ) / x.den) := by
    intro m e hme
    rw [hme, hq]
    have : (n : ℚ) / 10 ^ 6 * (10 : ℚ) ^ (-((k : Int) + 1)) - r * (10 : ℚ) ^ (-((k : Int) + 1))
        = ((n : ℚ) - r * 10 ^ 6) / 10 ^ 6 * (10 : ℚ) ^ (-((k : Int) + 1)) := by ring
    rw [this, abs_mul, abs_of_pos hE, abs_div, abs_of_pos (by positivity : (0 : ℚ) < 10 ^ 6)]
    have h2 : |(n : ℚ) - r * 10 ^ 6| ≤ 1 / 2 := abs_le.mpr herr
    have h3 : |(n : ℚ) - r * 10 ^ 6| / 10 ^ 6 ≤ 5 / 10 ^ 7 * r := by
      rw [div_le_iff₀ (by positivity : (0 : ℚ) < 10 ^ 6)]; nlinarith
    calc |(n : ℚ) - r * 10 ^ 6| / 10 ^ 6 * (10 : ℚ) ^ (-((k : Int) + 1))
        ≤ 5 / 10 ^ 7 * r * (10 : ℚ) ^ (-((k : Int) + 1)) :=
          mul_le_mul_of_nonneg_right h3 hE.le
      _ = 5 / 10 ^ 7 * (r * (10 : ℚ) ^ (-((k : Int) + 1))) := by ring
  rw [abs_fval]
  by_cases hc : n ≥ 10 ^ 7
  · have hn7 : n = 10 ^ 7 := by omega
    have hval : fmtVal x true = ⟨x.neg, 10 ^ 6, 6, -((k : Int) + 1) + 1⟩ := by
      rw [C19_constants]; unfold fmtValP
      rw [if_neg (by simpa using hn0), if_pos (by constructor; rfl; omega)]
      have hsp : sciParts x.num x.den = (10 ^ 6, -((k : Int) + 1) + 1) := by
        unfold sciParts; rw [hnorm]; simp only []
        rw [← hn, if_pos hc, hn7]; norm_num
      rw [hsp]
    rw [hval, dval, fval, sign_abs]
    simp only [mag]
    apply hmain
    rw [hn7, zpow_add₀ (by norm_num : (10 : ℚ) ≠ 0)]
    push_cast; ring
  · have hval : fmtVal x true = ⟨x.neg, n, 6, -((k : Int) + 1)⟩ := by
      rw [C19_constants]; unfold fmtValP
      rw [if_neg (by simpa using hn0), if_pos (by constructor; rfl; omega)]
      have hsp : sciParts x.num x.den = (n, -((k : Int) + 1)) := by
        unfold sciParts; rw [hnorm]; simp only []
        rw [← hn, if_neg hc]
      rw [hsp]
    rw [hval, dval, fval, sign_abs]
    simp only [mag]
    exact hmain _ _ rfl

/-! non-vacuity: the hypotheses of the four magnitude classes are met by concrete doubles
(−2.347928e-6 as a fraction, 0.5, 123.456) -/
example : let x : Frac := ⟨true, 2347928, 10 ^ 12⟩; 0 < x.den ∧ 0 < x.num ∧ 10 * x.num < x.den := by
  decide
example : let x : Frac := ⟨false, 1, 2⟩; 0 < x.den ∧ x.num < x.den ∧ x.den ≤ 10 * x.num := by decide
example : let x : Frac := ⟨false, 123456, 1000⟩; 0 < x.den ∧ x.den ≤ x.num := by decide
example : fmtVal ⟨true, 2347928, 10 ^ 12⟩ true = ⟨true, 2347928, 6, -6⟩ := by decide +kernel
example : fmtVal ⟨true, 2347928, 10 ^ 12⟩ false = ⟨true, 2, 6, 0⟩ := by decide +kernel

end Pmn.Props.C19
