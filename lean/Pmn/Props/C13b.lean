/-
Pmn.Props.C13b — C13, taper clause "lengths grow from the tapered end by a factor of at most 2.1 per step".

For the model of `taper.taper1` (`Pmn.Geom.taper1Loop`), over ℝ: while the loop doubles, segment `i` is `2^i · minl` long
(factor exactly 2); where it switches to equal segments the first of them is shorter than `2^i · minl + eps` with
`eps ≤ minl / 10`, i.e. less than `2 + 0.1 / 2^(i−1) ≤ 2.1` times the previous one; afterwards all segments are equal
(the remaining wire divided evenly, the last segment included).  The case "never switches" cannot occur because the first
segment is at least `l / (2^n − 1)`.  `C13_taper1_growth` puts this together for every accepted one-sided taper.
The two-sided taper (`taper2`) has no such theorem; it is evaluated on every generated taper (harness/c13.py).
-/
import Pmn.Props.C13
import Mathlib.Tactic.Linarith
import Mathlib.Tactic.Positivity
import Mathlib.Tactic.NormNum

namespace Pmn.Props.C13b
open Pmn Pmn.Geom Pmn.Props.C13


theorem v3ext {a b : V3 ℝ} (hx : a.x = b.x) (hy : a.y = b.y) (hz : a.z = b.z) : a = b := by
  cases a; cases b; simp_all

@[simp] theorem add_x (a b : V3 ℝ) : (a + b).x = a.x + b.x := rfl
@[simp] theorem add_y (a b : V3 ℝ) : (a + b).y = a.y + b.y := rfl
@[simp] theorem add_z (a b : V3 ℝ) : (a + b).z = a.z + b.z := rfl
@[simp] theorem sub_x (a b : V3 ℝ) : (a - b).x = a.x - b.x := rfl
@[simp] theorem sub_y (a b : V3 ℝ) : (a - b).y = a.y - b.y := rfl
@[simp] theorem sub_z (a b : V3 ℝ) : (a - b).z = a.z - b.z := rfl
@[simp] theorem smulV_x (c : ℝ) (a : V3 ℝ) : (smulV c a).x = c * a.x := rfl
@[simp] theorem smulV_y (c : ℝ) (a : V3 ℝ) : (smulV c a).y = c * a.y := rfl
@[simp] theorem smulV_z (c : ℝ) (a : V3 ℝ) : (smulV c a).z = c * a.z := rfl
@[simp] theorem divV_x (c : ℝ) (a : V3 ℝ) : (divV a c).x = a.x / c := rfl
@[simp] theorem divV_y (c : ℝ) (a : V3 ℝ) : (divV a c).y = a.y / c := rfl
@[simp] theorem divV_z (c : ℝ) (a : V3 ℝ) : (divV a c).z = a.z / c := rfl

theorem norm_nonneg (v : V3 ℝ) : 0 ≤ V3.norm v := Real.sqrt_nonneg _

theorem norm_smulV (a : ℝ) (v : V3 ℝ) : V3.norm (smulV a v) = |a| * V3.norm v := by
  unfold V3.norm
  have : V3.normSq (smulV a v) = a ^ 2 * V3.normSq v := by
    unfold V3.normSq V3.dot; simp only [smulV_x, smulV_y, smulV_z]; ring
  show Real.sqrt (V3.normSq (smulV a v)) = |a| * Real.sqrt (V3.normSq v)
  rw [this, Real.sqrt_mul (sq_nonneg a), Real.sqrt_sq_eq_abs]

theorem divV_eq (v : V3 ℝ) (c : ℝ) : divV v c = smulV (1 / c) v := by
  apply v3ext <;> simp <;> ring


/-- length of a segment -/
noncomputable def len (s : V3 ℝ × V3 ℝ) : ℝ := V3.norm (s.2 - s.1)

/-- steady phase: once the increment is fixed with `(n − i)·inc1 = p2 − p`, every further segment is `inc1` -/
theorem steady_spec (p1 p2 lv minc : V3 ℝ) (eps minT mt : ℝ) (n : Nat) :
    ∀ (fuel i : Nat) (p inc1 : V3 ℝ) (segs : List (V3 ℝ × V3 ℝ)), i + fuel = n → 0 < fuel →
      smulV ((n : ℝ) - i) inc1 = p2 - p →
      taper1Loop p1 p2 lv minc eps minT mt n fuel i true p inc1 = .ok segs →
      ∀ s ∈ segs, len s = V3.norm inc1 := by
  intro fuel
  induction fuel with
  | zero => intro i p inc1 segs _ h; omega
  | succ f ih =>
    intro i p inc1 segs hi _ hrel hok
    unfold taper1Loop at hok
    simp only [if_true, Bool.true_or] at hok
    by_cases hlast : i = n - 1
    · rw [if_pos hlast] at hok
      split at hok
      · injection hok with hok; subst hok
        intro s hs
        simp only [List.mem_singleton] at hs
        subst hs
        have hni : (n : ℝ) - i = 1 := by
          have : n = i + 1 := by omega
          rw [this]; push_cast; ring
        rw [hni] at hrel
        have : p2 - p = inc1 := by
          rw [← hrel]; apply v3ext <;> simp
        unfold len; simp only; rw [this]
      · cases hok
    · rw [if_neg hlast] at hok
      have hf : 0 < f := by omega
      obtain ⟨r, hr, hsegs⟩ := ok_shape _ _ _ _ _ hok
      subst hsegs
      intro s hs
      rcases List.mem_cons.mp hs with rfl | hs
      · unfold len; simp only
        have : p + inc1 - p = inc1 := by apply v3ext <;> simp
        rw [this]
      · refine ih (i + 1) (p + inc1) inc1 r (by omega) hf ?_ hr s hs
        have h1 : ((i + 1 : Nat) : ℝ) = (i : ℝ) + 1 := by push_cast; ring
        rw [h1]
        have hx := congrArg V3.x hrel
        have hy := congrArg V3.y hrel
        have hz := congrArg V3.z hrel
        simp only [smulV_x, smulV_y, smulV_z, sub_x, sub_y, sub_z] at hx hy hz
        apply v3ext <;> simp <;> linarith


/-- consecutive segments grow by at most the factor 2.1 (`prev`: length of the segment before the list) -/
def GrowOK : Option ℝ → List (V3 ℝ × V3 ℝ) → Prop
  | _, [] => True
  | none, s :: r => GrowOK (some (len s)) r
  | some a, s :: r => len s ≤ 2.1 * a ∧ GrowOK (some (len s)) r

theorem grow_const (a : ℝ) (ha : 0 ≤ a) : ∀ r : List (V3 ℝ × V3 ℝ), (∀ s ∈ r, len s = a) → GrowOK (some a) r := by
  intro r
  induction r with
  | nil => intro _; trivial
  | cons s r ih =>
    intro h
    have hs := h s (List.mem_cons_self ..)
    refine ⟨by rw [hs]; linarith, ?_⟩
    rw [hs]
    exact ih (fun x hx => h x (List.mem_cons_of_mem _ hx))

theorem pow_cast (i : Nat) : ((2 ^ i : Nat) : ℝ) = (2 : ℝ) ^ i := by push_cast; ring

theorem pow_sub_cast (i : Nat) : ((2 ^ i - 1 : Nat) : ℝ) = (2 : ℝ) ^ i - 1 := by
  have : 1 ≤ 2 ^ i := Nat.one_le_two_pow
  rw [Nat.cast_sub this]; push_cast; ring

theorem grow_spec (p1 p2 u : V3 ℝ) (minl eps minT mt : ℝ) (n : Nat) (hu : u = p2 - p1)
    (hl : 0 < V3.norm u) (hminl : 0 < minl) (heps0 : 0 < eps) (heps : eps ≤ minl / 10)
    (hbig : V3.norm u ≤ ((2 : ℝ) ^ n - 1) * minl) :
    ∀ (fuel i : Nat) (p inc1Prev : V3 ℝ) (segs : List (V3 ℝ × V3 ℝ)), i + fuel = n → 0 < fuel →
      p - p1 = smulV (((2 : ℝ) ^ i - 1) * minl / V3.norm u) u →
      taper1Loop p1 p2 u (smulV (minl / V3.norm u) u) eps minT mt n fuel i false p inc1Prev = .ok segs →
      GrowOK (if i = 0 then none else some ((2 : ℝ) ^ (i - 1) * minl)) segs := by
  intro fuel
  induction fuel with
  | zero => intro i p inc1Prev segs _ h; omega
  | succ f ih =>
    intro i p inc1Prev segs hi _ hpos hok
    set l := V3.norm u with hldef
    have hl0 : l ≠ 0 := hl.ne'
    -- the increment of the growing phase and its length
    have hinc : V3.norm (smulV ((2 ^ i : Nat) : ℝ) (smulV (minl / l) u)) = (2 : ℝ) ^ i * minl := by
      rw [norm_smulV, norm_smulV, pow_cast, abs_of_pos (by positivity), abs_of_pos (by positivity), ← hldef]
      field_simp
    -- the rest of the wire
    have hrem : (0 : ℝ) < ((n - i : Nat) : ℝ) := by
      have : 0 < n - i := by omega
      exact_mod_cast this
    have hrest : u - (p - p1) = p2 - p := by
      rw [hu]; apply v3ext <;> simp
    unfold taper1Loop at hok
    simp only [Bool.false_eq_true, if_false, Bool.false_or] at hok
    set inc1 := divV (u - (p - p1)) ((n - i : Nat) : ℝ) with hinc1
    have hrel : smulV ((n - i : Nat) : ℝ) inc1 = p2 - p := by
      rw [← hrest, hinc1]
      apply v3ext <;> simp <;> field_simp
    by_cases hsw : V3.norm inc1 - V3.norm (smulV ((2 ^ i : Nat) : ℝ) (smulV (minl / l) u)) - eps < ((0 : Nat) : ℝ)
    · -- the loop switches to equal segments here
      have hdec : decide (V3.norm inc1 - V3.norm (smulV ((2 ^ i : Nat) : ℝ) (smulV (minl / l) u)) - eps < ((0 : Nat) : ℝ)) = true :=
        decide_eq_true hsw
      rw [hdec] at hok
      simp only [if_true] at hok
      have hlt : V3.norm inc1 < (2 : ℝ) ^ i * minl + eps := by
        rw [hinc] at hsw; simp only [Nat.cast_zero] at hsw; linarith
      have hprev : ∀ (hi0 : i ≠ 0), V3.norm inc1 ≤ 2.1 * ((2 : ℝ) ^ (i - 1) * minl) := by
        intro hi0
        obtain ⟨k, rfl⟩ := Nat.exists_eq_succ_of_ne_zero hi0
        simp only [Nat.succ_sub_one]
        have hk : (1 : ℝ) ≤ (2 : ℝ) ^ k := one_le_pow₀ (by norm_num)
        have : (2 : ℝ) ^ (k + 1) = 2 * (2 : ℝ) ^ k := by ring
        rw [Nat.succ_eq_add_one, this] at hlt
        nlinarith
      by_cases hlast : i = n - 1
      · rw [if_pos hlast] at hok
        split at hok
        · injection hok with hok; subst hok
          have hone : ((n - i : Nat) : ℝ) = 1 := by
            have : n - i = 1 := by omega
            rw [this]; simp
          have hseg : p2 - p = inc1 := by
            rw [← hrel, hone]; apply v3ext <;> simp
          by_cases hi0 : i = 0
          · rw [if_pos hi0]; trivial
          · rw [if_neg hi0]
            refine ⟨?_, trivial⟩
            unfold len; simp only; rw [hseg]; exact hprev hi0
        · cases hok
      · rw [if_neg hlast] at hok
        have hf : 0 < f := by omega
        obtain ⟨r, hr, hsegs⟩ := ok_shape _ _ _ _ _ hok
        subst hsegs
        have hfirst : len (p, p + inc1) = V3.norm inc1 := by
          unfold len; simp only
          have : p + inc1 - p = inc1 := by apply v3ext <;> simp
          rw [this]
        have hrestc : ∀ s ∈ r, len s = V3.norm inc1 := by
          refine steady_spec p1 p2 u _ eps minT mt n f (i + 1) (p + inc1) inc1 r (by omega) hf ?_ hr
          have h1 : (n : ℝ) - ((i + 1 : Nat) : ℝ) = ((n - i : Nat) : ℝ) - 1 := by
            rw [Nat.cast_sub (by omega : i ≤ n)]; push_cast; ring
          rw [h1]
          have hx := congrArg V3.x hrel
          have hy := congrArg V3.y hrel
          have hz := congrArg V3.z hrel
          simp only [smulV_x, smulV_y, smulV_z, sub_x, sub_y, sub_z] at hx hy hz
          apply v3ext <;> simp <;> linarith
        have hgc := grow_const (V3.norm inc1) (norm_nonneg _) r hrestc
        by_cases hi0 : i = 0
        · rw [if_pos hi0]
          show GrowOK (some (len (p, p + inc1))) r
          rw [hfirst]; exact hgc
        · rw [if_neg hi0]
          refine ⟨by rw [hfirst]; exact hprev hi0, ?_⟩
          rw [hfirst]; exact hgc
    · -- still doubling
      have hdec : decide (V3.norm inc1 - V3.norm (smulV ((2 ^ i : Nat) : ℝ) (smulV (minl / l) u)) - eps < ((0 : Nat) : ℝ)) = false :=
        decide_eq_false hsw
      rw [hdec] at hok
      simp only [Bool.false_eq_true, if_false] at hok
      by_cases hlast : i = n - 1
      · -- impossible: what is left of the wire is less than twice the previous segment
        exfalso
        apply hsw
        rw [hinc]
        simp only [Nat.cast_zero]
        have hone : ((n - i : Nat) : ℝ) = 1 := by
          have : n - i = 1 := by omega
          rw [this]; simp
        have hseg : inc1 = p2 - p := by
          rw [← hrel, hone]; apply v3ext <;> simp
        have hpp : p2 - p = smulV (1 - ((2 : ℝ) ^ i - 1) * minl / l) u := by
          rw [← hrest, hpos]; apply v3ext <;> simp <;> ring
        rw [hseg, hpp, norm_smulV]
        have hn : n = i + 1 := by omega
        rw [hn] at hbig
        have h2 : (2 : ℝ) ^ (i + 1) = 2 * (2 : ℝ) ^ i := by ring
        rw [h2] at hbig
        have hpow : (1 : ℝ) ≤ (2 : ℝ) ^ i := one_le_pow₀ (by norm_num)
        have habs : |1 - ((2 : ℝ) ^ i - 1) * minl / l| * l = |l - ((2 : ℝ) ^ i - 1) * minl| := by
          rw [← abs_of_pos hl, ← abs_mul, abs_of_pos hl]
          congr 1; field_simp
        rw [← hldef, habs]
        have : |l - ((2 : ℝ) ^ i - 1) * minl| < (2 : ℝ) ^ i * minl + eps := by
          rw [abs_lt]; constructor <;> nlinarith
        linarith
      · rw [if_neg hlast] at hok
        have hf : 0 < f := by omega
        obtain ⟨r, hr, hsegs⟩ := ok_shape _ _ _ _ _ hok
        subst hsegs
        have hfirst : len (p, p + smulV ((2 ^ i : Nat) : ℝ) (smulV (minl / l) u)) = (2 : ℝ) ^ i * minl := by
          unfold len; simp only
          have : p + smulV ((2 ^ i : Nat) : ℝ) (smulV (minl / l) u) - p = smulV ((2 ^ i : Nat) : ℝ) (smulV (minl / l) u) := by
            apply v3ext <;> simp
          rw [this, hinc]
        have hnext := ih (i + 1) (p + smulV ((2 ^ i : Nat) : ℝ) (smulV (minl / l) u)) inc1 r (by omega) hf ?_ hr
        · simp only [Nat.add_eq_zero_iff, one_ne_zero, and_false, if_false, Nat.add_sub_cancel] at hnext
          by_cases hi0 : i = 0
          · rw [if_pos hi0]
            show GrowOK (some (len _)) r
            rw [hfirst]; exact hnext
          · rw [if_neg hi0]
            refine ⟨?_, by rw [hfirst]; exact hnext⟩
            rw [hfirst]
            obtain ⟨k, rfl⟩ := Nat.exists_eq_succ_of_ne_zero hi0
            simp only [Nat.succ_sub_one]
            have : (2 : ℝ) ^ (k + 1) = 2 * (2 : ℝ) ^ k := by ring
            rw [Nat.succ_eq_add_one, this]
            have hk : (0 : ℝ) < (2 : ℝ) ^ k := by positivity
            nlinarith
        · have hx := congrArg V3.x hpos
          have hy := congrArg V3.y hpos
          have hz := congrArg V3.z hpos
          simp only [smulV_x, smulV_y, smulV_z, sub_x, sub_y, sub_z] at hx hy hz
          have h2 : (2 : ℝ) ^ (i + 1) = 2 * (2 : ℝ) ^ i := by ring
          apply v3ext <;> simp only [add_x, add_y, add_z, sub_x, sub_y, sub_z, smulV_x, smulV_y, smulV_z, pow_cast, h2] <;>
            field_simp <;> field_simp at hx hy hz <;> linarith


theorem taper1Minl_facts (l : ℝ) (n : Nat) (minT : ℝ) (maxT : Option ℝ) (minl eps : ℝ) (hl : 0 < l) (hn : 0 < n)
    (hm : taper1Minl l n minT maxT = .ok (minl, eps)) :
    0 < minl ∧ 0 < eps ∧ eps ≤ minl / 10 ∧ l ≤ ((2 : ℝ) ^ n - 1) * minl := by
  have hnp : (0 : ℝ) < ((2 ^ n - 1 : Nat) : ℝ) := by
    have : 1 < 2 ^ n := Nat.one_lt_two_pow (by omega)
    have : 0 < 2 ^ n - 1 := by omega
    exact_mod_cast this
  have heq := taper1Minl_eps l n minT maxT minl eps hm
  set m0 := (if l / (((2 ^ n - 1 : Nat) : ℝ)) < minT then minT else l / (((2 ^ n - 1 : Nat) : ℝ))) with hm0
  have hten : (((10 : Nat) : ℝ)) = 10 := by norm_num
  rw [hten] at heq
  -- minl is m0 or something larger
  have hge : m0 ≤ minl := by
    unfold taper1Minl at hm
    simp only at hm
    cases maxT with
    | none =>
      simp only at hm
      injection hm with hm
      have := (Prod.mk.inj hm).1
      rw [← this]
    | some mx =>
      simp only at hm
      by_cases hc : mx / ((2 ^ (n - 1) : Nat) : ℝ) < m0
      · rw [if_pos hc] at hm
        cases hs : taper1Search l mx (m0 / ((10 : Nat) : ℝ)) n (n - 1) with
        | error e => rw [hs] at hm; cases hm
        | ok nminl =>
          rw [hs] at hm
          simp only at hm
          by_cases hg : ¬ mx / ((2 ^ (n - 1) : Nat) : ℝ) < nminl + m0 / ((10 : Nat) : ℝ)
          · rw [if_pos hg] at hm; cases hm
          · rw [if_neg hg] at hm
            injection hm with hm
            have := (Prod.mk.inj hm).1
            rw [← this]
            show m0 ≤ if m0 < nminl then nminl else m0
            by_cases hlt : m0 < nminl
            · rw [if_pos hlt]; exact hlt.le
            · rw [if_neg hlt]
      · rw [if_neg hc] at hm
        injection hm with hm
        have := (Prod.mk.inj hm).1
        rw [← this]
  have hdiv : 0 < l / (((2 ^ n - 1 : Nat) : ℝ)) := div_pos hl hnp
  have hm0pos : l / (((2 ^ n - 1 : Nat) : ℝ)) ≤ m0 := by
    rw [hm0]; split
    · rename_i h; exact h.le
    · exact le_refl _
  have hm0p : 0 < m0 := lt_of_lt_of_le hdiv hm0pos
  refine ⟨lt_of_lt_of_le hm0p hge, by rw [heq]; positivity, by rw [heq]; linarith, ?_⟩
  rw [← pow_sub_cast]
  have : l ≤ ((2 ^ n - 1 : Nat) : ℝ) * m0 := by
    rw [div_le_iff₀ hnp] at hm0pos; linarith
  nlinarith


/-- **taper growth** (tapered end first): from one segment of an accepted one-sided taper to the next the length grows by
a factor of at most 2.1 — exactly 2 while the loop doubles, less than `2 + eps / (previous)` where it switches to equal
segments, 1 afterwards -/
theorem C13_taper1_growth (p1 p2 : V3 ℝ) (n : Nat) (r minT : ℝ) (maxT : Option ℝ) (c25 : ℝ)
    (isZero : ℝ → Bool) (segs : List (V3 ℝ × V3 ℝ)) (hl : 0 < V3.norm (p2 - p1))
    (h : taper1 p1 p2 n r minT maxT false c25 isZero = .ok segs) : GrowOK none segs := by
  unfold taper1 at h
  simp only [Bool.false_eq_true, if_false] at h
  unfold taper1Fwd at h
  simp only at h
  cases hpre : taperPre (V3.norm (p2 - p1)) n r minT maxT c25 with
  | error e => rw [hpre] at h; cases h
  | ok mt =>
    rw [hpre] at h
    have hn : 1 < n := by
      unfold taperPre at hpre
      simp only at hpre
      split at hpre
      · cases hpre
      · omega
    simp only at h
    cases hm : taper1Minl (V3.norm (p2 - p1)) n mt maxT with
    | error e => rw [hm] at h; cases h
    | ok v =>
      rw [hm] at h
      obtain ⟨minl, eps⟩ := v
      simp only at h
      obtain ⟨h1, h2, h3, h4⟩ := taper1Minl_facts _ n mt maxT minl eps hl (by omega) hm
      have := grow_spec p1 p2 (p2 - p1) minl eps mt _ n rfl hl h1 h2 h3 h4 n 0 p1 (p2 - p1) segs (by omega) (by omega)
        (by apply v3ext <;> simp) h
      simpa using this

/-- the same as a chain condition on neighbouring segments -/
theorem growOK_chain : ∀ (a : V3 ℝ × V3 ℝ) (r : List (V3 ℝ × V3 ℝ)), GrowOK (some (len a)) r →
    List.IsChain (fun x y => len y ≤ 2.1 * len x) (a :: r) := by
  intro a r
  induction r generalizing a with
  | nil => intro _; exact List.isChain_singleton _
  | cons b r ih =>
    intro h
    exact List.IsChain.cons_cons h.1 (ih b h.2)

theorem C13_taper1_growth_chain (p1 p2 : V3 ℝ) (n : Nat) (r minT : ℝ) (maxT : Option ℝ) (c25 : ℝ)
    (isZero : ℝ → Bool) (segs : List (V3 ℝ × V3 ℝ)) (hl : 0 < V3.norm (p2 - p1))
    (h : taper1 p1 p2 n r minT maxT false c25 isZero = .ok segs) :
    List.IsChain (fun x y => len y ≤ 2.1 * len x) segs := by
  have hg := C13_taper1_growth p1 p2 n r minT maxT c25 isZero segs hl h
  cases segs with
  | nil => exact List.isChain_nil
  | cons a r => exact growOK_chain a r hg


theorem pos_spec (p1 p2 u : V3 ℝ) (minl eps minT mt : ℝ) (n : Nat) (hu : u = p2 - p1)
    (hl : 0 < V3.norm u) (hminl : 0 < minl) (heps0 : 0 < eps) :
    ∀ (fuel i : Nat) (p inc1Prev : V3 ℝ) (segs : List (V3 ℝ × V3 ℝ)), i + fuel = n → 0 < fuel →
      p - p1 = smulV (((2 : ℝ) ^ i - 1) * minl / V3.norm u) u →
      ((2 : ℝ) ^ i - 1) * minl < V3.norm u →
      taper1Loop p1 p2 u (smulV (minl / V3.norm u) u) eps minT mt n fuel i false p inc1Prev = .ok segs →
      ∀ s ∈ segs, 0 < len s := by
  intro fuel
  induction fuel with
  | zero => intro i p inc1Prev segs _ h; omega
  | succ f ih =>
    intro i p inc1Prev segs hi _ hpos ht hok
    set l := V3.norm u with hldef
    have hl0 : l ≠ 0 := hl.ne'
    have hinc : V3.norm (smulV ((2 ^ i : Nat) : ℝ) (smulV (minl / l) u)) = (2 : ℝ) ^ i * minl := by
      rw [norm_smulV, norm_smulV, pow_cast, abs_of_pos (by positivity), abs_of_pos (by positivity), ← hldef]
      field_simp
    have hrem : (0 : ℝ) < ((n - i : Nat) : ℝ) := by
      have : 0 < n - i := by omega
      exact_mod_cast this
    have hrem1 : (1 : ℝ) ≤ ((n - i : Nat) : ℝ) := by
      have : 1 ≤ n - i := by omega
      exact_mod_cast this
    have hrest : u - (p - p1) = p2 - p := by
      rw [hu]; apply v3ext <;> simp
    -- what is left of the wire, as a multiple of u
    have hpp : p2 - p = smulV ((l - ((2 : ℝ) ^ i - 1) * minl) / l) u := by
      rw [← hrest, hpos]; apply v3ext <;> simp <;> field_simp
    have hleft : V3.norm (p2 - p) = l - ((2 : ℝ) ^ i - 1) * minl := by
      rw [hpp, norm_smulV, ← hldef, abs_of_pos (by apply div_pos <;> linarith)]
      field_simp
    unfold taper1Loop at hok
    simp only [Bool.false_eq_true, if_false, Bool.false_or] at hok
    set inc1 := divV (u - (p - p1)) ((n - i : Nat) : ℝ) with hinc1
    have hrel : smulV ((n - i : Nat) : ℝ) inc1 = p2 - p := by
      rw [← hrest, hinc1]
      apply v3ext <;> simp <;> field_simp
    have hn1 : V3.norm inc1 = (l - ((2 : ℝ) ^ i - 1) * minl) / ((n - i : Nat) : ℝ) := by
      have : inc1 = smulV (1 / ((n - i : Nat) : ℝ)) (p2 - p) := by
        rw [hinc1, hrest, divV_eq]
      rw [this, norm_smulV, hleft, abs_of_pos (by positivity)]
      ring
    have hn1pos : 0 < V3.norm inc1 := by
      rw [hn1]; apply div_pos <;> linarith
    by_cases hlast : i = n - 1
    · -- the last segment runs to p2 whatever the phase
      rw [if_pos hlast] at hok
      split at hok
      · injection hok with hok; subst hok
        intro s hs
        simp only [List.mem_singleton] at hs
        subst hs
        unfold len; simp only
        rw [hleft]; linarith
      · cases hok
    · rw [if_neg hlast] at hok
      have hf : 0 < f := by omega
      by_cases hsw : V3.norm inc1 - V3.norm (smulV ((2 ^ i : Nat) : ℝ) (smulV (minl / l) u)) - eps < ((0 : Nat) : ℝ)
      · have hdec : decide (V3.norm inc1 - V3.norm (smulV ((2 ^ i : Nat) : ℝ) (smulV (minl / l) u)) - eps < ((0 : Nat) : ℝ)) = true :=
          decide_eq_true hsw
        rw [hdec] at hok
        simp only [if_true] at hok
        obtain ⟨r, hr, hsegs⟩ := ok_shape _ _ _ _ _ hok
        subst hsegs
        have hfirst : len (p, p + inc1) = V3.norm inc1 := by
          unfold len; simp only
          have : p + inc1 - p = inc1 := by apply v3ext <;> simp
          rw [this]
        have hrestc : ∀ s ∈ r, len s = V3.norm inc1 := by
          refine steady_spec p1 p2 u _ eps minT mt n f (i + 1) (p + inc1) inc1 r (by omega) hf ?_ hr
          have h1 : (n : ℝ) - ((i + 1 : Nat) : ℝ) = ((n - i : Nat) : ℝ) - 1 := by
            rw [Nat.cast_sub (by omega : i ≤ n)]; push_cast; ring
          rw [h1]
          have hx := congrArg V3.x hrel
          have hy := congrArg V3.y hrel
          have hz := congrArg V3.z hrel
          simp only [smulV_x, smulV_y, smulV_z, sub_x, sub_y, sub_z] at hx hy hz
          apply v3ext <;> simp <;> linarith
        intro s hs
        rcases List.mem_cons.mp hs with rfl | hs
        · rw [hfirst]; exact hn1pos
        · rw [hrestc s hs]; exact hn1pos
      · have hdec : decide (V3.norm inc1 - V3.norm (smulV ((2 ^ i : Nat) : ℝ) (smulV (minl / l) u)) - eps < ((0 : Nat) : ℝ)) = false :=
          decide_eq_false hsw
        rw [hdec] at hok
        simp only [Bool.false_eq_true, if_false] at hok
        obtain ⟨r, hr, hsegs⟩ := ok_shape _ _ _ _ _ hok
        subst hsegs
        have hfirst : len (p, p + smulV ((2 ^ i : Nat) : ℝ) (smulV (minl / l) u)) = (2 : ℝ) ^ i * minl := by
          unfold len; simp only
          have : p + smulV ((2 ^ i : Nat) : ℝ) (smulV (minl / l) u) - p = smulV ((2 ^ i : Nat) : ℝ) (smulV (minl / l) u) := by
            apply v3ext <;> simp
          rw [this, hinc]
        have h2 : (2 : ℝ) ^ (i + 1) = 2 * (2 : ℝ) ^ i := by ring
        -- not switching means that more than one further doubled segment is left
        have hge : (2 : ℝ) ^ i * minl + eps ≤ (l - ((2 : ℝ) ^ i - 1) * minl) / ((n - i : Nat) : ℝ) := by
          rw [hinc, hn1] at hsw; simp only [Nat.cast_zero] at hsw; linarith
        have hleft' : (2 : ℝ) ^ i * minl + eps ≤ l - ((2 : ℝ) ^ i - 1) * minl := by
          rw [le_div_iff₀ hrem] at hge
          have hp : 0 < (2 : ℝ) ^ i * minl + eps := by positivity
          nlinarith
        have hnext := ih (i + 1) (p + smulV ((2 ^ i : Nat) : ℝ) (smulV (minl / l) u)) inc1 r (by omega) hf ?_ ?_ hr
        · intro s hs
          rcases List.mem_cons.mp hs with rfl | hs
          · rw [hfirst]; positivity
          · exact hnext s hs
        · have hx := congrArg V3.x hpos
          have hy := congrArg V3.y hpos
          have hz := congrArg V3.z hpos
          simp only [smulV_x, smulV_y, smulV_z, sub_x, sub_y, sub_z] at hx hy hz
          apply v3ext <;> simp only [add_x, add_y, add_z, sub_x, sub_y, sub_z, smulV_x, smulV_y, smulV_z, pow_cast, h2] <;>
            field_simp <;> field_simp at hx hy hz <;> linarith
        · rw [h2]; nlinarith


/-- **positive lengths** (tapered end first): every segment of an accepted one-sided taper has positive length -/
theorem C13_taper1_positive (p1 p2 : V3 ℝ) (n : Nat) (r minT : ℝ) (maxT : Option ℝ) (c25 : ℝ)
    (isZero : ℝ → Bool) (segs : List (V3 ℝ × V3 ℝ)) (hl : 0 < V3.norm (p2 - p1))
    (h : taper1 p1 p2 n r minT maxT false c25 isZero = .ok segs) : ∀ s ∈ segs, 0 < len s := by
  unfold taper1 at h
  simp only [Bool.false_eq_true, if_false] at h
  unfold taper1Fwd at h
  simp only at h
  cases hpre : taperPre (V3.norm (p2 - p1)) n r minT maxT c25 with
  | error e => rw [hpre] at h; cases h
  | ok mt =>
    rw [hpre] at h
    have hn : 1 < n := by
      unfold taperPre at hpre
      simp only at hpre
      split at hpre
      · cases hpre
      · omega
    simp only at h
    cases hm : taper1Minl (V3.norm (p2 - p1)) n mt maxT with
    | error e => rw [hm] at h; cases h
    | ok v =>
      rw [hm] at h
      obtain ⟨minl, eps⟩ := v
      simp only at h
      obtain ⟨h1, h2, _, _⟩ := taper1Minl_facts _ n mt maxT minl eps hl (by omega) hm
      exact pos_spec p1 p2 (p2 - p1) minl eps mt _ n rfl hl h1 h2 n 0 p1 (p2 - p1) segs (by omega) (by omega)
        (by apply v3ext <;> simp) (by simpa using hl) h

theorem norm_sub_comm (a b : V3 ℝ) : V3.norm (a - b) = V3.norm (b - a) := by
  unfold V3.norm
  have : V3.normSq (a - b) = V3.normSq (b - a) := by
    unfold V3.normSq V3.dot; simp only [sub_x, sub_y, sub_z]; ring
  rw [this]

/-- the same for a taper of the *second* end (`end = 1`): the segments are those of the taper run from `p2` to `p1`,
reversed and turned round — positive lengths, and read from the tapered end (the last segment) backwards they grow by at
most 2.1 per step -/
theorem C13_taper1_end2 (p1 p2 : V3 ℝ) (n : Nat) (r minT : ℝ) (maxT : Option ℝ) (c25 : ℝ)
    (isZero : ℝ → Bool) (segs : List (V3 ℝ × V3 ℝ)) (hl : 0 < V3.norm (p1 - p2))
    (h : taper1 p1 p2 n r minT maxT true c25 isZero = .ok segs) :
    (∀ s ∈ segs, 0 < len s) ∧
    List.IsChain (fun x y => len y ≤ 2.1 * len x) (segs.reverse.map fun s => (s.2, s.1)) := by
  unfold taper1 at h
  simp only [if_true] at h
  cases h0 : taper1Fwd p2 p1 n r minT maxT c25 isZero with
  | error e => rw [h0] at h; cases h
  | ok segs0 =>
    rw [h0] at h
    simp only at h
    injection h with h
    have hf : taper1 p2 p1 n r minT maxT false c25 isZero = .ok segs0 := by
      unfold taper1
      simp only [Bool.false_eq_true, if_false]
      exact h0
    have hpos := C13_taper1_positive p2 p1 n r minT maxT c25 isZero segs0 hl hf
    have hch := C13_taper1_growth_chain p2 p1 n r minT maxT c25 isZero segs0 hl hf
    subst h
    constructor
    · intro s hs
      obtain ⟨t, ht, rfl⟩ := List.mem_map.mp hs
      have := hpos t (List.mem_reverse.mp ht)
      unfold len at this ⊢
      simp only
      rw [norm_sub_comm]; exact this
    · have : ((segs0.reverse.map fun s => (s.2, s.1)).reverse.map fun s => (s.2, s.1)) = segs0 := by
        rw [← List.map_reverse, List.reverse_reverse, List.map_map]
        conv_rhs => rw [← List.map_id segs0]
        congr 1
      rw [this]; exact hch

end Pmn.Props.C13b
