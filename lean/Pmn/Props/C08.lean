/-
C08 — loads act as the series circuit elements they describe.

Over ℂ (Mathlib), for the model functions of `Pmn.Model.Circuit`.
-/
import Pmn.Proofs.Inst
import Mathlib.LinearAlgebra.Matrix.NonsingularInverse
import Mathlib.LinearAlgebra.Matrix.ToLin
import Mathlib.Tactic.FieldSimp
import Mathlib.Tactic.Ring
import Mathlib.Tactic.LinearCombination

namespace Pmn.Props.C08
open Pmn.Circuit Matrix

variable {n : Type} [Fintype n] [DecidableEq n]

/-- **feed-impedance shift** (any field): if `Z·I = b·e_p` and the matrix with `d` added to the
diagonal entry `(p,p)` gives `I'` for the same right-hand side, then `1/I'_p = 1/I_p + d/b`. -/
theorem feed_shift {K : Type} [Field K] (Z : Matrix n n K) (hZ : IsUnit Z.det) (p : n) (d b : K)
    (I I' : n → K) (hI : Z *ᵥ I = b • Pi.single p 1)
    (hI' : (Z + d • Matrix.single p p (1 : K)) *ᵥ I' = b • Pi.single p 1)
    (hb : b ≠ 0) (hIp : I p ≠ 0) (hIp' : I' p ≠ 0) :
    1 / I' p = 1 / I p + d / b := by
  have h1 : (d • Matrix.single p p (1 : K)) *ᵥ I' = (d * I' p) • Pi.single p 1 := by
    ext i
    simp only [Matrix.smul_mulVec, Pi.smul_apply, smul_eq_mul]
    by_cases hi : i = p
    · subst hi; simp [Matrix.mulVec, dotProduct, Matrix.single_apply, Finset.sum_ite_eq']
    · simp [Matrix.mulVec, dotProduct, Matrix.single_apply, hi, Ne.symm hi, Pi.single_apply]
  have h2 : Z *ᵥ I' = (b - d * I' p) • Pi.single p 1 := by
    have := hI'
    rw [Matrix.add_mulVec, h1] at this
    rw [sub_smul, ← this]; simp
  have h3 : Z *ᵥ (((b - d * I' p) / b) • I) = (b - d * I' p) • Pi.single p 1 := by
    rw [Matrix.mulVec_smul, hI, smul_smul, div_mul_cancel₀ _ hb]
  have hinj := Matrix.mulVec_injective_iff_isUnit.mpr (Matrix.isUnit_iff_isUnit_det Z |>.mpr hZ)
  have h4 : I' = ((b - d * I' p) / b) • I := hinj (h2.trans h3.symm)
  have h5 : I' p = (b - d * I' p) / b * I p := by
    have := congrFun h4 p
    simpa using this
  have h6 : b * I' p = (b - d * I' p) * I p := by
    conv_lhs => rw [h5]
    field_simp
  field_simp
  linear_combination (-1 : K) * h6

/-- the weights of load and excitation on a pulse have the ratio `Z_L / V`, whatever the
wavelength factor `1/m` and whether or not the pulse is grounded (factor 2 on both) -/
theorem weight_ratio (minv zl v : ℂ) (g : Bool) (hm : minv ≠ 0) (hv : v ≠ 0) :
    loadIncr minv g zl / rhsEntry minv g v = zl / v := by
  unfold loadIncr rhsEntry
  have hI : (HasI.I : ℂ) ≠ 0 := Complex.I_ne_zero
  cases g <;> simp <;> field_simp

/-- **a lumped load `Z_L` on the feed pulse raises the feed impedance by exactly `Z_L`** — also on
a grounded pulse: with `Z·I = rhs`, `(Z + loadIncr·E_pp)·I' = rhs`, `rhs = rhsEntry(V)·e_p`:
`V / I'_p = V / I_p + Z_L`. -/
theorem C08_feed_shift (Z : Matrix n n ℂ) (hZ : IsUnit Z.det) (p : n) (minv zl v : ℂ) (g : Bool)
    (I I' : n → ℂ) (hm : minv ≠ 0) (hv : v ≠ 0)
    (hI : Z *ᵥ I = rhsEntry minv g v • Pi.single p 1)
    (hI' : (Z + loadIncr minv g zl • Matrix.single p p (1 : ℂ)) *ᵥ I' = rhsEntry minv g v • Pi.single p 1)
    (hIp : I p ≠ 0) (hIp' : I' p ≠ 0) :
    srcImpedance v (I' p) = srcImpedance v (I p) + zl := by
  have hb : rhsEntry minv g v ≠ 0 := by
    unfold rhsEntry
    have hIne : (HasI.I : ℂ) ≠ 0 := Complex.I_ne_zero
    cases g <;> simp [hm, hv, hIne]
  have := feed_shift Z hZ p _ _ I I' hI hI' hb hIp hIp'
  rw [weight_ratio minv zl v g hm hv] at this
  unfold srcImpedance
  have : v / I' p = v * (1 / I' p) := by ring
  rw [this, ‹1 / I' p = 1 / I p + zl / v›]
  field_simp

/-- the weight is additive in the load impedance … -/
theorem loadIncr_add (minv : ℂ) (g : Bool) (z1 z2 : ℂ) :
    loadIncr minv g (z1 + z2) = loadIncr minv g z1 + loadIncr minv g z2 := by
  unfold loadIncr; ring

theorem foldl_add_eq_sum (l : List ℂ) (a : ℂ) : l.foldl (· + ·) a = a + l.sum := by
  induction l generalizing a with
  | nil => simp
  | cons x r ih => simp [ih, add_assoc]

/-- … so **several loads on one pulse act as their sum**: the diagonal increment of a pulse is the
weight of the sum of the impedances attached to it -/
theorem C08_sum (minv : ℂ) (g : Nat → Bool) (att : List (Nat × ℂ)) (p : Nat) :
    loadDiagAt minv g att p
      = loadIncr minv (g p) ((att.filter (fun a => a.1 == p)).map (·.2)).sum := by
  unfold loadDiagAt
  rw [foldl_add_eq_sum]
  simp only [Nat.cast_zero, zero_add]
  induction att.filter (fun a => a.1 == p) with
  | nil => simp [loadIncr]
  | cons a r ih => simp [List.sum_cons, loadIncr_add, ih]

/-- a zero load changes nothing -/
theorem C08_zero_load (minv : ℂ) (g : Bool) : loadIncr minv g 0 = 0 := by
  unfold loadIncr; simp

theorem truthy_getD (x : ℂ) :
    (if truthy (fun x => decide (x = 0)) (some x) then (some x).getD ((0 : Nat) : ℂ) else ((0 : Nat) : ℂ)) = x := by
  unfold truthy
  by_cases h : x = 0 <;> simp [h]

/-- **series RLC** with a capacitor: `R + jωL + 1/(jωC)` at every frequency -/
theorem C08_rlc (R L Cp w : ℂ) (hC : Cp ≠ 0) (hw : w ≠ 0) :
    laplace (rlcCoeffs (fun x => decide (x = 0)) (some R) (some L) (some Cp)).1
            (rlcCoeffs (fun x => decide (x = 0)) (some R) (some L) (some Cp)).2 w
      = R + (Complex.I * w) * L + 1 / ((Complex.I * w) * Cp) := by
  have hs : Complex.I * w ≠ 0 := mul_ne_zero Complex.I_ne_zero hw
  unfold rlcCoeffs
  simp only [truthy_getD]
  simp only [hC, decide_false, Bool.false_eq_true, if_false, laplace, pad, HasI.I]
  generalize Complex.I * w = s at *
  simp [laplaceLoop]
  field_simp
  ring

/-- series RL (no capacitor given): `R + jωL` -/
theorem C08_rl (R L w : ℂ) :
    laplace (rlcCoeffs (fun x => decide (x = 0)) (some R) (some L) none).1
            (rlcCoeffs (fun x => decide (x = 0)) (some R) (some L) none).2 w
      = R + (Complex.I * w) * L := by
  unfold rlcCoeffs
  simp only [truthy_getD]
  simp only [laplace, pad, HasI.I]
  generalize Complex.I * w = s at *
  simp [laplaceLoop]
  ring

/-- **trap**: `(R + jωL)` in parallel with `C`: `1 / (1/(R + jωL) + jωC)` -/
theorem C08_trap (R L Cp w : ℂ) (h1 : R + Complex.I * w * L ≠ 0)
    (h2 : 1 + R * Cp * (Complex.I * w) + L * Cp * (Complex.I * w) ^ 2 ≠ 0) :
    laplace (trapCoeffs R L Cp).1 (trapCoeffs R L Cp).2 w
      = 1 / (1 / (R + Complex.I * w * L) + Complex.I * w * Cp) := by
  have hden : 1 / (R + Complex.I * w * L) + Complex.I * w * Cp
      = (1 + R * Cp * (Complex.I * w) + L * Cp * (Complex.I * w) ^ 2) / (R + Complex.I * w * L) := by
    field_simp; ring
  rw [hden, one_div, inv_div]
  have key : ∀ u d u' d' : ℂ, u = u' → d = d' → u / d = u' / d' := by
    intro u d u' d' h h'; rw [h, h']
  simp [trapCoeffs, laplace, pad, laplaceLoop, HasI.I]
  apply key <;> ring

/-- conductivity `s` and resistivity `1/s` are interchangeable (`self.conductivity = 1 / self.resistivity`) -/
theorem C08_sigma_rho (s : ℝ) (hs : s ≠ 0) : 1 / (1 / s) = s := by field_simp

/-- insulation with relative permittivity 1 adds nothing … -/
theorem C08_insulation_neutral (mu0 twopi a b : ℝ) (ln : ℝ → ℝ) :
    insulZins mu0 twopi ln a b 1 = 0 := by
  unfold insulZins; simp

/-- … and leaves the radius unchanged: `b·(a/b)^(1/1) = a` -/
theorem C08_equiv_radius_neutral (a b : ℝ) (ha : 0 < a) (hb : 0 < b) :
    equivRadius Real.rpow a b 1 = a := by
  unfold equivRadius
  simp only [Nat.cast_one, div_one]
  show b * ((a / b) ^ (1 : ℝ)) = a
  rw [Real.rpow_one]
  field_simp

/-- skin effect: the internal impedance per length is `k/(2π r σ)·B` with `|B|` bounded; for the
asymptotic branch (`B = j`) its modulus is `sqrt(ω μ0 / σ) / (2π r)`, which tends to 0 as σ → ∞.
Stated as the closed form of the squared modulus: `|z|² = ω μ0 / (σ (2π r)²)`. -/
theorem C08_skin_asymptotic (omg mu0 sigma r twopi : ℝ) (hs : 0 < sigma) (hr : 0 < r) (ht : 0 < twopi)
    (ho : 0 ≤ omg) (hm : 0 ≤ mu0) (sqrtC : ℂ → ℂ) (hsq : ∀ z, sqrtC z * sqrtC z = z) :
    Complex.normSq (skinZint sqrtC (fun _ => 0) (fun _ => false)
        (omg : ℂ) (mu0 : ℂ) (sigma : ℂ) (r : ℂ) (twopi : ℂ))
      = omg * mu0 / (sigma * (twopi * r) ^ 2) := by
  unfold skinZint
  simp only [Bool.false_eq_true, if_false]
  rw [map_mul, map_div₀, Complex.normSq_apply (HasI.I : ℂ)]
  have hk : Complex.normSq (sqrtC (-HasI.I * ↑omg * ↑mu0 * ↑sigma)) = omg * mu0 * sigma := by
    have h := hsq (-HasI.I * ↑omg * ↑mu0 * ↑sigma)
    have h2 : Complex.normSq (sqrtC (-HasI.I * ↑omg * ↑mu0 * ↑sigma)) ^ 2
        = (omg * mu0 * sigma) ^ 2 := by
      rw [sq, ← map_mul, h]
      simp [HasI.I, Complex.normSq_apply]
      ring
    have hnn : 0 ≤ Complex.normSq (sqrtC (-HasI.I * ↑omg * ↑mu0 * ↑sigma)) := Complex.normSq_nonneg _
    have hnn2 : 0 ≤ omg * mu0 * sigma := by positivity
    exact (sq_eq_sq₀ hnn hnn2).mp h2 |> fun h => by nlinarith [h]
  rw [hk]
  simp [HasI.I, Complex.normSq_apply]
  field_simp

/-! non-vacuity -/
example : (1 : ℂ) ≠ 0 ∧ (2 : ℂ) ≠ 0 := ⟨one_ne_zero, two_ne_zero⟩

/-! ### Laplace loads are the rational function of their coefficients -/

/-- the loop of `Laplace_Load.impedance` accumulates `Σ_j b_j·m·s^j` and `Σ_j a_j·m·s^j` -/
theorem laplaceLoop_sum (s : ℂ) (l : List (ℂ × ℂ)) (m u d : ℂ) :
    laplaceLoop s l m u d
      = (u + m * ((List.range l.length).map (fun j => (l.getD j (0, 0)).2 * s ^ j)).sum,
         d + m * ((List.range l.length).map (fun j => (l.getD j (0, 0)).1 * s ^ j)).sum) := by
  induction l generalizing m u d with
  | nil => simp [laplaceLoop]
  | cons x r ih =>
    simp only [laplaceLoop, ih, List.length_cons, List.range_succ_eq_map, List.map_cons, List.sum_cons,
      List.map_map, List.getD_cons_zero, pow_zero, mul_one]
    have h1 : ∀ f : ℂ × ℂ → ℂ, (List.map ((fun j => f ((x :: r).getD j (0, 0)) * s ^ j) ∘ Nat.succ) (List.range r.length)).sum
        = s * (List.map (fun j => f (r.getD j (0, 0)) * s ^ j) (List.range r.length)).sum := by
      intro f
      rw [← List.sum_map_mul_left]
      congr 1
      apply List.map_congr_left
      intro j _
      simp only [Function.comp, List.getD_cons_succ, pow_succ]
      ring
    rw [h1 (fun y => y.2), h1 (fun y => y.1)]
    refine Prod.ext ?_ ?_ <;> simp only <;> ring

/-- **a Laplace load is the ratio of its two polynomials in `s = jω`** (coefficient lists of any length, zero-padded
to a common length as `Laplace_Load.__init__` does) -/
theorem C08_laplace_is_ratio (a b : List ℂ) (w : ℂ) :
    laplace a b w =
      ((List.range (max a.length b.length)).map (fun j => b.getD j 0 * (Complex.I * w) ^ j)).sum /
      ((List.range (max a.length b.length)).map (fun j => a.getD j 0 * (Complex.I * w) ^ j)).sum := by
  have hpad : ∀ (l : List ℂ) (n j : Nat), l.length ≤ n → (pad l n).getD j 0 = l.getD j 0 := by
    intro l n j _
    unfold pad
    simp only [List.getD_eq_getElem?_getD, List.getElem?_append, Nat.cast_zero]
    by_cases hj : j < l.length
    · simp [hj]
    · have hj' : l.length ≤ j := Nat.le_of_not_lt hj
      simp only [hj, if_false, List.getElem?_replicate]
      rw [List.getElem?_eq_none_iff.mpr hj']
      split <;> rfl
  unfold laplace
  simp only [laplaceLoop_sum, HasI.I, Nat.cast_zero, Nat.cast_one, zero_add, one_mul]
  have hlen : ((pad a (max a.length b.length)).zip (pad b (max a.length b.length))).length = max a.length b.length := by
    simp [pad, List.length_zip]
  rw [hlen]
  congr 1 <;>
  · congr 1
    apply List.map_congr_left
    intro j hj
    have hj' : j < max a.length b.length := by simpa using hj
    congr 1
    have hz : ((pad a (max a.length b.length)).zip (pad b (max a.length b.length))).getD j (0, 0)
        = ((pad a (max a.length b.length)).getD j 0, (pad b (max a.length b.length)).getD j 0) := by
      have ha : j < (pad a (max a.length b.length)).length := by simp [pad]; omega
      have hb : j < (pad b (max a.length b.length)).length := by simp [pad]; omega
      simp [List.getD_eq_getElem?_getD, List.getElem?_zip_eq_some, ha, hb, List.getElem?_eq_getElem]
    rw [hz]
    first
      | exact hpad b _ j (le_max_right _ _)
      | exact hpad a _ j (le_max_left _ _)

/-! ### distributed loads -/

/-- **a distributed load adds to each pulse the per-length impedance times the conductor length the pulse
represents**: the sum over the halves of length × per-length value … -/
theorem C08_distributed_sum (halves : List (Option ℂ × ℂ)) :
    distImpedance halves = (halves.map distTerm).sum := by
  unfold distImpedance
  have : ∀ (x : ℂ), halves.foldl (fun x h => x + distTerm h) x = x + (halves.map distTerm).sum := by
    induction halves with
    | nil => intro x; simp
    | cons h r ih =>
      intro x
      simp only [List.foldl_cons, List.map_cons, List.sum_cons, ih]
      ring
  have h0 := this 0
  simp only [zero_add] at h0
  simpa using h0

/-- … for a pulse inside one wire (both halves on the same wire): per-length impedance × (l₁ + l₂); a half whose
wire carries no load contributes nothing -/
theorem C08_distributed (z l1 l2 : ℂ) :
    distImpedance [(some z, l1), (some z, l2)] = (l1 + l2) * z ∧
    distImpedance [(some z, l1), (none, l2)] = l1 * z ∧
    distImpedance [(none, l1), (none, l2)] = (0 : ℂ) := by
  refine ⟨?_, ?_, ?_⟩ <;> simp [distImpedance, distTerm] <;> ring

/-- **every pulse is charged its distributed load exactly once**: a pulse one of whose halves lies on a loaded object is
listed by exactly one per-object load (whose `impedance` then sums over both halves, `C08_distributed_sum`), a pulse
without a loaded half by none — for every assignment of loads to objects, interior and junction pulses alike -/
theorem C08_distributed_once (owner g0 g1 : Nat) (loaded : Nat → Bool) (ho : owner = g0 ∨ owner = g1) :
    (distLoadsOf owner g0 g1 loaded).length = if loaded g0 || loaded g1 then 1 else 0 := by
  unfold distLoadsOf
  rcases ho with rfl | rfl
  · by_cases h01 : owner = g1
    · subst h01; cases loaded owner <;> simp
    · cases h0 : loaded owner <;> cases h1 : loaded g1 <;> simp [h01]
  · by_cases h01 : g0 = owner
    · subst h01; cases loaded g0 <;> simp
    · cases h0 : loaded g0 <;> cases h1 : loaded owner <;> simp [h01, Ne.symm h01]

/-- the load that lists the pulse is one whose object carries a half of it -/
theorem C08_distributed_whose (owner g0 g1 : Nat) (loaded : Nat → Bool) (ho : owner = g0 ∨ owner = g1) :
    ∀ w ∈ distLoadsOf owner g0 g1 loaded, (w = g0 ∨ w = g1) ∧ loaded w = true := by
  intro w hw
  unfold distLoadsOf at hw
  rcases ho with rfl | rfl
  · by_cases h01 : owner = g1
    · subst h01; cases h0 : loaded owner <;> simp_all
    · cases h0 : loaded owner <;> cases h1 : loaded g1 <;> simp_all
  · by_cases h01 : g0 = owner
    · subst h01; cases h0 : loaded g0 <;> simp_all
    · cases h0 : loaded g0 <;> cases h1 : loaded owner <;> simp_all

end Pmn.Props.C08
