/-
C08 — loads act as the series circuit elements they describe.

Over ℂ (Mathlib), for the model functions of `Pmn.Model.Circuit`.
-/
import Pmn.Proofs.Inst
import Mathlib.LinearAlgebra.Matrix.NonsingularInverse
import Mathlib.LinearAlgebra.Matrix.ToLin
import Mathlib.Tactic.FieldSimp
import Mathlib.Tactic.Ring
import Mathlib.Tactic.LinearCombination

namespace Pmn.Props.C08
open Pmn.Circuit Matrix

variable {n : Type} [Fintype n] [DecidableEq n]

/-- **feed-impedance shift** (any field): if `Z·I = b·e_p` and the matrix with `d` added to the
diagonal entry `(p,p)` gives `I'` for the same right-hand side, then `1/I'_p = 1/I_p + d/b`. -/
theorem feed_shift {K : Type} [Field K] (Z : Matrix n n K) (hZ : IsUnit Z.det) (p : n) (d b : K)
    (I I' : n → K) (hI : Z *ᵥ I = b • Pi.single p 1)
    (hI' : (Z + d • Matrix.single p p (1 : K)) *ᵥ I' = b • Pi.single p 1)
    (hb : b ≠ 0) (hIp : I p ≠ 0) (hIp' : I' p ≠ 0) :
    1 / I' p = 1 / I p + d / b := by
  have h1 : (d • Matrix.single p p (1 : K)) *ᵥ I' = (d * I' p) • Pi.single p 1 := by
    ext i
    simp only [Matrix.smul_mulVec, Pi.smul_apply, smul_eq_mul]
    by_cases hi : i = p
    · subst hi; simp [Matrix.mulVec, dotProduct, Matrix.single_apply, Finset.sum_ite_eq']
    · simp [Matrix.mulVec, dotProduct, Matrix.single_apply, hi, Ne.symm hi, Pi.single_apply]
  have h2 : Z *ᵥ I' = (b - d * I' p) • Pi.single p 1 := by
    have := hI'
    rw [Matrix.add_mulVec, h1] at this
    rw [sub_smul, ← this]; simp
  have h3 : Z *ᵥ (((b - d * I' p) / b) • I) = (b - d * I' p) • Pi.single p 1 := by
    rw [Matrix.mulVec_smul, hI, smul_smul, div_mul_cancel₀ _ hb]
  have hinj := Matrix.mulVec_injective_iff_isUnit.mpr (Matrix.isUnit_iff_isUnit_det Z |>.mpr hZ)
  have h4 : I' = ((b - d * I' p) / b) • I := hinj (h2.trans h3.symm)
  have h5 : I' p = (b - d * I' p) / b * I p := by
    have := congrFun h4 p
    simpa using this
  have h6 : b * I' p = (b - d * I' p) * I p := by
    conv_lhs => rw [h5]
    field_simp
  field_simp
  linear_combination (-1 : K) * h6

/-- the weights of load and excitation on a pulse have the ratio `Z_L / V`, whatever the
wavelength factor `1/m` and whether or not the pulse is grounded (factor 2 on both) -/
theorem weight_ratio (minv zl v : ℂ) (g : Bool) (hm : minv ≠ 0) (hv : v ≠ 0) :
    loadIncr minv g zl / rhsEntry minv g v = zl / v := by
  unfold loadIncr rhsEntry
  have hI : (HasI.I : ℂ) ≠ 0 := Complex.I_ne_zero
  cases g <;> simp <;> field_simp

/-- **a lumped load `Z_L` on the feed pulse raises the feed impedance by exactly `Z_L`** — also on
a grounded pulse: with `Z·I = rhs`, `(Z + loadIncr·E_pp)·I' = rhs`, `rhs = rhsEntry(V)·e_p`:
`V / I'_p = V / I_p + Z_L`. -/
theorem C08_feed_shift (Z : Matrix n n ℂ) (hZ : IsUnit Z.det) (p : n) (minv zl v : ℂ) (g : Bool)
    (I I' : n → ℂ) (hm : minv ≠ 0) (hv : v ≠ 0)
    (hI : Z *ᵥ I = rhsEntry minv g v • Pi.single p 1)
    (hI' : (Z + loadIncr minv g zl • Matrix.single p p (1 : ℂ)) *ᵥ I' = rhsEntry minv g v • Pi.single p 1)
    (hIp : I p ≠ 0) (hIp' : I' p ≠ 0) :
    srcImpedance v (I' p) = srcImpedance v (I p) + zl := by
  have hb : rhsEntry minv g v ≠ 0 := by
    unfold rhsEntry
    have hIne : (HasI.I : ℂ) ≠ 0 := Complex.I_ne_zero
    cases g <;> simp [hm, hv, hIne]
  have := feed_shift Z hZ p _ _ I I' hI hI' hb hIp hIp'
  rw [weight_ratio minv zl v g hm hv] at this
  unfold srcImpedance
  have : v / I' p = v * (1 / I' p) := by ring
  rw [this, ‹1 / I' p = 1 / I p + zl / v›]
  field_simp

/-- the weight is additive in the load impedance … -/
theorem loadIncr_add (minv : ℂ) (g : Bool) (z1 z2 : ℂ) :
    loadIncr minv g (z1 + z2) = loadIncr minv g z1 + loadIncr minv g z2 := by
  unfold loadIncr; ring

theorem foldl_add_eq_sum (l : List ℂ) (a : ℂ) : l.foldl (· + ·) a = a + l.sum := by
  induction l generalizing a with
  | nil => simp
  | cons x r ih => simp [ih, add_assoc]

/-- … so **several loads on one pulse act as their sum**: the diagonal increment of a pulse is the
weight of the sum of the impedances attached to it -/
theorem C08_sum (minv : ℂ) (g : Nat → Bool) (att : List (Nat × ℂ)) (p : Nat) :
    loadDiagAt minv g att p
      = loadIncr minv (g p) ((att.filter (fun a => a.1 == p)).map (·.2)).sum := by
  unfold loadDiagAt
  rw [foldl_add_eq_sum]
  simp only [Nat.cast_zero, zero_add]
  induction att.filter (fun a => a.1 == p) with
  | nil => simp [loadIncr]
  | cons a r ih => simp [List.sum_cons, loadIncr_add, ih]

/-- a zero load changes nothing -/
theorem C08_zero_load (minv : ℂ) (g : Bool) : loadIncr minv g 0 = 0 := by
  unfold loadIncr; simp

theorem truthy_getD (x : ℂ) :
    (if truthy (fun x => decide (x = 0)) (some x) then (some x).getD ((0 : Nat) : ℂ) else ((0 : Nat) : ℂ)) = x := by
  unfold truthy
  by_cases h : x = 0 <;> simp [h]

/-- **series RLC** with a capacitor: `R + jωL + 1/(jωC)` at every frequency -/
theorem C08_rlc (R L Cp w : ℂ) (hC : Cp ≠ 0) (hw : w ≠ 0) :
    laplace (rlcCoeffs (fun x => decide (x = 0)) (some R) (some L) (some Cp)).1
            (rlcCoeffs (fun x => decide (x = 0)) (some R) (some L) (some Cp)).2 w
      = R + (Complex.I * w) * L + 1 / ((Complex.I * w) * Cp) := by
  have hs : Complex.I * w ≠ 0 := mul_ne_zero Complex.I_ne_zero hw
  unfold rlcCoeffs
  simp only [truthy_getD]
  simp only [hC, decide_false, Bool.false_eq_true, if_false, laplace, pad, HasI.I]
  generalize Complex.I * w = s at *
  simp [laplaceLoop]
  field_simp
  ring

/-- series RL (no capacitor given): `R + jωL` -/
theorem C08_rl (R L w : ℂ) :
    laplace (rlcCoeffs (fun x => decide (x = 0)) (some R) (some L) none).1
            (rlcCoeffs (fun x => decide (x = 0)) (some R) (some L) none).2 w
      = R + (Complex.I * w) * L := by
  unfold rlcCoeffs
  simp only [truthy_getD]
  simp only [laplace, pad, HasI.I]
  generalize Complex.I * w = s at *
  simp [laplaceLoop]
  ring

/-- **trap**: `(R + jωL)` in parallel with `C`: `1 / (1/(R + jωL) + jωC)` -/
theorem C08_trap (R L Cp w : ℂ) (h1 : R + Complex.I * w * L ≠ 0)
    (h2 : 1 + R * Cp * (Complex.I * w) + L * Cp * (Complex.I * w) ^ 2 ≠ 0) :
    laplace (trapCoeffs R L Cp).1 (trapCoeffs R L Cp).2 w
      = 1 / (1 / (R + Complex.I * w * L) + Complex.I * w * Cp) := by
  have hden : 1 / (R + Complex.I * w * L) + Complex.I * w * Cp
      = (1 + R * Cp * (Complex.I * w) + L * Cp * (Complex.I * w) ^ 2) / (R + Complex.I * w * L) := by
    field_simp; ring
  rw [hden, one_div, inv_div]
  have key : ∀ u d u' d' : ℂ, u = u' → d = d' → u / d = u' / d' := by
    intro u d u' d' h h'; rw [h, h']
  simp [trapCoeffs, laplace, pad, laplaceLoop, HasI.I]
  apply key <;> ring

/-- conductivity `s` and resistivity `1/s` are interchangeable (`self.conductivity = 1 / self.resistivity`) -/
theorem C08_sigma_rho (s : ℝ) (hs : s ≠ 0) : 1 / (1 / s) = s := by field_simp

/-- insulation with relative permittivity 1 adds nothing … -/
theorem C08_insulation_neutral (mu0 twopi a b : ℝ) (ln : ℝ → ℝ) :
    insulZins mu0 twopi ln a b 1 = 0 := by
  unfold insulZins; simp

/-- … and leaves the radius unchanged: `b·(a/b)^(1/1) = a` -/
theorem C08_equiv_radius_neutral (a b : ℝ) (ha : 0 < a) (hb : 0 < b) :
    equivRadius Real.rpow a b 1 = a := by
  unfold equivRadius
  simp only [Nat.cast_one, div_one]
  show b * ((a / b) ^ (1 : ℝ)) = a
  rw [Real.rpow_one]
  field_simp

/-- skin effect: the internal impedance per length is `k/(2π r σ)·B` with `|B|` bounded; for the
asymptotic branch (`B = j`) its modulus is `sqrt(ω μ0 / σ) / (2π r)`, which tends to 0 as σ → ∞.
Stated as the closed form of the squared modulus: `|z|² = ω μ0 / (σ (2π r)²)`. -/
theorem C08_skin_asymptotic (omg mu0 sigma r twopi : ℝ) (hs : 0 < sigma) (hr : 0 < r) (ht : 0 < twopi)
    (ho : 0 ≤ omg) (hm : 0 ≤ mu0) (sqrtC : ℂ → ℂ) (hsq : ∀ z, sqrtC z * sqrtC z = z) :
    Complex.normSq (skinZint sqrtC (fun _ => 0) (fun _ => false)
        (omg : ℂ) (mu0 : ℂ) (sigma : ℂ) (r : ℂ) (twopi : ℂ))
      = omg * mu0 / (sigma * (twopi * r) ^ 2) := by
  unfold skinZint
  simp only [Bool.false_eq_true, if_false]
  rw [map_mul, map_div₀, Complex.normSq_apply (HasI.I : ℂ)]
  have hk : Complex.normSq (sqrtC (-HasI.I * ↑omg * ↑mu0 * ↑sigma)) = omg * mu0 * sigma := by
    have h := hsq (-HasI.I * ↑omg * ↑mu0 * ↑sigma)
    have h2 : Complex.normSq (sqrtC (-HasI.I * ↑omg * ↑mu0 * ↑sigma)) ^ 2
        = (omg * mu0 * sigma) ^ 2 := by
      rw [sq, ← map_mul, h]
      simp [HasI.I, Complex.normSq_apply]
      ring
    have hnn : 0 ≤ Complex.normSq (sqrtC (-HasI.I * ↑omg * ↑mu0 * ↑sigma)) := Complex.normSq_nonneg _
    have hnn2 : 0 ≤ omg * mu0 * sigma := by positivity
    exact (sq_eq_sq₀ hnn hnn2).mp h2 |> fun h => by nlinarith [h]
  rw [hk]
  simp [HasI.I, Complex.normSq_apply]
  field_simp

/-! non-vacuity -/
example : (1 : ℂ) ≠ 0 ∧ (2 : ℂ) ≠ 0 := ⟨one_ne_zero, two_ne_zero⟩

end Pmn.Props.C08
