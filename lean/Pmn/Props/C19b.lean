/-
C19 (continued) — "magnitude and phase columns agree with the real and imaginary columns".

Over ℂ: the printed real and imaginary parts are within a relative `ε` of the parts of the value, the printed
magnitude within a relative `δ` of its modulus (`C19_ge1`, `C19_frac`, `C19_sci`: 5e-7, or 5e-6 for a field in 0.1…1).
Then the printed magnitude agrees with the modulus of the printed parts within `(δ + ε)·|z|`, and the complex number
the printed parts denote is within `ε·|z|` of the value — so the direction (phase) it defines differs from the
phase of the value by at most `arcsin ε`.
-/
import Mathlib.Analysis.Complex.Basic
import Mathlib.Analysis.SpecialFunctions.Sqrt

namespace Pmn.Props.C19b

/-- component-wise relative accuracy gives relative accuracy of the complex number -/
theorem parts_close (z z' : ℂ) (ε : ℝ) (hε : 0 ≤ ε)
    (hre : |z'.re - z.re| ≤ ε * |z.re|) (him : |z'.im - z.im| ≤ ε * |z.im|) :
    ‖z' - z‖ ≤ ε * ‖z‖ := by
  have h1 : (z'.re - z.re) ^ 2 ≤ (ε * |z.re|) ^ 2 := by
    rw [← sq_abs (z'.re - z.re)]
    exact pow_le_pow_left₀ (abs_nonneg _) hre 2
  have h2 : (z'.im - z.im) ^ 2 ≤ (ε * |z.im|) ^ 2 := by
    rw [← sq_abs (z'.im - z.im)]
    exact pow_le_pow_left₀ (abs_nonneg _) him 2
  have hn : ‖z' - z‖ ^ 2 ≤ (ε * ‖z‖) ^ 2 := by
    rw [Complex.sq_norm, Complex.normSq_apply, mul_pow, Complex.sq_norm, Complex.normSq_apply]
    simp only [Complex.sub_re, Complex.sub_im]
    have e1 : (ε * |z.re|) ^ 2 = ε ^ 2 * (z.re * z.re) := by rw [mul_pow, sq_abs]; ring
    have e2 : (ε * |z.im|) ^ 2 = ε ^ 2 * (z.im * z.im) := by rw [mul_pow, sq_abs]; ring
    nlinarith [h1, h2, e1, e2]
  exact (sq_le_sq₀ (norm_nonneg _) (mul_nonneg hε (norm_nonneg z))).mp hn

/-- **magnitude column vs real and imaginary columns**: `| m' − |re' + j im'| | ≤ (δ + ε)·|z|` -/
theorem C19_polar (z z' : ℂ) (m' ε δ : ℝ) (hε : 0 ≤ ε)
    (hre : |z'.re - z.re| ≤ ε * |z.re|) (him : |z'.im - z.im| ≤ ε * |z.im|)
    (hm : |m' - ‖z‖| ≤ δ * ‖z‖) :
    |m' - ‖z'‖| ≤ (δ + ε) * ‖z‖ := by
  have hp := parts_close z z' ε hε hre him
  have ht : |‖z'‖ - ‖z‖| ≤ ‖z' - z‖ := abs_norm_sub_norm_le z' z
  calc |m' - ‖z'‖| = |(m' - ‖z‖) - (‖z'‖ - ‖z‖)| := by ring_nf
    _ ≤ |m' - ‖z‖| + |‖z'‖ - ‖z‖| := abs_sub _ _
    _ ≤ δ * ‖z‖ + ε * ‖z‖ := add_le_add hm (ht.trans hp)
    _ = (δ + ε) * ‖z‖ := by ring

/-- with the bounds of the printed fields (seven digits: 5e-7; six digits for a field in 0.1…1: 5e-6) the
magnitude column agrees with the modulus of the printed parts to 1.0e-5 of the modulus in every case -/
theorem C19_polar_digits (z z' : ℂ) (m' ε δ : ℝ) (hε : 0 ≤ ε) (hε' : ε ≤ 5e-6) (hδ : δ ≤ 5e-6)
    (hre : |z'.re - z.re| ≤ ε * |z.re|) (him : |z'.im - z.im| ≤ ε * |z.im|)
    (hm : |m' - ‖z‖| ≤ δ * ‖z‖) :
    |m' - ‖z'‖| ≤ 1e-5 * ‖z‖ := by
  have h := C19_polar z z' m' ε δ hε hre him hm
  have : (δ + ε) * ‖z‖ ≤ 1e-5 * ‖z‖ := by
    apply mul_le_mul_of_nonneg_right _ (norm_nonneg z)
    norm_num at hε' hδ ⊢
    linarith
  exact h.trans this

/-! non-vacuity: 3 + 4j printed as 3.0000001 + 4j with magnitude 5.000001 -/
example : ∃ z z' : ℂ, ∃ m' : ℝ, |z'.re - z.re| ≤ 5e-7 * |z.re| ∧ |z'.im - z.im| ≤ 5e-7 * |z.im| ∧ z ≠ 0 := by
  refine ⟨⟨3, 4⟩, ⟨3.0000001, 4⟩, 5.000001, ?_, ?_, ?_⟩
  · norm_num [abs_of_nonneg]
  · norm_num
  · intro h; have := congrArg Complex.re h; simp at this

end Pmn.Props.C19b
