/-
C05 (second file) — electromagnetic scaling: an antenna scaled by `s > 0` in every dimension
(positions, segment lengths, radii) at wavelength `s·λ` (frequency `f/s`) has the impedance matrix
`Z / s` and the right-hand side `rhs / s`, hence the same currents and feed impedances.

* `psi_scale`      : the implemented potential integral is dimensionless — invariant under the scaling
                     (Gauss order, exact-kernel and small-radius decisions included);
* `C05_scale_entry`: every entry of the implemented fill (with its shortcuts) is divided by `s`;
* `C05_scale`      : and so is every entry of the matrix over ground or in free space;
* `C05_scale_currents` : `Z' = Z / s`, `rhs' = rhs / s` ⇒ the same solution.
-/
import Pmn.Props.C05
import Pmn.Proofs.FarLemmas

namespace Pmn.Props.C05b
open Pmn.Fill Pmn.Geom Pmn.Far Pmn.FarLemmas Pmn.Props.C05

/-- the scaled half: lengths and radius times `s`, the wire constant of the exact kernel (a reciprocal
length) divided by `s`, directions and signs unchanged -/
noncomputable def scaleSide (s : ℝ) (x : Side ℝ) : Side ℝ :=
  { x with len := s * x.len, r := s * x.r, i6 := x.i6 / s, fend := vsmul s x.fend }

noncomputable def scalePulse (s : ℝ) (p : PulseD ℝ) : PulseD ℝ :=
  { p with pt := vsmul s p.pt, s0 := scaleSide s p.s0, s1 := scaleSide s p.s1 }

/-- the same physics at wavelength `s·λ` -/
noncomputable def scaleCtx (s : ℝ) (c : Ctx ℝ) : Ctx ℝ :=
  { c with w := c.w / s, w2 := c.w2 / (s * s), srm := s * c.srm }

theorem side_scale (s : ℝ) (p : PulseD ℝ) (pos : Bool) : side (scalePulse s p) pos = scaleSide s (side p pos) := by
  cases pos <;> rfl

theorem norm_vsmul (s : ℝ) (hs : 0 ≤ s) (v : V3 ℝ) : V3.norm (vsmul s v) = s * V3.norm v := by
  unfold V3.norm V3.normSq V3.dot vsmul
  show Real.sqrt _ = s * Real.sqrt _
  have : s * v.x * (s * v.x) + s * v.y * (s * v.y) + s * v.z * (s * v.z)
      = s ^ 2 * (v.x * v.x + v.y * v.y + v.z * v.z) := by ring
  rw [this, Real.sqrt_mul (sq_nonneg s), Real.sqrt_sq hs]

theorem vsmul_lin (s t : ℝ) (a b : V3 ℝ) :
    vadd (vsmul s a) (vsmul t (vsub (vsmul s b) (vsmul s a))) = vsmul s (vadd a (vsmul t (vsub b a))) := by
  simp only [vadd, vsmul, vsub, V3.mk.injEq]
  refine ⟨?_, ?_, ?_⟩ <;> ring

/-- the integrand is a reciprocal length: scaled by `1/s` -/
theorem integrand_scale (c : Ctx ℝ) (s : ℝ) (hs : 0 < s) (t : ℝ) (u v : V3 ℝ) (kneg : Bool) (r : ℝ) (e : Bool) :
    integrand (scaleCtx s c) t (vsmul s u) (vsmul s v) kneg (s * r) e
      = Cx.scale (1 / s) (integrand c t u v kneg r e) := by
  have hs0 : s ≠ 0 := hs.ne'
  unfold integrand
  have hv : ∀ a b : V3 ℝ, V3.norm (vadd (vsmul s a) (vsmul t (vsub (vsmul s b) (vsmul s a))))
      = s * V3.norm (vadd a (vsmul t (vsub b a))) := by
    intro a b; rw [vsmul_lin, norm_vsmul s hs.le]
  have hthick : decide ((scaleCtx s c).srm < s * r) = decide (c.srm < r) := by
    have hiff : s * c.srm < s * r ↔ c.srm < r :=
      ⟨fun h => lt_of_mul_lt_mul_left h hs.le, fun h => mul_lt_mul_of_pos_left h hs⟩
    simp only [scaleCtx, hiff]
  simp only [hthick]
  cases kneg <;> simp only [Bool.false_eq_true, if_false, if_true, hv] <;>
  · set d : ℝ := V3.norm (_ : V3 ℝ) with hd
    have hsq : Real.sqrt (s * r * (s * r) + s * d * (s * d)) = s * Real.sqrt (r * r + d * d) := by
      have : s * r * (s * r) + s * d * (s * d) = s ^ 2 * (r * r + d * d) := by ring
      rw [this, Real.sqrt_mul (sq_nonneg s), Real.sqrt_sq hs.le]
    have hbb : s * d * (s * d) / (s * d * (s * d) + ((4 : Nat) : ℝ) * (s * r * (s * r)))
        = d * d / (d * d + ((4 : Nat) : ℝ) * (r * r)) := by
      have : s * d * (s * d) + ((4 : Nat) : ℝ) * (s * r * (s * r)) = (s * s) * (d * d + ((4 : Nat) : ℝ) * (r * r)) := by ring
      rw [this, show s * d * (s * d) = (s * s) * (d * d) by ring, mul_div_mul_left _ _ (mul_ne_zero hs0 hs0)]
    have hlog : s * d * (s * d) / (((64 : Nat) : ℝ) * (s * r * (s * r))) = d * d / (((64 : Nat) : ℝ) * (r * r)) := by
      rw [show s * d * (s * d) = (s * s) * (d * d) by ring,
        show ((64 : Nat) : ℝ) * (s * r * (s * r)) = (s * s) * (((64 : Nat) : ℝ) * (r * r)) by ring,
        mul_div_mul_left _ _ (mul_ne_zero hs0 hs0)]
    simp only [HasSqrt.sqrt, hsq, hbb, hlog, scaleCtx, Cx.scale, cis]
    split <;> split <;> simp only [Cx.mk.injEq] <;>
      (constructor <;> (try rw [show -(s * Real.sqrt (r * r + d * d) * (c.w / s)) = -(Real.sqrt (r * r + d * d) * c.w) by field_simp]) <;>
        (try rw [show -(s * d * (c.w / s)) = -(d * c.w) by field_simp]) <;> field_simp <;> (try simp))

theorem foldl_scale (L : List (ℝ × ℝ)) (g g' : ℝ × ℝ → Cx ℝ) (a : ℝ) (h : ∀ xw, g' xw = Cx.scale a (g xw))
    (acc : Cx ℝ) :
    L.foldl (fun acc xw => (⟨acc.re + xw.2 * (g' xw).re, acc.im + xw.2 * (g' xw).im⟩ : Cx ℝ)) (Cx.scale a acc)
      = Cx.scale a (L.foldl (fun acc xw => (⟨acc.re + xw.2 * (g xw).re, acc.im + xw.2 * (g xw).im⟩ : Cx ℝ)) acc) := by
  induction L generalizing acc with
  | nil => rfl
  | cons x r ih =>
    simp only [List.foldl_cons]
    rw [← ih]
    congr 1
    rw [h]
    simp only [Cx.scale, Cx.mk.injEq]
    constructor <;> ring

theorem foldl_scale0 (L : List (ℝ × ℝ)) (g : ℝ × ℝ → Cx ℝ) (a : ℝ) :
    L.foldl (fun acc xw => (⟨acc.re + xw.2 * (Cx.scale a (g xw)).re, acc.im + xw.2 * (Cx.scale a (g xw)).im⟩ : Cx ℝ)) cxZero
      = Cx.scale a (L.foldl (fun acc xw => (⟨acc.re + xw.2 * (g xw).re, acc.im + xw.2 * (g xw).im⟩ : Cx ℝ)) cxZero) := by
  have hz : (cxZero : Cx ℝ) = Cx.scale a cxZero := by simp [cxZero, Cx.scale]
  conv_lhs => rw [hz]
  exact foldl_scale L g (fun xw => Cx.scale a (g xw)) a (fun _ => rfl) cxZero

/-- **the implemented potential integral is dimensionless**: unchanged when all lengths (the two
vector arguments, segment length, radius, small-radius limit) are multiplied by `s > 0`, the wave
number and the exact-kernel wire constant divided by `s` -/
theorem psi_scale (c : Ctx ℝ) (s : ℝ) (hs : 0 < s) (u v : V3 ℝ) (kneg : Bool) (sc : ℝ) (pos : Bool)
    (pj : PulseD ℝ) (x f : Bool) :
    psi (scaleCtx s c) (vsmul s u) (vsmul s v) kneg sc pos (scalePulse s pj) x f = psi c u v kneg sc pos pj x f := by
  have hs0 : s ≠ 0 := hs.ne'
  unfold psi
  rw [side_scale]
  set sd := side pj pos with hsd
  have e1 : (scaleSide s sd).len = s * sd.len := rfl
  have e2 : (scaleSide s sd).r = s * sd.r := rfl
  have e3 : (scaleSide s sd).i6 = sd.i6 / s := rfl
  have ht : (s * V3.norm u + s * V3.norm v) / (s * sd.len) = (V3.norm u + V3.norm v) / sd.len := by
    rw [← mul_add, mul_div_mul_left _ _ hs0]
  have hr : decide (s * sd.r ≤ (scaleCtx s c).srm) = decide (sd.r ≤ c.srm) := by
    have hiff : s * sd.r ≤ s * c.srm ↔ sd.r ≤ c.srm :=
      ⟨fun h => le_of_mul_le_mul_left h hs, fun h => mul_le_mul_of_nonneg_left h hs.le⟩
    simp only [scaleCtx, hiff]
  have hlog : s * sd.len / (s * sd.r) = sd.len / sd.r := mul_div_mul_left _ _ hs0
  have c1 : (scaleCtx s c).exactT = c.exactT := rfl
  have c2 : (scaleCtx s c).g2 = c.g2 := rfl
  have c3 : (scaleCtx s c).g4 = c.g4 := rfl
  have c4 : (scaleCtx s c).lg = c.lg := rfl
  have c5 : (scaleCtx s c).w = c.w / s := rfl
  simp only [e1, e2, e3, norm_vsmul s hs.le, ht, hr, hlog, c1, c2, c3, c4, c5, integrand_scale c s hs]
  split
  · simp only [Cx.mk.injEq, true_and]
    field_simp
  · rw [foldl_scale0]
    generalize List.foldl _ _ _ = Q
    split <;> simp only [Cx.scale, Cx.mk.injEq] <;> constructor <;> field_simp

theorem endseg_scale (s : ℝ) (p : PulseD ℝ) (pos : Bool) (a : ℝ) :
    endseg (scalePulse s p) pos a = vsmul s (endseg p pos a) := by
  unfold endseg
  rw [side_scale]
  simp only [scaleSide, scalePulse, vadd, vsmul, vsub, V3.mk.injEq]
  refine ⟨?_, ?_, ?_⟩ <;> ring

theorem dvecs_scale (s : ℝ) (p : PulseD ℝ) (pos : Bool) (a : ℝ) :
    dvecs (scalePulse s p) pos a = (vsmul s (dvecs p pos a).1, vsmul s (dvecs p pos a).2) := by
  unfold dvecs
  cases pos <;> simp only [endseg_scale, Bool.false_eq_true, if_false, if_true] <;> rfl

theorem rel_scale (k s : ℝ) (a b : V3 ℝ) : vsub (kmul k (vsmul s a)) (vsmul s b) = vsmul s (vsub (kmul k a) b) := by
  simp only [vsub, kmul, vsmul, V3.mk.injEq]
  refine ⟨?_, ?_, ?_⟩ <;> ring

theorem lt_scale (s : ℝ) (hs : 0 < s) (a b : ℝ) : (s * a < s * b) ↔ (a < b) :=
  ⟨fun h => lt_of_mul_lt_mul_left h hs.le, fun h => mul_lt_mul_of_pos_left h hs⟩

/-- **every term of an entry is a reciprocal length**: the implemented fill of the scaled antenna at
the scaled wavelength is `1/s` times the original, shortcut classes included -/
theorem C05_scale_entry (c : Ctx ℝ) (s : ℝ) (hs : 0 < s) (k : ℝ) (kneg : Bool) (pi pj : PulseD ℝ) (xct : Bool)
    (f8 : Nat) :
    entryK8 (psi (scaleCtx s c)) (scaleCtx s c) k kneg (scalePulse s pi) (scalePulse s pj) xct f8
      = Cx.scale (1 / s) (entryK8 (psi c) c k kneg pi pj xct f8) := by
  have hs0 : s ≠ 0 := hs.ne'
  have hlog : ∀ a b : ℝ, s * a / (s * b) = a / b := fun a b => mul_div_mul_left _ _ hs0
  have hv : ∀ pos, vecpot (psi (scaleCtx s c)) (scaleCtx s c) k kneg (scalePulse s pi) (scalePulse s pj) pos xct
      = vecpot (psi c) c k kneg pi pj pos xct := by
    intro pos
    unfold vecpot
    have e1 : (scalePulse s pi).idx = pi.idx := rfl
    have e2 : (scalePulse s pj).idx = pj.idx := rfl
    have e3 : (scalePulse s pi).pt = vsmul s pi.pt := rfl
    have c5 : (scaleCtx s c).w = c.w / s := rfl
    have c6 : (scaleCtx s c).srm = s * c.srm := rfl
    simp only [side_scale, dvecs_scale, e1, e2, e3, rel_scale, psi_scale c s hs, scaleSide, c5, c6, lt_scale s hs, hlog]
    split
    · rfl
    · simp only [Cx.mk.injEq, true_and]
      field_simp
  have hsp : ∀ p1 p2 sm, scapot (psi (scaleCtx s c)) (scaleCtx s c) k kneg (scalePulse s pi) (scalePulse s pj) p1 p2 sm xct
      = scapot (psi c) c k kneg pi pj p1 p2 sm xct := by
    intro p1 p2 sm
    unfold scapot
    have e1 : (scalePulse s pi).owner = pi.owner := rfl
    have e2 : (scalePulse s pj).owner = pj.owner := rfl
    have c5 : (scaleCtx s c).w = c.w / s := rfl
    have c6 : (scaleCtx s c).srm = s * c.srm := rfl
    simp only [side_scale, dvecs_scale, endseg_scale, e1, e2, rel_scale, psi_scale c s hs, scaleSide, c5, c6,
      lt_scale s hs, hlog]
    split
    · rfl
    · simp only [Cx.mk.injEq, true_and]
      field_simp
  unfold entryK8
  simp only [hv, hsp]
  have i1 : (scalePulse s pi).idx = pi.idx := rfl
  have i2 : (scalePulse s pj).idx = pj.idx := rfl
  simp only [i1, i2]
  simp only [scalePulse, scaleSide, scaleCtx, vadd, vsmul, V3.dot]
  split_ifs <;> cx_unfold <;> simp only [Cx.mk.injEq] <;> constructor <;> field_simp <;> ring

/-- **scaling theorem for the matrix**: the antenna scaled by `s` at wavelength `s λ` has the matrix
`Z / s`, in free space and over ground -/
theorem C05_scale (c : Ctx ℝ) (s : ℝ) (hs : 0 < s) (g : Bool) (pi pj : PulseD ℝ) (xct : Bool) :
    entryAlgo (scaleCtx s c) g (scalePulse s pi) (scalePulse s pj) xct
      = Cx.scale (1 / s) (entryAlgo c g pi pj xct) := by
  unfold entryAlgo
  have e0 : (scalePulse s pj).s0.gnd = pj.s0.gnd := rfl
  have e1 : (scalePulse s pj).s1.gnd = pj.s1.gnd := rfl
  have ef : f8Of (scalePulse s pi) (scalePulse s pj) = f8Of pi pj := by
    unfold f8Of
    have hl : ((scalePulse s pi).s0.len == (scalePulse s pj).s0.len) = (pi.s0.len == pj.s0.len) := by
      show (s * pi.s0.len == s * pj.s0.len) = (pi.s0.len == pj.s0.len)
      by_cases h : pi.s0.len = pj.s0.len
      · simp [h]
      · have : s * pi.s0.len ≠ s * pj.s0.len := fun e => h (mul_left_cancel₀ hs.ne' e)
        simp [h, this]
    simp only [hl]
    rfl
  simp only [e0, e1, ef, C05_scale_entry c s hs]
  split
  · cx_unfold; simp only [Cx.mk.injEq]; constructor <;> ring
  · rfl

/-- with `Z' = Z / s` and `rhs' = rhs / s` (the excitation weight `−j g V / m`, `m ∝ λ`) the solution
is the same: currents and feed impedances do not change under the (s, f/s) scaling -/
theorem C05_scale_currents {n : Type} [Fintype n] [DecidableEq n] (Z : Matrix n n ℂ) (b I I' : n → ℂ) (a : ℂ)
    (ha : a ≠ 0) (hZ : IsUnit Z.det) (h : Z.mulVec I = b) (h' : (a • Z).mulVec I' = a • b) : I' = I := by
  have hinj := Matrix.mulVec_injective_iff_isUnit.mpr ((Matrix.isUnit_iff_isUnit_det _).mpr hZ)
  apply hinj
  rw [h]
  rw [Matrix.smul_mulVec] at h'
  exact smul_right_injective _ ha h'

end Pmn.Props.C05b
