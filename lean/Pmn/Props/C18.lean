/-
C18 — the generated BASIC-MININEC input describes the same antenna.

`readAntenna (writeAntenna m ++ rest) = some (m, rest)`: a reader that follows the prompts of the
BASIC program in their order recovers exactly the antenna description that was written —
frequency, environment and media, every (emulated) wire, every source with pulse number,
magnitude and phase in degrees, every load with pulse number and value — for every model in
normal form (`WF`: fields that the format does not carry hold the default).
-/
import Pmn.Model.Basic

namespace Pmn.Props.C18
open Pmn.Basic

variable {N : Type}

/-- medium `m` at position `i` of `n` carries nothing the format does not print -/
def WFMedium (c : Bool) (d : N) (i n : Nat) (m : Medium N) : Prop :=
  (i = 0 → m.height = d) ∧ (¬ (i + 1 < n) → m.coord = d) ∧
  (¬ (i = 0 ∧ 1 < n ∧ c = true) → m.nradials = 0) ∧ (m.nradials = 0 → m.radius = d)

def WFMediaFrom (c : Bool) (d : N) (n : Nat) : Nat → List (Medium N) → Prop
  | _, [] => True
  | i, m :: r => WFMedium c d i n m ∧ WFMediaFrom c d n (i + 1) r

def WFEnv (d : N) : Env N → Prop
  | .free => True
  | .ideal => True
  | .media c ms => 0 < ms.length ∧ (ms.length = 1 → c = false) ∧ WFMediaFrom c d ms.length 0 ms

def WFLoad (isS : Bool) : Load N → Prop
  | .imp _ _ _ => isS = false
  | .spar _ cs => isS = true ∧ cs ≠ []

def WF (d : N) (m : Model N) : Prop :=
  WFEnv d m.env ∧ (∀ l ∈ m.loads, WFLoad m.sLoads l) ∧ (m.loads = [] → m.sLoads = false)

theorem readMedium_write (c : Bool) (d : N) (i n : Nat) (m : Medium N) (rest : List (Line N))
    (h : WFMedium c d i n m) :
    readMedium c i n d (writeMedium c i n m ++ rest) = some (m, rest) := by
  obtain ⟨h1, h2, h3, h4⟩ := h
  obtain ⟨e, s, ht, co, nr, rad⟩ := m
  simp only at h1 h2 h3 h4
  unfold writeMedium readMedium
  by_cases hi : 0 < i
  · have hnr := h3 (by omega)
    have hrad := h4 hnr
    by_cases hl : i + 1 < n
    · simp [hi, hl, hnr, hrad]
    · have := h2 hl
      simp [hi, hl, hnr, hrad, this]
  · have hi0 : i = 0 := by omega
    subst hi0
    have hht := h1 rfl
    by_cases hn : 1 < n
    · have hl : 0 + 1 < n := by omega
      by_cases hc : c = true
      · by_cases hz : nr = 0
        · have := h4 hz
          simp [hn, hc, hz, hl, hht, this]
        · have hz' : (nr : Int) ≠ 0 := by omega
          simp [hn, hc, hz, hz', hl, hht]
      · have hnr := h3 (by simp [hc])
        have hrad := h4 hnr
        simp [hn, hc, hl, hht, hnr, hrad]
    · have hl : ¬ (0 + 1 < n) := by omega
      have hco := h2 hl
      have hnr := h3 (by simp [hn])
      have hrad := h4 hnr
      simp [hn, hl, hht, hco, hnr, hrad]

theorem readMediaFrom_write (c : Bool) (d : N) (n : Nat) (ms : List (Medium N)) (i : Nat)
    (rest : List (Line N)) (h : WFMediaFrom c d n i ms) :
    readMediaFrom c n d ms.length i (writeMediaFrom c n i ms ++ rest) = some (ms, rest) := by
  induction ms generalizing i with
  | nil => simp [readMediaFrom, writeMediaFrom]
  | cons m r ih =>
    obtain ⟨hm, hr⟩ := h
    simp only [List.length_cons, readMediaFrom, writeMediaFrom, List.append_assoc]
    rw [readMedium_write c d i n m _ hm]
    simp only
    rw [ih (i + 1) hr]

theorem readEnv_write (d : N) (env : Env N) (rest : List (Line N)) (h : WFEnv d env) :
    readEnv d (writeEnv env ++ rest) = some (env, rest) := by
  cases env with
  | free => simp [writeEnv, readEnv]
  | ideal => simp [writeEnv, readEnv]
  | media c ms =>
    obtain ⟨hpos, hone, hwf⟩ := h
    have hne : (ms.length : Int) ≠ 0 := by omega
    simp only [writeEnv, readEnv, List.cons_append, List.nil_append, List.append_assoc]
    simp only [show ¬ ("-1" = "+1") by decide, if_false, if_true, hne, Int.toNat_natCast]
    by_cases h1 : ms.length = 1
    · have hc := hone h1
      subst hc
      rw [if_pos h1, if_neg (by omega)]
      simp only [List.nil_append]
      have := readMediaFrom_write false d ms.length ms 0 rest hwf
      rw [h1] at this
      rw [h1, this]
    · rw [if_neg h1, if_pos (by omega)]
      simp only [List.cons_append, List.nil_append]
      have hb : ((if c = true then "2" else "1") == "2") = c := by cases c <;> decide
      rw [hb, readMediaFrom_write c d ms.length ms 0 rest hwf]

theorem readMany_flatMap {α : Type} (rd : List (Line N) → Option (α × List (Line N)))
    (wr : α → List (Line N)) (hrw : ∀ x rest, rd (wr x ++ rest) = some (x, rest))
    (xs : List α) (rest : List (Line N)) :
    readMany rd xs.length (xs.flatMap wr ++ rest) = some (xs, rest) := by
  induction xs with
  | nil => simp [readMany]
  | cons x r ih =>
    simp only [List.length_cons, readMany, List.flatMap_cons, List.append_assoc]
    rw [hrw]
    simp only
    rw [ih]

theorem readMany_flatMap_mem {α : Type} (rd : List (Line N) → Option (α × List (Line N)))
    (wr : α → List (Line N)) (P : α → Prop) (hrw : ∀ x rest, P x → rd (wr x ++ rest) = some (x, rest))
    (xs : List α) (hP : ∀ x ∈ xs, P x) (rest : List (Line N)) :
    readMany rd xs.length (xs.flatMap wr ++ rest) = some (xs, rest) := by
  induction xs with
  | nil => simp [readMany]
  | cons x r ih =>
    simp only [List.length_cons, readMany, List.flatMap_cons, List.append_assoc]
    rw [hrw x _ (hP x (List.mem_cons_self ..))]
    simp only
    rw [ih (fun y hy => hP y (List.mem_cons_of_mem _ hy))]

theorem readWire_write (w : Wire N) (rest : List (Line N)) :
    readWire (writeWire w ++ rest) = some (w, rest) := by
  obtain ⟨n, ⟨x1, y1, z1⟩, ⟨x2, y2, z2⟩, r⟩ := w
  simp [writeWire, readWire, point]

theorem readSource_write (s : Source N) (rest : List (Line N)) :
    readSource (writeSource s ++ rest) = some (s, rest) := by
  obtain ⟨p, m, ph⟩ := s
  simp [writeSource, readSource]

theorem readCoeffs_write (cs : List (N × N)) (rest : List (Line N)) :
    readCoeffs cs.length (cs.map (fun c => [Tok.num c.1 "%g", Tok.num c.2 "%g"]) ++ rest) = some (cs, rest) := by
  induction cs with
  | nil => simp [readCoeffs]
  | cons c r ih =>
    simp only [List.length_cons, List.map_cons, List.cons_append, readCoeffs]
    rw [ih]

theorem readLoad_write (isS : Bool) (l : Load N) (rest : List (Line N)) (h : WFLoad isS l) :
    readLoad isS (writeLoad l ++ rest) = some (l, rest) := by
  cases l with
  | imp p re im =>
    have : isS = false := h
    subst this
    simp [writeLoad, readLoad]
  | spar p cs =>
    obtain ⟨hs, hne⟩ := h
    subst hs
    have hlen : ((cs.length : Int) - 1).toNat + 1 = cs.length := by
      have : 0 < cs.length := List.length_pos_iff.mpr hne
      omega
    simp only [writeLoad, readLoad, List.cons_append, List.nil_append, List.append_assoc, if_true]
    rw [hlen, readCoeffs_write]
    simp

/-- **round trip** of the antenna description through the prompt-order reader -/
theorem C18_roundtrip (d : N) (m : Model N) (rest : List (Line N)) (h : WF d m) :
    readAntenna d (writeAntenna m ++ rest) = some (m, rest) := by
  obtain ⟨henv, hloads, hempty⟩ := h
  obtain ⟨file, f, env, wires, sources, sLoads, loads⟩ := m
  simp only at henv hloads hempty
  simp only [writeAntenna, readAntenna, List.cons_append, List.nil_append, List.append_assoc]
  rw [readEnv_write d env _ henv]
  simp only [Int.toNat_natCast]
  rw [readMany_flatMap readWire writeWire readWire_write]
  simp only [List.cons_append, List.nil_append, Int.toNat_natCast]
  rw [readMany_flatMap readSource writeSource readSource_write]
  simp only [List.cons_append, List.nil_append, Int.toNat_natCast]
  cases loads with
  | nil =>
    have := hempty rfl
    subst this
    simp
  | cons l ls =>
    simp only [List.length_cons, List.isEmpty_cons, Bool.false_eq_true, if_false]
    have hb : ((if sLoads = true then "Y" else "N") == "Y") = sLoads := by cases sLoads <;> decide
    simp only [List.cons_append, List.nil_append, hb]
    rw [if_neg (by omega)]
    have := readMany_flatMap_mem (readLoad sLoads) writeLoad (WFLoad sLoads)
      (fun x rest hx => readLoad_write sLoads x rest hx) (l :: ls) hloads rest
    simp only [List.length_cons] at this
    rw [this]

/-- a source is written with its pulse number, magnitude and the phase in DEGREES -/
theorem C18_source_line (s : Source N) :
    writeSource s = [[.int s.pulse, .num s.mag "%g", .num s.phaseDeg "%g"]] := rfl

/-- a plain wire is written as itself; an emulated object as one single-segment wire per segment -/
theorem C18_emulate_count (o : Obj N) (h : o.single = false) : (emulate o).length = o.segs.length := by
  unfold emulate
  rw [h]
  cases o.segs <;> simp

theorem C18_emulate_single (o : Obj N) (h : o.single = true) : emulate o = [⟨o.nseg, o.p1, o.p2, o.r⟩] := by
  unfold emulate; rw [h]; rfl

/-! non-vacuity: a model over ℕ-valued "numbers" with two media (circular, 8 radials), two wires,
a source and an S-parameter load is in normal form and round-trips -/
def demo : Model Nat :=
  ⟨"MININEC.OUT", 7, .media true [⟨13, 5, 0, 20, 8, 1⟩, ⟨4, 1, 2, 0, 0, 0⟩],
   [⟨4, (0, 0, 0), (0, 0, 5), 1⟩, ⟨1, (0, 0, 5), (3, 0, 5), 1⟩],
   [⟨2, 1, 90⟩], true, [.spar 3 [(1, 0), (2, 1)]]⟩

example : readAntenna 0 (writeAntenna demo ++ [[.lit "C"]]) = some (demo, [[.lit "C"]]) := by decide


/-! ### the request part: currents, pattern block, near-field blocks, quit -/

section Tail
variable {N : Type} [DecidableEq N]


/-- a far-field request in normal form: a dBi request carries no power level and the default distance -/
def WFTail (dflt : N) (t : Tail N) : Prop :=
  ∀ p, t.pat = some p → p.ffAbs = false → p.pwr = none ∧ p.dist = dflt

theorem readNear_write (q : NearReq N) :
    readNear (writeNearBlock "E" q ++ writeNearBlock "H" q ++ [[Tok.lit "Q"]]) = some (some q, [[Tok.lit "Q"]]) := by
  obtain ⟨x, y, z, pw⟩ := q
  cases pw <;> simp [writeNearBlock, rangeLine, readNear, readNearBlock, readRange, readPower]

theorem readNear_none : readNear ([[Tok.lit "Q"]] : List (Line N)) = some (none, [[Tok.lit "Q"]]) := by
  simp [readNear]

theorem readPattern_write (dflt : N) (p : Pattern N) (h : p.ffAbs = false → p.pwr = none ∧ p.dist = dflt)
    (rest : List (Line N)) :
    readPattern dflt ((writePattern p).tail ++ rest) = some (p, rest) := by
  obtain ⟨ffAbs, pwr, dist, zen, azi, g⟩ := p
  cases ffAbs
  · obtain ⟨h1, h2⟩ := h rfl
    simp only at h1 h2
    subst h1; subst h2
    cases g <;> simp [writePattern, readPattern, readTriple, readGainfile]
  · cases pwr <;> cases g <;> simp [writePattern, readPattern, readTriple, readGainfile, readPower]

/-- **the request part of the generated input reads back**: currents, optional pattern block (dBi or V/m with an optional
new power level and the distance), optional near-field blocks (electric and magnetic, the same ranges), quit -/
theorem C18_tail_roundtrip (dflt : N) (t : Tail N) (h : WFTail dflt t) : readTail dflt (writeTail t) = some t := by
  obtain ⟨pat, near⟩ := t
  cases pat with
  | none =>
    cases near with
    | none => simp [writeTail, readTail, readNear]
    | some q =>
      obtain ⟨x, y, z, pw⟩ := q
      cases pw <;> simp [writeTail, writeNearBlock, rangeLine, readTail, readNear, readNearBlock, readRange, readPower]
  | some p =>
    have hp := h p rfl
    obtain ⟨ffAbs, pwr, dist, zen, azi, g⟩ := p
    cases ffAbs
    · obtain ⟨h1, h2⟩ := hp rfl
      simp only at h1 h2
      subst h1; subst h2
      cases near with
      | none =>
        cases g <;> simp [writeTail, writePattern, readTail, readPattern, readTriple, readGainfile, readNear]
      | some q =>
        obtain ⟨x, y, z, pw⟩ := q
        cases g <;> cases pw <;>
          simp [writeTail, writePattern, writeNearBlock, rangeLine, readTail, readPattern, readTriple, readGainfile, readNear,
            readNearBlock, readRange, readPower]
    · cases near with
      | none =>
        cases pwr <;> cases g <;>
          simp [writeTail, writePattern, readTail, readPattern, readTriple, readGainfile, readPower, readNear]
      | some q =>
        obtain ⟨x, y, z, pw⟩ := q
        cases pwr <;> cases g <;> cases pw <;>
          simp [writeTail, writePattern, writeNearBlock, rangeLine, readTail, readPattern, readTriple, readGainfile, readNear,
            readNearBlock, readRange, readPower]

/-- without the normal form the request does not read back: a dBi request forgets a power level it was given -/
theorem C18_tail_defect_witness :
    readTail (0 : Nat) (writeTail ⟨some ⟨false, some 5, 7, (1, 2, 3), (4, 5, 6), none⟩, none⟩)
      ≠ some ⟨some ⟨false, some 5, 7, (1, 2, 3), (4, 5, 6), none⟩, none⟩ := by
  decide

/-! non-vacuity: a V/m request with a new power level and a near-field request with another one -/
example : WFTail (0 : Nat) ⟨some ⟨true, some 5, 7, (1, 2, 3), (4, 5, 6), some "g.out"⟩, some ⟨(1, 2, 3), (4, 5, 6), (7, 8, 9), some 2⟩⟩ := by
  intro p hp hf
  injection hp with hp
  subst hp
  cases hf


end Tail

end Pmn.Props.C18
