/-
C15 (continued) — the attachment forms chosen by `as_cmdline_load_attach` denote exactly the
attached pulses, with multiplicity.
-/
import Pmn.Model.Cmd
import Mathlib.Data.List.Nodup
import Mathlib.Data.List.Flatten
import Mathlib.Data.List.Count

namespace Pmn.Props.C15b
open Pmn.Cmd

theorem find_tag (objs : List (Nat × List Nat)) (h : (objs.map (·.1)).Nodup) (o : Nat × List Nat)
    (ho : o ∈ objs) : objs.find? (·.1 = o.1) = some o := by
  induction objs with
  | nil => simp at ho
  | cons a r ih =>
    simp only [List.map_cons, List.nodup_cons] at h
    rcases List.mem_cons.mp ho with rfl | ho'
    · simp
    · have hne : ¬ (a.1 = o.1) := by
        intro e; apply h.1; rw [e]; exact List.mem_map_of_mem ho'
      simp [List.find?_cons, hne, ih h.2 ho']

theorem expand_allObj (objs : List (Nat × List Nat)) (h : (objs.map (·.1)).Nodup) (o : Nat × List Nat)
    (ho : o ∈ objs) : expandAtt objs (.allObj o.1) = o.2 := by
  simp [expandAtt, find_tag objs h o ho]

theorem flatMap_expand_pulse (objs : List (Nat × List Nat)) (l : List Nat) :
    (l.map Att.pulse).flatMap (expandAtt objs) = l := by
  induction l with
  | nil => rfl
  | cons a r ih => simp [expandAtt, ih]

theorem flatMap_expand_allObj (objs full : List (Nat × List Nat)) (h : (objs.map (·.1)).Nodup)
    (hsub : ∀ o ∈ full, o ∈ objs) :
    (full.map (fun o => Att.allObj o.1)).flatMap (expandAtt objs) = full.flatMap (·.2) := by
  induction full with
  | nil => rfl
  | cons a r ih =>
    simp only [List.map_cons, List.flatMap_cons]
    rw [expand_allObj objs h a (hsub a (List.mem_cons_self ..)),
      ih (fun o ho => hsub o (List.mem_cons_of_mem _ ho))]

theorem countOf_eq_count (x : Nat) (l : List Nat) : countOf x l = l.count x := by
  unfold countOf
  rw [List.count_eq_countP, List.countP_eq_length_filter]
  congr 1

/-- **attachments round trip**: with the repaired rule the written `--attach-load` forms of a load
denote exactly its attached pulses, each as often as it was attached — for any objects with
distinct tags and disjoint pulse lists and any list of attached pulses -/
theorem C15_attach (objs : List (Nat × List Nat)) (attached : List Nat)
    (htags : (objs.map (·.1)).Nodup) (hdisj : (objs.flatMap (·.2)).Nodup) :
    ((normAtt true objs attached).flatMap (expandAtt objs)).Perm attached := by
  rw [List.perm_iff_count]
  intro p
  set full := objs.filter (objAll true attached) with hfull
  have hfsub : ∀ o ∈ full, o ∈ objs := fun o ho => (List.mem_filter.mp ho).1
  have hfstrict : ∀ o ∈ full, ∀ q ∈ o.2, attached.count q = 1 := by
    intro o ho q hq
    have := (List.mem_filter.mp ho).2
    simp only [objAll, if_true, Bool.and_eq_true, List.all_eq_true, decide_eq_true_eq] at this
    rw [← countOf_eq_count]; exact this.2 q hq
  set inFull : Nat → Bool := fun q => full.any (fun o => o.2.contains q) with hin
  have hinFull : ∀ q, inFull q = true ↔ ∃ o ∈ full, q ∈ o.2 := by
    intro q; simp [hin, List.any_eq_true]
  have hUnod : (full.flatMap (·.2)).Nodup :=
    List.Nodup.sublist (List.Sublist.flatMap List.filter_sublist _) hdisj
  -- count of p in the pulses of the fully attached objects
  have hcU : (full.flatMap (·.2)).count p = if inFull p then 1 else 0 := by
    by_cases hp : inFull p = true
    · rw [if_pos hp]
      obtain ⟨o, ho, hpo⟩ := (hinFull p).mp hp
      exact List.count_eq_one_of_mem hUnod (List.mem_flatMap.mpr ⟨o, ho, hpo⟩)
    · rw [if_neg hp, List.count_eq_zero]
      intro hm
      obtain ⟨o, ho, hpo⟩ := List.mem_flatMap.mp hm
      exact hp ((hinFull p).mpr ⟨o, ho, hpo⟩)
  -- count of p among the individually written pulses
  have hcR : (attached.filter (fun q => !(inFull q))).count p = if inFull p then 0 else attached.count p := by
    by_cases hp : inFull p = true
    · rw [if_pos hp, List.count_eq_zero]
      intro hm
      have := (List.mem_filter.mp hm).2
      simp [hp] at this
    · rw [if_neg hp, List.count_filter (by simp [hp])]
  have hcA : inFull p = true → attached.count p = 1 := by
    intro hp
    obtain ⟨o, ho, hpo⟩ := (hinFull p).mp hp
    exact hfstrict o ho p hpo
  unfold normAtt
  simp only [← hfull]
  by_cases hall : (!full.isEmpty && decide (full.length = objs.length)) = true
  · -- `N,all`
    rw [if_pos hall]
    simp only [Bool.and_eq_true, decide_eq_true_eq] at hall
    have hfo : full = objs := by
      rw [hfull]; exact List.filter_eq_self.mpr (List.length_filter_eq_length_iff.mp hall.2)
    rw [List.flatMap_append, List.count_append, flatMap_expand_pulse]
    simp only [List.flatMap_cons, List.flatMap_nil, List.append_nil, expandAtt]
    have hcU' : (objs.flatMap (·.2)).count p = if inFull p then 1 else 0 := by rw [← hfo]; exact hcU
    rw [hcU', hcR]
    by_cases hp : inFull p = true
    · simp [hp, hcA hp]
    · simp only [hp, Bool.false_eq_true, if_false, Nat.zero_add]
  · rw [if_neg hall, List.flatMap_append, List.count_append, flatMap_expand_pulse,
      flatMap_expand_allObj objs full htags hfsub, hcU, hcR]
    by_cases hp : inFull p = true
    · simp [hp, hcA hp]
    · simp only [hp, Bool.false_eq_true, if_false, Nat.zero_add]

/-- the former rule (number of attachments on the object = number of its pulses): a load attached
twice to pulse 1 of a wire with pulses 1 and 2 is written as `N,all` and comes back on 1 and 2 -/
theorem C15_attach_defect_witness :
    normAtt false [(1, [1, 2])] [1, 1] = [.all] ∧
    ([Att.all].flatMap (expandAtt [(1, [1, 2])])) = [1, 2] ∧
    normAtt true [(1, [1, 2])] [1, 1] = [.pulse 1, .pulse 1] := by decide

/-- the written forms are never empty for a load that has pulses -/
theorem normAtt_ne_nil (objs : List (Nat × List Nat)) (attached : List Nat) (h : attached ≠ []) :
    normAtt true objs attached ≠ [] := by
  unfold normAtt
  set full := objs.filter (objAll true attached) with hfull
  simp only
  by_cases hf : full = []
  · -- nothing is written as a whole object: every attached pulse is written by number
    have : (attached.filter fun p => !(full.any fun o => o.2.contains p)) = attached := by
      rw [hf]; simp
    rw [this, hf]
    simp [h]
  · split
    · simp
    · intro hnil
      have := List.append_eq_nil_iff.mp hnil
      exact hf (List.map_eq_nil_iff.mp this.1)

/-- **every written load is used** (repaired writer): the attachment list written for a load is non-empty
whenever the load has a pulse or some geo object owns no pulse (the only way `main` builds a load without
pulses is an attachment to all pulses of such an object) — so the reader's "Not all loads were used" cannot
reject the written file -/
theorem C15_attach_used (objs : List (Nat × List Nat)) (attached : List Nat)
    (h : attached ≠ [] ∨ ∃ o ∈ objs, o.2 = []) : writeAtt true objs attached ≠ [] := by
  unfold writeAtt
  by_cases ha : attached = []
  · subst ha
    simp only [List.isEmpty_nil, if_true]
    rcases h with h | ⟨o, ho, he⟩
    · exact absurd rfl h
    · have : (objs.find? (·.2.isEmpty)).isSome := by
        rw [List.find?_isSome]; exact ⟨o, ho, by simp [he]⟩
      obtain ⟨w, hw⟩ := Option.isSome_iff_exists.mp this
      rw [hw]; simp
  · have : attached.isEmpty = false := by simpa using ha
    rw [this]; simp only [Bool.false_eq_true, if_false]
    exact normAtt_ne_nil objs attached ha

/-- **attachments round trip, loads without pulses included** -/
theorem C15_attach_all (objs : List (Nat × List Nat)) (attached : List Nat)
    (htags : (objs.map (·.1)).Nodup) (hdisj : (objs.flatMap (·.2)).Nodup) :
    ((writeAtt true objs attached).flatMap (expandAtt objs)).Perm attached := by
  unfold writeAtt
  by_cases ha : attached = []
  · subst ha
    simp only [List.isEmpty_nil, if_true]
    cases hf : objs.find? (·.2.isEmpty) with
    | none => simp
    | some o =>
      have ho : o ∈ objs := List.mem_of_find?_eq_some hf
      have he : o.2 = [] := by simpa using List.find?_some hf
      simp only [List.flatMap_cons, List.flatMap_nil, List.append_nil]
      rw [expand_allObj objs htags o ho, he]
  · have : attached.isEmpty = false := by simpa using ha
    rw [this]; simp only [Bool.false_eq_true, if_false]
    exact C15_attach objs attached htags hdisj

/-- the former writer wrote no attachment for a load without pulses: `--load=50 --attach-load=1,all,2` with
a pulse-less object 2 was written as `--load=50` alone, which the reader rejects -/
theorem C15_unused_defect_witness :
    writeAtt false [(1, [1, 2]), (2, [])] [] = [] ∧
    readLoads (writeLoads [⟨.imp, 50, writeAtt false [(1, [1, 2]), (2, [])] []⟩]) = .error "not-all-loads-were-used" ∧
    readLoads (writeLoads [⟨.imp, 50, writeAtt true [(1, [1, 2]), (2, [])] []⟩]) = .ok [⟨.imp, 50, [.allObj 2]⟩] := by
  decide

/-! ### distributed loads -/

theorem writeDist_skip (seen : List Bool) (k : DKind) (par : Nat) (tags : List Nat) (rest : List DLoad)
    (h : seen.contains k.isCoat = true) :
    writeDist true seen (tags.map (fun t => (⟨k, par, t, true⟩ : DLoad)) ++ rest) = writeDist true seen rest := by
  induction tags with
  | nil => rfl
  | cons t r ih =>
    simp only [List.map_cons, List.cons_append, writeDist, Bool.true_or, Bool.true_and, h, if_true]
    exact ih

/-- **distributed loads survive the option round trip**: for every option list `main` accepts
(an untagged option is the first of its class) and every non-empty set of geo objects, writing the
loads `main` built gives back exactly the options, in order — in particular several per-object
skin-effect or insulation loads are all written -/
theorem C15_dist (tags : List Nat) (htags : tags ≠ []) (opts : List DOpt) (seen : List Bool)
    (hv : distValid seen opts = true) :
    writeDist true seen (readDist tags opts) = opts := by
  obtain ⟨t, ts, rfl⟩ := List.exists_cons_of_ne_nil htags
  induction opts generalizing seen with
  | nil => rfl
  | cons o r ih =>
    simp only [distValid, Bool.and_eq_true] at hv
    obtain ⟨ho, hr⟩ := hv
    obtain ⟨k, par, tag⟩ := o
    cases tag with
    | some u =>
      have : readDist (t :: ts) (⟨k, par, some u⟩ :: r) = ⟨k, par, u, false⟩ :: readDist (t :: ts) r := by
        simp [readDist]
      rw [this]
      simp only [writeDist, Bool.false_or, Bool.not_true, Bool.false_and, Bool.false_eq_true, if_false]
      congr 1
      exact ih _ hr
    | none =>
      simp only [Option.isSome_none, Bool.false_or, Bool.not_eq_true'] at ho
      have : readDist (t :: ts) (⟨k, par, none⟩ :: r)
          = ⟨k, par, t, true⟩ :: (ts.map (fun t => (⟨k, par, t, true⟩ : DLoad)) ++ readDist (t :: ts) r) := by
        simp [readDist]
      rw [this]
      simp only [writeDist, Bool.true_or, Bool.true_and, ho, Bool.false_eq_true, if_false]
      congr 1
      rw [writeDist_skip _ k par ts _ (by simp)]
      exact ih _ hr

/-- non-vacuity: two per-object skin-effect loads and an all-wires insulation are a valid option list -/
example : distValid [] [⟨.skinCond, 5, some 1⟩, ⟨.skinRes, 3, some 2⟩, ⟨.coat, 7, none⟩] = true := by decide

/-- the former writer (`skip every later load of a class already written`) loses the second
per-object load: the written options do not reproduce the model -/
theorem C15_dist_defect_witness :
    writeDist false [] (readDist [1, 2] [⟨.skinCond, 5, some 1⟩, ⟨.skinCond, 3, some 2⟩])
      = [⟨.skinCond, 5, some 1⟩] := by decide

end Pmn.Props.C15b
