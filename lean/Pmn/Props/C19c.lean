/-
C19 (continued) — "the report is structurally complete: one geometry row and one current row per pulse in its
object's block, one source block per source and one load line per loaded pulse".

For the row-structure model `Pmn.Model.Report` of the report writers, for any number of objects, sources and loads.
The pulse lists of the objects are those of the topology model: their concatenation in object order is `0 … N−1`
(`Pmn.Props.C12.C12_numbering`); that is the hypothesis `hnum`.
-/
import Pmn.Model.Report

namespace Pmn.Props.C19c
open Pmn.Report

/-- rows built from pulse numbers by a constructor the projection recognises -/
theorem filterMap_rows (f : Row → Option Nat) (g : Nat → Row) (hf : ∀ n, f (g n) = some n) (l : List Nat) :
    (l.map (fun p => g (p + 1))).filterMap f = l.map (· + 1) := by
  induction l with
  | nil => rfl
  | cons a r ih => simp only [List.map_cons, List.filterMap_cons, hf, ih]

/-- rows the projection does not recognise -/
theorem filterMap_none_rows (f : Row → Option Nat) (g : Nat → Row) (hf : ∀ n, f (g n) = none) (l : List Nat) :
    (l.map g).filterMap f = [] := by
  induction l with
  | nil => rfl
  | cons a r ih => simp only [List.map_cons, List.filterMap_cons, hf, ih]

/-! ### geometry table -/

theorem geoBlock_numbers (o : RObj) : (geoBlock o).filterMap Row.geoNo? = o.pulses.map (· + 1) := by
  unfold geoBlock
  have h := filterMap_rows Row.geoNo? Row.geoRow (fun _ => rfl) o.pulses
  cases o.noEnds <;> simp only [List.filterMap_cons, List.filterMap_append, Row.geoNo?, if_true, if_false,
    Bool.false_eq_true, List.nil_append, List.singleton_append, h]

/-- the numbered rows of the geometry table, block after block, are the pulses of the objects in object order … -/
theorem C19_geometry_rows (objs : List RObj) :
    (geometry objs).filterMap Row.geoNo? = (objs.flatMap (·.pulses)).map (· + 1) := by
  unfold geometry
  induction objs with
  | nil => rfl
  | cons o r ih =>
    simp only [List.flatMap_cons, List.filterMap_append, List.map_append, geoBlock_numbers, ih]

/-- … hence **one geometry row per pulse, numbered 1 … N, each in the block of the object that owns it** -/
theorem C19_geometry_complete (objs : List RObj) (N : Nat) (hnum : objs.flatMap (·.pulses) = List.range N) :
    (geometry objs).filterMap Row.geoNo? = (List.range N).map (· + 1) ∧
    ∀ o ∈ objs, (geoBlock o).filterMap Row.geoNo? = o.pulses.map (· + 1) := by
  refine ⟨?_, fun o _ => geoBlock_numbers o⟩
  rw [C19_geometry_rows, hnum]

/-! ### sources -/

def srcNo? : Row → Option Nat
  | .srcLine n => some n
  | _ => none

def dataNo? : Row → Option Nat
  | .srcData n => some n
  | _ => none

/-- **one listing line and one SOURCE DATA block per source**, in the order of registration, naming `idx + 1`;
the announced number of sources is the number of lines -/
theorem C19_source_blocks (srcs : List Nat) :
    (sources srcs).filterMap srcNo? = srcs.map (· + 1) ∧
    (sourceData srcs).filterMap dataNo? = srcs.map (· + 1) ∧
    (sources srcs).head? = some (Row.srcCount ((sources srcs).filterMap srcNo?).length) := by
  unfold sources sourceData
  have h1 := filterMap_rows srcNo? Row.srcLine (fun _ => rfl) srcs
  have h2 := filterMap_rows dataNo? Row.srcData (fun _ => rfl) srcs
  refine ⟨?_, ?_, ?_⟩
  · simp only [List.filterMap_cons, srcNo?, h1]
  · exact h2
  · simp only [List.filterMap_cons, srcNo?, h1, List.head?_cons, List.length_map]

/-! ### loads -/

theorem loadLines_numbers (l : RLoad) : (loadLines l).filterMap Row.loadNo? = l.pulses.map (· + 1) := by
  unfold loadLines
  induction l.pulses with
  | nil => rfl
  | cons p r ih =>
    simp only [List.flatMap_cons, List.filterMap_append, List.map_cons, ih]
    cases l.spar
    · simp only [Bool.false_eq_true, if_false, List.filterMap_cons, Row.loadNo?, List.filterMap_nil, List.singleton_append]
    · have hc := filterMap_none_rows Row.loadNo? Row.sparCoef (fun _ => rfl) (List.range (l.order + 1))
      simp only [if_true, List.filterMap_cons, Row.loadNo?, hc, List.singleton_append]

/-- **one load entry per load and loaded pulse** (a line for an impedance load, a header with `order + 1` coefficient
lines for an S-parameter load), naming `idx + 1`, in the order of the loads and of their attachments … -/
theorem C19_load_lines (ls : List RLoad) :
    (loads ls).filterMap Row.loadNo? = (ls.flatMap (·.pulses)).map (· + 1) := by
  unfold loads
  simp only [List.filterMap_cons, Row.loadNo?]
  induction ls with
  | nil => rfl
  | cons l r ih =>
    simp only [List.flatMap_cons, List.filterMap_append, List.map_append, loadLines_numbers, ih]

/-- … and **the announced NUMBER OF LOADS is the number of entries that follow** -/
theorem C19_load_count (ls : List RLoad) :
    (loads ls).head? = some (Row.loadCount ((loads ls).filterMap Row.loadNo?).length) := by
  rw [C19_load_lines]
  unfold loads
  simp only [List.head?_cons, List.length_map, List.length_flatMap]

/-- every S-parameter header is followed by exactly `order + 1` coefficient lines -/
theorem C19_spar_block (l : RLoad) (p : Nat) (h : l.spar = true) :
    loadLines { l with pulses := [p] } =
      Row.sparHead (p + 1) l.order :: (List.range (l.order + 1)).map Row.sparCoef := by
  simp [loadLines, h]

/-! ### current table -/

theorem curBlock_numbers (isJ : Nat → Bool) (o : RObj) :
    (curBlock isJ o).filterMap Row.curNo? = (o.pulses.filter (fun p => !isJ p)).map (· + 1) := by
  unfold curBlock
  have h := filterMap_rows Row.curNo? Row.curRow (fun _ => rfl) (o.pulses.filter (fun p => !isJ p))
  cases o.g0 <;> cases o.g1 <;> cases o.c0 <;> cases o.c1 <;>
    simp only [List.filterMap_cons, List.filterMap_append, List.filterMap_nil, Row.curNo?, if_true, if_false,
      Bool.false_eq_true, List.nil_append, List.append_nil, List.singleton_append, h]

/-- the numbered rows of the current table are, block after block, the pulses of each object that are not
junction pulses … -/
theorem C19_current_rows (isJ : Nat → Bool) (objs : List RObj) :
    (currents isJ objs).filterMap Row.curNo? =
      ((objs.flatMap (·.pulses)).filter (fun p => !isJ p)).map (· + 1) := by
  unfold currents
  induction objs with
  | nil => rfl
  | cons o r ih =>
    simp only [List.flatMap_cons, List.filterMap_append, List.filter_append, List.map_append, curBlock_numbers, ih]

/-- … hence **every pulse that is not a junction pulse has exactly one numbered current row, in the block of its
owner** (junction pulses are the `J` lines of that block: C09) -/
theorem C19_current_complete (isJ : Nat → Bool) (objs : List RObj) (N : Nat)
    (hnum : objs.flatMap (·.pulses) = List.range N) :
    (currents isJ objs).filterMap Row.curNo? = ((List.range N).filter (fun p => !isJ p)).map (· + 1) := by
  rw [C19_current_rows, hnum]

/-- every object block of the current table has an end line (`E` or `J`) for each end that is not grounded -/
theorem C19_current_ends (isJ : Nat → Bool) (o : RObj) :
    ((curBlock isJ o).filter (fun r => r == Row.curE || r == Row.curJ)).length
      = (if o.g0 then 0 else 1) + (if o.g1 then 0 else 1) := by
  unfold curBlock
  have hrow : ∀ l : List Nat, (l.map (fun p => Row.curRow (p + 1))).filter (fun r => r == Row.curE || r == Row.curJ) = [] := by
    intro l; induction l with
    | nil => rfl
    | cons a r ih => simp [List.filter_cons, ih]
  cases o.g0 <;> cases o.g1 <;> cases o.c0 <;> cases o.c1 <;>
    simp [List.filter_append, List.filter_cons, hrow]

/-! ### the whole report -/

/-- in the complete report the sections do not interfere: the geometry rows, load entries and current rows of the
report are those of their sections -/
theorem C19_structure (isJ : Nat → Bool) (objs : List RObj) (srcs : List Nat) (ls : List RLoad) (N : Nat)
    (hnum : objs.flatMap (·.pulses) = List.range N) :
    (report isJ objs srcs ls).filterMap Row.geoNo? = (List.range N).map (· + 1) ∧
    (report isJ objs srcs ls).filterMap Row.loadNo? = (ls.flatMap (·.pulses)).map (· + 1) ∧
    (report isJ objs srcs ls).filterMap Row.curNo? = ((List.range N).filter (fun p => !isJ p)).map (· + 1) ∧
    (report isJ objs srcs ls).filterMap srcNo? = srcs.map (· + 1) ∧
    (report isJ objs srcs ls).filterMap dataNo? = srcs.map (· + 1) := by
  have none_of : ∀ (f : Row → Option Nat) (l : List Row), (∀ r ∈ l, f r = none) → l.filterMap f = [] := by
    intro f l h
    exact List.filterMap_eq_nil_iff.mpr h
  have geo_in_src : ∀ r ∈ sources srcs, Row.geoNo? r = none ∧ Row.loadNo? r = none ∧ Row.curNo? r = none ∧ dataNo? r = none := by
    intro r hr; unfold sources at hr
    simp only [List.mem_cons, List.mem_map] at hr
    rcases hr with rfl | ⟨_, _, rfl⟩ <;> simp [Row.geoNo?, Row.loadNo?, Row.curNo?, dataNo?]
  have in_data : ∀ r ∈ sourceData srcs, Row.geoNo? r = none ∧ Row.loadNo? r = none ∧ Row.curNo? r = none ∧ srcNo? r = none := by
    intro r hr; unfold sourceData at hr
    simp only [List.mem_map] at hr
    rcases hr with ⟨_, _, rfl⟩; simp [Row.geoNo?, Row.loadNo?, Row.curNo?, srcNo?]
  have in_geo : ∀ r ∈ geometry objs, Row.loadNo? r = none ∧ Row.curNo? r = none ∧ srcNo? r = none ∧ dataNo? r = none := by
    intro r hr; unfold geometry at hr
    obtain ⟨o, _, hr⟩ := List.mem_flatMap.mp hr
    unfold geoBlock at hr
    simp only [List.mem_cons, List.mem_append, List.mem_map] at hr
    rcases hr with rfl | hr | ⟨_, _, rfl⟩
    · simp [Row.loadNo?, Row.curNo?, srcNo?, dataNo?]
    · split at hr
      · simp only [List.mem_singleton] at hr; subst hr; simp [Row.loadNo?, Row.curNo?, srcNo?, dataNo?]
      · simp at hr
    · simp [Row.loadNo?, Row.curNo?, srcNo?, dataNo?]
  have in_loads : ∀ r ∈ loads ls, Row.geoNo? r = none ∧ Row.curNo? r = none ∧ srcNo? r = none ∧ dataNo? r = none := by
    intro r hr; unfold loads at hr
    simp only [List.mem_cons, List.mem_flatMap] at hr
    rcases hr with rfl | ⟨l, _, hr⟩
    · simp [Row.geoNo?, Row.curNo?, srcNo?, dataNo?]
    · unfold loadLines at hr
      obtain ⟨p, _, hr⟩ := List.mem_flatMap.mp hr
      split at hr
      · simp only [List.mem_cons, List.mem_map] at hr
        rcases hr with rfl | ⟨_, _, rfl⟩ <;> simp [Row.geoNo?, Row.curNo?, srcNo?, dataNo?]
      · simp only [List.mem_singleton] at hr; subst hr; simp [Row.geoNo?, Row.curNo?, srcNo?, dataNo?]
  have in_cur : ∀ r ∈ currents isJ objs, Row.geoNo? r = none ∧ Row.loadNo? r = none ∧ srcNo? r = none ∧ dataNo? r = none := by
    intro r hr; unfold currents at hr
    obtain ⟨o, _, hr⟩ := List.mem_flatMap.mp hr
    unfold curBlock at hr
    simp only [List.mem_cons, List.mem_append, List.mem_map] at hr
    rcases hr with rfl | (hr | ⟨_, _, rfl⟩) | hr
    · simp [Row.geoNo?, Row.loadNo?, srcNo?, dataNo?]
    · split at hr
      · simp at hr
      · simp only [List.mem_singleton] at hr; subst hr; split <;> simp [Row.geoNo?, Row.loadNo?, srcNo?, dataNo?]
    · simp [Row.geoNo?, Row.loadNo?, srcNo?, dataNo?]
    · split at hr
      · simp at hr
      · simp only [List.mem_singleton] at hr; subst hr; split <;> simp [Row.geoNo?, Row.loadNo?, srcNo?, dataNo?]
  unfold report
  simp only [List.filterMap_append]
  refine ⟨?_, ?_, ?_, ?_, ?_⟩
  · rw [none_of _ _ (fun r h => (geo_in_src r h).1), none_of _ _ (fun r h => (in_loads r h).1),
      none_of _ _ (fun r h => (in_data r h).1), none_of _ _ (fun r h => (in_cur r h).1)]
    simp only [List.append_nil]
    exact (C19_geometry_complete objs N hnum).1
  · rw [none_of _ _ (fun r h => (in_geo r h).1), none_of _ _ (fun r h => (geo_in_src r h).2.1),
      none_of _ _ (fun r h => (in_data r h).2.1), none_of _ _ (fun r h => (in_cur r h).2.1)]
    simp only [List.nil_append, List.append_nil]
    exact C19_load_lines ls
  · rw [none_of _ _ (fun r h => (in_geo r h).2.1), none_of _ _ (fun r h => (geo_in_src r h).2.2.1),
      none_of _ _ (fun r h => (in_loads r h).2.1), none_of _ _ (fun r h => (in_data r h).2.2.1)]
    simp only [List.nil_append]
    exact C19_current_complete isJ objs N hnum
  · rw [none_of _ _ (fun r h => (in_geo r h).2.2.1), none_of _ _ (fun r h => (in_loads r h).2.2.1),
      none_of _ _ (fun r h => (in_data r h).2.2.2), none_of _ _ (fun r h => (in_cur r h).2.2.1)]
    simp only [List.nil_append, List.append_nil]
    exact (C19_source_blocks srcs).1
  · rw [none_of _ _ (fun r h => (in_geo r h).2.2.2), none_of _ _ (fun r h => (geo_in_src r h).2.2.2),
      none_of _ _ (fun r h => (in_loads r h).2.2.2), none_of _ _ (fun r h => (in_cur r h).2.2.2)]
    simp only [List.nil_append, List.append_nil]
    exact (C19_source_blocks srcs).2.1

/-! non-vacuity: two wires joined end to end (pulse 2 is the junction pulse, owned by the second wire), a source on
pulse 1, an impedance load on pulses 0 and 3 and a second-order S-parameter load on pulse 2 -/
example :
    let objs : List RObj := [⟨1, [0, 1], false, false, false, true, false⟩, ⟨2, [2, 3], false, false, true, false, false⟩]
    objs.flatMap (·.pulses) = List.range 4 ∧
    (report (fun p => p == 2) objs [1] [⟨false, 0, [0, 3]⟩, ⟨true, 2, [2]⟩]).length = 25 := by
  decide

end Pmn.Props.C19c
