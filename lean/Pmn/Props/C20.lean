/-
C20 — the command line is fail-safe.

* the `except` clause around the compute loop of the *current* source (names regenerated from the
  AST on every run) catches every exception the numerical kernel can raise, and results that are not
  finite become the diagnostic — so whatever the kernel does, the outcome is the report or the
  one-line diagnostic (`C20_kernel_guard`);
* the decision table of the validation front end never yields anything but usage error, diagnostic
  or report (`C20_table`), and a value class that is let through to a report is one the kernel can
  handle (`C20_accepted_harmless`);
* the clause around the two output files catches what `open` and the writers can raise
  (`C20_output_caught`, `C20_output_guard`);
* composition (`C20_trichotomy_partial`): one arbitrary numeric input, everything else valid,
  arbitrary behaviour of the output stage within `outputRaises` and of the kernel within `kernelRaises`.  Partial: argument lists with several
  simultaneous malformed values are covered by the fuzzing correspondence, not by a theorem.
-/
import Pmn.Model.Guard

namespace Pmn.Props.C20
open Pmn.Guard

def Outcome.ok : Outcome → Bool
  | .usage => true | .diag => true | .report => true | _ => false

/-- the clause around the compute loop catches every kernel exception -/
theorem C20_kernel_caught : ∀ e ∈ kernelRaises, caughtBy Pmn.Const.kernelCaught e = true := by decide

/-- the clause around the construction of the model catches value and arithmetic errors -/
theorem C20_setup_caught :
    ∀ e ∈ [Exc.ValueError, .LinAlgError, .ZeroDivisionError, .OverflowError, .FloatingPointError, .ArithmeticError],
      caughtBy Pmn.Const.setupCaught e = true := by decide

/-- **kernel guard**: whatever the numerical part does (finite results, non-finite results, any
exception of `kernelRaises`), `main` ends with the report or the diagnostic -/
theorem C20_kernel_guard (k : Kernel) (h : ∀ e, k = .raises e → e ∈ kernelRaises) :
    wrapKernel Pmn.Const.kernelCaught k = .report ∨ wrapKernel Pmn.Const.kernelCaught k = .diag := by
  cases k with
  | finite => left; rfl
  | notFinite => right; rfl
  | raises e =>
    right
    have := C20_kernel_caught e (h e rfl)
    simp [wrapKernel, this]

/-- the clause around the output files catches every exception of the output stage -/
theorem C20_output_caught : ∀ e ∈ outputRaises, caughtBy Pmn.Const.outputCaught e = true := by decide

/-- **output guard**: whatever writing the output files does, `main` either carries on or ends with the
diagnostic -/
theorem C20_output_guard (o : Output) (h : ∀ e, o = .raises e → e ∈ outputRaises) :
    wrapOutput Pmn.Const.outputCaught o = none ∨ wrapOutput Pmn.Const.outputCaught o = some .diag := by
  cases o with
  | notRequested => left; rfl
  | written => left; rfl
  | raises e =>
    right
    have := C20_output_caught e (h e rfl)
    simp [wrapOutput, this]

theorem mem_all_fields (f : Field) : f ∈ Field.all := by cases f <;> decide
theorem mem_all_classes (c : NumClass) : c ∈ NumClass.all := by cases c <;> decide

/-- **validation table**: every entry is a usage error, a diagnostic or a report -/
theorem C20_table (f : Field) (c : NumClass) : Outcome.ok (expected f c) = true := by
  have : ∀ f ∈ Field.all, ∀ c ∈ NumClass.all, Outcome.ok (expected f c) = true := by decide
  exact this f (mem_all_fields f) c (mem_all_classes c)

/-- a value that validation lets through to a report is one the kernel can handle -/
theorem C20_accepted_harmless (f : Field) (c : NumClass) (h : expected f c = .report) :
    harmless f c = true := by
  have : ∀ f ∈ Field.all, ∀ c ∈ NumClass.all, expected f c = .report → harmless f c = true := by decide
  exact this f (mem_all_fields f) c (mem_all_classes c) h

/-- `main` for one arbitrary numeric input: validation, then (if accepted) the guarded kernel -/
def mainOutcome (f : Field) (c : NumClass) (o : Output) (k : Kernel) : Outcome :=
  match expected f c with
  | .report =>
    match wrapOutput Pmn.Const.outputCaught o with
    | some r => r
    | none => wrapKernel Pmn.Const.kernelCaught k
  | r => r

/-- **trichotomy** (partial: one malformed numeric input at a time): the outcome is the usage
error, the diagnostic or the report — never an escaped exception, never non-finite output -/
theorem C20_trichotomy_partial (f : Field) (c : NumClass) (o : Output) (k : Kernel)
    (ho : ∀ e, o = .raises e → e ∈ outputRaises)
    (h : ∀ e, k = .raises e → e ∈ kernelRaises) : Outcome.ok (mainOutcome f c o k) = true := by
  unfold mainOutcome
  have ht := C20_table f c
  cases he : expected f c with
  | report =>
    simp only
    rcases C20_output_guard o ho with h0 | h0
    · rw [h0]; simp only
      rcases C20_kernel_guard k h with h1 | h1 <;> rw [h1] <;> rfl
    · rw [h0]; rfl
  | usage => rfl
  | diag => rfl
  | crash e => rw [he] at ht; simp [Outcome.ok] at ht
  | nonfinite => rw [he] at ht; simp [Outcome.ok] at ht

/-- `main` for any number of numeric inputs given at once (one value class per input) -/
def mainOutcomeMulti (inputs : List (Field × NumClass)) (o : Output) (k : Kernel) : Outcome :=
  match composeOutcome (inputs.map fun fc => expected fc.1 fc.2) with
  | .report =>
    match wrapOutput Pmn.Const.outputCaught o with
    | some r => r
    | none => wrapKernel Pmn.Const.kernelCaught k
  | r => r

theorem composeOutcome_ok (os : List Outcome) (h : ∀ o ∈ os, Outcome.ok o = true) : Outcome.ok (composeOutcome os) = true := by
  unfold composeOutcome
  split
  · rfl
  · cases hf : os.find? (· != .report) with
    | none => rfl
    | some o => exact h o (List.mem_of_find?_eq_some hf)

/-- **trichotomy for several inputs at once**: whatever value classes any number of the numeric inputs hold together, the
outcome is the usage error, the diagnostic or the report (composition rule `composeOutcome`: a usage error of any input
first, else the first diagnostic) -/
theorem C20_trichotomy_multi (inputs : List (Field × NumClass)) (o : Output) (k : Kernel)
    (ho : ∀ e, o = .raises e → e ∈ outputRaises)
    (h : ∀ e, k = .raises e → e ∈ kernelRaises) : Outcome.ok (mainOutcomeMulti inputs o k) = true := by
  unfold mainOutcomeMulti
  have hc : Outcome.ok (composeOutcome (inputs.map fun fc => expected fc.1 fc.2)) = true := by
    apply composeOutcome_ok
    intro x hx
    obtain ⟨fc, _, rfl⟩ := List.mem_map.mp hx
    exact C20_table fc.1 fc.2
  cases he : composeOutcome (inputs.map fun fc => expected fc.1 fc.2) with
  | report =>
    simp only
    rcases C20_output_guard o ho with h0 | h0
    · rw [h0]; simp only
      rcases C20_kernel_guard k h with h1 | h1 <;> rw [h1] <;> rfl
    · rw [h0]; rfl
  | usage => rfl
  | diag => rfl
  | crash e => rw [he] at hc; simp [Outcome.ok] at hc
  | nonfinite => rw [he] at hc; simp [Outcome.ok] at hc

/-- a run with all inputs accepted is a report only if each of them is of a harmless class -/
theorem C20_multi_accepted_harmless (inputs : List (Field × NumClass))
    (h : composeOutcome (inputs.map fun fc => expected fc.1 fc.2) = .report) :
    ∀ fc ∈ inputs, harmless fc.1 fc.2 = true := by
  intro fc hfc
  apply C20_accepted_harmless
  unfold composeOutcome at h
  split at h
  · cases h
  · cases hf : (inputs.map fun fc => expected fc.1 fc.2).find? (· != .report) with
    | some o =>
      rw [hf] at h
      simp only at h
      have := List.find?_some hf
      rw [h] at this
      simp at this
    | none =>
      have := List.find?_eq_none.mp hf (expected fc.1 fc.2) (List.mem_map.mpr ⟨fc, hfc, rfl⟩)
      simpa using this

/-! ### which results are computed -/

/-- `main` with the result options taken into account -/
def mainOutcomeSel (opts : List ResOpt) (nearGiven : Bool) (inputs : List (Field × NumClass)) (o : Output) (k : Kernel) :
    Outcome :=
  match composeSel opts nearGiven inputs with
  | .report =>
    match wrapOutput Pmn.Const.outputCaught o with
    | some r => r
    | none => wrapKernel Pmn.Const.kernelCaught k
  | r => r

theorem expectedSel_ok (s : Selection) (rows : Bool) (f : Field) (c : NumClass) : Outcome.ok (expectedSel s rows f c) = true := by
  have h := C20_table f c
  unfold expectedSel
  cases he : expected f c with
  | diag => simp only; split <;> rfl
  | usage => rfl
  | report => rfl
  | crash e => rw [he] at h; simp [Outcome.ok] at h
  | nonfinite => rw [he] at h; simp [Outcome.ok] at h

theorem composeSel_ok (opts : List ResOpt) (nearGiven : Bool) (inputs : List (Field × NumClass)) :
    Outcome.ok (composeSel opts nearGiven inputs) = true := by
  unfold composeSel
  cases select opts nearGiven with
  | none =>
    simp only
    apply composeOutcome_ok
    intro x hx
    rcases List.mem_append.mp hx with hx | hx
    · obtain ⟨fc, _, rfl⟩ := List.mem_map.mp hx
      exact C20_table fc.1 fc.2
    · simp only [List.mem_singleton] at hx; subst hx; rfl
  | some s =>
    simp only
    apply composeOutcome_ok
    intro x hx
    obtain ⟨fc, _, rfl⟩ := List.mem_map.mp hx
    exact expectedSel_ok s _ fc.1 fc.2

/-- **trichotomy with the result options**: whatever results are requested (any list of `--option`, `--near-field` present or
not) and whatever value classes any number of inputs hold, the outcome is the usage error, the diagnostic or the report -/
theorem C20_trichotomy_sel (opts : List ResOpt) (nearGiven : Bool) (inputs : List (Field × NumClass)) (o : Output) (k : Kernel)
    (ho : ∀ e, o = .raises e → e ∈ outputRaises)
    (h : ∀ e, k = .raises e → e ∈ kernelRaises) : Outcome.ok (mainOutcomeSel opts nearGiven inputs o k) = true := by
  unfold mainOutcomeSel
  have hc := composeSel_ok opts nearGiven inputs
  cases he : composeSel opts nearGiven inputs with
  | report =>
    simp only
    rcases C20_output_guard o ho with h0 | h0
    · rw [h0]; simp only
      rcases C20_kernel_guard k h with h1 | h1 <;> rw [h1] <;> rfl
    · rw [h0]; rfl
  | usage => rfl
  | diag => rfl
  | crash e => rw [he] at hc; simp [Outcome.ok] at hc
  | nonfinite => rw [he] at hc; simp [Outcome.ok] at hc

/-- the default: no `--option` means the near field when `--near-field` parameters are given and the far field (in dBi)
otherwise; `none` alone computes neither; `near-field` without parameters is the diagnostic -/
theorem C20_select_default (nearGiven : Bool) :
    select [] nearGiven = some { far := !nearGiven, farAbs := false, near := nearGiven } ∧
    select [.none] nearGiven = some { far := false, farAbs := false, near := false } ∧
    select [.nearField] false = none := by
  cases nearGiven <;> decide

/-- the diagnostic "Option near-field needs --near-field parameters" whatever else is on the command line (unless `argparse`
rejects it first) -/
theorem C20_near_needs_parameters (opts : List ResOpt) (inputs : List (Field × NumClass)) (h : ResOpt.nearField ∈ opts) :
    composeSel opts false inputs = .usage ∨ composeSel opts false inputs = .diag := by
  have hs : select opts false = none := by
    unfold select
    have : opts.contains ResOpt.nearField = true := List.contains_iff_mem.mpr h
    rw [this]; rfl
  unfold composeSel
  rw [hs]
  simp only
  unfold composeOutcome
  split
  · left; rfl
  · right
    rename_i hu
    cases hf : (inputs.map (fun fc => expected fc.1 fc.2) ++ [Outcome.diag]).find? (· != .report) with
    | none =>
      have := List.find?_eq_none.mp hf Outcome.diag (by simp)
      simp at this
    | some o =>
      simp only
      have hm := List.mem_of_find?_eq_some hf
      have hp := List.find?_some hf
      rcases List.mem_append.mp hm with hm | hm
      · obtain ⟨fc, _, rfl⟩ := List.mem_map.mp hm
        have hok := C20_table fc.1 fc.2
        cases he : expected fc.1 fc.2 with
        | diag => rfl
        | report => rw [he] at hp; simp at hp
        | usage =>
          exfalso; apply hu
          apply List.any_eq_true.mpr
          exact ⟨expected fc.1 fc.2, List.mem_append.mpr (Or.inl hm), by rw [he]; rfl⟩
        | crash e => rw [he] at hok; simp [Outcome.ok] at hok
        | nonfinite => rw [he] at hok; simp [Outcome.ok] at hok
      · simp only [List.mem_singleton] at hm; exact hm

/-- an input that only a result which is not computed looks at cannot end the run with its diagnostic; an input that is
validated while the model is built does so whatever is requested -/
theorem C20_unselected_silent (s : Selection) (rows : Bool) (f : Field) (c : NumClass) :
    (s.runs rows (stage f c) = false → expectedSel s rows f c ≠ .diag) ∧
    (s.runs rows (stage f c) = true → expectedSel s rows f c = expected f c) := by
  unfold expectedSel
  constructor
  · intro h
    cases he : expected f c <;> simp [h]
  · intro h
    cases he : expected f c <;> simp [h]

/-- with every result requested (and a far-field table that has rows) the rule is the composition rule for inputs that are all evaluated -/
theorem C20_sel_all (nearGiven : Bool) (inputs : List (Field × NumClass)) (opts : List ResOpt)
    (s : Selection) (hs : select opts nearGiven = some s) (hf : s.far = true) (ha : s.farAbs = true) (hn : s.near = true)
    (hr : farHasRows inputs = true) :
    composeSel opts nearGiven inputs = composeOutcome (inputs.map fun fc => expected fc.1 fc.2) := by
  unfold composeSel
  rw [hs]
  simp only
  congr 1
  apply List.map_congr_left
  intro fc _
  apply (C20_unselected_silent s _ fc.1 fc.2).2
  cases stage fc.1 fc.2 <;> simp [Selection.runs, hf, ha, hn, hr]

/-- only thirteen cells of the table belong to a particular result; every other diagnostic is independent of the request -/
theorem C20_stage_cells :
    (Field.all.flatMap fun f => (NumClass.all.filter fun c => stage f c != .always).map fun c => (f, c)).length = 13 := by
  decide

/-- … and each of them is a diagnostic in the table (the stage matters only there) -/
theorem C20_stage_only_diag (f : Field) (c : NumClass) (h : stage f c ≠ .always) : expected f c = .diag := by
  have : ∀ f ∈ Field.all, ∀ c ∈ NumClass.all, stage f c ≠ .always → expected f c = .diag := by decide
  exact this f (mem_all_fields f) c (mem_all_classes c) h

/-- the false alarm of the first version of the tie, as a statement of the model: an infinite azimuth step next to a
near-field request is a report (only the near field is computed), with the far field requested it is the diagnostic -/
example : composeSel [] true [(.phiInc, .inf), (.nfPower, .zero)] = .report ∧
    composeSel [.farField, .nearField] true [(.phiInc, .inf), (.nfPower, .zero)] = .diag := by decide

/-- … and of the second one: a negative number of radials is noticed in the values of the far-field directions; with no
direction at all (a zenith count of zero or less) the run is a report with an empty pattern -/
example : composeSel [] false [(.radialCount, .neg)] = .diag ∧
    composeSel [] false [(.thetaCount, .neg), (.radialCount, .neg)] = .report ∧
    composeSel [] false [(.thetaCount, .neg), (.phiInc, .inf)] = .diag := by decide

/-- the former `main` had no clause around the compute loop: a kernel exception escaped -/
theorem C20_defect_witness : wrapKernel [] (.raises .ZeroDivisionError) = .crash .ZeroDivisionError := by
  decide

/-- the former `main` opened the output files outside any clause: an unwritable path escaped as a traceback,
and so did the `NotImplementedError` of a load combination BASIC cannot express -/
theorem C20_output_defect_witness :
    wrapOutput [] (.raises .FileNotFoundError) = some (.crash .FileNotFoundError) ∧
    wrapOutput ["OSError"] (.raises .NotImplementedError) = some (.crash .NotImplementedError) := by
  decide

/-- … and the clause before the repair of this round let the `OverflowError` of `'%g' % <400-digit count>` through -/
theorem C20_output_defect_witness2 :
    wrapOutput ["OSError", "NotImplementedError"] (.raises .OverflowError) = some (.crash .OverflowError) := by
  decide

/-! non-vacuity: the table has accepting entries, and a kernel that raises is a legal instance -/
example : expected .frequency .pos = .report ∧ expected .frequency .zero = .diag := by decide
example : ∀ e, Kernel.raises Exc.OverflowError = .raises e → e ∈ kernelRaises := by
  intro e h; cases h; decide

end Pmn.Props.C20
