/-
C20 — the command line is fail-safe.

* the `except` clause around the compute loop of the *current* source (names regenerated from the
  AST on every run) catches every exception the numerical kernel can raise, and results that are not
  finite become the diagnostic — so whatever the kernel does, the outcome is the report or the
  one-line diagnostic (`C20_kernel_guard`);
* the decision table of the validation front end never yields anything but usage error, diagnostic
  or report (`C20_table`), and a value class that is let through to a report is one the kernel can
  handle (`C20_accepted_harmless`);
* the clause around the two output files catches what `open` and the writers can raise
  (`C20_output_caught`, `C20_output_guard`);
* composition (`C20_trichotomy_partial`): one arbitrary numeric input, everything else valid,
  arbitrary behaviour of the output stage within `outputRaises` and of the kernel within `kernelRaises`.  Partial: argument lists with several
  simultaneous malformed values are covered by the fuzzing correspondence, not by a theorem.
-/
import Pmn.Model.Guard

namespace Pmn.Props.C20
open Pmn.Guard

def Outcome.ok : Outcome → Bool
  | .usage => true | .diag => true | .report => true | _ => false

/-- the clause around the compute loop catches every kernel exception -/
theorem C20_kernel_caught : ∀ e ∈ kernelRaises, caughtBy Pmn.Const.kernelCaught e = true := by decide

/-- the clause around the construction of the model catches value and arithmetic errors -/
theorem C20_setup_caught :
    ∀ e ∈ [Exc.ValueError, .LinAlgError, .ZeroDivisionError, .OverflowError, .FloatingPointError, .ArithmeticError],
      caughtBy Pmn.Const.setupCaught e = true := by decide

/-- **kernel guard**: whatever the numerical part does (finite results, non-finite results, any
exception of `kernelRaises`), `main` ends with the report or the diagnostic -/
theorem C20_kernel_guard (k : Kernel) (h : ∀ e, k = .raises e → e ∈ kernelRaises) :
    wrapKernel Pmn.Const.kernelCaught k = .report ∨ wrapKernel Pmn.Const.kernelCaught k = .diag := by
  cases k with
  | finite => left; rfl
  | notFinite => right; rfl
  | raises e =>
    right
    have := C20_kernel_caught e (h e rfl)
    simp [wrapKernel, this]

/-- the clause around the output files catches every exception of the output stage -/
theorem C20_output_caught : ∀ e ∈ outputRaises, caughtBy Pmn.Const.outputCaught e = true := by decide

/-- **output guard**: whatever writing the output files does, `main` either carries on or ends with the
diagnostic -/
theorem C20_output_guard (o : Output) (h : ∀ e, o = .raises e → e ∈ outputRaises) :
    wrapOutput Pmn.Const.outputCaught o = none ∨ wrapOutput Pmn.Const.outputCaught o = some .diag := by
  cases o with
  | notRequested => left; rfl
  | written => left; rfl
  | raises e =>
    right
    have := C20_output_caught e (h e rfl)
    simp [wrapOutput, this]

theorem mem_all_fields (f : Field) : f ∈ Field.all := by cases f <;> decide
theorem mem_all_classes (c : NumClass) : c ∈ NumClass.all := by cases c <;> decide

/-- **validation table**: every entry is a usage error, a diagnostic or a report -/
theorem C20_table (f : Field) (c : NumClass) : Outcome.ok (expected f c) = true := by
  have : ∀ f ∈ Field.all, ∀ c ∈ NumClass.all, Outcome.ok (expected f c) = true := by decide
  exact this f (mem_all_fields f) c (mem_all_classes c)

/-- a value that validation lets through to a report is one the kernel can handle -/
theorem C20_accepted_harmless (f : Field) (c : NumClass) (h : expected f c = .report) :
    harmless f c = true := by
  have : ∀ f ∈ Field.all, ∀ c ∈ NumClass.all, expected f c = .report → harmless f c = true := by decide
  exact this f (mem_all_fields f) c (mem_all_classes c) h

/-- `main` for one arbitrary numeric input: validation, then (if accepted) the guarded kernel -/
def mainOutcome (f : Field) (c : NumClass) (o : Output) (k : Kernel) : Outcome :=
  match expected f c with
  | .report =>
    match wrapOutput Pmn.Const.outputCaught o with
    | some r => r
    | none => wrapKernel Pmn.Const.kernelCaught k
  | r => r

/-- **trichotomy** (partial: one malformed numeric input at a time): the outcome is the usage
error, the diagnostic or the report — never an escaped exception, never non-finite output -/
theorem C20_trichotomy_partial (f : Field) (c : NumClass) (o : Output) (k : Kernel)
    (ho : ∀ e, o = .raises e → e ∈ outputRaises)
    (h : ∀ e, k = .raises e → e ∈ kernelRaises) : Outcome.ok (mainOutcome f c o k) = true := by
  unfold mainOutcome
  have ht := C20_table f c
  cases he : expected f c with
  | report =>
    simp only
    rcases C20_output_guard o ho with h0 | h0
    · rw [h0]; simp only
      rcases C20_kernel_guard k h with h1 | h1 <;> rw [h1] <;> rfl
    · rw [h0]; rfl
  | usage => rfl
  | diag => rfl
  | crash e => rw [he] at ht; simp [Outcome.ok] at ht
  | nonfinite => rw [he] at ht; simp [Outcome.ok] at ht

/-- `main` for any number of numeric inputs given at once (one value class per input) -/
def mainOutcomeMulti (inputs : List (Field × NumClass)) (o : Output) (k : Kernel) : Outcome :=
  match composeOutcome (inputs.map fun fc => expected fc.1 fc.2) with
  | .report =>
    match wrapOutput Pmn.Const.outputCaught o with
    | some r => r
    | none => wrapKernel Pmn.Const.kernelCaught k
  | r => r

theorem composeOutcome_ok (os : List Outcome) (h : ∀ o ∈ os, Outcome.ok o = true) : Outcome.ok (composeOutcome os) = true := by
  unfold composeOutcome
  split
  · rfl
  · cases hf : os.find? (· != .report) with
    | none => rfl
    | some o => exact h o (List.mem_of_find?_eq_some hf)

/-- **trichotomy for several inputs at once**: whatever value classes any number of the numeric inputs hold together, the
outcome is the usage error, the diagnostic or the report (composition rule `composeOutcome`: a usage error of any input
first, else the first diagnostic) -/
theorem C20_trichotomy_multi (inputs : List (Field × NumClass)) (o : Output) (k : Kernel)
    (ho : ∀ e, o = .raises e → e ∈ outputRaises)
    (h : ∀ e, k = .raises e → e ∈ kernelRaises) : Outcome.ok (mainOutcomeMulti inputs o k) = true := by
  unfold mainOutcomeMulti
  have hc : Outcome.ok (composeOutcome (inputs.map fun fc => expected fc.1 fc.2)) = true := by
    apply composeOutcome_ok
    intro x hx
    obtain ⟨fc, _, rfl⟩ := List.mem_map.mp hx
    exact C20_table fc.1 fc.2
  cases he : composeOutcome (inputs.map fun fc => expected fc.1 fc.2) with
  | report =>
    simp only
    rcases C20_output_guard o ho with h0 | h0
    · rw [h0]; simp only
      rcases C20_kernel_guard k h with h1 | h1 <;> rw [h1] <;> rfl
    · rw [h0]; rfl
  | usage => rfl
  | diag => rfl
  | crash e => rw [he] at hc; simp [Outcome.ok] at hc
  | nonfinite => rw [he] at hc; simp [Outcome.ok] at hc

/-- a run with all inputs accepted is a report only if each of them is of a harmless class -/
theorem C20_multi_accepted_harmless (inputs : List (Field × NumClass))
    (h : composeOutcome (inputs.map fun fc => expected fc.1 fc.2) = .report) :
    ∀ fc ∈ inputs, harmless fc.1 fc.2 = true := by
  intro fc hfc
  apply C20_accepted_harmless
  unfold composeOutcome at h
  split at h
  · cases h
  · cases hf : (inputs.map fun fc => expected fc.1 fc.2).find? (· != .report) with
    | some o =>
      rw [hf] at h
      simp only at h
      have := List.find?_some hf
      rw [h] at this
      simp at this
    | none =>
      have := List.find?_eq_none.mp hf (expected fc.1 fc.2) (List.mem_map.mpr ⟨fc, hfc, rfl⟩)
      simpa using this

/-- the former `main` had no clause around the compute loop: a kernel exception escaped -/
theorem C20_defect_witness : wrapKernel [] (.raises .ZeroDivisionError) = .crash .ZeroDivisionError := by
  decide

/-- the former `main` opened the output files outside any clause: an unwritable path escaped as a traceback,
and so did the `NotImplementedError` of a load combination BASIC cannot express -/
theorem C20_output_defect_witness :
    wrapOutput [] (.raises .FileNotFoundError) = some (.crash .FileNotFoundError) ∧
    wrapOutput ["OSError"] (.raises .NotImplementedError) = some (.crash .NotImplementedError) := by
  decide

/-- … and the clause before the repair of this round let the `OverflowError` of `'%g' % <400-digit count>` through -/
theorem C20_output_defect_witness2 :
    wrapOutput ["OSError", "NotImplementedError"] (.raises .OverflowError) = some (.crash .OverflowError) := by
  decide

/-! non-vacuity: the table has accepting entries, and a kernel that raises is a legal instance -/
example : expected .frequency .pos = .report ∧ expected .frequency .zero = .diag := by decide
example : ∀ e, Kernel.raises Exc.OverflowError = .raises e → e ∈ kernelRaises := by
  intro e h; cases h; decide

end Pmn.Props.C20
