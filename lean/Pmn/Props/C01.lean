/-
C01 — power balance.

What is a theorem here is the exact bookkeeping of the solved system; the 1.5 % agreement of the
integrated far field with it is a numerical property of the pulse-basis moment method and is
evaluated on the implementation (harness/c01.py).

* `C01_split` : if the system matrix is `Z0 + diag (c_p · Z_L,p)` and the right-hand side is
  `c_p · V_p` (in the code `c_p = −j g_p / m`, `g_p = 2` for grounded pulses over ground, else 1 —
  the same weight on load and excitation), then for the solved currents

      Σ_p ½ Re (V_p conj I_p) = Σ_p ½ Re (Z_L,p) |I_p|²  +  Σ_p ½ Re ((Z0 I)_p / c_p · conj I_p)

  source power = power dissipated in the loads + power the unloaded structure takes up.  A wrong load
  weight, or a weight on the load that differs from the one on the excitation, breaks this identity
  (not a tolerance): the harness evaluates both sides on `Mininec.Z`, `rhs`, `current`, the loads.
* `C01_split_weights` : the same with the code's weights written out.
* `C01_norm` : the gain constants are consistent: `2 · k9c · g0 = 1` to 2e-5 (gain of an isotropic
  radiator is 1), from the constants regenerated from the source.
* `C01_real_source_power` : `Excitation.power` is `½ Re (V conj I)`, additive over sources.
-/
import Pmn.Model.Const
import Mathlib.LinearAlgebra.Matrix.NonsingularInverse
import Mathlib.Data.Complex.Basic
import Mathlib.Tactic.Ring
import Mathlib.Tactic.NormNum
import Mathlib.Tactic.FieldSimp
import Mathlib.Tactic.LinearCombination

namespace Pmn.Props.C01
open Complex ComplexConjugate

variable {n : Type} [Fintype n]

theorem re_mul_conj_self (z w : ℂ) : (z * w * conj w).re = z.re * Complex.normSq w := by
  rw [mul_assoc, Complex.mul_conj]
  simp [Complex.mul_re]

/-- **source power = load dissipation + power taken by the unloaded structure** -/
theorem C01_split (Z0 : Matrix n n ℂ) (ZL c V I : n → ℂ) (hc : ∀ p, c p ≠ 0)
    (h : ∀ p, (Z0.mulVec I) p + c p * ZL p * I p = c p * V p) :
    ∑ p, (V p * conj (I p)).re / 2
      = ∑ p, (ZL p).re * Complex.normSq (I p) / 2 + ∑ p, ((Z0.mulVec I) p / c p * conj (I p)).re / 2 := by
  rw [← Finset.sum_add_distrib]
  apply Finset.sum_congr rfl
  intro p _
  have hV : V p = ZL p * I p + (Z0.mulVec I) p / c p := by
    have := h p
    field_simp [hc p]
    linear_combination -this
  rw [hV, add_mul, Complex.add_re, re_mul_conj_self]
  ring

/-- the code's weights: `c_p = −j g_p / m` with `m ≠ 0`, `g_p ∈ {1, 2}`; then
`(Z0 I)_p / c_p = j m (Z0 I)_p / g_p` -/
theorem C01_split_weights (Z0 : Matrix n n ℂ) (ZL V I : n → ℂ) (g : n → ℂ) (m : ℂ) (hm : m ≠ 0)
    (hg : ∀ p, g p ≠ 0)
    (h : ∀ p, (Z0.mulVec I) p + (-Complex.I * g p / m) * ZL p * I p = (-Complex.I * g p / m) * V p) :
    ∑ p, (V p * conj (I p)).re / 2
      = ∑ p, (ZL p).re * Complex.normSq (I p) / 2
        + ∑ p, (Complex.I * m * (Z0.mulVec I) p / g p * conj (I p)).re / 2 := by
  have hc : ∀ p, (-Complex.I * g p / m) ≠ 0 := by
    intro p
    exact div_ne_zero (mul_ne_zero (neg_ne_zero.mpr Complex.I_ne_zero) (hg p)) hm
  rw [C01_split Z0 ZL (fun p => -Complex.I * g p / m) V I hc h]
  congr 1
  apply Finset.sum_congr rfl
  intro p _
  congr 2
  have hI : Complex.I * Complex.I = -1 := Complex.I_mul_I
  field_simp [hg p, hm]
  linear_combination (-(Z0.mulVec I p) * conj (I p)) * hI

/-- non-vacuity: a one-pulse system `z0 I + c zl I = c v` -/
example : ∃ (Z0 : Matrix (Fin 1) (Fin 1) ℂ) (ZL c V I : Fin 1 → ℂ), (∀ p, c p ≠ 0) ∧
    ∀ p, (Z0.mulVec I) p + c p * ZL p * I p = c p * V p :=
  ⟨!![1], fun _ => 1, fun _ => 1, fun _ => 2, fun _ => 1, by simp, by
    intro p; simp [Matrix.mulVec, dotProduct]; norm_num⟩

/-- the real power of a source, `Excitation.power = ½ Re (V conj I)`, written with real and
imaginary parts as the code does (`.5 * (V.real * I.real + V.imag * I.imag)`) -/
theorem C01_real_source_power (V I : ℂ) : (V * conj I).re / 2 = (V.re * I.re + V.im * I.im) / 2 := by
  simp [Complex.mul_re]

/-- **the gain constants are consistent**: with `gain = k9c |E r|² / P` and `E r = g0 · (…)` an
isotropic radiator has gain `2 k9c g0 = 1` (to 2e-5, the precision of the source constants) -/
theorem C01_norm :
    |2 * ((Pmn.Const.k9Factor.num : ℚ) / Pmn.Const.k9Factor.den) * ((Pmn.Const.g0.num : ℚ) / Pmn.Const.g0.den) - 1|
      < 2 / 100000 := by
  simp only [Pmn.Const.k9Factor, Pmn.Const.g0]; norm_num

end Pmn.Props.C01
