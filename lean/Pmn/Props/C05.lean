/-
C05 — rigid-motion invariance of the impedance matrix (and with it of currents and impedances).

For the fill model `Pmn.Fill.entry` over ℝ:
* translation: for *any* potential functional Ψ the entry is unchanged when both pulses are shifted
  by the same vector (free space), resp. by a horizontal vector (over ground) — the fill uses only
  relative positions (this is also C02's "nothing but the pulse geometry");
* rotation: the potential integral `psi` (with its Gauss-order, exact-kernel and small-radius
  decisions) depends on its vector arguments only through lengths, so it is invariant under every
  orthogonal map; hence every entry is invariant under a rotation of the whole antenna in free
  space and under a rotation about the vertical axis over ground.
Equal matrices and right-hand sides give equal currents and impedances (uniqueness, C07).
Partial: the (s, f/s) scaling clause and the statement for the far-field pattern are not theorems;
they are evaluated on the implementation by harness/c05.py.
-/
import Pmn.Model.Fill
import Pmn.Props.C13
import Mathlib.LinearAlgebra.Matrix.NonsingularInverse
import Mathlib.LinearAlgebra.Matrix.ToLin
import Mathlib.Data.Complex.Basic

namespace Pmn.Props.C05
open Pmn.Fill Pmn.Geom Pmn.Props.C13

/-! ### translation -/

def shiftSide (s : V3 ℝ) (x : Side ℝ) : Side ℝ := { x with fend := vadd x.fend s }
def shiftPulse (s : V3 ℝ) (p : PulseD ℝ) : PulseD ℝ :=
  { p with pt := vadd p.pt s, s0 := shiftSide s p.s0, s1 := shiftSide s p.s1 }

theorem side_shift (s : V3 ℝ) (p : PulseD ℝ) (pos : Bool) :
    side (shiftPulse s p) pos = shiftSide s (side p pos) := by
  cases pos <;> rfl

theorem endseg_shift (s : V3 ℝ) (p : PulseD ℝ) (pos : Bool) (a : ℝ) :
    endseg (shiftPulse s p) pos a = vadd (endseg p pos a) s := by
  cases pos
  · simp only [endseg, side, shiftSide, shiftPulse, vadd, vsub, vsmul, V3.mk.injEq, Bool.false_eq_true,
      if_false]
    refine ⟨?_, ?_, ?_⟩ <;> ring
  · simp only [endseg, side, shiftSide, shiftPulse, vadd, vsub, vsmul, V3.mk.injEq, if_true]
    refine ⟨?_, ?_, ?_⟩ <;> ring

theorem dvecs_shift (s : V3 ℝ) (p : PulseD ℝ) (pos : Bool) (a : ℝ) :
    dvecs (shiftPulse s p) pos a = (vadd (dvecs p pos a).1 s, vadd (dvecs p pos a).2 s) := by
  unfold dvecs
  cases pos <;> simp only [endseg_shift, Bool.false_eq_true, if_false, if_true] <;> rfl

/-- the vector from the observation point to a (mirrored) source point does not change when both
are shifted by `s` — for the mirrored point only if the shift is horizontal -/
theorem rel_shift (k : ℝ) (s a b : V3 ℝ) (h : k = 1 ∨ s.z = 0) :
    vsub (kmul k (vadd a s)) (vadd b s) = vsub (kmul k a) b := by
  simp only [vsub, kmul, vadd, V3.mk.injEq]
  refine ⟨by ring, by ring, ?_⟩
  rcases h with h | h
  · rw [h]; ring
  · rw [h]; ring

/-- a functional that looks at the source pulse only through the data of its two sides other than
positions (lengths, radii, …) — true of `psi` and of `psiSpec` -/
@[reducible] def PosFree (Ψ : PsiFn ℝ) : Prop :=
  ∀ (s : V3 ℝ) u v kneg sc pos pj x f, Ψ u v kneg sc pos (shiftPulse s pj) x f = Ψ u v kneg sc pos pj x f

theorem entryK8_shift (Ψ : PsiFn ℝ) (hΨ : PosFree Ψ) (c : Ctx ℝ) (k : ℝ) (kneg : Bool) (s : V3 ℝ)
    (pi pj : PulseD ℝ) (xct : Bool) (f8 : Nat) (h : k = 1 ∨ s.z = 0) :
    entryK8 Ψ c k kneg (shiftPulse s pi) (shiftPulse s pj) xct f8 = entryK8 Ψ c k kneg pi pj xct f8 := by
  have hv : ∀ pos, vecpot Ψ c k kneg (shiftPulse s pi) (shiftPulse s pj) pos xct = vecpot Ψ c k kneg pi pj pos xct := by
    intro pos
    unfold vecpot
    simp only [side_shift, dvecs_shift, hΨ]
    have e1 : (shiftPulse s pi).idx = pi.idx := rfl
    have e2 : (shiftPulse s pj).idx = pj.idx := rfl
    have e3 : (shiftPulse s pi).pt = vadd pi.pt s := rfl
    simp only [e1, e2, e3, rel_shift k s _ _ h, shiftSide]
  have hs : ∀ p1 p2 sm, scapot Ψ c k kneg (shiftPulse s pi) (shiftPulse s pj) p1 p2 sm xct
      = scapot Ψ c k kneg pi pj p1 p2 sm xct := by
    intro p1 p2 sm
    unfold scapot
    simp only [side_shift, dvecs_shift, endseg_shift, hΨ]
    have e1 : (shiftPulse s pi).owner = pi.owner := rfl
    have e2 : (shiftPulse s pj).owner = pj.owner := rfl
    simp only [e1, e2, rel_shift k s _ _ h, shiftSide]
  unfold entryK8
  simp only [hv, hs]
  rfl

theorem entryK_shift (Ψ : PsiFn ℝ) (hΨ : PosFree Ψ) (c : Ctx ℝ) (k : ℝ) (kneg : Bool) (s : V3 ℝ)
    (pi pj : PulseD ℝ) (xct : Bool) (h : k = 1 ∨ s.z = 0) :
    entryK Ψ c k kneg (shiftPulse s pi) (shiftPulse s pj) xct = entryK Ψ c k kneg pi pj xct :=
  entryK8_shift Ψ hΨ c k kneg s pi pj xct 0 h

/-- **translation invariance** of every matrix entry, for any potential functional: in free space
under every translation, over a ground plane under every horizontal translation -/
theorem C05_translate (Ψ : PsiFn ℝ) (hΨ : PosFree Ψ) (c : Ctx ℝ) (hasGround : Bool) (s : V3 ℝ)
    (pi pj : PulseD ℝ) (xct : Bool) (h : hasGround = false ∨ s.z = 0) :
    entry Ψ c hasGround (shiftPulse s pi) (shiftPulse s pj) xct = entry Ψ c hasGround pi pj xct := by
  unfold entry
  have e0 : (shiftPulse s pj).s0.gnd = pj.s0.gnd := rfl
  have e1 : (shiftPulse s pj).s1.gnd = pj.s1.gnd := rfl
  simp only [e0, e1]
  rw [entryK_shift Ψ hΨ c _ false s pi pj xct (Or.inl (by norm_num))]
  rcases h with h | h
  · subst h; simp
  · rw [entryK_shift Ψ hΨ c _ true s pi pj xct (Or.inr h)]

/-- … and the same for the fill as implemented, including its evaluation shortcuts -/
theorem C05_translate_algo (c : Ctx ℝ) (hasGround : Bool) (s : V3 ℝ) (pi pj : PulseD ℝ) (xct : Bool)
    (hΨ : PosFree (psi c)) (h : hasGround = false ∨ s.z = 0) :
    entryAlgo c hasGround (shiftPulse s pi) (shiftPulse s pj) xct = entryAlgo c hasGround pi pj xct := by
  unfold entryAlgo
  have e0 : (shiftPulse s pj).s0.gnd = pj.s0.gnd := rfl
  have e1 : (shiftPulse s pj).s1.gnd = pj.s1.gnd := rfl
  have ef : f8Of (shiftPulse s pi) (shiftPulse s pj) = f8Of pi pj := rfl
  simp only [e0, e1, ef]
  rw [entryK8_shift (psi c) hΨ c _ false s pi pj xct _ (Or.inl (by norm_num))]
  rcases h with h | h
  · subst h; simp
  · rw [entryK8_shift (psi c) hΨ c _ true s pi pj xct _ (Or.inr h)]

/-- the implemented functional and the specification functional are position free -/
theorem psi_posFree (c : Ctx ℝ) : PosFree (psi c) := by
  intro s u v kneg sc pos pj x f
  unfold psi
  simp only [side_shift, shiftSide]

theorem psiSpec_posFree (c : Ctx ℝ) (tol : ℝ) : PosFree (psiSpec c tol) := by
  intro s u v kneg sc pos pj x f
  unfold psiSpec
  simp only [side_shift, shiftSide]

/-! ### rotation -/

/-- `M` applied to a vector (rows of `M` dotted with the vector) -/
noncomputable def mv (M : M3 ℝ) (v : V3 ℝ) : V3 ℝ := M.mulVec v

theorem mv_lin (M : M3 ℝ) (a b : V3 ℝ) (t : ℝ) :
    mv M (vadd a (vsmul t (vsub b a))) = vadd (mv M a) (vsmul t (vsub (mv M b) (mv M a))) := by
  simp only [mv, M3.mulVec, V3.dot, vadd, vsmul, vsub, V3.mk.injEq]
  refine ⟨?_, ?_, ?_⟩ <;> ring

theorem norm_mv (M : M3 ℝ) (hM : Orthogonal M) (v : V3 ℝ) : V3.norm (mv M v) = V3.norm v := by
  unfold V3.norm V3.normSq mv
  rw [hM v v]

/-- the integrand of the potential integral depends on its vector arguments through lengths only -/
theorem integrand_rot (c : Ctx ℝ) (M : M3 ℝ) (hM : Orthogonal M) (t : ℝ) (u v : V3 ℝ) (kneg : Bool)
    (r : ℝ) (exact : Bool) :
    integrand c t (mv M u) (mv M v) kneg r exact = integrand c t u v kneg r exact := by
  unfold integrand
  cases kneg <;> simp only [Bool.false_eq_true, if_false, if_true, ← mv_lin, norm_mv M hM]

/-- **the potential integral is invariant under orthogonal maps** — including the choice of the
Gauss order, of the exact kernel and of the small-radius formula, which are functions of lengths -/
theorem psi_rot (c : Ctx ℝ) (M : M3 ℝ) (hM : Orthogonal M) (u v : V3 ℝ) (kneg : Bool) (sc : ℝ)
    (pos : Bool) (pj : PulseD ℝ) (x f : Bool) :
    psi c (mv M u) (mv M v) kneg sc pos pj x f = psi c u v kneg sc pos pj x f := by
  unfold psi
  simp only [norm_mv M hM, integrand_rot c M hM]

/-! ### rotation of the whole antenna -/

noncomputable def rotSide (M : M3 ℝ) (x : Side ℝ) : Side ℝ := { x with fend := mv M x.fend, dir := mv M x.dir }
noncomputable def rotPulse (M : M3 ℝ) (p : PulseD ℝ) : PulseD ℝ :=
  { p with pt := mv M p.pt, s0 := rotSide M p.s0, s1 := rotSide M p.s1 }

theorem side_rot (M : M3 ℝ) (p : PulseD ℝ) (pos : Bool) : side (rotPulse M p) pos = rotSide M (side p pos) := by
  cases pos <;> rfl

theorem mv_add (M : M3 ℝ) (a b : V3 ℝ) : mv M (vadd a b) = vadd (mv M a) (mv M b) := by
  simp only [mv, M3.mulVec, V3.dot, vadd, V3.mk.injEq]; refine ⟨?_, ?_, ?_⟩ <;> ring
theorem mv_sub (M : M3 ℝ) (a b : V3 ℝ) : mv M (vsub a b) = vsub (mv M a) (mv M b) := by
  simp only [mv, M3.mulVec, V3.dot, vsub, V3.mk.injEq]; refine ⟨?_, ?_, ?_⟩ <;> ring
theorem mv_smul (M : M3 ℝ) (c : ℝ) (a : V3 ℝ) : mv M (vsmul c a) = vsmul c (mv M a) := by
  simp only [mv, M3.mulVec, V3.dot, vsmul, V3.mk.injEq]; refine ⟨?_, ?_, ?_⟩ <;> ring

theorem endseg_rot (M : M3 ℝ) (p : PulseD ℝ) (pos : Bool) (a : ℝ) :
    endseg (rotPulse M p) pos a = mv M (endseg p pos a) := by
  unfold endseg
  rw [side_rot]
  simp only [rotSide, rotPulse, mv_add, mv_smul, mv_sub]

theorem dvecs_rot (M : M3 ℝ) (p : PulseD ℝ) (pos : Bool) (a : ℝ) :
    dvecs (rotPulse M p) pos a = (mv M (dvecs p pos a).1, mv M (dvecs p pos a).2) := by
  unfold dvecs
  cases pos <;> simp only [endseg_rot, Bool.false_eq_true, if_false, if_true] <;> rfl

/-- `M` commutes with the mirror factors that occur (`(1,1,g)`): trivially for `g = 1`, and for every
`g` when `M` is a rotation about the vertical axis -/
def Commutes (M : M3 ℝ) (g : ℝ) : Prop := ∀ v, kmul g (mv M v) = mv M (kmul g v)

theorem commutes_one (M : M3 ℝ) : Commutes M 1 := by
  intro v; simp [kmul]

theorem commutes_rotZ (a g : ℝ) : Commutes (rotZ a) g := by
  intro v
  simp only [kmul, mv, rotZ, M3.mulVec, V3.dot, V3.mk.injEq]
  refine ⟨?_, ?_, ?_⟩ <;> push_cast <;> ring

/-- a functional that is invariant under rotating its vector arguments and the source pulse -/
def RotFree (M : M3 ℝ) (Ψ : PsiFn ℝ) : Prop :=
  ∀ u v kneg sc pos pj x f, Ψ (mv M u) (mv M v) kneg sc pos (rotPulse M pj) x f = Ψ u v kneg sc pos pj x f

theorem psi_rotFree (c : Ctx ℝ) (M : M3 ℝ) (hM : Orthogonal M) : RotFree M (psi c) := by
  intro u v kneg sc pos pj x f
  rw [psi_rot c M hM]
  unfold psi
  simp only [side_rot, rotSide]

theorem dot_mv (M : M3 ℝ) (hM : Orthogonal M) (a b : V3 ℝ) : V3.dot (mv M a) (mv M b) = V3.dot a b := hM a b

/-- the direction factor `(d.x, d.y, g·d.z)` is `kmul g d` -/
theorem kmul_def (g : ℝ) (d : V3 ℝ) : (⟨d.x, d.y, g * d.z⟩ : V3 ℝ) = kmul g d := rfl

theorem entryK8_rot (Ψ : PsiFn ℝ) (c : Ctx ℝ) (M : M3 ℝ) (hM : Orthogonal M) (hΨ : RotFree M Ψ)
    (k : ℝ) (kneg : Bool) (pi pj : PulseD ℝ) (xct : Bool) (f8 : Nat)
    (hk : Commutes M k) (h0 : Commutes M (k * pj.s0.gsgn)) (h1 : Commutes M (k * pj.s1.gsgn)) :
    entryK8 Ψ c k kneg (rotPulse M pi) (rotPulse M pj) xct f8 = entryK8 Ψ c k kneg pi pj xct f8 := by
  have hv : ∀ pos, vecpot Ψ c k kneg (rotPulse M pi) (rotPulse M pj) pos xct = vecpot Ψ c k kneg pi pj pos xct := by
    intro pos
    unfold vecpot
    have e1 : (rotPulse M pi).idx = pi.idx := rfl
    have e2 : (rotPulse M pj).idx = pj.idx := rfl
    have e3 : (rotPulse M pi).pt = mv M pi.pt := rfl
    simp only [side_rot, dvecs_rot, e1, e2, e3, hk _, ← mv_sub, hΨ _ _ _ _ _ _ _ _, rotSide]
  have hs : ∀ p1 p2 sm, scapot Ψ c k kneg (rotPulse M pi) (rotPulse M pj) p1 p2 sm xct
      = scapot Ψ c k kneg pi pj p1 p2 sm xct := by
    intro p1 p2 sm
    unfold scapot
    have e1 : (rotPulse M pi).owner = pi.owner := rfl
    have e2 : (rotPulse M pj).owner = pj.owner := rfl
    simp only [side_rot, dvecs_rot, endseg_rot, e1, e2, hk _, ← mv_sub, hΨ _ _ _ _ _ _ _ _, rotSide]
  unfold entryK8
  simp only [hv, hs]
  -- the projection factors are dot products of (mirrored) direction vectors
  have hz : vadd (vsmul ((rotPulse M pi).s0.dsgn * (rotPulse M pi).s0.len) (rotPulse M pi).s0.dir)
        (vsmul ((rotPulse M pi).s1.dsgn * (rotPulse M pi).s1.len) (rotPulse M pi).s1.dir)
      = mv M (vadd (vsmul (pi.s0.dsgn * pi.s0.len) pi.s0.dir) (vsmul (pi.s1.dsgn * pi.s1.len) pi.s1.dir)) := by
    simp only [rotPulse, rotSide, mv_add, mv_smul]
  have hf1 : (⟨(rotPulse M pj).s1.dir.x, (rotPulse M pj).s1.dir.y, k * ((rotPulse M pj).s1.gsgn * (rotPulse M pj).s1.dir.z)⟩ : V3 ℝ)
      = mv M ⟨pj.s1.dir.x, pj.s1.dir.y, k * (pj.s1.gsgn * pj.s1.dir.z)⟩ := by
    have := h1 pj.s1.dir
    simp only [kmul] at this
    simp only [rotPulse, rotSide, ← mul_assoc]
    rw [this]
  have hf0 : (⟨(rotPulse M pj).s0.dir.x, (rotPulse M pj).s0.dir.y, k * ((rotPulse M pj).s0.gsgn * (rotPulse M pj).s0.dir.z)⟩ : V3 ℝ)
      = mv M ⟨pj.s0.dir.x, pj.s0.dir.y, k * (pj.s0.gsgn * pj.s0.dir.z)⟩ := by
    have := h0 pj.s0.dir
    simp only [kmul] at this
    simp only [rotPulse, rotSide, ← mul_assoc]
    rw [this]
  rw [hz, hf1, hf0, dot_mv M hM, dot_mv M hM]
  rfl

theorem entryK_rot (Ψ : PsiFn ℝ) (c : Ctx ℝ) (M : M3 ℝ) (hM : Orthogonal M) (hΨ : RotFree M Ψ)
    (k : ℝ) (kneg : Bool) (pi pj : PulseD ℝ) (xct : Bool)
    (hk : Commutes M k) (h0 : Commutes M (k * pj.s0.gsgn)) (h1 : Commutes M (k * pj.s1.gsgn)) :
    entryK Ψ c k kneg (rotPulse M pi) (rotPulse M pj) xct = entryK Ψ c k kneg pi pj xct :=
  entryK8_rot Ψ c M hM hΨ k kneg pi pj xct 0 hk h0 h1

/-- **rotation invariance in free space**: every entry of the matrix is unchanged when the whole
antenna is rotated by any orthogonal matrix (in particular by `--geo-rotate` with any three angles,
`C13_rot_orthogonal`) -/
theorem C05_rotate_free (c : Ctx ℝ) (M : M3 ℝ) (hM : Orthogonal M) (pi pj : PulseD ℝ) (xct : Bool)
    (hg0 : pj.s0.gsgn = 1) (hg1 : pj.s1.gsgn = 1) :
    entry (psi c) c false (rotPulse M pi) (rotPulse M pj) xct = entry (psi c) c false pi pj xct := by
  unfold entry
  simp only [Bool.false_and, Bool.false_eq_true, if_false]
  exact entryK_rot (psi c) c M hM (psi_rotFree c M hM) _ false pi pj xct
    (by simpa using commutes_one M) (by rw [hg0]; simpa using commutes_one M)
    (by rw [hg1]; simpa using commutes_one M)

/-- **rotation about the vertical axis over ground**: direct and image pass are both unchanged -/
theorem C05_rotate_ground (c : Ctx ℝ) (a : ℝ) (hasGround : Bool) (pi pj : PulseD ℝ) (xct : Bool) :
    entry (psi c) c hasGround (rotPulse (rotZ a) pi) (rotPulse (rotZ a) pj) xct
      = entry (psi c) c hasGround pi pj xct := by
  have hM := orth_rotZ a
  unfold entry
  have e0 : (rotPulse (rotZ a) pj).s0.gnd = pj.s0.gnd := rfl
  have e1 : (rotPulse (rotZ a) pj).s1.gnd = pj.s1.gnd := rfl
  simp only [e0, e1]
  rw [entryK_rot (psi c) c _ hM (psi_rotFree c _ hM) _ false pi pj xct (commutes_rotZ a _)
    (commutes_rotZ a _) (commutes_rotZ a _)]
  rw [entryK_rot (psi c) c _ hM (psi_rotFree c _ hM) _ true pi pj xct (commutes_rotZ a _)
    (commutes_rotZ a _) (commutes_rotZ a _)]

/-- the same for the fill as implemented (with its evaluation shortcuts), free space and ground -/
theorem C05_rotate_algo (c : Ctx ℝ) (a : ℝ) (hasGround : Bool) (pi pj : PulseD ℝ) (xct : Bool) :
    entryAlgo c hasGround (rotPulse (rotZ a) pi) (rotPulse (rotZ a) pj) xct = entryAlgo c hasGround pi pj xct := by
  have hM := orth_rotZ a
  unfold entryAlgo
  have e0 : (rotPulse (rotZ a) pj).s0.gnd = pj.s0.gnd := rfl
  have e1 : (rotPulse (rotZ a) pj).s1.gnd = pj.s1.gnd := rfl
  have ef : f8Of (rotPulse (rotZ a) pi) (rotPulse (rotZ a) pj) = f8Of pi pj := rfl
  simp only [e0, e1, ef]
  rw [entryK8_rot (psi c) c _ hM (psi_rotFree c _ hM) _ false pi pj xct _ (commutes_rotZ a _)
    (commutes_rotZ a _) (commutes_rotZ a _)]
  rw [entryK8_rot (psi c) c _ hM (psi_rotFree c _ hM) _ true pi pj xct _ (commutes_rotZ a _)
    (commutes_rotZ a _) (commutes_rotZ a _)]

theorem C05_rotate_algo_free (c : Ctx ℝ) (M : M3 ℝ) (hM : Orthogonal M) (pi pj : PulseD ℝ) (xct : Bool)
    (hg0 : pj.s0.gsgn = 1) (hg1 : pj.s1.gsgn = 1) :
    entryAlgo c false (rotPulse M pi) (rotPulse M pj) xct = entryAlgo c false pi pj xct := by
  unfold entryAlgo
  have ef : f8Of (rotPulse M pi) (rotPulse M pj) = f8Of pi pj := rfl
  simp only [Bool.false_and, Bool.false_eq_true, if_false, ef]
  exact entryK8_rot (psi c) c M hM (psi_rotFree c M hM) _ false pi pj xct _
    (by simpa using commutes_one M) (by rw [hg0]; simpa using commutes_one M)
    (by rw [hg1]; simpa using commutes_one M)

/-- equal matrices and right-hand sides have equal solutions: currents and feed impedances of the
moved antenna are those of the original (uniqueness of the solution of an invertible system) -/
theorem C05_currents {n : Type} [Fintype n] [DecidableEq n] (Z Z' : Matrix n n ℂ) (b b' I I' : n → ℂ)
    (hZ : IsUnit Z.det) (hZZ : Z' = Z) (hbb : b' = b) (h : Z.mulVec I = b) (h' : Z'.mulVec I' = b') :
    I' = I := by
  subst hZZ hbb
  exact (Matrix.mulVec_injective_iff_isUnit.mpr ((Matrix.isUnit_iff_isUnit_det _).mpr hZ)) (h'.trans h.symm)

end Pmn.Props.C05
