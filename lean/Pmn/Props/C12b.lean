/-
C12 (continued) — "two wire ends are joined exactly when they are closer than 1/1000 of the shortest segment".

`C12_match_local` is the rule for one lookup.  Here the rule is lifted to the whole structure: `matchAll` (the
geometric half of `compute_connections`: exact tuple first, else the first known end within the tolerance, aliases
added to the registry) is followed over any number of objects in any order with an invariant on the registry, and
under the hypothesis that "within the tolerance" is an equivalence relation on the end points (which holds for every
*separated* point set: any two ends are within `tol` or more than `2·tol` apart — `separated_equiv`, by the triangle
inequality) two ends get the same registering end **iff** they are within the tolerance of each other.
-/
import Pmn.Props.C12
import Pmn.Proofs.Inst
import Mathlib.Data.Real.Basic
import Mathlib.Analysis.SpecialFunctions.Sqrt
import Mathlib.Tactic.Linarith
import Mathlib.Tactic.NormNum

namespace Pmn.Props.C12b
open Pmn Pmn.Topo

noncomputable section

abbrev P := V3 ℝ
abbrev Lbl := Nat × Nat
abbrev Reg := List (P × Lbl)

/-- "the new point `p` matches the known point `q`" as `lookup` decides it -/
def cl (tol : ℝ) (p q : P) : Prop := veq q p = true ∨ V3.norm (p - q) ≤ tol

theorem veq_iff (a b : P) : veq a b = true ↔ a = b := by
  unfold veq
  constructor
  · intro h
    simp only [Bool.and_eq_true, beq_iff_eq] at h
    cases a; cases b; simp_all
  · rintro rfl; simp

/-- one end: `lookup`, then alias / registration as in `compute_connections` -/
def endStep (tol : ℝ) (reg : Reg) (p : P) (l : Lbl) : Option Lbl × Reg :=
  match lookup reg p tol with
  | some (v, exact) => (some v, if exact then reg else reg ++ [(p, v)])
  | none => (none, reg ++ [(p, l)])

theorem lookup_some (tol : ℝ) (reg : Reg) (p : P) (v : Lbl) (ex : Bool) (h : lookup reg p tol = some (v, ex)) :
    ∃ e ∈ reg, e.2 = v ∧ cl tol p e.1 ∧ (ex = true → e.1 = p) := by
  unfold lookup at h
  split at h
  · rename_i r hr
    simp only [Option.some.injEq, Prod.mk.injEq] at h
    have hv := List.find?_some hr
    refine ⟨r, List.mem_of_find?_eq_some hr, h.1, Or.inl (by simpa using hv), fun _ => (veq_iff _ _).mp (by simpa using hv)⟩
  · split at h
    · rename_i r hr
      simp only [Option.some.injEq, Prod.mk.injEq] at h
      have hv := List.find?_some hr
      refine ⟨r, List.mem_of_find?_eq_some hr, h.1, Or.inr (by simpa using hv), fun hh => ?_⟩
      rw [← h.2] at hh; exact absurd hh (by simp)
    · simp at h

theorem lookup_none (tol : ℝ) (reg : Reg) (p : P) (h : lookup reg p tol = none) :
    ∀ e ∈ reg, ¬ cl tol p e.1 := by
  intro e he hc
  have := (Pmn.Props.C12.C12_match_local reg p tol).mpr ⟨e, he, hc⟩
  rw [h] at this
  simp at this

/-- a processed end: point, own label, what it hit -/
structure Rec where
  pt : P
  lbl : Lbl
  hit : Option Lbl

def Rec.rep (d : Rec) : Lbl := d.hit.getD d.lbl

/-- the state invariant -/
structure Inv (tol : ℝ) (reg : Reg) (done : List Rec) : Prop where
  r1 : ∀ d ∈ done, ∃ e ∈ reg, e.1 = d.pt ∧ e.2 = d.rep
  r2 : ∀ e ∈ reg, ∃ d ∈ done, e.1 = d.pt ∧ e.2 = d.rep
  a : ∀ d ∈ done, ∃ g ∈ done, g.hit = none ∧ cl tol d.pt g.pt ∧ d.rep = g.lbl
  b : ∀ g ∈ done, ∀ g' ∈ done, g.hit = none → g'.hit = none → cl tol g.pt g'.pt → g.lbl = g'.lbl

/-- `cl` is an equivalence relation on the set of points `S` -/
structure EquivOn (tol : ℝ) (S : P → Prop) : Prop where
  refl : ∀ a, S a → cl tol a a
  symm : ∀ a b, S a → S b → cl tol a b → cl tol b a
  trans : ∀ a b c, S a → S b → S c → cl tol a b → cl tol b c → cl tol a c

theorem inv_step (tol : ℝ) (S : P → Prop) (hE : EquivOn tol S) (reg : Reg) (done : List Rec)
    (hS : ∀ d ∈ done, S d.pt) (hI : Inv tol reg done) (p : P) (l : Lbl) (hp : S p) :
    Inv tol (endStep tol reg p l).2 (done ++ [⟨p, l, (endStep tol reg p l).1⟩]) := by
  unfold endStep
  cases hl : lookup reg p tol with
  | none =>
    have hno := lookup_none tol reg p hl
    refine ⟨?_, ?_, ?_, ?_⟩
    · intro d hd
      rcases List.mem_append.mp hd with hd | hd
      · obtain ⟨e, he, h1, h2⟩ := hI.r1 d hd
        exact ⟨e, List.mem_append_left _ he, h1, h2⟩
      · simp only [List.mem_singleton] at hd; subst hd
        exact ⟨(p, l), by simp, rfl, rfl⟩
    · intro e he
      rcases List.mem_append.mp he with he | he
      · obtain ⟨d, hd, h1, h2⟩ := hI.r2 e he
        exact ⟨d, List.mem_append_left _ hd, h1, h2⟩
      · simp only [List.mem_singleton] at he; subst he
        exact ⟨⟨p, l, none⟩, by simp, rfl, rfl⟩
    · intro d hd
      rcases List.mem_append.mp hd with hd | hd
      · obtain ⟨g, hg, h1, h2, h3⟩ := hI.a d hd
        exact ⟨g, List.mem_append_left _ hg, h1, h2, h3⟩
      · simp only [List.mem_singleton] at hd; subst hd
        exact ⟨⟨p, l, none⟩, by simp, rfl, hE.refl p hp, rfl⟩
    · intro g hg g' hg' h1 h2 hc
      rcases List.mem_append.mp hg with hg | hg <;> rcases List.mem_append.mp hg' with hg' | hg'
      · exact hI.b g hg g' hg' h1 h2 hc
      · simp only [List.mem_singleton] at hg'; subst hg'
        -- an old registrant close to the new point: its registry entry would have matched
        obtain ⟨e, he, he1, _⟩ := hI.r1 g hg
        have : cl tol p e.1 := by rw [he1]; exact hE.symm _ _ (hS g hg) hp hc
        exact absurd this (hno e he)
      · simp only [List.mem_singleton] at hg; subst hg
        obtain ⟨e, he, he1, _⟩ := hI.r1 g' hg'
        have : cl tol p e.1 := by rw [he1]; exact hc
        exact absurd this (hno e he)
      · simp only [List.mem_singleton] at hg hg'; subst hg; subst hg'; rfl
  | some ve =>
    obtain ⟨v, ex⟩ := ve
    obtain ⟨e, he, hev, hec, hex⟩ := lookup_some tol reg p v ex hl
    obtain ⟨d0, hd0, hd01, hd02⟩ := hI.r2 e he
    obtain ⟨g0, hg0, hg01, hg02, hg03⟩ := hI.a d0 hd0
    have hrep : (⟨p, l, some v⟩ : Rec).rep = d0.rep := by
      show v = d0.rep
      rw [← hd02, hev]
    refine ⟨?_, ?_, ?_, ?_⟩
    · intro d hd
      rcases List.mem_append.mp hd with hd | hd
      · obtain ⟨e', he', h1, h2⟩ := hI.r1 d hd
        refine ⟨e', ?_, h1, h2⟩
        show e' ∈ (if ex = true then reg else reg ++ [(p, v)])
        split
        · exact he'
        · exact List.mem_append_left _ he'
      · simp only [List.mem_singleton] at hd; subst hd
        show ∃ e' ∈ (if ex = true then reg else reg ++ [(p, v)]), e'.1 = p ∧ e'.2 = v
        by_cases hx : ex = true
        · rw [if_pos hx]; exact ⟨e, he, hex hx, hev⟩
        · rw [if_neg hx]; exact ⟨(p, v), by simp, rfl, rfl⟩
    · intro e' he'
      have he'' : e' ∈ reg ∨ e' = (p, v) := by
        change e' ∈ (if ex = true then reg else reg ++ [(p, v)]) at he'
        split at he'
        · exact Or.inl he'
        · rcases List.mem_append.mp he' with h | h
          · exact Or.inl h
          · exact Or.inr (by simpa using h)
      rcases he'' with he' | he'
      · obtain ⟨d, hd, h1, h2⟩ := hI.r2 e' he'
        exact ⟨d, List.mem_append_left _ hd, h1, h2⟩
      · subst he'
        exact ⟨⟨p, l, some v⟩, by simp, rfl, rfl⟩
    · intro d hd
      rcases List.mem_append.mp hd with hd | hd
      · obtain ⟨g, hg, h1, h2, h3⟩ := hI.a d hd
        exact ⟨g, List.mem_append_left _ hg, h1, h2, h3⟩
      · simp only [List.mem_singleton] at hd; subst hd
        refine ⟨g0, List.mem_append_left _ hg0, hg01, ?_, ?_⟩
        · have h1 : cl tol p d0.pt := by rw [← hd01]; exact hec
          exact hE.trans _ _ _ hp (hS d0 hd0) (hS g0 hg0) h1 hg02
        · rw [hrep]; exact hg03
    · intro g hg g' hg' h1 h2 hc
      rcases List.mem_append.mp hg with hg | hg <;> rcases List.mem_append.mp hg' with hg' | hg'
      · exact hI.b g hg g' hg' h1 h2 hc
      · simp only [List.mem_singleton] at hg'; subst hg'; simp at h2
      · simp only [List.mem_singleton] at hg; subst hg; simp at h1
      · simp only [List.mem_singleton] at hg; subst hg; simp at h1

/-- from the invariant: two processed ends have the same representative exactly when they are close -/
theorem inv_iff (tol : ℝ) (S : P → Prop) (hE : EquivOn tol S) (reg : Reg) (done : List Rec)
    (hS : ∀ d ∈ done, S d.pt) (hI : Inv tol reg done)
    (hU : ∀ d ∈ done, ∀ d' ∈ done, d.hit = none → d'.hit = none → d.lbl = d'.lbl → d.pt = d'.pt)
    (d : Rec) (hd : d ∈ done) (d' : Rec) (hd' : d' ∈ done) :
    d.rep = d'.rep ↔ cl tol d.pt d'.pt := by
  obtain ⟨g, hg, hg1, hg2, hg3⟩ := hI.a d hd
  obtain ⟨g', hg', hg1', hg2', hg3'⟩ := hI.a d' hd'
  constructor
  · intro h
    have hl : g.lbl = g'.lbl := by rw [← hg3, ← hg3', h]
    have hp : g.pt = g'.pt := hU g hg g' hg' hg1 hg1' hl
    have h1 : cl tol g'.pt d'.pt := hE.symm _ _ (hS d' hd') (hS g' hg') hg2'
    rw [hp] at hg2
    exact hE.trans _ _ _ (hS d hd) (hS g' hg') (hS d' hd') hg2 h1
  · intro h
    have h1 : cl tol g.pt d.pt := hE.symm _ _ (hS d hd) (hS g hg) hg2
    have h2 : cl tol g.pt d'.pt := hE.trans _ _ _ (hS g hg) (hS d hd) (hS d' hd') h1 h
    have h3 : cl tol g.pt g'.pt := hE.trans _ _ _ (hS g hg) (hS d' hd') (hS g' hg') h2 hg2'
    rw [hg3, hg3', hI.b g hg g' hg' hg1 hg1' h3]

/-! ### the fold of `matchAll`, with the processed ends recorded -/

structure St where
  hit : Option Lbl
  reg : Reg
  done : List Rec

def stepObjEnd (tol : ℝ) (g : Bool) (p : P) (l : Lbl) (reg : Reg) (done : List Rec) : St :=
  if g then ⟨none, reg, done⟩
  else ⟨(endStep tol reg p l).1, (endStep tol reg p l).2, done ++ [⟨p, l, (endStep tol reg p l).1⟩]⟩

def goR (tol : ℝ) : List (EndsIn ℝ) → Nat → Reg → List Rec → List ObjIn × Reg × List Rec
  | [], _, reg, done => ([], reg, done)
  | o :: r, n, reg, done =>
    let s0 := stepObjEnd tol o.g0 o.p0 (0, n) reg done
    let s1 := stepObjEnd tol o.g1 o.p1 (1, n) s0.reg s0.done
    let rest := goR tol r (n + 1) s1.reg s1.done
    (⟨o.nseg, o.g0, o.g1, s0.hit, s1.hit⟩ :: rest.1, rest.2)

/-- the records of the ends that are not on the ground, with the hits `ins` assigns to them -/
def recordsFrom : Nat → List (EndsIn ℝ) → List ObjIn → List Rec
  | n, o :: r, i :: is =>
    (if o.g0 then [] else [⟨o.p0, (0, n), i.h0⟩]) ++ (if o.g1 then [] else [⟨o.p1, (1, n), i.h1⟩]) ++ recordsFrom (n + 1) r is
  | _, _, _ => []

/-- the points of the ends that are not on the ground -/
def endPts : List (EndsIn ℝ) → List P
  | [] => []
  | o :: r => (if o.g0 then [] else [o.p0]) ++ (if o.g1 then [] else [o.p1]) ++ endPts r

theorem goR_fst (tol : ℝ) (os : List (EndsIn ℝ)) (n : Nat) (reg : Reg) (done : List Rec) :
    (goR tol os n reg done).1 = matchAll.go tol os n reg := by
  induction os generalizing n reg done with
  | nil => simp [goR, matchAll.go]
  | cons o r ih =>
    simp only [goR, matchAll.go]
    rw [ih]
    cases h0 : o.g0 <;> cases h1 : o.g1 <;> simp only [stepObjEnd, endStep, h0, h1, if_true, if_false, Bool.false_eq_true]
    all_goals (first | rfl | (split <;> (first | rfl | (split <;> rfl))))

theorem goR_done (tol : ℝ) (os : List (EndsIn ℝ)) (n : Nat) (reg : Reg) (done : List Rec) :
    (goR tol os n reg done).2.2 = done ++ recordsFrom n os (goR tol os n reg done).1 := by
  induction os generalizing n reg done with
  | nil => simp [goR, recordsFrom]
  | cons o r ih =>
    simp only [goR, recordsFrom]
    rw [ih]
    cases h0 : o.g0 <;> cases h1 : o.g1 <;> simp [stepObjEnd, h0, h1]

theorem stepObjEnd_inv (tol : ℝ) (S : P → Prop) (hE : EquivOn tol S) (g : Bool) (p : P) (l : Lbl) (reg : Reg) (done : List Rec)
    (hS : ∀ d ∈ done, S d.pt) (hI : Inv tol reg done) (hp : g = false → S p) :
    Inv tol (stepObjEnd tol g p l reg done).reg (stepObjEnd tol g p l reg done).done ∧
    ∀ d ∈ (stepObjEnd tol g p l reg done).done, S d.pt := by
  unfold stepObjEnd
  cases g with
  | true => exact ⟨hI, hS⟩
  | false =>
    simp only [Bool.false_eq_true, if_false]
    refine ⟨inv_step tol S hE reg done hS hI p l (hp rfl), ?_⟩
    intro d hd
    rcases List.mem_append.mp hd with hd | hd
    · exact hS d hd
    · simp only [List.mem_singleton] at hd; subst hd; exact hp rfl

theorem goR_inv (tol : ℝ) (S : P → Prop) (hE : EquivOn tol S) (os : List (EndsIn ℝ)) (n : Nat) (reg : Reg) (done : List Rec)
    (hS : ∀ d ∈ done, S d.pt) (hI : Inv tol reg done) (hos : ∀ p ∈ endPts os, S p) :
    Inv tol (goR tol os n reg done).2.1 (goR tol os n reg done).2.2 ∧ ∀ d ∈ (goR tol os n reg done).2.2, S d.pt := by
  induction os generalizing n reg done with
  | nil => exact ⟨hI, hS⟩
  | cons o r ih =>
    simp only [goR]
    have hp0 : o.g0 = false → S o.p0 := by
      intro h; apply hos; simp [endPts, h]
    have hp1 : o.g1 = false → S o.p1 := by
      intro h; apply hos; simp [endPts, h]
    obtain ⟨i0, s0⟩ := stepObjEnd_inv tol S hE o.g0 o.p0 (0, n) reg done hS hI hp0
    obtain ⟨i1, s1⟩ := stepObjEnd_inv tol S hE o.g1 o.p1 (1, n) _ _ s0 i0 hp1
    exact ih (n + 1) _ _ s1 i1 (fun p hp => hos p (by simp only [endPts]; exact List.mem_append_right _ hp))

theorem recordsFrom_lbl (n : Nat) (os : List (EndsIn ℝ)) (is : List ObjIn) :
    ∀ d ∈ recordsFrom n os is, n ≤ d.lbl.2 := by
  induction os generalizing n is with
  | nil => intro d hd; cases is <;> simp [recordsFrom] at hd
  | cons o r ih =>
    cases is with
    | nil => intro d hd; simp [recordsFrom] at hd
    | cons i is =>
      intro d hd
      simp only [recordsFrom, List.mem_append] at hd
      rcases hd with (hd | hd) | hd
      · split at hd
        · simp at hd
        · simp only [List.mem_singleton] at hd; subst hd; exact Nat.le_refl _
      · split at hd
        · simp at hd
        · simp only [List.mem_singleton] at hd; subst hd; exact Nat.le_refl _
      · exact Nat.le_of_succ_le (ih (n + 1) is d hd)

theorem recordsFrom_unique (n : Nat) (os : List (EndsIn ℝ)) (is : List ObjIn) :
    ∀ d ∈ recordsFrom n os is, ∀ d' ∈ recordsFrom n os is, d.lbl = d'.lbl → d.pt = d'.pt := by
  induction os generalizing n is with
  | nil => intro d hd; cases is <;> simp [recordsFrom] at hd
  | cons o r ih =>
    cases is with
    | nil => intro d hd; simp [recordsFrom] at hd
    | cons i is =>
      intro d hd d' hd' hl
      simp only [recordsFrom, List.mem_append] at hd hd'
      have late : ∀ x ∈ recordsFrom (n + 1) r is, x.lbl.2 ≠ n := by
        intro x hx h
        have := recordsFrom_lbl (n + 1) r is x hx
        omega
      have e0 : ∀ x ∈ (if o.g0 = true then [] else [(⟨o.p0, (0, n), i.h0⟩ : Rec)]), x.lbl = (0, n) ∧ x.pt = o.p0 := by
        intro x hx; split at hx
        · simp at hx
        · simp only [List.mem_singleton] at hx; subst hx; exact ⟨rfl, rfl⟩
      have e1 : ∀ x ∈ (if o.g1 = true then [] else [(⟨o.p1, (1, n), i.h1⟩ : Rec)]), x.lbl = (1, n) ∧ x.pt = o.p1 := by
        intro x hx; split at hx
        · simp at hx
        · simp only [List.mem_singleton] at hx; subst hx; exact ⟨rfl, rfl⟩
      rcases hd with (hd | hd) | hd <;> rcases hd' with (hd' | hd') | hd'
      · rw [(e0 d hd).2, (e0 d' hd').2]
      · have a := (e0 d hd).1; have b := (e1 d' hd').1; rw [a, b] at hl; simp at hl
      · have a := (e0 d hd).1; rw [a] at hl; exact absurd (by rw [← hl]) (late d' hd')
      · have a := (e1 d hd).1; have b := (e0 d' hd').1; rw [a, b] at hl; simp at hl
      · rw [(e1 d hd).2, (e1 d' hd').2]
      · have a := (e1 d hd).1; rw [a] at hl; exact absurd (by rw [← hl]) (late d' hd')
      · have b := (e0 d' hd').1; rw [b] at hl; exact absurd (by rw [hl]) (late d hd)
      · have b := (e1 d' hd').1; rw [b] at hl; exact absurd (by rw [hl]) (late d hd)
      · exact ih (n + 1) is d hd d' hd' hl

/-- **two wire ends are joined exactly when they are close**: when "within the tolerance (or equal)" is an
equivalence relation on the end points of the structure — every two ends are either within the tolerance of each other
or clearly apart — the ends that `compute_connections` attaches to one registering end (the same representative) are
exactly the ends that are close to each other, for any number of objects in any order -/
theorem C12_join_global (tol : ℝ) (objs : List (EndsIn ℝ)) (hE : EquivOn tol (fun p => p ∈ endPts objs)) :
    ∀ d ∈ recordsFrom 0 objs (matchAll objs tol), ∀ d' ∈ recordsFrom 0 objs (matchAll objs tol),
      d.rep = d'.rep ↔ cl tol d.pt d'.pt := by
  have h1 := goR_fst tol objs 0 [] []
  have h2 := goR_done tol objs 0 [] []
  have hinv := goR_inv tol _ hE objs 0 [] [] (by simp) ⟨by simp, by simp, by simp, by simp⟩ (fun p hp => hp)
  rw [List.nil_append] at h2
  have hm : matchAll objs tol = (goR tol objs 0 [] []).1 := by rw [h1]; rfl
  rw [hm, ← h2]
  intro d hd d' hd'
  refine inv_iff tol _ hE _ _ hinv.2 hinv.1 ?_ d hd d' hd'
  intro x hx x' hx' _ _ hl
  rw [h2] at hx hx'
  exact recordsFrom_unique 0 objs _ x hx x' hx' hl


/-! ### separated point sets -/

theorem norm_def (v : P) : V3.norm v = Real.sqrt (v.x * v.x + v.y * v.y + v.z * v.z) := rfl

theorem norm_nonneg' (v : P) : 0 ≤ V3.norm v := by rw [norm_def]; exact Real.sqrt_nonneg _

theorem norm_sub_comm (a b : P) : V3.norm (a - b) = V3.norm (b - a) := by
  rw [norm_def, norm_def]
  congr 1
  show (a.x - b.x) * (a.x - b.x) + (a.y - b.y) * (a.y - b.y) + (a.z - b.z) * (a.z - b.z)
     = (b.x - a.x) * (b.x - a.x) + (b.y - a.y) * (b.y - a.y) + (b.z - a.z) * (b.z - a.z)
  ring

theorem norm_self (a : P) : V3.norm (a - a) = 0 := by
  rw [norm_def]
  show Real.sqrt ((a.x - a.x) * (a.x - a.x) + (a.y - a.y) * (a.y - a.y) + (a.z - a.z) * (a.z - a.z)) = 0
  simp

theorem tri (a b c : P) : V3.norm (a - c) ≤ V3.norm (a - b) + V3.norm (b - c) := by
  rw [norm_def, norm_def, norm_def]
  show Real.sqrt ((a.x - c.x) * (a.x - c.x) + (a.y - c.y) * (a.y - c.y) + (a.z - c.z) * (a.z - c.z))
     ≤ Real.sqrt ((a.x - b.x) * (a.x - b.x) + (a.y - b.y) * (a.y - b.y) + (a.z - b.z) * (a.z - b.z))
     + Real.sqrt ((b.x - c.x) * (b.x - c.x) + (b.y - c.y) * (b.y - c.y) + (b.z - c.z) * (b.z - c.z))
  set u1 := a.x - b.x; set u2 := a.y - b.y; set u3 := a.z - b.z
  set v1 := b.x - c.x; set v2 := b.y - c.y; set v3 := b.z - c.z
  have e1 : a.x - c.x = u1 + v1 := by simp only [u1, v1]; ring
  have e2 : a.y - c.y = u2 + v2 := by simp only [u2, v2]; ring
  have e3 : a.z - c.z = u3 + v3 := by simp only [u3, v3]; ring
  rw [e1, e2, e3]
  set nu := u1 * u1 + u2 * u2 + u3 * u3
  set nv := v1 * v1 + v2 * v2 + v3 * v3
  have hnu : 0 ≤ nu := by simp only [nu]; nlinarith [mul_self_nonneg u1, mul_self_nonneg u2, mul_self_nonneg u3]
  have hnv : 0 ≤ nv := by simp only [nv]; nlinarith [mul_self_nonneg v1, mul_self_nonneg v2, mul_self_nonneg v3]
  have hcs : (u1 * v1 + u2 * v2 + u3 * v3) ≤ Real.sqrt nu * Real.sqrt nv := by
    rw [← Real.sqrt_mul hnu]
    apply Real.le_sqrt_of_sq_le
    have : nu * nv - (u1 * v1 + u2 * v2 + u3 * v3) ^ 2
        = (u1 * v2 - u2 * v1) ^ 2 + (u1 * v3 - u3 * v1) ^ 2 + (u2 * v3 - u3 * v2) ^ 2 := by
      simp only [nu, nv]; ring
    nlinarith [sq_nonneg (u1 * v2 - u2 * v1), sq_nonneg (u1 * v3 - u3 * v1), sq_nonneg (u2 * v3 - u3 * v2)]
  rw [Real.sqrt_le_iff]
  refine ⟨by positivity, ?_⟩
  have h1 : Real.sqrt nu ^ 2 = nu := Real.sq_sqrt hnu
  have h2 : Real.sqrt nv ^ 2 = nv := Real.sq_sqrt hnv
  have : (u1 + v1) * (u1 + v1) + (u2 + v2) * (u2 + v2) + (u3 + v3) * (u3 + v3)
      = nu + nv + 2 * (u1 * v1 + u2 * v2 + u3 * v3) := by simp only [nu, nv]; ring
  rw [this]
  nlinarith [hcs]

/-- **a separated set of end points** (every two ends within `tol` of each other or more than `2·tol` apart; `tol ≥ 0`)
makes "within the tolerance" an equivalence relation -/
theorem separated_equiv (tol : ℝ) (h0 : 0 ≤ tol) (S : P → Prop)
    (hsep : ∀ a b, S a → S b → V3.norm (a - b) ≤ tol ∨ 2 * tol < V3.norm (a - b)) : EquivOn tol S := by
  have hcl : ∀ a b : P, cl tol a b ↔ V3.norm (a - b) ≤ tol := by
    intro a b
    unfold cl
    constructor
    · rintro (h | h)
      · have := (veq_iff b a).mp h
        subst this
        rw [norm_self]; exact h0
      · exact h
    · intro h; exact Or.inr h
  refine ⟨?_, ?_, ?_⟩
  · intro a _; rw [hcl, norm_self]; exact h0
  · intro a b _ _ h; rw [hcl] at h ⊢; rw [norm_sub_comm]; exact h
  · intro a b c ha _ hc h1 h2
    rw [hcl] at h1 h2 ⊢
    rcases hsep a c ha hc with h | h
    · exact h
    · have := tri a b c
      linarith

/-- the global joining rule for separated structures -/
theorem C12_join_separated (tol : ℝ) (h0 : 0 ≤ tol) (objs : List (EndsIn ℝ))
    (hsep : ∀ a b, a ∈ endPts objs → b ∈ endPts objs → V3.norm (a - b) ≤ tol ∨ 2 * tol < V3.norm (a - b)) :
    ∀ d ∈ recordsFrom 0 objs (matchAll objs tol), ∀ d' ∈ recordsFrom 0 objs (matchAll objs tol),
      d.rep = d'.rep ↔ (d'.pt = d.pt ∨ V3.norm (d.pt - d'.pt) ≤ tol) := by
  intro d hd d' hd'
  have := C12_join_global tol objs (separated_equiv tol h0 _ hsep) d hd d' hd'
  rw [this]
  unfold cl
  rw [veq_iff]

/-! non-vacuity: two collinear wires sharing an end point form a separated structure for `tol = 1/1000` -/

theorem norm_z (a b : V3 ℝ) (hx : a.x = b.x) (hy : a.y = b.y) : V3.norm (a - b) = |a.z - b.z| := by
  rw [norm_def]
  show Real.sqrt ((a.x - b.x) * (a.x - b.x) + (a.y - b.y) * (a.y - b.y) + (a.z - b.z) * (a.z - b.z)) = _
  rw [hx, hy]
  simp only [sub_self, mul_zero, zero_add]
  exact Real.sqrt_mul_self_eq_abs _

example : ∀ a b : V3 ℝ,
    a ∈ endPts [⟨2, ⟨0, 0, 0⟩, ⟨0, 0, 1⟩, false, false⟩, ⟨2, ⟨0, 0, 1⟩, ⟨0, 0, 2⟩, false, false⟩] →
    b ∈ endPts [⟨2, ⟨0, 0, 0⟩, ⟨0, 0, 1⟩, false, false⟩, ⟨2, ⟨0, 0, 1⟩, ⟨0, 0, 2⟩, false, false⟩] →
    V3.norm (a - b) ≤ (1 / 1000 : ℝ) ∨ 2 * (1 / 1000 : ℝ) < V3.norm (a - b) := by
  intro a b ha hb
  simp only [endPts, Bool.false_eq_true, if_false, List.cons_append, List.nil_append, List.mem_cons,
    List.mem_nil_iff, or_false] at ha hb
  rcases ha with rfl | rfl | rfl | rfl <;> rcases hb with rfl | rfl | rfl | rfl <;>
    (rw [norm_z] <;> first | rfl | norm_num)


end

end Pmn.Props.C12b
