/-
C14 — results depend only on the inputs: no history.

For the abstract session machine with *arbitrary* physics functions: if the frequency setter clears
the skin-effect cache (`clearZint = true`, the repaired code), every observation of every valid
history equals the observation of a fresh single-frequency run.  With `clearZint = false` (the
original code) the statement is false; the witness is a three-operation history.
-/
import Pmn.Model.Session

namespace Pmn.Props.C14
open Pmn.Session

variable {F V A : Type}

/-- every cache is empty or holds what a fresh run at the current frequency would compute -/
def Coherent (ph : Phys F V A) (s : St F V) : Prop :=
  (∀ w, s.zint w = none ∨ s.zint w = some (ph.zintF w s.f)) ∧
  (∀ w, s.zins w = none ∨ s.zins w = some (ph.zinsF w)) ∧
  (s.cur = none ∨ s.cur = some (s.f, freshCur ph s.f))

theorem C14_init (ph : Phys F V A) (f : F) : Coherent ph (init f : St F V) :=
  ⟨fun _ => Or.inl rfl, fun _ => Or.inl rfl, Or.inl rfl⟩

theorem useCache_coherent (c : Option V) (v : V) (h : c = none ∨ c = some v) : useCache c v = v := by
  rcases h with h | h <;> simp [useCache, h]

/-- **invariant**: coherence is preserved by every operation (with the cache reset in the setter) -/
theorem C14_inv (ph : Phys F V A) (s : St F V) (op : Op F A) (h : Coherent ph s) :
    Coherent ph (step ph true s op).1 := by
  obtain ⟨h1, h2, h3⟩ := h
  cases op with
  | setF f => exact ⟨fun _ => Or.inl rfl, h2, Or.inl rfl⟩
  | compute =>
    refine ⟨fun w => Or.inr ?_, fun w => Or.inr ?_, Or.inr ?_⟩
    · simp [step, useCache_coherent _ _ (h1 w)]
    · simp [step, useCache_coherent _ _ (h2 w)]
    · simp only [step, freshCur]
      have e1 : (fun w => useCache (s.zint w) (ph.zintF w s.f)) = fun w => ph.zintF w s.f :=
        funext fun w => useCache_coherent _ _ (h1 w)
      have e2 : (fun w => useCache (s.zins w) (ph.zinsF w)) = fun w => ph.zinsF w :=
        funext fun w => useCache_coherent _ _ (h2 w)
      rw [e1, e2]
  | far a =>
    simp only [step]
    cases hc : s.cur with
    | none => exact ⟨h1, h2, h3⟩
    | some r => exact ⟨h1, h2, h3⟩
  | near a =>
    simp only [step]
    cases hc : s.cur with
    | none => exact ⟨h1, h2, h3⟩
    | some r => exact ⟨h1, h2, h3⟩

/-- in a coherent state every operation answers what a fresh run at the current frequency answers
(or nothing, when there is no solution for the current frequency — the invalid-history case) -/
theorem C14_obs (ph : Phys F V A) (s : St F V) (op : Op F A) (h : Coherent ph s) :
    (step ph true s op).2 = none ∨ (step ph true s op).2 = freshObs ph s.f op := by
  obtain ⟨h1, h2, h3⟩ := h
  cases op with
  | setF f => left; rfl
  | compute =>
    right
    simp only [step, freshObs, freshCur]
    have e1 : (fun w => useCache (s.zint w) (ph.zintF w s.f)) = fun w => ph.zintF w s.f :=
      funext fun w => useCache_coherent _ _ (h1 w)
    have e2 : (fun w => useCache (s.zins w) (ph.zinsF w)) = fun w => ph.zinsF w :=
      funext fun w => useCache_coherent _ _ (h2 w)
    rw [e1, e2]
  | far a =>
    rcases h3 with h3 | h3
    · left; simp [step, h3]
    · right; simp [step, h3, freshObs]
  | near a =>
    rcases h3 with h3 | h3
    · left; simp [step, h3]
    · right; simp [step, h3, freshObs]

/-- frequency in force before each operation of a history -/
def freqs (ph : Phys F V A) (c : Bool) : St F V → List (Op F A) → List F
  | _, [] => []
  | s, op :: r => s.f :: freqs ph c (step ph c s op).1 r

/-- observation list `os` agrees, entry by entry, with fresh runs at frequencies `fs` -/
def AllFresh (ph : Phys F V A) : List (Option V) → List F → List (Op F A) → Prop
  | o :: os, f :: fs, op :: ops => (o = none ∨ o = freshObs ph f op) ∧ AllFresh ph os fs ops
  | [], [], [] => True
  | _, _, _ => False

/-- **no history**: for every history from a coherent (e.g. fresh) object, every observation equals
that of a fresh single-frequency run at the frequency then in force (or is absent, for a field
request that is not preceded by a compute after the last frequency change) -/
theorem C14_fresh (ph : Phys F V A) (s : St F V) (ops : List (Op F A)) (h : Coherent ph s) :
    AllFresh ph (run ph true s ops).2 (freqs ph true s ops) ops := by
  induction ops generalizing s with
  | nil => simp [run, freqs, AllFresh]
  | cons op r ih =>
    simp only [run, freqs, AllFresh]
    exact ⟨C14_obs ph s op h, ih _ (C14_inv ph s op h)⟩

/-- repeated requests give equal answers -/
theorem C14_repeat (ph : Phys F V A) (s : St F V) (op : Op F A) (hop : ∀ f, op ≠ .setF f) :
    (step ph true (step ph true s op).1 op).2 = (step ph true s op).2 ∨ op = .compute := by
  cases op with
  | setF f => exact absurd rfl (hop f)
  | compute => right; rfl
  | far a => left; cases hc : s.cur <;> simp [step, hc]
  | near a => left; cases hc : s.cur <;> simp [step, hc]

/-- computing twice gives the same result (in a coherent state) -/
theorem C14_compute_twice (ph : Phys F V A) (s : St F V) (h : Coherent ph s) :
    (step ph true (step ph true s .compute).1 .compute).2 = (step ph true s .compute).2 := by
  have h' := C14_inv ph s .compute h
  rcases C14_obs ph s .compute h with h1 | h1
  · simp [step] at h1
  · rcases C14_obs ph _ .compute h' with h2 | h2
    · simp [step] at h2
    · rw [h1, h2]; rfl

/-- far-field and near-field requests do not disturb each other -/
theorem C14_far_near_commute (ph : Phys F V A) (s : St F V) (a b : A) :
    (step ph true (step ph true s (.far a)).1 (.near b)).2 = (step ph true s (.near b)).2 := by
  cases hc : s.cur <;> simp [step, hc]

/-- a concrete physics in which the skin-effect impedance is the frequency itself and the solution
reports the impedance used for object 0 -/
def witnessPhys : Phys Nat Nat Nat :=
  ⟨fun _ f => f, fun _ => 0, fun _ zi _ => zi 0, fun r _ _ => r, fun r _ _ => r⟩

/-- **the defect of the original code** (`Geobj.zint` survives a frequency change): the history
`compute @7; f := 14; compute` answers with the 7 MHz impedance, a fresh run at 14 MHz does not -/
theorem C14_defect_witness :
    (run witnessPhys false (init 7) [.compute, .setF 14, .compute]).2 = [some 7, none, some 7] ∧
    freshObs witnessPhys 14 (.compute : Op Nat Nat) = some 14 := by
  decide

/-- … and the repaired setter removes it -/
example : (run witnessPhys true (init 7) [.compute, .setF 14, .compute]).2 = [some 7, none, some 14] := by
  decide

end Pmn.Props.C14
