/-
C15 (continued) — "same objects with tags, tapering and transformations": the transformation options round trip.

`main` collects all `--geo-rotate` options, then all `--geo-translate` options, and applies them stably sorted by
their key (`Pmn.Geom.orderTransforms`); `Geo_Container.as_cmdline` writes the applied list in its order.  Reading
the written list back — rotations and translations are now mixed in the file — gives the same list again.
-/
import Pmn.Props.C13

namespace Pmn.Props.C15c
open Pmn.Geom Pmn.Props.C13

noncomputable section

abbrev T := Transform ℝ
abbrev Sorted (l : List T) : Prop := l.Pairwise (fun a b => a.key ≤ b.key)
abbrev ins : List T → T → List T := fun acc t => insertT t acc
def sortT (l : List T) : List T := l.foldl ins []

theorem mem_ins (t : T) (l : List T) (y : T) : y ∈ insertT t l ↔ y = t ∨ y ∈ l := by
  induction l with
  | nil => simp [insertT]
  | cons u r ih =>
    unfold insertT
    split
    · simp
    · simp only [List.mem_cons, ih]
      try tauto

theorem ins_comm (x u : T) (h : x.key < u.key) (acc : List T) :
    insertT u (insertT x acc) = insertT x (insertT u acc) := by
  induction acc with
  | nil =>
    simp only [insertT]
    rw [if_neg (not_lt.mpr h.le), if_pos h]
  | cons a r ih =>
    by_cases hxa : x.key < a.key
    · have e1 : insertT x (a :: r) = x :: a :: r := by simp [insertT, hxa]
      rw [e1]
      have e2 : insertT u (x :: a :: r) = x :: insertT u (a :: r) := by
        conv_lhs => unfold insertT
        rw [if_neg (not_lt.mpr h.le)]
      rw [e2]
      by_cases hua : u.key < a.key
      · have e3 : insertT u (a :: r) = u :: a :: r := by simp [insertT, hua]
        rw [e3]
        conv_rhs => unfold insertT
        rw [if_pos h]
      · have e3 : insertT u (a :: r) = a :: insertT u r := by
          conv_lhs => unfold insertT
          rw [if_neg hua]
        rw [e3]
        conv_rhs => unfold insertT
        rw [if_pos hxa]
    · have hua : ¬ u.key < a.key := by
        intro hh; exact hxa (lt_trans h hh)
      have e1 : insertT x (a :: r) = a :: insertT x r := by
        conv_lhs => unfold insertT
        rw [if_neg hxa]
      have e3 : insertT u (a :: r) = a :: insertT u r := by
        conv_lhs => unfold insertT
        rw [if_neg hua]
      rw [e1, e3]
      conv_lhs => unfold insertT
      conv_rhs => unfold insertT
      rw [if_neg hua, if_neg hxa, ih]

theorem foldl_ins_comm (x : T) (s : List T) (hs : ∀ y ∈ s, x.key < y.key) (acc : List T) :
    s.foldl ins (insertT x acc) = insertT x (s.foldl ins acc) := by
  induction s generalizing acc with
  | nil => rfl
  | cons u r ih =>
    simp only [List.foldl_cons, ins]
    rw [ins_comm x u (hs u (List.mem_cons_self ..)) acc]
    exact ih (fun y hy => hs y (List.mem_cons_of_mem _ hy)) _

theorem foldl_ins_insert (x : T) (s : List T) (hs : Sorted s) (acc : List T) :
    (insertT x s).foldl ins acc = insertT x (s.foldl ins acc) := by
  induction s generalizing acc with
  | nil => simp [insertT, ins]
  | cons u r ih =>
    have hs := List.pairwise_cons.mp hs
    by_cases h : x.key < u.key
    · have e : insertT x (u :: r) = x :: u :: r := by simp [insertT, h]
      rw [e]
      simp only [List.foldl_cons, ins]
      have hall : ∀ y ∈ u :: r, x.key < y.key := by
        intro y hy
        rcases List.mem_cons.mp hy with rfl | hy
        · exact h
        · exact lt_of_lt_of_le h (hs.1 y hy)
      have := foldl_ins_comm x (u :: r) hall acc
      simpa [List.foldl_cons, ins] using this
    · have e : insertT x (u :: r) = u :: insertT x r := by
        conv_lhs => unfold insertT
        rw [if_neg h]
      rw [e]
      simp only [List.foldl_cons]
      exact ih hs.2 _

theorem sortT_sorted (l : List T) : Sorted (sortT l) := by
  have := (C13_order l []).1
  simpa [orderTransforms, sortT, ins] using this

theorem sortT_snoc (l : List T) (x : T) : sortT (l ++ [x]) = insertT x (sortT l) := by
  simp [sortT, List.foldl_append, ins]

/-- inserting the elements of the stably sorted list gives what inserting the original list gives -/
theorem foldl_sortT (l acc : List T) : (sortT l).foldl ins acc = l.foldl ins acc := by
  induction l using List.reverseRecOn generalizing acc with
  | nil => rfl
  | append_singleton l x ih =>
    rw [sortT_snoc, foldl_ins_insert x _ (sortT_sorted l), ih]
    simp [List.foldl_append, ins]

theorem sortT_idem (l : List T) : sortT (sortT l) = sortT l := by
  have := foldl_sortT l []
  simpa [sortT] using this

theorem insertT_filter (p : T → Bool) (t : T) (l : List T) (hl : Sorted l) :
    (insertT t l).filter p = if p t then insertT t (l.filter p) else l.filter p := by
  induction l with
  | nil => cases h : p t <;> simp [insertT, h]
  | cons u r ih =>
    have hl := List.pairwise_cons.mp hl
    by_cases h : t.key < u.key
    · have e : insertT t (u :: r) = t :: u :: r := by simp [insertT, h]
      rw [e]
      cases hp : p t
      · simp [hp]
      · simp only [List.filter_cons, hp, if_true]
        -- t goes in front of the filtered list as well: every element has a larger key
        have hfront : ∀ (s : List T), (∀ y ∈ s, t.key < y.key) → insertT t s = t :: s := by
          intro s hs
          cases s with
          | nil => rfl
          | cons a b => simp [insertT, hs a (List.mem_cons_self ..)]
        have hall : ∀ y ∈ (u :: r).filter p, t.key < y.key := by
          intro y hy
          have hy' := (List.mem_filter.mp hy).1
          rcases List.mem_cons.mp hy' with rfl | hy'
          · exact h
          · exact lt_of_lt_of_le h (hl.1 y hy')
        have := hfront _ hall
        simp only [List.filter_cons] at this
        rw [this]
    · have e : insertT t (u :: r) = u :: insertT t r := by
        conv_lhs => unfold insertT
        rw [if_neg h]
      rw [e]
      simp only [List.filter_cons, ih hl.2]
      cases hp : p t <;> cases hu : p u <;> simp [hp, hu]
      · conv_rhs => unfold insertT
        rw [if_neg h]

theorem filter_foldl (p : T → Bool) (X acc : List T) (ha : Sorted acc) :
    (X.foldl ins acc).filter p = (X.filter p).foldl ins (acc.filter p) := by
  induction X generalizing acc with
  | nil => rfl
  | cons x r ih =>
    simp only [List.foldl_cons, ins]
    rw [ih _ (insertT_sorted x acc ha), insertT_filter p x acc ha]
    cases hp : p x <;> simp [List.filter_cons, hp, ins]

theorem filter_sortT (p : T → Bool) (X : List T) : (sortT X).filter p = sortT (X.filter p) := by
  have := filter_foldl p X [] List.Pairwise.nil
  simpa [sortT] using this

theorem order_eq_sort (R L : List T) : orderTransforms R L = sortT (R ++ L) := rfl

/-- **transformations round trip**: the list `main` applies (rotations `R` and translations `L` of the command line,
stably sorted by key) is what `as_cmdline` writes; reading that back gives the same list -/
theorem C15_transforms (R L : List T) (hR : ∀ t ∈ R, isRot t = true) (hL : ∀ t ∈ L, isRot t = false) :
    readTransforms (orderTransforms R L) = orderTransforms R L := by
  unfold readTransforms
  rw [order_eq_sort R L, filter_sortT, filter_sortT, order_eq_sort]
  have h1 : (R ++ L).filter isRot = R := by
    rw [List.filter_append, List.filter_eq_self.mpr hR, List.filter_eq_nil_iff.mpr (by intro t ht; simp [hL t ht])]
    simp
  have h2 : (R ++ L).filter (fun t => !isRot t) = L := by
    rw [List.filter_append, List.filter_eq_nil_iff.mpr (by intro t ht; simp [hR t ht]),
      List.filter_eq_self.mpr (by intro t ht; simp [hL t ht])]
    simp
  rw [h1, h2]
  -- sort (sort R ++ sort L) = sort (R ++ L)
  unfold sortT
  rw [List.foldl_append, List.foldl_append]
  have e1 : (sortT R).foldl ins [] = sortT R := sortT_idem R
  have e1' : List.foldl ins [] (List.foldl ins [] R) = List.foldl ins [] R := e1
  rw [e1']
  exact foldl_sortT L _


/-- reading is idempotent on what it produces, for any option list (also one written by hand in any order) -/
theorem C15_transforms_idem (opts : List T) :
    readTransforms (readTransforms opts) = readTransforms opts := by
  unfold readTransforms
  exact C15_transforms _ _ (fun t ht => (List.mem_filter.mp ht).2)
    (fun t ht => by simpa using (List.mem_filter.mp ht).2)

/-! non-vacuity: key 2 rotation, key 1 translation, key 1 rotation (rotation first among equal keys) -/
example : ∀ t ∈ [(⟨2, .rotate, ⟨0, 0, 90⟩, none⟩ : T), ⟨1, .rotate, ⟨0, 0, 45⟩, some 3⟩], isRot t = true := by
  intro t ht; simp only [List.mem_cons, List.mem_nil_iff, or_false] at ht; rcases ht with rfl | rfl <;> rfl

end

end Pmn.Props.C15c
