import Pmn.Model.Topo
namespace Pmn.Props.C15
end Pmn.Props.C15
