/-
C15 — the option file written for a model reproduces that model when read back.

Round trips of the option sub-languages of `Pmn.Model.Cmd`, for lists of any length; each repaired
defect of the writer is refuted for the former rule by a kernel-checked witness.
-/
import Pmn.Model.Cmd

namespace Pmn.Props.C15
open Pmn.Cmd

/-! ### sources -/

/-- source lists `main` can produce: the single default source, or only explicit ones -/
def WFSources (dflt : Nat) (ss : List Src) : Prop :=
  (∃ v, ss = [⟨.abs dflt, v, true⟩]) ∨ (ss ≠ [] ∧ ∀ s ∈ ss, s.isDefault = false)

@[simp] theorem pulse?_pulse (a : Addr) : SOpt.pulse? (.pulse a) = some a := rfl
@[simp] theorem pulse?_volt (v : Nat) : SOpt.pulse? (.volt v) = none := rfl
@[simp] theorem volt?_pulse (a : Addr) : SOpt.volt? (.pulse a) = none := rfl
@[simp] theorem volt?_volt (v : Nat) : SOpt.volt? (.volt v) = some v := rfl

theorem filterMap_pulse_forced (ss : List Src) (h : ∀ s ∈ ss, s.isDefault = false) :
    (ss.flatMap (writeSrc true)).filterMap SOpt.pulse? = ss.map (·.addr) := by
  induction ss with
  | nil => rfl
  | cons s r ih =>
    have hs := h s (List.mem_cons_self ..)
    simp only [List.flatMap_cons, List.filterMap_append, List.map_cons]
    rw [ih (fun x hx => h x (List.mem_cons_of_mem _ hx))]
    simp [writeSrc, hs, List.filterMap_cons]

theorem filterMap_volt_forced (ss : List Src) (h : ∀ s ∈ ss, s.isDefault = false) :
    (ss.flatMap (writeSrc true)).filterMap SOpt.volt? = ss.map (·.volt) := by
  induction ss with
  | nil => rfl
  | cons s r ih =>
    have hs := h s (List.mem_cons_self ..)
    simp only [List.flatMap_cons, List.filterMap_append, List.map_cons]
    rw [ih (fun x hx => h x (List.mem_cons_of_mem _ hx))]
    simp [writeSrc, hs, List.filterMap_cons]

theorem zipWith_map_self (ss : List Src) (h : ∀ s ∈ ss, s.isDefault = false) :
    List.zipWith (fun a v => (⟨a, v, false⟩ : Src)) (ss.map (·.addr)) (ss.map (·.volt)) = ss := by
  induction ss with
  | nil => rfl
  | cons s r ih =>
    have hs := h s (List.mem_cons_self ..)
    simp only [List.map_cons, List.zipWith_cons_cons]
    rw [ih (fun x hx => h x (List.mem_cons_of_mem _ hx))]
    congr 1
    cases s; simp_all

/-- **sources round trip**: every source comes back on its pulse with its voltage -/
theorem C15_sources (dflt : Nat) (ss : List Src) (h : WFSources dflt ss) :
    readSources dflt (writeSources ss) = .ok ss := by
  rcases h with ⟨v, rfl⟩ | ⟨hne, hall⟩
  · by_cases hv : v = 0
    · subst hv; simp [writeSources, writeSrc, readSources, List.filterMap_cons]
    · simp [writeSources, writeSrc, readSources, List.filterMap_cons, hv]
  · match ss, hne, hall with
    | [s], _, hall =>
      have hs := hall s (List.mem_cons_self ..)
      obtain ⟨a, v, d⟩ := s
      simp only at hs
      subst hs
      by_cases hv : v = 0
      · subst hv; simp [writeSources, writeSrc, readSources, List.filterMap_cons]
      · simp [writeSources, writeSrc, readSources, List.filterMap_cons, hv]
    | s :: t :: r, _, hall =>
      have hlen : decide (1 < (s :: t :: r).length) = true := by simp
      unfold writeSources readSources
      rw [hlen]
      simp only [filterMap_pulse_forced _ hall, filterMap_volt_forced _ hall]
      simp only [List.map_cons, List.isEmpty_cons, Bool.false_eq_true, if_false, List.length_cons,
        List.length_map, ne_eq, not_true_eq_false]
      have := zipWith_map_self (s :: t :: r) hall
      simp only [List.map_cons] at this
      rw [this]

/-- the former writer (no voltage for a 1 V source): two sources, 1 V and another voltage, are
rejected when read back -/
theorem C15_sources_defect_witness :
    readSources 5 (writeSourcesOld [⟨.abs 3, 0, false⟩, ⟨.abs 5, 7, false⟩])
      = .error "number-of-excitation-pulses-must-match-voltages" := by rfl

/-! ### complex load value -/

/-- the written load value parses back to the same real and imaginary part, whatever their signs -/
theorem C15_complex (re im : SNum) (imZero : Bool) :
    parseComplex (writeComplex re im imZero) = some (re, if imZero then none else some im) := by
  obtain ⟨rn, ra⟩ := re
  obtain ⟨iN, ia⟩ := im
  cases rn <;> cases imZero <;> simp [writeComplex, renderNum, parseComplex]

/-- the former writer: a negative imaginary part gives a text `complex ()` rejects -/
theorem C15_complex_defect_witness (re : SNum) (b : Nat) :
    parseComplex (writeComplexOld re ⟨true, b⟩ false) = none := by
  obtain ⟨rn, ra⟩ := re
  cases rn <;> simp [writeComplexOld, renderNum, parseComplex]

/-! ### taper by tag -/

theorem idxOf?_getElem_nodup (l : List Nat) (h : l.Nodup) (k : Nat) (hk : k < l.length) :
    l.idxOf? l[k] = some k := by
  induction l generalizing k with
  | nil => simp at hk
  | cons a r ih =>
    rw [List.nodup_cons] at h
    cases k with
    | zero => simp [List.idxOf?, List.findIdx?_cons]
    | succ k =>
      have hk' : k < r.length := by simpa using hk
      have hne : ¬ (a = r[k]) := fun e => h.1 (e ▸ List.getElem_mem hk')
      have := ih h.2 k hk'
      simp only [List.getElem_cons_succ]
      unfold List.idxOf? at this ⊢
      rw [List.findIdx?_cons]
      simp [hne, this]

/-- the wire named in the written `--taper-wire` option is the wire that was tapered -/
theorem C15_taper (tags : List Nat) (h : tags.Nodup) (k : Nat) (hk : k < tags.length) :
    (writeTaper true tags k).bind (readTaper tags) = some k := by
  unfold writeTaper readTaper
  simp only [if_true, List.getElem?_eq_getElem hk, Option.bind_some]
  exact idxOf?_getElem_nodup tags h k hk

/-- the former writer (position instead of tag): wires tagged 7 and 3 (tag order 3, 7), taper on the
wire with tag 7 → `--taper-wire=2,…`, which names no wire; with tags 2 and 3 it names the other wire -/
theorem C15_taper_defect_witness :
    (writeTaper false [3, 7] 1).bind (readTaper [3, 7]) = none ∧
    (writeTaper false [2, 3] 0).bind (readTaper [2, 3]) = none ∧
    (writeTaper false [2, 3] 1).bind (readTaper [2, 3]) = some 0 := by decide

/-! ### lumped loads: definition order and attachment numbers -/

def defOf (l : Lump) : LClass × Nat := (l.cls, l.params)

@[simp] theorem load?_load (c : LClass) (p : Nat) : LOpt.load? (.load c p) = some (c, p) := rfl
@[simp] theorem load?_attach (i : Nat) (a : Att) : LOpt.load? (.attach i a) = none := rfl
@[simp] theorem attachOf_load (j : Nat) (c : LClass) (p : Nat) : LOpt.attachOf j (.load c p) = none := rfl
@[simp] theorem attachOf_attach (j i : Nat) (a : Att) :
    LOpt.attachOf j (.attach i a) = if i = j then some a else none := rfl

theorem filterMap_load_attaches (i : Nat) (as : List Att) :
    (as.map (LOpt.attach i)).filterMap LOpt.load? = [] := by
  induction as with
  | nil => rfl
  | cons a r ih => simp [List.filterMap_cons, ih]

theorem filterMap_attachOf_attaches (j i : Nat) (as : List Att) :
    (as.map (LOpt.attach i)).filterMap (LOpt.attachOf j) = if i = j then as else [] := by
  induction as with
  | nil => simp
  | cons a r ih =>
    simp only [List.map_cons, List.filterMap_cons, attachOf_attach, ih]
    by_cases h : i = j <;> simp [h]

theorem defs_of_write (i : Nat) (ls : List Lump) :
    (writeLoadsFrom i ls).filterMap LOpt.load? = ls.map defOf := by
  induction ls generalizing i with
  | nil => rfl
  | cons l r ih =>
    simp only [writeLoadsFrom, List.filterMap_append, List.filterMap_cons, load?_load,
      filterMap_load_attaches, ih, List.map_cons, defOf]
    rfl

theorem att_of_write_le (i j : Nat) (ls : List Lump) (h : j ≤ i) :
    (writeLoadsFrom i ls).filterMap (LOpt.attachOf j) = [] := by
  induction ls generalizing i with
  | nil => rfl
  | cons l r ih =>
    simp only [writeLoadsFrom, List.filterMap_append, List.filterMap_cons, attachOf_load,
      filterMap_attachOf_attaches]
    rw [if_neg (by omega), ih (i + 1) (by omega)]
    rfl

theorem att_of_write (i j : Nat) (ls : List Lump) (h : i < j) :
    (writeLoadsFrom i ls).filterMap (LOpt.attachOf j) = ((ls[j - i - 1]?).map (·.att)).getD [] := by
  induction ls generalizing i with
  | nil => rfl
  | cons l r ih =>
    simp only [writeLoadsFrom, List.filterMap_append, List.filterMap_cons, attachOf_load,
      filterMap_attachOf_attaches]
    by_cases hj : i + 1 = j
    · subst hj
      rw [if_pos rfl, att_of_write_le (i + 1) (i + 1) r (Nat.le_refl _)]
      simp
    · rw [if_neg hj, ih (i + 1) (by omega)]
      have : j - i - 1 = (j - (i + 1) - 1) + 1 := by omega
      rw [this]
      simp

/-- class ranks do not decrease along the list (what `main` builds, and after the repair also the
order of `m.loads`) -/
def ClassSorted (ds : List (LClass × Nat)) : Prop := ds.Pairwise (fun a b => a.1.rank ≤ b.1.rank)

theorem filter_eq_nil_of_rank (ds : List (LClass × Nat)) (c : LClass) (k : Nat) (hk : c.rank < k)
    (h : ∀ d ∈ ds, k ≤ d.1.rank) : ds.filter (·.1 = c) = [] := by
  rw [List.filter_eq_nil_iff]
  intro d hd
  have := h d hd
  simp only [decide_eq_true_eq]
  intro e; rw [e] at this; omega

/-- grouping by class leaves a class-sorted list unchanged -/
theorem groupByClass_sorted (ds : List (LClass × Nat)) (h : ClassSorted ds) : groupByClass ds = ds := by
  induction ds with
  | nil => rfl
  | cons d r ih =>
    have hp := List.pairwise_cons.mp h
    have ihr := ih hp.2
    unfold groupByClass at ihr ⊢
    obtain ⟨c, p⟩ := d
    cases c
    · simp only [List.filter_cons]
      simp
      simpa [List.append_assoc] using ihr
    · have e0 := filter_eq_nil_of_rank r .imp 1 (by decide) (fun d hd => hp.1 d hd)
      simp only [List.filter_cons]
      simp [e0] at ihr ⊢
      simpa [List.append_assoc] using ihr
    · have e0 := filter_eq_nil_of_rank r .imp 2 (by decide) (fun d hd => hp.1 d hd)
      have e1 := filter_eq_nil_of_rank r .rlc 2 (by decide) (fun d hd => hp.1 d hd)
      simp only [List.filter_cons]
      simp [e0, e1] at ihr ⊢
      simpa [List.append_assoc] using ihr
    · have e0 := filter_eq_nil_of_rank r .imp 3 (by decide) (fun d hd => hp.1 d hd)
      have e1 := filter_eq_nil_of_rank r .rlc 3 (by decide) (fun d hd => hp.1 d hd)
      have e2 := filter_eq_nil_of_rank r .trap 3 (by decide) (fun d hd => hp.1 d hd)
      simp only [List.filter_cons]
      simp [e0, e1, e2] at ihr ⊢
      simpa [List.append_assoc] using ihr

theorem attachFrom_write (ls pre t : List Lump) (hsplit : ls = pre ++ t) :
    attachFrom (writeLoads ls) pre.length (t.map defOf) = t := by
  induction t generalizing pre with
  | nil => rfl
  | cons d r ih =>
    simp only [List.map_cons, attachFrom]
    have hatt : (writeLoads ls).filterMap (LOpt.attachOf (pre.length + 1)) = d.att := by
      unfold writeLoads
      rw [att_of_write 0 (pre.length + 1) ls (by omega)]
      have : pre.length + 1 - 0 - 1 = pre.length := by omega
      rw [this, hsplit]
      simp
    rw [hatt]
    have := ih (pre ++ [d]) (by rw [hsplit]; simp)
    simp only [List.length_append, List.length_singleton] at this
    rw [this]
    cases d; rfl

/-- **loads round trip**: with the loads in definition (class) order and every load attached at
least once, each written `--attach-load` number refers to the load it was written for, and every
load comes back with exactly its attachments, in order -/
theorem C15_loads (ls : List Lump) (hs : ClassSorted (ls.map defOf)) (hatt : ∀ l ∈ ls, l.att ≠ []) :
    readLoads (writeLoads ls) = .ok ls := by
  unfold readLoads
  have hdefs : groupByClass ((writeLoads ls).filterMap LOpt.load?) = ls.map defOf := by
    unfold writeLoads; rw [defs_of_write, groupByClass_sorted _ hs]
  simp only [hdefs, List.length_map]
  have hbad : (writeLoads ls).any (LOpt.badIdx ls.length) = false := by
    rw [List.any_eq_false]
    intro o ho
    unfold writeLoads at ho
    suffices H : ∀ (i : Nat) (xs : List Lump) (o : LOpt), o ∈ writeLoadsFrom i xs →
        ∀ n, i + xs.length ≤ n → LOpt.badIdx n o = false by
      have := H 0 ls o ho ls.length (by omega)
      simp [this]
    intro i xs
    induction xs generalizing i with
    | nil => intro o ho; simp [writeLoadsFrom] at ho
    | cons l r ih =>
      intro o ho n hn
      simp only [writeLoadsFrom, List.mem_append, List.mem_cons, List.mem_map] at ho
      simp only [List.length_cons] at hn
      rcases ho with (rfl | ⟨a, _, rfl⟩) | ho
      · rfl
      · simp only [LOpt.badIdx, decide_eq_false_iff_not]; omega
      · exact ih (i + 1) o ho n (by omega)
  rw [hbad]
  simp only [Bool.false_eq_true, if_false]
  have hl := attachFrom_write ls [] ls rfl
  simp only [List.length_nil] at hl
  rw [hl]
  have hne : (ls.any (·.att.isEmpty)) = false := by
    rw [List.any_eq_false]
    intro l hl'
    have := hatt l hl'
    simp [this]
  rw [hne]
  rfl

/-- what `main` reads is always class-sorted, so `C15_loads` applies to every model that came from
a command line -/
theorem C15_read_sorted (ds : List (LClass × Nat)) : ClassSorted (groupByClass ds) := by
  unfold ClassSorted groupByClass
  simp only [List.pairwise_append, List.mem_append, List.mem_filter, decide_eq_true_eq]
  refine ⟨⟨⟨?_, ?_, ?_⟩, ?_, ?_⟩, ?_, ?_⟩
  all_goals first
    | (apply List.Pairwise.imp_of_mem (R := fun _ _ => True) _ (List.pairwise_of_forall (fun _ _ => trivial));
       intro a b ha hb _
       simp only [List.mem_filter, decide_eq_true_eq] at ha hb
       rw [ha.2, hb.2]; exact Nat.le_refl _)
    | (intro a ha b hb
       first
        | (rcases ha with (ha | ha) | ha <;> rw [ha.2, hb.2] <;> decide)
        | (rcases ha with ha | ha <;> rw [ha.2, hb.2] <;> decide)
        | (rw [ha.2, hb.2]; decide))

/-- the former numbering (order of first attachment): `--load` defined first but attached last is
written second, and comes back with the attachment of the other load -/
theorem C15_loads_defect_witness :
    (readLoads (writeLoads [⟨.rlc, 11, [.pulse 1]⟩, ⟨.imp, 22, [.pulse 2]⟩])).toOption
      = some [⟨.imp, 22, [.pulse 1]⟩, ⟨.rlc, 11, [.pulse 2]⟩] := by decide

end Pmn.Props.C15
