/-
C03 — image theory: ideal ground = free space + mirrored antenna.

(1) Fill model (`Pmn.Fill`): the image pass of an entry over ground *is* the direct entry for the
    image pulse — the source pulse mirrored at the ground plane and taken in image sense (horizontal
    components of the current reversed, vertical kept) — for every potential functional that treats
    the mirrored path like the path (`ImgSym`), in particular for the implemented `psi`
    (`psi_imgSym`, exact: no assumption on the quadrature table):
      `C03_image_term`, `C03_entry`.
(2) Linear algebra over ℂ:
    * `C03_symmetric` : a system that is invariant under a relabelling σ (mirror symmetry of antenna
      plus image, fed in mirror sense) has a σ-invariant solution;
    * `C03_reduce`    : if `Sᵀ Z_f S = diag(W) Z_g` and `Sᵀ v_f = W v_g` (S: symmetric extension of
      the currents above ground to antenna plus image, W = 2 for elevated, 1 for grounded pulses —
      measured on the implementation) then the ground currents solve the ground system exactly when
      their symmetric extension solves the free-space system;
    * `C03_half_impedance`, `C03_gain_ratio`, `C03_db` : a source on a grounded end sees half the
      impedance of the source in the middle of wire plus image; same field with half the power is
      twice the gain, and `|10 log10 2 − 3.0103| < 1e-3`.
That `Sᵀ Z_f S = W Z_g` holds for the matrices `Mininec` builds is the tie (harness/c03.py); the
property itself (currents, impedances, gains within the stated tolerances) is evaluated there.
-/
import Pmn.Model.Fill
import Pmn.Props.C06
import Pmn.Proofs.Inst
import Pmn.Proofs.FarLemmas
import Mathlib.LinearAlgebra.Matrix.NonsingularInverse
import Mathlib.LinearAlgebra.Matrix.ToLin
import Mathlib.Data.Complex.Basic
import Mathlib.Analysis.SpecialFunctions.Log.Base
import Mathlib.Tactic.Ring
import Mathlib.Tactic.NormNum

namespace Pmn.Props.C03
open Pmn.Fill Pmn.Props.C06

/-! ### (1) the image pass is the direct pass for the image pulse -/

/-- mirror at the ground plane -/
def mirV (a : V3 ℝ) : V3 ℝ := ⟨a.x, a.y, -a.z⟩

/-- a half of the image pulse: mirrored position, direction in image sense `(−dx, −dy, dz)` -/
def imgSide (s : Side ℝ) : Side ℝ := { s with fend := mirV s.fend, dir := ⟨-s.dir.x, -s.dir.y, s.dir.z⟩ }

/-- the image pulse (number `j'` in the free-space structure): mirrored, halves exchanged so that
the current runs from the first to the second half in image sense -/
def imgPulse (p : PulseD ℝ) (j' : Nat) : PulseD ℝ :=
  { p with idx := j', pt := mirV p.pt, s0 := imgSide p.s1, s1 := imgSide p.s0 }

theorem kmul_neg_one (a : V3 ℝ) : kmul (-1) a = mirV a := by
  simp [kmul, mirV]

theorem kmul_one (a : V3 ℝ) : kmul 1 a = a := by
  simp [kmul]

theorem side_img (p : PulseD ℝ) (j' : Nat) (pos : Bool) : side (imgPulse p j') pos = imgSide (side p (!pos)) := by
  cases pos <;> rfl

theorem mirV_lin (a b : V3 ℝ) (t : ℝ) : mirV (vadd (vsmul t (vsub a b)) b) = vadd (vsmul t (vsub (mirV a) (mirV b))) (mirV b) := by
  simp only [mirV, vadd, vsmul, vsub, V3.mk.injEq, true_and]
  ring

theorem endseg_img (p : PulseD ℝ) (j' : Nat) (pos : Bool) (a : ℝ) :
    endseg (imgPulse p j') pos a = mirV (endseg p (!pos) a) := by
  unfold endseg
  rw [side_img, mirV_lin]
  rfl

theorem dvecs_img (p : PulseD ℝ) (j' : Nat) (pos : Bool) (a : ℝ) :
    dvecs (imgPulse p j') pos a = (mirV (dvecs p (!pos) a).2, mirV (dvecs p (!pos) a).1) := by
  unfold dvecs
  cases pos <;> simp only [endseg_img, Bool.false_eq_true, if_false, if_true, Bool.not_false, Bool.not_true] <;> rfl

/-- a functional for which integrating along the mirrored path of the image pulse (direct pass) is
the same as the image pass along the path of the pulse -/
@[reducible] def ImgSym (Ψ : PsiFn ℝ) : Prop :=
  ∀ u v sc pos (pj : PulseD ℝ) (j' : Nat) x f,
    Ψ v u false sc pos (imgPulse pj j') x f = Ψ u v true sc (!pos) pj x f

/-- the implemented potential integral is such a functional — exactly, for every quadrature table:
the image flag only exchanges the two end points of the path -/
theorem integrand_kneg (c : Ctx ℝ) (t : ℝ) (u v : V3 ℝ) (r : ℝ) (e : Bool) :
    integrand c t v u false r e = integrand c t u v true r e := by
  unfold integrand
  simp only [Bool.false_eq_true, if_false, if_true]

theorem psi_imgSym (c : Ctx ℝ) : ImgSym (psi c) := by
  intro u v sc pos pj j' x f
  unfold psi
  rw [side_img]
  have e1 : (imgSide (side pj (!pos))).len = (side pj (!pos)).len := rfl
  have e2 : (imgSide (side pj (!pos))).r = (side pj (!pos)).r := rfl
  have e3 : (imgSide (side pj (!pos))).i6 = (side pj (!pos)).i6 := rfl
  simp only [e1, e2, e3, add_comm (V3.norm v) (V3.norm u), integrand_kneg]

/-- **image term = direct term of the image pulse**.  `hidx`, `hfar`: the image pulse is another
pulse than the observer and its segments are not the observer's own (true for every pulse of the
mirrored half of the structure). -/
theorem C03_image_term (Ψ : PsiFn ℝ) (hΨ : ImgSym Ψ) (c : Ctx ℝ) (pi pj : PulseD ℝ) (xct : Bool) (j' : Nat)
    (hidx : pi.idx ≠ j') (hfar : ∀ p1 p2, sameMid pi.idx j' p1 p2 = false) :
    entryK Ψ c (-1) true pi pj xct = entryK Ψ c 1 false pi (imgPulse pj j') xct := by
  have hv : ∀ pos, vecpot Ψ c 1 false pi (imgPulse pj j') pos xct = vecpot Ψ c (-1) true pi pj (!pos) xct := by
    intro pos
    unfold vecpot
    have e1 : (imgPulse pj j').idx = j' := rfl
    simp only [e1, hidx, ne_eq, not_false_eq_true, true_or, or_true, if_true, dvecs_img, kmul_one, kmul_neg_one, hΨ]
  have hs : ∀ p1 p2, scapot Ψ c 1 false pi (imgPulse pj j') p1 p2 (sameMid pi.idx j' p1 p2) xct
      = scapot Ψ c (-1) true pi pj p1 (!p2) (sameMid pi.idx pj.idx p1 (!p2)) xct := by
    intro p1 p2
    unfold scapot
    simp only [hfar, Bool.false_eq_true, not_false_eq_true, true_or, or_true, if_true, dvecs_img, kmul_one,
      kmul_neg_one, hΨ]
  unfold entryK entryK8
  have e1 : (imgPulse pj j').idx = j' := rfl
  simp only [hv, e1, hs, Bool.not_true, Bool.not_false]
  simp only [imgPulse, imgSide, vadd, vsmul, V3.dot, Nat.lt_irrefl, if_true, if_false,
    (by decide : (0 : Nat) < 2), (by decide : ¬ ((0 : Nat) = 1))]
  cx_unfold
  simp only [Cx.mk.injEq]
  constructor <;> ring

/-- **every entry over ideal ground is the free-space entry of the pulse plus that of its image**
(for source pulses that do not sit on the ground plane; those have no image pass) -/
theorem C03_entry (Ψ : PsiFn ℝ) (hΨ : ImgSym Ψ) (c : Ctx ℝ) (pi pj : PulseD ℝ) (xct : Bool) (j' : Nat)
    (hidx : pi.idx ≠ j') (hfar : ∀ p1 p2, sameMid pi.idx j' p1 p2 = false)
    (hg : (pj.s0.gnd || pj.s1.gnd) = false) :
    entry Ψ c true pi pj xct = entry Ψ c false pi pj xct + entry Ψ c false pi (imgPulse pj j') xct := by
  unfold entry
  simp only [hg, Bool.not_false, Bool.and_self, Bool.false_and, Bool.false_eq_true, if_false, if_true,
    Nat.cast_one]
  rw [C03_image_term Ψ hΨ c pi pj xct j' hidx hfar]

/-- non-vacuity of `hfar`: an image pulse numbered two or more beyond the observer -/
example : ∀ p1 p2, sameMid 3 9 p1 p2 = false := by decide

/-! ### (2) symmetric systems -/

section Linear
variable {n m : Type} [Fintype n] [DecidableEq n] [Fintype m] [DecidableEq m]

/-- **a mirror-symmetric system has a mirror-symmetric solution** -/
theorem C03_symmetric (σ : Equiv.Perm n) (Z : Matrix n n ℂ) (v I : n → ℂ) (hdet : IsUnit Z.det)
    (hZ : ∀ i j, Z (σ i) (σ j) = Z i j) (hv : ∀ i, v (σ i) = v i) (hs : Z.mulVec I = v) :
    ∀ i, I (σ i) = I i := by
  have hinj := Matrix.mulVec_injective_iff_isUnit.mpr ((Matrix.isUnit_iff_isUnit_det _).mpr hdet)
  have hJ : Z.mulVec (fun i => I (σ i)) = v := by
    funext i
    have : (Z.mulVec (fun i => I (σ i))) i = (Z.mulVec I) (σ i) := by
      simp only [Matrix.mulVec, dotProduct]
      rw [← Equiv.sum_comp σ (fun k => Z (σ i) k * I k)]
      apply Finset.sum_congr rfl
      intro j _
      rw [hZ]
    rw [this, hs, hv]
  have := hinj (hJ.trans hs.symm)
  intro i
  exact congrFun this i

/-- **reduction to the half space**: with `Sᵀ Z_f S = diag W · Z_g` and `Sᵀ v_f = W v_g`, if the
symmetric extension `S I_g` of ground currents solves the free-space system then `I_g` solves the
ground system -/
theorem C03_reduce (Zf : Matrix n n ℂ) (Zg : Matrix m m ℂ) (S : Matrix n m ℂ) (W : m → ℂ) (hW : ∀ i, W i ≠ 0)
    (hfold : S.transpose * Zf * S = Matrix.diagonal W * Zg) (vf : n → ℂ) (vg : m → ℂ)
    (hv : S.transpose.mulVec vf = fun i => W i * vg i) (Ig : m → ℂ) (hsol : Zf.mulVec (S.mulVec Ig) = vf) :
    Zg.mulVec Ig = vg := by
  have h1 : (S.transpose * Zf * S).mulVec Ig = S.transpose.mulVec vf := by
    rw [← hsol, Matrix.mulVec_mulVec, Matrix.mulVec_mulVec, Matrix.mul_assoc]
  rw [hfold, hv, ← Matrix.mulVec_mulVec] at h1
  funext i
  have := congrFun h1 i
  simp only [Matrix.mulVec_diagonal] at this
  exact mul_left_cancel₀ (hW i) this

/-- … and conversely the ground solution is the only one whose extension can solve it: two ground
current vectors with the same right-hand side coincide when `Z_g` is invertible -/
theorem C03_unique (Zg : Matrix m m ℂ) (hdet : IsUnit Zg.det) (vg I I' : m → ℂ)
    (h : Zg.mulVec I = vg) (h' : Zg.mulVec I' = vg) : I = I' :=
  Matrix.mulVec_injective_iff_isUnit.mpr ((Matrix.isUnit_iff_isUnit_det _).mpr hdet) (h.trans h'.symm)

end Linear

/-- a source `V` on a grounded end corresponds to `2 V` in the middle of wire plus image with the
same current: it sees half the impedance -/
theorem C03_half_impedance (V I : ℂ) : V / I = (2 * V / I) / 2 := by
  ring

/-- the same field with half the input power is twice the gain -/
theorem C03_gain_ratio (k9c e2 p : ℝ) (hp : p ≠ 0) : k9c / (p / 2) * e2 = 2 * (k9c / p * e2) := by
  field_simp

/-- `10 log10 2 = 3.0103` to a thousandth of a dB -/
theorem C03_db : |10 * Real.logb 10 2 - 3.0103| < 1 / 1000 := by
  have h2 : (0 : ℝ) < Real.log 2 := Real.log_pos (by norm_num)
  have h10 : (0 : ℝ) < Real.log 10 := Real.log_pos (by norm_num)
  -- 2^93 < 10^28 and 10^59 < 2^196
  have up : 93 * Real.log 2 < 28 * Real.log 10 := by
    have : Real.log ((2 : ℝ) ^ 93) < Real.log ((10 : ℝ) ^ 28) := Real.log_lt_log (by positivity) (by norm_num)
    simpa [Real.log_pow] using this
  have lo : 59 * Real.log 10 < 196 * Real.log 2 := by
    have : Real.log ((10 : ℝ) ^ 59) < Real.log ((2 : ℝ) ^ 196) := Real.log_lt_log (by positivity) (by norm_num)
    simpa [Real.log_pow] using this
  have hb : Real.logb 10 2 = Real.log 2 / Real.log 10 := rfl
  rw [hb, abs_lt]
  constructor
  · have : (59 : ℝ) / 196 < Real.log 2 / Real.log 10 := by
      rw [div_lt_div_iff₀ (by norm_num) h10]; linarith
    linarith
  · have : Real.log 2 / Real.log 10 < (28 : ℝ) / 93 := by
      rw [div_lt_div_iff₀ h10 (by norm_num)]; linarith
    linarith

end Pmn.Props.C03
