/-
Pmn.Props.C15d — C15, media clause: the media the option file describes are the media of the model.

`main` turns the `--medium` options (with `--boundary`, `--radial-count`, `--radial-radius`) into a linked list of
`Medium` objects (`Pmn.Cmd.readMedia`); `Medium.as_cmdline` writes one `--medium` per medium, the coordinate only where a
next medium exists, the boundary type and the radials with the first (`Pmn.Cmd.writeMedia`).  Theorem `C15_media`: for
every media list `main` accepts, reading the written options gives the same list (up to the boundary type of a single
medium, which has no boundary and is not written), and writing that again gives the same options.  The rule before the
repair 51d80cd (`linkOld`) is refuted by a witness.
-/
import Pmn.Model.Cmd

namespace Pmn.Props.C15d
open Pmn.Cmd


theorem mk_ok (inf : Nat) (g : MediaOpts) (first : Bool) (o : MedOpt) (m : Medium)
    (h : mkMedium inf g first o = .ok m) :
    (first = true → o.height = 0) ∧
    ((if first then g.radCount else 0) ≠ 0 → g.radRadius ≠ none ∧ g.radRadius ≠ some 0 ∧ (o.eps == 0 && o.sigma == 0) = false) ∧
    ((o.eps == 0 && o.sigma == 0) = true → o.height = 0) ∧ (o.eps ≠ 0 → o.sigma ≠ 0) ∧
    m = { eps := o.eps, sigma := o.sigma, height := o.height
          coord := if (o.eps == 0 && o.sigma == 0) then 0 else o.coord.getD inf
          nradials := if first then g.radCount else 0
          radius := if (if first then g.radCount else 0) ≠ 0 then g.radRadius.getD 0 else 0
          circular := g.circular || (if first then g.radCount else 0) ≠ 0 } := by
  unfold mkMedium at h
  grind


theorem mk_radius (inf : Nat) (g : MediaOpts) (first : Bool) (o : MedOpt) (m : Medium)
    (h : mkMedium inf g first o = .ok m) (hn : m.nradials ≠ 0) : m.radius ≠ 0 := by
  obtain ⟨_, h2, _, _, hm⟩ := mk_ok inf g first o m h
  subst hm
  simp only at hn ⊢
  obtain ⟨ha, hb, _⟩ := h2 hn
  rw [if_pos hn]
  cases hr : g.radRadius with
  | none => exact absurd hr ha
  | some rr =>
    simp only [Option.getD_some]
    intro h0; subst h0; exact hb hr

theorem mk_again_rest_some (inf : Nat) (g g' : MediaOpts) (o : MedOpt) (m : Medium)
    (h : mkMedium inf g false o = .ok m) :
    mkMedium inf g' false ⟨m.eps, m.sigma, m.height, some m.coord⟩ = .ok { m with circular := g'.circular } := by
  have := mk_ok inf g false o m h
  unfold mkMedium
  grind

theorem mk_again_rest_none (inf : Nat) (g g' : MediaOpts) (o : MedOpt) (m : Medium)
    (h : mkMedium inf g false o = .ok m) :
    mkMedium inf g' false ⟨m.eps, m.sigma, m.height, none⟩
      = .ok { m with circular := g'.circular, coord := if m.ideal then 0 else inf } := by
  have := mk_ok inf g false o m h
  unfold mkMedium Medium.ideal
  grind

theorem mk_again_first_some (inf : Nat) (g g' : MediaOpts) (o : MedOpt) (m : Medium)
    (h : mkMedium inf g true o = .ok m)
    (h1 : g'.radCount = m.nradials) (h2 : g'.radRadius = if m.nradials ≠ 0 then some m.radius else none) :
    mkMedium inf g' true ⟨m.eps, m.sigma, m.height, some m.coord⟩
      = .ok { m with circular := g'.circular || m.nradials ≠ 0 } := by
  have := mk_ok inf g true o m h
  have hr := mk_radius inf g true o m h
  unfold mkMedium
  grind

theorem mk_again_first_none (inf : Nat) (g g' : MediaOpts) (o : MedOpt) (m : Medium)
    (h : mkMedium inf g true o = .ok m)
    (h1 : g'.radCount = m.nradials) (h2 : g'.radRadius = if m.nradials ≠ 0 then some m.radius else none) :
    mkMedium inf g' true ⟨m.eps, m.sigma, m.height, none⟩
      = .ok { m with circular := g'.circular || m.nradials ≠ 0, coord := if m.ideal then 0 else inf } := by
  have := mk_ok inf g true o m h
  have hr := mk_radius inf g true o m h
  unfold mkMedium Medium.ideal
  grind

/-! ### lists -/

theorem mkRest_spec (inf : Nat) (g : MediaOpts) : ∀ (os : List MedOpt) (r : List Medium),
    mkRest inf g os = .ok r → ∀ m ∈ r, ∃ o, mkMedium inf g false o = .ok m := by
  intro os
  induction os with
  | nil => intro r h; simp only [mkRest] at h; injection h with h; subst h; intro m hm; cases hm
  | cons o os ih =>
    intro r h
    simp only [mkRest] at h
    cases h1 : mkMedium inf g false o with
    | error e => rw [h1] at h; cases h
    | ok m1 =>
      rw [h1] at h
      simp only at h
      cases h2 : mkRest inf g os with
      | error e => rw [h2] at h; cases h
      | ok ms =>
        rw [h2] at h
        simp only at h
        injection h with h
        subst h
        intro m hm
        rcases List.mem_cons.mp hm with rfl | hm
        · exact ⟨o, h1⟩
        · exact ih ms h2 m hm

/-- the tail of the media list: whatever was linked comes back from its written options -/
theorem tail_roundtrip (inf : Nat) (g g' : MediaOpts) (c : Bool) : ∀ (r t : List Medium),
    (∀ m ∈ r, ∃ o, mkMedium inf g false o = .ok m) → linkAux inf c r = .ok t →
    ∃ r', mkRest inf g' (writeMedOpts t) = .ok r' ∧ linkAux inf c r' = .ok t ∧ (r = [] ↔ r' = []) := by
  intro r
  induction r with
  | nil =>
    intro t _ h
    simp only [linkAux] at h
    injection h with h; subst h
    exact ⟨[], rfl, rfl, Iff.rfl⟩
  | cons m r ih =>
    intro t hr h
    obtain ⟨o, ho⟩ := hr m (List.mem_cons_self ..)
    cases r with
    | nil =>
      simp only [linkAux] at h
      split at h
      · cases h
      · rename_i hn
        injection h with h; subst h
        refine ⟨[{ m with circular := g'.circular, coord := if m.ideal then 0 else inf }], ?_, ?_, by simp⟩
        · simp only [writeMedOpts, mkRest]
          rw [mk_again_rest_none inf g g' o m ho]
        · simp only [linkAux]
          rw [if_neg hn]
    | cons m2 r2 =>
      simp only [linkAux] at h
      split at h
      · cases h
      · rename_i hid
        cases h2 : linkAux inf c (m2 :: r2) with
        | error e => rw [h2] at h; cases h
        | ok t2 =>
          rw [h2] at h
          simp only at h
          injection h with h; subst h
          obtain ⟨r', hr1, hr2, hr3⟩ := ih t2 (fun x hx => hr x (List.mem_cons_of_mem _ hx)) h2
          have hr'ne : r' ≠ [] := fun hh => by simpa using hr3.mpr hh
          have ht2 : t2 ≠ [] := by
            intro hh; subst hh
            simp only [writeMedOpts, mkRest] at hr1
            injection hr1 with hr1; exact hr'ne hr1.symm
          refine ⟨{ m with circular := g'.circular } :: r', ?_, ?_, by simp⟩
          · obtain ⟨x, xs, rfl⟩ := List.exists_cons_of_ne_nil ht2
            simp only [writeMedOpts, mkRest]
            rw [mk_again_rest_some inf g g' o m ho]
            simp only
            rw [hr1]
          · obtain ⟨y, ys, rfl⟩ := List.exists_cons_of_ne_nil hr'ne
            simp only [linkAux]
            have hid' : ({ m with circular := g'.circular } : Medium).ideal = m.ideal := rfl
            rw [hid', if_neg hid, hr2]

/-- a first medium as `main` builds it carries the circular boundary exactly when `--boundary=circular` was given or it
has radials -/
theorem first_circular (inf : Nat) (g : MediaOpts) (o : MedOpt) (f : Medium) (h : mkMedium inf g true o = .ok f) :
    (f.circular || decide (f.nradials ≠ 0)) = f.circular := by
  obtain ⟨_, _, _, _, hm⟩ := mk_ok inf g true o f h
  subst hm
  simp only [if_true]
  cases g.circular <;> simp

/-- **media round trip**: for every media list the program accepts, the options written for it are accepted and
describe the same media — same constants, heights, coordinates (the last medium extending to infinity), radials and
boundary type (a single medium has no boundary: its boundary type is not written and reads back as the default) -/
theorem C15_media (inf : Nat) (g : MediaOpts) (ms : List Medium) (h : readMedia inf g = .ok ms) :
    readMedia inf (writeMedia ms) = .ok (normBoundary ms) := by
  unfold readMedia readMediaWith at h
  cases hmed : g.media with
  | nil =>
    rw [hmed] at h
    simp only at h
    injection h with h; subst h
    rfl
  | cons o os =>
    rw [hmed] at h
    simp only at h
    cases hf : mkMedium inf g true o with
    | error e => rw [hf] at h; cases h
    | ok f =>
      rw [hf] at h
      simp only at h
      cases hr : mkRest inf g os with
      | error e => rw [hr] at h; cases h
      | ok r =>
        rw [hr] at h
        simp only [link] at h
        have hspec := mkRest_spec inf g os r hr
        cases r with
        | nil =>
          simp only [linkAux] at h
          split at h
          · cases h
          · rename_i hn
            have hn0 : f.nradials = 0 := Decidable.of_not_not hn
            injection h with h; subst h
            have hw : writeMedia [{ f with circular := f.circular, coord := inf }]
                = ⟨[⟨f.eps, f.sigma, f.height, none⟩], false, f.nradials, if f.nradials ≠ 0 then some f.radius else none⟩ := rfl
            rw [hw]
            unfold readMedia readMediaWith
            simp only
            rw [mk_again_first_none inf g _ o f hf rfl rfl]
            simp only [mkRest, link, linkAux, normBoundary]
            rw [if_neg (by simpa using hn0)]
            simp [hn0]
        | cons m2 r2 =>
          simp only [linkAux] at h
          split at h
          · cases h
          · rename_i hid
            cases h2 : linkAux inf f.circular (m2 :: r2) with
            | error e => rw [h2] at h; cases h
            | ok t2 =>
              rw [h2] at h
              simp only at h
              injection h with h; subst h
              have hff : ({ f with circular := f.circular } : Medium) = f := rfl
              rw [hff]
              obtain ⟨r', hr1, hr2, hr3⟩ := tail_roundtrip inf g
                (writeMedia (f :: t2)) f.circular (m2 :: r2) t2 hspec h2
              have hr'ne : r' ≠ [] := fun hh => by simpa using hr3.mpr hh
              have ht2 : t2 ≠ [] := by
                intro hh; subst hh
                simp only [writeMedOpts, mkRest] at hr1
                injection hr1 with hr1; exact hr'ne hr1.symm
              obtain ⟨x, xs, rfl⟩ := List.exists_cons_of_ne_nil ht2
              obtain ⟨y, ys, rfl⟩ := List.exists_cons_of_ne_nil hr'ne
              have hw : writeMedia (f :: x :: xs)
                  = ⟨⟨f.eps, f.sigma, f.height, some f.coord⟩ :: writeMedOpts (x :: xs), f.circular, f.nradials,
                      if f.nradials ≠ 0 then some f.radius else none⟩ := rfl
              rw [hw] at hr1 ⊢
              unfold readMedia readMediaWith
              simp only
              rw [mk_again_first_some inf g _ o f hf rfl rfl]
              simp only
              rw [hr1]
              simp only [first_circular inf g o f hf, link, linkAux]
              have hid' : ({ f with circular := f.circular } : Medium).ideal = f.ideal := rfl
              rw [if_neg hid]
              rw [hr2]
              rfl

/-- writing the options of the re-read media gives the same options -/
theorem C15_media_second (ms : List Medium) : writeMedia (normBoundary ms) = writeMedia ms := by
  match ms with
  | [] => rfl
  | [m] => rfl
  | _ :: _ :: _ => rfl

/-- … and they are read back as the same media once more -/
theorem C15_media_stable (inf : Nat) (g : MediaOpts) (ms : List Medium) (h : readMedia inf g = .ok ms) :
    readMedia inf (writeMedia (normBoundary ms)) = .ok (normBoundary ms) := by
  rw [C15_media_second]; exact C15_media inf g ms h

/-- with several media nothing is lost: the re-read list is the list itself -/
theorem C15_media_several (inf : Nat) (g : MediaOpts) (a b : Medium) (r : List Medium)
    (h : readMedia inf g = .ok (a :: b :: r)) : readMedia inf (writeMedia (a :: b :: r)) = .ok (a :: b :: r) :=
  C15_media inf g _ h

/-- the rule before the repair 51d80cd: a coordinate given for the last of two media stayed in the model and is not
written, the re-read model differs (`50` vs the default `99`) -/
theorem C15_media_defect_witness :
    ∃ ms, readMediaWith (linkOld 99) 99 ⟨[⟨13, 7, 0, some 10⟩, ⟨5, 8, 3, some 50⟩], false, 0, none⟩ = .ok ms ∧
      readMediaWith (linkOld 99) 99 (writeMedia ms) ≠ .ok ms := by
  refine ⟨[⟨13, 7, 0, 10, 0, 0, false⟩, ⟨5, 8, 3, 50, 0, 0, false⟩], rfl, ?_⟩
  intro h
  have h' : readMediaWith (linkOld 99) 99 (writeMedia [⟨13, 7, 0, 10, 0, 0, false⟩, ⟨5, 8, 3, 50, 0, 0, false⟩])
      = .ok [⟨13, 7, 0, 10, 0, 0, false⟩, ⟨5, 8, 3, 99, 0, 0, false⟩] := rfl
  rw [h'] at h
  injection h with h
  injection h with _ h
  injection h with h _
  injection h with _ _ _ h _ _ _
  exact absurd h (by decide)

/-! non-vacuity: three media with radials on the first are accepted -/
example : ∃ ms, readMedia 99 ⟨[⟨13, 7, 0, some 10⟩, ⟨5, 8, 3, some 50⟩, ⟨0, 0, 0, some 4⟩], false, 4, some 2⟩ = .ok ms ∧
    ms.length = 3 := ⟨_, rfl, rfl⟩

end Pmn.Props.C15d
