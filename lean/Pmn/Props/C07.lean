/-
C07 — currents are linear in the source voltages; source data are V/I and Re(V·conj I)/2.

`rhsAt` is the right-hand side as `compute_rhs` builds it (assignment semantics: the last source on
a pulse wins); `Z.mulVec I = rhs` is the specification of `np.linalg.solve`.
-/
import Pmn.Proofs.Inst
import Pmn.Props.C10
import Mathlib.LinearAlgebra.Matrix.NonsingularInverse
import Mathlib.LinearAlgebra.Matrix.ToLin
import Mathlib.Tactic.FieldSimp
import Mathlib.Tactic.Ring

namespace Pmn.Props.C07
open Pmn.Circuit Matrix

theorem rhsEntry_mul (minv : ℂ) (g : Bool) (c v : ℂ) :
    rhsEntry minv g (c * v) = c * rhsEntry minv g v := by
  unfold rhsEntry; cases g <;> simp <;> ring

theorem rhsEntry_add (minv : ℂ) (g : Bool) (v w : ℂ) :
    rhsEntry minv g (v + w) = rhsEntry minv g v + rhsEntry minv g w := by
  unfold rhsEntry; cases g <;> simp <;> ring

/-- multiplying all voltages by `c` multiplies the right-hand side by `c` … -/
theorem C07_rhs_scale (minv : ℂ) (g : Nat → Bool) (ps : List Nat) (V : Nat → ℂ) (c : ℂ) (p : Nat) :
    rhsAt minv g ps (fun i => c * V i) p = c * rhsAt minv g ps V p := by
  unfold rhsAt
  cases lastIdx ps p with
  | none => simp
  | some i => simp [rhsEntry_mul]

/-- … and the right-hand side of a sum of voltage vectors (same source pulses, duplicates allowed)
is the sum of the right-hand sides: in particular the rhs of all sources is the sum of the rhs of
each source alone with the others at 0 V -/
theorem C07_rhs_add (minv : ℂ) (g : Nat → Bool) (ps : List Nat) (V W : Nat → ℂ) (p : Nat) :
    rhsAt minv g ps (fun i => V i + W i) p = rhsAt minv g ps V p + rhsAt minv g ps W p := by
  unfold rhsAt
  cases lastIdx ps p with
  | none => simp
  | some i => simp [rhsEntry_add]

/-- decomposition into single sources: `V = Σ_k V_k·δ_k` -/
theorem C07_rhs_superpose (minv : ℂ) (g : Nat → Bool) (ps : List Nat) (V : Nat → ℂ) (p : Nat) :
    rhsAt minv g ps V p
      = ((List.range ps.length).map fun k =>
          rhsAt minv g ps (fun i => if i = k then V i else 0) p).sum := by
  unfold rhsAt
  cases h : lastIdx ps p with
  | none => simp
  | some i =>
    have hi : i < ps.length := by
      unfold lastIdx at h
      have := List.mem_of_find?_eq_some h
      simpa using this
    simp only
    have : ∀ k, rhsEntry minv (g p) (if i = k then V i else 0)
        = if k = i then rhsEntry minv (g p) (V i) else 0 := by
      intro k
      by_cases hk : i = k
      · subst hk; simp
      · have : ¬ k = i := fun h => hk h.symm
        simp [hk, this, rhsEntry]
    simp only [this]
    rw [List.sum_map_ite_eq]
    simp [hi]

variable {n : Type} [Fintype n] [DecidableEq n]

/-- **linearity of the solution**: scaling the right-hand side scales the solution; the solution
is unique, so `solve Z (c·b) = c · solve Z b` -/
theorem C07_solve_scale (Z : Matrix n n ℂ) (hZ : IsUnit Z.det) (I I' b : n → ℂ) (c : ℂ)
    (h : Z *ᵥ I = b) (h' : Z *ᵥ I' = c • b) : I' = c • I := by
  have hinj := Matrix.mulVec_injective_iff_isUnit.mpr (Matrix.isUnit_iff_isUnit_det Z |>.mpr hZ)
  apply hinj
  rw [h', Matrix.mulVec_smul, h]

/-- **superposition**: the response to `b₁ + b₂` is the sum of the responses -/
theorem C07_solve_add (Z : Matrix n n ℂ) (hZ : IsUnit Z.det) (I₁ I₂ I b₁ b₂ : n → ℂ)
    (h₁ : Z *ᵥ I₁ = b₁) (h₂ : Z *ᵥ I₂ = b₂) (h : Z *ᵥ I = b₁ + b₂) : I = I₁ + I₂ := by
  have hinj := Matrix.mulVec_injective_iff_isUnit.mpr (Matrix.isUnit_iff_isUnit_det Z |>.mpr hZ)
  apply hinj
  rw [h, Matrix.mulVec_add, h₁, h₂]

/-- scaling all voltages leaves every source impedance unchanged -/
theorem C07_impedance_scale (v i c : ℂ) (hc : c ≠ 0) (hi : i ≠ 0) :
    srcImpedance (c * v) (c * i) = srcImpedance v i := by
  unfold srcImpedance; field_simp

/-- source power is `Re (V·conj I)/2` and scales with `|c|²` — the same factor by which the
radiated power density (quadratic in the currents) scales, so the dBi pattern is unchanged -/
theorem C07_power_scale (v i c : ℂ) :
    (srcPower (c * v) (c * i) : ℝ) = Complex.normSq c * srcPower v i := by
  unfold srcPower
  simp only [HasConjRe.re, HasConjRe.conj, map_mul]
  have : c * v * ((starRingEnd ℂ) c * (starRingEnd ℂ) i)
      = (c * (starRingEnd ℂ) c) * (v * (starRingEnd ℂ) i) := by ring
  rw [this, Complex.mul_conj, Complex.re_ofReal_mul]
  ring

/-- **the dBi pattern does not depend on the excitation level**: with every pulse current multiplied by `c` (the
response to voltages multiplied by `c`, `C07_solve_scale`) and the power multiplied by `|c|²` (`C07_power_scale`),
the three linear gains of every direction — far-field model of C10 in free space, over ideal and over real ground —
are unchanged -/
theorem C07_pattern_scale (env : Pmn.Far.Env ℝ) (w t p k9c g0 power : ℝ) (ps : List (Pmn.Far.PulseF ℝ))
    (I : List (Cx ℝ)) (c : Cx ℝ) (hI : I.length = ps.length) (hc : Cx.normSq c ≠ 0) (hP : power ≠ 0) :
    Pmn.Far.linGains k9c (Cx.normSq c * power)
        (Pmn.Far.h12 g0 (Pmn.Far.gvec env w t p ps (I.map (fun i => c * i))) t p)
        (Pmn.Far.x34 g0 (Pmn.Far.gvec env w t p ps (I.map (fun i => c * i))) p)
      = Pmn.Far.linGains k9c power (Pmn.Far.h12 g0 (Pmn.Far.gvec env w t p ps I) t p)
          (Pmn.Far.x34 g0 (Pmn.Far.gvec env w t p ps I) p) := by
  rw [Pmn.Props.C10.gvec_smul env w t p ps I c hI]
  exact Pmn.Props.C10.C10_pattern_scale k9c g0 power t p _ c hc hP

/-- the reported source power is `½ Re (V conj I)` -/
theorem C07_power_def (v i : ℂ) :
    (srcPower v i : ℝ) = (v.re * i.re + v.im * i.im) / 2 := by
  unfold srcPower
  simp [HasConjRe.re, HasConjRe.conj, Complex.mul_re]

/-! non-vacuity: two sources on pulses 1 and 3, the second listed twice (last value wins) -/
example : lastIdx [1, 3, 3] 3 = some 2 ∧ lastIdx [1, 3, 3] 1 = some 0 ∧ lastIdx [1, 3, 3] 2 = none := by
  decide

end Pmn.Props.C07
