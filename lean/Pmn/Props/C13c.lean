/-
Pmn.Props.C13c — C13, taper clause for the taper from both ends (`taper.taper2`, `Pmn.Geom.taper2Loop`).

Over ℝ: the loop doubles the segment length from the first end (`2^i · minl`), switches to equal segments as soon as what is
left of the middle, divided evenly, is no longer than the next doubled segment plus `eps`, keeps them until as many segments
are left as were doubled, and then halves down to `minl` at the second end.  `C13_taper2_near`: every segment of an accepted
two-sided taper has positive length and neighbouring segments differ by at most the factor 2.1 either way (exactly 2 in the
doubling and halving runs, below `2 + eps / previous` with `eps ≤ minl / 10` where they meet the equal run, 1 inside it).
The case "doubling runs into the middle" is impossible because the first segment is at least `l / npieces`.
The upper limit (`max_t`) of the two-sided taper has no theorem (its loop does not check it); it is evaluated by the harness.
-/
import Pmn.Props.C13b

namespace Pmn.Props.C13c
open Pmn Pmn.Geom Pmn.Props.C13 Pmn.Props.C13b


/-- neighbouring lengths differ by at most the factor 2.1, either way -/
def Near (a b : ℝ) : Prop := a ≤ 2.1 * b ∧ b ≤ 2.1 * a

/-- every segment has positive length and differs from its predecessor (`prev` for the first) by at most the factor 2.1 -/
def NearChain : Option ℝ → List (V3 ℝ × V3 ℝ) → Prop
  | _, [] => True
  | none, s :: r => 0 < len s ∧ NearChain (some (len s)) r
  | some a, s :: r => Near a (len s) ∧ 0 < len s ∧ NearChain (some (len s)) r

theorem near_double (a : ℝ) (ha : 0 < a) : Near a (2 * a) ∧ Near (2 * a) a := by
  unfold Near; refine ⟨⟨by linarith, by linarith⟩, ⟨by linarith, by linarith⟩⟩

theorem near_self (a : ℝ) (ha : 0 ≤ a) : Near a a := by unfold Near; constructor <;> linarith

/-- one step of the loop in the decreasing phase -/
theorem desc_step (p1 p2 lv minc : V3 ℝ) (eps : ℝ) (n f i bound : Nat) (p inc1 : V3 ℝ) :
    taper2Loop p1 p2 lv minc eps n (f + 1) i 2 bound p inc1 =
      if i = n - 1 then [(p, p2)]
      else (p, p + smulV ((2 ^ (n - i - 1) : Nat) : ℝ) minc) ::
        taper2Loop p1 p2 lv minc eps n f (i + 1) 2 bound (p + smulV ((2 ^ (n - i - 1) : Nat) : ℝ) minc) inc1 := by
  conv_lhs => unfold taper2Loop
  simp


theorem len_step (p inc : V3 ℝ) : len (p, p + inc) = V3.norm inc := by
  unfold len; simp only
  have : p + inc - p = inc := by apply v3ext <;> simp
  rw [this]

/-- decreasing phase: with `(2^fuel − 1)·minl` of the wire left, the remaining segments are `2^(fuel−1)·minl, …, 2·minl, minl` -/
theorem desc_spec (p1 p2 u : V3 ℝ) (minl eps : ℝ) (n : Nat) (hl : 0 < V3.norm u) (hminl : 0 < minl) :
    ∀ (f i bound : Nat) (p inc1 : V3 ℝ) (prev : ℝ), i + (f + 1) = n →
      p2 - p = smulV (((2 : ℝ) ^ (f + 1) - 1) * minl / V3.norm u) u →
      Near prev ((2 : ℝ) ^ f * minl) →
      NearChain (some prev) (taper2Loop p1 p2 u (smulV (minl / V3.norm u) u) eps n (f + 1) i 2 bound p inc1) := by
  intro f
  induction f with
  | zero =>
    intro i bound p inc1 prev hi hpos hnear
    rw [desc_step]
    have : i = n - 1 := by omega
    rw [if_pos this]
    have hlen : len (p, p2) = minl := by
      unfold len; simp only
      rw [hpos, norm_smulV]
      have : ((2 : ℝ) ^ (0 + 1) - 1) * minl / V3.norm u = minl / V3.norm u := by norm_num
      rw [this, abs_of_pos (by positivity)]
      field_simp
    refine ⟨?_, ?_, trivial⟩
    · rw [hlen]; simpa using hnear
    · rw [hlen]; exact hminl
  | succ f ih =>
    intro i bound p inc1 prev hi hpos hnear
    rw [desc_step]
    have hne : ¬ i = n - 1 := by omega
    rw [if_neg hne]
    have hexp : n - i - 1 = f + 1 := by omega
    rw [hexp]
    set l := V3.norm u with hldef
    have hl0 : l ≠ 0 := hl.ne'
    have hinc : V3.norm (smulV ((2 ^ (f + 1) : Nat) : ℝ) (smulV (minl / l) u)) = (2 : ℝ) ^ (f + 1) * minl := by
      rw [norm_smulV, norm_smulV, pow_cast, abs_of_pos (by positivity), abs_of_pos (by positivity), ← hldef]
      field_simp
    refine ⟨?_, ?_, ?_⟩
    · rw [len_step, hinc]; exact hnear
    · rw [len_step, hinc]; positivity
    · rw [len_step, hinc]
      refine ih (i + 1) bound _ inc1 _ (by omega) ?_ ?_
      · have hx := congrArg V3.x hpos
        have hy := congrArg V3.y hpos
        have hz := congrArg V3.z hpos
        simp only [smulV_x, smulV_y, smulV_z, sub_x, sub_y, sub_z] at hx hy hz
        have hc : ((2 : ℝ) ^ (f + 1 + 1) - 1) * minl / l - (2 : ℝ) ^ (f + 1) * (minl / l) = ((2 : ℝ) ^ (f + 1) - 1) * minl / l := by
          rw [pow_succ]; ring
        apply v3ext <;> simp only [add_x, add_y, add_z, sub_x, sub_y, sub_z, smulV_x, smulV_y, smulV_z, pow_cast]
        · have : p2.x - (p.x + (2 : ℝ) ^ (f + 1) * (minl / l * u.x)) = (p2.x - p.x) - (2 : ℝ) ^ (f + 1) * (minl / l) * u.x := by ring
          rw [this, hx, ← hc]; ring
        · have : p2.y - (p.y + (2 : ℝ) ^ (f + 1) * (minl / l * u.y)) = (p2.y - p.y) - (2 : ℝ) ^ (f + 1) * (minl / l) * u.y := by ring
          rw [this, hy, ← hc]; ring
        · have : p2.z - (p.z + (2 : ℝ) ^ (f + 1) * (minl / l * u.z)) = (p2.z - p.z) - (2 : ℝ) ^ (f + 1) * (minl / l) * u.z := by ring
          rw [this, hz, ← hc]; ring
      · have h2 : (2 : ℝ) ^ (f + 1) = 2 * (2 : ℝ) ^ f := by ring
        rw [h2, mul_assoc]
        exact (near_double _ (by positivity)).2


theorem steady_step (p1 p2 lv minc : V3 ℝ) (eps : ℝ) (n f i b : Nat) (p inc1 : V3 ℝ) (hib : i < b) :
    taper2Loop p1 p2 lv minc eps n (f + 1) i 1 b p inc1 =
      if i = n - 1 then [(p, p2)]
      else (p, p + inc1) :: taper2Loop p1 p2 lv minc eps n f (i + 1) 1 b (p + inc1) inc1 := by
  conv_lhs => unfold taper2Loop
  have : ¬ b ≤ i := by omega
  simp [this]

theorem steady_to_desc (p1 p2 lv minc : V3 ℝ) (eps : ℝ) (n f i b : Nat) (p inc1 : V3 ℝ) (hib : b ≤ i) :
    taper2Loop p1 p2 lv minc eps n (f + 1) i 1 b p inc1 = taper2Loop p1 p2 lv minc eps n (f + 1) i 2 b p inc1 := by
  rw [desc_step]
  conv_lhs => unfold taper2Loop
  simp [hib]


/-- steady phase (state 1, bound `b`, `k = n − b` decreasing segments to follow): with `(b − i)` equal segments `inc1` and
`(2^k − 1)·minl` of the wire left -/
theorem steady_spec2 (p1 p2 u : V3 ℝ) (minl eps : ℝ) (n b k : Nat) (hl : 0 < V3.norm u) (hminl : 0 < minl)
    (hbk : b + k = n) (inc1 : V3 ℝ) (ha : 0 < V3.norm inc1)
    (hk : 0 < k → Near (V3.norm inc1) ((2 : ℝ) ^ (k - 1) * minl)) :
    ∀ (f i : Nat) (p : V3 ℝ) (prev : ℝ), i + (f + 1) = n → i < b →
      p2 - p = smulV (((b - i : Nat) : ℝ)) inc1 + smulV (((2 : ℝ) ^ k - 1) * minl / V3.norm u) u →
      Near prev (V3.norm inc1) →
      NearChain (some prev) (taper2Loop p1 p2 u (smulV (minl / V3.norm u) u) eps n (f + 1) i 1 b p inc1) := by
  intro f
  induction f with
  | zero =>
    intro i p prev hi hib hpos hnear
    rw [steady_step _ _ _ _ _ _ _ _ _ _ _ hib]
    have hlast : i = n - 1 := by omega
    rw [if_pos hlast]
    -- b = n, k = 0: the last segment is what is left, one `inc1`
    have hb : b = n := by omega
    have hk0 : k = 0 := by omega
    have hseg : p2 - p = inc1 := by
      rw [hpos, hk0]
      have h1 : ((b - i : Nat) : ℝ) = 1 := by
        have : b - i = 1 := by omega
        rw [this]; simp
      rw [h1]
      apply v3ext <;> simp
    have hlen : len (p, p2) = V3.norm inc1 := by unfold len; simp only; rw [hseg]
    exact ⟨by rw [hlen]; exact hnear, by rw [hlen]; exact ha, trivial⟩
  | succ f ih =>
    intro i p prev hi hib hpos hnear
    rw [steady_step _ _ _ _ _ _ _ _ _ _ _ hib]
    have hne : ¬ i = n - 1 := by omega
    rw [if_neg hne]
    refine ⟨by rw [len_step]; exact hnear, by rw [len_step]; exact ha, ?_⟩
    rw [len_step]
    -- position after this segment
    have hnext : p2 - (p + inc1) = smulV (((b - (i + 1) : Nat) : ℝ)) inc1 + smulV (((2 : ℝ) ^ k - 1) * minl / V3.norm u) u := by
      have hc : ((b - (i + 1) : Nat) : ℝ) = ((b - i : Nat) : ℝ) - 1 := by
        have : b - i = (b - (i + 1)) + 1 := by omega
        rw [this]; push_cast; ring
      have hx := congrArg V3.x hpos
      have hy := congrArg V3.y hpos
      have hz := congrArg V3.z hpos
      simp only [smulV_x, smulV_y, smulV_z, sub_x, sub_y, sub_z, add_x, add_y, add_z] at hx hy hz
      rw [hc]
      apply v3ext <;> simp only [add_x, add_y, add_z, sub_x, sub_y, sub_z, smulV_x, smulV_y, smulV_z] <;> linarith
    by_cases hnb : i + 1 < b
    · exact ih (i + 1) (p + inc1) _ (by omega) hnb hnext (near_self _ ha.le)
    · -- the decreasing phase starts with the next segment
      have hb1 : b = i + 1 := by omega
      have hkf : k = f + 1 := by omega
      rw [steady_to_desc _ _ _ _ _ _ _ _ _ _ _ (by omega : b ≤ i + 1)]
      refine desc_spec p1 p2 u minl eps n hl hminl f (i + 1) b (p + inc1) inc1 _ (by omega) ?_ ?_
      · rw [hnext, hb1, hkf]
        have h0 : ((i + 1 - (i + 1) : Nat) : ℝ) = 0 := by simp
        rw [h0]
        apply v3ext <;> simp
      · have := hk (by omega)
        rw [hkf] at this
        simpa using this


theorem asc_step (p1 p2 lv minc : V3 ℝ) (eps : ℝ) (n f i bound : Nat) (p inc1Prev : V3 ℝ) (h2i : 2 * i < n) (hn : 2 ≤ n) :
    taper2Loop p1 p2 lv minc eps n (f + 1) i 0 bound p inc1Prev =
      if V3.norm (divV (lv - smulV ((2 : Nat) : ℝ) (p - p1)) ((n : ℝ) - 2 * i)) - V3.norm (smulV ((2 ^ i : Nat) : ℝ) minc) - eps < 0 then
        (p, p + divV (lv - smulV ((2 : Nat) : ℝ) (p - p1)) ((n : ℝ) - 2 * i)) ::
          taper2Loop p1 p2 lv minc eps n f (i + 1) 1 (n - i) (p + divV (lv - smulV ((2 : Nat) : ℝ) (p - p1)) ((n : ℝ) - 2 * i))
            (divV (lv - smulV ((2 : Nat) : ℝ) (p - p1)) ((n : ℝ) - 2 * i))
      else
        (p, p + smulV ((2 ^ i : Nat) : ℝ) minc) ::
          taper2Loop p1 p2 lv minc eps n f (i + 1) 0 bound (p + smulV ((2 ^ i : Nat) : ℝ) minc)
            (divV (lv - smulV ((2 : Nat) : ℝ) (p - p1)) ((n : ℝ) - 2 * i)) := by
  conv_lhs => unfold taper2Loop
  have hrem : ¬ ((n : Int) - 2 * (i : Int) < 0) := by omega
  have habs : (((n : Int) - 2 * (i : Int)).natAbs : ℝ) = (n : ℝ) - 2 * i := by
    have : ((n : Int) - 2 * (i : Int)).natAbs = n - 2 * i := by omega
    rw [this, Nat.cast_sub (by omega)]; push_cast; ring
  have hlast : ¬ i = n - 1 := by omega
  have hbi : ¬ n - i ≤ i := by omega
  simp only [hrem, if_false, habs, if_true, Nat.cast_zero]
  by_cases hsw : V3.norm (divV (lv - smulV ((2 : Nat) : ℝ) (p - p1)) ((n : ℝ) - 2 * i)) - V3.norm (smulV ((2 ^ i : Nat) : ℝ) minc) - eps < 0
  · have hsw' : V3.norm (divV (lv - smulV ((2 : Nat) : ℝ) (p - p1)) ((n : ℝ) - 2 * i)) - V3.norm (smulV ((2 ^ i : Nat) : ℝ) minc) < eps := by linarith
    push_cast at hsw'
    simp [hsw, hsw', hbi, hlast]
  · have hsw' : ¬ V3.norm (divV (lv - smulV ((2 : Nat) : ℝ) (p - p1)) ((n : ℝ) - 2 * i)) - V3.norm (smulV ((2 ^ i : Nat) : ℝ) minc) < eps := by
      intro h; exact hsw (by linarith)
    push_cast at hsw'
    simp [hsw, hsw', hlast]


theorem nc_cons (prev : Option ℝ) (s : V3 ℝ × V3 ℝ) (r : List (V3 ℝ × V3 ℝ))
    (h1 : ∀ a, prev = some a → Near a (len s)) (h2 : 0 < len s) (h3 : NearChain (some (len s)) r) :
    NearChain prev (s :: r) := by
  cases prev with
  | none => exact ⟨h2, h3⟩
  | some a => exact ⟨h1 a rfl, h2, h3⟩

theorem asc_spec (p1 p2 u : V3 ℝ) (minl eps : ℝ) (n : Nat) (hu : u = p2 - p1) (hl : 0 < V3.norm u)
    (hminl : 0 < minl) (heps0 : 0 < eps) (heps : eps ≤ minl / 10) (hn : 2 ≤ n)
    (hbig : ∀ i : Nat, 2 * i < n → n ≤ 2 * i + 2 →
      V3.norm u ≤ (2 * ((2 : ℝ) ^ i - 1) + ((n : ℝ) - 2 * i) * (2 : ℝ) ^ i) * minl) :
    ∀ (f i bound : Nat) (p inc1Prev : V3 ℝ), i + (f + 1) = n → 2 * i < n →
      p - p1 = smulV (((2 : ℝ) ^ i - 1) * minl / V3.norm u) u →
      2 * ((2 : ℝ) ^ i - 1) * minl < V3.norm u →
      (0 < i → ((n : ℝ) - 2 * i) * ((2 : ℝ) ^ (i - 1) * minl) ≤ V3.norm u - 2 * ((2 : ℝ) ^ i - 1) * minl) →
      NearChain (if i = 0 then none else some ((2 : ℝ) ^ (i - 1) * minl))
        (taper2Loop p1 p2 u (smulV (minl / V3.norm u) u) eps n (f + 1) i 0 bound p inc1Prev) := by
  intro f
  induction f with
  | zero =>
    intro i bound p inc1Prev hi h2i _ _ _
    omega
  | succ f ih =>
    intro i bound p inc1Prev hi h2i hpos hmidpos hlow
    rw [asc_step _ _ _ _ _ _ _ _ _ _ _ h2i hn]
    set l := V3.norm u with hldef
    have hl0 : l ≠ 0 := hl.ne'
    set s := ((2 : ℝ) ^ i - 1) * minl with hs
    have hR : (1 : ℝ) ≤ (n : ℝ) - 2 * i := by
      have : 2 * i + 1 ≤ n := by omega
      have : ((2 * i + 1 : Nat) : ℝ) ≤ (n : ℝ) := by exact_mod_cast this
      push_cast at this; linarith
    have hR0 : (0 : ℝ) < (n : ℝ) - 2 * i := by linarith
    have hpow : (1 : ℝ) ≤ (2 : ℝ) ^ i := one_le_pow₀ (by norm_num)
    have hinc : V3.norm (smulV ((2 ^ i : Nat) : ℝ) (smulV (minl / l) u)) = (2 : ℝ) ^ i * minl := by
      rw [norm_smulV, norm_smulV, pow_cast, abs_of_pos (by positivity), abs_of_pos (by positivity), ← hldef]
      field_simp
    -- the middle part of the wire
    have hmidv : u - smulV ((2 : Nat) : ℝ) (p - p1) = smulV ((l - 2 * s) / l) u := by
      rw [hpos]; apply v3ext <;> simp <;> field_simp
    set inc1 := divV (u - smulV ((2 : Nat) : ℝ) (p - p1)) ((n : ℝ) - 2 * i) with hinc1
    have hinc1v : inc1 = smulV ((l - 2 * s) / (l * ((n : ℝ) - 2 * i))) u := by
      rw [hinc1, hmidv, divV_eq]; apply v3ext <;> simp <;> field_simp
    have ha : V3.norm inc1 = (l - 2 * s) / ((n : ℝ) - 2 * i) := by
      rw [hinc1v, norm_smulV, ← hldef, abs_of_pos (by apply div_pos <;> nlinarith)]
      field_simp
    have hapos : 0 < V3.norm inc1 := by rw [ha]; apply div_pos <;> linarith
    have hrel : p2 - p = smulV ((n : ℝ) - 2 * i) inc1 + smulV (s / l) u := by
      have h1 : smulV ((n : ℝ) - 2 * i) inc1 = u - smulV ((2 : Nat) : ℝ) (p - p1) := by
        rw [hinc1]; apply v3ext <;> simp <;> field_simp
      rw [h1, hu]
      have hx := congrArg V3.x hpos
      have hy := congrArg V3.y hpos
      have hz := congrArg V3.z hpos
      simp only [smulV_x, smulV_y, smulV_z, sub_x, sub_y, sub_z] at hx hy hz
      rw [hu] at hx hy hz
      simp only [sub_x, sub_y, sub_z] at hx hy hz
      apply v3ext <;> simp only [add_x, add_y, add_z, sub_x, sub_y, sub_z, smulV_x, smulV_y, smulV_z] <;>
        push_cast <;> linarith
    by_cases hsw : V3.norm inc1 - V3.norm (smulV ((2 ^ i : Nat) : ℝ) (smulV (minl / l) u)) - eps < 0
    · rw [if_pos hsw]
      rw [hinc] at hsw
      -- bounds of the equal segments against the last doubled one
      have hnear : 0 < i → Near ((2 : ℝ) ^ (i - 1) * minl) (V3.norm inc1) := by
        intro hi0
        have h2k : (2 : ℝ) ^ i = 2 * (2 : ℝ) ^ (i - 1) := by
          obtain ⟨k, hk⟩ := Nat.exists_eq_succ_of_ne_zero (Nat.pos_iff_ne_zero.mp hi0)
          rw [hk]; simp only [Nat.succ_sub_one]; rw [pow_succ]; ring
        have hk : (1 : ℝ) ≤ (2 : ℝ) ^ (i - 1) := one_le_pow₀ (by norm_num)
        have hlo : (2 : ℝ) ^ (i - 1) * minl ≤ V3.norm inc1 := by
          rw [ha, le_div_iff₀ hR0]
          have := hlow hi0
          linarith
        rw [h2k] at hsw
        constructor
        · nlinarith
        · nlinarith
      refine nc_cons _ _ _ ?_ (by rw [len_step]; exact hapos) ?_
      · intro a hprev
        rw [len_step]
        by_cases hi0 : i = 0
        · rw [if_pos hi0] at hprev; cases hprev
        · rw [if_neg hi0] at hprev; injection hprev with hprev; subst hprev
          exact hnear (by omega)
      · rw [len_step]
        have hnext : p2 - (p + inc1) = smulV (((n - i - (i + 1) : Nat) : ℝ)) inc1 + smulV (((2 : ℝ) ^ i - 1) * minl / l) u := by
          have hc : ((n - i - (i + 1) : Nat) : ℝ) = (n : ℝ) - 2 * i - 1 := by
            rw [Nat.cast_sub (by omega), Nat.cast_sub (by omega)]; push_cast; ring
          have hx := congrArg V3.x hrel
          have hy := congrArg V3.y hrel
          have hz := congrArg V3.z hrel
          simp only [smulV_x, smulV_y, smulV_z, sub_x, sub_y, sub_z, add_x, add_y, add_z] at hx hy hz
          rw [hc]
          have hsl : s / l = ((2 : ℝ) ^ i - 1) * minl / l := by rw [hs]
          rw [← hsl]
          apply v3ext <;> simp only [add_x, add_y, add_z, sub_x, sub_y, sub_z, smulV_x, smulV_y, smulV_z] <;> linarith
        have hin : i ≤ n := by omega
        have hbk : n - i + i = n := Nat.sub_add_cancel hin
        by_cases hnb : i + 1 < n - i
        · refine steady_spec2 p1 p2 u minl eps n (n - i) i hl hminl hbk inc1 hapos ?_ f (i + 1) (p + inc1) _
            (by omega) hnb hnext (near_self _ hapos.le)
          intro hi0
          have := hnear hi0
          exact ⟨this.2, this.1⟩
        · have hb1 : n - i = i + 1 := by omega
          rw [steady_to_desc _ _ _ _ _ _ _ _ _ _ _ (by omega : n - i ≤ i + 1)]
          have hif : i = f + 1 := by omega
          have hn1 := hnear (by omega)
          refine desc_spec p1 p2 u minl eps n hl hminl f (i + 1) (n - i) (p + inc1) inc1 _ (by omega) ?_ ?_
          · rw [hnext, hb1]
            have h0 : ((i + 1 - (i + 1) : Nat) : ℝ) = 0 := by simp
            rw [h0, ← hif, ← hldef]
            apply v3ext <;> simp
          · have hfi : f = i - 1 := by omega
            rw [hfi]
            exact ⟨hn1.2, hn1.1⟩
    · rw [if_neg hsw]
      rw [hinc, ha] at hsw
      have hge : ((n : ℝ) - 2 * i) * ((2 : ℝ) ^ i * minl + eps) ≤ l - 2 * s := by
        have : (2 : ℝ) ^ i * minl + eps ≤ (l - 2 * s) / ((n : ℝ) - 2 * i) := by linarith
        rwa [le_div_iff₀ hR0, mul_comm] at this
      -- the doubling cannot go on into the middle of the wire
      have h2i' : 2 * (i + 1) < n := by
        by_contra hcon
        have hb := hbig i h2i (by omega)
        have : 0 < ((n : ℝ) - 2 * i) * eps := by positivity
        nlinarith
      have hR2 : (3 : ℝ) ≤ (n : ℝ) - 2 * i := by
        have : 2 * i + 3 ≤ n := by omega
        have : ((2 * i + 3 : Nat) : ℝ) ≤ (n : ℝ) := by exact_mod_cast this
        push_cast at this; linarith
      have h2p : (2 : ℝ) ^ (i + 1) = 2 * (2 : ℝ) ^ i := by ring
      refine nc_cons _ _ _ ?_ (by rw [len_step, hinc]; positivity) ?_
      · intro a hprev
        rw [len_step, hinc]
        by_cases hi0 : i = 0
        · rw [if_pos hi0] at hprev; cases hprev
        · rw [if_neg hi0] at hprev; injection hprev with hprev; subst hprev
          obtain ⟨k, rfl⟩ := Nat.exists_eq_succ_of_ne_zero hi0
          simp only [Nat.succ_sub_one]
          have : (2 : ℝ) ^ (k + 1) = 2 * (2 : ℝ) ^ k := by ring
          rw [Nat.succ_eq_add_one, this, mul_assoc]
          exact (near_double _ (by positivity)).1
      · rw [len_step, hinc]
        have := ih (i + 1) bound (p + smulV ((2 ^ i : Nat) : ℝ) (smulV (minl / l) u)) inc1 (by omega) h2i' ?_ ?_ ?_
        · simpa using this
        · have hx := congrArg V3.x hpos
          have hy := congrArg V3.y hpos
          have hz := congrArg V3.z hpos
          simp only [smulV_x, smulV_y, smulV_z, sub_x, sub_y, sub_z] at hx hy hz
          have hc : ((2 : ℝ) ^ i - 1) * minl / l + (2 : ℝ) ^ i * (minl / l) = ((2 : ℝ) ^ (i + 1) - 1) * minl / l := by
            rw [h2p]; ring
          apply v3ext <;> simp only [add_x, add_y, add_z, sub_x, sub_y, sub_z, smulV_x, smulV_y, smulV_z, pow_cast]
          · have : p.x + (2 : ℝ) ^ i * (minl / l * u.x) - p1.x = (p.x - p1.x) + (2 : ℝ) ^ i * (minl / l) * u.x := by ring
            rw [this, hx, ← hc]; ring
          · have : p.y + (2 : ℝ) ^ i * (minl / l * u.y) - p1.y = (p.y - p1.y) + (2 : ℝ) ^ i * (minl / l) * u.y := by ring
            rw [this, hy, ← hc]; ring
          · have : p.z + (2 : ℝ) ^ i * (minl / l * u.z) - p1.z = (p.z - p1.z) + (2 : ℝ) ^ i * (minl / l) * u.z := by ring
            rw [this, hz, ← hc]; ring
        · rw [h2p]; nlinarith
        · intro _
          simp only [Nat.add_sub_cancel]
          push_cast
          rw [h2p]; nlinarith


theorem taper2Minl_facts (l : ℝ) (n : Nat) (minT : ℝ) (maxT : Option ℝ) (minl eps : ℝ) (hl : 0 < l) (hn : 2 ≤ n)
    (hm : taper2Minl l n minT maxT = .ok (minl, eps)) :
    0 < minl ∧ 0 < eps ∧ eps ≤ minl / 10 ∧
    (∀ i : Nat, 2 * i < n → n ≤ 2 * i + 2 → l ≤ (2 * ((2 : ℝ) ^ i - 1) + ((n : ℝ) - 2 * i) * (2 : ℝ) ^ i) * minl) := by
  set npN : Nat := if n % 2 = 1 then 2 * (2 ^ (n / 2) - 1) + 2 ^ (n / 2) else 2 * (2 ^ (n / 2) - 1) with hnpN
  have hh : 1 ≤ n / 2 := by omega
  have h2h : 2 ≤ 2 ^ (n / 2) := by
    calc 2 = 2 ^ 1 := by norm_num
      _ ≤ 2 ^ (n / 2) := Nat.pow_le_pow_right (by norm_num) hh
  have hnpos : 0 < npN := by
    rw [hnpN]; split <;> omega
  have hnp : (0 : ℝ) < (npN : ℝ) := by exact_mod_cast hnpos
  set m0 := (if l / (npN : ℝ) < minT then minT else l / (npN : ℝ)) with hm0
  have hten : (((10 : Nat) : ℝ)) = 10 := by norm_num
  have hfacts : eps = m0 / 10 ∧ m0 ≤ minl := by
    unfold taper2Minl at hm
    simp only at hm
    rw [← hnpN] at hm
    cases maxT with
    | none =>
      simp only at hm
      injection hm with hm
      rw [← (Prod.mk.inj hm).1, ← (Prod.mk.inj hm).2, hten]
      exact ⟨rfl, le_refl _⟩
    | some mx =>
      simp only at hm
      generalize (if n % 2 = 1 then mx / ((2 ^ (n / 2) : Nat) : ℝ) else mx / ((2 ^ (n / 2 - 1) : Nat) : ℝ)) = maxl at hm
      generalize (if n % 2 = 1 then 1 else 2) = d at hm
      by_cases hc : maxl < l / (npN : ℝ)
      · rw [if_pos hc] at hm
        cases hs : taper2Search l mx (m0 / ((10 : Nat) : ℝ)) n n (n - d) with
        | error e => rw [hs] at hm; cases hm
        | ok nminl =>
          rw [hs] at hm
          simp only at hm
          by_cases hg : ¬ (maxl < nminl + m0 / ((10 : Nat) : ℝ))
          · rw [if_pos hg] at hm; cases hm
          · rw [if_neg hg] at hm
            injection hm with hm
            rw [← (Prod.mk.inj hm).1, ← (Prod.mk.inj hm).2, hten]
            refine ⟨rfl, ?_⟩
            by_cases hlt : m0 < nminl
            · rw [if_pos hlt]; exact hlt.le
            · rw [if_neg hlt]
      · rw [if_neg hc] at hm
        injection hm with hm
        rw [← (Prod.mk.inj hm).1, ← (Prod.mk.inj hm).2, hten]
        exact ⟨rfl, le_refl _⟩
  obtain ⟨heq, hge⟩ := hfacts
  have hdiv : 0 < l / (npN : ℝ) := div_pos hl hnp
  have hm0ge : l / (npN : ℝ) ≤ m0 := by
    rw [hm0]; split
    · rename_i h; exact h.le
    · exact le_refl _
  have hm0p : 0 < m0 := lt_of_lt_of_le hdiv hm0ge
  have hlnp : l ≤ (npN : ℝ) * minl := by
    rw [div_le_iff₀ hnp] at hm0ge
    nlinarith
  refine ⟨lt_of_lt_of_le hm0p hge, by rw [heq]; positivity, by rw [heq]; linarith, ?_⟩
  intro i h2i hle
  have hcoef : (2 * ((2 : ℝ) ^ i - 1) + ((n : ℝ) - 2 * i) * (2 : ℝ) ^ i) = (npN : ℝ) := by
    rcases Nat.lt_or_ge (2 * i + 1) n with hlt | hge2
    · -- n = 2 i + 2
      have hne : n = 2 * i + 2 := by omega
      have hmod : ¬ n % 2 = 1 := by omega
      have hdiv2 : n / 2 = i + 1 := by omega
      rw [hnpN, if_neg hmod, hdiv2, hne]
      have : 1 ≤ 2 ^ (i + 1) := Nat.one_le_two_pow
      push_cast [Nat.cast_sub this]
      ring
    · have hne : n = 2 * i + 1 := by omega
      have hmod : n % 2 = 1 := by omega
      have hdiv2 : n / 2 = i := by omega
      rw [hnpN, if_pos hmod, hdiv2, hne]
      have : 1 ≤ 2 ^ i := Nat.one_le_two_pow
      push_cast [Nat.cast_sub this]
      ring
  rw [hcoef]; exact hlnp


/-- **two-sided taper**: every segment of an accepted taper from both ends has positive length, and neighbouring segments
differ by at most the factor 2.1 — exactly 2 while the lengths double from either end, below `2 + eps/previous` where the
doubling meets the run of equal segments in the middle, 1 inside that run -/
theorem C13_taper2_near (p1 p2 : V3 ℝ) (n : Nat) (r minT : ℝ) (maxT : Option ℝ) (c25 : ℝ)
    (segs : List (V3 ℝ × V3 ℝ)) (hl : 0 < V3.norm (p2 - p1))
    (h : taper2 p1 p2 n r minT maxT c25 = .ok segs) : NearChain none segs := by
  unfold taper2 at h
  simp only at h
  cases hpre : taperPre (V3.norm (p2 - p1)) n r minT maxT c25 with
  | error e => rw [hpre] at h; cases h
  | ok mt =>
    rw [hpre] at h
    have hn : 1 < n := by
      unfold taperPre at hpre
      simp only at hpre
      split at hpre
      · cases hpre
      · omega
    simp only at h
    cases hm : taper2Minl (V3.norm (p2 - p1)) n mt maxT with
    | error e => rw [hm] at h; cases h
    | ok v =>
      rw [hm] at h
      obtain ⟨minl, eps⟩ := v
      simp only at h
      injection h with h
      subst h
      obtain ⟨h1, h2, h3, h4⟩ := taper2Minl_facts _ n mt maxT minl eps hl (by omega) hm
      obtain ⟨f, hf⟩ : ∃ f, n = f + 1 := ⟨n - 1, by omega⟩
      have := asc_spec p1 p2 (p2 - p1) minl eps n rfl hl h1 h2 h3 (by omega) h4 f 0 0 p1 (p2 - p1) (by omega) (by omega)
        (by apply v3ext <;> simp) (by simpa using hl) (by intro h0; omega)
      simp only [if_true] at this
      rw [hf]
      rw [hf] at this
      exact this


/-- the same as a condition on neighbouring segments of the list -/
theorem nearChain_isChain : ∀ (a : V3 ℝ × V3 ℝ) (r : List (V3 ℝ × V3 ℝ)), NearChain (some (len a)) r →
    List.IsChain (fun x y => Near (len x) (len y)) (a :: r) ∧ ∀ s ∈ r, 0 < len s := by
  intro a r
  induction r generalizing a with
  | nil => intro _; exact ⟨List.isChain_singleton _, by intro s hs; cases hs⟩
  | cons b r ih =>
    intro h
    obtain ⟨hc, hp⟩ := ih b h.2.2
    refine ⟨List.IsChain.cons_cons h.1 hc, ?_⟩
    intro s hs
    rcases List.mem_cons.mp hs with rfl | hs
    · exact h.2.1
    · exact hp s hs

theorem C13_taper2_chain (p1 p2 : V3 ℝ) (n : Nat) (r minT : ℝ) (maxT : Option ℝ) (c25 : ℝ)
    (segs : List (V3 ℝ × V3 ℝ)) (hl : 0 < V3.norm (p2 - p1))
    (h : taper2 p1 p2 n r minT maxT c25 = .ok segs) :
    List.IsChain (fun x y => Near (len x) (len y)) segs ∧ ∀ s ∈ segs, 0 < len s := by
  have hg := C13_taper2_near p1 p2 n r minT maxT c25 segs hl h
  cases segs with
  | nil => exact ⟨List.isChain_nil, by intro s hs; cases hs⟩
  | cons a r =>
    obtain ⟨hc, hp⟩ := nearChain_isChain a r hg.2
    refine ⟨hc, ?_⟩
    intro s hs
    rcases List.mem_cons.mp hs with rfl | hs
    · exact hg.1
    · exact hp s hs

end Pmn.Props.C13c
