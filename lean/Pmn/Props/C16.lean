/-
C16 — field tables contain exactly the requested sample points.

Property theorems only.  `K` is any commutative ring (ℝ, ℚ, …): the statements are about the
exact values `start + i·step`; what IEEE rounding does to them is outside the theorem and is
tied by the bit-exact correspondence run (harness/c16.py).
-/
import Pmn.Model.Grid
import Pmn.Proofs.ListLemmas
import Mathlib.Tactic.Ring

namespace Pmn.Props.C16
open Pmn.Grid Pmn.ListLemmas

variable {K : Type} [CommRing K]

/-- the angle list has exactly `n` entries … -/
theorem C16_angles_length (a d : K) (n : Nat) : (anglesDeg a d n).length = n := by
  simp [anglesDeg]

/-- … and entry `i` is `start + i·step`. -/
theorem C16_angles_get (a d : K) (n i : Nat) (h : i < n) :
    (anglesDeg a d n)[i]? = some (a + (i : K) * d) := by
  simp [anglesDeg, h]

/-- far-field table: exactly `N_θ · N_φ` rows -/
theorem C16_far_rows (a d : K) (n : Nat) (a' d' : K) (n' : Nat) :
    (farTable (anglesDeg a d n) (anglesDeg a' d' n')).length = n' * n := by
  unfold farTable
  rw [length_flatMap_const _ _ n (by intro x _; simp [anglesDeg])]
  simp [anglesDeg]

/-- far-field table: row `j·N_θ + i` is (θ_i, φ_j) = (θ₀ + i·Δθ, φ₀ + j·Δφ), azimuth outer -/
theorem C16_far_row (a d : K) (n : Nat) (a' d' : K) (n' i j : Nat) (hi : i < n) (hj : j < n') :
    (farTable (anglesDeg a d n) (anglesDeg a' d' n'))[j * n + i]?
      = some (a + (i : K) * d, a' + (j : K) * d') := by
  unfold farTable
  rw [getElem?_flatMap_const _ _ n (by intro x _; simp [anglesDeg]) j i hi]
  simp [anglesDeg, hi, hj]

/-- one near-field axis has exactly `n` coordinates … -/
theorem C16_axis_length (s i : K) (n : Nat) : (axis s i n).length = n := by
  simp [axis]

/-- … and coordinate `k` is `start + k·increment`. -/
theorem C16_axis_get (s i : K) (n k : Nat) (h : k < n) :
    (axis s i n)[k]? = some (s + (k : K) * i) := by
  simp only [axis, List.getElem?_map, List.getElem?_range h, Option.map_some]
  congr 1; ring

/-- near-field grid: exactly `Nx·Ny·Nz` points -/
theorem C16_near_length (s i : V3 K) (nx ny nz : Nat) :
    (nearGrid s i nx ny nz).length = nx * ny * nz := by
  unfold nearGrid
  rw [length_flatMap_const _ _ (ny * nx)]
  · rw [C16_axis_length]; ring
  · intro z _
    rw [length_flatMap_const _ _ nx]
    · rw [C16_axis_length]
    · intro y _; simp [C16_axis_length]

/-- near-field grid: point number `(c·Ny + b)·Nx + a` (x fastest, then y, then z) is
`(sx + a·ix, sy + b·iy, sz + c·iz)` -/
theorem C16_near_get (s i : V3 K) (nx ny nz a b c : Nat) (ha : a < nx) (hb : b < ny) (hc : c < nz) :
    (nearGrid s i nx ny nz)[(c * ny + b) * nx + a]?
      = some ⟨s.x + (a : K) * i.x, s.y + (b : K) * i.y, s.z + (c : K) * i.z⟩ := by
  unfold nearGrid
  have hyx : ∀ z : K, ((axis s.y i.y ny).flatMap fun y =>
      (axis s.x i.x nx).map fun x => (⟨x, y, z⟩ : V3 K)).length = ny * nx := by
    intro z
    rw [length_flatMap_const _ _ nx (by intro y _; simp [C16_axis_length]), C16_axis_length]
  have hidx : (c * ny + b) * nx + a = c * (ny * nx) + (b * nx + a) := by ring
  rw [hidx, getElem?_flatMap_const _ _ (ny * nx) (fun z _ => hyx z) c (b * nx + a)
    (by calc b * nx + a < b * nx + nx := by omega
          _ = (b + 1) * nx := by ring
          _ ≤ ny * nx := Nat.mul_le_mul_right _ hb)]
  rw [C16_axis_get _ _ _ _ hc]
  simp only [Option.bind_some]
  rw [getElem?_flatMap_const _ _ nx (by intro y _; simp [C16_axis_length]) b a ha]
  rw [C16_axis_get _ _ _ _ hb]
  simp only [Option.bind_some, List.getElem?_map, C16_axis_get _ _ _ _ ha, Option.map_some]

/-- non-vacuity: a 2×3×4 grid over ℤ has 24 points and point (1,2,3) is where it should be -/
example : (nearGrid (⟨0, 10, 20⟩ : V3 Int) ⟨1, 2, 3⟩ 2 3 4).length = 24
    ∧ (nearGrid (⟨0, 10, 20⟩ : V3 Int) ⟨1, 2, 3⟩ 2 3 4)[(3 * 3 + 2) * 2 + 1]? = some ⟨1, 14, 29⟩ := by
  decide

/-- The defect of the former grid code (`np.arange (s, s + n*i, i)`), as a kernel-checked fact
about IEEE doubles: for start 0, increment 0.1, count 3 the axis gets 4 coordinates, because
`0 + 3*0.1 = 0.30000000000000004` and `ceil (0.30000000000000004 / 0.1) = 4`. -/
theorem C16_old_rule_defect : oldAxisLen 0.0 0.1 3 = 4 := by decide +kernel

end Pmn.Props.C16
