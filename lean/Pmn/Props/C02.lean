/-
C02 — impedance-matrix terms equal the MININEC-3 potential-integral formulation.

Translation validation: `entrySpec` evaluates the published formulation (vector potential of the
two half segments of the source pulse projected on the observer pulse, plus the differences of the
scalar potentials of its two charged segments at the observer's half-segment ends, minus the same
for the mirror image over ground) with *adaptive* quadrature of the reduced kernel, from nothing
but geometry, radii and frequency; the harness compares `Mininec.Z` with it at 1e-4 of the
magnitude of the potential terms for all pulse pairs at least 2.5 segments apart.
What is proved here is the shared structure; no theorem bounds the quadrature error.
-/
import Pmn.Props.C05

namespace Pmn.Props.C02
open Pmn.Fill Pmn.Props.C05

/-- implemented fill and specification are the same assembly applied to two potential functionals:
for every pulse pair outside a single straight equally segmented object (`f8Of = 0`, in particular
for pulses on different objects, junction pulses, tapered wires, arcs, helices) the implemented entry
is `entry` with the Gauss-rule functional, the specification is `entry` with the adaptive one -/
theorem C02_same_assembly (c : Ctx ℝ) (tol : ℝ) (hg : Bool) (pi pj : PulseD ℝ) (x : Bool)
    (h8 : f8Of pi pj = 0) :
    entryAlgo c hg pi pj x = entry (psi c) c hg pi pj x ∧
    entrySpec c tol hg pi pj x = entry (psiSpec c tol) c hg pi pj x := by
  refine ⟨?_, rfl⟩
  unfold entryAlgo entry entryK
  rw [h8]

/-- over a ground plane the term contains the direct expression plus `k = −1` times the same
expression for the mirror image … -/
theorem C02_image_term (Ψ : PsiFn ℝ) (c : Ctx ℝ) (pi pj : PulseD ℝ) (x : Bool)
    (h0 : pj.s0.gnd = false) (h1 : pj.s1.gnd = false) :
    entry Ψ c true pi pj x = entryK Ψ c 1 false pi pj x + entryK Ψ c (-1) true pi pj x := by
  unfold entry
  simp [h0, h1]

/-- … except for source pulses that sit on the ground plane themselves, and in free space -/
theorem C02_ground_source_excluded (Ψ : PsiFn ℝ) (c : Ctx ℝ) (hg : Bool) (pi pj : PulseD ℝ) (x : Bool)
    (h : hg = false ∨ pj.s0.gnd = true ∨ pj.s1.gnd = true) :
    entry Ψ c hg pi pj x = entryK Ψ c 1 false pi pj x := by
  unfold entry
  rcases h with h | h | h <;> simp [h]

/-- the image pass enters with the factor `k = −1` -/
theorem C02_image_sign (Ψ : PsiFn ℝ) (c : Ctx ℝ) (pi pj : PulseD ℝ) (x : Bool) :
    ∃ z : Cx ℝ, entryK Ψ c (-1) true pi pj x = Cx.scale (-1) z := by
  unfold entryK
  exact ⟨_, rfl⟩

/-- the specification uses nothing but relative positions: it is translation invariant (free space:
any shift; over ground: horizontal shifts) — `C05_translate` for the specification functional -/
theorem C02_relative_only (c : Ctx ℝ) (tol : ℝ) (hg : Bool) (s : V3 ℝ) (pi pj : PulseD ℝ) (x : Bool)
    (h : hg = false ∨ s.z = 0) :
    entrySpec c tol hg (shiftPulse s pi) (shiftPulse s pj) x = entrySpec c tol hg pi pj x :=
  C05_translate (psiSpec c tol) (psiSpec_posFree c tol) c hg s pi pj x h

end Pmn.Props.C02
