/-
C17 — pulse addressing: sources and loads act on exactly the pulse the user named.

`resolveAbs`, `resolveRel`, `resolveAll` transcribe `register_source` / `register_load`;
the geometry table prints pulse `i` (0-based index) with number `i + 1` in the block of its owner,
blocks in processing order, which is increasing tag order (`sortByTag`).
-/
import Pmn.Model.Cmd
import Pmn.Props.C12

namespace Pmn.Props.C17
open Pmn.Topo Pmn.TopoLemmas Pmn.Props.C12

/-- absolute addressing: number `k+1` (0-based `k`) resolves to the pulse with index `k`, i.e. the
one printed with number `k+1`; anything outside `1 … N` is rejected -/
theorem C17_abs (st : State) (k : Nat) (h : k < st.pulses.length) :
    resolveAbs st (k : Int) = .ok k := by
  unfold resolveAbs
  rw [if_neg (by omega), if_neg (by simp; omega)]
  simp

theorem C17_abs_reject (st : State) (k : Int) (h : k < 0 ∨ (st.pulses.length : Int) ≤ k) :
    ∃ e, resolveAbs st k = .error e := by
  unfold resolveAbs
  by_cases h0 : k < 0
  · exact ⟨_, by rw [if_pos h0]⟩
  · rw [if_neg h0]
    have : k.toNat ≥ st.pulses.length := by omega
    exact ⟨_, by rw [if_pos this]⟩

/-- per-object addressing: `(k, t)` resolves to row `k` of the block of the object whose tag is
`t` — the pulse `start + k` of that object, with `k` below the object's pulse count -/
theorem C17_rel (st : State) (otags : List Nat) (k : Nat) (t p : Nat)
    (h : resolveRel st otags (k : Int) t = .ok p) :
    ∃ j ob, otags.idxOf? t = some j ∧ st.objs[j]? = some ob ∧ k < ob.count ∧ p = ob.start + k := by
  unfold resolveRel at h
  rw [if_neg (by omega)] at h
  cases hj : otags.idxOf? t with
  | none => rw [hj] at h; cases h
  | some j =>
    rw [hj] at h
    simp only [Int.toNat_natCast] at h
    cases hp : (pulsesOf st.objs j)[k]? with
    | none => rw [hp] at h; cases h
    | some q =>
      rw [hp] at h
      injection h with h
      subst h
      unfold pulsesOf at hp
      cases ho : st.objs[j]? with
      | none => rw [ho] at hp; simp at hp
      | some ob =>
        rw [ho] at hp
        simp only [List.getElem?_map, Option.map_eq_some_iff] at hp
        obtain ⟨a, ha, rfl⟩ := hp
        have := List.getElem?_eq_some_iff.mp ha
        obtain ⟨hlt, hv⟩ := this
        simp at hlt hv
        exact ⟨j, ob, rfl, ho, hlt, by omega⟩

/-- both addressing forms denote the same pulse whenever they name the same table row: the
per-object form `(k, t)` and the absolute number `start + k` resolve to the same index, so every
quantity computed from it is identical -/
theorem C17_equiv (st : State) (otags : List Nat) (k t p : Nat)
    (h : resolveRel st otags (k : Int) t = .ok p) (hp : p < st.pulses.length) :
    resolveAbs st (p : Int) = .ok p := C17_abs st p hp

theorem flat_index {α β : Type} (l : List α) (f : α → List β) :
    (List.range l.length).flatMap (fun k => match l[k]? with | some a => f a | none => [])
      = l.flatMap f := by
  induction l with
  | nil => simp
  | cons a r ih =>
    rw [List.length_cons, List.range_succ_eq_map, List.flatMap_cons, List.flatMap_map,
      List.flatMap_cons]
    simp only [List.getElem?_cons_zero, Function.comp_def, List.getElem?_cons_succ]
    rw [ih]

theorem pulsesOf_flat (objs : List Obj) :
    (List.range objs.length).flatMap (pulsesOf objs) = blocks objs := by
  unfold blocks
  rw [← flat_index objs (fun ob => (List.range ob.count).map (· + ob.start))]
  have : pulsesOf objs = fun k => match objs[k]? with
      | some a => (List.range a.count).map (· + a.start) | none => [] := by
    funext k; unfold pulsesOf; cases objs[k]? <;> rfl
  rw [this]
  congr 1
  funext k
  cases objs[k]? <;> rfl

/-- attaching a load to *all* pulses of the antenna attaches every pulse `0 … N−1` exactly once -/
theorem C17_all_once (os : List ObjIn) (st : State) (otags : List Nat) (h : build os = .ok st) :
    resolveAll st otags none = .ok (List.range st.pulses.length) := by
  unfold resolveAll
  simp only
  rw [pulsesOf_flat, C12_numbering os st h]

/-- attaching a load to all pulses of one object attaches exactly the pulses of its block, each
once (consecutive numbers `start … start + count − 1`) -/
theorem C17_all_of_object (st : State) (otags : List Nat) (t : Nat) (l : List Nat)
    (h : resolveAll st otags (some t) = .ok l) :
    l.Nodup ∧ ∃ j, otags.idxOf? t = some j ∧ l = pulsesOf st.objs j := by
  unfold resolveAll at h
  simp only at h
  cases hj : otags.idxOf? t with
  | none => rw [hj] at h; cases h
  | some j =>
    rw [hj] at h
    injection h with h
    subst h
    refine ⟨?_, j, rfl, rfl⟩
    unfold pulsesOf
    cases st.objs[j]? with
    | none => simp
    | some ob =>
      simp only
      unfold List.Nodup
      rw [List.pairwise_map]
      exact List.nodup_range.imp (fun h => by omega)

/-- a junction pulse is listed in the block of the later-processed (= later-tagged) of the two
objects it joins: its owner is the creating object `n`, the other object is earlier -/
theorem C17_junction_owner (n : Nat) (o : ObjIn) (n2 other : Nat) (hg : o.g0 = false)
    (hh : o.h0 = some (n2, other)) (hlt : other < n) :
    ∀ p ∈ firstPulses n o, p.owner = n ∧ p.geo0 = other ∧ p.geo1 = n ∧ p.geo0 < p.owner := by
  intro p hp
  rw [C12_joint_first n o n2 other hg hh hlt] at hp
  simp at hp
  subst hp
  exact ⟨rfl, rfl, rfl, hlt⟩

/-! ### tags -/

theorem go_length (ts : List (Option Nat)) (next : Nat) : (assignTags.go ts next).length = ts.length := by
  induction ts generalizing next with
  | nil => simp [assignTags.go]
  | cons t r ih => cases t <;> simp [assignTags.go, ih]

/-- explicit tags are kept -/
theorem go_explicit (ts : List (Option Nat)) (next i t : Nat) (h : ts[i]? = some (some t)) :
    (assignTags.go ts next)[i]? = some t := by
  induction ts generalizing next i with
  | nil => simp at h
  | cons a r ih =>
    cases i with
    | zero => simp at h; subst h; simp [assignTags.go]
    | succ i =>
      simp at h
      cases a <;> simp [assignTags.go, ih _ _ h]

/-- automatic tags are larger than the start value (which is the largest explicit tag) -/
theorem go_auto (ts : List (Option Nat)) (next i : Nat) (h : ts[i]? = some none) :
    ∃ t, (assignTags.go ts next)[i]? = some t ∧ next < t := by
  induction ts generalizing next i with
  | nil => simp at h
  | cons a r ih =>
    cases i with
    | zero => simp at h; subst h; exact ⟨next + 1, by simp [assignTags.go], by omega⟩
    | succ i =>
      simp at h
      cases a with
      | none =>
        obtain ⟨t, ht, hlt⟩ := ih (next + 1) i h
        exact ⟨t, by simp [assignTags.go, ht], by omega⟩
      | some a =>
        obtain ⟨t, ht, hlt⟩ := ih next i h
        exact ⟨t, by simp [assignTags.go, ht], hlt⟩

/-- every object keeps its explicit tag; the result has one tag per object -/
theorem C17_tags_explicit (tags : List (Option Nat)) (res : List Nat) (h : assignTags tags = .ok res)
    (i t : Nat) (hi : tags[i]? = some (some t)) : res[i]? = some t ∧ res.length = tags.length := by
  unfold assignTags at h
  simp only at h
  split at h
  · cases h
  · split at h
    · cases h
    · injection h with h
      subst h
      exact ⟨go_explicit _ _ _ _ hi, go_length _ _⟩

theorem insertByTag_perm (x : Nat × Nat) (l : List (Nat × Nat)) : (insertByTag x l).Perm (x :: l) := by
  induction l with
  | nil => simp [insertByTag]
  | cons d r ih =>
    unfold insertByTag
    split
    · exact List.Perm.refl _
    · exact (List.Perm.cons d ih).trans (List.Perm.swap x d r)

theorem insertByTag_sorted (x : Nat × Nat) (l : List (Nat × Nat))
    (h : l.Pairwise (fun a b => a.1 ≤ b.1)) : (insertByTag x l).Pairwise (fun a b => a.1 ≤ b.1) := by
  induction l with
  | nil => simp [insertByTag]
  | cons d r ih =>
    unfold insertByTag
    rw [List.pairwise_cons] at h
    split
    · rename_i hlt
      rw [List.pairwise_cons]
      refine ⟨?_, List.pairwise_cons.mpr h⟩
      intro y hy
      rcases List.mem_cons.mp hy with rfl | hy
      · omega
      · have := h.1 y hy; omega
    · rename_i hge
      rw [List.pairwise_cons]
      refine ⟨?_, ih h.2⟩
      intro y hy
      have := (insertByTag_perm x r).mem_iff.mp hy
      rcases List.mem_cons.mp this with rfl | hy
      · omega
      · exact h.1 y hy

/-- processing order: a rearrangement of the objects, in non-decreasing (hence, tags being
distinct, increasing) tag order -/
theorem C17_order (tags : List Nat) :
    (sortByTag tags).Perm tags.zipIdx ∧ (sortByTag tags).Pairwise (fun a b => a.1 ≤ b.1) := by
  unfold sortByTag
  suffices H : ∀ (l acc : List (Nat × Nat)), acc.Pairwise (fun a b => a.1 ≤ b.1) →
      (l.foldl (fun acc x => insertByTag x acc) acc).Perm (l ++ acc) ∧
      (l.foldl (fun acc x => insertByTag x acc) acc).Pairwise (fun a b => a.1 ≤ b.1) by
    have := H tags.zipIdx [] List.Pairwise.nil
    simpa using this
  intro l
  induction l with
  | nil => intro acc h; exact ⟨by simp, h⟩
  | cons c r ih =>
    intro acc h
    simp only [List.foldl_cons]
    obtain ⟨hp, hs⟩ := ih (insertByTag c acc) (insertByTag_sorted c acc h)
    refine ⟨hp.trans ?_, hs⟩
    refine (List.Perm.append_left r (insertByTag_perm c acc)).trans ?_
    simpa using (List.perm_middle (a := c) (l₁ := r) (l₂ := acc))

/-! non-vacuity -/
example : (assignTags [some 7, none, some 3, none]).toOption = some [7, 8, 3, 9] := by decide
example : (sortByTag [7, 8, 3, 9]).map (·.2) = [2, 0, 1, 3] := by decide


/-! ### the fields of `--attach-load` / `--excitation-pulse` -/

section Fields
open Pmn.Cmd


/-- what `register_load` is called with for an attachment -/
def attArgs : Att → Option Int × Option Int
  | .pulse k => (some ((k : Int) - 1), none)
  | .rel k t => (some ((k : Int) - 1), some (t : Int))
  | .allObj t => (none, some (t : Int))
  | .all => (none, none)

/-- **the attachments the writer emits are read as written**: load `i` of `n`, pulse `k` (1-based) or all, optional tag -/
theorem C17_attach_parse (n i : Nat) (a : Att) (h1 : 1 ≤ i) (hn : i ≤ n) :
    parseAttach n (showAttach i a) = .ok (i - 1, attArgs a) := by
  have hlt : ¬ ((i : Int) < 1 ∨ (n : Int) < (i : Int)) := by omega
  have hnat : ((i : Int) - 1).toNat = i - 1 := by omega
  cases a <;> simp [showAttach, parseAttach, Fld.int?, attArgs, hnat] <;> omega

/-- **the keyword `all` stands for "every pulse" and nothing else**: as the load number or as the tag it is refused -/
theorem C17_attach_keyword (n : Nat) (p t : Fld) :
    (∃ e, parseAttach n [.all, p] = .error e) ∧ (∃ e, parseAttach n [.all, p, t] = .error e) ∧
    (∀ l, ∃ e, parseAttach n [l, p, .all] = .error e) := by
  refine ⟨⟨_, rfl⟩, ⟨_, rfl⟩, ?_⟩
  intro l
  cases l with
  | int lv =>
    cases p <;> simp [parseAttach, Fld.int?]
  | all => exact ⟨_, rfl⟩
  | junk => exact ⟨_, rfl⟩

/-- the rule of the seeded change C20-f let the keyword through as a load number -/
theorem C17_attach_keyword_defect_witness :
    parseAttachLax [.all, .int 3] = true ∧ ∃ e, parseAttach 1 [.all, .int 3] = .error e := ⟨rfl, _, rfl⟩

theorem C17_excitation_parse (p t : Int) :
    parseExcitation [.int p] = .ok (p - 1, none) ∧ parseExcitation [.int p, .int t] = .ok (p - 1, some t) := ⟨rfl, rfl⟩


end Fields

end Pmn.Props.C17
