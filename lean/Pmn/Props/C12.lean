/-
C12 — number and placement of current unknowns follow from the wire topology.

Theorems about `Pmn.Topo.build` for *every* list of objects (any number, any segment counts,
any hits): pulse count formula, gap-free numbering in object order, ownership.
-/
import Pmn.Proofs.TopoLemmas
import Pmn.Model.Const
import Mathlib.Order.Defs.LinearOrder
import Mathlib.Order.Basic

namespace Pmn.Props.C12
open Pmn.Topo Pmn.TopoLemmas

/-- pulses contributed by one object: `segments − 1`, one per grounded end, one per end that
attaches to an earlier end (each such end raises the size `k` of its junction by one) -/
def contrib (o : ObjIn) : Nat :=
  (o.nseg - 1) + b2n o.g0 + b2n o.g1 + b2n o.h0.isSome + b2n o.h1.isSome

/-- one object creates exactly `contrib` pulses (whenever its hits are valid) -/
theorem C12_step_count (objs : List Obj) (o : ObjIn)
    (h0 : hitOk objs objs.length o 0 = true) (h1 : hitOk objs objs.length o 1 = true) :
    (mkPulses objs.length o).length = contrib o := by
  unfold mkPulses contrib
  simp only [List.length_append, List.length_replicate, firstPulses_length objs o h0,
    lastPulses_length objs _ o h1]
  simp only [ObjIn.ground, ObjIn.hit, if_true, if_neg (by decide : ¬ (1 = 0))]
  omega

/-- the count formula, from any starting state -/
theorem count_from (os : List ObjIn) (st st' : State) (h : os.foldlM step st = .ok st') :
    st'.pulses.length = st.pulses.length + (os.map contrib).sum := by
  induction os generalizing st with
  | nil =>
    simp [List.foldlM] at h
    cases h; simp
  | cons o os ih =>
    rw [foldlM_step_cons] at h
    cases hs : step st o with
    | error e => rw [hs] at h; cases h
    | ok s1 =>
      rw [hs] at h
      have := ih s1 h
      obtain ⟨h0, h1, _, _, hp, _⟩ := step_ok st s1 o hs
      rw [this, hp, List.length_append, C12_step_count _ _ h0 h1]
      simp [List.sum_cons]; omega

/-- **count formula**: the number of pulses equals the sum over all objects of
(segments − 1), plus one per grounded end, plus one per attaching end
(= Σ over junctions of (k − 1), each junction consisting of its registering end and its
k − 1 attaching ends) -/
theorem C12_count (os : List ObjIn) (st : State) (h : build os = .ok st) :
    st.pulses.length = (os.map contrib).sum := by
  have := count_from os {} st h
  simpa using this

/-- the per-object pulse index lists, concatenated in object order -/
def blocks (objs : List Obj) : List Nat :=
  objs.flatMap fun ob => (List.range ob.count).map (· + ob.start)

theorem range_append_shift (a b : Nat) :
    List.range a ++ (List.range b).map (· + a) = List.range (a + b) := by
  rw [List.range_add]
  congr 1
  apply List.map_congr_left
  intro x _; omega

theorem numbering_from (os : List ObjIn) (st st' : State) (h : os.foldlM step st = .ok st')
    (hinv : blocks st.objs = List.range st.pulses.length) :
    blocks st'.objs = List.range st'.pulses.length := by
  induction os generalizing st with
  | nil => simp [List.foldlM] at h; cases h; exact hinv
  | cons o os ih =>
    rw [foldlM_step_cons] at h
    cases hs : step st o with
    | error e => rw [hs] at h; cases h
    | ok s1 =>
      rw [hs] at h
      apply ih s1 h
      obtain ⟨_, _, _, _, hp, ho⟩ := step_ok st s1 o hs
      rw [ho, hp]
      unfold blocks at hinv ⊢
      rw [List.flatMap_append, hinv, List.length_append]
      simp only [List.flatMap_cons, List.flatMap_nil, List.append_nil]
      exact range_append_shift _ _

/-- **numbering**: pulses are numbered `0 … N−1` without gaps and the blocks of the objects,
taken in object order, are consecutive runs that together list every pulse exactly once -/
theorem C12_numbering (os : List ObjIn) (st : State) (h : build os = .ok st) :
    blocks st.objs = List.range st.pulses.length := by
  apply numbering_from os {} st h
  simp [blocks]

/-- every pulse an object creates is listed in that object's block (ownership) -/
theorem C12_owner (n : Nat) (o : ObjIn) : ∀ p ∈ mkPulses n o, p.owner = n := by
  intro p hp
  unfold mkPulses firstPulses lastPulses at hp
  simp only [List.mem_append, List.mem_replicate] at hp
  rcases hp with (hp | hp) | hp
  · split at hp
    · simp at hp; rw [hp]
    · split at hp
      · simp at hp; rw [hp]
      · simp at hp
  · rw [hp.2]
  · split at hp
    · simp at hp; rw [hp]
    · split at hp
      · simp at hp; rw [hp]
      · simp at hp

/-- an end that attaches to end `n2` of object `other` gets a junction pulse whose first half lies
on `other` (first end) resp. whose second half lies on `other` (second end), with direction sign
`−1` exactly when equal end numbers meet -/
theorem C12_joint_first (n : Nat) (o : ObjIn) (n2 other : Nat) (hg : o.g0 = false)
    (hh : o.h0 = some (n2, other)) (hlt : other < n) :
    firstPulses n o = [⟨other, n, sgnOf n2 0, 1, none, n⟩] := by
  unfold firstPulses
  have hg' : o.ground 0 = false := by simpa [ObjIn.ground] using hg
  have hh' : o.hit 0 = some (n2, other) := by simpa [ObjIn.hit] using hh
  simp only [idxAt_hit _ _ _ _ _ hg' hh']
  rw [if_pos ⟨mul_sgn_ne _ _ _, by rw [natAbs_mul_sgn]; omega⟩, natAbs_mul_sgn, isign_mul_sgn]
  simp

theorem C12_joint_last (n : Nat) (o : ObjIn) (n2 other : Nat) (hg : o.g1 = false)
    (hh : o.h1 = some (n2, other)) :
    lastPulses n o = [⟨n, other, 1, sgnOf n2 1, none, n⟩] := by
  unfold lastPulses
  have hg' : o.ground 1 = false := by simpa [ObjIn.ground] using hg
  have hh' : o.hit 1 = some (n2, other) := by simpa [ObjIn.hit] using hh
  simp only [idxAt_hit _ _ _ _ _ hg' hh', hg]
  rw [natAbs_mul_sgn, isign_mul_sgn]
  simp [mul_sgn_ne]

/-- a grounded end gets exactly one pulse, marked with that end -/
theorem C12_ground_first (n : Nat) (o : ObjIn) (hg : o.g0 = true) :
    firstPulses n o = [⟨n, n, 1, 1, some 0, n⟩] := by
  unfold firstPulses
  have hg' : o.ground 0 = true := by simpa [ObjIn.ground] using hg
  simp only [idxAt_ground _ _ _ hg', hg]
  rw [if_neg (by rw [natAbs_neg_succ]; omega)]
  simp

/-- error branch: an object whose two ends attach to the same end of the same object is
rejected (`assert geobj not in self.geo` in the implementation) -/
theorem C12_error_dup (st : State) (o : ObjIn) (r : Nat × Nat) (h0 : o.h0 = some r) (h1 : o.h1 = some r) :
    ∃ e, step st o = .error e := by
  unfold step
  simp only
  split
  · exact ⟨_, rfl⟩
  · split
    · exact ⟨_, rfl⟩
    · split
      · exact ⟨_, rfl⟩
      · rename_i hd
        simp [h0, h1] at hd

/-- **joining rule** (any scalar type with a decidable order): a wire end is joined to an
already known end exactly when one of them coincides with it or lies within the tolerance
`tol` (= `min_seglen · 1e-3`, the factor being the literal of the current source) -/
theorem C12_match_local {K : Type} [Add K] [Sub K] [Mul K] [HasSqrt K] [BEq K] [LE K] [DecidableLE K]
    (reg : List (V3 K × (Nat × Nat))) (p : V3 K) (tol : K) :
    (lookup reg p tol).isSome = true ↔
      ∃ r ∈ reg, veq r.1 p = true ∨ V3.norm (p - r.1) ≤ tol := by
  unfold lookup
  constructor
  · intro h
    split at h
    · rename_i r hr
      exact ⟨r, List.mem_of_find?_eq_some hr, Or.inl (by simpa using List.find?_some hr)⟩
    · split at h
      · rename_i r hr
        have := List.find?_some hr
        exact ⟨r, List.mem_of_find?_eq_some hr, Or.inr (by simpa using this)⟩
      · simp at h
  · rintro ⟨r, hr, h⟩
    split
    · rfl
    · rename_i hnone
      split
      · rfl
      · rename_i hnone2
        rw [List.find?_eq_none] at hnone hnone2
        rcases h with h | h
        · exact absurd h (hnone r hr)
        · exact absurd (by simpa using h) (hnone2 r hr)

/-- the tolerance factor of the current source is 1/1000 -/
theorem C12_tolerance : Pmn.Const.matchTol = ⟨1, 1000⟩ ∧ Pmn.Const.groundTol = ⟨1, 1000⟩ := by decide

/-! ### the shortest segment -/

section MinSeg
variable {K : Type} [LinearOrder K]

theorem foldl_min_le (r : List K) (x : K) :
    r.foldl (fun m y => if y < m then y else m) x ≤ x ∧
    ∀ y ∈ r, r.foldl (fun m y => if y < m then y else m) x ≤ y := by
  induction r generalizing x with
  | nil => simp
  | cons a r ih =>
    simp only [List.foldl_cons, List.mem_cons]
    by_cases h : a < x
    · rw [if_pos h]
      obtain ⟨h1, h2⟩ := ih a
      refine ⟨le_trans h1 (le_of_lt h), ?_⟩
      intro y hy
      rcases hy with rfl | hy
      · exact h1
      · exact h2 y hy
    · rw [if_neg h]
      obtain ⟨h1, h2⟩ := ih x
      refine ⟨h1, ?_⟩
      intro y hy
      rcases hy with rfl | hy
      · exact le_trans h1 (not_lt.mp h)
      · exact h2 y hy

theorem foldl_min_mem (r : List K) (x : K) :
    r.foldl (fun m y => if y < m then y else m) x = x ∨
    r.foldl (fun m y => if y < m then y else m) x ∈ r := by
  induction r generalizing x with
  | nil => simp
  | cons a r ih =>
    simp only [List.foldl_cons, List.mem_cons]
    by_cases h : a < x
    · rw [if_pos h]
      rcases ih a with h1 | h1
      · right; left; exact h1
      · right; right; exact h1
    · rw [if_neg h]
      rcases ih x with h1 | h1
      · left; exact h1
      · right; right; exact h1

/-- `minOf` is a lower bound of the list and one of its elements -/
theorem minOf_spec (d : K) (l : List K) (hl : l ≠ []) :
    minOf d l ∈ l ∧ ∀ y ∈ l, minOf d l ≤ y := by
  cases l with
  | nil => exact absurd rfl hl
  | cons x r =>
    simp only [minOf, List.mem_cons]
    obtain ⟨h1, h2⟩ := foldl_min_le r x
    refine ⟨?_, ?_⟩
    · rcases foldl_min_mem r x with h | h
      · left; exact h
      · right; exact h
    · intro y hy
      rcases hy with rfl | hy
      · exact h1
      · exact h2 y hy

/-- **the joining tolerance refers to the shortest segment of the whole structure**: `minSegLen` is the length of
some segment of some object and no segment of any object is shorter (every object has at least one segment) -/
theorem C12_min_seglen (d : K) (objs : List (List K)) (hne : objs ≠ []) (hseg : ∀ o ∈ objs, o ≠ []) :
    (∃ o ∈ objs, minSegLen d objs ∈ o) ∧ ∀ o ∈ objs, ∀ s ∈ o, minSegLen d objs ≤ s := by
  have hm : objs.map (minOf d) ≠ [] := by simpa using hne
  obtain ⟨hmem, hle⟩ := minOf_spec d (objs.map (minOf d)) hm
  constructor
  · obtain ⟨o, ho, he⟩ := List.mem_map.mp hmem
    refine ⟨o, ho, ?_⟩
    unfold minSegLen
    rw [← he]
    exact (minOf_spec d o (hseg o ho)).1
  · intro o ho s hs
    have h1 : minSegLen d objs ≤ minOf d o := hle _ (List.mem_map_of_mem ho)
    exact le_trans h1 ((minOf_spec d o (hseg o ho)).2 s hs)

end MinSeg

/-- the former rule took the first segment of a tapered wire / a curve: a wire tapered from its second end
(segments 8, 4, 2, 1) next to a wire with segments of length 5 gave 5 as the shortest segment instead of 1 -/
theorem C12_min_seglen_defect_witness :
    minSegLenFirst (0 : Nat) [[8, 4, 2, 1], [5, 5, 5]] = 5 ∧ minSegLen (0 : Nat) [[8, 4, 2, 1], [5, 5, 5]] = 1 := by
  decide

/-! non-vacuity: a three-wire star from one point (wire 2 and 3 attach to end 0 of wire 1), one of
them grounded at its far end: 3·(2−1) + 1 + 2 = 6 pulses -/
example : ((build [⟨2, false, false, none, none⟩, ⟨2, false, true, some (0, 0), none⟩,
    ⟨2, false, false, some (0, 0), none⟩]).toOption.map (·.pulses.length)) = some 6 := by decide

end Pmn.Props.C12
