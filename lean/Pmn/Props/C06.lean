/-
C06 — results do not depend on how the same conductor structure is described.

Two layers.

(1) Linear algebra (`C06_congruence`, `C06_currents`, `C06_half_currents`, `C06_feed_impedance`):
    if a second description of the structure has the matrix `T Z Tᵀ` and the right-hand side `T v`
    for an invertible `T` — a signed permutation for reversed / reordered / split wires, a
    unimodular recombination of the junction pulses of a star — then `Tᵀ I'` solves the first
    system, the currents on all half segments are the same and so is every feed impedance.

(2) Fill model (`Pmn.Fill.entry`, any potential functional Ψ):
    * `C06_dir_sign`   : a half described with the opposite direction vector and the opposite
                         direction sign (a wire joined end 2 to end 2) gives the same entry;
    * `C06_flip_observer` / `C06_flip_source` : describing a pulse from the other side (halves
                         exchanged, directions negated) negates its row / its column — the latter for
                         every Ψ that does not depend on the orientation of the integration path
                         (`FlipSym`);
    * `C06_gauss_flip_partial` : the Gauss rule of the implementation with a node table symmetric
                         about the midpoint is such a functional where it integrates over the whole
                         path with the reduced kernel; the exact-kernel branch (integration over half
                         the path, valid at the segment middle) is not covered — partial.

That the pulse table `Mininec` builds for a re-described structure is related to the original one
by exactly these operations is not a theorem: harness/c06.py computes `T` from the two real pulse
tables and checks `Z' = T Z Tᵀ`, `rhs' = T rhs` on the implementation (tie), and evaluates the
property itself (currents, impedances, near and far fields).
-/
import Pmn.Model.Fill
import Pmn.Proofs.Inst
import Pmn.Proofs.FarLemmas
import Mathlib.LinearAlgebra.Matrix.NonsingularInverse
import Mathlib.LinearAlgebra.Matrix.ToLin
import Mathlib.Data.Complex.Basic
import Mathlib.Tactic.Ring
import Mathlib.Tactic.LinearCombination

namespace Pmn.Props.C06
open Pmn.Fill

/-! ### (1) congruent systems -/

section Linear
variable {n m : Type} [Fintype n] [DecidableEq n] [Fintype m]

/-- **congruence**: `Z' = T Z Tᵀ`, `v' = T v`, `Z' I' = v'`, `T` invertible ⇒ `Z (Tᵀ I') = v` -/
theorem C06_congruence (Z Z' T : Matrix n n ℂ) (v v' I' : n → ℂ) (hT : IsUnit T.det)
    (hZ : Z' = T * Z * T.transpose) (hv : v' = T.mulVec v) (hs : Z'.mulVec I' = v') :
    Z.mulVec (T.transpose.mulVec I') = v := by
  have hinj := Matrix.mulVec_injective_iff_isUnit.mpr ((Matrix.isUnit_iff_isUnit_det _).mpr hT)
  apply hinj
  rw [← hv, ← hs, hZ, Matrix.mulVec_mulVec, Matrix.mulVec_mulVec, Matrix.mul_assoc]

/-- the currents of the first description are `Tᵀ` applied to those of the second -/
theorem C06_currents (Z Z' T : Matrix n n ℂ) (v v' I I' : n → ℂ) (hT : IsUnit T.det) (hZd : IsUnit Z.det)
    (hZ : Z' = T * Z * T.transpose) (hv : v' = T.mulVec v) (h : Z.mulVec I = v) (hs : Z'.mulVec I' = v') :
    I = T.transpose.mulVec I' := by
  have hinj := Matrix.mulVec_injective_iff_isUnit.mpr ((Matrix.isUnit_iff_isUnit_det _).mpr hZd)
  exact hinj (h.trans (C06_congruence Z Z' T v v' I' hT hZ hv hs).symm)

/-- with `B`, `B'` the half-segment incidence tables of the two descriptions (`B' = B Tᵀ`, which is
how `T` is obtained), the current on every half segment is the same in both descriptions -/
theorem C06_half_currents (B B' : Matrix m n ℂ) (T : Matrix n n ℂ) (I I' : n → ℂ)
    (hB : B' = B * T.transpose) (hI : I = T.transpose.mulVec I') : B.mulVec I = B'.mulVec I' := by
  rw [hB, hI, Matrix.mulVec_mulVec]

/-- where `T` maps pulse `s` to pulse `s'` with sign `d = ±1` (row `s'` and column `s` of `T` have
the single entry `d`), voltage and current of that pulse both pick up `d`: the feed impedance `V/I`
of a source there is the same in both descriptions -/
theorem C06_feed_impedance (T : Matrix n n ℂ) (v I' : n → ℂ) (s s' : n) (d : ℂ) (hd : d * d = 1)
    (hrow : ∀ j, T s' j = if j = s then d else 0) (hcol : ∀ i, T i s = if i = s' then d else 0) :
    (T.mulVec v) s' / I' s' = v s / (T.transpose.mulVec I') s := by
  have h1 : (T.mulVec v) s' = d * v s := by
    simp only [Matrix.mulVec, dotProduct, hrow]
    simp [Finset.sum_ite_eq']
  have h2 : (T.transpose.mulVec I') s = d * I' s' := by
    simp only [Matrix.mulVec, dotProduct, Matrix.transpose_apply, hcol]
    simp [Finset.sum_ite_eq']
  rw [h1, h2]
  have hd0 : d ≠ 0 := by
    intro h0; rw [h0] at hd; simp at hd
  by_cases hI : I' s' = 0
  · simp [hI]
  · rw [div_eq_div_iff hI (mul_ne_zero hd0 hI)]
    linear_combination (v s * I' s') * hd

/-- non-vacuity: reversing a two-pulse wire (`T` = exchange with sign −1) -/
example : IsUnit (!![0, -1; -1, 0] : Matrix (Fin 2) (Fin 2) ℂ).det := by
  simp [Matrix.det_fin_two]

end Linear

/-! ### (2) the fill model -/

def negV (a : V3 ℝ) : V3 ℝ := ⟨-a.x, -a.y, -a.z⟩

theorem cx_neg_def (a : Cx ℝ) : -a = ⟨-a.re, -a.im⟩ := rfl

/-- the same half with direction vector and direction sign both negated -/
def negHalf (s : Side ℝ) : Side ℝ := { s with dir := negV s.dir, sign := -s.sign, dsgn := -s.dsgn }

/-- a functional that looks at the source pulse through lengths, radii and wire constants only -/
@[reducible] def DirFree (Ψ : PsiFn ℝ) : Prop :=
  ∀ u v kneg sc pos (pj pj' : PulseD ℝ) x f,
    (side pj' pos).len = (side pj pos).len → (side pj' pos).r = (side pj pos).r →
    (side pj' pos).i6 = (side pj pos).i6 → Ψ u v kneg sc pos pj' x f = Ψ u v kneg sc pos pj x f

theorem psi_dirFree (c : Ctx ℝ) : DirFree (psi c) := by
  intro u v kneg sc pos pj pj' x f h1 h2 h3
  unfold psi
  simp only [h1, h2, h3]

/-- **a half described in the opposite sense gives the same entries**: replacing `(dir, dir_sgn,
sign)` of a half of the observer and/or of the source pulse by their negatives changes nothing —
only the products `sign·dir` and `dir_sgn·len·dir` enter -/
theorem C06_dir_sign (Ψ : PsiFn ℝ) (hΨ : DirFree Ψ) (c : Ctx ℝ) (k : ℝ) (kneg : Bool) (pi pj : PulseD ℝ)
    (xct : Bool) (f8 : Nat) (a0 a1 b0 b1 : Bool) :
    entryK8 Ψ c k kneg
        { pi with s0 := if a0 then negHalf pi.s0 else pi.s0, s1 := if a1 then negHalf pi.s1 else pi.s1 }
        { pj with s0 := if b0 then negHalf pj.s0 else pj.s0, s1 := if b1 then negHalf pj.s1 else pj.s1 } xct f8
      = entryK8 Ψ c k kneg pi pj xct f8 := by
  set pi' : PulseD ℝ := { pi with s0 := if a0 then negHalf pi.s0 else pi.s0, s1 := if a1 then negHalf pi.s1 else pi.s1 } with hpi
  set pj' : PulseD ℝ := { pj with s0 := if b0 then negHalf pj.s0 else pj.s0, s1 := if b1 then negHalf pj.s1 else pj.s1 } with hpj
  have side_j : ∀ pos, (side pj' pos).len = (side pj pos).len ∧ (side pj' pos).r = (side pj pos).r ∧
      (side pj' pos).i6 = (side pj pos).i6 ∧ (side pj' pos).fend = (side pj pos).fend := by
    intro pos
    cases pos <;> cases b0 <;> cases b1 <;> simp [side, hpj, negHalf]
  have side_i : ∀ pos, (side pi' pos).fend = (side pi pos).fend := by
    intro pos
    cases pos <;> cases a0 <;> cases a1 <;> simp [side, hpi, negHalf]
  have es_i : ∀ pos a, endseg pi' pos a = endseg pi pos a := by
    intro pos a; unfold endseg; rw [side_i]
  have es_j : ∀ pos a, endseg pj' pos a = endseg pj pos a := by
    intro pos a; unfold endseg; rw [(side_j pos).2.2.2]
  have dv_j : ∀ pos a, dvecs pj' pos a = dvecs pj pos a := by
    intro pos a; unfold dvecs; simp only [es_j]; rfl
  have hv : ∀ pos, vecpot Ψ c k kneg pi' pj' pos xct = vecpot Ψ c k kneg pi pj pos xct := by
    intro pos
    unfold vecpot
    obtain ⟨h1, h2, h3, _⟩ := side_j pos
    simp only [dv_j, h1, h2, hΨ _ _ _ _ pos pj pj' _ _ h1 h2 h3]
    rfl
  have hs : ∀ p1 p2 sm, scapot Ψ c k kneg pi' pj' p1 p2 sm xct = scapot Ψ c k kneg pi pj p1 p2 sm xct := by
    intro p1 p2 sm
    unfold scapot
    obtain ⟨h1, h2, h3, _⟩ := side_j p2
    simp only [dv_j, es_i, h1, h2, hΨ _ _ _ _ p2 pj pj' _ _ h1 h2 h3]
    rfl
  unfold entryK8
  simp only [hv, hs]
  -- what is left are the products sign·dir (source) and dsgn·len·dir (observer)
  have e1 : pj'.s1 = if b1 then negHalf pj.s1 else pj.s1 := rfl
  have e0 : pj'.s0 = if b0 then negHalf pj.s0 else pj.s0 := rfl
  have i1 : pi'.s1 = if a1 then negHalf pi.s1 else pi.s1 := rfl
  have i0 : pi'.s0 = if a0 then negHalf pi.s0 else pi.s0 := rfl
  have ix : pi'.idx = pi.idx := rfl
  have jx : pj'.idx = pj.idx := rfl
  simp only [e1, e0, i1, i0, ix, jx]
  cases a0 <;> cases a1 <;> cases b0 <;> cases b1 <;>
    simp only [if_true, if_false, Bool.false_eq_true, negHalf, negV, vadd, vsmul, V3.dot]
  all_goals (split_ifs <;> cx_unfold <;> simp only [Cx.mk.injEq] <;> constructor <;> ring)

/-- the pulse described from the other side: halves exchanged, both direction vectors negated; its
number in the second description is `idx'` -/
def flipPulse (p : PulseD ℝ) (idx' : Nat) : PulseD ℝ :=
  { p with idx := idx', s0 := { p.s1 with dir := negV p.s1.dir }, s1 := { p.s0 with dir := negV p.s0.dir } }

theorem side_flip (p : PulseD ℝ) (i' : Nat) (pos : Bool) :
    side (flipPulse p i') pos = { side p (!pos) with dir := negV (side p (!pos)).dir } := by
  cases pos <;> rfl

theorem endseg_flip (p : PulseD ℝ) (i' : Nat) (pos : Bool) (a : ℝ) :
    endseg (flipPulse p i') pos a = endseg p (!pos) a := by
  unfold endseg
  rw [side_flip]
  rfl

theorem dvecs_flip (p : PulseD ℝ) (i' : Nat) (pos : Bool) (a : ℝ) :
    dvecs (flipPulse p i') pos a = ((dvecs p (!pos) a).2, (dvecs p (!pos) a).1) := by
  unfold dvecs
  cases pos <;> simp only [endseg_flip, Bool.false_eq_true, if_false, if_true, Bool.not_false, Bool.not_true] <;> rfl

/-- **describing the observer pulse from the other side negates its row** (any Ψ).  `hidx`, `hsame`:
the renumbering keeps "same pulse" and "observation point = middle of the source segment". -/
theorem C06_flip_observer (Ψ : PsiFn ℝ) (c : Ctx ℝ) (k : ℝ) (kneg : Bool) (pi pj : PulseD ℝ) (xct : Bool)
    (i' : Nat) (hidx : (i' ≠ pj.idx) ↔ (pi.idx ≠ pj.idx))
    (hsame : ∀ p1 p2, sameMid i' pj.idx p1 p2 = sameMid pi.idx pj.idx (!p1) p2) :
    entryK Ψ c k kneg (flipPulse pi i') pj xct = -entryK Ψ c k kneg pi pj xct := by
  have hv : ∀ pos, vecpot Ψ c k kneg (flipPulse pi i') pj pos xct = vecpot Ψ c k kneg pi pj pos xct := by
    intro pos
    unfold vecpot
    have e1 : (flipPulse pi i').idx = i' := rfl
    have e3 : (flipPulse pi i').pt = pi.pt := rfl
    simp only [e1, e3, hidx]
  have hs : ∀ p1 p2, scapot Ψ c k kneg (flipPulse pi i') pj p1 p2 (sameMid i' pj.idx p1 p2) xct
      = scapot Ψ c k kneg pi pj (!p1) p2 (sameMid pi.idx pj.idx (!p1) p2) xct := by
    intro p1 p2
    unfold scapot
    have e1 : (flipPulse pi i').owner = pi.owner := rfl
    simp only [e1, endseg_flip, hsame]
  unfold entryK entryK8
  have e1 : (flipPulse pi i').idx = i' := rfl
  simp only [hv, e1, hs, Bool.not_true, Bool.not_false]
  simp only [flipPulse, negV, vadd, vsmul, V3.dot, Nat.lt_irrefl, Nat.zero_lt_succ, if_true, if_false,
    (by decide : (0 : Nat) < 2), (by decide : ¬ ((0 : Nat) = 1))]
  cx_unfold
  simp only [cx_neg_def, Cx.mk.injEq]
  constructor <;> ring

/-- a functional that does not depend on the sense in which the path is described -/
@[reducible] def FlipSymAt (Ψ : PsiFn ℝ) (x : Bool) : Prop :=
  ∀ u v kneg sc pos (pj : PulseD ℝ) (j' : Nat) f,
    Ψ v u kneg sc pos (flipPulse pj j') x f = Ψ u v kneg sc (!pos) pj x f

@[reducible] def FlipSym (Ψ : PsiFn ℝ) : Prop := ∀ x, FlipSymAt Ψ x

/-- **describing the source pulse from the other side negates its column**, for every
orientation-independent Ψ -/
theorem C06_flip_source (Ψ : PsiFn ℝ) (c : Ctx ℝ) (k : ℝ) (kneg : Bool) (pi pj : PulseD ℝ)
    (xct : Bool) (hΨ : FlipSymAt Ψ xct) (j' : Nat) (hidx : (pi.idx ≠ j') ↔ (pi.idx ≠ pj.idx))
    (hsame : ∀ p1 p2, sameMid pi.idx j' p1 p2 = sameMid pi.idx pj.idx p1 (!p2)) :
    entryK Ψ c k kneg pi (flipPulse pj j') xct = -entryK Ψ c k kneg pi pj xct := by
  have hv : ∀ pos, vecpot Ψ c k kneg pi (flipPulse pj j') pos xct = vecpot Ψ c k kneg pi pj (!pos) xct := by
    intro pos
    unfold vecpot
    have e1 : (flipPulse pj j').idx = j' := rfl
    simp only [e1, hidx, side_flip, dvecs_flip, hΨ]
  have hs : ∀ p1 p2, scapot Ψ c k kneg pi (flipPulse pj j') p1 p2 (sameMid pi.idx j' p1 p2) xct
      = scapot Ψ c k kneg pi pj p1 (!p2) (sameMid pi.idx pj.idx p1 (!p2)) xct := by
    intro p1 p2
    unfold scapot
    have e1 : (flipPulse pj j').owner = pj.owner := rfl
    simp only [e1, side_flip, dvecs_flip, hΨ, hsame]
  unfold entryK entryK8
  have e1 : (flipPulse pj j').idx = j' := rfl
  simp only [hv, e1, hs, Bool.not_true, Bool.not_false]
  simp only [flipPulse, negV, vadd, vsmul, V3.dot, Nat.lt_irrefl, Nat.zero_lt_succ, if_true, if_false,
    (by decide : (0 : Nat) < 2), (by decide : ¬ ((0 : Nat) = 1))]
  cx_unfold
  simp only [cx_neg_def, Cx.mk.injEq]
  constructor <;> ring

/-- … and therefore of the whole entry, image pass included (a flipped pulse is grounded iff the
pulse is) -/
theorem C06_flip_entry (Ψ : PsiFn ℝ) (c : Ctx ℝ) (g : Bool) (pi pj : PulseD ℝ) (xct : Bool)
    (hΨ : FlipSymAt Ψ xct) (j' : Nat) (hidx : (pi.idx ≠ j') ↔ (pi.idx ≠ pj.idx))
    (hsame : ∀ p1 p2, sameMid pi.idx j' p1 p2 = sameMid pi.idx pj.idx p1 (!p2)) :
    entry Ψ c g pi (flipPulse pj j') xct = -entry Ψ c g pi pj xct := by
  unfold entry
  have e0 : (flipPulse pj j').s0.gnd = pj.s1.gnd := rfl
  have e1 : (flipPulse pj j').s1.gnd = pj.s0.gnd := rfl
  simp only [e0, e1, C06_flip_source Ψ c _ _ pi pj xct hΨ j' hidx hsame, Bool.or_comm pj.s1.gnd]
  split
  · cx_unfold
    simp only [cx_neg_def, Cx.mk.injEq]
    constructor <;> ring
  · rfl

/-! ### the Gauss rule of the implementation is orientation independent (reduced kernel) -/

/-- the node table is symmetric about the midpoint: negating the nodes permutes the table -/
def TableSym (c : Ctx ℝ) : Prop :=
  ∀ n, ((c.lg n).map fun xw => (-xw.1, xw.2)).Perm (c.lg n)

theorem integrand_swap (c : Ctx ℝ) (t : ℝ) (u v : V3 ℝ) (kneg : Bool) (r : ℝ) (e : Bool) :
    integrand c t v u kneg r e = integrand c (1 - t) u v kneg r e := by
  unfold integrand
  have h : ∀ a b : V3 ℝ, vadd b (vsmul t (vsub a b)) = vadd a (vsmul (1 - t) (vsub b a)) := by
    intro a b
    simp only [vadd, vsmul, vsub, V3.mk.injEq]
    refine ⟨?_, ?_, ?_⟩ <;> ring
  cases kneg <;> simp only [Bool.false_eq_true, if_false, if_true, h]

theorem gauss_sum_swap (c : Ctx ℝ) (hsym : TableSym c) (n : Nat) (u v : V3 ℝ) (kneg : Bool) (r : ℝ) :
    (c.lg n).foldl (fun acc xw =>
        let w := integrand c ((xw.1 + ((1 : Nat) : ℝ) / ((2 : Nat) : ℝ)) * ((1 : Nat) : ℝ)) v u kneg r false
        (⟨acc.re + xw.2 * w.re, acc.im + xw.2 * w.im⟩ : Cx ℝ)) Far.cxZero
      = (c.lg n).foldl (fun acc xw =>
        let w := integrand c ((xw.1 + ((1 : Nat) : ℝ) / ((2 : Nat) : ℝ)) * ((1 : Nat) : ℝ)) u v kneg r false
        (⟨acc.re + xw.2 * w.re, acc.im + xw.2 * w.im⟩ : Cx ℝ)) Far.cxZero := by
  have hp := hsym n
  rw [← hp.foldl_eq' (by
    intro x _ y _ z
    simp only [Cx.mk.injEq]
    constructor <;> ring)]
  rw [List.foldl_map]
  refine congrArg (fun g => List.foldl g Far.cxZero (c.lg n)) ?_
  funext acc xw
  simp only [integrand_swap c _ u v]
  have e : (1 : ℝ) - ((-xw.1 + ((1 : Nat) : ℝ) / ((2 : Nat) : ℝ)) * ((1 : Nat) : ℝ))
      = (xw.1 + ((1 : Nat) : ℝ) / ((2 : Nat) : ℝ)) * ((1 : Nat) : ℝ) := by push_cast; ring
  simp only [e]

/-- **partial**: with a symmetric node table the implemented potential integral does not depend on
the sense of the path wherever it uses the reduced kernel over the whole path (`exact = false`:
pulses on objects that are not connected).  Not covered: the exact-kernel branch, which integrates
over half the path. -/
theorem C06_gauss_flip_partial (c : Ctx ℝ) (hsym : TableSym c) : FlipSymAt (psi c) false := by
  intro u v kneg sc pos pj j' f
  unfold psi
  rw [side_flip]
  simp only [Bool.false_and, Bool.false_eq_true, if_false, add_comm (V3.norm v) (V3.norm u)]
  rw [gauss_sum_swap c hsym]

/-- hence, for pulses on unconnected objects, the column of the implemented fill (reduced kernel,
every integral on its own) changes sign when the source pulse is described from the other side -/
theorem C06_flip_source_gauss (c : Ctx ℝ) (hsym : TableSym c) (k : ℝ) (kneg : Bool) (pi pj : PulseD ℝ)
    (j' : Nat) (hidx : (pi.idx ≠ j') ↔ (pi.idx ≠ pj.idx))
    (hsame : ∀ p1 p2, sameMid pi.idx j' p1 p2 = sameMid pi.idx pj.idx p1 (!p2)) :
    entryK (psi c) c k kneg pi (flipPulse pj j') false = -entryK (psi c) c k kneg pi pj false :=
  C06_flip_source (psi c) c k kneg pi pj false (C06_gauss_flip_partial c hsym) j' hidx hsame

/-- non-vacuity of the renumbering hypotheses: on a wire with `N` segments described backwards
pulse `i` becomes `N − 2 − i` (0-based, `N − 1` pulses) and "observation point is the middle of the
source segment" is preserved -/
example : ∀ p1 p2, sameMid (7 - 2 - 1) (7 - 2 - 2) p1 p2 = sameMid 1 2 (!p1) (!p2) := by decide

end Pmn.Props.C06
