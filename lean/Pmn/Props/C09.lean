/-
C09 — Kirchhoff's current law and end conditions in the current report.

`endLine objs k e` is what the current table prints for end `e` of object `k` (nothing for a
grounded end, `E` for a free end, `J` with a signed list of pulse numbers for a junction end);
`codeTerms` is the combination the *current* code evaluates (at a first end only the last term).
Currents are arbitrary (`I : Nat → R`, any commutative ring — ℂ in the application).
-/
import Pmn.Proofs.TopoLemmas
import Mathlib.Algebra.BigOperators.Group.List.Basic
import Mathlib.Algebra.Ring.Basic
import Mathlib.Tactic.Ring
import Mathlib.Data.List.Perm.Basic
import Mathlib.Algebra.BigOperators.Group.List.Lemmas
import Mathlib.Algebra.BigOperators.Ring.List

namespace Pmn.Props.C09
open Pmn.Topo Pmn.TopoLemmas

variable {R : Type} [CommRing R]

/-- current of an (optional) pulse number -/
def cur (I : Nat → R) : Option Nat → R
  | some i => I i
  | none => 0

/-- value of a signed combination of pulse currents -/
def termsVal (I : Nat → R) (t : List (Option Nat × Int)) : R :=
  (t.map fun x => (x.2 : R) * cur I x.1).sum

/-- orientation of a wire end with respect to its junction: the reference direction of every
pulse is from the first to the second end, so a positive current leaves the junction at a first
end and enters it at a second end -/
def out (e : Nat) : R := if e = 0 then 1 else -1

theorem out_sgn (eA eB : Nat) (hA : eA < 2) (hB : eB < 2) :
    (out eA : R) * ((sgnOf eA eB : Int) : R) + out eB = 0 := by
  have : eA = 0 ∨ eA = 1 := by omega
  have : eB = 0 ∨ eB = 1 := by omega
  rcases ‹eA = 0 ∨ eA = 1› with rfl | rfl <;> rcases ‹eB = 0 ∨ eB = 1› with rfl | rfl <;>
    simp [out, sgnOf]

/-- insertion keeps the elements -/
theorem insertConn_perm (c : Conn) (l : List Conn) : (insertConn c l).Perm (c :: l) := by
  induction l with
  | nil => simp [insertConn]
  | cons d r ih =>
    unfold insertConn
    split
    · exact List.Perm.refl _
    · exact (List.Perm.cons d ih).trans (List.Perm.swap c d r)

theorem sortConn_perm (l : List Conn) : (sortConn l).Perm l := by
  unfold sortConn
  suffices h : ∀ acc, (l.foldl (fun acc c => insertConn c acc) acc).Perm (l ++ acc) by
    simpa using h []
  induction l with
  | nil => intro acc; simp
  | cons c r ih =>
    intro acc
    simp only [List.foldl_cons]
    refine (ih _).trans ?_
    refine (List.Perm.append_left r (insertConn_perm c acc)).trans ?_
    simpa using (List.perm_middle (a := c) (l₁ := r) (l₂ := acc))

/-- the value of a junction line does not depend on the order of its terms -/
theorem termsVal_pulseIter (I : Nat → R) (objs : List Obj) (k e : Nat) :
    termsVal I (pulseIter objs k e)
      = ((connList objs k e).map fun c => (c.sign : R) * cur I (endSegOf objs c.ow c.endIdx)).sum := by
  unfold termsVal pulseIter
  rw [List.map_map]
  exact ((sortConn_perm _).map _).sum_eq

/-- the structure of a junction as the implementation records it: every entry of the list of the
registering end `(A, eA)` stands for one attaching end `(c.ow, c.endIdx)`, carries the sign `−1`
exactly for equal end numbers, and that attaching end's own list consists of its junction pulse
with sign `+1` -/
def NodeOK (objs : List Obj) (A eA : Nat) : Prop :=
  eA < 2 ∧ ∀ c ∈ connList objs A eA,
    c.endIdx < 2 ∧ c.sign = sgnOf eA c.endIdx ∧
    pulseIter objs c.ow c.endIdx = [(endSegOf objs c.ow c.endIdx, 1)]

/-- **Kirchhoff** (full sums): at a junction whose structure is `NodeOK`, the junction-line values
of all ends, each counted with its orientation, add up to zero — for every current vector. -/
theorem C09_kcl_node (I : Nat → R) (objs : List Obj) (A eA : Nat) (h : NodeOK objs A eA) :
    out eA * termsVal I (pulseIter objs A eA)
      + ((connList objs A eA).map fun c =>
          out c.endIdx * termsVal I (pulseIter objs c.ow c.endIdx)).sum = 0 := by
  obtain ⟨hA, hc⟩ := h
  rw [termsVal_pulseIter, ← List.sum_map_mul_left, ← List.sum_map_add]
  apply List.sum_eq_zero
  intro x hx
  rw [List.mem_map] at hx
  obtain ⟨c, hcm, rfl⟩ := hx
  obtain ⟨hB, hs, hp⟩ := hc c hcm
  simp only [Function.comp, hp, termsVal, List.map_cons, List.map_nil, List.sum_cons, List.sum_nil,
    hs]
  have := out_sgn (R := R) eA c.endIdx hA hB
  have h2 : (out eA : R) * (((sgnOf eA c.endIdx : Int) : R) * cur I (endSegOf objs c.ow c.endIdx))
      + out c.endIdx * (((1 : Int) : R) * cur I (endSegOf objs c.ow c.endIdx) + 0)
      = ((out eA : R) * ((sgnOf eA c.endIdx : Int) : R) + out c.endIdx)
          * cur I (endSegOf objs c.ow c.endIdx) := by
    push_cast; ring
  rw [h2, this, zero_mul]

/-- what the current code prints obeys Kirchhoff at every junction whose registering end is a
second end, or which has at most one attaching end (there `codeTerms` keeps all terms) -/
theorem C09_kcl_partial (I : Nat → R) (objs : List Obj) (A eA : Nat) (h : NodeOK objs A eA)
    (hcase : eA = 1 ∨ (connList objs A eA).length ≤ 1) :
    out eA * termsVal I (codeTerms eA (pulseIter objs A eA))
      + ((connList objs A eA).map fun c =>
          out c.endIdx * termsVal I (codeTerms c.endIdx (pulseIter objs c.ow c.endIdx))).sum = 0 := by
  have hsingle : ∀ c ∈ connList objs A eA,
      codeTerms c.endIdx (pulseIter objs c.ow c.endIdx) = pulseIter objs c.ow c.endIdx := by
    intro c hc
    rw [(h.2 c hc).2.2]
    unfold codeTerms; split <;> simp
  have hA : codeTerms eA (pulseIter objs A eA) = pulseIter objs A eA := by
    rcases hcase with h1 | h1
    · subst h1; simp [codeTerms]
    · unfold codeTerms
      split
      · have hl : (pulseIter objs A eA).length ≤ 1 := by
          unfold pulseIter
          rw [List.length_map, (sortConn_perm _).length_eq]; exact h1
        match hp : pulseIter objs A eA with
        | [] => simp
        | [x] => simp
        | x :: y :: r => rw [hp] at hl; simp at hl
      · rfl
  rw [hA]
  have : ((connList objs A eA).map fun c =>
      out c.endIdx * termsVal I (codeTerms c.endIdx (pulseIter objs c.ow c.endIdx)))
      = ((connList objs A eA).map fun c =>
      out c.endIdx * termsVal I (pulseIter objs c.ow c.endIdx)) := by
    apply List.map_congr_left
    intro c hc; rw [hsingle c hc]
  rw [this]
  exact C09_kcl_node I objs A eA h

/-- a free end (not grounded, nothing attached) is reported as `E`, i.e. with zero current -/
theorem C09_free_end (objs : List Obj) (k e : Nat) (ob : Obj) (hk : objs[k]? = some ob)
    (hg : ob.inp.ground e = false) (hc : connList objs k e = []) : endLine objs k e = .E := by
  unfold endLine
  rw [hk]
  simp [hg, pulseIter, hc, sortConn]

/-! ### the structure `NodeOK` holds at every junction of every antenna -/

/-- every attaching end points at an end that registered (first at its point) -/
@[reducible] def HitsOK (objs : List Obj) : Prop :=
  ∀ (b : Nat) (ob : Obj) (eb n2 other : Nat), objs[b]? = some ob → eb < 2 →
    ob.inp.hit eb = some (n2, other) → isRegistrant objs other n2 = true

theorem isRegistrant_append (objs : List Obj) (x : Obj) (k e : Nat)
    (h : isRegistrant objs k e = true) : isRegistrant (objs ++ [x]) k e = true := by
  have hk := isRegistrant_lt _ _ _ h
  unfold isRegistrant at h ⊢
  rw [List.getElem?_append_left hk]; exact h

theorem hitsOK_step (st st' : State) (o : ObjIn) (hs : step st o = .ok st') (h : HitsOK st.objs) :
    HitsOK st'.objs := by
  obtain ⟨h0, h1, _, _, _, ho⟩ := step_ok st st' o hs
  rw [ho]
  intro b ob eb n2 other hb heb hh
  rcases Nat.lt_or_ge b st.objs.length with hlt | hge
  · rw [List.getElem?_append_left hlt] at hb
    exact isRegistrant_append _ _ _ _ (h b ob eb n2 other hb heb hh)
  · have hb' : b = st.objs.length := by
      have := (List.getElem?_eq_some_iff.mp hb).1
      simp at this; omega
    subst hb'
    simp at hb
    subst hb
    simp only at hh
    have hok : hitOk st.objs st.objs.length o eb = true := by
      have : eb = 0 ∨ eb = 1 := by omega
      rcases this with rfl | rfl
      · exact h0
      · exact h1
    unfold hitOk at hok
    rw [hh] at hok
    simp only [Bool.and_eq_true, Bool.or_eq_true, Bool.not_eq_true', beq_iff_eq] at hok
    rcases hok.2 with h | h
    · exact isRegistrant_append _ _ _ _ h
    · obtain ⟨⟨⟨⟨_, ho'⟩, hn2⟩, hg0⟩, hh0⟩ := h
      subst ho' hn2
      unfold isRegistrant
      simp [ObjIn.ground, ObjIn.hit, hg0, hh0]

theorem hitsOK_build (os : List ObjIn) (st : State) (h : build os = .ok st) : HitsOK st.objs := by
  suffices H : ∀ (os : List ObjIn) (s s' : State), os.foldlM step s = .ok s' → HitsOK s.objs → HitsOK s'.objs by
    apply H os {} st h
    intro b ob eb n2 other hb; simp at hb
  intro os
  induction os with
  | nil => intro s s' h hi; simp [List.foldlM] at h; cases h; exact hi
  | cons o os ih =>
    intro s s' h hi
    rw [foldlM_step_cons] at h
    cases hs : step s o with
    | error e => rw [hs] at h; cases h
    | ok s1 => rw [hs] at h; exact ih s1 s' h (hitsOK_step s s1 o hs hi)

theorem mem_connFrom (k e b : Nat) (ob : ObjIn) (c : Conn) :
    c ∈ connFrom k e b ob ↔ ∃ eb, eb < 2 ∧ ∃ n2 other, ob.hit eb = some (n2, other) ∧
      ((other = k ∧ n2 = e ∧ c = ⟨b, b, eb, sgnOf n2 eb⟩) ∨ (b = k ∧ eb = e ∧ c = ⟨other, b, eb, 1⟩)) := by
  unfold connFrom
  simp only [List.mem_flatMap, List.mem_cons, List.mem_nil_iff, or_false]
  constructor
  · rintro ⟨eb, heb, hc⟩
    refine ⟨eb, by omega, ?_⟩
    cases hh : ob.hit eb with
    | none => rw [hh] at hc; simp at hc
    | some v =>
      obtain ⟨n2, other⟩ := v
      rw [hh] at hc
      refine ⟨n2, other, rfl, ?_⟩
      simp only [List.mem_append] at hc
      rcases hc with hc | hc
      · split at hc
        · rename_i h; simp at hc; exact Or.inl ⟨h.1, h.2, hc⟩
        · simp at hc
      · split at hc
        · rename_i h; simp at hc; exact Or.inr ⟨h.1, h.2, hc⟩
        · simp at hc
  · rintro ⟨eb, heb, n2, other, hh, hc⟩
    refine ⟨eb, by omega, ?_⟩
    rw [hh]
    simp only [List.mem_append]
    rcases hc with ⟨h1, h2, h3⟩ | ⟨h1, h2, h3⟩
    · left; rw [if_pos ⟨h1, h2⟩]; simp [h3]
    · right; rw [if_pos ⟨h1, h2⟩]; simp [h3]

theorem mem_connList (objs : List Obj) (k e : Nat) (c : Conn) :
    c ∈ connList objs k e ↔ ∃ b ob, objs[b]? = some ob ∧ c ∈ connFrom k e b ob.inp := by
  unfold connList
  simp only [List.mem_flatMap, List.mem_range]
  constructor
  · rintro ⟨b, hb, hc⟩
    cases ho : objs[b]? with
    | none => rw [ho] at hc; simp at hc
    | some ob => rw [ho] at hc; exact ⟨b, ob, ho, hc⟩
  · rintro ⟨b, ob, ho, hc⟩
    refine ⟨b, (List.getElem?_eq_some_iff.mp ho).1, ?_⟩
    rw [ho]; exact hc

theorem flatMap_single {α : Type} (l : List Nat) (g : Nat → List α) (b : Nat) (x : α)
    (hnd : l.Nodup) (hb : b ∈ l) (h1 : g b = [x]) (h2 : ∀ b' ∈ l, b' ≠ b → g b' = []) :
    l.flatMap g = [x] := by
  induction l with
  | nil => simp at hb
  | cons a r ih =>
    rw [List.nodup_cons] at hnd
    simp only [List.flatMap_cons]
    by_cases ha : a = b
    · subst ha
      rw [h1]
      have : r.flatMap g = [] := by
        rw [List.flatMap_eq_nil_iff]
        intro b' hb'
        exact h2 b' (List.mem_cons_of_mem _ hb') (fun h => hnd.1 (h ▸ hb'))
      rw [this]; rfl
    · rw [h2 a (List.mem_cons_self ..) ha]
      simp only [List.nil_append]
      apply ih hnd.2
      · rcases List.mem_cons.mp hb with h | h
        · exact absurd h.symm ha
        · exact h
      · intro b' hb' hne; exact h2 b' (List.mem_cons_of_mem _ hb') hne

/-- an attaching end's own list is exactly its junction entry -/
theorem connList_hitter (objs : List Obj) (hG : HitsOK objs) (b eb n2 other : Nat) (ob : Obj)
    (hb : objs[b]? = some ob) (heb : eb < 2) (hh : ob.inp.hit eb = some (n2, other)) :
    connList objs b eb = [⟨other, b, eb, 1⟩] := by
  have hblt := (List.getElem?_eq_some_iff.mp hb).1
  -- nobody attaches to (b, eb), because it is not a registering end
  have hnot : ∀ (b' : Nat) (ob' : Obj) (eb' n2' other' : Nat), objs[b']? = some ob' → eb' < 2 → ob'.inp.hit eb' = some (n2', other') →
      ¬ (other' = b ∧ n2' = eb) := by
    intro b' ob' eb' n2' other' hb' heb' hh' hc
    have := hG b' ob' eb' n2' other' hb' heb' hh'
    rw [hc.1, hc.2] at this
    unfold isRegistrant at this
    rw [hb] at this
    simp [hh] at this
  unfold connList
  apply flatMap_single _ _ b _ List.nodup_range (List.mem_range.mpr hblt)
  · rw [hb]
    simp only
    unfold connFrom
    have heb' : eb = 0 ∨ eb = 1 := by omega
    rcases heb' with rfl | rfl
    · have hn0 := hnot b ob 0 n2 other hb (by omega) hh
      cases h1' : ob.inp.hit 1 with
      | none => simp [hh, h1', hn0]
      | some v =>
        obtain ⟨n2', other'⟩ := v
        have hn1 := hnot b ob 1 n2' other' hb (by omega) h1'
        simp [hh, h1', hn0, hn1]
    · have hn1 := hnot b ob 1 n2 other hb (by omega) hh
      cases h0' : ob.inp.hit 0 with
      | none => simp [hh, h0', hn1]
      | some v =>
        obtain ⟨n2', other'⟩ := v
        have hn0 := hnot b ob 0 n2' other' hb (by omega) h0'
        simp [hh, h0', hn0, hn1]
  · intro b' hb' hne
    cases hb'' : objs[b']? with
    | none => rfl
    | some ob' =>
      simp only
      rw [List.eq_nil_iff_forall_not_mem]
      intro c hc
      rw [mem_connFrom] at hc
      obtain ⟨eb', heb'', n2', other', hh', hc⟩ := hc
      rcases hc with ⟨h1, h2, _⟩ | ⟨h1, _, _⟩
      · exact hnot b' ob' eb' n2' other' hb'' heb'' hh' ⟨h1, h2⟩
      · exact hne h1

/-- **structure theorem**: in every antenna the builder accepts, every registering end is a
`NodeOK` junction -/
theorem C09_structure (os : List ObjIn) (st : State) (h : build os = .ok st) (A eA : Nat)
    (hreg : isRegistrant st.objs A eA = true) : NodeOK st.objs A eA := by
  have hG := hitsOK_build os st h
  unfold isRegistrant at hreg
  cases hA : st.objs[A]? with
  | none => rw [hA] at hreg; simp at hreg
  | some obA =>
    rw [hA] at hreg
    simp only [Bool.and_eq_true, decide_eq_true_eq, Bool.not_eq_true', Option.isNone_iff_eq_none] at hreg
    refine ⟨hreg.1.1, ?_⟩
    intro c hc
    rw [mem_connList] at hc
    obtain ⟨b, ob, hb, hc⟩ := hc
    rw [mem_connFrom] at hc
    obtain ⟨eb, heb, n2, other, hh, hc⟩ := hc
    rcases hc with ⟨h1, h2, h3⟩ | ⟨h1, h2, h3⟩
    · subst h3 h2
      refine ⟨heb, rfl, ?_⟩
      simp only
      unfold pulseIter
      rw [connList_hitter st.objs hG b eb n2 other ob hb heb hh]
      simp [sortConn, insertConn]
    · -- (A, eA) would itself be an attaching end
      subst h1 h2
      rw [hA] at hb; cases hb
      rw [hreg.2] at hh; cases hh

/-- **Kirchhoff for every accepted antenna** (full sums — what the report would satisfy with
`c += …` at both ends) -/
theorem C09_kcl (os : List ObjIn) (st : State) (h : build os = .ok st) (A eA : Nat)
    (hreg : isRegistrant st.objs A eA = true) (I : Nat → R) :
    out eA * termsVal I (pulseIter st.objs A eA)
      + ((connList st.objs A eA).map fun c =>
          out c.endIdx * termsVal I (pulseIter st.objs c.ow c.endIdx)).sum = 0 :=
  C09_kcl_node I st.objs A eA (C09_structure os st h A eA hreg)

/-- **Kirchhoff for the code as it is**: holds at every junction whose registering end is a second
end or that has at most one attaching end -/
theorem C09_kcl_code_partial (os : List ObjIn) (st : State) (h : build os = .ok st) (A eA : Nat)
    (hreg : isRegistrant st.objs A eA = true) (I : Nat → R)
    (hcase : eA = 1 ∨ (connList st.objs A eA).length ≤ 1) :
    out eA * termsVal I (codeTerms eA (pulseIter st.objs A eA))
      + ((connList st.objs A eA).map fun c =>
          out c.endIdx * termsVal I (codeTerms c.endIdx (pulseIter st.objs c.ow c.endIdx))).sum = 0 :=
  C09_kcl_partial I st.objs A eA (C09_structure os st h A eA hreg) hcase

/-- three two-segment wires leaving one point: wires 2 and 3 attach to the first end of wire 1 -/
def star3 : List ObjIn :=
  [⟨2, false, false, none, none⟩, ⟨2, false, false, some (0, 0), none⟩, ⟨2, false, false, some (0, 0), none⟩]

/-- the node sum as the current code evaluates it, over ℤ -/
def codeNodeSum (objs : List Obj) (A eA : Nat) (I : Nat → Int) : Int :=
  out eA * termsVal I (codeTerms eA (pulseIter objs A eA))
    + ((connList objs A eA).map fun c =>
        out c.endIdx * termsVal I (codeTerms c.endIdx (pulseIter objs c.ow c.endIdx))).sum

/-- **the defect** (`c =` instead of `c +=` at the first end, mininec.py `currents_as_mininec`):
for the three-wire star and unit currents the printed junction currents do not add up to zero —
Kirchhoff fails for the code as it is, at a first-end junction with two attached wires. -/
theorem C09_defect_witness :
    (build star3).toOption.map (fun st =>
      (isRegistrant st.objs 0 0, codeNodeSum st.objs 0 0 (fun _ => 1))) = some (true, 1) := by
  decide +kernel

/-- non-vacuity of `C09_kcl`: the same star is an accepted antenna with a registering end -/
example : (build star3).toOption.map (fun st =>
      (isRegistrant st.objs 0 0, (connList st.objs 0 0).length)) = some (true, 2) := by decide +kernel

end Pmn.Props.C09
