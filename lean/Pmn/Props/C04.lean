/-
C04 — the near field is the field of the solved currents.

On the model `Pmn.Model.Near` over ℝ, for any potential functional Ψ:

* `C04_linear_E`, `C04_linear_H` : both fields are linear in the vector of pulse currents;
* `C04_power_E`, `C04_power_H`   : both are proportional to `fe = sqrt (pwr / P)`;
* `C04_curl`                     : the index arithmetic that assembles H is the central-difference
                                   curl (over ±s0/2) of the total vector potential, times
                                   `fe / (4π s0)`;
* `C04_flip_A`, `C04_flip_E`     : every half of a pulse enters with its own direction, sign,
                                   length and radius — describing the pulse from the other side
                                   negates its vector potential and its E-field term (so with the
                                   negated current the fields are the same), for every
                                   orientation-independent Ψ;
* `C04_dir_sign_A`               : a half described in the opposite sense (direction vector and
                                   signs negated) leaves the vector potential unchanged;
* `C04_defect_witness`           : the former rule (second half taken with the direction of the
                                   first) violates `C04_flip_A` — kernel-checked witness.

Not theorems (evaluated by harness/c04.py on the implementation): the 1 % agreement with an
independent evaluation of the fields of currents and charges, the convergence to the far field,
E/H = 376.7 Ω and transversality at large distance.
-/
import Pmn.Model.Near
import Pmn.Model.Const
import Pmn.Props.C06
import Pmn.Proofs.Inst
import Pmn.Proofs.FarLemmas
import Mathlib.Tactic.Ring
import Mathlib.Tactic.NormNum

namespace Pmn.Props.C04
open Pmn.Fill Pmn.Near Pmn.Far Pmn.Props.C06

theorem cv3_ext (a b : CV3 ℝ) (hx : a.x = b.x) (hy : a.y = b.y) (hz : a.z = b.z) : a = b := by
  cases a; cases b; simp_all

def cv3neg (a : CV3 ℝ) : CV3 ℝ := ⟨-a.x, -a.y, -a.z⟩

/-! ### linearity in the currents -/

/-- `a I + b J`, componentwise -/
def comb (a b : Cx ℝ) : List (Cx ℝ) → List (Cx ℝ) → List (Cx ℝ)
  | i :: is, j :: js => (a * i + b * j) :: comb a b is js
  | _, _ => []

theorem sumP_lin (kneg : Bool) (f : PulseD ℝ → CV3 ℝ) (a b : Cx ℝ) (ps : List (PulseD ℝ)) (I J : List (Cx ℝ))
    (h : I.length = J.length) :
    sumP kneg f ps (comb a b I J) = CV3.add (CV3.smul a (sumP kneg f ps I)) (CV3.smul b (sumP kneg f ps J)) := by
  induction ps generalizing I J with
  | nil =>
    simp only [sumP]
    cx_unfold
    simp only [CV3.mk.injEq, Cx.mk.injEq]
    norm_num
  | cons p ps ih =>
    cases I with
    | nil =>
      cases J with
      | nil =>
        simp only [sumP, comb]
        cx_unfold
        simp only [CV3.mk.injEq, Cx.mk.injEq]
        norm_num
      | cons j js => simp at h
    | cons i is =>
      cases J with
      | nil => simp at h
      | cons j js =>
        simp only [comb, sumP]
        have hl : is.length = js.length := by simpa using h
        rw [ih is js hl]
        split
        · cx_unfold
          simp only [CV3.mk.injEq, Cx.mk.injEq]
          refine ⟨⟨?_, ?_⟩, ⟨?_, ?_⟩, ⟨?_, ?_⟩⟩ <;> ring
        · rfl

theorem sumPasses_lin (g : Bool) (a b : Cx ℝ) (f fi fj : ℝ → Bool → CV3 ℝ)
    (h : ∀ k kn, f k kn = CV3.add (CV3.smul a (fi k kn)) (CV3.smul b (fj k kn))) :
    sumPasses g f = CV3.add (CV3.smul a (sumPasses g fi)) (CV3.smul b (sumPasses g fj)) := by
  unfold sumPasses passes
  cases g <;> simp only [Bool.false_eq_true, if_false, if_true, List.foldl_cons, List.foldl_nil, h] <;>
    cx_unfold <;> simp only [CV3.mk.injEq, Cx.mk.injEq] <;>
    refine ⟨⟨?_, ?_⟩, ⟨?_, ?_⟩, ⟨?_, ?_⟩⟩ <;> ring

/-- **the E field is linear in the currents** -/
theorem C04_linear_E (Ψ : PsiFn ℝ) (w2 s0 m fe : ℝ) (g : Bool) (vec : V3 ℝ) (ps : List (PulseD ℝ))
    (a b : Cx ℝ) (I J : List (Cx ℝ)) (h : I.length = J.length) :
    Near.eField Ψ w2 s0 m fe g vec ps (comb a b I J)
      = CV3.add (CV3.smul a (Near.eField Ψ w2 s0 m fe g vec ps I)) (CV3.smul b (Near.eField Ψ w2 s0 m fe g vec ps J)) := by
  unfold Near.eField
  rw [sumPasses_lin g a b _ (fun k kn => sumP kn (ePulse Ψ w2 s0 k kn vec) ps I)
    (fun k kn => sumP kn (ePulse Ψ w2 s0 k kn vec) ps J) (fun k kn => sumP_lin kn _ a b ps I J h)]
  cx_unfold
  simp only [CV3.mk.injEq, Cx.mk.injEq]
  refine ⟨⟨?_, ?_⟩, ⟨?_, ?_⟩, ⟨?_, ?_⟩⟩ <;> ring

theorem aTot_lin (Ψ : PsiFn ℝ) (g : Bool) (v : V3 ℝ) (ps : List (PulseD ℝ)) (a b : Cx ℝ) (I J : List (Cx ℝ))
    (h : I.length = J.length) :
    aTot Ψ g v ps (comb a b I J) = CV3.add (CV3.smul a (aTot Ψ g v ps I)) (CV3.smul b (aTot Ψ g v ps J)) := by
  unfold aTot
  apply sumPasses_lin
  intro k kn
  rw [sumP_lin kn _ a b ps I J h]
  cx_unfold
  simp only [CV3.mk.injEq, Cx.mk.injEq]
  refine ⟨⟨?_, ?_⟩, ⟨?_, ?_⟩, ⟨?_, ?_⟩⟩ <;> ring

/-- **the H field is linear in the currents** -/
theorem C04_linear_H (Ψ : PsiFn ℝ) (s0 fe fourPi : ℝ) (g : Bool) (vec : V3 ℝ) (ps : List (PulseD ℝ))
    (a b : Cx ℝ) (I J : List (Cx ℝ)) (h : I.length = J.length) :
    hField Ψ s0 fe fourPi g vec ps (comb a b I J)
      = CV3.add (CV3.smul a (hField Ψ s0 fe fourPi g vec ps I)) (CV3.smul b (hField Ψ s0 fe fourPi g vec ps J)) := by
  unfold hField kf
  simp only [aTot_lin Ψ g _ ps a b I J h]
  cx_unfold
  simp only [CV3.mk.injEq, Cx.mk.injEq]
  refine ⟨⟨?_, ?_⟩, ⟨?_, ?_⟩, ⟨?_, ?_⟩⟩ <;> ring

/-! ### power scaling -/

/-- **E ∝ sqrt (pwr / P)**: the field for the factor `fe` is `fe` times the field for factor 1 -/
theorem C04_power_E (Ψ : PsiFn ℝ) (w2 s0 m fe : ℝ) (g : Bool) (vec : V3 ℝ) (ps : List (PulseD ℝ)) (I : List (Cx ℝ)) :
    Near.eField Ψ w2 s0 m fe g vec ps I = CV3.smul (cxOfReal fe) (Near.eField Ψ w2 s0 m 1 g vec ps I) := by
  unfold Near.eField
  cx_unfold
  simp only [CV3.mk.injEq, Cx.mk.injEq]
  refine ⟨⟨?_, ?_⟩, ⟨?_, ?_⟩, ⟨?_, ?_⟩⟩ <;> ring

theorem C04_power_H (Ψ : PsiFn ℝ) (s0 fe fourPi : ℝ) (g : Bool) (vec : V3 ℝ) (ps : List (PulseD ℝ)) (I : List (Cx ℝ)) :
    hField Ψ s0 fe fourPi g vec ps I = CV3.smul (cxOfReal fe) (hField Ψ s0 1 fourPi g vec ps I) := by
  unfold hField
  cx_unfold
  simp only [CV3.mk.injEq, Cx.mk.injEq]
  refine ⟨⟨?_, ?_⟩, ⟨?_, ?_⟩, ⟨?_, ?_⟩⟩ <;> ring

/-! ### H is the central-difference curl of A -/

/-- central differences of a vector field over `±h` along the three axes, combined as a curl -/
def curlFD (A : V3 ℝ → CV3 ℝ) (vec : V3 ℝ) (h : ℝ) : CV3 ℝ :=
  let d := fun (i : Nat) => (A (vadd vec (axis i h)), A (vadd vec (axis i (-h))))
  ⟨((d 1).1.z - (d 1).2.z) - ((d 2).1.y - (d 2).2.y),
   ((d 2).1.x - (d 2).2.x) - ((d 0).1.z - (d 0).2.z),
   ((d 0).1.y - (d 0).2.y) - ((d 1).1.x - (d 1).2.x)⟩

/-- **H = fe / (4π s0) · curl_FD A_total** -/
theorem C04_curl (Ψ : PsiFn ℝ) (s0 fe fourPi : ℝ) (g : Bool) (vec : V3 ℝ) (ps : List (PulseD ℝ)) (I : List (Cx ℝ)) :
    hField Ψ s0 fe fourPi g vec ps I
      = CV3.smul (cxOfReal (fe / s0 / fourPi)) (curlFD (fun v => aTot Ψ g v ps I) vec (s0 / ((2 : Nat) : ℝ))) := by
  unfold hField kf curlFD
  simp only [Bool.false_eq_true, if_false, if_true]
  cx_unfold
  simp only [CV3.mk.injEq, Cx.mk.injEq]
  refine ⟨⟨?_, ?_⟩, ⟨?_, ?_⟩, ⟨?_, ?_⟩⟩ <;> ring

/-! ### each half with its own data: description independence of the contributions -/

/-- **the vector potential of a pulse described from the other side is the negative** -/
theorem C04_flip_A (Ψ : PsiFn ℝ) (hΨ : FlipSymAt Ψ false) (k : ℝ) (kneg : Bool) (v : V3 ℝ) (p : PulseD ℝ) (i' : Nat) :
    nfA Ψ k kneg v (flipPulse p i') = cv3neg (nfA Ψ k kneg v p) := by
  unfold nfA
  simp only [dvecs_flip, hΨ, Bool.not_true, Bool.not_false]
  simp only [flipPulse, negV, cv3neg]
  cx_unfold
  simp only [cx_neg_def, CV3.mk.injEq, Cx.mk.injEq]
  refine ⟨⟨?_, ?_⟩, ⟨?_, ?_⟩, ⟨?_, ?_⟩⟩ <;> ring

theorem psi56_flip (Ψ : PsiFn ℝ) (hΨ : FlipSymAt Ψ false) (k : ℝ) (kneg : Bool) (v : V3 ℝ) (p : PulseD ℝ) (i' : Nat)
    (pos : Bool) : psi56 Ψ k kneg v (flipPulse p i') pos = psi56 Ψ k kneg v p (!pos) := by
  unfold psi56
  simp only [dvecs_flip, hΨ]

/-- … and so is its E-field term -/
theorem C04_flip_E (Ψ : PsiFn ℝ) (hΨ : FlipSymAt Ψ false) (w2 s0 k : ℝ) (kneg : Bool) (v : V3 ℝ) (p : PulseD ℝ) (i' : Nat) :
    ePulse Ψ w2 s0 k kneg v (flipPulse p i') = cv3neg (ePulse Ψ w2 s0 k kneg v p) := by
  unfold ePulse eComp
  simp only [C04_flip_A Ψ hΨ, psi56_flip Ψ hΨ, Bool.not_true, Bool.not_false]
  simp only [flipPulse, cv3neg]
  cx_unfold
  simp only [cx_neg_def, CV3.mk.injEq, Cx.mk.injEq]
  refine ⟨⟨?_, ?_⟩, ⟨?_, ?_⟩, ⟨?_, ?_⟩⟩ <;> ring

/-- a flipped pulse takes part in the same passes -/
theorem active_flip (kneg : Bool) (p : PulseD ℝ) (i' : Nat) : active kneg (flipPulse p i') = active kneg p := by
  unfold active
  show (!kneg || !(p.s1.gnd || p.s0.gnd)) = _
  rw [Bool.or_comm p.s1.gnd]

/-- a half described in the opposite sense (direction vector, direction sign and sign negated)
leaves the vector potential of the pulse unchanged -/
theorem C04_dir_sign_A (Ψ : PsiFn ℝ) (hΨ : DirFree Ψ) (k : ℝ) (kneg : Bool) (v : V3 ℝ) (p : PulseD ℝ) (b0 b1 : Bool) :
    nfA Ψ k kneg v { p with s0 := if b0 then negHalf p.s0 else p.s0, s1 := if b1 then negHalf p.s1 else p.s1 }
      = nfA Ψ k kneg v p := by
  set p' : PulseD ℝ := { p with s0 := if b0 then negHalf p.s0 else p.s0, s1 := if b1 then negHalf p.s1 else p.s1 } with hp
  have side_j : ∀ pos, (side p' pos).len = (side p pos).len ∧ (side p' pos).r = (side p pos).r ∧
      (side p' pos).i6 = (side p pos).i6 ∧ (side p' pos).fend = (side p pos).fend := by
    intro pos
    cases pos <;> cases b0 <;> cases b1 <;> simp [side, hp, negHalf]
  have es : ∀ pos a, endseg p' pos a = endseg p pos a := by
    intro pos a; unfold endseg; rw [(side_j pos).2.2.2]
  have dv : ∀ pos a, dvecs p' pos a = dvecs p pos a := by
    intro pos a; unfold dvecs; simp only [es]; rfl
  unfold nfA
  obtain ⟨h1, h2, h3, _⟩ := side_j true
  obtain ⟨g1, g2, g3, _⟩ := side_j false
  simp only [dv, hΨ _ _ _ _ true p p' _ _ h1 h2 h3, hΨ _ _ _ _ false p p' _ _ g1 g2 g3]
  have e1 : p'.s1 = if b1 then negHalf p.s1 else p.s1 := rfl
  have e0 : p'.s0 = if b0 then negHalf p.s0 else p.s0 := rfl
  simp only [e1, e0]
  cases b0 <;> cases b1 <;>
    simp only [if_true, if_false, Bool.false_eq_true, negHalf, negV] <;>
    cx_unfold <;> simp only [CV3.mk.injEq, Cx.mk.injEq] <;>
    refine ⟨⟨?_, ?_⟩, ⟨?_, ?_⟩, ⟨?_, ?_⟩⟩ <;> ring

/-! ### the former rule -/

/-- `nf_helper` before the repair: both halves with the direction of the first, the second half
without its sign and with the segment data selected by a positive displacement -/
noncomputable def nfAOld (Ψ : PsiFn ℝ) (k : ℝ) (kneg : Bool) (v1 : V3 ℝ) (p : PulseD ℝ) : CV3 ℝ :=
  let half : ℝ := 1 / 2
  let ab1 := dvecs p true half
  let u := Ψ (vsub v1 (kmul k ab1.1)) (vsub v1 (kmul k ab1.2)) kneg half true p false false
  let ab0 := dvecs p false half
  let v := Cx.scale p.s0.sign (Ψ (vsub v1 (kmul k ab0.1)) (vsub v1 (kmul k ab0.2)) kneg half true p false false)
  ⟨Cx.scale p.s0.dir.x v + Cx.scale p.s0.dir.x u,
   Cx.scale p.s0.dir.y v + Cx.scale p.s0.dir.y u,
   Cx.scale k (Cx.scale (p.s0.gsgn * p.s0.dir.z) v + Cx.scale (p.s1.gsgn * p.s0.dir.z) u)⟩

/-- a corner pulse: first half along x, second half along y -/
def cornerPulse : PulseD ℝ :=
  { idx := 0, pt := ⟨0, 0, 0⟩,
    s0 := ⟨1, ⟨1, 0, 0⟩, 1, 0, ⟨-1, 0, 0⟩, 1, 1, 1, false⟩,
    s1 := ⟨1, ⟨0, 1, 0⟩, 1, 0, ⟨0, 1, 0⟩, 1, 1, 1, false⟩,
    owner := 0, plain := false, geo0 := 0, nvg := false }

/-- **defect witness**: with the constant functional Ψ = 1 (orientation independent) the former rule
gives the corner pulse and the same pulse described from the other side vector potentials that are
not negatives of each other (x-components 2 and 0) — `C04_flip_A` fails for it -/
theorem C04_defect_witness :
    (nfAOld (fun _ _ _ _ _ _ _ _ => ⟨1, 0⟩) 1 false ⟨0, 0, 5⟩ cornerPulse).x.re = 2 ∧
    (nfAOld (fun _ _ _ _ _ _ _ _ => ⟨1, 0⟩) 1 false ⟨0, 0, 5⟩ (flipPulse cornerPulse 0)).x.re = 0 := by
  simp only [nfAOld, cornerPulse, flipPulse, negV, Cx.scale]
  cx_unfold
  norm_num

/-- while the repaired rule gives x-components 1 and −1 -/
example :
    (nfA (fun _ _ _ _ _ _ _ _ => ⟨1, 0⟩) 1 false ⟨0, 0, 5⟩ cornerPulse).x.re = 1 ∧
    (nfA (fun _ _ _ _ _ _ _ _ => ⟨1, 0⟩) 1 false ⟨0, 0, 5⟩ (flipPulse cornerPulse 0)).x.re = -1 := by
  simp only [nfA, cornerPulse, flipPulse, negV, Cx.scale]
  cx_unfold
  norm_num

/-! ### constants -/

/-- virtual dipole length `s0 = λ / 1000` and `m = 4.77783352 λ`, regenerated from the source -/
theorem C04_constants : Pmn.Const.nfS0Factor = ⟨1, 1000⟩ ∧ Pmn.Const.mFactor = ⟨59722919, 12500000⟩ := by
  decide

end Pmn.Props.C04
