/- instances of the model's scalar classes for ℝ and ℂ (proof side only) -/
import Pmn.Model.Circuit
import Mathlib.Analysis.SpecialFunctions.Trigonometric.Basic
import Mathlib.Data.Complex.Basic
import Mathlib.Analysis.SpecialFunctions.Pow.Real

noncomputable instance : HasSqrt ℝ := ⟨Real.sqrt⟩
noncomputable instance : HasTrig ℝ := ⟨Real.sin, Real.cos, fun y x => Complex.arg ⟨x, y⟩, Real.pi⟩
noncomputable instance : HasExpLog ℝ := ⟨Real.exp, Real.log, fun x => Real.log x / Real.log 10⟩
instance : HasI ℂ := ⟨Complex.I⟩
noncomputable instance : HasConjRe ℂ ℝ := ⟨(starRingEnd ℂ), Complex.re⟩
