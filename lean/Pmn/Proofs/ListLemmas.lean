/- helper lemmas on lists (core only) -/

namespace Pmn.ListLemmas

theorem length_flatMap_const {α β : Type} (l : List α) (f : α → List β) (m : Nat)
    (h : ∀ a ∈ l, (f a).length = m) : (l.flatMap f).length = l.length * m := by
  induction l with
  | nil => simp
  | cons a t ih =>
    simp only [List.flatMap_cons, List.length_append, List.length_cons]
    rw [ih (fun b hb => h b (List.mem_cons_of_mem _ hb)), h a (List.mem_cons_self ..)]
    rw [Nat.add_mul, Nat.one_mul, Nat.add_comm]

/-- element `j*m + i` of a `flatMap` with blocks of constant length `m` -/
theorem getElem?_flatMap_const {α β : Type} (l : List α) (f : α → List β) (m : Nat)
    (h : ∀ a ∈ l, (f a).length = m) (j i : Nat) (hi : i < m) :
    (l.flatMap f)[j * m + i]? = (l[j]?).bind fun a => (f a)[i]? := by
  induction l generalizing j with
  | nil => simp
  | cons a t ih =>
    have ha : (f a).length = m := h a (List.mem_cons_self ..)
    have ht : ∀ b ∈ t, (f b).length = m := fun b hb => h b (List.mem_cons_of_mem _ hb)
    cases j with
    | zero =>
      simp only [List.flatMap_cons, Nat.zero_mul, Nat.zero_add, List.getElem?_cons_zero,
        Option.bind_some]
      rw [List.getElem?_append_left (by omega)]
    | succ j =>
      simp only [List.flatMap_cons, List.getElem?_cons_succ]
      rw [List.getElem?_append_right (by rw [ha, Nat.succ_mul]; omega)]
      have : (j + 1) * m + i - (f a).length = j * m + i := by
        rw [ha, Nat.succ_mul]; omega
      rw [this]
      exact ih ht j

end Pmn.ListLemmas
