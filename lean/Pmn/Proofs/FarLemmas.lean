import Pmn.Model.Far
import Pmn.Proofs.Inst
import Mathlib.Tactic.Ring
import Mathlib.Tactic.LinearCombination

namespace Pmn.FarLemmas
open Pmn.Far

theorem cx_mul_def (a b : Cx ℝ) : a * b = ⟨a.re * b.re - a.im * b.im, a.re * b.im + a.im * b.re⟩ := rfl
theorem cx_add_def (a b : Cx ℝ) : a + b = ⟨a.re + b.re, a.im + b.im⟩ := rfl
theorem cx_sub_def (a b : Cx ℝ) : a - b = ⟨a.re - b.re, a.im - b.im⟩ := rfl
theorem cx_div_def (a b : Cx ℝ) : a / b =
    ⟨(a.re * b.re + a.im * b.im) / (b.re * b.re + b.im * b.im),
     (a.im * b.re - a.re * b.im) / (b.re * b.re + b.im * b.im)⟩ := rfl

/-- unfold complex arithmetic to components -/
macro "cx_unfold" : tactic => `(tactic|
  simp only [cx_mul_def, cx_add_def, cx_sub_def, cx_div_def, Cx.scale, CV3.add, CV3.smul, CV3.ofMasked,
    CV3.zero, CV3.dotR, cxZero, cxOne, cxOfReal, cxI, Nat.cast_zero, Nat.cast_one, Nat.cast_ofNat])

end Pmn.FarLemmas
