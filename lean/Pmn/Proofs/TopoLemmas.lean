import Pmn.Model.Topo
/-! helper lemmas for the topology model (core Lean only) -/
namespace Pmn.TopoLemmas
open Pmn.Topo

theorem natAbs_mul_sgn (a n2 e : Nat) : (((a : Int) + 1) * sgnOf n2 e).natAbs = a + 1 := by
  unfold sgnOf; split <;> simp <;> omega
theorem mul_sgn_ne (a n2 e : Nat) : ((a : Int) + 1) * sgnOf n2 e ≠ 0 := by
  unfold sgnOf; split <;> simp <;> omega
theorem isign_mul_sgn (a n2 e : Nat) : isign (((a : Int) + 1) * sgnOf n2 e) = sgnOf n2 e := by
  unfold isign sgnOf; split <;> simp <;> omega
theorem natAbs_neg_succ (n : Nat) : (-((n : Int) + 1)).natAbs = n + 1 := by omega

theorem idxAt_ground (n : Nat) (o : ObjIn) (e : Nat) (h : o.ground e = true) :
    idxAt n o e = -((n : Int) + 1) := by
  unfold idxAt; rw [if_pos h]

theorem idxAt_hit (n : Nat) (o : ObjIn) (e n2 other : Nat) (hg : o.ground e = false)
    (hh : o.hit e = some (n2, other)) : idxAt n o e = ((other : Int) + 1) * sgnOf n2 e := by
  unfold idxAt; rw [if_neg (by simp [hg]), hh]

theorem idxAt_none1 (n : Nat) (o : ObjIn) (hg : o.ground 1 = false) (hh : o.hit 1 = none) :
    idxAt n o 1 = 0 := by
  unfold idxAt; rw [if_neg (by simp [hg]), hh]; simp

theorem idxAt_none0 (n : Nat) (o : ObjIn) (hg : o.ground 0 = false) (hh : o.hit 0 = none) :
    idxAt n o 0 = if selfLoop n o then (n : Int) + 1 else 0 := by
  unfold idxAt; rw [if_neg (by simp [hg]), hh]; simp

theorem isRegistrant_lt (objs : List Obj) (k e : Nat) (h : isRegistrant objs k e = true) :
    k < objs.length := by
  unfold isRegistrant at h
  split at h
  · rename_i ob hk
    exact (List.getElem?_eq_some_iff.mp hk).1
  · simp at h

/-- a valid hit at the first end refers to an earlier object and a non-grounded end -/
theorem hitOk0 (objs : List Obj) (o : ObjIn) (n2 other : Nat)
    (h : hitOk objs objs.length o 0 = true) (hh : o.hit 0 = some (n2, other)) :
    o.ground 0 = false ∧ other < objs.length := by
  unfold hitOk at h
  rw [hh] at h
  simp only [Bool.and_eq_true, Bool.or_eq_true, Bool.not_eq_true', beq_iff_eq] at h
  refine ⟨h.1, ?_⟩
  rcases h.2 with h | h
  · exact isRegistrant_lt _ _ _ h
  · omega

theorem hitOk_ground (objs : List Obj) (n : Nat) (o : ObjIn) (e : Nat)
    (h : hitOk objs n o e = true) (hg : o.ground e = true) : o.hit e = none := by
  unfold hitOk at h
  cases hh : o.hit e with
  | none => rfl
  | some v =>
    rw [hh] at h
    simp [hg] at h

theorem firstPulses_length (objs : List Obj) (o : ObjIn)
    (h0 : hitOk objs objs.length o 0 = true) :
    (firstPulses objs.length o).length = b2n (o.ground 0) + b2n (o.hit 0).isSome := by
  cases hg : o.ground 0
  · cases hh : o.hit 0 with
    | none =>
      unfold firstPulses
      have hg0 : o.g0 = false := by simpa [ObjIn.ground] using hg
      simp only [idxAt_none0 _ _ hg hh, hg0]
      by_cases hs : selfLoop objs.length o = true
        <;> simp [hs, b2n]
      omega
    | some v =>
      obtain ⟨n2, other⟩ := v
      have := hitOk0 objs o n2 other h0 hh
      unfold firstPulses
      simp only [idxAt_hit _ _ _ _ _ hg hh]
      rw [if_pos ⟨mul_sgn_ne _ _ _, by rw [natAbs_mul_sgn]; omega⟩]
      simp [b2n]
  · have hh := hitOk_ground _ _ _ _ h0 hg
    unfold firstPulses
    have hg0 : o.g0 = true := by simpa [ObjIn.ground] using hg
    simp only [idxAt_ground _ _ _ hg, hg0]
    rw [if_neg (by rw [natAbs_neg_succ]; omega)]
    simp [hh, b2n]

theorem lastPulses_length (objs : List Obj) (n : Nat) (o : ObjIn)
    (h1 : hitOk objs n o 1 = true) :
    (lastPulses n o).length = b2n (o.ground 1) + b2n (o.hit 1).isSome := by
  cases hg : o.ground 1
  · have hg1 : o.g1 = false := by simpa [ObjIn.ground] using hg
    cases hh : o.hit 1 with
    | none =>
      unfold lastPulses
      simp [idxAt_none1 _ _ hg hh, hg1, b2n]
    | some v =>
      obtain ⟨n2, other⟩ := v
      unfold lastPulses
      simp only [idxAt_hit _ _ _ _ _ hg hh, hg1]
      simp [mul_sgn_ne, b2n]
  · have hh := hitOk_ground _ _ _ _ h1 hg
    have hg1 : o.g1 = true := by simpa [ObjIn.ground] using hg
    unfold lastPulses
    simp [hg1, hh, b2n]

/-- what a successful step does -/
theorem step_ok (st st' : State) (o : ObjIn) (h : step st o = .ok st') :
    hitOk st.objs st.objs.length o 0 = true ∧ hitOk st.objs st.objs.length o 1 = true ∧
    o.nseg ≠ 0 ∧ ¬ (o.h0.isSome = true ∧ o.h0 = o.h1) ∧
    st'.pulses = st.pulses ++ mkPulses st.objs.length o ∧
    st'.objs = st.objs ++ [⟨o, st.pulses.length, (mkPulses st.objs.length o).length,
      endSeg0 st.objs.length o st.pulses.length, endSeg1 st.objs.length o st.pulses.length⟩] := by
  unfold step at h
  simp only at h
  split at h
  · cases h
  · split at h
    · cases h
    · split at h
      · cases h
      · rename_i hn hok hdup
        injection h with h
        subst h
        simp at hok
        refine ⟨hok.1, hok.2, hn, ?_, rfl, rfl⟩
        simpa using hdup

theorem foldlM_step_cons (st : State) (o : ObjIn) (os : List ObjIn) :
    (o :: os).foldlM step st = (step st o) >>= fun s => os.foldlM step s := by
  simp [List.foldlM]

end Pmn.TopoLemmas
