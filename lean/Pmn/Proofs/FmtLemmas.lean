import Pmn.Model.Fmt
import Mathlib.Tactic.Ring
import Mathlib.Tactic.Linarith
import Mathlib.Tactic.FieldSimp
import Mathlib.Tactic.Positivity
import Mathlib.Tactic.NormNum
import Mathlib.Tactic.IntervalCases
import Mathlib.Algebra.Order.Field.Basic
import Mathlib.Data.Rat.Defs
import Mathlib.Data.Rat.Cast.Order
import Mathlib.Algebra.Order.AbsoluteValue.Basic

namespace Pmn.FmtLemmas
open Pmn.Fmt

/-- rounding to nearest (ties to even) is within 1/2 of the exact quotient -/
theorem roundHalfEven_err (n d : Nat) (hd : 0 < d) :
    |((roundHalfEven n d : Nat) : ℚ) - (n : ℚ) / d| ≤ 1 / 2 := by
  have hdq : (0 : ℚ) < d := by exact_mod_cast hd
  have hn : (n : ℚ) = (d : ℚ) * ((n / d : Nat) : ℚ) + ((n % d : Nat) : ℚ) := by
    exact_mod_cast (Nat.div_add_mod n d).symm
  have hm : ((n % d : Nat) : ℚ) < d := by exact_mod_cast Nat.mod_lt n hd
  have hm0 : (0 : ℚ) ≤ ((n % d : Nat) : ℚ) := by positivity
  have hq : (n : ℚ) / d = ((n / d : Nat) : ℚ) + ((n % d : Nat) : ℚ) / d := by
    rw [hn]; field_simp
  unfold roundHalfEven
  simp only
  split
  · rename_i h
    have h2 : (d : ℚ) ≤ 2 * ((n % d : Nat) : ℚ) := by
      rcases h with h | ⟨h, _⟩
      · exact_mod_cast Nat.le_of_lt h
      · exact_mod_cast Nat.le_of_eq h.symm
    have hx : (1 : ℚ) / 2 ≤ ((n % d : Nat) : ℚ) / d := by
      rw [div_le_div_iff₀ (by norm_num) hdq]; linarith
    have hx1 : ((n % d : Nat) : ℚ) / d < 1 := by rw [div_lt_one hdq]; exact hm
    rw [hq, abs_le]; push_cast
    constructor <;> linarith
  · rename_i h
    have h2 : 2 * ((n % d : Nat) : ℚ) ≤ d := by
      have : ¬ (2 * (n % d) > d) := fun hh => h (Or.inl hh)
      exact_mod_cast Nat.le_of_not_gt this
    have hx : ((n % d : Nat) : ℚ) / d ≤ 1 / 2 := by
      rw [div_le_div_iff₀ hdq (by norm_num)]; linarith
    have hx0 : 0 ≤ ((n % d : Nat) : ℚ) / d := by positivity
    rw [hq, abs_le]
    constructor <;> linarith

/-- spec of `ilogGe1`: with enough fuel, `10^e·den ≤ num < 10^(e+1)·den` -/
theorem ilogGe1_spec (fuel num den : Nat) (hge : den ≤ num) (hf : num < 10 ^ fuel * den) :
    10 ^ (ilogGe1 fuel num den) * den ≤ num ∧ num < 10 ^ (ilogGe1 fuel num den + 1) * den := by
  induction fuel generalizing den with
  | zero => simp at hf; omega
  | succ f ih =>
    unfold ilogGe1
    split
    · rename_i h
      have := ih (10 * den) h (by rw [pow_succ] at hf; nlinarith)
      constructor
      · calc 10 ^ (ilogGe1 f num (10 * den) + 1) * den
            = 10 ^ (ilogGe1 f num (10 * den)) * (10 * den) := by ring
          _ ≤ num := this.1
      · calc num < 10 ^ (ilogGe1 f num (10 * den) + 1) * (10 * den) := this.2
          _ = 10 ^ (ilogGe1 f num (10 * den) + 1 + 1) * den := by ring
    · rename_i h
      simp only [pow_zero, one_mul, zero_add, pow_one]
      omega

theorem ilogGe1_spec' (num den : Nat) (hd : 0 < den) (hge : den ≤ num) :
    10 ^ (ilogGe1 num num den) * den ≤ num ∧ num < 10 ^ (ilogGe1 num num den + 1) * den := by
  apply ilogGe1_spec _ _ _ hge
  calc num < 10 ^ num := Nat.lt_pow_self (by norm_num)
    _ ≤ 10 ^ num * den := Nat.le_mul_of_pos_right _ hd

/-- spec of `ilogLt1`: with enough fuel, `10^k·num < den ≤ 10^(k+1)·num` -/
theorem ilogLt1_spec (fuel num den : Nat) (hlt : num < den) (hf : den < 10 ^ fuel * num) :
    10 ^ (ilogLt1 fuel num den) * num < den ∧ den ≤ 10 ^ (ilogLt1 fuel num den + 1) * num := by
  induction fuel generalizing num with
  | zero => simp at hf; omega
  | succ f ih =>
    unfold ilogLt1
    split
    · rename_i h
      have := ih (10 * num) h (by rw [pow_succ] at hf; nlinarith)
      constructor
      · calc 10 ^ (ilogLt1 f (10 * num) den + 1) * num
            = 10 ^ (ilogLt1 f (10 * num) den) * (10 * num) := by ring
          _ < den := this.1
      · calc den ≤ 10 ^ (ilogLt1 f (10 * num) den + 1) * (10 * num) := this.2
          _ = 10 ^ (ilogLt1 f (10 * num) den + 1 + 1) * num := by ring
    · rename_i h
      simp only [pow_zero, one_mul, zero_add, pow_one]
      omega

theorem ilogLt1_spec' (num den : Nat) (hn : 0 < num) (hlt : num < den) :
    10 ^ (ilogLt1 den num den) * num < den ∧ den ≤ 10 ^ (ilogLt1 den num den + 1) * num := by
  apply ilogLt1_spec _ _ _ hlt
  calc den < 10 ^ den := Nat.lt_pow_self (by norm_num)
    _ ≤ 10 ^ den * num := Nat.le_mul_of_pos_right _ hn

theorem ndigits_le (ip k : Nat) (hk1 : 1 ≤ k) (hk7 : k ≤ 7) (h : ip < 10 ^ k) : ndigits ip ≤ k := by
  unfold ndigits
  interval_cases k <;> simp at h <;> split_ifs <;> omega

theorem ndigits_pow (k : Nat) (hk1 : 1 ≤ k) (hk7 : k ≤ 7) : ndigits (10 ^ k) = k + 1 := by
  unfold ndigits
  interval_cases k <;> simp

/-- magnitude denoted by a printed decimal -/
def mag (v : DecVal) : ℚ := (v.n : ℚ) / 10 ^ v.scale * 10 ^ v.exp10

/-- the nine-character cut does not change the value when at most seven digits were produced -/
theorem cutVal_mag (neg : Bool) (n prec : Nat) (hp1 : 1 ≤ prec) (hp6 : prec ≤ 6) (hn : n ≤ 10 ^ 7) :
    mag (cutVal neg n prec) = (n : ℚ) / 10 ^ prec := by
  rcases Nat.lt_or_ge n (10 ^ 7) with hlt | hge
  · have hip : n / 10 ^ prec < 10 ^ (7 - prec) := by
      rw [Nat.div_lt_iff_lt_mul (by positivity), ← pow_add]
      have : 7 - prec + prec = 7 := by omega
      rw [this]; exact hlt
    have hnd := ndigits_le (n / 10 ^ prec) (7 - prec) (by omega) (by omega) hip
    unfold cutVal
    simp only
    rw [if_pos (by omega)]
    simp [mag]
  · have hn7 : n = 10 ^ 7 := by omega
    subst hn7
    unfold cutVal
    interval_cases prec <;> simp [ndigits, mag] <;> norm_num

end Pmn.FmtLemmas
