"""C10 — the far field is the radiation integral of the currents; dBi and V/m agree.

Proof side : Pmn/Props/C10.lean — linearity of the amplitude in the currents (free, ideal, real
             ground), total = vertical + horizontal, gain = k9c |E|^2 r^2 / P_req, sqrt(P) and 1/r
             scaling, 2 pi periodicity in both angles, zenith total independent of the azimuth.
Tie        : `compute_far_field` (gains, e_theta, e_phi) vs the Lean point-moment model at 1e-9 of
             the pattern maximum, antennas with x/y/z current components, grounded pulses at either
             wire end, directions incl. theta = 0, 90 and phi +- 360.
Search     : the clauses of the property on the implementation's tables; the 2 % clause against the
             exact (sinc) integral over the straight half segments (sampling, no theorem).
"""
import math, cmath, random
import numpy as np
import antgen, farlib

LEVEL = 'proof'
MODULES = ['C10']
THETAS = [0.0, 17.5, 45.0, 88.0, 90.0]
PHIS = [0.0, 33.0, 123.4, 270.0, 393.0, -327.0]


def exact_G(m, th, ph):
    """exact radiation integral over the straight half segments (constant current per half)"""
    t, p = math.radians(th), math.radians(ph)
    rh = np.array([math.sin(t) * math.cos(p), math.sin(t) * math.sin(p), math.cos(t)])
    G = np.zeros(3, dtype=complex)
    ks = [1] if not m.media else [1, -1]
    for k in ks:
        kv = np.array([1, 1, k])
        for pu in m.pulses:
            I = m.current[pu.idx]
            for h in (0, 1):
                if pu.ground[h]:
                    continue
                seg = pu.segs[h]
                d = np.array(seg.dirvec, dtype=float)
                half = seg.seg_len / 2
                # the half segment leaves the pulse point against (h=0) / along (h=1) its direction
                away = -d if h == 0 else d
                ctr = np.array(pu.point, dtype=float) + away * half / 2
                cur_dir = d * pu.sign[h]
                if pu.inv_ground[h]:
                    # real half plus mirrored half of a grounded pulse: handled as two halves
                    pass
                # image: mirror position and direction (z component keeps sign for ideal ground)
                ctr_k = ctr * kv
                away_k = away * kv
                dir_k = cur_dir * np.array([k, k, 1])
                x = m.w * float(np.dot(rh, away_k)) * half / 2
                sinc = math.sin(x) / x if x else 1.0
                amp = m.w * half * sinc * cmath.exp(1j * m.w * float(np.dot(rh, ctr_k))) * I
                G += dir_k * amp
    return G


def point_G(m, th, ph):
    """the same sum with every half-segment moment placed at its pulse point (as MININEC specifies)"""
    t, p = math.radians(th), math.radians(ph)
    rh = np.array([math.sin(t) * math.cos(p), math.sin(t) * math.sin(p), math.cos(t)])
    G = np.zeros(3, dtype=complex)
    ks = [1] if not m.media else [1, -1]
    for k in ks:
        kv = np.array([1, 1, k])
        for pu in m.pulses:
            I = m.current[pu.idx]
            for h in (0, 1):
                if pu.ground[h]:
                    continue
                seg = pu.segs[h]
                dir_k = np.array(seg.dirvec, dtype=float) * pu.sign[h] * np.array([k, k, 1])
                amp = m.w * seg.seg_len / 2 * cmath.exp(1j * m.w * float(np.dot(rh, np.array(pu.point) * kv))) * I
                G += dir_k * amp
    return G


def property_on_impl(m, maxseg_lambda=None):
    imp = farlib.impl_far(m, THETAS, PHIS, pwr=25.0, dist=1000.0)
    base = farlib.impl_far(m, THETAS, PHIS)
    lin = lambda db: [10 ** (x / 10) if x > -900 else 0.0 for x in db]
    mx = max(lin(v['db'])[2] for v in base.values()) or 1e-300
    for (th, ph), v in base.items():
        l = lin(v['db'])
        if abs(l[0] + l[1] - l[2]) > 1e-6 * mx:
            return 'total is not the power sum of vertical and horizontal at theta=%g phi=%g' % (th, ph)
        # units: gain = |E|^2 r^2 / (59.96 P)
        e = imp[(th, ph)]
        for k, key in ((0, 'e_theta'), (1, 'e_phi')):
            g = abs(e[key]) ** 2 * 1000.0 ** 2 / (59.96 * 25.0)
            if abs(g - l[k]) > 2e-4 * mx:
                return 'gain %r vs |E|^2 r^2/(59.96 P) = %r at theta=%g phi=%g' % (l[k], g, th, ph)
    # the same relation with the power the sources really deliver, P = sum 1/2 Re(V conj I) computed here from the
    # voltages and the feed-pulse currents, and the field without a requested power level
    ptrue = sum(0.5 * (complex(s_.voltage) * complex(m.current[s_.idx]).conjugate()).real for s_ in m.sources)
    if ptrue > 0:
        eabs = farlib.impl_far(m, THETAS, PHIS, dist=1000.0)
        for (th, ph), v in base.items():
            l = lin(v['db'])
            for k, key in ((0, 'e_theta'), (1, 'e_phi')):
                g = abs(eabs[(th, ph)][key]) ** 2 * 1000.0 ** 2 / (59.96 * ptrue)
                if abs(g - l[k]) > 2e-4 * mx:
                    return ('gain %r vs |E|^2 r^2/(59.96 P) = %r at theta=%g phi=%g with P = %r W delivered by the sources (sum of '
                            '1/2 Re(V conj I))' % (l[k], g, th, ph, ptrue))
    # the dBi table does not depend on the requested power level or distance
    for key, v in imp.items():
        for a, b in zip(v['db'], base[key]['db']):
            if (a <= -900) != (b <= -900) or (a > -900 and abs(10 ** (a / 10) - 10 ** (b / 10)) > 1e-9 * mx):
                return ('the dBi table changes with the requested power level: %r dBi at %r with 25 W / 1000 m requested, %r without'
                        % (a, key, b))
    # V/m scaling
    imp2 = farlib.impl_far(m, THETAS, PHIS, pwr=100.0, dist=500.0)
    for key, v in imp.items():
        for c in ('e_theta', 'e_phi'):
            if abs(imp2[key][c] - v[c] * 2 * 2) > 1e-9 * abs(v[c]) + 1e-300:
                return 'V/m does not scale with sqrt(power)/distance'
    # a power level requested without a distance: the V/m values are those at unit distance (r E), they satisfy the same
    # relation with r = 1 and scale with the square root of the power
    p1_ = farlib.impl_far(m, THETAS, PHIS, pwr=25.0)
    p2_ = farlib.impl_far(m, THETAS, PHIS, pwr=100.0)
    for (th, ph), v in base.items():
        l = lin(v['db'])
        for k, key in ((0, 'e_theta'), (1, 'e_phi')):
            g = abs(p1_[(th, ph)][key]) ** 2 / (59.96 * 25.0)
            if abs(g - l[k]) > 2e-4 * mx:
                return ('with a power level of 25 W and no distance requested: gain %r vs |E|^2/(59.96 P) = %r at theta=%g phi=%g'
                        % (l[k], g, th, ph))
            if abs(p2_[(th, ph)][key] - 2 * p1_[(th, ph)][key]) > 1e-9 * abs(p1_[(th, ph)][key]) + 1e-300:
                return 'V/m does not scale with the square root of the requested power when no distance is given (25 W -> 100 W)'
    # 360 degree rows
    for th in THETAS:
        a, b, c = base[(th, 33.0)], base[(th, 393.0)], base[(th, -327.0)]
        for x, y in ((a, b), (a, c)):
            if max(abs(p - q) for p, q in zip(lin(x['db']), lin(y['db']))) > 1e-9 * mx:
                return 'rows 360 degrees apart differ at theta=%g' % th
    # zenith angles 360 degrees apart (also over ground: 377.5 and -342.5 are the upper-hemisphere direction 17.5;
    # 300 = -60 is the direction (60, phi + 180))
    zs = [17.5, 377.5, -342.5, 45.0, 405.0, 60.0, 300.0, -60.0]
    zz = farlib.impl_far(m, zs, [33.0, 213.0])
    for a, b, pa, pb in ((17.5, 377.5, 33.0, 33.0), (17.5, -342.5, 33.0, 33.0), (45.0, 405.0, 33.0, 33.0), (300.0, -60.0, 33.0, 33.0),
                         (60.0, -60.0, 213.0, 33.0), (60.0, 300.0, 213.0, 33.0)):
        x, y = zz[(a, pa)], zz[(b, pb)]
        if max(abs(p - q) for p, q in zip(lin(x['db']), lin(y['db']))) > 1e-9 * mx:
            return 'the same direction given as zenith %g / azimuth %g and as zenith %g / azimuth %g has gains %r and %r' % (
                a, pa, b, pb, [round(t, 4) for t in x['db']], [round(t, 4) for t in y['db']])
    # zenith
    z = [lin(base[(0.0, ph)]['db'])[2] for ph in PHIS]
    if max(z) - min(z) > 1e-9 * mx:
        return 'total gain at the zenith depends on the azimuth: %r' % z
    return None


def big_request_clause(m):
    """a row of the table is a function of its own direction: a request with very many zenith angles (more than
    a million direction x pulse terms in one call, as for a 0.01 degree elevation cut) gives the rows a small
    request gives.  Block-wise or chunked evaluation, index arithmetic that overflows and caches keyed by a
    table position show only at such sizes."""
    N = len(m.pulses)
    nz = int(min(40001, max(2001, math.ceil(1.3e6 / max(N, 1)))))
    if m.media:
        zs = [90.0 * i / (nz - 1) for i in range(nz)]
    else:
        zs = [180.0 * i / (nz - 1) for i in range(nz)]
    phs = [33.0, 213.0]
    m.compute_far_field(farlib.DirAngles(zs), farlib.DirAngles(phs))
    ff = m.far_field
    if ff.gain.shape[0] != nz or ff.gain.shape[1] != 2:
        return 'a request of %d zenith x 2 azimuth angles gives a table of shape %r' % (nz, ff.gain.shape[:2])
    pick = sorted(set([0, 1, nz // 7, nz // 3, nz // 2, (2 * nz) // 3, nz - 2, nz - 1] + [int(nz * k / 13) for k in range(1, 13)]))
    big = {(zs[i], ph): ([float(x) for x in ff.gain[i][pi]], complex(ff.e_theta[pi][i]), complex(ff.e_phi[pi][i]))
           for i in pick for pi, ph in enumerate(phs)}
    small = farlib.impl_far(m, [zs[i] for i in pick], phs)
    emax = max(max(abs(v['e_theta']), abs(v['e_phi'])) for v in small.values()) or 1e-300
    for k, (g, et, ep) in big.items():
        sm = small[k]
        if abs(et - sm['e_theta']) > 1e-9 * emax or abs(ep - sm['e_phi']) > 1e-9 * emax:
            return ('the row for zenith %.6g azimuth %g depends on the size of the request: E = (%r, %r) in a table of %d zenith '
                    'angles, (%r, %r) when asked for alone (%d pulses)' % (k[0], k[1], et, ep, nz, sm['e_theta'], sm['e_phi'], N))
    return None


def long_wire(rng):
    """a structure with many pulses: skew wire of several wavelengths, 1/20 wavelength segments"""
    f = 10 ** rng.uniform(0.8, 1.8)
    lam = antgen.C / f
    n = rng.randint(130, 170)
    seg = lam / 20
    d = antgen.rand_dir(rng)
    c = np.array([rng.uniform(-1, 1), rng.uniform(-1, 1), 0.0]) * lam
    return dict(f=f, ground=False, family='longwire', lam=lam, seg=seg,
                wires=[dict(nseg=n, p0=[float(x) for x in c - d * seg * n / 2], p1=[float(x) for x in c + d * seg * n / 2], r=seg / 40)])


def integral_clause(m):
    """2 % clause: exact integral vs point moments, relative to the pattern maximum (|G| scale)"""
    worst = 0.0
    gm = 0.0
    rows = []
    for th in (10.0, 45.0, 80.0, 90.0) if not m.media else (10.0, 45.0, 80.0):
        for ph in (0.0, 60.0, 200.0):
            ge, gp = exact_G(m, th, ph), point_G(m, th, ph)
            t, p = math.radians(th), math.radians(ph)
            that = np.array([math.cos(t) * math.cos(p), math.cos(t) * math.sin(p), -math.sin(t)])
            phat = np.array([-math.sin(p), math.cos(p), 0.0])
            fe = np.array([np.dot(ge, that), np.dot(ge, phat)])
            fp = np.array([np.dot(gp, that), np.dot(gp, phat)])
            rows.append((fe, fp))
            gm = max(gm, float(np.max(np.abs(fp))))
    for fe, fp in rows:
        worst = max(worst, float(np.max(np.abs(fe - fp))) / (gm or 1e-300))
    return worst


# class of the known finding `exact-integral-cancelling-currents`: pattern maximum below this fraction of the sum of the
# moment magnitudes.  The per-pulse difference between exact integral and point moment is at most (k d)^2/24 = 0.51 % of the
# pulse's moment for a straight pulse with equal halves (C10_exact_integral_partial) and first order in k d for bent or
# unequal pulses; over 1070 generated structures the differences added up to at most 0.88 % of the moment sum, so 2 % of the
# pattern maximum is safe only when that maximum is at least 0.0088 / 0.02 = 0.44 of the moment sum.  Observed failures of
# the 2 % clause: ratios 0.07 … 0.26 (small loops, D-shaped loops, a tee).
CANCEL_CLASS = 0.45


def cancellation_ratio(m):
    """pattern maximum of the point-moment sum relative to the sum of the magnitudes of the current moments: 1 for a short
    straight wire seen broadside, small when the far field is what is left after the moments cancel (small closed loops,
    helices and folded structures much shorter than a wavelength)"""
    gm = 0.0
    for th in (10.0, 45.0, 80.0, 90.0) if not m.media else (10.0, 45.0, 80.0):
        for ph in (0.0, 60.0, 200.0):
            gp = point_G(m, th, ph)
            t, p = math.radians(th), math.radians(ph)
            that = np.array([math.cos(t) * math.cos(p), math.cos(t) * math.sin(p), -math.sin(t)])
            phat = np.array([-math.sin(p), math.cos(p), 0.0])
            gm = max(gm, abs(np.dot(gp, that)), abs(np.dot(gp, phat)))
    tot = sum(abs(m.current[pu.idx]) * m.w * sum(float(pu.segs[h].seg_len) / 2 for h in (0, 1) if not pu.ground[h]) for pu in m.pulses)
    tot *= (2 if m.media else 1)
    return float(gm / tot) if tot else 1.0


def integral_bad(m, ant):
    """the 2 % clause inside its domain (every segment at most 1/18 wavelength); (text or None, deviation or None)"""
    if max(float(sg.seg_len) for g in m.geo for sg in g.segments) > ant['lam'] / 18 * 1.001:
        return None, None
    w = integral_clause(m)
    if w > 0.02:
        return 'point-moment sum deviates %.3g of the pattern maximum from the exact integral' % w, w
    return None, w


def replay(rp):
    if 'ant' not in rp:
        print('replay: nothing to execute:', rp.get('kind'))
        return 1
    rng = random.Random(rp['src_seed'])
    m = antgen.build(rp['ant'])
    antgen.pick_sources(rng, m)
    m.compute()
    ibad = integral_bad(m, rp['ant'])[0]
    if ibad and cancellation_ratio(m) < CANCEL_CLASS:
        print('replay: in the known-finding class exact-integral-cancelling-currents:', ibad)
        ibad = None
    bad = property_on_impl(m) or ibad or big_request_clause(m)
    print('replay ->', bad or 'property holds')
    return 1 if bad else 0


def run(ck):
    ck.proof_side()
    ck.cov['further_clauses'] = 'curved kinds cycled (every kind at least twice per quick run)'
    d = ck.get_driver()
    rng = ck.rng
    n = 60 if ck.tier == 'quick' else 800
    dis, viol = [], []
    worst_int = 0.0
    import c04
    cg = c04.curved_on_ground()        # arcs standing on an ideal ground plane (ends on it, inner segment ends touching it)
    for i in range(n + len(cg)):
        big = (i == 3) or (i % 100 == 53)
        ant = cg[i - n] if i >= n else long_wire(rng) if big else antgen.gen_curved(rng, antgen.CURVED_KINDS[(i // 6) % 5]) if i % 6 == 4 else \
            antgen.gen_antenna(rng, max_pulses=18 if ck.tier == 'quick' else 60)
        m = antgen.build(ant)
        ss = rng.randrange(10 ** 9)
        antgen.pick_sources(random.Random(ss), m)
        m.compute()
        if not np.isfinite(m.current).all():
            continue
        ck.case((ant['family'], ant['ground'], len(m.pulses)), True,
                sample=dict(family=ant['family'], ground=ant['ground'], pulses=len(m.pulses)))
        ck.count('env_' + ('ideal' if ant['ground'] else 'free'))
        if any(p.ground.any() for p in m.pulses):
            ck.count('with_grounded_pulse')
        why, mx = farlib.compare(d, m, THETAS, PHIS)
        if why:
            dis.append(dict(ant=ant, src_seed=ss, why=why))
            continue
        bad = property_on_impl(m)
        if not bad and (i < 8 or i % 10 == 3):
            bad = big_request_clause(m)
            ck.count('big_request_cases')
        if bad:
            viol.append(dict(kind='far', ant=ant, src_seed=ss, observed=bad))
        ib, w = integral_bad(m, ant)
        if w is not None:
            ck.count('integral_clause_cases')
            if cancellation_ratio(m) < CANCEL_CLASS:
                # known finding: the far field of this structure is the small remainder of cancelling moments
                ck.count('integral_clause_cancelling_class')
                if ib:
                    ck.report_known('exact-integral-cancelling-currents',
                                    'exact-integral-cancelling-currents: %s (%s, pattern maximum %.2f of the moment sum)' % (ib, ant['family'], cancellation_ratio(m)))
                ib = None
            else:
                worst_int = max(worst_int, w)
        if ib:
            viol.append(dict(kind='far', ant=ant, src_seed=ss, observed=ib))
    ck.stats['disagreements'] = len(dis)
    ck.stats['worst_exact_integral_deviation'] = worst_int
    ck.cov['rule'] = ('antennas from the shared generator (10 families, free space and ideal ground), 1-3 complex sources, 5 zenith x 6 '
                      'azimuth angles incl. 0, 90, +-360 shifts; compared: e_theta, e_phi, three gains at 1e-9 of the maximum; '
                      'distinct = distinct (family, ground, pulses); one structure of 130-170 pulses; for the first cases a request of 2001-40001 zenith angles '
                      '(> 1.3e6 direction x pulse terms) whose rows must equal those of a small request')
    ck.assumptions += ['np.e ** (-1j x) vs cos/sin, complex sqrt/division of numpy vs the model differ in the last bits (rtol 1e-9)',
                       'the 2 % exact-integral clause is sampled (closed-form sinc integral in the harness), not proved']
    seen = set()
    for v in viol:
        k = v['observed'][:40]
        if k not in seen:
            seen.add(k)
            ck.violation(v)
    if (dis or ck.broken) and not viol:
        found = False
        for dg in dis[:20]:
            m = antgen.build(dg['ant']); antgen.pick_sources(random.Random(dg['src_seed']), m); m.compute()
            bad = property_on_impl(m)
            if bad:
                ck.violation(dict(kind='far', ant=dg['ant'], src_seed=dg['src_seed'], observed=bad, disagreement=dg['why']))
                found = True
                break
        if not found:
            ck.violation(dict(kind='broken-tie', detail=dict(broken=ck.broken, disagreements=[x['why'] for x in dis[:3]]),
                              theorem='Pmn.Props.C10.* / correspondence far run'), found_input=False)
