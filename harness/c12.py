"""C12 — number and placement of current unknowns follow from the wire topology.

Proof side : Pmn/Props/C12.lean (count formula, numbering, ownership, junction/ground pulses,
             joining rule, dup-error branch) for every object list.
Tie        : pulse table (objects joined, direction signs, grounded half, owner), per-object
             pulse lists, end_segs, ground flags — implementation vs Lean `Topo.build ∘ matchAll`,
             on random wire graphs incl. end points perturbed around the matching tolerance.
Search     : count formula / gap-free numbering evaluated on the implementation.
"""
import math, json
import numpy as np
import topo
from common import f2b

LEVEL = 'proof'
MODULES = ['C12', 'C12b']
FIELDS = ('g0', 'g1', 'es0', 'es1', 'pulses')


def cluster_count(obs):
    """Σ over junctions (k-1): single-linkage clusters of non-grounded ends within tolerance"""
    tol = obs['min_seglen'] * 1e-3
    pts = []
    for o in obs['objs']:
        for e in (0, 1):
            if not o['g%d' % e]:
                pts.append(o['p%d' % e])
    parent = list(range(len(pts)))

    def find(i):
        while parent[i] != i:
            parent[i] = parent[parent[i]]
            i = parent[i]
        return i
    amb = False
    for i in range(len(pts)):
        for j in range(i):
            dd = math.dist(pts[i], pts[j])
            if dd <= tol:
                parent[find(i)] = find(j)
            elif dd <= 2 * tol:
                amb = True      # not a separated point set: "closer than tol" is not transitive here
    k = len(pts) - len(set(find(i) for i in range(len(pts))))
    return k, amb


def joining(obs):
    """'joined exactly when closer than the tolerance', judged pair by pair on isolated pairs of ends"""
    tol = obs['min_seglen'] * 1e-3
    ends = []
    for k, o in enumerate(obs['objs']):
        for e in (0, 1):
            if not o['g%d' % e]:
                ends.append((k, e, o['p%d' % e]))
    # groups as the implementation joined them: registering end + everything in its conn list
    group = {}
    for k, o in enumerate(obs['objs']):
        for e in (0, 1):
            for (g, ow, ix, sgn) in o['conn%d' % e]:
                if g == ow:                     # entry of a registering end: (ow, ix) attaches to (k, e)
                    group[(ow, ix)] = (k, e)
    def rep(x):
        return group.get(x, x)
    for i in range(len(ends)):
        for j in range(i):
            a, b = ends[i], ends[j]
            if a[0] == b[0]:
                continue
            dd = math.dist(a[2], b[2])
            # isolated pair: no third end within 2 tol of either
            others = [c for c in ends if c is not a and c is not b and (math.dist(c[2], a[2]) <= 2 * tol or math.dist(c[2], b[2]) <= 2 * tol)]
            if others:
                continue
            joined = rep((a[0], a[1])) == rep((b[0], b[1]))
            if joined and dd > tol * (1 + 1e-9):
                return 'ends %r and %r are joined although %.3g tolerances apart' % ((a[0], a[1]), (b[0], b[1]), dd / tol)
            if not joined and dd < tol * (1 - 1e-9):
                return 'ends %r and %r are not joined although only %.3g tolerances apart' % ((a[0], a[1]), (b[0], b[1]), dd / tol)
    return None


def property_on_impl(obs):
    """the property as worded, on what the implementation built (None = holds / not decidable)"""
    mi = obs.get('min_seglen_impl')
    if mi is not None and abs(mi - obs['min_seglen']) > 1e-9 * obs['min_seglen']:
        return ('the joining tolerance is taken from a segment of length %.6g, the shortest segment of the structure is %.6g'
                % (mi, obs['min_seglen']))
    jn = joining(obs)
    if jn:
        return jn
    N = len(obs['pulses'])
    k, amb = cluster_count(obs)
    if amb:
        return None
    # wire ends lying on the ground plane, from the segment table (not from the implementation's flags): |z| below the
    # joining tolerance; an end within 10 % of the tolerance is not decidable
    tol = 1e-3 * obs['min_seglen']
    ng = 0
    if obs.get('ground'):
        for o in obs['objs']:
            for e, flag in (('p0', 'g0'), ('p1', 'g1')):
                z = abs(o[e][2])
                if 0.9 * tol < z < 1.1 * tol:
                    return None
                on = z < tol
                if on != bool(o[flag]):
                    return ('object %d: end %s at height %.3g (tolerance %.3g) is %streated as lying on the ground plane'
                            % (o['tag'], e[1:], o[e][2], tol, '' if o[flag] else 'not '))
                ng += int(on)
    want = sum(o['nseg'] - 1 for o in obs['objs']) + ng + k
    if N != want:
        return 'pulse count %d, formula gives %d' % (N, want)
    flat = [i for o in obs['objs'] for i in o['pulses']]
    if flat != list(range(N)):
        return 'pulse numbering in object order is %r' % (flat,)
    return None


def curved_cases():
    """closed and open structures of arcs, helices and wires (two-object loops included)"""
    from mininec.mininec import Mininec, Wire, Arc, Helix
    R = 1.0
    out = []

    def A(n, a1, a2):
        return Arc(n, R, a1, a2, 0.002)

    def W(n, p, q):
        return Wire(n, *p, *q, 0.002)
    # arcs lie in the x-z plane: angle a -> (R cos a, 0, R sin a)
    E0, E180 = (R, 0.0, 0.0), (-R, 0.0, 0.0)
    out.append(('half arc + diameter', lambda: [A(6, 0, 180), W(4, E0, E180)]))
    out.append(('diameter + half arc', lambda: [W(4, E0, E180), A(6, 0, 180)]))
    out.append(('half arc + reversed diameter', lambda: [A(6, 0, 180), W(4, E180, E0)]))
    out.append(('two half arcs', lambda: [A(5, 0, 180), A(7, 180, 360)]))
    out.append(('two half arcs, second backwards', lambda: [A(5, 0, 180), A(7, 0, -180)]))
    out.append(('arc + two wires (triangle-like loop)', lambda: [A(6, 0, 180), W(3, E0, (0.0, 0.0, -1.0)), W(3, (0.0, 0.0, -1.0), E180)]))
    out.append(('open: arc + tail', lambda: [A(6, 0, 180), W(3, E180, (-2.0, 0.0, 0.5))]))
    out.append(('full circle', lambda: [A(12, 0, 360)]))
    # the same circle drawn the other way round, from other start angles, and a hair short of a full turn (the two ends a
    # fifth of the joining tolerance apart)
    out.append(('full circle backwards 360..0', lambda: [A(12, 360, 0)]))
    out.append(('full circle 0..-360', lambda: [A(9, 0, -360)]))
    out.append(('full circle 90..-270 + wire beside it', lambda: [W(4, (3.0, 0.0, -1.0), (3.0, 0.5, 1.0)), A(10, 90, -270)]))
    out.append(('full circle 37.3..397.3', lambda: [A(11, 37.3, 397.3)]))
    out.append(('circle a hair short of a full turn', lambda: [A(12, 0, 360 - 0.0057)]))
    # a loop closed on itself that is not the first object with pulses (its own pulse numbers differ from the global ones)
    out.append(('wire beside it + full circle', lambda: [W(5, (3.0, 0.0, -1.0), (3.0, 0.0, 1.0)), A(12, 0, 360)]))
    out.append(('two coaxial full circles', lambda: [A(9, 0, 360), Arc(11, 2 * R, 0, 360, 0.002)]))
    out.append(('full circle + spoke ending on it + wire beside', lambda: [W(4, (3.0, 0.0, 0.0), (3.0, 1.0, 1.0)), A(12, 0, 360), W(3, (0.0, 0.0, 0.0), E0)]))
    out.append(('quarter arcs x4', lambda: [A(3, 0, 90), A(3, 90, 180), A(4, 180, 270), A(3, 270, 360)]))

    def helix_loop():
        h = Helix(10, 1.0, 0.5, 0.002, 0.3, 0.3)
        m0 = Mininec(10.0, [h])
        g = m0.geo[0]
        a, b = [float(x) for x in g.endpoints[0]], [float(x) for x in g.endpoints[1]]
        return [Helix(10, 1.0, 0.5, 0.002, 0.3, 0.3), W(4, b, a)]
    out.append(('helix + return wire', helix_loop))

    def cone(narrow_end, gap):
        # a helix whose radius shrinks (or grows) along its length: its segments are not equally long; a wire
        # starts `gap` joining tolerances from one of its ends
        args = (10, 1.0, 0.5, 0.002, 0.6, 0.6, 0.1, 0.1) if narrow_end == 1 else (10, 1.0, 0.5, 0.002, 0.1, 0.1, 0.6, 0.6)
        m0 = Mininec(10.0, [Helix(*args)])
        g = m0.geo[0]
        tol = 1e-3 * min(math.dist([float(x) for x in sg.p1], [float(x) for x in sg.p2]) for sg in g.segments)
        e = [float(x) for x in g.endpoints[1]]
        q = (e[0] + gap * tol, e[1], e[2])
        return [Helix(*args), W(3, q, (q[0] + 0.5, q[1] + 0.2, q[2] + 0.4))]
    for ne in (0, 1):
        for gap in (0.5, 3.0):
            out.append(('conical helix (narrow end %d) + wire %.1f tolerances from its second end' % (ne + 1, gap),
                        lambda ne=ne, gap=gap: cone(ne, gap)))
    # over a ground plane (name starts with 'ground:'): curved objects standing on it with one or both ends
    TOP = (0.0, 0.0, R)
    out.append(('ground: half loop standing on the plane', lambda: [A(10, 0, 180)]))
    out.append(('ground: half loop, other direction', lambda: [A(7, 180, 0)]))
    out.append(('ground: quarter arc from the plane + wire down to the plane', lambda: [A(5, 0, 90), W(4, TOP, (0.0, 0.0, 0.0))]))
    out.append(('ground: quarter arc ending on the plane + tail', lambda: [A(5, 90, 180), W(3, TOP, (0.5, 0.3, 1.4))]))
    out.append(('ground: two quarter arcs (half loop of two objects)', lambda: [A(4, 0, 90), A(5, 90, 180)]))
    out.append(('ground: half loop + vertical wire beside it', lambda: [W(4, (2.0, 0.0, 0.0), (2.0, 0.0, 1.5)), A(8, 0, 180)]))
    out.append(('ground: lifted half loop (no grounded end)', lambda: [Arc(8, R, 10, 170, 0.002)]))
    out.append(('ground: helix standing on the plane', lambda: [Helix(10, 1.0, 0.5, 0.002, 0.3, 0.3)]))
    return out


def build_curved(name, mk):
    from mininec.mininec import Mininec, ideal_ground
    return Mininec(10.0, mk(), media=[ideal_ground] if name.startswith('ground:') else None)


def minseg_tie(d, m):
    """`Mininec.min_seglen` vs the model's `minSegLen` on the implementation's own segment lengths (1e-12 relative)"""
    toks = ['topo minseg', len(m.geo)]
    for g in m.geo:
        toks.append(len(g.segments))
        toks += [f2b(float(sg.seg_len)) for sg in g.segments]
    ans = d.ask(*toks)
    from common import b2f
    # a wire tapered from both ends reports its first segment, which equals its last one up to rounding: 1e-12
    if abs(b2f(ans.strip()) - float(m.min_seglen)) > 1e-12 * float(m.min_seglen):
        return 'shortest segment: implementation %r, model %r' % (float(m.min_seglen), b2f(ans.strip()))
    return None


def moved_cases(rng):
    """structures whose final geometry comes out of the transformation options: a wire written somewhere else and moved
    onto the end of another one by a per-object translation / rotation, or written touching and moved away; judged on the
    final geometry (segment tables) alone"""
    out = []
    g = lambda v: ','.join('%.17g' % x for x in v)
    for k in range(8):
        h = rng.choice([2.0, 5.0])
        d = [rng.choice([1.0, -2.0, 0.5, 3.0]) for _ in range(3)]
        kind = rng.choice(['join', 'leave', 'join-star', 'rotate-join'])
        a = ['-w', '1,3,0,0,0,0,0,%g,.001' % h]
        if kind == 'join':
            w2 = [d[0], d[1], h + d[2], d[0] + 1.0, d[1], 2 * h + d[2]]
            argv = a + ['-w', '2,4,%s,.001' % g(w2), '--geo-translate=1,%s,2' % g([-d[0], -d[1], -d[2]])]
        elif kind == 'leave':
            w2 = [0, 0, h, 1.0, 0.5, 2 * h]
            argv = a + ['-w', '2,4,%s,.001' % g(w2), '--geo-translate=1,%s,2' % g(d)]
        elif kind == 'join-star':
            w2 = [d[0], d[1], h + d[2], d[0] + 1.0, d[1], 2 * h + d[2]]
            w3 = [0, 0, h, -1.0, 1.0, h + 1.0]
            argv = a + ['-w', '2,4,%s,.001' % g(w2), '-w', '3,2,%s,.001' % g(w3), '--geo-translate=1,%s,2' % g([-d[0], -d[1], -d[2]])]
        else:
            # wire 2 along x from the origin's top, written rotated by a quarter turn and turned back
            w2 = [0, 0, h, 0.0, 2.0, h]
            argv = a + ['-w', '2,4,%s,.001' % g(w2), '--geo-rotate=1,0,0,90,2']
        out.append((kind, ['-f', '10', '--excitation-pulse=1'] + argv))
    return out


def tapered_cases(rng):
    """a tapered wire (from end 1, from end 2, from both ends) and a second wire that starts 0.5 or 3 joining
    tolerances from one of its ends: the tolerance is 1/1000 of the *shortest* segment, wherever that segment is"""
    from mininec.mininec import Mininec, Wire
    out = []
    for segtype in (1, 2, 3):
        for end in (0, 1):
            for gap in (0.5, 3.0):
                n = rng.randint(5, 8)
                L = rng.uniform(3.0, 12.0)
                r = L / n / rng.choice([200, 500])
                p0, p1 = (0.5, -0.25, 1.0), (0.5, -0.25, 1.0 + L)

                def mk(segtype=segtype, end=end, gap=gap, n=n, r=r, p0=p0, p1=p1):
                    a = Wire(n, *p0, *p1, r)
                    a.segtype = segtype
                    m0 = Mininec(10.0, [a])
                    tol = 1e-3 * min(math.dist([float(x) for x in sg.p1], [float(x) for x in sg.p2]) for sg in m0.geo[0].segments)
                    e = p0 if end == 0 else p1
                    q = (e[0] + gap * tol, e[1], e[2])
                    a2 = Wire(n, *p0, *p1, r)
                    a2.segtype = segtype
                    return [a2, Wire(3, *q, q[0] + 2.0, q[1] + 0.5, q[2], r)]
                out.append(('taper type %d, second wire %.1f tolerances from end %d' % (segtype, gap, end + 1), mk))
    return out


def arc_bad(n, a1, a2):
    from mininec.mininec import Mininec, Arc
    m = Mininec(10.0, [Arc(n, 1.0, a1, a2, 0.0005)])
    g = m.geo[0]
    lens = [float(np.linalg.norm(np.asarray(sg.p2) - np.asarray(sg.p1))) for sg in g.segments]
    chord = 2.0 * math.sin(math.radians(abs(a2 - a1)) / n / 2)
    if len(lens) != n or max(abs(x - chord) for x in lens) > 1e-9:
        return ('arc of %d segments from %g to %g degrees has %d segments with lengths between %.3g and %.3g (chord %.6g)'
                % (n, a1, a2, len(lens), min(lens), max(lens), chord))
    return topo.pulse_geometry_bad(m) or property_on_impl(topo.observe_impl(m))


def replay(rp):
    if rp.get('kind') == 'arc-sweep':
        bad = arc_bad(*rp['arc'])
        print('replay arc', rp['arc'], '->', bad or 'property holds')
        return 1 if bad else 0
    if rp.get('kind') == 'moved':
        from common import run_main
        mm = run_main(rp['argv'], want_mininec=True)['m']
        bad = topo.pulse_geometry_bad(mm) or property_on_impl(topo.observe_impl(mm))
        print('replay', rp['argv'], '->', bad or 'property holds')
        return 1 if bad else 0
    if rp.get('kind') == 'tapered':
        import random
        from mininec.mininec import Mininec
        mk = dict(tapered_cases(random.Random(rp['rng_seed'])))[rp['name']]
        m = Mininec(10.0, mk())
        bad = topo.pulse_geometry_bad(m) or property_on_impl(topo.observe_impl(m))
        print('replay', rp['name'], '->', bad or 'property holds')
        return 1 if bad else 0
    if rp.get('kind') == 'curved':
        from mininec.mininec import Mininec
        mk = dict(curved_cases())[rp['name']]
        m = build_curved(rp['name'], mk)
        bad = topo.pulse_geometry_bad(m) or property_on_impl(topo.observe_impl(m))
        print('replay', rp['name'], '->', bad or 'property holds')
        return 1 if bad else 0
    spec = rp.get('spec')
    if not spec:
        print('replay: nothing to execute:', rp.get('kind'))
        return 1
    m = topo.build_impl(spec)
    bad = topo.pulse_geometry_bad(m) or property_on_impl(topo.observe_impl(m))
    print('replay', json.dumps(spec)[:200], '->', bad or 'property holds')
    return 1 if bad else 0


def run(ck):
    ck.proof_side()
    ck.cov['further_clauses'] = 'arc sweep: user-like and random angle pairs with 3-64 segments (segment count, equal chords, pulse placement, pulse count)'
    d = ck.get_driver()
    n = 1500 if ck.tier == 'quick' else 20000
    dis = []
    for i in range(n):
        spec = topo.gen_structure(ck.rng, max_wires=7 if ck.tier == 'quick' else 10)
        m, obs, r = topo.run_case(d, spec)
        if m is None:
            ck.count('impl_rejected')
            continue
        ck.case(topo.shape_key(spec, obs), len(obs['objs']) > 1,
                sample=dict(wires=[(w['nseg'], w['p0'], w['p1']) for w in spec['wires']], ground=spec['ground'], pulses=len(obs['pulses'])))
        for k, v in topo.junction_stats(obs).items():
            ck.count(k, v)
        ck.count('fuzzed' if spec['fuzz'] else 'exact')
        ck.count('ground' if spec['ground'] else 'free')
        if i % 10 == 0:
            wm = minseg_tie(d, m)
            if wm:
                dis.append(dict(spec=spec, why=wm))
        gb = topo.pulse_geometry_bad(m)
        if gb:
            ck.violation(dict(kind='topology', spec=spec, observed=gb))
            return
        why = None
        if r['status'] != 'ok':
            why = 'model status ' + r['status']
        elif r['pulses'] != obs['pulses']:
            why = 'pulse table'
        else:
            for a, b in zip(r['objs'], obs['objs']):
                for f in FIELDS:
                    if a[f] != b[f]:
                        why = 'object field ' + f
        if why:
            dis.append(dict(spec=spec, why=why))
    from mininec.mininec import Mininec
    for name, mk in curved_cases():
        try:
            m = build_curved(name, mk)
        except Exception as e:
            ck.violation(dict(kind='curved', name=name, observed='structure rejected: %s: %s' % (type(e).__name__, e)))
            return
        obs = topo.observe_impl(m)
        why = minseg_tie(d, m)
        if why:
            dis.append(dict(spec=dict(curved=name), why=why))
        ck.case(('curved', name), True)
        bad = topo.pulse_geometry_bad(m) or property_on_impl(obs)
        if bad:
            ck.violation(dict(kind='curved', name=name, observed=bad))
            return
    # open and closed arcs of many angle pairs and segment counts: the count follows the *requested* number of segments
    # (every object has exactly that many segments of non-zero length, an open arc n − 1 pulses, a full circle n)
    from mininec.mininec import Arc
    rng = ck.rng
    grid = [x for st in (5, 15, 30, 45) for x in range(-360, 721, st)]
    for j in range(500 if ck.tier == 'quick' else 6000):
        a1 = rng.choice(grid) if j % 4 else round(rng.uniform(-360, 360), rng.choice([0, 1, 3]))
        span = rng.choice([30, 45, 60, 90, 120, 135, 150, 180, 210, 240, 270, 300, 330, 359, 360]) if j % 5 else round(rng.uniform(5, 360), 2)
        a2 = a1 + span * rng.choice([1, -1])
        n = rng.randint(3, 64)
        try:
            bad = arc_bad(n, a1, a2)
        except Exception as e:
            if isinstance(e, ValueError) and abs(a2 - a1) > 360.0:        # a hair more than a full circle in floating point
                ck.count('arc_sweep_rejected_over_full_circle')
                continue
            ck.violation(dict(kind='arc-sweep', arc=[n, a1, a2], observed='arc rejected: %s: %s' % (type(e).__name__, e)))
            return
        ck.count('arc_sweep')
        if j % 25 == 0:
            ck.case(('arc-sweep', n, a1, a2), True)
        if bad:
            ck.violation(dict(kind='arc-sweep', arc=[n, a1, a2], observed=bad))
            return
    from common import run_main
    for kind, argv in moved_cases(ck.rng):
        r = run_main(argv, want_mininec=True)
        if r['m'] is None:
            ck.count('moved_rejected')
            continue
        mm = r['m']
        ck.case(('moved', kind, tuple(argv)), True)
        ck.count('moved_cases')
        bad = topo.pulse_geometry_bad(mm) or property_on_impl(topo.observe_impl(mm))
        if bad:
            ck.violation(dict(kind='moved', argv=argv, observed=bad))
            return
    import random
    tseed = ck.rng.randrange(10 ** 9)
    for name, mk in tapered_cases(random.Random(tseed)):
        try:
            m = Mininec(10.0, mk())
        except Exception as e:
            ck.violation(dict(kind='tapered', name=name, rng_seed=tseed, observed='structure rejected: %s: %s' % (type(e).__name__, e)))
            return
        ck.case(('tapered', name), True)
        why = minseg_tie(d, m)
        if why:
            dis.append(dict(spec=dict(tapered=name), why=why))
        bad = topo.pulse_geometry_bad(m) or property_on_impl(topo.observe_impl(m))
        if bad:
            ck.violation(dict(kind='tapered', name=name, rng_seed=tseed, observed=bad))
            return
    ck.stats['disagreements'] = len(dis)
    ck.cov['rule'] = ('random wire graphs on a small grid (chains, stars, loops, several components, 1-4 segments per wire, '
                      'either direction, +-ground, end points perturbed by 0.2..5 x tolerance in 30% of the cases); compared: '
                      'pulse table, per-object pulse lists, end_segs, ground flags; non-trivial = more than one wire; '
                      'distinct = distinct (ground, tag mode, per-object segment/ground/attachment pattern)')
    ck.assumptions += ['np.linalg.norm of a 3-vector equals sqrt(x^2+y^2+z^2) bit for bit (used at the tolerance boundary)',
                       'geometry (segment end points) is upstream data here; segmentation itself is C13']
    if dis or ck.broken:
        found = False
        for dg in dis[:50]:
            if 'wires' not in dg['spec']:
                continue
            m = topo.build_impl(dg['spec'])
            bad = property_on_impl(topo.observe_impl(m))
            if bad:
                ck.violation(dict(kind='topology', spec=dg['spec'], observed=bad, disagreement=dg['why']))
                found = True
                break
        if not found:
            for i in range(300):
                spec = topo.gen_structure(ck.rng)
                try:
                    bad = property_on_impl(topo.observe_impl(topo.build_impl(spec)))
                except Exception:
                    continue
                if bad:
                    ck.violation(dict(kind='topology', spec=spec, observed=bad))
                    found = True
                    break
        if not found:
            ck.violation(dict(kind='broken-tie', detail=dict(broken=ck.broken, disagreements=[(x['why'], x['spec']) for x in dis[:3]]),
                              theorem='Pmn.Props.C12.* / correspondence topo full (pulse table)'), found_input=False)
