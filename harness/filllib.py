"""matrix-fill tie shared by C02/C03/C05/C06: request for the Lean `Fill.entry` model"""
import numpy as np
from common import f2b, b2f


def request(m, pairs, spec=False):
    from mininec.mininec import legendre_cache
    t = ['fill entries', 1 if spec else 0, f2b(m.w), f2b(m.wavelen), 1 if m.media is not None else 0]
    for n in (2, 4, 8):
        x, w = legendre_cache[n]
        t.append(len(x))
        for a, b in zip(x, w):
            t += [f2b(a), f2b(b)]
    t.append(len(m.pulses))
    rad = m.pulses.radius
    for p in m.pulses:
        t += [p.idx] + [f2b(x) for x in p.point]
        for h in (0, 1):
            s = p.segs[h]
            t += [f2b(s.seg_len)] + [f2b(x) for x in s.dirvec] + [f2b(rad[p.idx][h]), f2b(s.i6)] + \
                 [f2b(x) for x in p.ends[h]] + [f2b(p.sign[h]), f2b(p.dir_sgn[h]), f2b(p.gnd_sgn[h]), int(bool(p.ground[h]))]
        plain = (p.geo[0] == p.geo[1]) and bool((p.segs[0].dirvec == p.segs[1].dirvec).all()) and (p.segs[0].seg_len == p.segs[1].seg_len)
        t += [p.geobj.n, int(plain), p.geo[0].n, int(bool(p.is_non_vertical_grounded))]
    t.append(len(pairs))
    for i, j in pairs:
        xct = m.pulses[i].geobj.is_connected(m.pulses[j].geobj)
        t += [i, j, 1 if xct else 0]
    return t


def model_entries(d, m, pairs, spec=False):
    """-> list of (z_algo, scale, z_spec, z_direct_pass) for the requested (i, j) pairs"""
    ans = d.ask(*request(m, pairs, spec))
    v = [b2f(x) for x in ans.split()]
    return [(complex(v[k], v[k + 1]), v[k + 2], complex(v[k + 3], v[k + 4]), complex(v[k + 5], v[k + 6])) for k in range(0, len(v), 7)]


def near_threshold(m, i, j):
    """is any distance ratio t = (d0 + d3) / seg_len of the psi calls of entry (i, j) within 1e-9 of a
    Gauss-order / exact-kernel threshold (6, 10, 1.1)?  There the float comparison may go either way."""
    pi, pj = m.pulses[i], m.pulses[j]
    ks = [1] if m.media is None else [1, -1]
    for k in ks:
        kv = np.array([1, 1, k])
        for h in (0, 1):
            sl = pj.segs[h].seg_len
            hp = pj.endseg(.5 if h else -.5) * kv
            fe = np.array(pj.ends[h]) * kv
            pp = np.array(pj.point) * kv
            for obs in (np.array(pi.point), pi.endseg(.5), pi.endseg(-.5)):
                for a, b in ((pp, hp), (pp, fe)):
                    t = (np.linalg.norm(a - obs) + np.linalg.norm(b - obs)) / sl
                    for c in (6.0, 10.0, 1.1):
                        if abs(t - c) <= 1e-9 * c:
                            return True
    return False


def shortcut_class(m, i, j):
    """True if the implementation may have copied this entry from a symmetric position
    (both pulses interior pulses of one equally segmented straight object)"""
    pi, pj = m.pulses[i], m.pulses[j]
    def plain(p):
        return (p.geo[0] is p.geo[1] and p.segs[0].seg_len == p.segs[1].seg_len
                and (p.segs[0].dirvec == p.segs[1].dirvec).all() and not p.ground.any())
    return plain(pi) and plain(pj) and pi.geo[0] is pj.geo[0] and pi.segs[0].seg_len == pj.segs[0].seg_len


def source_pair(m, i, j):
    """the pulse pair whose value the implementation stores at (i, j): inside one plain object the
    upper-triangle entry of each diagonal is computed once (first pair) and copied, the lower triangle
    mirrors the upper one"""
    if not shortcut_class(m, i, j):
        return (i, j)
    if i > j:
        i, j = j, i
    dlt = j - i
    pi = m.pulses[i]
    N = len(m.pulses)

    def ok(a):
        b = a + dlt
        if b >= N:
            return False
        pa, pb = m.pulses[a], m.pulses[b]
        if not shortcut_class(m, a, b):
            return False
        if pa.geo[0].n != pi.geo[0].n:
            return False
        if pa.is_non_vertical_grounded or pb.is_non_vertical_grounded:
            return False
        return True
    for a in range(N):
        if ok(a):
            return (a, a + dlt)
    return (i, j)
