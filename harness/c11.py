"""C11 — real ground changes only the far field, consistently with its limits.

Proof side : Pmn/Props/C11.lean — medium lookup invariant under splitting a medium and under
             appending a medium beyond all reflection points; the real-ground image term with zero
             surface impedance is the ideal image term; |Z_surface|^2 = 1/sqrt(eps^2+(sigma/t)^2) -> 0.
Tie        : (i) non-interference on the implementation: Z, rhs, currents, near field bit-identical
             for random media lists over the same antenna, plus an AST scan of every use of
             `self.media` in the compute path; (ii) far field over 1-4 media, linear and circular,
             with and without radials vs the Lean model driven by the implementation's currents;
             (iii) Medium.impedance vs Lean `surfaceZ`.
Search     : ideal vs sigma = 1e12, split media, appended medium — on the implementation.
"""
import ast, os, random, math
import numpy as np
import antgen, farlib
from common import f2b, b2f, REPO

LEVEL = 'proof'
MODULES = ['C11']
THETAS = [0.0, 20.0, 45.0, 70.0, 85.0]
PHIS = [0.0, 40.0, 180.0, 275.0]
COMPUTE_PATH = ['compute', 'compute_impedance_matrix', 'compute_impedance_matrix_loads', 'compute_rhs',
                'compute_currents', 'image_iter', 'compute_near_field', 'nf_helper', 'psi', 'psi_near_field_56',
                'psi_near_field_66', 'psi_near_field_75', 'scalar_potential', 'vector_potential', 'fast_quad',
                'integral_i2_i3']


def media_uses():
    """every use of `.media` in the compute path: (function, line, classification)"""
    tree = ast.parse(open(os.path.join(REPO, 'mininec/mininec.py')).read())
    out = []
    cls = [n for n in tree.body if isinstance(n, ast.ClassDef) and n.name == 'Mininec']
    if not cls:
        return [('?', 0, 'class Mininec not found')]
    for fn in cls[0].body:
        if not isinstance(fn, ast.FunctionDef) or fn.name not in COMPUTE_PATH:
            continue
        parents = {}
        for n in ast.walk(fn):
            for c in ast.iter_child_nodes(n):
                parents[c] = n
        for n in ast.walk(fn):
            if isinstance(n, ast.Attribute) and n.attr == 'media':
                p = parents.get(n)
                kind = 'other'
                if isinstance(p, ast.Compare) and len(p.ops) == 1 and isinstance(p.ops[0], (ast.Is, ast.IsNot)) \
                        and isinstance(p.comparators[0], ast.Constant) and p.comparators[0].value is None:
                    kind = 'is-none-test'
                elif isinstance(p, (ast.If, ast.IfExp, ast.While)) and p.test is n:
                    kind = 'truth-test'
                elif isinstance(p, ast.UnaryOp) and isinstance(p.op, ast.Not):
                    kind = 'truth-test'
                elif isinstance(p, ast.BoolOp):
                    kind = 'truth-test'
                out.append((fn.name, n.lineno, kind))
    return out


def gen_media(rng, n=None, radials=None):
    from mininec.mininec import Medium
    n = n or rng.randint(1, 4)
    circ = rng.random() < 0.5
    radials = (rng.random() < 0.3) if radials is None else radials
    if n == 1:
        radials = False
    ms = []
    c = rng.uniform(2, 15)
    for i in range(n):
        kw = dict(height=0 if i == 0 else rng.choice([0, -0.5, -2]))
        if i + 1 < n:
            kw['coord'] = c
            c += rng.uniform(3, 20)
        if circ or radials:
            kw['boundary'] = 'circular'
        if i == 0 and radials:
            kw.update(nradials=rng.choice([8, 32]), radius=0.001)
        ms.append(Medium(rng.uniform(1, 80), 10 ** rng.uniform(-4, 1), **kw))
    return ms


def clone_media(ms, **override):
    from mininec.mininec import Medium
    out = []
    for m in ms:
        kw = dict(height=m.height, boundary=m.boundary, coord=m.coord)
        if m.nradials:
            kw.update(nradials=m.nradials, radius=m.radius)
        out.append(Medium(m.permittivity, m.conductivity, **kw))
    return out


def ground_antenna(rng):
    while True:
        ant = antgen.gen_antenna(rng, families=['monopole', 'monopole_top', 'dipole', 'vee', 'array'], max_pulses=14, ground=True)
        if ant['ground']:
            return ant


def solve(ant, media, src_seed, near=False):
    from mininec.mininec import Impedance_Load
    m = antgen.build(ant, media=media)
    r = random.Random(src_seed)
    antgen.pick_sources(r, m)
    # loads (also on grounded pulses): the ground constants must not reach the matrix through them either
    if r.random() < 0.7:
        gp = [p.idx for p in m.pulses if p.ground.any()]
        for k in range(r.randint(1, 2)):
            ld = Impedance_Load(complex(10 ** r.uniform(0, 3), r.choice([0.0, 50.0, -200.0])))
            m.register_load(ld, r.choice(gp) if gp and r.random() < 0.6 else r.randrange(len(m.pulses)))
    m.compute()
    nf = None
    if near:
        L = ant['lam']
        m.compute_near_field([L * .3, L * .2, L * .25], [L * .1, 0.0, L * .1], [2, 1, 2])
        nf = (np.array(m.e_field), np.array(m.h_field))
    return m, nf


def pattern(m):
    r = farlib.impl_far(m, THETAS, PHIS)
    return {k: [10 ** (x / 10) if x > -900 else 0.0 for x in v['db']] for k, v in r.items()}


def property_on_impl(ant, src_seed, rng, n=None, radials=None):
    from mininec.mininec import Medium, ideal_ground
    mi, nfi = solve(ant, [ideal_ground], src_seed, near=True)
    ms = gen_media(rng, n=n, radials=radials)
    mr, nfr = solve(ant, ms, src_seed, near=True)
    if mi.Z.tobytes() != mr.Z.tobytes() or mi.current.tobytes() != mr.current.tobytes() or mi.rhs.tobytes() != mr.rhs.tobytes():
        return 'currents / matrix differ between ideal ground and real ground %r' % [(x.permittivity, x.conductivity) for x in ms]
    if nfi[0].tobytes() != nfr[0].tobytes() or nfi[1].tobytes() != nfr[1].tobytes():
        return 'near field differs between ideal and real ground'
    for a, b in zip(mi.sources, mr.sources):
        if a.impedance != b.impedance:
            return 'feed impedance differs between ideal and real ground'
    pi = pattern(mi)
    mx = max(v[2] for v in pi.values()) or 1e-300
    # sigma -> infinity
    mh, _ = solve(ant, [Medium(rng.uniform(1, 80), 1e12)], src_seed)
    ph = pattern(mh)
    for k in pi:
        if k[0] <= 85.0 and max(abs(a - b) for a, b in zip(pi[k], ph[k])) > 2e-3 * mx:
            return 'pattern over sigma=1e12 differs from ideal ground at theta=%g phi=%g: %r vs %r' % (k[0], k[1], ph[k], pi[k])
    # splitting a medium (not a first medium with radials)
    pr = pattern(mr)
    i = rng.randrange(len(ms))
    if ms[0].nradials and len(ms) >= 2:
        i = rng.randrange(1, len(ms))           # a ground screen: split one of the media beyond it
    us = []
    if not (i == 0 and ms[0].nradials) and len(ms) < 4:
        inner_lo = ms[i - 1].coord if i > 0 else 0.0
        outer = ms[i].coord
        us = [inner_lo + (min(outer, inner_lo + 40) - inner_lo) * rng.uniform(0.2, 0.8)]
        if i == 0 and (len(ms) == 1 or ms[0].boundary == 'linear'):
            us += [0.0, -rng.uniform(0.5, 5.0)]       # a linear boundary may lie at x = 0 exactly or at negative x
    for u in us:
        sp = clone_media(ms)
        first = Medium(ms[i].permittivity, ms[i].conductivity, height=ms[i].height, boundary=ms[i].boundary, coord=u,
                       **(dict(nradials=ms[i].nradials, radius=ms[i].radius) if ms[i].nradials else {}))
        second = Medium(ms[i].permittivity, ms[i].conductivity, height=ms[i].height, boundary=ms[i].boundary, coord=outer)
        for x in (first, second):
            x.boundary = ms[0].boundary if len(ms) > 1 else 'linear'
        sp = sp[:i] + [first, second] + sp[i + 1:]
        if i == 0 and sp[0].height != 0:
            continue
        try:
            msp, _ = solve(ant, sp, src_seed)
        except ValueError:
            continue
        ps = pattern(msp)
        for k in pr:
            if max(abs(a - b) for a, b in zip(pr[k], ps[k])) > 1e-9 * mx:
                return 'pattern changes when medium %d is split at %g: theta=%g phi=%g' % (i + 1, u, k[0], k[1])
    # a further medium far beyond every reflection point
    if len(ms) < 4:
        ap = clone_media(ms)
        # just beyond every reflection point of the requested directions (computed from the geometry:
        # the ray leaving the pulse at height z towards (theta, phi) meets the ground t4 = z tan(theta) away)
        circ = (ms[0].boundary != 'linear') and len(ms) > 1
        far = 0.0
        for pu in mr.pulses:
            x, y, z = (float(v) for v in pu.point)
            for th in THETAS:
                if th >= 89:
                    continue
                t4 = z * math.tan(math.radians(th))
                for ph in PHIS:
                    bx = x + t4 * math.cos(math.radians(ph)); by = y + t4 * math.sin(math.radians(ph))
                    far = max(far, math.hypot(bx, by) if circ else bx)
        prev = ms[-2].coord if len(ms) > 1 else 0.0
        far = max(far * 1.02 + 1e-6, prev + 1.0)
        last = ap[-1]
        ap[-1] = Medium(last.permittivity, last.conductivity, height=last.height, boundary=ms[0].boundary if len(ms) > 1 else 'linear', coord=far,
                        **(dict(nradials=last.nradials, radius=last.radius) if last.nradials else {}))
        ap.append(Medium(3.0, 0.001, height=-1, boundary=ap[-1].boundary))
        try:
            mapd, _ = solve(ant, ap, src_seed)
            pa = pattern(mapd)
            if len(ms) == 1 and ap[0].boundary != ms[0].boundary:
                pass
            else:
                for k in pr:
                    if k[0] < 89 and max(abs(a - b) for a, b in zip(pr[k], pa[k])) > 1e-9 * mx:
                        return 'pattern changes when a medium is added beyond every reflection point: theta=%g phi=%g' % k
        except ValueError:
            pass
    return None


def replay(rp):
    if 'ant' not in rp:
        print('replay: nothing to execute:', rp.get('kind'))
        return 1
    bad = property_on_impl(rp['ant'], rp['src_seed'], random.Random(rp['media_seed']), n=rp.get('n'), radials=rp.get('radials'))
    print('replay ->', bad or 'property holds')
    return 1 if bad else 0


def run(ck):
    from mininec.mininec import Medium
    ck.proof_side()
    ck.cov['further_clauses'] = 'a first medium with a linear boundary is also split at x = 0 exactly and at a negative x'
    d = ck.get_driver()
    rng = ck.rng
    dis, viol = [], []
    uses = media_uses()
    ck.stats['media_uses_in_compute_path'] = ['%s:%d:%s' % u for u in uses]
    for fn, line, kind in uses:
        if kind == 'other':
            dis.append(dict(why='self.media is read in %s (line %d) other than as an is-None / truth test' % (fn, line)))
    n = 40 if ck.tier == 'quick' else 500
    for i in range(n):
        ant = ground_antenna(rng)
        ss = rng.randrange(10 ** 9)
        ms_seed = rng.randrange(10 ** 9)
        ms = gen_media(random.Random(ms_seed))
        m, _ = solve(ant, ms, ss)
        ck.case((ant['family'], len(ms), ms[0].boundary, bool(ms[0].nradials), len(m.pulses)), True,
                sample=dict(family=ant['family'], media=[(round(x.permittivity, 2), x.conductivity, x.height, x.coord) for x in ms],
                            boundary=ms[0].boundary, radials=ms[0].nradials))
        ck.count('media_%d' % len(ms)); ck.count('boundary_' + ms[0].boundary)
        if ms[0].nradials:
            ck.count('radials')
        # (iii) surface impedance
        for x in ms:
            z = complex(x.impedance(m.f))
            a = d.ask('far surfz', f2b(m.f), f2b(x.permittivity), f2b(x.conductivity)).split()
            zm = complex(b2f(a[0]), b2f(a[1]))
            if abs(z - zm) > 1e-12 * abs(z):
                dis.append(dict(why='Medium.impedance %r vs model %r' % (z, zm)))
        # (ii) far field with directions whose reflection points straddle the boundaries
        why, mx = farlib.compare(d, m, THETAS + [88.0], PHIS)
        # the property on the implementation is evaluated whether or not the tie holds: a disagreement with the model is a
        # violation only together with a failing input
        bad = property_on_impl(ant, ss, random.Random(ms_seed))
        if bad:
            viol.append(dict(kind='ground', ant=ant, src_seed=ss, media_seed=ms_seed, observed=bad, disagreement=why))
        elif why:
            dis.append(dict(ant=ant, src_seed=ss, media_seed=ms_seed, why=why))
    # ground screens (radials) with two and three media: the medium beyond the screen split in two
    for i in range(12 if ck.tier == 'quick' else 120):
        ant = ground_antenna(rng)
        ss = rng.randrange(10 ** 9)
        ms_seed = rng.randrange(10 ** 9)
        nm_ = 2 + (i % 2)
        ck.case(('radials-split', ant['family'], nm_, i), True)
        ck.count('radials_split_cases')
        bad = property_on_impl(ant, ss, random.Random(ms_seed), n=nm_, radials=True)
        if bad:
            viol.append(dict(kind='ground', ant=ant, src_seed=ss, media_seed=ms_seed, n=nm_, radials=True, observed=bad))
    ck.stats['disagreements'] = len(dis)
    ck.cov['rule'] = ('antennas over ground (monopoles, top-loaded, elevated dipoles, vees, arrays), 1-4 media with permittivity 1..80, '
                      'conductivity 1e-4..10, linear / circular boundaries at random positions, radials in 30 %; compared: far field '
                      'of the implementation vs the model at 1e-9, surface impedance at 1e-12; non-interference bit for bit; '
                      'distinct = distinct (family, #media, boundary, radials, pulses)')
    ck.assumptions += ['the convergence sigma -> infinity is checked at sigma = 1e12 with tolerance 2e-3 of the maximum below 85 degrees zenith angle',
                       'np.argmin over a boolean array is modelled by findIdx? (first False, 0 if none)']
    seen = set()
    for v in viol:
        k = v['observed'][:40]
        if k not in seen:
            seen.add(k)
            ck.violation(v)
    if (dis or ck.broken) and not viol:
        ck.violation(dict(kind='broken-tie', detail=dict(broken=ck.broken, disagreements=[x['why'] for x in dis[:4]]),
                          theorem='Pmn.Props.C11.* / correspondence far run (real ground) | surfz | media uses'), found_input=False)
