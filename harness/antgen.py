"""Structured antenna generator shared by the numeric properties.

Every antenna obeys the documented thin-wire modelling rules of the property quantifiers:
segment length lambda/200..lambda/10, radius <= segment/8, junction angles >= 40 degrees, wires that
are not joined at least two segments apart, wires over ground either grounded and rising steeply or at
least one segment above it."""
import math, random
import numpy as np

C = 299.8


def unit(v):
    v = np.array(v, dtype=float)
    return v / np.linalg.norm(v)


def rand_dir(rng, min_z=None):
    while True:
        v = np.array([rng.gauss(0, 1) for _ in range(3)])
        n = np.linalg.norm(v)
        if n < 1e-3:
            continue
        v /= n
        if min_z is not None and v[2] < min_z:
            continue
        return v


def angle(u, v):
    return math.degrees(math.acos(max(-1, min(1, float(np.dot(unit(u), unit(v)))))))


def gen_antenna(rng, families=None, max_pulses=25, ground=None, len_jitter=(0.7, 1.4), rad_jitter=(0.5, 1.5)):
    """returns dict(f, ground, wires=[dict(nseg,p0,p1,r)], family)"""
    fams = families or ['dipole', 'vee', 'ell', 'tee', 'star', 'monopole', 'monopole_top', 'array', 'gp', 'loop', 'monopole_taper', 'varray']
    fam = rng.choice(fams)
    # 'monopole_end2': a clearly sloped monopole whose *second* end is on the ground (reported as family 'monopole')
    end2 = fam == 'monopole_end2'
    if end2:
        fam = 'monopole'
    if ground is None:
        ground = fam in ('monopole', 'monopole_top', 'gp', 'monopole_taper') or (fam in ('dipole', 'vee', 'array') and rng.random() < 0.25)
    if fam in ('monopole', 'monopole_top', 'gp', 'monopole_taper', 'stub_top', 'close_grounded'):
        ground = True if fam != 'gp' else False
    f = 10 ** rng.uniform(0.3, 2.2)           # 2 .. 160 MHz
    lam = C / f
    seg = lam / rng.uniform(12, 60)
    rad = seg / rng.uniform(10, 80)
    wires = []

    def nseg():
        return rng.randint(3, 8)

    def W(p0, p1, n, r=None):
        wires.append(dict(nseg=n, p0=[float(x) for x in p0], p1=[float(x) for x in p1], r=float(r or rad)))
    if fam == 'dipole':
        n = rng.randint(5, 14)
        d = rand_dir(rng) if not ground else unit([rng.gauss(0, 1), rng.gauss(0, 1), 0.0])
        c = np.array([rng.uniform(-1, 1), rng.uniform(-1, 1), 0.0]) * lam
        if ground:
            c[2] = seg * rng.uniform(1.5, 12)
        W(c - d * seg * n / 2, c + d * seg * n / 2, n)
    elif fam in ('vee', 'ell', 'tee', 'star'):
        k = {'vee': 2, 'ell': 2, 'tee': 3, 'star': rng.choice([3, 4])}[fam]
        dirs = []
        tries = 0
        while len(dirs) < k and tries < 1000:
            tries += 1
            d = rand_dir(rng)
            if ground and d[2] < -0.1:
                continue
            if all(angle(d, e) >= 45 for e in dirs):
                dirs.append(d)
        c = np.array([rng.uniform(-1, 1), rng.uniform(-1, 1), 0.0]) * lam
        if ground:
            c[2] = seg * 12
        for d in dirs:
            n = nseg()
            s = seg * rng.uniform(*len_jitter)
            r = rad * rng.uniform(*rad_jitter)
            a, b = c, c + d * s * n
            if ground:
                if min(a[2], b[2]) < seg * 1.5:
                    continue
            if rng.random() < 0.5:
                a, b = b, a
            W(a, b, n, r)
        if len(wires) < 2:
            return gen_antenna(rng, families, max_pulses, None, len_jitter, rad_jitter)
    elif fam == 'monopole':
        n = rng.randint(4, 12)
        x, y = rng.uniform(-1, 1) * lam, rng.uniform(-1, 1) * lam
        # from vertical down to an elevation of about 35 degrees (the rules ask for 20 degrees or more)
        tilt = rng.uniform(0, 0.3) if rng.random() < 0.5 else rng.uniform(0.3, 1.4)
        if end2:
            tilt = rng.uniform(0.4, 1.2)
        top = np.array([x + tilt * seg * n, y, seg * n])
        if rng.random() < 0.5 and not end2:
            W([x, y, 0.0], top, n)
        else:
            W(top, [x, y, 0.0], n)
    elif fam == 'monopole_taper':
        # grounded wire with tapered segmentation (from the grounded end, from the far end, from both ends), with and
        # without a maximum segment length (a run of equal segments next to shorter ones), grounded at either end
        n = rng.randint(5, 9)
        x, y = rng.uniform(-1, 1) * lam, rng.uniform(-1, 1) * lam
        Lw = seg * n
        tilt = rng.choice([0.0, 0.0, rng.uniform(0.05, 0.3)])
        top = np.array([x + tilt * Lw, y, Lw])
        st = rng.choice([1, 2, 3])
        tmax = rng.choice([None, Lw / n * rng.uniform(1.05, 1.6)])
        # the shortest segment stays inside the documented modelling rules (segments not below 1/200 wavelength)
        w = dict(nseg=n, r=float(min(rad, seg / 40)), segtype=st, tmax=tmax, tmin=float(lam / 150))
        if rng.random() < 0.5:
            w.update(p0=[float(x), float(y), 0.0], p1=[float(v) for v in top])
        else:
            w.update(p0=[float(v) for v in top], p1=[float(x), float(y), 0.0])
        wires.append(w)
    elif fam == 'stub_top':
        # a grounded riser of ONE segment (vertical or sloping) with one or two wires on its top (inverted L, T), the riser
        # listed first or last, drawn up or down
        x, y = rng.uniform(-1, 1) * lam, rng.uniform(-1, 1) * lam
        tilt = rng.choice([0.0, 0.0, rng.uniform(0.1, 0.5)])
        h = seg * rng.uniform(0.8, 1.2)
        base, top = np.array([x, y, 0.0]), np.array([x + tilt * h, y, h])
        stub = dict(nseg=1, p0=[float(v) for v in base], p1=[float(v) for v in top], r=float(rad))
        if rng.random() < 0.3:
            stub['p0'], stub['p1'] = stub['p1'], stub['p0']
        tops = []
        d = rand_dir(rng); d[2] = abs(d[2]) * 0.3; d = unit(d)
        for sgn in ([1.0] if rng.random() < 0.6 else [1.0, -1.0]):
            n2 = nseg()
            a, b = top, top + np.array([sgn * d[0], sgn * d[1], d[2]]) * seg * n2
            if rng.random() < 0.4:
                a, b = b, a
            tops.append(dict(nseg=n2, p0=[float(v) for v in a], p1=[float(v) for v in b], r=float(rad)))
        wires.extend([stub] + tops if rng.random() < 0.7 else tops + [stub])
    elif fam == 'close_grounded':
        # two separate wires standing on the ground less than half a segment apart (a monopole and a parasitic or second fed
        # wire, parallel or sloping away): nothing joins them but the ground plane
        n = rng.randint(4, 8)
        x, y = rng.uniform(-1, 1) * lam, rng.uniform(-1, 1) * lam
        r0 = float(min(rad, seg / 60))
        gap = seg * rng.uniform(0.2, 0.45)
        phi = rng.uniform(0, 2 * math.pi)
        b2 = np.array([x + gap * math.cos(phi), y + gap * math.sin(phi), 0.0])
        w1 = dict(nseg=n, p0=[float(x), float(y), 0.0], p1=[float(x), float(y), float(seg * n)], r=r0)
        n2 = rng.randint(3, n)
        lean = rng.choice([0.0, 0.0, rng.uniform(0.1, 0.6)])
        t2 = b2 + np.array([lean * math.cos(phi), lean * math.sin(phi), 1.0]) * seg * n2 / math.sqrt(1 + lean * lean)
        w2 = dict(nseg=n2, p0=[float(v) for v in b2], p1=[float(v) for v in t2], r=r0)
        if rng.random() < 0.4:
            w2['p0'], w2['p1'] = w2['p1'], w2['p0']
        wires.extend([w1, w2] if rng.random() < 0.6 else [w2, w1])
    elif fam == 'taper_vee':
        # two tapered legs (inverted V, bent dipole) each drawn from its tip to the common apex — or from the apex, or one each
        # way: wire ends of either number meet at the junction of two objects whose first and last segments differ
        n = rng.randint(5, 8)
        apex = np.array([rng.uniform(-1, 1) * lam, rng.uniform(-1, 1) * lam, 0.0])
        d1 = rand_dir(rng)
        while True:
            d2 = rand_dir(rng)
            if float(np.dot(d1, d2)) < 0.4:      # at least about 66 degrees between the legs
                break
        how = rng.choice(['in-in', 'in-in', 'out-out', 'in-out', 'out-in'])
        for d, way in ((d1, how.split('-')[0]), (d2, how.split('-')[1])):
            tip = apex + d * seg * n
            w = dict(nseg=n, r=float(min(rad, seg / 40)), tmin=float(lam / 150), tmax=None)
            if way == 'in':
                w.update(p0=[float(v) for v in tip], p1=[float(v) for v in apex], segtype=1)
            else:
                w.update(p0=[float(v) for v in apex], p1=[float(v) for v in tip], segtype=2)
            wires.append(w)
    elif fam == 'varray':
        # two or three wires exactly parallel to a coordinate axis (mostly z) on different axes, free space or over ground
        # (elevated): direction cosines that are exactly 0 / 1, positions that are not
        k = rng.choice([2, 2, 3])
        ax = rng.choice([2, 2, 0, 1]) if not ground else rng.choice([2, 0, 1])
        n = rng.randint(4, 6)
        for j in range(k):
            c = np.array([rng.uniform(-0.3, 0.3) * lam, rng.uniform(-0.3, 0.3) * lam, 0.0])
            c[(ax + 1) % 3] += j * seg * rng.uniform(4, 9)
            e = np.zeros(3); e[ax] = 1.0
            if ground:
                c[2] = abs(c[2]) + seg * (n / 2 + 2 if ax == 2 else 3)
            a, b = c - e * seg * n / 2, c + e * seg * n / 2
            if rng.random() < 0.3:
                a, b = b, a
            W(a, b, n)
    elif fam == 'monopole_top':
        n = rng.randint(4, 8)
        x, y = rng.uniform(-1, 1) * lam, rng.uniform(-1, 1) * lam
        top = np.array([x, y, seg * n])
        W([x, y, 0.0], top, n)
        d = rand_dir(rng)
        d[2] = abs(d[2]) * 0.3
        d = unit(d)
        n2 = nseg()
        a, b = top, top + d * seg * n2
        if rng.random() < 0.5:
            a, b = b, a
        W(a, b, n2, rad * rng.uniform(max(0.6, rad_jitter[0]), min(1.4, rad_jitter[1])))
    elif fam == 'array':
        n = rng.randint(5, 9)
        d = rand_dir(rng) if not ground else unit([rng.gauss(0, 1), rng.gauss(0, 1), 0.0])
        # perpendicular offset
        o = unit(np.cross(d, rand_dir(rng)))
        if ground:
            o = unit([o[0], o[1], 0.0]) if abs(o[0]) + abs(o[1]) > 1e-3 else unit([-d[1], d[0], 0])
        c = np.array([0, 0, seg * 8.0 if ground else 0.0])
        sep = seg * rng.uniform(3, 12)
        W(c - d * seg * n / 2, c + d * seg * n / 2, n)
        n2 = rng.randint(5, 9)
        c2 = c + o * sep
        W(c2 - d * seg * n2 / 2, c2 + d * seg * n2 / 2, n2, rad * rng.uniform(0.7, 1.3))
    elif fam == 'gp':
        # free-space ground plane antenna: vertical + 3 sloping radials
        n = rng.randint(4, 8)
        W([0, 0, 0], [0, 0, seg * n], n)
        for k in range(3):
            phi = 2 * math.pi * k / 3 + rng.uniform(-0.2, 0.2)
            d = unit([math.cos(phi), math.sin(phi), -rng.uniform(0.3, 1.0)])
            n2 = rng.randint(3, 6)
            W([0, 0, 0], d * seg * n2, n2)
    elif fam == 'loop':
        k = rng.choice([3, 4, 5])
        R = seg * rng.uniform(2.5, 4)
        nrm = rand_dir(rng)
        u = unit(np.cross(nrm, rand_dir(rng)))
        v = np.cross(nrm, u)
        c = np.array([0.0, 0.0, 0.0])
        pts = [c + R * (math.cos(2 * math.pi * i / k) * u + math.sin(2 * math.pi * i / k) * v) for i in range(k)]
        side = np.linalg.norm(pts[1] - pts[0])
        n = max(2, int(round(side / seg)))
        for i in range(k):
            W(pts[i], pts[(i + 1) % k], n)
        ground = False
    ant = dict(f=f, ground=bool(ground), wires=wires, family=fam, lam=lam, seg=seg)
    npulse = sum(w['nseg'] for w in wires)
    if npulse > max_pulses + 6:
        return gen_antenna(rng, families, max_pulses, None, len_jitter, rad_jitter)
    return ant


CURVED_KINDS = ['arc', 'helix', 'taper', 'taper-bent', 'arc-axial']


def gen_curved(rng, kind=None):
    """antennas with arcs, helices and tapered wires (free space)"""
    f = 10 ** rng.uniform(0.5, 2.0)
    lam = C / f
    seg = lam / rng.uniform(15, 40)
    rad = seg / rng.uniform(12, 60)
    kind0 = rng.choice(CURVED_KINDS)
    kind = kind or kind0
    objs = []
    if kind == 'arc':
        n = rng.randint(4, 9)
        R = seg * n / rng.uniform(2.0, 4.0)
        a2 = rng.choice([120.0, 180.0, 270.0])
        objs.append(dict(kind='arc', nseg=n, radius=R, a1=0.0, a2=a2, r=rad))
        # a straight wire attached to the first or to the last point of the arc, by its first or its second end
        if rng.random() < 0.5:
            e = [R, 0.0, 0.0]
            o = [R + seg * 3, 0.0, -seg]
        else:
            e = [R * math.cos(math.radians(a2)), 0.0, R * math.sin(math.radians(a2))]
            o = [e[0] * (1 + 3 * seg / R), seg, e[2] * (1 + 3 * seg / R)]
        if rng.random() < 0.5:
            objs.append(dict(kind='wire', nseg=rng.randint(2, 4), p0=e, p1=o, r=rad))
        else:
            objs.append(dict(kind='wire', nseg=rng.randint(2, 4), p0=o, p1=e, r=rad))
    elif kind == 'arc-axial':
        # arcs whose two ends lie on the z axis while their body does not: a loop fed at the bottom or top (one arc closed
        # on itself), or a half circle closed by a wire on the axis (D loop)
        n = rng.randint(8, 12)
        R = seg * n / (2 * math.pi) * rng.uniform(0.9, 1.3)
        if rng.random() < 0.5:
            a1 = rng.choice([-90.0, 90.0])
            objs.append(dict(kind='arc', nseg=n, radius=R, a1=a1, a2=a1 + 360.0, r=rad))
        else:
            objs.append(dict(kind='arc', nseg=max(4, n // 2), radius=R, a1=90.0, a2=270.0, r=rad))
            w = dict(kind='wire', nseg=rng.randint(3, 5), p0=[0.0, 0.0, R], p1=[0.0, 0.0, -R], r=rad)
            if rng.random() < 0.5:
                w['p0'], w['p1'] = w['p1'], w['p0']
            objs.append(w)
            if rng.random() < 0.5:
                objs.reverse()
    elif kind == 'helix':
        n = rng.randint(8, 14)
        ln = seg * n / 4
        objs.append(dict(kind='helix', nseg=n, length=ln, turnlen=ln / 1.5, r=rad, rx=seg * 1.2, ry=seg * 1.2))
    elif kind == 'taper':
        n = rng.randint(5, 9)
        objs.append(dict(kind='wire', nseg=n, p0=[0.0, 0.0, 0.0], p1=[0.0, seg * n * 1.5, seg * n], r=rad / 3, segtype=rng.choice([1, 2, 3])))
    else:
        n = rng.randint(4, 7)
        objs.append(dict(kind='wire', nseg=n, p0=[0.0, 0.0, 0.0], p1=[0.0, 0.0, seg * n * 1.5], r=rad / 3, segtype=rng.choice([1, 2, 3])))
        top, far = [0.0, 0.0, seg * n * 1.5], [seg * 4, seg, seg * n * 1.5]
        if rng.random() < 0.5:
            objs.append(dict(kind='wire', nseg=rng.randint(3, 5), p0=top, p1=far, r=rad))
        else:
            objs.append(dict(kind='wire', nseg=rng.randint(3, 5), p0=far, p1=top, r=rad))
    return dict(f=f, ground=False, objs=objs, family=kind, lam=lam, seg=seg)


# ---------------------------------------------------------------------------------------------------------
# Objects with a history.  `main` re-uses one Mininec object for every step of a frequency sweep; a quantity
# cached on the object, a geo object, a load or the pulse container that is not invalidated by the frequency
# setter makes every result after the first step wrong while a freshly built object is right.  A third of the
# generated antennas are therefore evaluated on an object that has already been through another frequency
# (compute, and with sources also a far-field and a near-field request) — chosen by a hash of the antenna, not
# by the PRNG stream, so that replays rebuild the same history.  The properties quantify over models, not
# over fresh objects: whatever holds for a fresh object must hold for step k of a sweep (C14).
WARM = dict(on=True, built=0, warmed=0)
WARM_FACTORS = [0.5, 1.0, 0.83, 1.21, 1.0, 2.0]     # 1.0: solved before at the *same* frequency (no setter call in between)
_WARM_CLS = {}


def _warm_class():
    from mininec.mininec import Mininec
    if Mininec not in _WARM_CLS:
        class WarmMininec(Mininec):
            _warm_factor = None

            def compute(self):
                fac, self._warm_factor = self._warm_factor, None
                if fac:
                    from mininec.mininec import Angle
                    f0 = self.f
                    if fac != 1.0:
                        self.f = f0 * fac
                    Mininec.compute(self)
                    if self.sources and abs(self.power) > 0:
                        try:
                            self.compute_far_field(Angle(10.0, 35.0, 2), Angle(0.0, 90.0, 2))
                            c = max(abs(x) for s in self.geo for x in list(s.p1) + list(s.p2)) + 3 * self.wavelen
                            self.compute_near_field([c, 0.3 * c, 0.5 * c], [1.0, 1.0, 1.0], [1, 1, 1])
                        except Exception:
                            pass
                    if fac != 1.0:
                        self.f = f0
                return Mininec.compute(self)
        _WARM_CLS[Mininec] = WarmMininec
    return _WARM_CLS[Mininec]


def _mk(ant, f, gs, media=None):
    import hashlib, json
    from mininec.mininec import Mininec
    WARM['built'] += 1
    h = int(hashlib.sha1(json.dumps(ant, sort_keys=True, default=str).encode()).hexdigest()[:8], 16)
    if WARM['on'] and not ant.get('fresh') and h % 3 == 0:
        m = _warm_class()(f, gs, media=media)
        m._warm_factor = WARM_FACTORS[(h // 3) % len(WARM_FACTORS)]
        WARM['warmed'] += 1
        return m
    return Mininec(f, gs, media=media)


def build_objs(ant):
    from mininec.mininec import Mininec, Wire, Arc, Helix
    gs = []
    for o in ant['objs']:
        if o['kind'] == 'arc':
            gs.append(Arc(o['nseg'], o['radius'], o['a1'], o['a2'], o['r']))
        elif o['kind'] == 'helix':
            gs.append(Helix(o['nseg'], o['length'], o['turnlen'], o['r'], o['rx'], o['ry']))
        else:
            w = Wire(o['nseg'], *o['p0'], *o['p1'], o['r'])
            if o.get('segtype'):
                w.segtype = o['segtype']
            gs.append(w)
    from mininec.mininec import ideal_ground
    if any(o.get('translate') for o in ant['objs']):
        # objects moved into place through the API (`Geo_Container.translate`, what `--geo-translate=key,x,y,z,tag` does)
        from mininec.mininec import Geo_Container
        geo = Geo_Container()
        for g in gs:
            geo.append(g)
        geo.compute_tags()
        for k, (o, g) in enumerate(zip(ant['objs'], gs)):
            if o.get('translate'):
                geo.translate(k + 1, [float(x) for x in o['translate']], g.tag)
        gs = geo
    return _mk(ant, ant['f'], gs, media=[ideal_ground] if ant.get('ground') else None)


SCALED = dict(on=True, built=0)
SCALE_FACTORS = [(0.3048,), (2.0,), (0.5, 4.0), (3.0, 0.25), (39.37,)]


def build_scaled(ant, media):
    """the same structure written in another unit and brought to metres by scaling the whole structure through the API
    (`Geo_Container.scale`, what `--geo-scale` does), once or twice: a model with a transformation history.  Untapered
    straight wires only (taper limits are lengths that the scaling does not touch)."""
    import hashlib, json
    from mininec.mininec import Wire, Geo_Container, ideal_ground
    h = int(hashlib.sha1(json.dumps(ant, sort_keys=True, default=str).encode()).hexdigest()[8:16], 16)
    facs = SCALE_FACTORS[(h // 4) % len(SCALE_FACTORS)]
    tot = 1.0
    for f_ in facs:
        tot *= f_
    geo = Geo_Container()
    for w in ant['wires']:
        geo.append(Wire(w['nseg'], *[float(x) / tot for x in w['p0']], *[float(x) / tot for x in w['p1']], w['r'] / tot))
    geo.compute_tags()
    for f_ in facs:
        geo.scale(f_)
    if media is None:
        media = [ideal_ground] if ant['ground'] else None
    SCALED['built'] += 1
    return _mk(ant, ant['f'], geo, media=media)


def build(ant, media=None):
    from mininec.mininec import Mininec, Wire, ideal_ground
    if 'objs' in ant:
        return build_objs(ant)
    if SCALED['on'] and not ant.get('fresh') and not ant.get('noscale') and not any(w.get('segtype') for w in ant['wires']):
        import hashlib, json
        h = int(hashlib.sha1(json.dumps(ant, sort_keys=True, default=str).encode()).hexdigest()[8:16], 16)
        if h % 4 == 1:
            return build_scaled(ant, media)
    ws = []
    for w in ant['wires']:
        o = Wire(w['nseg'], *w['p0'], *w['p1'], w['r'])
        if w.get('segtype'):
            o.segtype = w['segtype']
            if w.get('tmax') is not None:
                o.taper_max = w['tmax']
            if w.get('tmin') is not None:
                o.taper_min = w['tmin']
        ws.append(o)
    if media is None:
        media = [ideal_ground] if ant['ground'] else None
    return _mk(ant, ant['f'], ws, media=media)


def source_pulses(rng, m, k):
    """k distinct pulses, stratified: sources on grounded, junction and interior pulses in every registration
    order.  With several sources and a grounded pulse present, half of the draws put a grounded pulse FIRST and
    a non-grounded one after it (a per-source factor that leaks from one source to the next, or state kept
    between sources, shows only in that order); a quarter put it last."""
    N = len(m.pulses)
    k = min(k, N)
    ps = rng.sample(range(N), k)
    gnd = [i for i, p in enumerate(m.pulses) if p.ground.any()]
    if k >= 2 and gnd:
        u = rng.random()
        if u < 0.75:
            g = rng.choice(gnd)
            others = [p for p in ps if p not in gnd]
            if not others:
                cand = [i for i in range(N) if i not in gnd]
                others = [rng.choice(cand)] if cand else []
            others = [p for p in others if p != g][:k - 1]
            ps = ([g] + others) if u < 0.5 else (others + [g])
    return ps


def pick_sources(rng, m, k=None):
    """1..k sources on distinct pulses (interior / junction / grounded), complex voltages"""
    from mininec.mininec import Excitation
    N = len(m.pulses)
    k = k or rng.randint(1, min(3, N))
    ps = source_pulses(rng, m, min(k, N))
    res = []
    same = None
    for p in ps:
        mag = 10 ** rng.uniform(-1, 1.5)
        ph = rng.uniform(-math.pi, math.pi) if rng.random() < 0.7 else 0.0
        if same is None:
            # a quarter of the multi-source models feed every source with exactly the same voltage (an in-phase array)
            same = (mag, ph) if (len(ps) >= 2 and int(mag * 1e7) % 4 == 0) else False
        elif same:
            mag, ph = same
        v = complex(mag * math.cos(ph), mag * math.sin(ph))
        form = int(mag * 1e6) % 4
        if form == 0:
            # magnitude / phase in degrees, the other constructor form
            s = Excitation(mag, math.degrees(ph))
        elif form == 1:
            # the same voltage written with a negative magnitude and the phase turned by half a turn
            s = Excitation(-mag, math.degrees(ph) + 180.0)
        else:
            s = Excitation(v)
        m.register_source(s, p)
        res.append((p, complex(s.voltage)))
    return res


def cond(m):
    return float(np.linalg.cond(m.Z))
