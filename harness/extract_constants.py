#!/venv/bin/python
"""Regenerate lean/Pmn/Model/Const.lean from /repo's *current* source.

Every literal the theorems depend on is located structurally in the AST (by the
assignment / comparison it occurs in, never by its value), converted to an exact
rational from its source text, and written out as a Lean definition together with
its source location.  A literal that can no longer be located is reported in
`missing`; the dependent checks treat that as a broken tie.

The file is rewritten only if its content changed, so that a no-op `lake build`
stays a no-op.
"""
import ast, os, sys, json
from fractions import Fraction

REPO = os.environ.get('PMN_REPO', '/repo')
HERE = os.path.dirname(os.path.abspath(__file__))
OUT = os.path.join(HERE, '..', 'lean', 'Pmn', 'Model', 'Const.lean')


def _scope(tree, qual, setter=False):
    """Find class/function node by dotted qualname."""
    node = tree
    parts = qual.split('.') if qual else []
    for i, p in enumerate(parts):
        cands = [n for n in ast.iter_child_nodes(node)
                 if isinstance(n, (ast.ClassDef, ast.FunctionDef)) and n.name == p]
        if not cands:
            return None
        if len(cands) > 1 and i == len(parts) - 1:
            # property getter/setter pair
            sel = []
            for c in cands:
                is_setter = any(isinstance(d, ast.Attribute) and d.attr == 'setter'
                                for d in getattr(c, 'decorator_list', []))
                if is_setter == setter:
                    sel.append(c)
            cands = sel or cands
        node = cands[0]
    return node


def _nums(node):
    """numeric literals below node in source order, with unary minus folded"""
    out = []

    class V(ast.NodeVisitor):
        def visit_UnaryOp(self, n):
            if isinstance(n.op, ast.USub) and isinstance(n.operand, ast.Constant) \
               and isinstance(n.operand.value, (int, float)) \
               and not isinstance(n.operand.value, bool):
                out.append((n.operand, -1))
            else:
                self.generic_visit(n)

        def visit_Constant(self, n):
            if isinstance(n.value, (int, float)) and not isinstance(n.value, bool):
                out.append((n, 1))
    V().visit(node)
    out.sort(key=lambda t: (t[0].lineno, t[0].col_offset))
    return out


def _target_name(t):
    if isinstance(t, ast.Name):
        return t.id
    if isinstance(t, ast.Attribute):
        return t.attr
    return None


def _assigns(scope, name):
    res = []
    for n in ast.walk(scope):
        if isinstance(n, ast.Assign):
            for t in n.targets:
                if _target_name(t) == name:
                    res.append(n)
                elif isinstance(t, ast.Tuple):
                    pass
        elif isinstance(n, ast.AugAssign) and _target_name(n.target) == name:
            res.append(n)
    res.sort(key=lambda n: n.lineno)
    return res


def _compares(scope, lhs_name, op):
    res = []
    for n in ast.walk(scope):
        if isinstance(n, ast.Compare) and len(n.ops) == 1 and isinstance(n.ops[0], op):
            l = n.left
            nm = None
            if isinstance(l, ast.Name):
                nm = l.id
            elif isinstance(l, ast.Call) and l.args:
                a = l.args[0]
                nm = a.id if isinstance(a, ast.Name) else None
                if isinstance(l.func, ast.Name):
                    nm = '%s(%s)' % (l.func.id, nm)
            if nm == lhs_name:
                res.append(n)
    res.sort(key=lambda n: (n.lineno, n.col_offset))
    return res


def _lit_text(src_lines, node):
    seg = src_lines[node.lineno - 1][node.col_offset:node.end_col_offset]
    return seg


def _to_frac(text, sign):
    return sign * Fraction(text.replace('_', ''))


# (lean name, file, scope, setter?, kind, key, index-of-literal, index-of-stmt)
SPECS = [
    ('mu0',        'mininec/mininec.py', '',                              False, 'assign', 'mu_0', 0, 0),
    ('eps0',       'mininec/mininec.py', '',                              False, 'assign', 'epsilon_0', 0, 0),
    ('g0',         'mininec/mininec.py', 'Mininec',                       False, 'assign', 'g0', 0, 0),
    ('cLight',     'mininec/mininec.py', 'Mininec',                       False, 'assign', 'c', 0, 0),
    ('wavelenC',   'mininec/mininec.py', 'Mininec.f',                     True,  'assign', 'wavelen', 0, 0),
    ('mFactor',    'mininec/mininec.py', 'Mininec.f',                     True,  'assign', 'm', 0, 0),
    ('srmFactor',  'mininec/mininec.py', 'Mininec.f',                     True,  'assign', 'srm', 0, 0),
    ('k9Factor',   'mininec/mininec.py', 'Mininec.compute_far_field',     False, 'assign', 'k9', 0, 0),
    ('ffFloor',    'mininec/mininec.py', 'Mininec.compute_far_field',     False, 'assign', 'p123', 1, 0),
    ('ffThresh',   'mininec/mininec.py', 'Mininec.compute_far_field',     False, 'compare', ('t123', ast.Gt), 0, 0),
    ('nfS0Factor', 'mininec/mininec.py', 'Mininec.compute_near_field',    False, 'assign', 's0', 0, 0),
    ('matchTol',   'mininec/mininec.py', 'Geobj.compute_connections',     False, 'assign', 'minlen', 0, 0),
    ('groundTol',  'mininec/mininec.py', 'Geobj.compute_ground',          False, 'assign', 'eps', 0, 0),
    ('exactT',     'mininec/mininec.py', 'Mininec.psi',                   False, 'compare', ('t', ast.LtE), 0, 0),
    ('gauss4T',    'mininec/mininec.py', 'Mininec.psi',                   False, 'compare', ('t', ast.Gt), 0, 0),
    ('gauss2T',    'mininec/mininec.py', 'Mininec.psi',                   False, 'compare', ('t', ast.Gt), 0, 1),
    ('mediumT',    'mininec/mininec.py', 'Medium.impedance',              False, 'assign', 't', 1, 0),
    ('skinAsym',   'mininec/mininec.py', 'Skin_Effect_Load.impedance',    False, 'compare', ('abs(kr)', ast.Lt), 0, 0),
    ('taperRad1',  'mininec/taper.py',   'Taper.__init__',                False, 'assign', 'min_t', 0, 0),
    ('fmtDigits',  'mininec/util.py',    'format_float',                  False, 'assign', 'prec', 0, 0),
    ('fmtEThresh', 'mininec/util.py',    'format_float',                  False, 'compare', ('abs(f)', ast.Lt), 0, 0),
]


def extract():
    consts, missing = {}, []
    cache = {}
    for (name, fn, scope, setter, kind, key, li, si) in SPECS:
        path = os.path.join(REPO, fn)
        if path not in cache:
            try:
                src = open(path).read()
                cache[path] = (ast.parse(src), src.split('\n'))
            except Exception as e:  # unparsable source: everything is missing
                cache[path] = (None, None)
        tree, lines = cache[path]
        if tree is None:
            missing.append(name)
            continue
        sc = _scope(tree, scope, setter)
        if sc is None and name.startswith('taperRad'):
            sc = tree  # taper.py layout: search whole module
        if sc is None:
            missing.append(name)
            continue
        if kind == 'assign':
            if scope == '':
                stmts = [n for n in tree.body if isinstance(n, ast.Assign)
                         and any(_target_name(t) == key for t in n.targets)]
            else:
                stmts = _assigns(sc, key)
            nodes = stmts
        else:
            nodes = _compares(sc, key[0], key[1])
        if len(nodes) <= si:
            missing.append(name)
            continue
        st = nodes[si]
        val = st.value if kind == 'assign' else st.comparators[0]
        if kind == 'compare':
            nums = _nums(st.comparators[0])
        else:
            nums = _nums(val)
        if len(nums) <= li:
            missing.append(name)
            continue
        node, sign = nums[li]
        text = _lit_text(lines, node)
        try:
            fr = _to_frac(text, sign)
        except Exception:
            missing.append(name)
            continue
        consts[name] = dict(value=fr, text=('-' if sign < 0 else '') + text,
                            where='%s:%d' % (fn, node.lineno))
    return consts, missing


def _handler_names(h):
    t = h.type
    if t is None:
        return ['BaseException']
    elts = t.elts if isinstance(t, ast.Tuple) else [t]
    out = []
    for e in elts:
        if isinstance(e, ast.Name):
            out.append(e.id)
        elif isinstance(e, ast.Attribute):
            out.append(e.attr)
    return out


def extract_handlers():
    """exception classes caught around model construction and around the compute loop of main"""
    res = dict(setupCaught=None, kernelCaught=None, outputCaught=None)
    try:
        tree = ast.parse(open(os.path.join(REPO, 'mininec/mininec.py')).read())
    except Exception:
        return res
    mainf = _scope(tree, 'main')
    if mainf is None:
        return res
    for n in ast.walk(mainf):
        if isinstance(n, ast.Try):
            calls = [c for b in n.body for c in ast.walk(b) if isinstance(c, ast.Call)]
            names = []
            for c in calls:
                if isinstance(c.func, ast.Name):
                    names.append(c.func.id)
                elif isinstance(c.func, ast.Attribute):
                    names.append(c.func.attr)
            caught = [x for h in n.handlers for x in _handler_names(h)]
            if 'Mininec' in names and res['setupCaught'] is None:
                res['setupCaught'] = caught
            if 'compute' in names and res['kernelCaught'] is None:
                res['kernelCaught'] = caught
            if 'as_basic_input' in names and 'as_cmdline' in names and 'open' in names and res['outputCaught'] is None:
                res['outputCaught'] = caught
    return res


def render(consts, missing):
    L = []
    L.append('/-! GENERATED by harness/extract_constants.py from /repo — do not edit.')
    L.append('Literal constants of the implementation as exact rationals (numerator, denominator),')
    L.append('with the place each was read from. -/')
    L.append('namespace Pmn.Const')
    L.append('')
    L.append('/-- exact rational constant `num / den` -/')
    L.append('structure RatLit where')
    L.append('  num : Int')
    L.append('  den : Nat')
    L.append('deriving Repr, DecidableEq')
    L.append('')
    L.append('def RatLit.toFloat (r : RatLit) : Float := Float.ofInt r.num / Float.ofNat r.den')
    L.append('')
    for (name, *_rest) in SPECS:
        if name in consts:
            c = consts[name]
            fr = c['value']
            L.append('/-- `%s` in %s -/' % (c['text'], c['where'].split(':')[0]))
            L.append('def %s : RatLit := ⟨%d, %d⟩' % (name, fr.numerator, fr.denominator))
        else:
            L.append('/-- NOT FOUND in the current source -/')
            L.append('def %s : RatLit := ⟨0, 1⟩' % name)
        L.append('')
    hd = extract_handlers()
    for k in ('setupCaught', 'kernelCaught', 'outputCaught'):
        v = hd[k]
        if v is None:
            missing.append(k)
            v = []
        L.append('/-- exception classes named in the `except` clause (main) -/')
        L.append('def %s : List String := [%s]' % (k, ', '.join('"%s"' % x for x in v)))
        L.append('')
    L.append('def missing : List String := [%s]' % ', '.join('"%s"' % m for m in missing))
    L.append('')
    L.append('end Pmn.Const')
    return '\n'.join(L) + '\n'


def main(write=True):
    consts, missing = extract()
    text = render(consts, missing)
    changed = False
    if write:
        old = open(OUT).read() if os.path.exists(OUT) else None
        if old != text:
            with open(OUT, 'w') as f:
                f.write(text)
            changed = True
    return consts, missing, changed


if __name__ == '__main__':
    consts, missing, changed = main()
    for k, v in consts.items():
        print('%-12s %-22s %s' % (k, v['text'], v['where']))
    print('missing:', missing, 'changed:', changed)
