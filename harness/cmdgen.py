"""Generator of *accepted* command lines covering every documented option kind
(shared by C15, C20's accepted stream and C14's process-level runs)."""
import math


def g(x):
    return '%.6g' % x


def gen_feedstub(rng):
    """two arms joined by a one-segment feed wire; explicit tags in every order (the feed wire owns a pulse only if
    a neighbour has a smaller tag); per-object distributed loads on every, some or one of the wires; source on a
    junction pulse"""
    f = rng.choice([7.0, 14.2, 28.5])
    lam = 299.8 / f
    seg = lam / rng.choice([20, 30])
    n1, n2 = rng.randint(3, 6), rng.randint(3, 6)
    tags = rng.sample(range(1, 10), 3)
    a0, a1 = [0.0, -seg * n1, 0.0], [0.0, 0.0, 0.0]
    b0, b1 = [0.0, 0.0, seg], [0.0, seg * n2 * 0.8, seg * (1 + n2 * 0.6)]
    ws = [(tags[0], n1, a0, a1), (tags[1], 1, a1, b0), (tags[2], n2, b0, b1)]
    rng.shuffle(ws)
    argv = ['-f', g(f)]
    for t, n, p0, p1 in ws:
        if rng.random() < 0.3:
            p0, p1 = p1, p0
        argv += ['-w', '%d,%d,%s,%s' % (t, n, ','.join(g(x) for x in p0 + p1), g(seg / 40))]
    arm = tags[0] if rng.random() < 0.5 else tags[2]
    argv += ['--excitation-pulse=%d,%d' % (rng.choice([1, 2]), arm)]
    kind = rng.choice(['skin', 'coat', 'both'])
    who = rng.choice(['all3', 'all3', 'stub', 'two'])
    sel = tags if who == 'all3' else [tags[1]] if who == 'stub' else [tags[1], rng.choice([tags[0], tags[2]])]
    for t in sel:
        if kind in ('skin', 'both'):
            argv.append('--skin-effect-conductivity=%s,%d' % (rng.choice(['3.5e7', '1e6', '5.8e7']), t))
        if kind in ('coat', 'both'):
            argv.append('--insulation-load=%s,%s,%d' % (g(seg / rng.choice([8, 12])), rng.choice(['2.3', '4']), t))
    argv += ['--theta=0,45,2', '--phi=0,90,2']
    return argv, dict(kinds=['wire', 'stub1', 'wire'], tagmode='explicit', loads=[], dist='feedstub-' + kind + '-' + who, sources=1)


def gen_cmdline(rng, small=True):
    if rng.random() < 0.12:
        return gen_feedstub(rng)
    f = rng.choice([3.5, 7.0, 7.15, 14.2, 21.3, 28.5])
    lam = 299.8 / f
    seg = lam / rng.choice([15, 20, 30])
    argv = ['-f', g(f)]
    meta = dict(kinds=[])
    nobj = rng.randint(1, 3)
    tagmode = rng.choice(['auto', 'auto', 'explicit', 'sparse', 'mixed'])
    tags_pool = rng.sample(range(1, 12), nobj) if tagmode in ('sparse', 'mixed') else list(range(1, nobj + 1))
    if tagmode == 'explicit':
        rng.shuffle(tags_pool)
    ground = rng.random() < 0.3
    base_z = seg * 3 if ground else 0.0
    objs = []
    wire_tags = []
    p_end = [0.0, 0.0, base_z]
    for i in range(nobj):
        kind = rng.choice(['wire', 'wire', 'wire', 'arc', 'helix']) if not ground else 'wire'
        t = None
        if tagmode in ('explicit', 'sparse') or (tagmode == 'mixed' and rng.random() < 0.5):
            t = tags_pool[i]
        tp = '%d,' % t if t is not None else ''
        if kind == 'wire':
            # one-segment wires too (not as the first object): between two wires such a wire carries current but may own
            # no pulse (junction pulses belong to the later-tagged object); isolated it has no pulse at all
            n = 1 if (i > 0 and rng.random() < 0.25) else rng.randint(2 if i else 3, 6)
            if i == 0 and ground and rng.random() < 0.6:
                p0 = [0.0, 0.0, 0.0]
                p1 = [0.0, 0.0, seg * n]
            else:
                p0 = list(p_end)
                d = [rng.choice([-1, 0, 1]) for _ in range(3)]
                if d == [0, 0, 0]:
                    d = [1, 0, 0]
                if ground:
                    d[2] = abs(d[2])
                nrm = math.sqrt(sum(x * x for x in d))
                p1 = [p0[k] + d[k] / nrm * seg * n for k in range(3)]
            if rng.random() < 0.3 and not (ground and p0[2] == 0):
                p0, p1 = p1, p0
            r = seg / rng.choice([20, 40, 100])
            argv += ['-w', '%s%d,%s,%s' % (tp, n, ','.join(g(x) for x in p0 + p1), g(r))]
            p_end = p1 if p1[2] != 0 or not ground else p0
            objs.append(('wire', t, n))
        elif kind == 'arc':
            n = rng.randint(3, 8)
            argv += ['-a', '%s%d,%s,%s,%s,%s' % (tp, n, g(seg * n / 3), g(rng.choice([0, 30, -45])), g(rng.choice([90, 180, 270])), g(seg / 50))]
            objs.append(('arc', t, n))
        else:
            n = rng.randint(6, 12)
            ln = seg * n / 3 * rng.choice([1, -1])
            argv += ['-H', '%s%d,%s,%s,%s,%s,%s,%s,%s' % (tp, n, g(ln), g(abs(ln) / 2 * rng.choice([1, -1])), g(seg / 50),
                                                          g(seg), g(seg), g(seg * rng.choice([1, 1.5])), g(seg))]
            objs.append(('helix', t, n))
        meta['kinds'].append(kind)
    if rng.random() < 0.2:
        # an isolated one-segment stub far from everything: a geo object without any pulse
        t = (max(tags_pool) + 1 + len(objs)) if tagmode in ('explicit', 'sparse') else None
        tp = '%d,' % t if t is not None else ''
        z = base_z + seg
        argv += ['-w', '%s1,%s,%s,%s,%s,%s,%s,%s' % (tp, g(40 * seg), g(35 * seg), g(z), g(41 * seg), g(35 * seg), g(z), g(seg / 50))]
        objs.append(('wire', t, 1))
        meta['kinds'].append('stub')
    meta['tagmode'] = tagmode
    # which tags exist after compute_tags (arcs first, then helix, then wires for automatic tags)
    order = [o for o in objs if o[0] == 'arc'] + [o for o in objs if o[0] == 'helix'] + [o for o in objs if o[0] == 'wire']
    explicit = [o[1] for o in objs if o[1] is not None]
    nxt = max(explicit) if explicit else 0
    final = []
    for o in order:
        if o[1] is None:
            nxt += 1
            final.append((o[0], nxt, o[2]))
        else:
            final.append(o)
    tags = [o[1] for o in final]
    wire_tags = [o[1] for o in final if o[0] == 'wire']
    # transformations
    if not ground:
        for k in range(rng.choice([0, 0, 1, 2, 3])):
            key = rng.choice([1, 2, 2, 3, 0.5])
            tg = rng.choice([None, None, rng.choice(tags)])
            suffix = ',%d' % tg if tg is not None else ''
            if rng.random() < 0.5:
                argv.append('--geo-rotate=%s,%s,%s,%s%s' % (g(key), g(rng.choice([0, 30, 90])), g(rng.choice([0, 45])), g(rng.choice([0, 10, 180])), suffix))
            else:
                argv.append('--geo-translate=%s,%s,%s,%s%s' % (g(key), g(rng.uniform(-1, 1) * seg), g(rng.uniform(-1, 1) * seg), g(rng.uniform(0, 1) * seg), suffix))
        if rng.random() < 0.25:
            argv.append('--geo-scale=%s' % g(rng.choice([0.5, 2, 0.3048])))
    meta['transforms'] = sum(1 for a in argv if a.startswith('--geo-'))
    # tapering
    if wire_tags and rng.random() < 0.3:
        wt = rng.choice(wire_tags)
        n = [o[2] for o in final if o[1] == wt][0]
        if n >= 4:
            tw = '--taper-wire=%d,%d' % (wt, rng.choice([1, 2, 3]))
            u = rng.random()
            if u < 0.3:
                tw += ',%s' % g(seg * rng.choice([0.1, 0.3]))                       # minimum segment length
            elif u < 0.6:
                tw += ',%s,%s' % (g(seg * rng.choice([0, 0.1, 0.3])), g(seg * rng.choice([1.3, 2.0])))    # minimum and maximum
            argv.append(tw)
            meta['taper'] = True
    if ground:
        med = rng.choice(['ideal', 'one', 'two', 'two-circ', 'radials', 'two-lastcoord', 'three'])
        if med == 'ideal':
            argv += ['--medium=0,0,0']
        elif med == 'one':
            argv += ['--medium=13,0.005,0']
        elif med == 'two':
            argv += ['--medium=13,0.005,0,10', '--medium=5,0.001,-1']
        elif med == 'two-circ':
            argv += ['--medium=13,0.005,0,10', '--medium=5,0.001,-1', '--boundary=circular']
        elif med == 'two-lastcoord':
            # a coordinate given for the last medium, which has no next medium: it extends to infinity all the same
            argv += ['--medium=13,0.005,0,10', '--medium=5,0.001,-1,%s' % rng.choice(['50', '5', '1e6'])]
        elif med == 'three':
            argv += ['--medium=13,0.005,0,10', '--medium=5,0.001,-1,30', '--medium=3,0.0005,-2'] + rng.choice([[], ['--boundary=circular'], ['--boundary=linear']])
        else:
            argv += ['--medium=13,0.005,0,12', '--medium=5,0.001,0', '--radial-count=%d' % rng.choice([8, 32]), '--radial-radius=0.001']
        meta['media'] = med
    # pulse counts are unknown here: address pulses conservatively (1 or 2 of an object with >= 3 segments, or absolute 1..2)
    big = [o for o in final if o[2] >= 3]
    ns = rng.choice([1, 1, 2])
    used = set()
    for k in range(ns):
        if big and rng.random() < 0.5:
            o = rng.choice(big)
            p = rng.choice([1, 2])
            key = ('rel', p, o[1])
            spec = '%d,%d' % (p, o[1])
        else:
            p = rng.choice([1, 2])
            key = ('abs', p)
            spec = '%d' % p
        if key in used:
            continue
        used.add(key)
        argv.append('--excitation-pulse=' + spec)
        v = rng.choice(['1', '1', '2', '0.5', '1j', '-1', '3-4j', '0.5+0.25j', '1+0j'])
        argv.append('--excitation-voltage=' + v)
    meta['sources'] = len(used)
    # lumped loads in random class order of *attachment*
    nl = rng.choice([0, 0, 1, 2, 3])
    loads = []
    for k in range(nl):
        kind = rng.choice(['load', 'load', 'rlc', 'trap', 'trap', 'laplace'])
        if kind == 'load':
            argv.append('--load=' + rng.choice(['50', '5+3j', '5-3j', '-2j', '0.5+100j', '1e3-1e-3j']))
        elif kind == 'rlc':
            argv.append('--rlc-load=' + rng.choice(['1,1e-6,1e-10', '10,,', ',2e-6,', ',,1e-10', '5,1e-6,', '50,0,1e-10', '0,0,4.7e-11', '0,3e-6,0', '50,,1e-10', '0,2e-6,3e-11', '7,0,0']))
        elif kind == 'trap':
            argv.append('--trap-load=' + rng.choice(['1,1e-5,1e-11', '1,1e-5,1e-11', '2,1.2e-6,1e-10', '1.5,3.3e-6,', '1.5,3.3e-6,0', '0,2e-6,5e-11']))
        else:
            argv.append('--laplace-load-a=' + rng.choice(['1', '0,1e-9', '1,1e-8']))
            argv.append('--laplace-load-b=' + rng.choice(['50', '1,2e-6', '1,2e-6,3e-12']))
        loads.append(kind)
    # index of a load as main() numbers them: load, rlc, trap, laplace
    order_idx = []
    for cls in ('load', 'rlc', 'trap', 'laplace'):
        order_idx += [i for i, k in enumerate(loads) if k == cls]
    attach = []
    for pos, orig in enumerate(order_idx):
        form = rng.choice(['abs', 'abs', 'rel', 'allobj', 'all'])
        if form == 'abs':
            attach.append('--attach-load=%d,%d' % (pos + 1, rng.choice([1, 2])))
        elif form == 'rel' and big:
            o = rng.choice(big)
            attach.append('--attach-load=%d,%d,%d' % (pos + 1, rng.choice([1, 2]), o[1]))
        elif form == 'allobj':
            attach.append('--attach-load=%d,all,%d' % (pos + 1, rng.choice(tags)))
        else:
            attach.append('--attach-load=%d,all' % (pos + 1))
    if attach and rng.random() < 0.15:
        attach.append(rng.choice(attach))        # the same attachment twice
    rng.shuffle(attach)
    argv += attach
    meta['loads'] = loads
    dist = rng.choice(['none', 'none', 'skin', 'skin-tag', 'res', 'coat', 'coat-tag', 'multi', 'multi'])
    if dist == 'multi':
        # several per-object loads of the same kind, possibly an all-wires load of the other kind
        for t in rng.sample(tags, min(len(tags), rng.randint(1, 3))):
            if rng.random() < 0.5:
                argv.append('--skin-effect-conductivity=%s,%d' % (rng.choice(['3.7e7', '5.8e7', '1e6']), t))
            else:
                argv.append('--skin-effect-resistivity=%s,%d' % (rng.choice(['2.8e-8', '1.7e-8']), t))
        k = rng.choice(['none', 'all', 'tags'])
        if k == 'all':
            argv.append('--insulation-load=%s,2.3' % g(seg / 10))
        elif k == 'tags':
            for t in rng.sample(tags, min(len(tags), rng.randint(1, 3))):
                argv.append('--insulation-load=%s,%s,%d' % (g(seg / rng.choice([8, 10, 12])), rng.choice(['2.3', '3']), t))
    elif dist == 'skin':
        argv.append('--skin-effect-conductivity=5.8e7')
    elif dist == 'skin-tag':
        argv.append('--skin-effect-conductivity=3.7e7,%d' % rng.choice(tags))
    elif dist == 'res':
        argv.append('--skin-effect-resistivity=2.8e-8')
    elif dist == 'coat':
        argv.append('--insulation-load=%s,2.3' % g(seg / 10))
    elif dist == 'coat-tag':
        argv.append('--insulation-load=%s,3,%d' % (g(seg / 10), rng.choice(tags)))
    meta['dist'] = dist
    argv += ['--theta=0,%d,%d' % (rng.choice([30, 45]), rng.randint(2, 3)), '--phi=0,%d,%d' % (rng.choice([90, 120]), rng.randint(1, 3))]
    return argv, meta
