"""C01 — power balance: source power = load dissipation + radiated far-field power.

Proof side : Pmn/Props/C01.lean — exact bookkeeping of the solved system: with the matrix
             Z0 + diag(c_p Z_L,p) and the right-hand side c_p V_p (c_p = -j g_p / m, the same weight on load
             and excitation, g_p = 2 on grounded pulses over ground) the source power is the load
             dissipation plus the power 1/2 Re(j m conj(I) (Z0 I) / g) taken by the unloaded structure
             (C01_split, C01_split_weights); consistency of the gain constants (C01_norm).
Tie        : hypotheses of C01_split on the implementation: Z(loaded) - Z(unloaded) = diag(-j g Z_L / m)
             at 1e-12, rhs = -j g V / m, residual of the solve; the identity itself evaluated at 1e-9.
Search     : the property itself: far-field gain integrated over the sphere / upper hemisphere
             (Gauss-Legendre in cos(theta) x uniform phi) against source power minus load dissipation,
             1.5 % of the apparent source power; <= over lossy ground.
Partial    : no theorem states that a pulse-basis moment method conserves power to 1.5 %.
Known findings (known_findings.json): the balance is off by more than 1.5 % for junctions of wires with
             unequal segment lengths / radii and for insulated wires; those classes are evaluated, reported
             as KNOWN-FINDING and excluded from the asserted exploration.
"""
import math, random, re, json, os
import numpy as np
import antgen, farlib

LEVEL = 'proof'
MODULES = ['C01']
ROOT = os.path.dirname(os.path.dirname(os.path.abspath(__file__)))


def prad_ratio(m, ground, nth=24, nph=32, pwr=None):
    """(1/4 pi) * integral of the linear total gain over the sphere (upper hemisphere over ground)"""
    xs, ws = np.polynomial.legendre.leggauss(nth)
    if ground:
        ct, wt = (xs + 1) / 2, ws / 2
    else:
        ct, wt = xs, ws
    th = np.degrees(np.arccos(ct))
    ph = np.arange(nph) * 360.0 / nph
    # the gain pattern (dBi) does not depend on a requested power level
    m.compute_far_field(farlib.DirAngles(th), farlib.DirAngles(ph), **({} if pwr is None else dict(pwr=pwr)))
    g = np.array(m.far_field.gain)[..., 2]
    lin = np.where(g <= -900, 0.0, 10 ** (g / 10))
    return float(np.sum(lin * wt[:, None]) * (2 * np.pi / nph) / (4 * np.pi))


_DRV = [None]


def _driver():
    if _DRV[0] is None:
        import common
        _DRV[0] = common.Driver()
    return _DRV[0]


def model_prad_ratio(m, env=None, nth=24, nph=32):
    """the same integral over the far field of the Lean model (tied to `compute_far_field` at 1e-9 by C10 / C11) for the
    solved currents of `m`; `env='ideal'`: the same currents over a perfect ground"""
    xs, ws = np.polynomial.legendre.leggauss(nth)
    ct, wt = (xs + 1) / 2, ws / 2
    th = np.degrees(np.arccos(ct))
    ph = np.arange(nph) * 360.0 / nph
    dirs = [(float(t), float(p)) for p in ph for t in th]
    mod = farlib.model_far(_driver(), m, dirs, env)
    lin = np.array([x['lin'][2] for x in mod]).reshape(nph, nth)
    return float(np.sum(lin * wt[None, :]) * (2 * np.pi / nph) / (4 * np.pi))


def in_domain(ant):
    """documented modelling rules: segment length lambda/200 .. lambda/10 and >= 8 radii"""
    lam = ant['lam']
    for w in ant['wires']:
        L = np.linalg.norm(np.array(w['p1']) - np.array(w['p0'])) / w['nseg']
        if not (lam / 200 <= L <= lam / 10) or L < 8 * w['r']:
            return False
    return True


# the finding `tapered-wire` is a bounded class: on tapered wires (neighbouring segments differing by the factor 2) the
# balance is off by up to 2.2 % (950 generated structures); beyond TAPER_BOUND it is a violation all the same
TAPER_BOUND = 0.04


def structure_class(ant, loads, env=None):
    """classes of the known findings: unequal segment lengths / radii at a junction, insulated wires, branching
    junctions with segments longer than 1/15 wavelength"""
    segs = [np.linalg.norm(np.array(w['p1']) - np.array(w['p0'])) / w['nseg'] for w in ant['wires']]
    rads = [w['r'] for w in ant['wires']]
    cls = []
    if len(ant['wires']) > 1 and (max(segs) / min(segs) > 1.02 or max(rads) / min(rads) > 1.02):
        cls.append('junction-unequal-segments')
    if any(l[0] == 'coat' for l in loads):
        cls.append('insulated-wire')
    # a tapered wire: neighbouring segments differ by the factor 2 (bounded class, see TAPER_BOUND)
    if any(w.get('segtype') for w in ant['wires']):
        cls.append('tapered-wire')
    # three or more wire ends meeting in one point with segments longer than 1/15 wavelength
    ends = {}
    for w in ant['wires']:
        for e in ('p0', 'p1'):
            k = tuple(round(float(x) / (1e-3 * min(segs)), 0) for x in w[e])
            ends[k] = ends.get(k, 0) + 1
    if max(ends.values()) >= 3 and max(segs) > ant['lam'] / 15:
        cls.append('coarse-segments-at-branching-junction')
    # a mostly horizontal wire lower than 0.15 wavelength over real (lossy) ground
    if env in ('real1', 'real2', 'radials'):
        for w in ant['wires']:
            d = np.array(w['p1']) - np.array(w['p0'])
            if abs(d[2]) < 0.5 * np.linalg.norm(d) and (w['p0'][2] + w['p1'][2]) / 2 < 0.15 * ant['lam']:
                cls.append('low-horizontal-wire-over-real-ground')
                break
    return cls


def gen_case(rng, uniform=True, small=True, families=None, env_choice=None):
    kw = dict(len_jitter=(1, 1), rad_jitter=(1, 1)) if uniform else {}
    ant = antgen.gen_antenna(rng, families=families, max_pulses=14 if small else 30, **kw)
    env = 'free'
    if ant['ground']:
        env = rng.choice(['ideal', 'ideal', 'real1', 'real2', 'radials'])
        if env_choice:
            env = env_choice
    m = build(ant, env, [])
    N = len(m.pulses)
    loads = []
    mode = rng.choice(['none', 'res', 'reac', 'skin', 'mixed'] + ([] if uniform else ['coat']))
    if mode in ('res', 'reac', 'mixed'):
        for k in range(rng.randint(1, 3)):
            if mode == 'res':
                z = complex(10 ** rng.uniform(-1, 3.5), 0)
            else:
                z = complex(rng.choice([0, 10 ** rng.uniform(-1, 2)]), rng.choice([1, -1]) * 10 ** rng.uniform(0, 3.3))
            pl = sorted(rng.sample(range(N), rng.randint(1, min(N, 4))))
            if rng.random() < 0.3:
                pl.append(rng.choice(pl))        # the same load twice on one pulse: two such loads in series
            loads.append(('imp', [z.real, z.imag], pl))
    if mode in ('skin', 'mixed'):
        loads.append(('skin', 10 ** rng.uniform(5, 8), None))
    if mode == 'coat':
        loads.append(('coat', [rng.uniform(1.2, 3), rng.uniform(1.5, 5)], None))
    k = rng.randint(1, min(3, N))
    srcs = []
    for p in antgen.source_pulses(rng, m, k):
        mag = 10 ** rng.uniform(-1, 1.5)
        ph = rng.uniform(-math.pi, math.pi) if rng.random() < 0.7 else 0.0
        srcs.append((p, [mag * math.cos(ph), mag * math.sin(ph)]))
    if ant['family'] == 'varray':
        # an array proper: every element driven near its centre with comparable voltages and arbitrary phases
        srcs, k0 = [], 0
        for w in ant['wires']:
            ph = rng.uniform(-math.pi, math.pi)
            mag = rng.uniform(0.5, 2.0)
            srcs.append((k0 + (w['nseg'] - 1) // 2, [mag * math.cos(ph), mag * math.sin(ph)]))
            k0 += w['nseg'] - 1
        if k0 != N:
            srcs = srcs[:1]
    return dict(ant=ant, env=env, loads=loads, srcs=srcs)


def build(ant, env, loads, srcs=()):
    from mininec.mininec import Medium, Impedance_Load, Skin_Effect_Load, Insulation_Load, Excitation
    media = None
    if env == 'real1':
        media = [Medium(13.0, 0.005)]
    elif env == 'real2':
        media = [Medium(13.0, 0.005, coord=15.0), Medium(5.0, 0.001, height=0)]
    elif env == 'radials':
        media = [Medium(13.0, 0.005, nradials=16, radius=0.001, coord=12.0), Medium(5.0, 0.001, height=0)]
    m = antgen.build(ant, media=media)
    for kind, par, pulses in loads:
        if kind == 'imp':
            ld = Impedance_Load(complex(*par))
            for p in pulses:
                m.register_load(ld, p)
        elif kind == 'skin':
            for w in m.geo:
                m.register_load(Skin_Effect_Load(w, par, all_wires=True), None, w.tag)
        elif kind == 'coat':
            rmax = max(w.r for w in m.geo)
            for w in m.geo:
                m.register_load(Insulation_Load(w, rmax * par[0], par[1], all_wires=True), None, w.tag)
    if any(k in ('skin', 'coat') for k, _, _ in loads):
        m.fix_distributed_loads()
    for p, v in srcs:
        m.register_source(Excitation(complex(*v)), p)
    return m


def evaluate(case):
    """-> dict(dev, app, identity, tie) ; dev = (P_src - P_loads - P_rad) / apparent power"""
    ant, env = case['ant'], case['env']
    m = build(ant, env, case['loads'], case['srcs'])
    m.compute()
    N = len(m.pulses)
    P = float(m.power)
    app = sum(0.5 * abs(s.voltage) * abs(s.current) for s in m.sources)
    psrc = sum(0.5 * (s.voltage * np.conj(s.current)).real for s in m.sources)
    zl = np.zeros(N, complex)
    for l in m.loads:
        for p in l.pulses:
            zl[p.idx] += l.impedance(m.f, p)
    pl = float(np.sum(0.5 * zl.real * np.abs(m.current) ** 2))
    ground = m.media is not None
    g = np.array([2.0 if (ground and p.ground.any()) else 1.0 for p in m.pulses])
    c = -1j * g / m.m
    tie = {}
    if not any(k == 'coat' for k, _, _ in case['loads']):
        m0 = build(ant, env, [], case['srcs'])
        m0.compute()
        sc = np.max(np.abs(m0.Z))
        tie['matrix'] = float(np.max(np.abs(m.Z - m0.Z - np.diag(c * zl))) / sc)
        Z0 = m0.Z
    else:
        Z0 = m.Z - np.diag(c * zl)
    v = np.zeros(N, complex)
    for s in m.sources:
        v[s.idx] = s.voltage
    tie['rhs'] = float(np.max(np.abs(m.rhs - c * v)) / max(np.max(np.abs(m.rhs)), 1e-300))
    tie['residual'] = float(np.max(np.abs(m.Z @ m.current - m.rhs)) / max(np.max(np.abs(m.rhs)), 1e-300))
    pz0 = float(np.sum(0.5 * ((Z0 @ m.current) / c * np.conj(m.current)).real))
    identity = float(abs(psrc - pl - pz0) / app)
    tie['power_attr'] = float(abs(psrc - P) / app)
    # a third of the cases ask for the pattern at a power level of their own (a function of the case)
    hp = int(abs(P) * 1e9) % 3
    pr = prad_ratio(m, ground, pwr=[None, 100.0, 0.37][hp]) * P
    out = dict(dev=(P - pl - pr) / app, app=app, P=P, loads=pl, rad=pr, identity=identity, tie=tie,
               cond=antgen.cond(m), lossy=env in ('real1', 'real2', 'radials'))
    if out['lossy'] and out['dev'] < -0.015:
        # what explains an excess over lossy ground: the far field of the very same currents over a perfect ground (model)
        out['rad_model'] = model_prad_ratio(m) * P
        out['rad_model_ideal'] = model_prad_ratio(m, 'ideal') * P
    return out


def lossy_excess_class(r):
    """known-finding class of the lossy-ground clause: the currents are solved over a perfect ground, the far field uses
    the reflection coefficients of the real ground.  A case is in the class when (a) with the far field of the *same
    currents over a perfect ground* the balance holds at 1.5 %, (b) the reported real-ground field is the model's field
    (1e-6 of the radiated power), (c) the model's real-ground field carries more power than its perfect-ground field —
    i.e. the excess is entirely the difference between the two reflection laws, nothing else is off"""
    if 'rad_model' not in r:
        return False
    a = abs(r['P'] - r['loads'] - r['rad_model_ideal']) <= 0.015 * r['app']
    b = abs(r['rad'] - r['rad_model']) <= 1e-6 * max(abs(r['rad_model']), 1e-300)
    c = r['rad_model'] > r['rad_model_ideal']
    return a and b and c


def judge(r):
    if r['lossy']:
        if r['dev'] < -0.015:
            return 'radiated plus dissipated power exceeds the delivered power by %.3g of the apparent power (lossy ground)' % (-r['dev'])
        return None
    if abs(r['dev']) > 0.015:
        return 'source power %.6g, load dissipation %.6g, integrated far field %.6g: balance off by %.3g of the apparent power' % (
            r['P'], r['loads'], r['rad'], r['dev'])
    return None


def replay(rp):
    if 'case' not in rp:
        print('replay: nothing to execute:', rp.get('kind'))
        return 1
    r = evaluate(rp['case'])
    bad = judge(r)
    if bad and lossy_excess_class(r):
        print('replay: in the known-finding class lossy-ground-field-exceeds-perfect-ground-field:', bad)
        bad = None
    if bad and structure_class(rp['case']['ant'], rp['case']['loads'], rp['case'].get('env')) == ['tapered-wire'] and abs(r['dev']) <= TAPER_BOUND:
        print('replay: in the known-finding class tapered-wire:', bad)
        bad = None
    if not bad and r['identity'] > 1e-9:
        bad = 'source power differs from load dissipation plus matrix power by %.3g' % r['identity']
    print('replay ->', bad or 'property holds', {k: r[k] for k in ('dev', 'identity', 'cond')})
    return 1 if bad else 0


def run(ck):
    ck.proof_side()
    ck.cov['further_clauses'] = 'block of sloped monopoles ending on a perfect ground; 50 (250) inverted Vs of tapered legs'
    rng = ck.rng
    _DRV[0] = ck.get_driver()
    n = 36 if ck.tier == 'quick' else 700
    dis, viol = [], []
    kf = json.load(open(os.path.join(ROOT, 'known_findings.json')))
    listed = [f for f in kf['findings'] if f.get('property') == 'C01']
    # 1. listed findings: replay; still failing -> KNOWN-FINDING, no longer failing -> nothing
    for f in listed:
        r = evaluate(f['case'])
        ck.case(('known', f['id']), True)
        if judge(r):
            ck.report_known(f['id'], '%s: %s (listed input: balance off by %.3g)' % (f['id'], f['what'], r['dev']))
    worst = 0.0
    worst_id = 0.0
    ntv = 50 if ck.tier == 'quick' else 250        # further inverted Vs of tapered legs (bounded known-finding class, asserted at 4 %)
    nme = 12 if ck.tier == 'quick' else 80         # sloped monopoles whose second end is on a perfect ground
    for i in range(n + ntv + nme):
        uniform = (i % 5 != 4) or i >= n
        me = i >= n + ntv
        # sloped wires ending on the ground are solved over a perfect ground as well as over the other kinds: over a lossy ground
        # only an excess of radiated power is a violation, over a perfect ground the balance has to close either way
        case = gen_case(rng, uniform=uniform, small=ck.tier == 'quick', env_choice='ideal' if me else None,
                        families=['monopole_end2'] if me else ['taper_vee'] if i >= n else ['varray'] if i % 9 == 2 else ['monopole'] if i % 9 == 5 else ['monopole_end2'] if i % 9 == 7 else ['taper_vee'] if i % 9 == 3 else None)
        if not in_domain(case['ant']):
            ck.count('outside_modelling_rules')
            continue
        try:
            r = evaluate(case)
        except Exception as e:
            viol.append(dict(kind='balance', case=case, observed='evaluation raised %s: %s' % (type(e).__name__, e)))
            continue
        if r['cond'] > 1e5:
            ck.count('skipped_cond')
            continue
        cls = structure_class(case['ant'], case['loads'], case.get('env'))
        mode = '+'.join(sorted(set(k for k, _, _ in case['loads']))) or 'none'
        ck.case((case['ant']['family'], case['env'], mode, len(case['srcs']), bool(cls), i), True,
                sample=dict(family=case['ant']['family'], env=case['env'], loads=mode, sources=len(case['srcs']), finding_class=cls))
        ck.count('env_' + case['env']); ck.count('loads_' + mode)
        worst_id = max(worst_id, r['identity'])
        t = r['tie']
        if r['identity'] > 1e-9 or t.get('matrix', 0) > 1e-12 or t['rhs'] > 1e-12 or t['residual'] > 1e-9 or t['power_attr'] > 1e-12:
            dis.append(dict(case=case, why='bookkeeping: identity %.3g, tie %r' % (r['identity'], t)))
        bad = judge(r)
        if bad and lossy_excess_class(r):
            ck.count('lossy_excess_class')
            fid = 'low-horizontal-wire-over-real-ground' if 'low-horizontal-wire-over-real-ground' in cls else 'lossy-ground-field-exceeds-perfect-ground-field'
            ck.report_known(fid, '%s: %s (%s; with the far field of the same currents over a perfect ground the balance is %.3g)'
                            % (fid, bad, case['ant']['family'], (r['P'] - r['loads'] - r['rad_model_ideal']) / r['app']))
            continue
        cls = [c for c in cls if c != 'low-horizontal-wire-over-real-ground']
        if cls == ['tapered-wire'] and bad and abs(r['dev']) > TAPER_BOUND:
            viol.append(dict(kind='balance', case=case, observed=bad + ' (tapered wires: more than the %.0f %% known for them)' % (100 * TAPER_BOUND)))
            continue
        if cls:
            ck.count('in_known_finding_class')
            if bad:
                ck.count('known_class_over_tolerance')
                for c in cls:
                    ck.report_known(c, '%s: %s' % (c, bad))
            continue
        worst = max(worst, abs(r['dev']) if not r['lossy'] else max(0.0, -r['dev']))
        if bad:
            viol.append(dict(kind='balance', case=case, observed=bad))
    ck.stats['disagreements'] = len(dis)
    ck.stats['worst_balance_asserted'] = worst
    ck.stats['worst_identity'] = worst_id
    ck.cov['rule'] = ('antennas of the shared generator (dipole, vee, ell, tee, star with 3-4 wires, monopole, top-loaded monopole, '
                      'two-element array, ground-plane antenna, polygon loop) inside the documented modelling rules, in free space, over '
                      'ideal ground, one and two real media, radials; 1-3 sources with complex voltages on distinct pulses; no loads, '
                      'resistive, reactive and complex lumped loads on 1-4 pulses, skin effect. Asserted at 1.5 %: structures whose wires '
                      'all have the same segment length and radius (4 of 5 cases). Every fifth case has unequal segment lengths / radii '
                      'at junctions or insulated wires: evaluated, reported as KNOWN-FINDING when over 1.5 %, not asserted; tapered wires '
                      '(inverted V of two tapered legs, tapered monopoles) are asserted at 4 % (known finding between 1.5 % and 4 %)')
    ck.assumptions += ['sphere integral: 24-point Gauss-Legendre in cos(theta) x 32 uniform azimuths (patterns of structures below one '
                       'wavelength are band-limited well below that)',
                       'apparent source power = sum over sources of |V||I|/2']
    seen = set()
    for v in viol:
        k = re.sub(r'[0-9.e+-]+', '#', v['observed'])[:40]
        if k not in seen:
            seen.add(k)
            ck.violation(v)
    if (dis or ck.broken) and not viol:
        # search: any case whose balance is off
        ck.violation(dict(kind='broken-tie', detail=dict(broken=ck.broken, disagreements=[x['why'] for x in dis[:3]]),
                          case=dis[0]['case'] if dis else None,
                          theorem='Pmn.Props.C01.C01_split hypotheses / correspondence load and excitation weights'),
                     found_input=False)
