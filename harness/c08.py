"""C08 — loads act as the series circuit elements they describe.

Proof side : Pmn/Props/C08.lean (feed-impedance shift incl. grounded pulses, sum of loads, RLC / RL /
             trap identities, neutral loads, sigma <-> 1/rho, skin-effect asymptote).
Tie        : every load class' `.impedance` vs the Lean circuit functions; cached per-length values
             `Geobj.zint` / `Geobj.zins` and the equivalent radius vs the Lean closed forms (the model's
             own Bessel ratio is thereby validated against scipy); diagonal increments
             (Z after loads − Z before) vs Lean `loadDiag` for random attachments in all forms.
Search     : loaded vs unloaded feed impedance; distributed loads vs closed form per pulse.
"""
import math, cmath, re
import numpy as np
import antgen
from common import f2b, b2f, close

LEVEL = 'proof'
MODULES = ['C08']
MU0 = 1.25663706127e-6


def cxa(ans):
    v = [b2f(t) for t in ans.split()]
    return [complex(v[i], v[i + 1]) for i in range(0, len(v), 2)]


def logu(rng, lo, hi):
    return 10 ** rng.uniform(lo, hi)


def opt(x):
    return 'n' if x is None else f2b(x)


def lumped_cases(rng, d, ck, n):
    from mininec.mininec import Laplace_Load, Series_RLC_Load, Trap_Load
    dis = []
    for i in range(n):
        f = logu(rng, -1, 3)
        w = 2 * np.pi * f * 1e6
        kind = rng.choice(['rlc', 'rlc', 'trap', 'laplace'])
        if kind == 'rlc':
            R = rng.choice([None, 0.0, logu(rng, -6, 6)])
            L = rng.choice([None, 0.0, logu(rng, -12, 0)])
            Cc = rng.choice([None, 0.0, logu(rng, -15, -3)])
            if R is None and L is None and Cc is None:
                R = 1.0
            try:
                z = Series_RLC_Load(R, L, Cc).impedance(f)
            except ZeroDivisionError:
                continue
            zm = cxa(d.ask('ckt rlc', f2b(w), opt(R), opt(L), opt(Cc)))[0]
            key = ('rlc', R is None, L is None, Cc is None, R == 0, L == 0, Cc == 0)
            sample = dict(kind='rlc', R=R, L=L, C=Cc, f=f)
        elif kind == 'trap':
            R, L, Cc = logu(rng, -6, 4), logu(rng, -9, -3), logu(rng, -13, -8)
            z = Trap_Load(R, L, Cc).impedance(f)
            zm = cxa(d.ask('ckt trap', f2b(w), f2b(R), f2b(L), f2b(Cc)))[0]
            key = ('trap', round(math.log10(R)), round(math.log10(L)), round(math.log10(Cc)))
            sample = dict(kind='trap', R=R, L=L, C=Cc, f=f)
        else:
            na, nb = rng.randint(1, 4), rng.randint(1, 4)
            a = [rng.choice([0.0, 1.0, logu(rng, -12, 2) * rng.choice([1, -1])]) for _ in range(na)]
            b = [rng.choice([0.0, 1.0, logu(rng, -12, 2) * rng.choice([1, -1])]) for _ in range(nb)]
            if all(x == 0 for x in a):
                a[0] = 1.0
            with np.errstate(all='ignore'):
                z = Laplace_Load(a=a, b=b).impedance(f)
            zm = cxa(d.ask('ckt laplace', f2b(w), na, *[f2b(x) for x in a], nb, *[f2b(x) for x in b]))[0]
            key = ('laplace', na, nb, tuple(x == 0 for x in a), tuple(x == 0 for x in b))
            sample = dict(kind='laplace', a=a, b=b, f=f)
        ck.case(key, True, sample=sample)
        ck.count('lumped_' + kind)
        if not (cmath.isfinite(z) and cmath.isfinite(zm)):
            if cmath.isfinite(z) != cmath.isfinite(zm):
                dis.append(dict(kind='lumped', sample=sample, impl=str(z), model=str(zm)))
            continue
        if not close(z, zm, 1e-10, 1e-300):
            dis.append(dict(kind='lumped', sample=sample, impl=str(z), model=str(zm)))
    return dis


def gen_loaded(rng, small=False, allow_single=True):
    """antenna + sources + loads of every kind attached in every form, through the API"""
    from mininec.mininec import (Impedance_Load, Series_RLC_Load, Trap_Load, Laplace_Load,
                                 Skin_Effect_Load, Insulation_Load, Excitation)
    ant = antgen.gen_antenna(rng, max_pulses=14 if small else 22)
    if allow_single and rng.random() < 0.25 and ant['family'] in ('vee', 'ell', 'tee', 'star', 'monopole_top'):
        ant['wires'][0]['nseg'] = 1 if not ant['ground'] else ant['wires'][0]['nseg']
    media = None
    if ant['ground'] and rng.random() < 0.5:
        from mininec.mininec import Medium
        media = [Medium(rng.uniform(3, 30), 10 ** rng.uniform(-3, -1))]
        if rng.random() < 0.5:
            media = [Medium(13.0, 0.005, coord=rng.uniform(5, 20)), Medium(5.0, 0.001, height=0)]
    m = antgen.build(ant, media=media)
    N = len(m.pulses)
    desc = ['real-ground' if media else ('ideal-ground' if ant['ground'] else 'free')]
    nl = rng.randint(1, 4)
    for i in range(nl):
        k = rng.choice(['imp', 'imp', 'rlc', 'trap', 'laplace'])
        if k == 'imp':
            ld = Impedance_Load(complex(logu(rng, -3, 4) * rng.choice([1, 1, 0]), logu(rng, -3, 4) * rng.choice([1, -1, 0])))
        elif k == 'rlc':
            ld = Series_RLC_Load(logu(rng, -3, 3), logu(rng, -9, -5), rng.choice([None, logu(rng, -12, -9)]))
        elif k == 'trap':
            ld = Trap_Load(logu(rng, -2, 2), logu(rng, -7, -5), logu(rng, -12, -10))
        else:
            ld = Laplace_Load(a=(1.0, logu(rng, -9, -7)), b=(logu(rng, -1, 2), logu(rng, -8, -6)))
        form = rng.choice(['abs', 'abs', 'rel', 'allobj', 'all'])
        if form == 'abs':
            ps = rng.sample(range(N), min(N, rng.randint(1, 2)))
            if rng.random() < 0.25:
                ps.append(ps[0])                 # the same load twice on one pulse (in series)
            for p in ps:
                m.register_load(ld, p)
        elif form == 'rel':
            w = rng.choice([g for g in m.geo if g.pulses] or [None])
            if w is None:
                continue
            m.register_load(ld, rng.randrange(len(w.pulses)), w.tag)
        elif form == 'allobj':
            m.register_load(ld, None, rng.choice(list(m.geo)).tag)
        else:
            m.register_load(ld, None, None)
        desc.append((k, form))
    dist = rng.choice(['none', 'skin', 'coat', 'both', 'skin1', 'coat1', 'skinmix', 'skinmix'])
    if dist in ('skin', 'both'):
        sig = logu(rng, 4, 8)
        for w in m.geo:
            m.register_load(Skin_Effect_Load(w, sig, all_wires=True), None, w.tag)
    if dist == 'skinmix':
        # a different material per wire, given as conductivity or as resistivity, registered in random order
        ws = list(m.geo)
        rng.shuffle(ws)
        for w in ws:
            sig = logu(rng, 4, 8)
            if rng.random() < 0.5:
                m.register_load(Skin_Effect_Load(w, sig), None, w.tag)
            else:
                m.register_load(Skin_Effect_Load(w, resistivity=1 / sig), None, w.tag)
    if dist == 'skin1':
        w = rng.choice(list(m.geo))
        m.register_load(Skin_Effect_Load(w, resistivity=1 / logu(rng, 4, 8)), None, w.tag)
    if dist in ('coat', 'both'):
        rmax = max(w.r for w in m.geo)
        rc, eps = rmax * rng.uniform(1.2, 4), rng.uniform(1.0, 6)
        for w in m.geo:
            m.register_load(Insulation_Load(w, rc, eps, all_wires=True), None, w.tag)
    if dist == 'coat1':
        w = rng.choice(list(m.geo))
        m.register_load(Insulation_Load(w, w.r * rng.uniform(1.2, 4), rng.uniform(1.0, 6)), None, w.tag)
    m.fix_distributed_loads()
    desc.append(dist)
    if N:
        p = rng.randrange(N)
        m.register_source(Excitation(1 + 0j), p)
    return ant, m, desc


def closed_form_pulse(m, ld, pulse):
    """independent closed form of a distributed load on one pulse (reference for the search)"""
    from mininec.mininec import Skin_Effect_Load, Insulation_Load
    from scipy.special import jv
    omg = 2 * np.pi * m.f * 1e6
    x = 0j
    for seg in pulse.segs:
        g = seg.geobj
        if isinstance(ld, Insulation_Load):
            c = g.coat_load
            if not c:
                continue
            zins = MU0 * (c.epsilon_r - 1) / c.epsilon_r * math.log(c.radius / g.r_orig) / (2 * np.pi)
            x += zins * omg * 1j * seg.seg_len / 2
        else:
            s = g.skin_load
            if s is None:
                continue
            k = np.sqrt(-1j * omg * MU0 * s.conductivity)
            kr = k * g.r_orig
            b = jv(0, kr) / jv(1, kr) if abs(kr) < 110.0 else 1j
            x += k / (2 * np.pi * g.r_orig * s.conductivity) * b * seg.seg_len / 2
    return x


def property_distributed(m):
    from mininec.mininec import Skin_Effect_Load, Insulation_Load
    # completeness: every pulse with a (real) half segment on a wire that carries a skin-effect / insulation load is
    # loaded by a load of that kind — whichever wire owns the pulse, however many wires meet there
    for kind, attr in ((Skin_Effect_Load, 'skin_load'), (Insulation_Load, 'coat_load')):
        listed = set()
        for ld in m.loads:
            if isinstance(ld, kind):
                listed.update(p.idx for p in ld.pulses)
        for p in m.pulses:
            for h in (0, 1):
                if p.ground[h]:
                    continue
                g = p.segs[h].geobj
                if getattr(g, attr, None) is not None and p.idx not in listed:
                    return ('pulse %d has a half segment on object %d, which carries a %s, but no load of that kind is attached to it'
                            % (p.idx + 1, g.n + 1, kind.__name__))
    for ld in m.loads:
        if isinstance(ld, (Skin_Effect_Load, Insulation_Load)):
            for p in ld.pulses:
                z = ld.impedance(m.f, p)
                ref = closed_form_pulse(m, ld, p)
                if abs(z - ref) > 1e-9 * max(abs(ref), 1e-30):
                    return ('%s on pulse %d is %r, closed form per-length impedance times conductor length gives %r'
                            % (type(ld).__name__, p.idx + 1, complex(z), complex(ref)))
    return None


def property_feed_shift(ant, p, zl, real_ground=False):
    from mininec.mininec import Impedance_Load, Excitation, Medium
    media = (lambda: [Medium(13.0, 0.005)]) if real_ground else (lambda: None)
    m0 = antgen.build(ant, media=media()); m0.register_source(Excitation(1 + 0j), p); m0.compute()
    m1 = antgen.build(ant, media=media()); m1.register_source(Excitation(1 + 0j), p)
    m1.register_load(Impedance_Load(zl), p); m1.compute()
    cn = antgen.cond(m0)
    if cn > 1e5:
        return None
    d = m1.sources[0].impedance - m0.sources[0].impedance
    tol = 1e-9 * max(cn, 1) * max(abs(m0.sources[0].impedance), abs(zl))
    if abs(d - zl) > tol:
        return 'load %r on feed pulse %d shifts the feed impedance by %r' % (zl, p + 1, d)
    # the same on an object that is taken through a frequency sweep, as `main` does with `--frequency-steps`: at every step the
    # load is the series element at *that* frequency
    fr = dict(ant, fresh=True)
    m4 = antgen.build(fr, media=media()); m4.register_source(Excitation(1 + 0j), p)
    m4.register_load(Impedance_Load(zl), p)
    f0 = m4.f
    for fac in (0.8, 1.25, 1.0):
        m4.f = f0 * fac
        m4.compute()
    d4 = m4.sources[0].impedance - m0.sources[0].impedance
    if abs(d4 - zl) > tol:
        return ('load %r on feed pulse %d shifts the feed impedance by %r at the third step of a frequency sweep of one object'
                % (zl, p + 1, d4))
    # "several loads on one pulse act as their sum", also when it is one load definition that reaches the pulse through
    # several attachments (the pulse itself twice; the whole object / antenna plus the pulse): each attachment is listed
    # as a load of its own and acts in series
    for how in ('twice', 'all+pulse', 'object+pulse'):
        m2 = antgen.build(ant, media=media()); m2.register_source(Excitation(1 + 0j), p)
        ld = Impedance_Load(zl)
        if how == 'twice':
            m2.register_load(ld, p); m2.register_load(ld, p)
        elif how == 'all+pulse':
            m2.register_load(ld); m2.register_load(ld, p)
        else:
            g = m2.pulses[p].geobj
            k = [q.idx for q in g.pulses].index(p)
            m2.register_load(ld, None, g.tag); m2.register_load(ld, k, g.tag)
        m2.compute()
        # reference: the same attachments with one load object each
        m3 = antgen.build(ant, media=media()); m3.register_source(Excitation(1 + 0j), p)
        for q in ld.pulses:
            m3.register_load(Impedance_Load(zl), q.idx)
        m3.compute()
        z2, z3 = m2.sources[0].impedance, m3.sources[0].impedance
        if abs(z2 - z3) > 1e-9 * max(antgen.cond(m3), 1) * max(abs(z3), abs(zl)):
            return ('one load of %r ohm attached %s (feed pulse %d): feed impedance %r; the same attachments as separate loads give %r'
                    % (zl, {'twice': 'twice to the feed pulse', 'all+pulse': 'to the whole antenna and to the feed pulse',
                            'object+pulse': 'to its whole object and to the feed pulse'}[how], p + 1, z2, z3))
        if how == 'twice' and abs((z2 - m0.sources[0].impedance) - 2 * zl) > tol * 2:
            return 'load %r attached twice to feed pulse %d shifts the feed impedance by %r' % (zl, p + 1, z2 - m0.sources[0].impedance)
    return None


def replay(rp):
    k = rp.get('kind')
    if k == 'feed-shift':
        bad = property_feed_shift(rp['ant'], rp['pulse'], complex(*rp['zl']), rp.get('real_ground', False))
    elif k == 'pulseless-loaded-wire':
        bad = dict(pulseless_corpus()).get(rp['case'])
    elif k == 'distributed':
        import random
        rng = random.Random(rp['gen_seed'])
        ant, m, desc = gen_loaded(rng, small=rp.get('small', False))
        m.compute()
        bad = property_distributed(m)
    elif k == 'insulation-junction':
        bad = insulation_corpus_case()
    else:
        print('replay: nothing to execute:', k)
        return 1
    print('replay ->', bad or 'property holds')
    return 1 if bad else 0


def insulation_corpus_case():
    """corpus: a one-segment insulated wire joined to a thicker insulated wire"""
    from mininec.mininec import Mininec, Wire, Insulation_Load, Excitation
    ws = [Wire(1, 0, 0, 0, 0, 0, 1, .001), Wire(4, 0, 0, 1, 0, 1, 1, .003)]
    m = Mininec(10, ws)
    for w in m.geo:
        m.register_load(Insulation_Load(w, .005, 3.0, all_wires=True), None, w.tag)
    m.fix_distributed_loads()
    m.register_source(Excitation(1), 2)
    m.compute()
    return property_distributed(m)


def pulseless_corpus():
    """corpus: a one-segment wire that owns no pulse (defined first, its other end free, or between two later wires) carrying a
    skin-effect or insulation load of its own while the wires joined to it carry none — its half segments sit in junction
    pulses owned by the other wires, which must carry the load.  Returns (description, violation or None) per case."""
    from mininec.mininec import Mininec, Wire, Insulation_Load, Skin_Effect_Load, Excitation
    out = []
    for kind in ('skin', 'coat'):
        for shape in ('stub-first', 'stub-between', 'stub-last'):
            stub = lambda: Wire(1, 0, 0, 0, 0, 0, 1, .001, tag=(2 if shape == 'stub-last' else 1))
            if shape == 'stub-first':
                ws = [stub(), Wire(4, 0, 0, 1, 0, 1, 1, .003, tag=5)]
            elif shape == 'stub-between':
                ws = [stub(), Wire(4, 0, 0, 1, 0, 1, 1, .003, tag=5), Wire(3, 0, 0, 0, 1, 0, -0.5, .002, tag=7)]
            else:
                ws = [Wire(4, 0, 0, 1, 0, 1, 1, .003, tag=1), stub()]
            m = Mininec(10, ws)
            w = [g for g in m.geo if g.n_segments == 1][0]
            ld = Skin_Effect_Load(w, 3e5) if kind == 'skin' else Insulation_Load(w, .005, 3.0)
            m.register_load(ld, None, w.tag)
            m.fix_distributed_loads()
            m.register_source(Excitation(1), 1)
            m.compute()
            out.append(('%s load on the one-segment wire only, %s' % (kind, shape), property_distributed(m)))
    return out


def run(ck):
    from mininec.mininec import Skin_Effect_Load, Insulation_Load
    import random
    ck.proof_side()
    ck.cov['further_clauses'] = 'feed-shift clause takes one object through a three-step frequency sweep'
    d = ck.get_driver()
    rng = ck.rng
    dis = lumped_cases(rng, d, ck, 400 if ck.tier == 'quick' else 6000)
    viol = []
    # corpus first
    bad = insulation_corpus_case()
    ck.case(('corpus', 'insulation-junction'), True)
    if bad:
        viol.append(dict(kind='insulation-junction', observed=bad,
                         api=['Wire(1,0,0,0,0,0,1,.001)', 'Wire(4,0,0,1,0,1,1,.003)', 'Insulation_Load(w,.005,3.0) on both', 'f=10']))
    for desc_, bad_ in pulseless_corpus():
        ck.case(('corpus', desc_), True)
        if bad_:
            viol.append(dict(kind='pulseless-loaded-wire', case=desc_, observed=bad_))
    n = 120 if ck.tier == 'quick' else 2000
    viol_d = []
    for i in range(n):
        gs = rng.randrange(10 ** 9)
        r2 = random.Random(gs)
        ant, m, desc = gen_loaded(r2, small=(ck.tier == 'quick'))
        N = len(m.pulses)
        if N == 0:
            continue
        m.compute_impedance_matrix()
        Z0 = m.Z.copy()
        m.compute_impedance_matrix_loads()
        dZ = m.Z - Z0
        ck.case((ant['family'], ant['ground'], N, tuple(str(x) for x in desc)), True,
                sample=dict(family=ant['family'], ground=ant['ground'], pulses=N, loads=[str(x) for x in desc]))
        for x in desc:
            ck.count('load_' + (x if isinstance(x, str) else '%s_%s' % x))
        why = None
        off = dZ - np.diag(np.diag(dZ))
        if np.max(np.abs(off)) > 0:
            why = 'loads changed off-diagonal entries'
        att = []
        for ld in m.loads:
            for p in ld.pulses:
                att.append((p.idx, complex(ld.impedance(m.f, p))))
        gfl = ''.join('1' if (p.ground.any() and m.media is not None) else '0' for p in m.pulses)
        toks = ['ckt ldiag', N, f2b(1 / m.m), gfl, len(att)]
        for p, z in att:
            toks += [p, f2b(z.real), f2b(z.imag)]
        md = cxa(d.ask(*toks))
        scale = max(np.max(np.abs(np.diag(dZ))), 1e-300)
        # the increment is the difference of two much larger numbers: compare on the scale of Z
        zs = np.max(np.abs(np.diag(m.Z)))
        if len(md) != N or any(abs(a - b) > 1e-12 * scale + 4e-16 * zs for a, b in zip(md, np.diag(dZ))):
            why = 'diagonal increments'
        omg = 2 * np.pi * m.f * 1e6
        # cached per-length values and equivalent radius vs closed forms of the model
        for w in m.geo:
            if w.skin_load is not None and w.zint is not None:
                zm = cxa(d.ask('ckt skin', f2b(omg), f2b(w.skin_load.conductivity), f2b(w.r_orig)))[0]
                ck.count('skin_bessel' if abs(np.sqrt(-1j * omg * MU0 * w.skin_load.conductivity) * w.r_orig) < 110 else 'skin_asymptotic')
                if not close(zm, complex(w.zint), 1e-9):
                    why = 'skin-effect zint: impl %r model %r' % (complex(w.zint), zm)
            if w.coat_load:
                c = w.coat_load
                rm = b2f(d.ask('ckt equivr', f2b(w.r_orig), f2b(c.radius), f2b(c.epsilon_r)))
                if not close(rm, float(w.r), 1e-12):
                    why = 'equivalent radius'
                if w.zins is not None:
                    zm = b2f(d.ask('ckt zins', f2b(w.r_orig), f2b(c.radius), f2b(c.epsilon_r)))
                    if not close(zm, float(w.zins), 1e-11, 1e-30):
                        why = 'insulation zins of object %d: impl %r model %r' % (w.n, float(w.zins), zm)
        # distributed loads per pulse vs the model's distImpedance, fed with the implementation's own per-length values
        # (zint / j w zins of the wire of each half) and conductor lengths of the halves
        from mininec.mininec import Skin_Effect_Load, Insulation_Load
        for ld in m.loads:
            if not isinstance(ld, (Skin_Effect_Load, Insulation_Load)) or why:
                continue
            for p in ld.pulses:
                z = complex(ld.impedance(m.f, p))
                toks = ['ckt dist', 2]
                for i, sg in enumerate(p.segs):
                    g = sg.geobj
                    if isinstance(ld, Skin_Effect_Load):
                        has = g.skin_load is not None and g.zint is not None
                        zz = complex(g.zint) if has else 0j
                        dv = p.dvecs(i - 0.5)
                        ln = float(np.linalg.norm(dv[0] - dv[1]))
                    else:
                        has = bool(g.coat_load) and g.zins is not None
                        zz = complex(g.zins * omg * 1j) if has else 0j
                        ln = float(sg.seg_len) / 2
                    toks += [1 if has else 0, f2b(zz.real), f2b(zz.imag), f2b(ln)]
                zm = cxa(d.ask(*toks))[0]
                ck.count('dist_pulse_ties')
                if not close(zm, z, 1e-12, 1e-300):
                    why = '%s on pulse %d: impl %r model %r' % (type(ld).__name__, p.idx + 1, z, zm)
                    break
        # which per-object distributed loads list each pulse (owner's load + fix_distributed_loads) vs distLoadsOf
        for cls, attr in ((Skin_Effect_Load, 'skin_load'), (Insulation_Load, 'coat_load')):
            if why:
                break
            flags = ''.join('1' if getattr(g, attr) else '0' for g in m.geo)
            if '1' not in flags:
                continue
            for p in m.pulses:
                got = sorted(l.geobj.n for l in m.loads if isinstance(l, cls) for q in l.pulses if q is p)
                ans = d.ask('ckt distloads', p.geobj.n, p.segs[0].geobj.n, p.segs[1].geobj.n, flags)
                want = sorted(int(x) for x in ans.split())
                ck.count('dist_listing_ties')
                if got != want:
                    why = '%s: pulse %d is listed by the loads of objects %r, model %r' % (cls.__name__, p.idx + 1, got, want)
                    break
        # the property on the implementation alone, whether or not the tie holds
        try:
            pbad = property_distributed(m)
        except Exception as e:
            pbad = None
            if not any('distributed-load evaluator raised' in str(b) for b in ck.broken):
                ck.broken.append('distributed-load evaluator raised %s: %s' % (type(e).__name__, e))
        if pbad:
            viol_d.append(dict(kind='distributed', gen_seed=gs, small=(ck.tier == 'quick'), observed=pbad, antenna=ant))
        elif why:
            dis.append(dict(kind='loaded', gen_seed=gs, why=why, small=(ck.tier == 'quick')))
    seen_d = set()
    for v in viol_d:
        k_ = re.sub(r'[0-9.e+-]+', '#', v['observed'])[:40]
        if k_ not in seen_d:
            seen_d.add(k_)
            ck.violation(v)
    # feed-shift evaluator on a small vetted corpus
    crng = random.Random(424242)
    for j in range(8 if ck.tier == 'quick' else 40):
        ant = antgen.gen_antenna(crng, families=['dipole', 'tee', 'monopole', 'monopole_top'], max_pulses=14)
        m = antgen.build(ant)
        N = len(m.pulses)
        g = [k for k, p in enumerate(m.pulses) if p.ground.any()]
        p = crng.choice(g) if (g and j % 2 == 0) else crng.randrange(N)
        zl = complex(crng.uniform(1, 500), crng.uniform(-500, 500))
        rg = bool(ant['ground'] and j % 4 == 0)
        bad = property_feed_shift(ant, p, zl, rg)
        ck.case(('corpus-feed', j), True)
        if bad:
            viol.append(dict(kind='feed-shift', ant=ant, pulse=p, zl=[zl.real, zl.imag], real_ground=rg, observed=bad + (' (over real ground)' if rg else '')))
    ck.stats['disagreements'] = len(dis)
    ck.cov['rule'] = ('lumped loads: R/L/C log-uniform over 12 decades incl. None and 0, f 0.1..1000 MHz, random Laplace '
                      'coefficient arrays of length 1-4; loaded antennas: 1-4 lumped loads attached by absolute pulse, per-object '
                      'pulse, whole object, whole antenna, plus skin-effect (conductivity / resistivity, all or one object) and '
                      'insulation loads; distinct = distinct (kind, None/zero pattern, decade) resp. (family, ground, N, load forms)')
    ck.assumptions += ['scipy.special.jv is trusted as the reference for the Bessel ratio (model uses its own backward recurrence, compared at 1e-9)',
                       'complex division in the model is the textbook quotient; numpy uses a scaled algorithm (difference in the last bits, rtol 1e-10)']
    for v in viol[:3]:
        ck.violation(v)
    if (dis or ck.broken) and not viol:
        found = False
        for dg in dis[:40]:
            if dg['kind'] != 'loaded':
                continue
            r2 = random.Random(dg['gen_seed'])
            ant, m, desc = gen_loaded(r2, small=dg['small'])
            if 'wires' in ant:
                for pu in m.pulses:
                    if pu.ground.any() or pu.idx == 0:
                        bad = property_feed_shift(ant, pu.idx, complex(37.0, -21.0), desc[0] == 'real-ground')
                        if bad:
                            ck.violation(dict(kind='feed-shift', ant=ant, pulse=pu.idx, zl=[37.0, -21.0], real_ground=(desc[0] == 'real-ground'),
                                              observed=bad, disagreement=dg['why']))
                            found = True
                            break
                if found:
                    break
            try:
                m.compute()
                bad = property_distributed(m)
            except Exception as e:
                bad = None
            if bad:
                ck.violation(dict(kind='distributed', gen_seed=dg['gen_seed'], small=dg['small'], observed=bad, disagreement=dg['why'],
                                  antenna=ant))
                found = True
                break
        if not found:
            ck.violation(dict(kind='broken-tie', detail=dict(broken=ck.broken, disagreements=[x.get('why') or x for x in dis[:5]]),
                              theorem='Pmn.Props.C08.* / correspondence ckt rlc|trap|laplace|ldiag|skin|zins|equivr'), found_input=False)
