"""C19, report level: every number of a complete report of the real `main`, read back as text, against the
in-memory value it reports, and the row structure of every block.

The object `main` computed with is captured by wrapping `Mininec.as_mininec` for the duration of the call
(harness side only, nothing in /repo is touched): the text is what the user sees, the values are those of
the very object that produced it.

Blocks: frequency, environment and media, geo-object table, antenna geometry (one row per pulse in its
owner's block), source listing, load listing (one line per load and pulse; S-parameter blocks), SOURCE
DATA, CURRENT DATA, dB pattern, V/m pattern, near electric and magnetic fields.
"""
import math, re, io, contextlib
import numpy as np
from c19 import prop_value, parse_sources_listing, current_block_property


def run_report(argv):
    """-> (text or None, Mininec or None, kind)"""
    from mininec import mininec as M
    cap = {}
    orig = M.Mininec.as_mininec

    def wrapper(self, options=None):
        cap['m'] = self
        cap['options'] = options
        return orig(self, options)
    out, err = io.StringIO(), io.StringIO()
    M.Mininec.as_mininec = wrapper
    try:
        with contextlib.redirect_stdout(out), contextlib.redirect_stderr(err):
            try:
                rc = M.main(list(argv), f_err=err)
            except SystemExit:
                return None, None, 'usage'
    finally:
        M.Mininec.as_mininec = orig
    if rc or 'm' not in cap:
        return None, None, 'diag'
    return out.getvalue(), cap['m'], 'report'


def fields(line):
    return [t.strip() for t in line.split(',')]


def chk(what, value, text, ue=0):
    b = prop_value(float(value), ue, text)
    return None if not b else '%s: %s' % (what, b)


def chk_abs(what, value, text, tol):
    try:
        v = float(text)
    except ValueError:
        return '%s: unreadable %r' % (what, text)
    if abs(v - value) <= tol:
        return None
    return '%s: value %r printed as %r' % (what, value, text)


def report_bad(text, m):
    """returns list of (site, message); site 'vm-table-precision' marks deviations that are nothing but the
    four-digit / two-decimal format of the V/m table"""
    L = text.split('\n')
    bad = []

    def add(site, msg):
        if msg:
            bad.append((site, msg))
    i = 0
    n = len(L)

    def find(prefix, start=0):
        for k in range(start, n):
            if L[k].startswith(prefix):
                return k
        return None
    # --- frequency
    k = find('FREQUENCY (MHZ):')
    if k is None:
        return [('structure', 'no FREQUENCY line')]
    add('frequency', chk('frequency', m.f, L[k].split(':')[1]))
    add('frequency', chk('wave length', m.wavelen, L[k + 1].split('=')[1].replace('METERS', '')))
    # --- environment
    k = find('ENVIRONMENT')
    e = int(L[k].split(':')[1])
    if (e == -1) != bool(m.media):
        add('environment', 'ENVIRONMENT %+d for media %r' % (e, bool(m.media)))
    if m.media:
        nm = int(L[k + 1].split(':')[1])
        ideal = len(m.media) == 1 and m.media[0].is_ideal
        if nm != (0 if ideal else len(m.media)):
            add('environment', 'NUMBER OF MEDIA %d for %d media' % (nm, len(m.media)))
        if not ideal:
            j = k + 2
            if len(m.media) > 1:
                b = int(L[j].split(':')[1])
                if (b == 2) != (m.boundary != 'linear'):
                    add('environment', 'TYPE OF BOUNDARY %d for %r' % (b, m.boundary))
                j += 1
            for mi, md in enumerate(m.media):
                t = fields(L[j].split(':')[1]); j += 1
                add('environment', chk('medium %d permittivity' % (mi + 1), md.permittivity, t[0]))
                add('environment', chk('medium %d conductivity' % (mi + 1), md.conductivity, t[1]))
                if md.nradials:
                    if int(L[j].split(':')[1]) != md.nradials:
                        add('environment', 'radial count %s for %d' % (L[j].split(':')[1], md.nradials))
                    add('environment', chk('radial radius', md.radius, L[j + 1].split(':')[1])); j += 2
                if md.next:
                    add('environment', chk('medium %d boundary coordinate' % (mi + 1), md.coord, L[j].split(':')[1])); j += 1
                if md.prev:
                    add('environment', chk('medium %d height' % (mi + 1), md.height, L[j].split(':')[1])); j += 1
    # --- geo-object table
    k = find('NO. OF GEO-OBJECTS:')
    if int(L[k].split(':')[1]) != len(m.geo):
        add('geo-objects', 'NO. OF GEO-OBJECTS %s for %d objects' % (L[k].split(':')[1], len(m.geo)))
    j = k + 1
    for g in m.geo:
        while j < n and not re.match(r'^(WIRE|ARC|HELIX)\S* NO\. ', L[j]):
            j += 1
        if j >= n or int(L[j].split('NO.')[1]) != g.tag:
            add('geo-objects', 'block of object with tag %d missing or out of order' % g.tag)
            break
        r1, r2 = L[j + 3].split(), L[j + 4].split()
        for c in range(3):
            add('geo-objects', chk('object %d end 1 coordinate %d' % (g.tag, c), g.p1[c], r1[c]))
            add('geo-objects', chk('object %d end 2 coordinate %d' % (g.tag, c), g.p2[c], r2[c]))
        add('geo-objects', chk('object %d radius' % g.tag, g.r_orig, r2[3]))
        if int(r2[5]) != g.n_segments:
            add('geo-objects', 'object %d: %s segments printed for %d' % (g.tag, r2[5], g.n_segments))
        j += 5
    # --- antenna geometry: one row per pulse in its owner's block
    k = find(' ' * 18 + '**** ANTENNA GEOMETRY ****')
    j = k + 1
    seen = []
    for g in m.geo:
        while j < n and 'COORDINATES' not in L[j]:
            j += 1
        if j >= n or int(L[j].split('NO.')[1].split()[0]) != g.tag:
            add('geometry', 'ANTENNA GEOMETRY block of object %d missing or out of order' % g.tag)
            break
        j += 2
        rows = []
        while j < n and L[j].strip() and 'COORDINATES' not in L[j] and not L[j].startswith('NO. OF SOURCES'):
            t = L[j].split()
            if t and t[0] != '-':
                rows.append(t)
            j += 1
        own = [p for p in m.pulses if p.geobj is g]
        if len(rows) != len(own):
            add('geometry', 'object %d: %d geometry rows for %d pulses it owns' % (g.tag, len(rows), len(own)))
            continue
        for t, p in zip(rows, own):
            if len(t) != 7 or int(t[6]) != p.idx + 1:
                add('geometry', 'object %d: row %r where pulse %d is expected' % (g.tag, t, p.idx + 1))
                continue
            seen.append(p.idx)
            for c in range(3):
                add('geometry', chk('pulse %d coordinate %d' % (p.idx + 1, c), p.point[c], t[c]))
            add('geometry', chk('pulse %d radius' % (p.idx + 1), p.geobj.r_orig, t[3]))
            if (int(t[4]), int(t[5])) != tuple(int(x) for x in p.c_per):
                add('geometry', 'pulse %d: connection columns %s %s for %r' % (p.idx + 1, t[4], t[5], tuple(p.c_per)))
    if sorted(seen) != list(range(len(m.pulses))) and not any(s == 'geometry' for s, _ in bad):
        add('geometry', 'geometry table lists pulses %r, model has %d pulses' % (sorted(x + 1 for x in seen), len(m.pulses)))
    # --- sources listing
    k = find('NO. OF SOURCES')
    if int(L[k].split(':')[1]) != len(m.sources):
        add('sources', 'NO. OF SOURCES %s for %d sources' % (L[k].split(':')[1], len(m.sources)))
    lst = parse_sources_listing(text)
    if len(lst) != len(m.sources):
        add('sources', 'source listing has %d lines for %d sources' % (len(lst), len(m.sources)))
    else:
        for (p, mag, ph), s in zip(lst, m.sources):
            if int(p) != s.idx + 1:
                add('sources', 'source listing names pulse %s, source is on %d' % (p, s.idx + 1))
            add('sources', chk('source listing magnitude', abs(s.voltage), mag, 1 if abs(s.voltage) >= 1e-6 else 0))
            phd = math.degrees(math.atan2(s.voltage.imag, s.voltage.real))
            add('sources', chk_abs('source listing phase', phd, ph, max(5e-6 * abs(phd), 1e-6) * (1 + 1e-9)))
    # --- loads
    k = find('NUMBER OF LOADS')
    nl = int(L[k].split('LOADS')[1])
    want = [(l, p) for l in m.loads for p in l.pulses]
    if nl != len(want):
        add('loads', 'NUMBER OF LOADS %d, the model has %d load/pulse pairs' % (nl, len(want)))
    j = k + 1
    got = []
    while j < n and not L[j].startswith('*' * 20):
        if not L[j].strip():
            j += 1            # a load without pulses contributes an empty line
            continue
        if not (L[j].startswith('PULSE NO.,') or L[j].startswith('NUMERATOR')):
            add('loads', 'unexpected line in the load listing: %r' % L[j])
            break
        if L[j].startswith('PULSE NO.,RESISTANCE'):
            t = fields(L[j].split(':')[1])
            got.append(('imp', int(t[0]), t[1], t[2]))
        elif L[j].startswith('PULSE NO., ORDER'):
            t = fields(L[j].split(':')[1])
            got.append(('spar', int(t[0]), int(t[1]), []))
        else:
            t = fields(L[j].split(':')[1])
            got[-1][3].append((t[0], t[1]))
        j += 1
    if len(got) != len(want):
        add('loads', 'load listing has %d entries, the model has %d load/pulse pairs' % (len(got), len(want)))
    else:
        for gt, (l, p) in zip(got, want):
            if gt[1] != p.idx + 1:
                add('loads', 'load line names pulse %d, the load is on pulse %d' % (gt[1], p.idx + 1))
                continue
            if gt[0] == 'imp':
                z = complex(l.impedance(m.f, p))
                add('loads', chk('load on pulse %d resistance' % (p.idx + 1), z.real, gt[2]))
                add('loads', chk('load on pulse %d reactance' % (p.idx + 1), z.imag, gt[3]))
            else:
                # the rational function the printed coefficients describe (s in 1e6/s for the micro-unit convention)
                # is the impedance of the load
                try:
                    cs = [(float(a), float(b)) for a, b in gt[3]]
                    z = complex(l.impedance(m.f, p))
                    zz = []
                    for unit in (1.0, 1e-6):
                        sv = 2j * math.pi * m.f * 1e6 * unit
                        num = sum(c[0] * sv ** d for d, c in enumerate(cs)); den = sum(c[1] * sv ** d for d, c in enumerate(cs))
                        zz.append(num / den if den else complex('nan'))
                    if len(cs) != gt[2] + 1:
                        add('loads', 'S-parameter load on pulse %d: order %d with %d coefficient lines' % (p.idx + 1, gt[2], len(cs)))
                    elif not any(abs(x - z) <= 2e-5 * abs(z) + 1e-12 for x in zz):
                        add('loads', 'S-parameter load on pulse %d: printed coefficients describe %r ohm, the load is %r ohm' % (p.idx + 1, zz[1], z))
                except ValueError:
                    add('loads', 'S-parameter load on pulse %d: unreadable coefficients %r' % (p.idx + 1, gt[3]))
    # --- SOURCE DATA
    blocks = re.findall(r'PULSE\s+(\d+)\s+VOLTAGE = \(([^,]*),([^J]*)J\)\s*\n\s*CURRENT = \(([^,]*),([^J]*)J\)\s*\n'
                        r'\s*IMPEDANCE = \(([^,]*),([^J]*)J\)\s*\n\s*POWER =\s*(\S+)\s+WATTS', text)
    if len(blocks) != len(m.sources):
        add('source-data', 'SOURCE DATA has %d blocks for %d sources' % (len(blocks), len(m.sources)))
    else:
        for b, s in zip(blocks, m.sources):
            cur = m.current[s.idx]
            z = s.voltage / cur
            pw = 0.5 * (s.voltage * cur.conjugate()).real
            if int(b[0]) != s.idx + 1:
                add('source-data', 'SOURCE DATA block names pulse %s, source is on %d' % (b[0], s.idx + 1))
            vals = [(s.voltage.real, b[1]), (s.voltage.imag, b[2]), (cur.real, b[3]), (cur.imag, b[4]),
                    (z.real, b[5]), (z.imag, b[6]), (pw, b[7])]
            for kk, (v, t) in enumerate(vals):
                msg = prop_value(float(v), 0 if kk < 2 else 1, t)
                if msg and not (kk < 2 and abs(v) < 1e-6):
                    add('source-data', 'SOURCE DATA pulse %s: %s' % (b[0], msg))
    # --- CURRENT DATA (value rows; J/E structure is C09's)
    add('current-data', current_block_property(m))
    # --- dB pattern
    ff = getattr(m, 'far_field', None)
    ks = [x for x in range(n) if L[x].startswith('ZENITH        AZIMUTH       VERTICAL')]
    if ks and ff is not None:
        j = ks[0] + 2
        rows = []
        while j < n and len(L[j].split()) == 5:
            try:
                [float(x) for x in L[j].split()]
            except ValueError:
                break
            rows.append(L[j].split()); j += 1
        g = ff.gain.T
        flat = list(zip(ff.zen.flat, ff.azi.flat, g[0].flat, g[1].flat, g[2].flat))
        if len(rows) != len(flat):
            add('pattern-db', 'dB pattern has %d rows for %d directions' % (len(rows), len(flat)))
        else:
            for t, w in zip(rows, flat):
                for c, nm in enumerate(('zenith', 'azimuth', 'vertical', 'horizontal', 'total')):
                    add('pattern-db', chk('dB pattern %s at (%g, %g)' % (nm, w[0], w[1]), w[c], t[c]))
    # --- V/m pattern: the table has its own, coarser format ('%.3E', two decimals)
    ks = [x for x in range(n) if L[x].startswith(' ANGLE    ANGLE')]
    if ks and ff is not None:
        kd = find(' ' * 14 + 'RADIAL DISTANCE')
        add('pattern-vm', chk('radial distance', m.ff_dist, L[kd].split('=')[1].replace('METERS', ''), 1))
        add('pattern-vm', chk('power level', m.ff_power, L[kd + 1].split('=')[1].replace('WATTS', ''), 1))
        j = ks[0] + 1
        rows = []
        while j < n and len(L[j].split()) == 6:
            try:
                [float(x) for x in L[j].split()]
            except ValueError:
                break
            rows.append(L[j].split()); j += 1
        et, ep = ff.e_theta, ff.e_phi
        flat = list(zip(ff.zen.flat, ff.azi.flat, et.flat, ep.flat))
        if len(rows) != len(flat):
            add('pattern-vm', 'V/m pattern has %d rows for %d directions' % (len(rows), len(flat)))
        else:
            emax = max(max(abs(w[2]), abs(w[3])) for w in flat) or 1e-300
            for t, w in zip(rows, flat):
                vals = [(w[0], t[0], 'zenith', 'abs'), (w[1], t[1], 'azimuth', 'abs'), (abs(w[2]), t[2], 'E(theta) magnitude', 'rel'),
                        (math.degrees(math.atan2(w[2].imag, w[2].real)), t[3], 'E(theta) phase', 'phase'),
                        (abs(w[3]), t[4], 'E(phi) magnitude', 'rel'),
                        (math.degrees(math.atan2(w[3].imag, w[3].real)), t[5], 'E(phi) phase', 'phase')]
                for v, tx, nm, kind in vals:
                    v = float(v)
                    x = float(tx)
                    if kind == 'phase' and abs(w[2] if 'theta' in nm else w[3]) < 1e-9 * emax:
                        continue          # phase of a component that is numerically zero
                    # the property's own bound
                    strict = (abs(x - v) <= 5e-6 * abs(v) * (1 + 1e-9)) if (kind == 'rel' or abs(v) >= 0.1) else (abs(x - v) < 1e-6)
                    # the bound the table's format can meet: 4 significant digits, two decimals
                    d = abs(x - v)
                    if kind == 'phase':
                        d = abs(((x - v + 180) % 360) - 180)
                    loose = d <= (5.0001e-4 * abs(v) + 1e-300 if kind == 'rel' else 5.0001e-3)
                    if not loose:
                        add('pattern-vm', 'V/m pattern %s at (%g, %g): value %r printed as %r' % (nm, w[0], w[1], v, tx))
                    elif not strict:
                        add('vm-table-precision', 'V/m pattern %s at (%g, %g): value %r printed as %r' % (nm, w[0], w[1], v, tx))
    # --- near fields
    for title, fld, unit in (('NEAR ELECTRIC FIELDS', 'e_field', 'V/M'), ('NEAR MAGNETIC FIELDS', 'h_field', 'AMPS/M')):
        ks = [x for x in range(n) if L[x].startswith('*' * 20 + title)]
        if not ks:
            continue
        vals = getattr(m, fld, None)
        if vals is None:
            add('near-field', '%s printed without a computed field' % title)
            continue
        coords = np.array(m.near_field_coord).T
        if len(ks) != len(vals) or len(ks) != len(coords):
            add('near-field', '%s: %d FIELD POINT blocks for %d field points' % (title, len(ks), len(vals)))
            continue
        for kk, v, c in zip(ks, vals, coords):
            mt = re.match(r'\s*FIELD POINT: X =(.*)Y =(.*)Z =(.*)', L[kk + 1])
            for a in range(3):
                add('near-field', chk('%s field point coordinate %d' % (title, a), c[a], mt.group(a + 1)))
            p1, p2 = 0j, 0.0
            for a in range(3):
                t = L[kk + 4 + a].split()
                val = complex(v[a])
                if t[0] != 'XYZ'[a] or len(t) != 5:
                    add('near-field', '%s: component row %r' % (title, L[kk + 4 + a]))
                    continue
                add('near-field', chk('%s %s real part at %r' % (title, t[0], list(c)), val.real, t[1], 1))
                add('near-field', chk('%s %s imaginary part at %r' % (title, t[0], list(c)), val.imag, t[2], 1))
                add('near-field', chk('%s %s magnitude at %r' % (title, t[0], list(c)), abs(val), t[3], 1))
                if abs(val) > 0:
                    wantp = math.degrees(math.atan2(val.imag, val.real))
                    if abs(((float(t[4]) - wantp + 180) % 360) - 180) > max(5e-6 * abs(wantp), 1e-5):
                        add('near-field', '%s %s phase at %r: %r printed for %r degrees' % (title, t[0], list(c), t[4], wantp))
                p1 += abs(val) ** 2 * np.exp(-2j * np.angle(val)); p2 += abs(val) ** 2
            pk = math.sqrt(p2 / 2 + abs(p1) / 2)
            tp = L[kk + 7].split('=')[1].replace(unit, '')
            add('near-field', chk('%s peak field at %r' % (title, list(c)), pk, tp, 1))
    # near-field header
    k = find('X-COORDINATE (M): INITIAL,INCREMENT,NUMBER')
    if k is not None and getattr(m, 'nf_param', None) is not None:
        for a in range(3):
            t = fields(L[k + a].split(':', 2)[2])
            st, ic, cnt = (float(x) for x in m.nf_param[a])
            add('near-field', chk('near-field header axis %d start' % a, st, t[0]))
            add('near-field', chk('near-field header axis %d increment' % a, ic, t[1]))
            if int(float(t[2])) != int(cnt):
                add('near-field', 'near-field header axis %d count %s for %d' % (a, t[2], int(cnt)))
    return bad


# ---------------------------------------------------------------------------------------------------------------
# row structure: the real text classified line by line into the row descriptors of Pmn.Model.Report, and the
# request that makes the Lean model produce the rows for the projected model

def text_rows(text):
    """row tokens of the part of the report between the geo-object table and the field tables"""
    import re as _re
    L = text.split('\n')
    try:
        a = next(i for i, l in enumerate(L) if '**** ANTENNA GEOMETRY ****' in l)
    except StopIteration:
        return None
    rows = []
    sec = 'geo'
    for l in L[a + 1:]:
        if l.startswith('*' * 20):
            if 'SOURCE DATA' in l:
                sec = 'data'; continue
            if 'CURRENT DATA' in l:
                sec = 'cur'; continue
            break                                    # field tables
        t = l.split()
        if not t:
            continue
        if sec == 'geo':
            mm = _re.match(r'^(\S+) NO\.\s+(\d+) COORDINATES', l)
            if mm:
                rows.append('GH%s' % mm.group(2)); continue
            if l.startswith('X  ') or l.startswith('X '):
                continue
            if l.startswith('NO. OF SOURCES'):
                rows.append('SC%d' % int(l.split(':')[1])); sec = 'src'; continue
            if t[0] == '-':
                rows.append('GN'); continue
            rows.append('G%d' % int(t[-1])); continue
        if sec == 'src':
            if l.startswith('PULSE NO., VOLTAGE MAGNITUDE'):
                rows.append('S%d' % int(l.split(':')[1].split(',')[0])); continue
            if l.startswith('NUMBER OF LOADS'):
                rows.append('LC%d' % int(l.split('LOADS')[1])); sec = 'load'; continue
            return rows + ['?' + l[:30]]
        if sec == 'load':
            if l.startswith('PULSE NO.,RESISTANCE'):
                rows.append('LI%d' % int(l.split(':')[1].split(',')[0])); continue
            if l.startswith('PULSE NO., ORDER'):
                f = l.split(':')[1].split(',')
                rows.append('LS%d:%d' % (int(f[0]), int(f[1]))); continue
            if l.startswith('NUMERATOR'):
                rows.append('LK%d' % int(l.split('S^')[1].split(':')[0])); continue
            return rows + ['?' + l[:30]]
        if sec == 'data':
            if l.startswith('PULSE'):
                rows.append('D%d' % int(t[1])); continue
            continue                                 # CURRENT / IMPEDANCE / POWER lines of the block
        if sec == 'cur':
            mm = _re.match(r'^(\S+) NO\.\s+(\d+) :', l)
            if mm:
                rows.append('CH%s' % mm.group(2)); continue
            if t[0] in ('PULSE', 'NO.'):
                continue
            if t[0] == 'E':
                rows.append('CE'); continue
            if t[0] == 'J':
                rows.append('CJ'); continue
            rows.append('C%d' % int(float(t[0]))); continue
    return rows


def model_rows_request(m):
    toks = ['report rows', len(m.geo)]
    for g in m.geo:
        ps = [p.idx for p in g.pulses]
        toks += [g.tag, len(ps)] + ps
        toks += [int(bool(g.is_ground[0])), int(bool(g.is_ground[1])), int(bool(g.conn[0])), int(bool(g.conn[1])),
                 int(g.end_segs[0] is None and g.end_segs[1] is None)]
    toks.append(''.join('1' if (p.geo[0] is not p.geo[1]) else '0' for p in m.pulses) or '-')
    toks += [len(m.sources)] + [s.idx for s in m.sources]
    toks.append(len(m.loads))
    for l in m.loads:
        spar = hasattr(l, 'degree') and hasattr(l, 'a')
        ps = [p.idx for p in l.pulses]
        toks += [int(spar), int(l.degree) if spar else 0, len(ps)] + ps
    return toks


def structure_tie(d, text, m):
    """None or a description of the first difference between the real report's rows and the model's"""
    real = text_rows(text)
    if real is None:
        return 'no ANTENNA GEOMETRY heading in the report'
    model = d.ask(*model_rows_request(m)).split()
    if real != model:
        k = next((i for i, (a, b) in enumerate(zip(real, model)) if a != b), min(len(real), len(model)))
        return 'row %d: report %r, model %r (%d vs %d rows)' % (k, real[k:k + 3], model[k:k + 3], len(real), len(model))
    return None
