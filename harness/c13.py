"""C13 — segmentation tiles each object; tapers, arcs, helices, transforms as documented.

Proof side : Pmn/Props/C13.lean — equal segmentation (count, chaining, end points, equal positive
             lengths), arcs on the circle at uniform angles, helix points on the tapered ellipse,
             rotation matrices orthogonal (lengths/angles preserved), transformation order, scaling;
             tapers: count / chaining / end points through the generator loop.
Tie        : segment tables of wires (equal, taper 1/2/3 with random limits, accepted and rejected),
             arcs, helices, rotated vectors and transformation order vs the Lean model (rtol 1e-12,
             accept/reject class exactly).
Search     : the invariants of the property on the implementation's segment table.
"""
import math, random
import numpy as np
from common import f2b, b2f

LEVEL = 'proof'
MODULES = ['C13', 'C13b', 'C13c']


def vecs(ans):
    v = [b2f(t) for t in ans.split()]
    return [v[i:i + 3] for i in range(0, len(v), 3)]


def segs_of(ans):
    p = vecs(ans)
    return [(p[i], p[i + 1]) for i in range(0, len(p), 2)]


def close_v(a, b, scale, rtol=1e-11):
    return all(abs(x - y) <= rtol * scale + 1e-300 for x, y in zip(a, b))


def impl_wire(p1, p2, n, r, segtype=0, tmin=None, tmax=None):
    from mininec.mininec import Wire, Mininec
    w = Wire(n, *p1, *p2, r)
    w.segtype = segtype
    w.taper_min = tmin
    w.taper_max = tmax
    m = Mininec(10.0, [w])
    w = m.geo[0]
    return w, [([float(x) for x in s.p1], [float(x) for x in s.p2]) for s in w.segments]


def rand_pt(rng, s=10.0):
    return [rng.uniform(-s, s) for _ in range(3)]


def invariants(segs, p1, p2, n, r, segtype, tmin, tmax, tapered):
    """the property on a segment table"""
    if len(segs) != n:
        return 'has %d segments, %d requested' % (len(segs), n)
    L = math.dist(p1, p2)
    if not close_v(segs[0][0], p1, L) or not close_v(segs[-1][1], p2, L, 1e-9):
        return 'does not run from the first to the last end point'
    lens = []
    for i, (a, b) in enumerate(segs):
        if i and not close_v(a, segs[i - 1][1], L):
            return 'segment %d does not start where segment %d ends' % (i + 1, i)
        d = math.dist(a, b)
        if not d > 0:
            return 'segment %d has length %r' % (i + 1, d)
        lens.append(d)
    if not tapered:
        if max(lens) - min(lens) > 1e-9 * L:
            return 'equal segmentation with lengths %r .. %r' % (min(lens), max(lens))
        return None
    mt = max(2.5 * r, tmin or 0)
    slack = 1e-9 * L
    for a, b in zip(lens, lens[1:]):
        if max(a / b, b / a) > 2.1 * (1 + 1e-9):
            return 'neighbouring segment lengths %r, %r differ by more than a factor 2.1' % (a, b)
    if min(lens) < mt * (1 - 1e-9) - slack:
        return 'segment length %r below max(2.5 r, minimum) = %r' % (min(lens), mt)
    if tmax is not None and max(lens) > tmax * (1 + 1e-9) + slack:
        return 'segment length %r above the maximum %r' % (max(lens), tmax)
    return None


def geo_points(m):
    """(tag, radius, [points]) per geo object, from the segments main computed"""
    out = []
    for g in m.geo:
        if hasattr(g, 'segends'):
            pts = [[float(x) for x in p] for p in g.segends]
        else:
            pts = [[float(x) for x in g.p1], [float(x) for x in g.p2]]
        segs = [[[float(x) for x in s.p1], [float(x) for x in s.p2]] for s in g.segments]
        out.append((g.tag, float(g.r), pts, segs))
    return out


def gen_pipeline(rng):
    """a small structure given on the command line plus rotate / translate / scale options"""
    objs, args = [], []
    nobj = rng.randint(1, 3)
    for t in range(1, nobj + 1):
        if rng.random() < 0.6:
            p1, p2 = rand_pt(rng, 3.0), rand_pt(rng, 3.0)
            p1[2], p2[2] = abs(p1[2]) + 0.5, abs(p2[2]) + 0.5
            n = rng.randint(2, 6)
            if rng.random() < 0.4:
                # a tapered wire thick enough for the 2.5-radii limit to decide the shortest segment
                n = rng.randint(6, 10)
                L = math.dist(p1, p2)
                rr = L / n / rng.choice([4, 6, 12])
                args.append('-w%d,%d,%s,%r' % (t, n, ','.join(repr(x) for x in p1 + p2), rr))
                args.append('--taper-wire=%d,%d' % (t, rng.choice([1, 2, 3])))
            else:
                args.append('-w%d,%d,%s,0.001' % (t, n, ','.join(repr(x) for x in p1 + p2)))
        elif rng.random() < 0.5:
            n = rng.randint(3, 8)
            args.append('-a%d,%d,%r,%r,%r,0.001' % (t, n, rng.uniform(0.5, 2), rng.choice([0.0, 30.0]), rng.choice([90.0, 180.0, 270.0])))
        else:
            # helices from a single segment (a third of a turn at most per segment) to several turns, both senses
            n = rng.choice([1, 2, 2, 3, 4, 6, 9])
            turns = rng.uniform(0.15, 0.33) * n
            ln = rng.uniform(0.3, 1.5)
            args.append('-H%d,%d,%r,%r,0.001,%r,%r' % (t, n, ln, ln / turns * rng.choice([1, -1]), rng.uniform(0.2, 0.6), rng.uniform(0.2, 0.6)))
    rots, trans, scales = [], [], []
    for _ in range(rng.randint(0, 2)):
        key = rng.choice([1, 2, 3, 0.5, 2, 10, 5, -2, -1, 20, 100, 10.5, 9])
        rot = [rng.choice([0.0, 90.0, rng.uniform(-180, 180)]) for _ in range(3)]
        tag = rng.choice([None, None, rng.randint(1, nobj)])
        rots.append((float(key), rot, tag))
    for _ in range(rng.randint(0, 2)):
        key = rng.choice([1, 2, 3, 0.5, 2, 10, 5, -2, -1, 20, 100, 10.5, 9])
        tr = [rng.choice([0.0, rng.uniform(-2, 2)]) for _ in range(2)] + [rng.uniform(0.3, 2)]
        tag = rng.choice([None, None, rng.randint(1, nobj)])
        trans.append((float(key), tr, tag))
    for _ in range(rng.choice([0, 1, 1, 2])):
        scales.append((rng.choice([0.3048, 2.0, 0.0254, rng.uniform(0.1, 5)]), rng.choice([None, None, None, rng.randint(1, nobj)])))
    return args, rots, trans, scales


def pipeline_args(args, rots, trans, scales):
    a = list(args) + ['--excitation-pulse=1']
    for key, v, tag in rots:
        a.append('--geo-rotate=%r,%s%s' % (key, ','.join(repr(x) for x in v), '' if tag is None else ',%d' % tag))
    for key, v, tag in trans:
        a.append('--geo-translate=%r,%s%s' % (key, ','.join(repr(x) for x in v), '' if tag is None else ',%d' % tag))
    for f, tag in scales:
        a.append('--geo-scale=%r%s' % (f, '' if tag is None else ',%d' % tag))
    return a


def run_main(argv):
    import io, contextlib
    from mininec.mininec import main
    buf = io.StringIO()
    with contextlib.redirect_stdout(buf):
        m = main(argv, f_err=buf, return_mininec=True)
    return m, buf.getvalue()


def pipeline_property(args, rots, trans, scales):
    """C13 on the implementation alone: after main's pipeline every object is congruent to the
    untransformed one scaled by the product of its scale factors (radius included), a structure-wide
    translation with the smallest key and no rotations moves every point by factor * vector, and
    points = rigid motions in key order followed by scaling (recomputed here with numpy)."""
    from mininec.mininec import Rotation_Matrix
    m0, _ = run_main(pipeline_args(args, [], [], []))
    m1, out = run_main(pipeline_args(args, rots, trans, scales))
    if isinstance(m1, int) or isinstance(m0, int):
        return None
    base, got = geo_points(m0), geo_points(m1)
    ops = sorted([(k, 'r', v, t) for k, v, t in rots] + [(k, 't', v, t) for k, v, t in trans], key=lambda x: x[0])
    for (tag, r0, pts0, _), (tag1, r1, pts1, segs1) in zip(base, got):
        f = 1.0
        for fac, t in scales:
            if t is None or t == tag:
                f *= fac
        if abs(r1 - r0 * f) > 1e-12 * r0 * f:
            return 'object %d: radius %r is not the original radius %r times the scale factor %r' % (tag, r1, r0, f)
        exp = []
        for p in pts0:
            q = np.array(p)
            for k, kind, v, t in ops:
                if t is None or t == tag:
                    q = Rotation_Matrix(v).apply(q) if kind == 'r' else q + np.array(v)
            for fac, t in scales:
                if t is None or t == tag:
                    q = q * fac
            exp.append(q)
        sc = max(1.0, max(float(np.abs(q).max()) for q in exp))
        for k, (q, p) in enumerate(zip(exp, pts1)):
            if float(np.abs(q - np.array(p)).max()) > 1e-9 * sc:
                return ('object %d point %d is at %s; rotations and translations in key order followed by scaling give %s'
                        % (tag, k, [round(x, 6) for x in p], [round(float(x), 6) for x in q]))
        # every segment of the transformed object is the transformed segment of the original one (segmentation — equal,
        # tapered, curved — commutes with the motions, and scaling multiplies every length)
        segs0 = base[[b[0] for b in base].index(tag)][3]
        if len(segs0) != len(segs1):
            return 'object %d has %d segments after the transformations, %d before' % (tag, len(segs1), len(segs0))
        for k, (s0, s1) in enumerate(zip(segs0, segs1)):
            for e in (0, 1):
                q = np.array(s0[e])
                for kk, kind, v, t in ops:
                    if t is None or t == tag:
                        q = Rotation_Matrix(v).apply(q) if kind == 'r' else q + np.array(v)
                for fac, t in scales:
                    if t is None or t == tag:
                        q = q * fac
                if float(np.abs(q - np.array(s1[e])).max()) > 1e-9 * sc:
                    return ('object %d: end %d of segment %d is at %s; the same segment of the untransformed object, moved and '
                            'scaled (factor %r), is at %s' % (tag, e + 1, k + 1, [round(x, 6) for x in s1[e]], f,
                                                             [round(float(x), 6) for x in q]))
        # the segments tile the transformed object
        if len(pts1) > 2:
            for k, sg in enumerate(segs1):
                if not close_v(sg[0], pts1[k], sc, 1e-9) or not close_v(sg[1], pts1[k + 1], sc, 1e-9):
                    return 'object %d: segment %d does not join the transformed points' % (tag, k)
        else:
            if not close_v(segs1[0][0], pts1[0], sc, 1e-9) or not close_v(segs1[-1][1], pts1[1], sc, 1e-9):
                return 'object %d: segments do not span the transformed end points' % tag
    return ''


def api_spelling_property(rng):
    """geometry built through the Python API with whole-number coordinates written as integers (Python ints, numpy integer
    arrays for the transformation vectors) against the same numbers written as floats: rotated, translated and scaled the
    same way, the two structures have the same segments (1e-12) — nothing may depend on the number type"""
    from mininec.mininec import Mininec, Wire, Arc, Geo_Container
    spec = []
    for t in range(1, rng.randint(1, 3) + 1):
        if rng.random() < 0.75:
            p = [rng.randint(-5, 5) for _ in range(3)]
            q = [p[0] + rng.choice([0, 3, -4, 7]), p[1] + rng.choice([0, 0, 5, -2]), p[2] + rng.choice([25, 10, -6, 4])]
            spec.append(('w', rng.randint(2, 10), p, q, t))
        else:
            spec.append(('a', rng.randint(3, 8), rng.choice([1, 2, 3]), rng.choice([0, 30]), rng.choice([90, 180, 270]), t))
    ops = []
    for _ in range(rng.randint(1, 3)):
        k = rng.choice(['r', 't', 's'])
        tag = rng.choice([None, None, rng.randint(1, len(spec))])
        if k == 'r':
            ops.append(('r', [rng.choice([0, 30, 90, 45, -60]) for _ in range(3)], tag))
        elif k == 't':
            ops.append(('t', rng.choice([[0.5, 0.25, 0.75], [1, 2, 3], [0.1, 0, -0.4]]), tag))
        else:
            ops.append(('s', rng.choice([0.3, 2, 0.3048, 3]), tag))

    def build(conv):
        geo = Geo_Container()
        for o in spec:
            if o[0] == 'w':
                geo.append(Wire(o[1], *[conv(x) for x in o[2] + o[3]], 0.001, tag=o[4]))
            else:
                geo.append(Arc(o[1], conv(o[2]), conv(o[3]), conv(o[4]), 0.001, tag=o[5]))
        geo.compute_tags()
        for key, (k, v, tag) in enumerate(x for x in ops if x[0] != 's'):
            vv = np.array([conv(x) if float(x) == int(x) else x for x in v])
            (geo.rotate if k == 'r' else geo.translate)(key + 1, vv, tag)
        for k, v, tag in ops:
            if k == 's':
                geo.scale(conv(v) if float(v) == int(v) else v, tag)
        m = Mininec(10.0, geo)
        return m
    try:
        ma = build(float)
    except ValueError as e:
        return None, ('rejected', spec, ops)            # not a valid structure (e.g. coinciding wires)
    try:
        mb = build(int)
    except Exception as e:
        return 'the structure is accepted with float coordinates and raises %s: %s with the same numbers as integers' % (type(e).__name__, e), (spec, ops)
    for ga, gb in zip(ma.geo, mb.geo):
        if len(ga.segments) != len(gb.segments):
            return 'object %d has %d segments with float and %d with integer coordinates' % (ga.tag, len(ga.segments), len(gb.segments)), (spec, ops)
        for k, (sa, sb) in enumerate(zip(ga.segments, gb.segments)):
            for e, (pa, pb) in enumerate(((sa.p1, sb.p1), (sa.p2, sb.p2))):
                pa, pb = np.array(pa, dtype=float), np.array(pb, dtype=float)
                if float(np.max(np.abs(pa - pb))) > 1e-12 * max(1.0, float(np.max(np.abs(pa)))):
                    return ('object %d segment %d end %d is at %s when the coordinates are written as integers and at %s when the same '
                            'numbers are written as floats (operations %r)' % (ga.tag, k + 1, e + 1, [round(float(x), 6) for x in pb],
                                                                              [round(float(x), 6) for x in pa], ops)), (spec, ops)
        if abs(float(ga.r) - float(gb.r)) > 1e-15:
            return 'object %d radius %r vs %r' % (ga.tag, float(gb.r), float(ga.r)), (spec, ops)
    return None, (spec, ops)


def replay(rp):
    k = rp.get('kind')
    if k == 'pipeline':
        bad = pipeline_property(rp['args'], [tuple(x) for x in rp['rots']], [tuple(x) for x in rp['trans']], [tuple(x) for x in rp['scales']])
        print('replay ->', bad or 'property holds')
        return 1 if bad else 0
    if k == 'api-spelling':
        import random as _random
        bad, what = api_spelling_property(_random.Random(rp['spelling_seed']))
        print('replay', what, '->', bad or 'property holds')
        return 1 if bad else 0
    if k == 'wire':
        w, segs = impl_wire(rp['p1'], rp['p2'], rp['n'], rp['r'], rp['segtype'], rp['tmin'], rp['tmax'])
        bad = invariants(segs, rp['p1'], rp['p2'], rp['n'], rp['r'], rp['segtype'], rp['tmin'], rp['tmax'], w.segtype != 0)
    else:
        print('replay: nothing to execute:', k)
        return 1
    print('replay ->', bad or 'property holds')
    return 1 if bad else 0


def run(ck):
    from mininec.mininec import Arc, Helix, Rotation_Matrix, Mininec, Wire
    ck.proof_side()
    d = ck.get_driver()
    rng = ck.rng
    dis, viol = [], []
    N = 400 if ck.tier == 'quick' else 6000
    # wires: equal and tapered
    for i in range(N):
        n = rng.choice([1, 2, 3, 4, 5, 7, 10, 16, 25, 60, 200]) if rng.random() < .3 else rng.randint(1, 24)
        p1, p2 = rand_pt(rng), rand_pt(rng)
        L = math.dist(p1, p2)
        if i % 25 == 11:
            # coordinates given as Python integers (hand-written models through the API)
            p1, p2 = [rng.randint(-10, 10) for _ in range(3)], [rng.randint(-10, 10) for _ in range(3)]
            if p1 == p2:
                p2[2] += 7
            L = math.dist(p1, p2)
        if i % 25 == 7:
            # an end point a hair above or below the plane z = 0 (in free space that plane is nothing special)
            e = rng.choice([p1, p2])
            e[2] = rng.choice([-1, 1]) * L / n * 10 ** rng.uniform(-6, -3.2)
            L = math.dist(p1, p2)
        segtype = rng.choice([0, 1, 2, 3, 3])
        r = L / n / rng.choice([5, 10, 50, 200, 1000])
        tmin = rng.choice([None, None, L / n * rng.uniform(0.01, 1.1)])
        tmax = rng.choice([None, None, L / n * rng.uniform(0.9, 4)])
        if n > 30:
            segtype = rng.choice([0, 0, segtype])
        try:
            w, segs = impl_wire(p1, p2, n, r, segtype, tmin, tmax)
        except Exception as e:
            viol.append(dict(kind='wire', p1=p1, p2=p2, n=n, r=r, segtype=segtype, tmin=tmin, tmax=tmax,
                             observed='segmentation raised %s: %s' % (type(e).__name__, e)))
            continue
        tapered = w.segtype != 0
        bad0 = invariants(segs, p1, p2, n, r, segtype, tmin, tmax, tapered)
        if bad0:
            viol.append(dict(kind='wire', p1=p1, p2=p2, n=n, r=r, segtype=segtype, tmin=tmin, tmax=tmax, observed=bad0))
        # tapering the other end gives the mirrored taper (lengths in reverse order)
        if tapered and segtype in (1, 2) and not bad0:
            try:
                w2, segs2 = impl_wire(p1, p2, n, r, 3 - segtype, tmin, tmax)
                l1 = [math.dist(a, b) for a, b in segs]
                l2 = [math.dist(a, b) for a, b in segs2]
                if w2.segtype != 0 and any(abs(a - b) > 1e-9 * L for a, b in zip(l1, reversed(l2))):
                    viol.append(dict(kind='wire', p1=p1, p2=p2, n=n, r=r, segtype=segtype, tmin=tmin, tmax=tmax,
                                     observed='taper from end %d is not the mirror image of the taper from end %d' % (segtype, 3 - segtype)))
            except Exception:
                pass
        ck.case(('wire', n, segtype, tmin is None, tmax is None, tapered), n > 1,
                sample=dict(kind='wire', n=n, segtype=segtype, tmin=tmin, tmax=tmax, accepted_taper=tapered))
        ck.count('segtype%d_%s' % (segtype, 'tapered' if tapered else 'equal'))
        # model
        pts = [f2b(x) for x in p1 + p2]
        if segtype == 0:
            ans = 'ok ' + d.ask('geom equal', *pts, n)
        elif segtype in (1, 2):
            ans = d.ask('geom taper1', *pts, n, f2b(r), f2b(tmin or 0.0), 'n' if tmax is None else f2b(tmax), segtype - 1)
        else:
            ans = d.ask('geom taper2', *pts, n, f2b(r), f2b(tmin or 0.0), 'n' if tmax is None else f2b(tmax))
        if ans.startswith('err'):
            ck.count('taper_' + ans.split()[1].split(':')[0])
            if 'assertion' in ans:
                dis.append(dict(why='model taper assertion ' + ans, case=dict(p1=p1, p2=p2, n=n, r=r, segtype=segtype, tmin=tmin, tmax=tmax)))
                continue
            # Taper_Error: implementation falls back to equal segments
            if tapered:
                dis.append(dict(why='model rejects taper (%s), implementation tapered' % ans, case=dict(p1=p1, p2=p2, n=n, r=r, segtype=segtype, tmin=tmin, tmax=tmax)))
                continue
            ans = 'ok ' + d.ask('geom equal', *pts, n)
        elif segtype != 0 and not tapered:
            dis.append(dict(why='implementation fell back to equal segments, model tapers', case=dict(p1=p1, p2=p2, n=n, r=r, segtype=segtype, tmin=tmin, tmax=tmax)))
            continue
        ms = segs_of(ans[3:])
        if len(ms) != len(segs) or any(not close_v(a[0], b[0], L) or not close_v(a[1], b[1], L) for a, b in zip(ms, segs)):
            # the taper loops switch state on `|inc1| - |inc| - eps < 0`; where that difference is zero in exact
            # arithmetic the float comparison may go either way: accept the model if the implementation itself
            # jumps to the model's answer under a 1e-13 .. 1e-11 relative change of the wire length
            amb = False
            for dl in (1e-13, -1e-13, 1e-12, -1e-12, 1e-11, -1e-11):
                q2 = [a + (b - a) * (1 + dl) for a, b in zip(p1, p2)]
                try:
                    w2, s2 = impl_wire(p1, q2, n, r, segtype, tmin, tmax)
                except Exception:
                    continue
                if len(s2) == len(ms) and all(close_v(a[0], b[0], L, 1e-9) and close_v(a[1], b[1], L, 1e-9) for a, b in zip(ms, s2)):
                    amb = True
                    break
            if amb:
                ck.count('taper_threshold_ambiguous')
                continue
            dis.append(dict(why='segment table', case=dict(p1=p1, p2=p2, n=n, r=r, segtype=segtype, tmin=tmin, tmax=tmax)))
            continue
    # arcs and helices
    for i in range(N // 4):
        n = rng.randint(3, 40)
        R = rng.uniform(0.1, 20)
        a1 = rng.choice([0, 30, -45, rng.uniform(-180, 180)])
        a2 = a1 + rng.choice([90, 180, 360, -90, rng.uniform(-350, 350)])
        if a2 == a1 or a2 - a1 > 360:
            continue
        arc = Arc(n, R, a1, a2, 0.001)
        impl = [[float(x) for x in p] for p in arc.segends]
        ms = vecs(d.ask('geom arc', n, f2b(R), f2b(a1), f2b(a2)))
        ck.case(('arc', n, round(a1), round(a2)), True, sample=dict(kind='arc', n=n, R=R, a1=a1, a2=a2))
        if len(ms) != len(impl) or any(not close_v(a, b, R) for a, b in zip(ms, impl)):
            dis.append(dict(why='arc points', case=dict(n=n, R=R, a1=a1, a2=a2)))
        for k, p in enumerate(impl):
            if abs(math.hypot(p[0], p[2]) - R) > 1e-9 * R or p[1] != 0:
                viol.append(dict(kind='arc', n=n, R=R, a1=a1, a2=a2, observed='point %d not on the circle' % k))
                break
    for i in range(N // 4):
        n = rng.randint(6, 40)
        ln = rng.uniform(0.5, 10) * rng.choice([1, -1])
        turn = abs(ln) / rng.uniform(0.5, 2) * rng.choice([1, -1])
        if n < min(abs(ln) / abs(turn) * 3, 3):
            continue
        rx1, ry1 = rng.uniform(0.1, 2), rng.uniform(0.1, 2)
        rx2, ry2 = rng.choice([rx1, rng.uniform(0.1, 2)]), rng.choice([ry1, rng.uniform(0.1, 2)])
        try:
            hx = Helix(n, ln, turn, 0.001, rx1, ry1, rx2, ry2)
        except ValueError:
            continue
        impl = [[float(x) for x in p] for p in hx.segends]
        ms = vecs(d.ask('geom helix', n, f2b(ln), f2b(turn), f2b(rx1), f2b(ry1), f2b(rx2), f2b(ry2)))
        ck.case(('helix', n, ln > 0, turn > 0), True, sample=dict(kind='helix', n=n, length=ln, turnlen=turn))
        sc = max(rx1, ry1, rx2, ry2, abs(ln))
        if len(ms) != len(impl) or any(not close_v(a, b, sc, 1e-10) for a, b in zip(ms, impl)):
            dis.append(dict(why='helix points', case=dict(n=n, length=ln, turnlen=turn, r=[rx1, ry1, rx2, ry2])))
        # on the implementation alone: point k lies at height k/n of the (absolute) length on the ellipse whose half axes have gone the
        # fraction k/n of the way from the first to the second pair of radii
        for k, p_ in enumerate(impl):
            t_ = k / n
            rx_, ry_ = rx1 + (rx2 - rx1) * t_, ry1 + (ry2 - ry1) * t_
            if abs((p_[0] / rx_) ** 2 + (p_[1] / ry_) ** 2 - 1) > 1e-9 or abs(p_[2] - abs(ln) * t_) > 1e-9 * abs(ln):
                viol.append(dict(kind='helix', n=n, length=ln, turnlen=turn, r=[rx1, ry1, rx2, ry2],
                                 observed='point %d (%r) is not on the ellipse with half axes %.6g, %.6g at height %.6g' % (k, p_, rx_, ry_, abs(ln) * t_)))
                break
    # rotations and transformation order
    for i in range(N // 2):
        rot = [rng.choice([0.0, 90.0, rng.uniform(-360, 360)]) for _ in range(3)]
        v = rand_pt(rng)
        impl = [float(x) for x in Rotation_Matrix(rot).apply(np.array(v))]
        mv = vecs(d.ask('geom rot', *[f2b(x) for x in rot + v]))[0]
        ck.case(('rot', tuple(x == 0 for x in rot)), True, sample=dict(kind='rot', rot=rot) if i < 2 else None)
        if not close_v(impl, mv, math.sqrt(sum(x * x for x in v)), 1e-12):
            dis.append(dict(why='rotation', case=dict(rot=rot, v=v)))
        if abs(math.sqrt(sum(x * x for x in impl)) - math.sqrt(sum(x * x for x in v))) > 1e-9 * math.sqrt(sum(x * x for x in v)):
            viol.append(dict(kind='rot', rot=rot, v=v, observed='rotation changes the length of a vector'))
    for i in range(N // 4):
        nr, nt = rng.randint(0, 3), rng.randint(0, 3)
        keys = [float(rng.choice([1, 2, 2, 3, 0.5])) for _ in range(nr + nt)]
        # implementation: main collects rotations then translations and sorts by key (stable)
        impl = [j for j, k in sorted(enumerate(keys), key=lambda x: x[1])]
        if nr + nt:
            mo = [int(x) for x in d.ask('geom order', nr, *[f2b(k) for k in keys]).split()]
            ck.case(('order', nr, nt, tuple(keys)), nr + nt > 1)
            if mo != impl:
                dis.append(dict(why='transformation order', case=dict(nr=nr, keys=keys, impl=impl, model=mo)))
    # the whole pipeline through main: command line -> transformed, scaled, segmented objects
    for i in range(N // 4):
        args, rots, trans, scales = gen_pipeline(rng)
        m0, _ = run_main(pipeline_args(args, [], [], []))
        m1, out = run_main(pipeline_args(args, rots, trans, scales))
        if isinstance(m0, int) or isinstance(m1, int):
            ck.count('pipeline_rejected')
            continue
        base, got = geo_points(m0), geo_points(m1)
        ck.case(('pipeline', len(base), len(rots), len(trans), len(scales), tuple(x[-1] is None for x in rots + trans + scales)),
                bool(scales) and bool(rots or trans),
                sample=dict(kind='pipeline', args=pipeline_args(args, rots, trans, scales)) if i < 3 else None)
        req = ['geom pipeline', len(rots), len(trans), len(scales), sum(len(b[2]) for b in base)]
        for key, v, tag in rots + trans:
            req += [f2b(key)] + [f2b(x) for x in v] + ['n' if tag is None else tag]
        for f, tag in scales:
            req += [f2b(f), 'n' if tag is None else tag]
        for tag, r0, pts, _ in base:
            for p in pts:
                req += [tag] + [f2b(x) for x in p]
        mp = vecs(d.ask(*req))
        ip = [p for g in got for p in g[2]]
        sc = max(1.0, max(abs(x) for p in ip for x in p))
        case = dict(kind='pipeline', args=args, rots=rots, trans=trans, scales=scales)
        if len(mp) != len(ip) or any(not close_v(a, b, sc, 1e-11) for a, b in zip(mp, ip)):
            dis.append(dict(why='pipeline points', case=case))
        bad = pipeline_property(args, rots, trans, scales)
        if bad:
            viol.append(dict(case, observed=bad))
    import random as _random
    for i in range(40 if ck.tier == 'quick' else 600):
        sseed = rng.randrange(10 ** 9)
        bad, what = api_spelling_property(_random.Random(sseed))
        ck.case(('api-spelling', i), True)
        ck.count('api_spelling_rejected' if (what and what[0] == 'rejected') else 'api_spelling_cases')
        if bad:
            viol.append(dict(kind='api-spelling', spelling_seed=sseed, observed=bad))
    ck.stats['disagreements'] = len(dis)
    ck.cov['rule'] = ('wires with 1..200 segments, equal / taper end 1 / end 2 / both, radii seg/5..seg/1000, random minimum and '
                      'maximum (accepted and rejected), arcs (incl. negative spans, full circle), helices (all sign combinations, '
                      'tapered radii), rotation vectors incl. zero angles, key lists with repetitions; helices of 1-9 segments in the pipeline cases; '
                      'structures built through the API with whole-number coordinates as integers vs floats; distinct = distinct parameter '
                      'classes as listed in the case keys')
    ck.assumptions += ['numpy 3x3 matmul and norm are compared at rtol 1e-12 (summation order may differ)',
                       "Python's float % is modelled as a - b*floor(a/b) for b > 0",
                       'taper positivity / ratio are theorems for both kinds (C13b, C13c), min / max for the one-sided taper (C13_taper1_bounds); all four are evaluated on every generated taper of both kinds (implementation side)']
    seen = set()
    for v in viol:
        key = v['observed'][:40] if v.get('kind') != 'pipeline' else 'pipeline'
        if key in seen:
            continue
        seen.add(key)
        ck.violation(v)
        if len(seen) >= 4:
            break
    if (dis or ck.broken) and not viol:
        ck.violation(dict(kind='broken-tie', detail=dict(broken=ck.broken, disagreements=dis[:4]),
                          theorem='Pmn.Props.C13.* / correspondence geom equal|taper1|taper2|arc|helix|rot|order'), found_input=False)
