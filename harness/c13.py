"""C13 — segmentation tiles each object; tapers, arcs, helices, transforms as documented.

Proof side : Pmn/Props/C13.lean — equal segmentation (count, chaining, end points, equal positive
             lengths), arcs on the circle at uniform angles, helix points on the tapered ellipse,
             rotation matrices orthogonal (lengths/angles preserved), transformation order, scaling;
             tapers: count / chaining / end points through the generator loop.
Tie        : segment tables of wires (equal, taper 1/2/3 with random limits, accepted and rejected),
             arcs, helices, rotated vectors and transformation order vs the Lean model (rtol 1e-12,
             accept/reject class exactly).
Search     : the invariants of the property on the implementation's segment table.
"""
import math, random
import numpy as np
from common import f2b, b2f

LEVEL = 'proof'
MODULES = ['C13']


def vecs(ans):
    v = [b2f(t) for t in ans.split()]
    return [v[i:i + 3] for i in range(0, len(v), 3)]


def segs_of(ans):
    p = vecs(ans)
    return [(p[i], p[i + 1]) for i in range(0, len(p), 2)]


def close_v(a, b, scale, rtol=1e-11):
    return all(abs(x - y) <= rtol * scale + 1e-300 for x, y in zip(a, b))


def impl_wire(p1, p2, n, r, segtype=0, tmin=None, tmax=None):
    from mininec.mininec import Wire, Mininec
    w = Wire(n, *p1, *p2, r)
    w.segtype = segtype
    w.taper_min = tmin
    w.taper_max = tmax
    m = Mininec(10.0, [w])
    w = m.geo[0]
    return w, [([float(x) for x in s.p1], [float(x) for x in s.p2]) for s in w.segments]


def rand_pt(rng, s=10.0):
    return [rng.uniform(-s, s) for _ in range(3)]


def invariants(segs, p1, p2, n, r, segtype, tmin, tmax, tapered):
    """the property on a segment table"""
    if len(segs) != n:
        return 'has %d segments, %d requested' % (len(segs), n)
    L = math.dist(p1, p2)
    if not close_v(segs[0][0], p1, L) or not close_v(segs[-1][1], p2, L, 1e-9):
        return 'does not run from the first to the last end point'
    lens = []
    for i, (a, b) in enumerate(segs):
        if i and not close_v(a, segs[i - 1][1], L):
            return 'segment %d does not start where segment %d ends' % (i + 1, i)
        d = math.dist(a, b)
        if not d > 0:
            return 'segment %d has length %r' % (i + 1, d)
        lens.append(d)
    if not tapered:
        if max(lens) - min(lens) > 1e-9 * L:
            return 'equal segmentation with lengths %r .. %r' % (min(lens), max(lens))
        return None
    mt = max(2.5 * r, tmin or 0)
    slack = 1e-9 * L
    for a, b in zip(lens, lens[1:]):
        if max(a / b, b / a) > 2.1 * (1 + 1e-9):
            return 'neighbouring segment lengths %r, %r differ by more than a factor 2.1' % (a, b)
    if min(lens) < mt * (1 - 1e-9) - slack:
        return 'segment length %r below max(2.5 r, minimum) = %r' % (min(lens), mt)
    if tmax is not None and max(lens) > tmax * (1 + 1e-9) + slack:
        return 'segment length %r above the maximum %r' % (max(lens), tmax)
    return None


def replay(rp):
    k = rp.get('kind')
    if k == 'wire':
        w, segs = impl_wire(rp['p1'], rp['p2'], rp['n'], rp['r'], rp['segtype'], rp['tmin'], rp['tmax'])
        bad = invariants(segs, rp['p1'], rp['p2'], rp['n'], rp['r'], rp['segtype'], rp['tmin'], rp['tmax'], w.segtype != 0)
    else:
        print('replay: nothing to execute:', k)
        return 1
    print('replay ->', bad or 'property holds')
    return 1 if bad else 0


def run(ck):
    from mininec.mininec import Arc, Helix, Rotation_Matrix, Mininec, Wire
    ck.proof_side()
    d = ck.get_driver()
    rng = ck.rng
    dis, viol = [], []
    N = 400 if ck.tier == 'quick' else 6000
    # wires: equal and tapered
    for i in range(N):
        n = rng.choice([1, 2, 3, 4, 5, 7, 10, 16, 25, 60, 200]) if rng.random() < .3 else rng.randint(1, 24)
        p1, p2 = rand_pt(rng), rand_pt(rng)
        L = math.dist(p1, p2)
        segtype = rng.choice([0, 1, 2, 3, 3])
        r = L / n / rng.choice([5, 10, 50, 200, 1000])
        tmin = rng.choice([None, None, L / n * rng.uniform(0.01, 1.1)])
        tmax = rng.choice([None, None, L / n * rng.uniform(0.9, 4)])
        if n > 30:
            segtype = rng.choice([0, 0, segtype])
        try:
            w, segs = impl_wire(p1, p2, n, r, segtype, tmin, tmax)
        except Exception as e:
            viol.append(dict(kind='wire', p1=p1, p2=p2, n=n, r=r, segtype=segtype, tmin=tmin, tmax=tmax,
                             observed='segmentation raised %s: %s' % (type(e).__name__, e)))
            continue
        tapered = w.segtype != 0
        ck.case(('wire', n, segtype, tmin is None, tmax is None, tapered), n > 1,
                sample=dict(kind='wire', n=n, segtype=segtype, tmin=tmin, tmax=tmax, accepted_taper=tapered))
        ck.count('segtype%d_%s' % (segtype, 'tapered' if tapered else 'equal'))
        # model
        pts = [f2b(x) for x in p1 + p2]
        if segtype == 0:
            ans = 'ok ' + d.ask('geom equal', *pts, n)
        elif segtype in (1, 2):
            ans = d.ask('geom taper1', *pts, n, f2b(r), f2b(tmin or 0.0), 'n' if tmax is None else f2b(tmax), segtype - 1)
        else:
            ans = d.ask('geom taper2', *pts, n, f2b(r), f2b(tmin or 0.0), 'n' if tmax is None else f2b(tmax))
        if ans.startswith('err'):
            ck.count('taper_' + ans.split()[1].split(':')[0])
            if 'assertion' in ans:
                dis.append(dict(why='model taper assertion ' + ans, case=dict(p1=p1, p2=p2, n=n, r=r, segtype=segtype, tmin=tmin, tmax=tmax)))
                continue
            # Taper_Error: implementation falls back to equal segments
            if tapered:
                dis.append(dict(why='model rejects taper (%s), implementation tapered' % ans, case=dict(p1=p1, p2=p2, n=n, r=r, segtype=segtype, tmin=tmin, tmax=tmax)))
                continue
            ans = 'ok ' + d.ask('geom equal', *pts, n)
        elif segtype != 0 and not tapered:
            dis.append(dict(why='implementation fell back to equal segments, model tapers', case=dict(p1=p1, p2=p2, n=n, r=r, segtype=segtype, tmin=tmin, tmax=tmax)))
            continue
        ms = segs_of(ans[3:])
        if len(ms) != len(segs) or any(not close_v(a[0], b[0], L) or not close_v(a[1], b[1], L) for a, b in zip(ms, segs)):
            dis.append(dict(why='segment table', case=dict(p1=p1, p2=p2, n=n, r=r, segtype=segtype, tmin=tmin, tmax=tmax)))
            continue
        bad = invariants(segs, p1, p2, n, r, segtype, tmin, tmax, tapered)
        if bad:
            viol.append(dict(kind='wire', p1=p1, p2=p2, n=n, r=r, segtype=segtype, tmin=tmin, tmax=tmax, observed=bad))
    # arcs and helices
    for i in range(N // 4):
        n = rng.randint(3, 40)
        R = rng.uniform(0.1, 20)
        a1 = rng.choice([0, 30, -45, rng.uniform(-180, 180)])
        a2 = a1 + rng.choice([90, 180, 360, -90, rng.uniform(-350, 350)])
        if a2 == a1 or a2 - a1 > 360:
            continue
        arc = Arc(n, R, a1, a2, 0.001)
        impl = [[float(x) for x in p] for p in arc.segends]
        ms = vecs(d.ask('geom arc', n, f2b(R), f2b(a1), f2b(a2)))
        ck.case(('arc', n, round(a1), round(a2)), True, sample=dict(kind='arc', n=n, R=R, a1=a1, a2=a2))
        if len(ms) != len(impl) or any(not close_v(a, b, R) for a, b in zip(ms, impl)):
            dis.append(dict(why='arc points', case=dict(n=n, R=R, a1=a1, a2=a2)))
        for k, p in enumerate(impl):
            if abs(math.hypot(p[0], p[2]) - R) > 1e-9 * R or p[1] != 0:
                viol.append(dict(kind='arc', n=n, R=R, a1=a1, a2=a2, observed='point %d not on the circle' % k))
                break
    for i in range(N // 4):
        n = rng.randint(6, 40)
        ln = rng.uniform(0.5, 10) * rng.choice([1, -1])
        turn = abs(ln) / rng.uniform(0.5, 2) * rng.choice([1, -1])
        if n < min(abs(ln) / abs(turn) * 3, 3):
            continue
        rx1, ry1 = rng.uniform(0.1, 2), rng.uniform(0.1, 2)
        rx2, ry2 = rng.choice([rx1, rng.uniform(0.1, 2)]), rng.choice([ry1, rng.uniform(0.1, 2)])
        try:
            hx = Helix(n, ln, turn, 0.001, rx1, ry1, rx2, ry2)
        except ValueError:
            continue
        impl = [[float(x) for x in p] for p in hx.segends]
        ms = vecs(d.ask('geom helix', n, f2b(ln), f2b(turn), f2b(rx1), f2b(ry1), f2b(rx2), f2b(ry2)))
        ck.case(('helix', n, ln > 0, turn > 0), True, sample=dict(kind='helix', n=n, length=ln, turnlen=turn))
        sc = max(rx1, ry1, rx2, ry2, abs(ln))
        if len(ms) != len(impl) or any(not close_v(a, b, sc, 1e-10) for a, b in zip(ms, impl)):
            dis.append(dict(why='helix points', case=dict(n=n, length=ln, turnlen=turn, r=[rx1, ry1, rx2, ry2])))
    # rotations and transformation order
    for i in range(N // 2):
        rot = [rng.choice([0.0, 90.0, rng.uniform(-360, 360)]) for _ in range(3)]
        v = rand_pt(rng)
        impl = [float(x) for x in Rotation_Matrix(rot).apply(np.array(v))]
        mv = vecs(d.ask('geom rot', *[f2b(x) for x in rot + v]))[0]
        ck.case(('rot', tuple(x == 0 for x in rot)), True, sample=dict(kind='rot', rot=rot) if i < 2 else None)
        if not close_v(impl, mv, math.sqrt(sum(x * x for x in v)), 1e-12):
            dis.append(dict(why='rotation', case=dict(rot=rot, v=v)))
        if abs(math.sqrt(sum(x * x for x in impl)) - math.sqrt(sum(x * x for x in v))) > 1e-9 * math.sqrt(sum(x * x for x in v)):
            viol.append(dict(kind='rot', rot=rot, v=v, observed='rotation changes the length of a vector'))
    for i in range(N // 4):
        nr, nt = rng.randint(0, 3), rng.randint(0, 3)
        keys = [float(rng.choice([1, 2, 2, 3, 0.5])) for _ in range(nr + nt)]
        # implementation: main collects rotations then translations and sorts by key (stable)
        impl = [j for j, k in sorted(enumerate(keys), key=lambda x: x[1])]
        if nr + nt:
            mo = [int(x) for x in d.ask('geom order', nr, *[f2b(k) for k in keys]).split()]
            ck.case(('order', nr, nt, tuple(keys)), nr + nt > 1)
            if mo != impl:
                dis.append(dict(why='transformation order', case=dict(nr=nr, keys=keys, impl=impl, model=mo)))
    ck.stats['disagreements'] = len(dis)
    ck.cov['rule'] = ('wires with 1..200 segments, equal / taper end 1 / end 2 / both, radii seg/5..seg/1000, random minimum and '
                      'maximum (accepted and rejected), arcs (incl. negative spans, full circle), helices (all sign combinations, '
                      'tapered radii), rotation vectors incl. zero angles, key lists with repetitions; distinct = distinct parameter '
                      'classes as listed in the case keys')
    ck.assumptions += ['numpy 3x3 matmul and norm are compared at rtol 1e-12 (summation order may differ)',
                       "Python's float % is modelled as a - b*floor(a/b) for b > 0",
                       'taper positivity / ratio / min / max clauses are not theorems: they are evaluated on every generated taper (implementation side)']
    seen = set()
    for v in viol:
        key = v['observed'][:40]
        if key in seen:
            continue
        seen.add(key)
        ck.violation(v)
        if len(seen) >= 4:
            break
    if (dis or ck.broken) and not viol:
        ck.violation(dict(kind='broken-tie', detail=dict(broken=ck.broken, disagreements=dis[:4]),
                          theorem='Pmn.Props.C13.* / correspondence geom equal|taper1|taper2|arc|helix|rot|order'), found_input=False)
