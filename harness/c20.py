"""C20 — the command line is fail-safe: complete finite report, one-line diagnostic (23), or usage error.

Proof side : Pmn/Props/C20.lean — the except clause of the compute loop (names regenerated from the
             source) catches every kernel exception and non-finite results become the diagnostic
             (C20_kernel_guard); the validation decision table has only admissible outcomes and lets
             only harmless value classes through (C20_table, C20_accepted_harmless); composition for
             one malformed input at a time (C20_trichotomy_partial).
Tie        : the decision table is compared *exhaustively* (every field x value class) with the real
             `main`; the kernel-guard hypothesis (which exceptions can occur) is confronted with the
             exceptions actually seen by the fuzzing stream.
Search     : fuzzing with documented options and arbitrary values: any escaped exception, non-finite
             output, report-plus-diagnostic or empty output is a violation with the argv as replay.
"""
import collections, re
import fuzzcmd, cmdgen, c20table

LEVEL = 'proof'
MODULES = ['C20']


def replay(rp):
    if 'argv' not in rp:
        print('replay: nothing to execute:', rp.get('kind'))
        return 1
    o, d = fuzzcmd.outcome(rp.get('argv_full', rp['argv']), limit=120)
    bad = o not in ('usage', 'diag', 'report', 'timeout')
    print('replay', ' '.join(rp['argv']), '->', o, d)
    return 1 if bad else 0


def run(ck):
    ck.proof_side()
    d = ck.get_driver()
    rng = ck.rng
    viol, dis = [], []
    # 1. exhaustive decision table
    model_fields = d.ask('guard fields').split()
    names = [f['name'] for f in c20table.FIELDS]
    if sorted(model_fields) != sorted(names):
        dis.append(dict(why='field lists differ', model=model_fields, harness=names))
    ncell = 0
    for f in c20table.FIELDS:
        for c in c20table.CLASSES:
            argv = c20table.mutated(f, c)
            if argv is None:
                continue
            ncell += 1
            o, det = fuzzcmd.outcome(argv, limit=60)
            want = d.ask('guard expected', f['name'], c)
            ck.case(('table', f['name'], c), True, sample=dict(field=f['name'], cls=c, argv=argv, outcome=o) if c != 'pos' else None)
            ck.count('table_' + o)
            if o not in ('usage', 'diag', 'report'):
                viol.append(dict(kind='table', argv=argv, observed='%s %s' % (o, det), field=f['name'], cls=c))
            elif o != want:
                dis.append(dict(why='table entry %s/%s: implementation %s, model %s' % (f['name'], c, o, want), argv=argv))
    # 1a. every cell once more with a second, valid copy of the same option before / after the malformed one
    for f in c20table.FIELDS:
        for c in c20table.CLASSES:
            for order in (0, 1):
                argv = c20table.paired(f, c, order)
                if argv is None:
                    continue
                o, det = fuzzcmd.outcome(argv, limit=60)
                ck.case(('pair', f['name'], c, order), True)
                ck.count('pair_' + o)
                if o not in ('usage', 'diag', 'report', 'timeout'):
                    viol.append(dict(kind='pair', argv=argv, observed='%s %s' % (o, det), field=f['name'], cls=c))
    # 1a'. every cell once more with both output files requested (a writable place): the writers evaluate the model too;
    # and every integer-typed field with an integer beyond the range of a double
    for f in c20table.FIELDS:
        for c in c20table.CLASSES + ['bigint']:
            if c == 'bigint':
                if not f['integer']:
                    continue
                a0 = list(f['argv'])
                x = a0[f['idx']]
                if '=' in x and x.startswith('--'):
                    nm_, val = x.split('=', 1); parts = val.split(','); parts[f['pos']] = '9' * 400
                    a0[f['idx']] = nm_ + '=' + ','.join(parts)
                else:
                    parts = x.split(','); parts[f['pos']] = '9' * 400; a0[f['idx']] = ','.join(parts)
                argv = a0
                # … and once more with both output files requested (the writers format the numbers again)
                ao = a0 + ['--output-basic-input=' + fuzzcmd.OUTPATHS[0], '--output-cmdline=' + fuzzcmd.OUTPATHS[0] + '.cmd']
                oo, deto = fuzzcmd.outcome(ao, limit=8)
                ck.case(('bigint+output', f['name']), True)
                ck.count('bigint_output_' + oo)
                if oo not in ('usage', 'diag', 'report', 'timeout'):
                    viol.append(dict(kind='bigint+output', argv=[a if len(a) < 60 else a[:30] + '…(%d characters)' % len(a) for a in ao],
                                     argv_full=ao, observed='%s %s' % (oo, deto), field=f['name'], cls='bigint'))
            else:
                argv = c20table.mutated(f, c)
                if argv is None or c == 'pos':
                    continue
                argv = argv + ['--output-basic-input=' + fuzzcmd.OUTPATHS[0], '--output-cmdline=' + fuzzcmd.OUTPATHS[0] + '.cmd']
            o, det = fuzzcmd.outcome(argv, limit=60 if c != 'bigint' else 8)
            ck.case(('with-output' if c != 'bigint' else 'bigint', f['name'], c), True)
            ck.count(('outcell_' if c != 'bigint' else 'bigint_') + o)
            if o not in ('usage', 'diag', 'report', 'timeout'):
                viol.append(dict(kind='table+output' if c != 'bigint' else 'bigint', argv=[a if len(a) < 60 else a[:30] + '…(%d characters)' % len(a) for a in argv],
                                 argv_full=argv, observed='%s %s' % (o, det), field=f['name'], cls=c))
    # 1a''. words instead of numbers, deleted fields: every comma field of every option of the table's command lines
    nw = 0
    for what, argv in c20table.word_sweep():
        o, det = fuzzcmd.outcome(argv, limit=60)
        nw += 1
        ck.case(('word', tuple(argv)), True)
        ck.count('word_' + o)
        if o not in ('usage', 'diag', 'report', 'timeout'):
            viol.append(dict(kind='word', argv=argv, observed='%s: %s %s' % (what, o, det)))
    ck.stats['word_cells'] = nw
    # 1b. output-file stage, exhaustively: option x path class (and the load combination BASIC cannot express)
    import os
    base = ['-f', '7', '-w', '6,0,0,0,0,0,10,.01', '--excitation-pulse=2']
    mixed = ['--load=50+5j', '--attach-load=1,1', '--laplace-load-a=1,2e-6', '--laplace-load-b=1,1e-6', '--attach-load=2,4']
    good, nodir, isdir = fuzzcmd.OUTPATHS[0], fuzzcmd.OUTPATHS[2], fuzzcmd.OUTPATHS[3]
    ro = os.path.join(fuzzcmd.OUTDIR, 'ro'); os.makedirs(ro, exist_ok=True)
    for opt in ('--output-basic-input=', '--output-cmdline='):
        for path, exc in ((good, 'written'), (nodir, 'FileNotFoundError'), (isdir, 'IsADirectoryError')):
            for extra in ([], mixed):
                argv = base + extra + [opt + path]
                e = exc
                if extra and exc == 'written' and 'basic' in opt:
                    e = 'NotImplementedError'
                o, det = fuzzcmd.outcome(argv, limit=60)
                want = d.ask('guard output', e)
                want = 'report' if want == 'continue' else want
                ncell += 1
                ck.case(('output', opt, e, bool(extra)), True)
                ck.count('output_' + o)
                if o not in ('usage', 'diag', 'report'):
                    viol.append(dict(kind='output', argv=argv, observed='%s %s' % (o, det)))
                elif o != want:
                    dis.append(dict(why='output stage %s%s: implementation %s, model %s' % (opt, e, o, want), argv=argv))
    # 1c. every combination of the result options (far field in dBi / in V/m, near field, none) with and without the
    # values they use (distance, powers), each with both output files requested: the writers of the two files take
    # the requested results too
    import itertools
    opts_all = ['far-field', 'far-field-absolute', 'near-field', 'none']
    extras = [[], ['--ff-distance=100'], ['--ff-power=10'], ['--nf-power=5'], ['--ff-distance=100', '--ff-power=10', '--nf-power=5'],
              ['--ff-distance=0']]
    for r_ in (1, 2, 3):
        for combo in itertools.combinations(opts_all, r_):
            for ex in extras:
                for nf in ([], ['--near-field=1,1,1,1,1,1,2,1,1']):
                    argv = base + ['--option=' + o_ for o_ in combo] + ex + nf + \
                           ['--output-basic-input=' + good, '--output-cmdline=' + good + '.cmd']
                    o, det = fuzzcmd.outcome(argv, limit=60)
                    ncell += 1
                    ck.case(('options', combo, tuple(ex), bool(nf)), True)
                    ck.count('optcombo_' + o)
                    if o not in ('usage', 'diag', 'report'):
                        viol.append(dict(kind='option-combination', argv=argv, observed='%s %s' % (o, det)))
    # 1c. several malformed inputs at once against the composition rule of the model (`guard compose`: a usage error of any
    # input first, else the first diagnostic, else the report): sampled pairs and triples of table cells whose options do
    # not collide
    nb = len(c20table.BASE)
    usable = [f for f in c20table.FIELDS if f['argv'][:nb] == c20table.BASE]
    ncomb = 120 if ck.tier == 'quick' else 2500
    done = 0
    tries = 0
    while done < ncomb and tries < 20 * ncomb:
        tries += 1
        sel = rng.sample(usable, rng.choice([2, 2, 3]))
        names = []
        ok_ = True
        for f in sel:
            ex = [a.split('=')[0] for a in f['argv'][nb:]]
            if f['idx'] < nb:
                ex.append('base%d' % f['idx'])
            if set(ex) & set(names):
                ok_ = False
            names += ex
        if not ok_:
            continue
        argv = list(c20table.BASE)
        toks = []
        for f in sel:
            c = rng.choice([c_ for c_ in c20table.CLASSES if c20table.mutated(f, c_) is not None])
            mut = c20table.mutated(f, c)
            if f['idx'] < nb:
                argv[f['idx']] = mut[f['idx']]
            argv += mut[nb:]
            toks += [f['name'], c]
        # which results are computed is part of the model (`composeSel`): `--near-field` without `--option` selects the near
        # field only, and the far-field angles, powers and radials are then not looked at
        optsel = [a.split('=', 1)[1] for a in argv if a.startswith('--option=')]
        ng = any(a.startswith('--near-field') for a in argv)
        o, det = fuzzcmd.outcome(argv, limit=60)
        want = d.ask('guard composesel', ','.join(optsel) or '-', '1' if ng else '0', *toks)
        done += 1
        ck.case(('compose', tuple(toks)), True)
        ck.count('compose_' + o)
        if o not in ('usage', 'diag', 'report', 'timeout'):
            viol.append(dict(kind='compose', argv=argv, observed='%s %s' % (o, det), cells=toks))
        elif o != 'timeout' and o != want:
            dis.append(dict(why='inputs %r together: implementation %s, composition rule %s' % (toks, o, want), argv=argv))
    # 1c'. the result selection of the model against `main`: every cell of the table that belongs to one result (and a sample /
    # in the thorough tier all of the others) under every combination of result options, with and without `--near-field`
    NF = '--near-field=1,1,1,1,1,1,2,1,1'
    variants = [[]] + [list(c_) for r_ in (1, 2, 3) for c_ in itertools.combinations(['far-field', 'far-field-absolute', 'near-field', 'none'], r_)]
    staged = {'radial_count', 'ff_power', 'ff_distance', 'theta_start', 'phi_inc', 'nf_power'}
    cells = [(f, c) for f in c20table.FIELDS for c in c20table.CLASSES if c20table.mutated(f, c) is not None]
    cells_staged = [(f, c) for f, c in cells if f['name'] in staged]
    others = [(f, c) for f, c in cells if f['name'] not in staged]
    if ck.tier == 'quick':
        others = rng.sample(others, 40)
    nsel = 0
    for f, c in cells_staged + others:
        a0 = [a for a in c20table.mutated(f, c) if not a.startswith('--option=')]
        for var in (variants if (f['name'] in staged or ck.tier != 'quick') else rng.sample(variants, 4)):
            for addnf in (False, True):
                argv = a0 + ['--option=' + v for v in var]
                if addnf and not any(a.startswith('--near-field') for a in argv):
                    argv.append(NF)
                ng = any(a.startswith('--near-field') for a in argv)
                if ng and not addnf:
                    continue                     # the cell brings its own near-field parameters: one run is enough
                o, det = fuzzcmd.outcome(argv, limit=60)
                want = d.ask('guard composesel', ','.join(var) or '-', '1' if ng else '0', f['name'], c)
                nsel += 1
                ck.case(('select', f['name'], c, tuple(var), ng), True)
                ck.count('select_' + o)
                if o not in ('usage', 'diag', 'report', 'timeout'):
                    viol.append(dict(kind='select', argv=argv, observed='%s %s' % (o, det), cells=[f['name'], c]))
                elif o != 'timeout' and o != want:
                    dis.append(dict(why='input %s/%s with results %r%s: implementation %s, selection model %s'
                                    % (f['name'], c, var, ' and near-field parameters' if ng else '', o, want), argv=argv))
    ck.cov['selection_runs'] = nsel
    # 1d. runs whose *numerical* part fails (singular matrix of doubled conductors, an overflowing sweep, a frequency
    # at the bottom of the float range), each also with the timing option: the diagnostic, whatever else was asked to be printed
    kfail = [['-f', '7', '-w', '4,0,0,0,1,0,0,0.001', '-w', '4,0,0,0,1,0,0,0.001', '--excitation-pulse=1'],
             ['-f', '7', '-w', '4,0,0,0,0,0,10,.01', '--excitation-pulse=2', '--frequency-increment=1e200', '--frequency-steps=2'],
             ['-f', '1e-300', '-w', '4,0,0,0,0,0,10,.01', '--excitation-pulse=2']]
    for kf in kfail:
        for extra in ([], ['-T'], ['--timing'], ['-T', '--option=far-field', '--option=far-field-absolute', '--ff-distance=10']):
            argv = kf + extra
            o, det = fuzzcmd.outcome(argv, limit=60)
            ncell += 1
            ck.case(('kernel-failure', tuple(argv)), True)
            ck.count('kernelfail_' + o)
            if o not in ('usage', 'diag', 'report', 'timeout'):
                viol.append(dict(kind='kernel-failure', argv=argv, observed='%s %s' % (o, det)))
    ck.stats['table_cells'] = ncell
    ck.cov['exhaustive'] = True
    # 2. fuzzing stream
    n = 1500 if ck.tier == 'quick' else 30000
    seen_exc = collections.Counter()
    for i in range(n):
        if i < len(fuzzcmd.CORPUS):
            argv = list(fuzzcmd.CORPUS[i])
        elif i % 6 == 5:
            argv, meta = cmdgen.gen_cmdline(rng)
        else:
            argv = fuzzcmd.gen(rng)
        o, det = fuzzcmd.outcome(argv, limit=30)
        ck.case(('fuzz', tuple(argv)), True, sample=dict(argv=argv, outcome=o) if i < 3 else None)
        ck.count('fuzz_' + o)
        if o == 'diag':
            ck.count('diagfam_' + re.sub(r'[^A-Za-z ]', '', det)[:24].strip().replace(' ', '_'))
            if det.startswith('Numerical error'):
                seen_exc[det[:60]] += 1
        if o not in ('usage', 'diag', 'report', 'timeout'):
            viol.append(dict(kind='fuzz', argv=argv, observed='%s %s' % (o, det)))
    ck.stats['numerical_error_kinds'] = dict(seen_exc.most_common(8))
    ck.stats['disagreements'] = len(dis)
    ck.cov['rule'] = ('(1) exhaustive: every (field, value class) cell of the decision table, %d cells; (2) fuzz: documented options '
                      'with zero, negative, huge, tiny, non-finite values, wrong arity, extra contradictory options, plus accepted '
                      'command lines from the structured generator; distinct = distinct argument lists' % ncell)
    ck.assumptions += ['argparse itself is trusted to end in SystemExit (usage) for anything it rejects',
                       'kernelRaises (Lean) lists the exception classes the numerical kernel can raise; the fuzz stream would show any other class as a crash',
                       'cases that exceed the per-case time limit (huge but valid problems) are counted as timeouts, not judged',
                       'C20_trichotomy_partial covers one malformed numeric input at a time; combinations are covered by fuzzing only']
    seen = collections.Counter()
    for v in viol:
        key = re.sub(r'[-0-9.e+]+', '#', v['observed'])[:50]
        seen[key] += 1
        if seen[key] == 1 and len(seen) <= 8:
            ck.violation(v)
    ck.stats['violation_classes'] = dict(seen)
    if (dis or ck.broken) and not viol:
        ck.violation(dict(kind='broken-tie', detail=dict(broken=ck.broken, disagreements=dis[:5]),
                          theorem='Pmn.Props.C20.* / correspondence guard expected'), found_input=False)
