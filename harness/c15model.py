"""projection Mininec -> structured option model and comparison with the Lean writer (C15 tie)"""


def compare(d, argv):
    return None
