"""projection Mininec -> structured option model and comparison with the Lean writer (C15 tie)"""
import re, shlex, collections
from common import run_main

LUMP = {'Impedance_Load': 'imp', 'Series_RLC_Load': 'rlc', 'Trap_Load': 'trap', 'Laplace_Load': 'laplace'}


def project(m):
    from mininec import mininec as M
    toks = []
    ids = {}

    def vid(v):
        if v == 1 + 0j:
            return 0
        return ids.setdefault(('v', complex(v)), len(ids) + 1)
    toks.append(len(m.sources))
    for s in m.sources:
        if s.geo_tag is not None and s.geo_idx is not None:
            toks += ['rel', s.geo_idx + 1, s.geo_tag]
        else:
            toks += ['abs', s.idx + 1, 0]
        toks += [vid(s.voltage), 1 if s.is_default else 0]
    toks.append(len(m.geo))
    for w in m.geo:
        toks += [w.tag, len(w.pulses)] + [p.idx + 1 for p in w.pulses]
    lumps = [l for l in m.loads if type(l).__name__ in LUMP]
    toks.append(len(lumps))
    for k, l in enumerate(lumps):
        toks += [LUMP[type(l).__name__], k + 1, len(l.pulses)] + [p.idx + 1 for p in l.pulses]
    return toks, lumps


def parse_real(txt):
    """structure of the real option text: source options in order, load definitions in order,
    attachments per load number as a multiset"""
    S, L, A = [], [], collections.defaultdict(collections.Counter)
    nl = 0
    lap = 0
    for line in txt.split('\n'):
        if line.startswith('--excitation-pulse='):
            v = line.split('=')[1].split(',')
            S.append('Pabs:%s' % v[0] if len(v) == 1 else 'Prel:%s:%s' % (v[0], v[1]))
        elif line.startswith('--excitation-voltage='):
            S.append('V')
        elif line.startswith('--load='):
            L.append('imp')
        elif line.startswith('--rlc-load='):
            L.append('rlc')
        elif line.startswith('--trap-load='):
            L.append('trap')
        elif line.startswith('--laplace-load-b='):
            L.append('laplace')
        elif line.startswith('--attach-load='):
            v = line.split('=')[1].split(',')
            if v[1] == 'all':
                key = 'all' if len(v) == 2 else 'o:%s' % v[2]
            else:
                key = 'p:%s' % v[1] if len(v) == 2 else 'r:%s:%s' % (v[1], v[2])
            A[int(v[0])][key] += 1
    return S, L, A


def project_dist(m):
    """distributed loads of the object in m.loads order: kind, parameter id, object tag, all_wires"""
    ids = {}
    toks = [len(m.geo)] + [w.tag for w in m.geo]
    dl = []
    for l in m.loads:
        n = type(l).__name__
        if n == 'Skin_Effect_Load':
            kind = 'res' if l.resistivity is not None else 'cond'
            par = '%g' % (l.resistivity if l.resistivity is not None else l.conductivity)
        elif n == 'Insulation_Load':
            kind, par = 'coat', '%g,%g' % (l.radius, l.epsilon_r)
        else:
            continue
        dl.append((kind, ids.setdefault(par, len(ids) + 1), l.geobj.tag, 1 if l.all_wires else 0, par))
    toks.append(len(dl))
    for k, p, t, a, _ in dl:
        toks += [k, p, t, a]
    return toks, {v: k for k, v in ids.items()}


def parse_real_dist(txt):
    out = []
    for line in txt.split('\n'):
        for opt, kind, npar in (('--skin-effect-conductivity=', 'cond', 1), ('--skin-effect-resistivity=', 'res', 1),
                                ('--insulation-load=', 'coat', 2)):
            if line.startswith(opt):
                v = line[len(opt):].split(',')
                out.append((kind, ','.join(v[:npar]), 'all' if len(v) == npar else v[npar]))
    return out


def compare_dist(d, m):
    toks, names = project_dist(m)
    ans = d.ask('cmd dist', *toks)
    mm = re.match(r'^(\d) D\[(.*)\]$', ans)
    if not mm:
        return 'driver: ' + ans[:80]
    if mm.group(1) != '1':
        return 'model reader does not recover the projected distributed loads'
    mo = []
    for x in mm.group(2).split(','):
        if x:
            k, p, t = x.split(':')
            mo.append((k, names[int(p)], t))
    real = parse_real_dist(m.as_cmdline())
    if mo != real:
        return 'distributed-load options: implementation %r, model %r' % (real, mo)
    return None


def compare(d, argv):
    r = run_main(argv, want_mininec=True)
    m = r['m']
    if m is None:
        return None
    why = compare_dist(d, m)
    if why:
        return why
    toks, lumps = project(m)
    ans = d.ask('cmd write', *toks)
    mm = re.match(r'^(\d) (\d) S\[(.*)\] L\[(.*)\]$', ans)
    if not mm:
        return 'driver: ' + ans[:80]
    if mm.group(1) != '1':
        return 'model reader does not recover the projected sources'
    if mm.group(2) != '1':
        return 'model reader does not recover the projected loads'
    S, L, A = parse_real(m.as_cmdline())
    ms = [x if x[0] == 'P' else 'V' for x in mm.group(3).split(',') if x]
    if ms != S:
        return 'source options: implementation %r, model %r' % (S, ms)
    ml, ma = [], collections.defaultdict(collections.Counter)
    for x in mm.group(4).split(','):
        if not x:
            continue
        if x[0] == 'L':
            ml.append(x[1:].split(':')[0])
        else:
            i, a = x[1:].split(':', 1)
            ma[int(i)][a] += 1
    if ml != L:
        return 'load definitions: implementation %r, model %r' % (L, ml)
    if dict(ma) != dict(A):
        return 'load attachments: implementation %r, model %r' % (dict(A), dict(ma))
    return None
