"""C15 — the option file written for a model reproduces that model when read back.

Proof side : Pmn/Props/C15.lean — round trips of the option sub-languages on the structured model
             (sources with optional voltages, lumped-load numbering and attachments, complex-number
             syntax, taper by tag, tags of objects, transformation order).
Tie        : `Mininec.as_cmdline` line-for-line equal to the Lean writer applied to the projected
             model, for generated accepted command lines of every option kind.
Search     : the property itself on the implementation: main(argv) -> as_cmdline -> main(written)
             must be accepted, give the same objects / sources / loads per pulse / media, the same feed
             impedance, and the same option set when written again.
"""
import shlex, collections, math
import numpy as np
from common import run_main, hexs, unhexs
import cmdgen

LEVEL = 'proof'
MODULES = ['C15', 'C15b', 'C15c', 'C15d']


def model_struct(m):
    from mininec import mininec as M
    objs = []
    for w in m.geo:
        d = dict(cls=type(w).__name__, tag=w.tag, nseg=w.n_segments, r=float(w.r_orig),
                 p1=[float(x) for x in w.p1], p2=[float(x) for x in w.p2])
        if isinstance(w, M.Wire):
            # taper limits matter only while the wire is tapered (a taper that cannot be built falls back to equal segments,
            # the limits then stay on the object unused and are not written)
            d.update(segtype=w.segtype, tmin=w.taper_min if w.segtype else None, tmax=w.taper_max if w.segtype else None)
        d['seg'] = [[float(x) for x in s.p2] for s in w.segments]
        # distributed loads are properties of the geo object (a junction pulse takes them from both of its wires,
        # an insulation also changes the effective radius), whether or not the object owns a pulse
        sk, ct = getattr(w, 'skin_load', None), getattr(w, 'coat_load', None)
        d['skin'] = None if sk is None else float(sk.conductivity)
        d['coat'] = None if ct is None else [float(ct.radius), float(ct.epsilon_r)]
        d['r_eff'] = float(w.r)
        objs.append(d)
    srcs = [(s.idx, complex(s.voltage)) for s in m.sources]
    per_pulse = collections.defaultdict(list)
    for l in m.loads:
        for p in l.pulses:
            per_pulse[p.idx].append((type(l).__name__, complex(l.impedance(m.f, p))))
    media = None
    if m.media:
        media = [(md.permittivity, md.conductivity, md.height, md.coord, md.nradials, md.radius, md.boundary) for md in m.media]
    return dict(f=m.f, objs=objs, srcs=srcs, loads={k: sorted(v, key=str) for k, v in per_pulse.items()}, media=media)


def near(a, b, rel=2e-6):
    if isinstance(a, (list, tuple)):
        return len(a) == len(b) and all(near(x, y, rel) for x, y in zip(a, b))
    if isinstance(a, dict):
        return a.keys() == b.keys() and all(near(a[k], b[k], rel) for k in a)
    if isinstance(a, (float, complex)) and isinstance(b, (int, float, complex)):
        return abs(a - b) <= rel * max(abs(a), abs(b)) + 1e-12
    return a == b


def angles(argv):
    from mininec.mininec import Angle
    th = [a for a in argv if a.startswith('--theta=')][0].split('=')[1].split(',')
    ph = [a for a in argv if a.startswith('--phi=')][0].split('=')[1].split(',')
    return Angle(float(th[0]), float(th[1]), int(th[2])), Angle(float(ph[0]), float(ph[1]), int(ph[2]))


def roundtrip(argv, with_impedance=True):
    """the property on the implementation; returns (violation text or None, accepted?)"""
    r = run_main(argv, want_mininec=True)
    if r['m'] is None:
        return None, False
    m = r['m']
    zen, azi = angles(argv)
    txt = m.as_cmdline(azi=azi, zen=zen)
    argv2 = shlex.split(txt)
    r2 = run_main(argv2, want_mininec=True)
    if r2['m'] is None:
        msg = (r2['err'] or r2['out'] or str(r2['exc'])).strip().split('\n')[-1][:160]
        return 'written options are not accepted (%s): %s' % (r2['kind'], msg), True
    m2 = r2['m']
    s1, s2 = model_struct(m), model_struct(m2)
    for k in ('f', 'objs', 'srcs', 'loads', 'media'):
        if not near(s1[k], s2[k]):
            return 're-read model differs in %s' % k, True
    txt2 = m2.as_cmdline(azi=azi, zen=zen)
    if sorted(txt2.split('\n')) != sorted(txt.split('\n')):
        return 'writing the options of the re-read model gives a different option set', True
    if with_impedance:
        try:
            m.compute(); m2.compute()
            for a, b in zip(m.sources, m2.sources):
                if abs(a.impedance - b.impedance) > 1e-4 * abs(a.impedance):
                    return 'feed impedance %r vs %r after re-read' % (a.impedance, b.impedance), True
        except Exception:
            pass
    return None, True


def transforms_tie(d, argv):
    """the transformation list of the re-read model vs the Lean `readTransforms` applied to the list the first model
    wrote (its `geo.transforms` in application order)"""
    from common import f2b
    r = run_main(argv, want_mininec=True)
    m = r['m']
    if m is None or not m.geo.transforms:
        return None
    zen, azi = angles(argv)
    m2 = run_main(shlex.split(m.as_cmdline(azi=azi, zen=zen)), want_mininec=True)['m']
    if m2 is None:
        return None
    T = list(m.geo.transforms)
    toks = ['geom readtr', len(T)]
    for key, kind, vec, tag in T:
        toks += [f2b(float(key)), 'r' if kind == 'rotate' else 't', -1 if tag is None else int(tag)]
    order = [int(x) for x in d.ask(*toks).split()]
    want = [T[i] for i in order]
    got = list(m2.geo.transforms)
    same = len(want) == len(got) and all(
        w[1] == g[1] and w[3] == g[3] and near(float(w[0]), float(g[0]), 1e-9) and near([float(x) for x in w[2]], [float(x) for x in g[2]], 1e-9)
        for w, g in zip(want, got))
    if not same:
        return 'transformations of the re-read model %r, model %r' % ([(g[0], g[1], g[3]) for g in got], [(w[0], w[1], w[3]) for w in want])
    return None


def media_tie(d, rng, n):
    """media options through the real `main` vs the Lean `readMedia` / `writeMedia` (numbers as opaque identifiers:
    0 = zero, a radius that is not positive = 0, the default coordinate 1e6 = `inf`): accepted or rejected alike, the
    same list of media (constants, height, coordinate, radials, boundary type), the same written options, and the
    model's own round trip flag.  Returns (disagreements, counts)."""
    base = ['-f', '7', '-w', '8,0,0,1,0,0,11,.001', '--excitation-pulse=1']
    dis, cnt = [], collections.Counter()
    for _ in range(n):
        k = rng.choice([1, 1, 2, 2, 3, 4])
        opts, argv = [], list(base)
        for i in range(k):
            eps = rng.choice([13.0, 5.0, 3.0, 13.0, 0.0])
            sig = rng.choice([0.005, 0.001, 0.02, 0.005, 0.0])
            if rng.random() < 0.08:
                eps, sig = 0.0, 0.0
            h = 0.0 if (i == 0 and rng.random() < 0.9) else rng.choice([0.0, -1.0, -2.0, 2.0])
            if eps == 0.0 and sig == 0.0 and rng.random() < 0.8:
                h = 0.0
            c = None
            if rng.random() < (0.85 if i + 1 < k else 0.3):
                c = rng.choice([10.0, 30.0, 50.0, 1e6])
            opts.append((eps, sig, h, c))
            argv.append('--medium=' + ','.join('%g' % x for x in (eps, sig, h) + ((c,) if c is not None else ())))
        circ = rng.choice([None, None, 'linear', 'circular'])
        if circ:
            argv.append('--boundary=' + circ)
        rc = rng.choice([0, 0, 0, 8, 16])
        rr = None
        if rc or rng.random() < 0.1:
            if rc:
                argv.append('--radial-count=%d' % rc)
            rr = rng.choice([0.001, 0.001, 0.002, None, 0.0, -0.001])
            if rr is not None:
                argv.append('--radial-radius=%g' % rr)
        ids = {0.0: 0}

        def nid(x):
            x = float(x)
            if x not in ids:
                ids[x] = len(ids) + 1
            return ids[x]
        inf = nid(1e6)
        toks = ['cmd media', inf, 1 if circ == 'circular' else 0, rc,
                0 if rr is None else 1 + (0 if rr <= 0 else nid(rr)), k]
        for (eps, sig, h, c) in opts:
            toks += [nid(eps), nid(sig), nid(h), 0 if c is None else 1 + nid(c)]
        ans = d.ask(*toks)
        r = run_main(argv, want_mininec=True)
        if r['kind'] == 'crash':
            dis.append(dict(argv=argv, why='main raised ' + str(r['exc'])))
            continue
        m = r['m']
        cnt['media_accepted' if m is not None else 'media_rejected'] += 1
        if (m is None) != (ans == 'error'):
            dis.append(dict(argv=argv, why='media options %s by main, model says %r' % ('rejected' if m is None else 'accepted', ans[:60])))
            continue
        if m is None:
            continue
        parts = ans.split(' | ')
        want = ['%d,%d,%d,%d,%d,%d,%d' % (nid(md.permittivity), nid(md.conductivity), nid(md.height), nid(md.coord), md.nradials,
                                          nid(md.radius), 1 if md.boundary == 'circular' else 0) for md in (m.media or [])]
        got = parts[0].split()[2:]
        if got != want:
            dis.append(dict(argv=argv, why='media of the model %r, Lean model %r' % (want, got)))
            continue
        # written options
        wcirc, wrc, wrr, wmed = 0, 0, '-', []
        for line in m.as_cmdline().split('\n'):
            if line.startswith('--medium='):
                v = [float(x) for x in line.split('=')[1].split(',')]
                wmed.append('%d,%d,%d,%s' % (nid(v[0]), nid(v[1]), nid(v[2]), '-' if len(v) < 4 else str(nid(v[3]))))
            elif line.startswith('--boundary='):
                wcirc = 1 if line.endswith('circular') else 0
            elif line.startswith('--radial-count='):
                wrc = int(line.split('=')[1])
            elif line.startswith('--radial-radius='):
                wrr = str(nid(float(line.split('=')[1])))
        wtxt = ' '.join([str(wcirc), str(wrc), wrr] + wmed)
        if wtxt != parts[1].strip():
            dis.append(dict(argv=argv, why='written media options %r, Lean writer %r' % (wtxt, parts[1].strip())))
        elif parts[2].strip() != '1':
            dis.append(dict(argv=argv, why='the Lean model does not read its own written media back'))
        cnt['media_%d' % len(want)] += 1
    return dis, cnt


def replay(rp):
    if 'argv' not in rp:
        print('replay: nothing to execute:', rp.get('kind'))
        return 1
    bad, acc = roundtrip(rp['argv'])
    print('replay ->', bad or 'property holds')
    return 1 if bad else 0


CORPUS = [
    ['-w', '10,0,0,0,0,0,10,.001', '--load=5-3j', '--attach-load=1,2', '--theta=0,10,2', '--phi=0,90,1'],
    ['-w', '7,6,0,0,0,0,0,10,.001', '-w', '3,6,0,0,10,5,0,10,.001', '--taper-wire=7,1', '--theta=0,10,2', '--phi=0,90,1'],
    ['-w', '10,0,0,0,0,0,10,.001', '--excitation-pulse=3', '--excitation-voltage=1', '--excitation-pulse=5',
     '--excitation-voltage=2j', '--theta=0,10,2', '--phi=0,90,1'],
    ['-w', '10,0,0,0,0,0,10,.001', '--load=50', '--rlc-load=1,1e-6,', '--attach-load=2,1', '--attach-load=1,2',
     '--theta=0,10,2', '--phi=0,90,1'],
    ['-w', '8,0,0,0,0,0,10,.001', '--excitation-pulse=1', '--medium=13,0.005,0,10', '--medium=5,0.001,-1,50',
     '--theta=0,10,2', '--phi=0,90,1'],
    ['-w', '10,0,0,0,0,0,10,.001', '--rlc-load=50,0,1e-10', '--attach-load=1,2', '--rlc-load=0,3e-6,0', '--attach-load=2,4',
     '--theta=0,10,2', '--phi=0,90,1'],
    ['-w', '20,0,0,0,0,0,10,.001', '--excitation-pulse=10', '--trap-load=2,1.2e-6,1e-10', '--attach-load=1,4', '--trap-load=1.5,3.3e-6,',
     '--attach-load=2,16', '--theta=0,10,2', '--phi=0,90,1'],
    ['-w', '3,0,0,0,0,0,3,.001', '--excitation-pulse=1', '--load=5', '--attach-load=1,1', '--attach-load=1,1',
     '--theta=0,10,2', '--phi=0,90,1'],
    ['-w', '4,0,0,0,0,0,5,.001', '-w', '4,0,0,5,0,3,5,.001', '--excitation-pulse=2', '--skin-effect-conductivity=5e7,1',
     '--skin-effect-conductivity=3e7,2', '--insulation-load=.004,2.5,1', '--insulation-load=.005,3,2',
     '--theta=0,10,2', '--phi=0,90,1'],
    # several sources, one of them looking like the source used when no excitation option is given (1 V on absolute pulse 5)
    ['-f', '14', '-w', '10,0,0,0,0,0,10,.001', '-w', '10,3,0,0,3,0,10,.001', '--excitation-pulse=5', '--excitation-voltage=1',
     '--excitation-pulse=14', '--excitation-voltage=0+1j', '--theta=0,10,2', '--phi=0,90,1'],
    ['-f', '14', '-w', '10,0,0,0,0,0,10,.001', '-w', '10,3,0,0,3,0,10,.001', '--excitation-pulse=14', '--excitation-voltage=2',
     '--excitation-pulse=5', '--excitation-voltage=1', '--excitation-pulse=3,2', '--excitation-voltage=1', '--theta=0,10,2', '--phi=0,90,1'],
    # taper limits together with scaling of everything / of the tapered wire / of another wire
    ['-f', '7', '-w', '4,8,0,0,0,0,0,20,.002', '-w', '5,5,0,0,20,8,0,20,.002', '--taper-wire=4,3,0.4,4', '--geo-scale=2',
     '--excitation-pulse=1', '--theta=0,10,2', '--phi=0,90,1'],
    ['-f', '7', '-w', '4,8,0,0,0,0,0,20,.002', '-w', '5,5,0,0,20,8,0,20,.002', '--taper-wire=4,1,0.3,5', '--geo-scale=0.5,4',
     '--taper-wire=5,2,0.5', '--geo-scale=3,5', '--excitation-pulse=1', '--theta=0,10,2', '--phi=0,90,1'],
]


def run(ck):
    import c15model
    ck.proof_side()
    ck.cov['further_clauses'] = 'corpus: taper limits together with scaling of everything / of single wires; a rejected corpus line is a disagreement'
    d = ck.get_driver()
    rng = ck.rng
    n = 150 if ck.tier == 'quick' else 2500
    dis, viol = [], []
    cases = [(a, dict(corpus=True)) for a in CORPUS] + [cmdgen.gen_cmdline(rng) for _ in range(n)]
    for argv, meta in cases:
        try:
            bad, acc = roundtrip(argv, with_impedance=(ck.cov['evaluations'] % 5 == 0))
        except Exception as e:
            bad, acc = 'round trip raised %s: %s' % (type(e).__name__, e), True
        if not acc:
            if meta.get('corpus'):
                dis.append(dict(argv=argv, why='corpus command line is rejected by main'))
            ck.count('generated_but_rejected')
            continue
        ck.case(tuple(sorted(set(a.split('=')[0] for a in argv))) + (meta.get('tagmode'), tuple(meta.get('loads', ()))), True,
                sample=dict(argv=argv))
        for a in set(x.split('=')[0] for x in argv if x.startswith('--')):
            ck.count('opt' + a)
        if bad:
            viol.append(dict(kind='roundtrip', argv=argv, observed=bad))
            continue
        why = c15model.compare(d, argv) or transforms_tie(d, argv)
        if why:
            dis.append(dict(argv=argv, why=why))
    # media options (valid and invalid combinations) vs the Lean media model
    mdis, mcnt = media_tie(d, rng, 120 if ck.tier == 'quick' else 2500)
    for k_, v_ in mcnt.items():
        ck.count(k_, v_)
    for x in mdis:
        # a disagreement on accepted media whose real round trip fails is a violation with that input
        bad = None
        try:
            a2 = x['argv'] + ['--theta=0,10,2', '--phi=0,90,1']
            bad, acc = roundtrip(a2, with_impedance=False)
        except Exception as e:
            bad = 'round trip raised %s: %s' % (type(e).__name__, e)
        if bad:
            viol.append(dict(kind='roundtrip', argv=a2, observed=bad))
        else:
            dis.append(x)
    ck.stats['disagreements'] = len(dis)
    ck.cov['rule'] = ('accepted command lines from the shared generator: wires/arcs/helices with automatic, explicit, sparse and mixed '
                      'tags, tagged and untagged rotations/translations, scaling, tapering, 1-2 sources with complex voltages in '
                      'absolute and per-object form, 0-3 lumped loads of every class attached in every form and in random order, '
                      'distributed loads, all media forms; distinct = distinct (option-name set, tag mode, load classes); media options in valid and invalid '
                      'combinations (1-4 media, ideal ground anywhere, heights, coordinates given or not, boundary type, radials with good / missing / '
                      'non-positive radius) against the Lean media model')
    ck.assumptions += ["Python's float()/complex()/'%g' round trip is not modelled: numbers are opaque tokens in the Lean model, "
                       "equality after re-read is checked numerically (2e-6) on the implementation",
                       'argparse semantics (append actions, = syntax) are trusted']
    seen = collections.Counter()
    for v in viol:
        key = v['observed'][:45]
        seen[key] += 1
        if seen[key] == 1 and len(seen) <= 6:
            ck.violation(v)
    ck.stats['violation_classes'] = dict(seen)
    if (dis or ck.broken) and not viol:
        ck.violation(dict(kind='broken-tie', detail=dict(broken=ck.broken, disagreements=dis[:3]),
                          theorem='Pmn.Props.C15.* / correspondence cmd write'), found_input=False)
