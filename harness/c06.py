"""C06 — results do not depend on how the same conductor structure is described.

Proof side : Pmn/Props/C06.lean — (i) congruence theorem: if the matrix and right-hand side of a second
             description are `T Z Tᵀ` and `T v` for an invertible `T` (a signed permutation for
             reversal / reordering / splitting, a unimodular recombination of the junction pulses
             for stars), the currents of the first description are `Tᵀ I'`, every half-segment
             current and every feed impedance is the same; (ii) on the fill model: reversing the
             description of a pulse (halves exchanged, directions negated) negates its row and its
             column, for every potential functional that does not depend on the orientation of the
             integration path; (iii) the Gauss rule of the implementation is such a functional.
Tie        : on the implementation, `Z' = T Z Tᵀ` and `rhs' = T rhs` with `T` computed from the two
             pulse tables (half-segment incidence), to 5e-6 of the matrix scale (the evaluation shortcuts inside one straight object, which a split or reversal switches off or on, differ by up to 6e-7); the fill model itself
             is tied to `Mininec.Z` by C02 / C05.
Search     : the property on the implementation: half-segment currents, feed impedances, far field
             and near field of the two descriptions with the condition-number rule.
"""
import math, random, re
import numpy as np
import antgen, farlib

LEVEL = 'proof'
MODULES = ['C06']


# ---------------------------------------------------------------- re-descriptions

def redescribe(rng, ant, mode=None):
    """reverse wires, reorder them, split straight wires at segment boundaries"""
    ws = [dict(w) for w in ant['wires']]
    ops = []
    mode = mode or rng.choice(['reverse', 'order', 'split', 'all', 'all'])
    if mode in ('split', 'all'):
        out = []
        for w in ws:
            if w['nseg'] >= 2 and rng.random() < 0.6 and not w.get('segtype'):      # a tapered wire is one object: its parts would be tapered anew
                k = rng.randint(1, w['nseg'] - 1)
                p0, p1 = np.array(w['p0']), np.array(w['p1'])
                mid = p0 + (p1 - p0) * (k / w['nseg'])
                out.append(dict(w, nseg=k, p1=[float(x) for x in mid]))
                out.append(dict(w, nseg=w['nseg'] - k, p0=[float(x) for x in mid]))
                ops.append('split@%d/%d' % (k, w['nseg']))
            else:
                out.append(w)
        ws = out
    if mode in ('reverse', 'all'):
        for w in ws:
            if rng.random() < 0.5:
                w['p0'], w['p1'] = w['p1'], w['p0']
                if w.get('segtype') in (1, 2):
                    w['segtype'] = 3 - w['segtype']          # the same conductor: the taper stays at the same physical end
                ops.append('rev')
    if mode in ('order', 'all'):
        perm = list(range(len(ws)))
        rng.shuffle(perm)
        ws = [ws[i] for i in perm]
        ops.append('perm%s' % perm)
    return dict(ant, wires=ws), mode, ops


# ---------------------------------------------------------------- description-independent observables

def key3(v, q):
    return tuple(int(round(float(x) / q)) for x in v)


def half_table(m, q):
    """rows: (node key, far-end key) of every real half segment; columns: pulses; entry = +1 if the
    pulse current flows from the node towards the far end on that half, -1 if towards the node"""
    rows = {}
    ent = []
    for p in m.pulses:
        for h in (0, 1):
            if p.ground[h]:
                continue
            u = np.array(p.segs[h].dirvec, dtype=float) * float(p.dir_sgn[h])
            out = np.array(p.ends[h], dtype=float) - np.array(p.point, dtype=float)
            s = 1.0 if float(np.dot(u, out)) > 0 else -1.0
            k = (key3(p.point, q), key3(p.ends[h], q))
            r = rows.setdefault(k, len(rows))
            ent.append((r, p.idx, s))
    B = np.zeros((len(rows), len(m.pulses)))
    for r, c, s in ent:
        B[r, c] += s
    return rows, B


def transfer(m0, m1, q):
    """T with I0 = T^T I1 from the two incidence tables; None if the half segments differ"""
    r0, B0 = half_table(m0, q)
    r1, B1 = half_table(m1, q)
    if set(r0) != set(r1):
        return None, 'the two descriptions do not have the same half segments (%d vs %d)' % (len(r0), len(r1))
    order = [r1[k] for k in sorted(r0, key=lambda k: r0[k])]
    B1 = B1[order]
    # B0 I0 = B1 I1  =>  I0 = pinv(B0) B1 I1
    Tt, res, rk, _ = np.linalg.lstsq(B0, B1, rcond=None)
    if np.max(np.abs(B0 @ Tt - B1)) > 1e-9:
        return None, 'the pulse sets of the two descriptions do not span the same currents'
    if np.max(np.abs(Tt - np.round(Tt))) > 1e-9:
        return None, 'non-integer recombination of pulses'
    return np.round(Tt).T, None


def solve(ant, srcs):
    from mininec.mininec import Excitation
    m = antgen.build(ant)
    for p, v in srcs:
        m.register_source(Excitation(v), p)
    m.compute()
    return m


def pick_sources(rng, m0, m1, q):
    """sources on nodes that carry exactly one pulse in both descriptions; returns the two source lists
    (the voltage of the second description negated where its pulse points the other way)"""
    def by_node(m):
        d = {}
        for p in m.pulses:
            d.setdefault(key3(p.point, q), []).append(p)
        return d
    n0, n1 = by_node(m0), by_node(m1)
    cand = [k for k in n0 if len(n0[k]) == 1 and len(n1.get(k, ())) == 1]
    if not cand:
        return None
    rng.shuffle(cand)
    s0, s1 = [], []
    r0, B0 = half_table(m0, q)
    r1, B1 = half_table(m1, q)
    if set(r0) != set(r1):
        # the same conductors must give the same real half segments (node, far end) whatever the description; a second
        # quantisation rules out a coordinate that sits on a rounding boundary
        ra, _ = half_table(m0, q * 1.37)
        rb, _ = half_table(m1, q * 1.37)
        if set(ra) != set(rb):
            only0 = sorted(set(r0) - set(r1))[:1]
            return ('the two descriptions of the same conductors have different half segments: %d vs %d, e.g. (pulse point, far end) = %r in one only'
                    % (len(r0), len(r1), [tuple(round(c * q, 6) for c in kk) for kk in only0[0]] if only0 else None))
        return None
    B1 = B1[[r1[k] for k in sorted(r0, key=lambda k: r0[k])]]
    for k in cand[:rng.randint(1, min(3, len(cand)))]:
        p0, p1 = n0[k][0], n1[k][0]
        mag = 10 ** rng.uniform(-1, 1.5)
        ph = rng.uniform(-math.pi, math.pi) if rng.random() < 0.7 else 0.0
        v = complex(mag * math.cos(ph), mag * math.sin(ph))
        d = 1.0 if float(B0[:, p0.idx] @ B1[:, p1.idx]) > 0 else -1.0
        s0.append((p0.idx, v))
        s1.append((p1.idx, v * d))
    return s0, s1


def property_on_impl(ant, ant2, seed):
    rng = random.Random(seed)
    q = ant['seg'] * 1e-6
    g0, g1 = antgen.build(ant), antgen.build(ant2)
    ss = pick_sources(rng, g0, g1, q)
    if ss is None:
        return None, None
    if isinstance(ss, str):
        return ss, None
    m0, m1 = solve(ant, ss[0]), solve(ant2, ss[1])
    cn = max(antgen.cond(m0), antgen.cond(m1))
    if cn > 1e5:
        return None, None
    tol = 5e-4 if cn <= 1e3 else 5e-7 * cn
    if len(m0.pulses) != len(m1.pulses):
        return 'the two descriptions have %d and %d pulses' % (len(m0.pulses), len(m1.pulses)), None
    T, why = transfer(m0, m1, q)
    tie = None
    if T is None:
        return why, None
    # tie: Z' = T Z T^T, rhs' = T rhs
    sc = np.max(np.abs(m0.Z))
    dz = np.max(np.abs(m1.Z - T @ m0.Z @ T.T)) / sc
    dr = np.max(np.abs(m1.rhs - T @ m0.rhs)) / max(np.max(np.abs(m0.rhs)), 1e-300)
    tie = (dz, dr)
    # half-segment currents
    r0, B0 = half_table(m0, q)
    r1, B1 = half_table(m1, q)
    order = [r1[k] for k in sorted(r0, key=lambda k: r0[k])]
    h0, h1 = B0 @ m0.current, (B1 @ m1.current)[order]
    scI = np.max(np.abs(h0))
    if np.max(np.abs(h0 - h1)) > tol * scI:
        return 'half-segment currents differ by %.3g (relative) between the two descriptions' % (np.max(np.abs(h0 - h1)) / scI), tie
    for a, b in zip(m0.sources, m1.sources):
        if abs(a.impedance - b.impedance) > tol * abs(a.impedance):
            return 'feed impedance %r in one description, %r in the other' % (a.impedance, b.impedance), tie
    ths, phs = [25.0, 70.0] + ([] if ant['ground'] else [130.0]), [10.0, 200.0]
    f0, f1 = farlib.impl_far(m0, ths, phs), farlib.impl_far(m1, ths, phs)
    mx = max(v['db'][2] for v in f0.values())
    for k in f0:
        a, b = f0[k]['db'][2], f1[k]['db'][2]
        if a > mx - 30 and abs(a - b) > 0.01 + 20 * tol:
            return 'gain %r dB vs %r dB at %r' % (a, b, k), tie
    # near field at a point two segments away from the structure's bounding box
    pts = np.array([p.point for p in m0.pulses])
    c = pts.mean(axis=0)
    ext = float(np.max(np.linalg.norm(pts - c, axis=1)))
    o = c + np.array([0.6, 0.5, 0.62]) * (ext + 3 * ant['seg'])
    if ant['ground']:
        o[2] = abs(o[2]) + ant['seg']
    for m in (m0, m1):
        m.compute_near_field([float(x) for x in o], [1.0, 1.0, 1.0], [1, 1, 1])
    e0, e1 = np.array(m0.e_field).ravel(), np.array(m1.e_field).ravel()
    hh0, hh1 = np.array(m0.h_field).ravel(), np.array(m1.h_field).ravel()
    if np.max(np.abs(e0 - e1)) > tol * np.max(np.abs(e0)):
        return 'near E field differs by %.3g (relative)' % (np.max(np.abs(e0 - e1)) / np.max(np.abs(e0))), tie
    if np.max(np.abs(hh0 - hh1)) > tol * np.max(np.abs(hh0)):
        return 'near H field differs by %.3g (relative)' % (np.max(np.abs(hh0 - hh1)) / np.max(np.abs(hh0))), tie
    return None, tie


def in_domain(ant):
    """at most one wire ends on any ground point"""
    if not ant['ground']:
        return True
    pts = [tuple(round(x / ant['seg'], 3) for x in p) for w in ant['wires'] for p in (w['p0'], w['p1']) if abs(p[2]) < 1e-9 * ant['seg']]
    return len(pts) == len(set(pts))


def symmetric_case(rng):
    """a mirror-symmetric antenna with a symmetric feed has mirror-symmetric currents"""
    lam = 299.8 / 14.0
    seg = lam / 30
    n = rng.randint(2, 5)
    nc = 2 * rng.randint(1, 3)
    a = rng.uniform(20, 80)
    d = np.array([math.cos(math.radians(a)), 0.0, math.sin(math.radians(a))])
    c0, c1 = np.array([-seg * nc / 2, 0, 10.0]), np.array([seg * nc / 2, 0, 10.0])
    dm = d * np.array([-1, 1, 1])
    wires = [dict(nseg=nc, p0=list(c0), p1=list(c1), r=seg / 40),
             dict(nseg=n, p0=list(c1), p1=list(c1 + d * seg * n), r=seg / 30),
             dict(nseg=n, p0=list(c0 + dm * seg * n), p1=list(c0), r=seg / 30)]
    rng.shuffle(wires)
    for w in wires:
        if rng.random() < 0.5:
            w['p0'], w['p1'] = w['p1'], w['p0']
    ant = dict(f=14.0, ground=False, wires=[dict(w, p0=[float(x) for x in w['p0']], p1=[float(x) for x in w['p1']]) for w in wires],
               family='symmetric', lam=lam, seg=seg)
    return ant


def property_symmetric(ant):
    from mininec.mininec import Excitation
    q = ant['seg'] * 1e-6
    m = antgen.build(ant)
    ctr = [p for p in m.pulses if abs(p.point[0]) < q and abs(p.point[2] - 10.0) < q]
    if len(ctr) != 1:
        return 'no centre pulse'
    m.register_source(Excitation(1 + 0j), ctr[0].idx)
    m.compute()
    rows, B = half_table(m, q)
    h = B @ m.current
    sc = np.max(np.abs(h))
    for (node, far), r in rows.items():
        mk = ((-node[0], node[1], node[2]), (-far[0], far[1], far[2]))
        if mk not in rows:
            return 'half segment without a mirror partner'
        # x-component of the flow reverses under the mirror; flow "node -> far" maps to "mirror node -> mirror far"
        # a symmetric feed (x-directed source at the centre) drives currents whose x-component is even,
        # i.e. flow(node->far) = -flow(mirror node -> mirror far)
        if abs(h[r] + h[rows[mk]]) > 5e-4 * sc:
            return 'current on a half segment and on its mirror image differ by %.3g (relative)' % (abs(h[r] + h[rows[mk]]) / sc)
    return None


def stepped_case(rng):
    """a straight element along a coordinate axis made of 2-3 connected collinear wires with bitwise equal
    segment length and different radii (stepped diameter), plus optionally a bent end wire; second
    description: random directions and order"""
    f = rng.choice([14.0, 21.0, 35.0])
    lam = 299.8 / f
    s = rng.choice([0.125, 0.25, 0.5])                      # exactly representable segment length
    while s > lam / 12:
        s /= 2
    ax = rng.randrange(3)
    cuts = [0]
    for k in range(rng.randint(2, 3)):
        cuts.append(cuts[-1] + rng.randint(2, 5))
    radii = [s / rng.choice([20.0, 40.0, 80.0, 160.0]) for _ in cuts[1:]]
    if len(set(radii)) == 1:
        radii[0] = radii[0] / 2
    wires = []
    off = [rng.choice([0.0, 1.0, -2.0]) for _ in range(3)]
    for a, b, r in zip(cuts, cuts[1:], radii):
        p0, p1 = list(off), list(off)
        p0[ax] += a * s
        p1[ax] += b * s
        wires.append(dict(nseg=b - a, p0=p0, p1=p1, r=r))
    if rng.random() < 0.4:
        e = list(wires[-1]['p1'])
        q = list(e)
        q[(ax + 1) % 3] += 3 * s
        q[ax] += s
        wires.append(dict(nseg=3, p0=e, p1=q, r=radii[-1]))
    ant = dict(f=f, ground=False, wires=wires, family='stepped', lam=lam, seg=s)
    ws = [dict(w) for w in wires]
    ops = []
    for w in ws:
        if rng.random() < 0.5:
            w['p0'], w['p1'] = w['p1'], w['p0']
            ops.append('rev')
    perm = list(range(len(ws)))
    rng.shuffle(perm)
    ws = [ws[i] for i in perm]
    ops.append('perm%s' % perm)
    return ant, dict(ant, wires=ws), ops


def thin_tip_case(rng, j):
    """a straight thin wire (radius below 1e-4 wavelengths: closed-form self terms) — or, every fourth time, a thick one — described
    as one object and as a long piece plus a one-segment tip at either end, the tip drawn from or towards the joint and listed
    before or after the long piece (with a bent second wire in half of the cases)"""
    f = 10 ** rng.uniform(0.8, 1.8)
    lam = 299.8 / f
    n = rng.randint(6, 12)
    seg = lam / rng.uniform(18, 40)
    r = lam * 10 ** rng.uniform(-5.5, -4.2) if j % 4 else seg / rng.uniform(15, 40)
    d = rng.gauss(0, 1), rng.gauss(0, 1), rng.gauss(0, 1)
    d = np.array(d) / np.linalg.norm(d)
    p0 = np.array([rng.uniform(-1, 1) * lam for _ in range(3)])
    p1 = p0 + d * seg * n
    wires = [dict(nseg=n, p0=[float(x) for x in p0], p1=[float(x) for x in p1], r=r)]
    if j % 2:
        e = np.cross(d, [0.3, -0.5, 0.8]); e /= np.linalg.norm(e)
        wires.append(dict(nseg=3, p0=[float(x) for x in p1], p1=[float(x) for x in p1 + (0.8 * e + 0.3 * d) * seg * 3], r=r))
    ant = dict(f=f, ground=False, wires=wires, family='thin-tip', lam=lam, seg=seg)
    k = 1 if (j // 2) % 2 else n - 1
    mid = p0 + (p1 - p0) * (k / n)
    a = dict(wires[0], nseg=k, p1=[float(x) for x in mid])
    b = dict(wires[0], nseg=n - k, p0=[float(x) for x in mid])
    tip = a if k == 1 else b
    ops = ['split@%d/%d' % (k, n)]
    if (j // 4) % 2:
        tip['p0'], tip['p1'] = tip['p1'], tip['p0']
        ops.append('tip-rev')
    pieces = [a, b]
    if (j // 8) % 2:
        pieces = [b, a]
        ops.append('swapped')
    return ant, dict(ant, wires=pieces + [dict(w) for w in wires[1:]]), ops


def nonuniform_case(rng):
    """a geo object whose segments are not all alike (a tapered wire, an arc, a helix) with plain wires joined to its ends;
    second description: the plain wires reversed and / or listed before the object.  A junction pulse takes its far half
    from the neighbouring object's segment *at the junction*, whichever end meets whichever end and whoever comes first."""
    from mininec.mininec import Mininec, Helix
    f = 10.0
    lam = 299.8 / f
    r = 0.002
    kind = rng.choice(['taper', 'taper', 'arc', 'arc', 'helix'])
    if kind == 'taper':
        L = rng.uniform(4.0, 7.0)
        d = np.array([rng.uniform(-1, 1), rng.uniform(-1, 1), rng.uniform(-1, 1)]); d /= np.linalg.norm(d)
        A = np.array([0.3, -0.2, 0.5]); B = A + L * d
        main = dict(kind='wire', nseg=rng.randint(5, 8), p0=[float(x) for x in A], p1=[float(x) for x in B], r=r, segtype=rng.choice([1, 2, 3]))
        seg = L / main['nseg']
    elif kind == 'arc':
        R = rng.uniform(1.5, 2.5)
        a1 = rng.choice([0.0, 20.0, -30.0]); a2 = a1 + rng.choice([120.0, 150.0, 200.0]) * rng.choice([1, -1])
        n = rng.randint(6, 9)
        main = dict(kind='arc', nseg=n, radius=R, a1=a1, a2=a2, r=r)
        A = np.array([R * math.cos(math.radians(a1)), 0.0, R * math.sin(math.radians(a1))])
        B = np.array([R * math.cos(math.radians(a2)), 0.0, R * math.sin(math.radians(a2))])
        seg = 2 * R * math.sin(math.radians(abs(a2 - a1) / n / 2))
    else:
        main = dict(kind='helix', nseg=10, length=1.5, turnlen=0.75, r=r, rx=0.5, ry=0.3)
        g = Mininec(f, [Helix(10, 1.5, 0.75, r, 0.5, 0.3)]).geo[0]
        A, B = np.array([float(x) for x in g.endpoints[0]]), np.array([float(x) for x in g.endpoints[1]])
        seg = float(g.segments[0].seg_len)
    def stub(P, away):
        d = np.array([rng.uniform(-1, 1), rng.uniform(-1, 1), rng.uniform(0.2, 1)]); d /= np.linalg.norm(d)
        n = rng.randint(2, 4)
        Q = P + away * d * n * seg * rng.uniform(0.8, 1.2)
        return dict(kind='wire', nseg=n, p0=[float(x) for x in P], p1=[float(x) for x in Q], r=r)
    stubs = [stub(B, 1.0)]
    if rng.random() < 0.5:
        stubs.append(stub(A, -1.0))
    if rng.random() < 0.3:
        stubs.append(stub(B, -1.0))
    base = dict(f=f, ground=False, lam=lam, seg=seg, family='nonuniform-' + kind)
    def variant():
        ss, ops = [], []
        for w in stubs:
            w = dict(w)
            if rng.random() < 0.5:
                w['p0'], w['p1'] = w['p1'], w['p0']; ops.append('rev')
            ss.append(w)
        k = rng.randint(0, len(ss))
        ops.append('main@%d' % k)
        return dict(base, objs=ss[:k] + [dict(main)] + ss[k:]), ops
    a1_, o1 = variant()
    a2_, o2 = variant()
    return a1_, a2_, o1 + ['|'] + o2


def replay(rp):
    if rp.get('kind') == 'redescription':
        bad, tie = property_on_impl(rp['ant'], rp['ant2'], rp['src_seed'])
    elif rp.get('kind') == 'symmetric':
        bad = property_symmetric(rp['ant'])
    else:
        print('replay: nothing to execute:', rp.get('kind'))
        return 1
    print('replay ->', bad or 'property holds')
    return 1 if bad else 0


def table_symmetric():
    """hypothesis TableSym of C06_gauss_flip_partial on the tables the implementation uses"""
    from mininec.mininec import legendre_cache
    for n, (x, w) in legendre_cache.items():
        if sorted(zip((-x).tolist(), w.tolist())) != sorted(zip(x.tolist(), w.tolist())):
            return 'Gauss table of order %d is not symmetric about the midpoint' % n
    return None


def run(ck):
    ck.proof_side()
    ck.cov['further_clauses'] = 'thin and thick straight wires as one object vs long piece + one-segment tip (either end, tip drawn either way, listed before or after)'
    rng = ck.rng
    ts = table_symmetric()
    ck.case(('table-symmetric',), True)
    if ts:
        ck.broken.append(ts)
    n = 60 if ck.tier == 'quick' else 800
    dis, viol = [], []
    worst = [0.0, 0.0]
    for i in range(n):
        ant = antgen.gen_antenna(rng, max_pulses=14 if ck.tier == 'quick' else 40)
        if not in_domain(ant):
            ck.count('outside_domain')
            continue
        ant2, mode, ops = redescribe(rng, ant)
        ss = rng.randrange(10 ** 9)
        try:
            bad, tie = property_on_impl(ant, ant2, ss)
        except Exception as e:
            bad, tie = 'evaluation raised %s: %s' % (type(e).__name__, e), None
        if bad is None and tie is None:
            ck.count('skipped_cond_or_no_source')
            continue
        ck.case((ant['family'], ant['ground'], mode, len(ant['wires']), i), bool(ops),
                sample=dict(family=ant['family'], ground=ant['ground'], mode=mode, ops=ops))
        ck.count('mode_' + mode); ck.count('ground' if ant['ground'] else 'free')
        if tie:
            worst = [max(worst[0], tie[0]), max(worst[1], tie[1])]
            if tie[0] > 5e-6 or tie[1] > 1e-12:
                dis.append(dict(ant=ant, ant2=ant2, src_seed=ss, why="Z' = T Z T^T off by %.3g, rhs' = T rhs off by %.3g" % tie))
        if bad:
            viol.append(dict(kind='redescription', ant=ant, ant2=ant2, src_seed=ss, mode=mode, ops=ops, observed=bad))
    for i in range(25 if ck.tier == 'quick' else 300):
        ant, ant2, ops = stepped_case(rng)
        ss = rng.randrange(10 ** 9)
        try:
            bad, tie = property_on_impl(ant, ant2, ss)
        except Exception as e:
            bad, tie = 'evaluation raised %s: %s' % (type(e).__name__, e), None
        if bad is None and tie is None:
            ck.count('skipped_cond_or_no_source')
            continue
        ck.case(('stepped', len(ant['wires']), tuple(ops), i), True, sample=dict(family='stepped', ops=ops) if i < 2 else None)
        ck.count('mode_stepped')
        if tie:
            worst = [max(worst[0], tie[0]), max(worst[1], tie[1])]
            if tie[0] > 5e-6 or tie[1] > 1e-12:
                dis.append(dict(ant=ant, ant2=ant2, src_seed=ss, why="Z' = T Z T^T off by %.3g, rhs' = T rhs off by %.3g" % tie))
        if bad:
            viol.append(dict(kind='redescription', ant=ant, ant2=ant2, src_seed=ss, mode='stepped', ops=ops, observed=bad))
    for i in range(16 if ck.tier == 'quick' else 160):
        ant, ant2, ops = thin_tip_case(rng, i)
        ss = rng.randrange(10 ** 9)
        try:
            bad, tie = property_on_impl(ant, ant2, ss)
        except Exception as e:
            bad, tie = 'evaluation raised %s: %s' % (type(e).__name__, e), None
        if bad is None and tie is None:
            ck.count('skipped_cond_or_no_source')
            continue
        ck.case(('thin-tip', tuple(ops), i), True, sample=dict(family='thin-tip', ops=ops) if i < 2 else None)
        ck.count('mode_thin_tip')
        if tie:
            worst = [max(worst[0], tie[0]), max(worst[1], tie[1])]
            if tie[0] > 5e-6 or tie[1] > 1e-12:
                dis.append(dict(ant=ant, ant2=ant2, src_seed=ss, why="Z' = T Z T^T off by %.3g, rhs' = T rhs off by %.3g" % tie))
        if bad:
            viol.append(dict(kind='redescription', ant=ant, ant2=ant2, src_seed=ss, mode='thin-tip', ops=ops, observed=bad))
    for i in range(30 if ck.tier == 'quick' else 400):
        ant, ant2, ops = nonuniform_case(rng)
        ss = rng.randrange(10 ** 9)
        try:
            bad, tie = property_on_impl(ant, ant2, ss)
        except Exception as e:
            bad, tie = 'evaluation raised %s: %s' % (type(e).__name__, e), None
        if bad is None and tie is None:
            ck.count('skipped_cond_or_no_source')
            continue
        ck.case((ant['family'], tuple(ops), i), True, sample=dict(family=ant['family'], ops=ops) if i < 2 else None)
        ck.count('mode_nonuniform')
        if tie:
            worst = [max(worst[0], tie[0]), max(worst[1], tie[1])]
            if tie[0] > 5e-6 or tie[1] > 1e-12:
                dis.append(dict(ant=ant, ant2=ant2, src_seed=ss, why="Z' = T Z T^T off by %.3g, rhs' = T rhs off by %.3g" % tie))
        if bad:
            viol.append(dict(kind='redescription', ant=ant, ant2=ant2, src_seed=ss, mode='nonuniform', ops=ops, observed=bad))
    for i in range(10 if ck.tier == 'quick' else 100):
        ant = symmetric_case(rng)
        bad = property_symmetric(ant)
        ck.case(('symmetric', i), True)
        if bad:
            viol.append(dict(kind='symmetric', ant=ant, observed=bad))
    ck.stats['disagreements'] = len(dis)
    ck.stats['worst_congruence_residual'] = worst
    ck.cov['rule'] = ('antennas of the shared generator (dipole, vee, ell, tee, star with 3-4 wires, monopole, top-loaded monopole, '
                      'two-element array, ground-plane antenna, polygon loops; free space and ideal ground) re-described by reversing '
                      'random subsets of wires, permuting the wire order, splitting straight wires at a random segment boundary, or all '
                      'three; tapered wires, arcs and helices with plain wires joined to either end, the plain wires reversed and listed before or '
                      'after; 1-3 sources on nodes carrying one pulse; non-trivial = at least one re-description operation applied')
    ck.assumptions += ['pulses of the two descriptions are matched through their half segments (node position, far-end position) '
                       'quantised at 1e-6 segment lengths',
                       'the orientation-independence of the potential functional is a hypothesis of C06_flip_*; it is proved for the '
                       'Gauss rule with a node table symmetric about the midpoint (C06_gauss_swap) and the generated table is checked '
                       'for that symmetry on every run (C06_table_symmetric)']
    seen = set()
    for v in viol:
        k = re.sub(r'[0-9.e+-]+', '#', v['observed'])[:40]
        if k not in seen:
            seen.add(k); ck.violation(v)
    if (dis or ck.broken) and not viol:
        ck.violation(dict(kind='broken-tie', detail=dict(broken=ck.broken, disagreements=[x['why'] for x in dis[:3]]),
                          theorem="Pmn.Props.C06.* / correspondence Z' = T Z T^T"), found_input=False)
