"""C02 — impedance-matrix terms equal the MININEC-3 potential-integral formulation.

Translation validation.  The Lean function `Fill.entrySpec` evaluates the published formulation with
adaptive Simpson quadrature of the reduced kernel from geometry, radii and frequency only; it
shares its assembly (`Fill.entry`) with `Fill.entryAlgo`, the model of the implemented fill.
Tie 1      : `Mininec.Z` vs `entryAlgo` (incl. the f8 evaluation shortcuts) for every pulse pair at 1e-8 of the
             potential-term scale; entries the implementation copies inside one straight object are compared
             with the model value of the pair they are copied from.
Tie 2 = the property: `Mininec.Z` vs `entrySpec` at 1e-4 of the scale for all pairs >= 2.5 segments apart.
Theorems   : Pmn/Props/C02.lean (same assembly, image term with factor -1, grounded sources excluded,
             dependence on relative positions only).
"""
import random
import numpy as np
import antgen, filllib

LEVEL = 'translation_validation'
MODULES = ['C02']


def gen(rng, tier):
    if rng.random() < 0.3:
        return antgen.gen_curved(rng)
    return antgen.gen_antenna(rng, max_pulses=14 if tier == 'quick' else 40)


def gen_many_objects(rng):
    """two dipoles of different segment length and radius, separated in the object list by 255 .. 300 one-segment
    parasitic stubs (no pulses of their own): object numbers beyond 256 and 2 x 7 pulses — bookkeeping by object
    number (flags, masks, copy groups) in a narrow integer type shows only for such structures"""
    f = 10 ** rng.uniform(1.0, 1.6)
    lam = antgen.C / f
    seg = lam / 30
    n = 8
    k = rng.choice([255, 255, 256, 300])
    wires = [dict(nseg=n, p0=[0.0, -seg * n / 2, 0.0], p1=[0.0, seg * n / 2, 0.0], r=seg / 60)]
    for i in range(k):
        x = 3 * seg + (i % 20) * 2.5 * seg
        z = (i // 20) * 2.5 * seg + 3 * seg
        wires.append(dict(nseg=1, p0=[x, 0.0, z], p1=[x, 0.7 * seg, z], r=seg / 100))
    s2 = seg * rng.choice([0.7, 1.3])
    wires.append(dict(nseg=n, p0=[-4 * seg, -s2 * n / 2, 0.0], p1=[-4 * seg, s2 * n / 2, 0.0], r=seg / 25))
    return dict(f=f, ground=False, family='many-objects', lam=lam, seg=seg, wires=wires, fresh=True)


def gen_thin_thick(rng, k):
    """a tube (radius above 1e-4 wavelengths, the limit of the small-radius form of the kernel) carrying a thin wire (below it):
    either listed first, the thin wire drawn from or towards the junction, in free space and with the tube standing on the ground —
    the radius that counts for an entry is the radius of the *half* of the pulse, which at the junction differs from its owner's"""
    f = 10 ** rng.uniform(0.8, 1.8)
    lam = antgen.C / f
    seg = lam / 40
    ground = bool(k & 4)
    z0 = 0.0 if ground else rng.uniform(-1, 1) * lam
    x0, y0 = rng.uniform(-1, 1) * lam, rng.uniform(-1, 1) * lam
    top = [x0, y0, z0 + 9 * seg]
    far = [x0 + 6 * seg * 0.8, y0 + 6 * seg * 0.6, z0 + 9 * seg]
    tube = dict(nseg=9, p0=[x0, y0, z0], p1=top, r=lam * rng.uniform(0.0015, 0.003))
    thin = dict(nseg=6, p0=top, p1=far, r=lam * 10 ** rng.uniform(-5.5, -4.3))
    if k & 2:
        thin['p0'], thin['p1'] = thin['p1'], thin['p0']
    wires = [tube, thin] if k & 1 else [thin, tube]
    return dict(f=f, ground=ground, family='thin-thick', lam=lam, seg=seg, wires=wires, fresh=True)


def evaluate(d, ant):
    """returns (algo_bad, spec_bad, stats)"""
    m = antgen.build(ant)
    import topo
    gb = topo.pulse_geometry_bad(m)
    if gb:
        # the formulation is evaluated from "nothing but the geometry": a pulse whose halves are not the
        # segments that meet at it describes another structure
        return None, 'pulse table does not describe the wires: ' + gb, dict(pairs=0, far=0, amb=0, worst_spec=0.0, worst_algo=0.0, N=len(m.pulses), kinds=[])
    m.compute_impedance_matrix()
    N = len(m.pulses)
    pairs = [(i, j) for i in range(N) for j in range(N)]
    res = filllib.model_entries(d, m, pairs, spec=True)
    src = filllib.model_entries(d, m, [filllib.source_pair(m, i, j) for (i, j) in pairs])
    algo_bad = spec_bad = None
    st = dict(pairs=len(pairs), far=0, amb=0, worst_spec=0.0, worst_algo=0.0)
    for (i, j), (z0, sc, zs, zd0), (_, _, _, zdsrc) in zip(pairs, res, src):
        pi, pj = m.pulses[i], m.pulses[j]
        # the implementation copies only the direct pass; the image pass is computed per entry
        z = zdsrc + (z0 - zd0)
        den = sc / min(pj.segs[0].seg_len, pj.segs[1].seg_len)
        if den == 0:
            continue
        rel = abs(z - m.Z[i, j]) / den
        si, sj = filllib.source_pair(m, i, j)
        amb = filllib.near_threshold(m, i, j) or ((si, sj) != (i, j) and filllib.near_threshold(m, si, sj))
        st['amb'] += amb
        if not amb:
            st['worst_algo'] = max(st['worst_algo'], rel)
        # on a Gauss-order / exact-kernel threshold the float comparison may fall either way (8 vs 4 vs 2
        # points: up to ~1e-5 of the potential scale); away from thresholds the tie is 1e-8
        if rel > (1e-4 if amb else 1e-8) and algo_bad is None:
            algo_bad = 'entry (%d,%d): implementation %r, algorithm model %r (%.2e of the potential scale)' % (i + 1, j + 1, complex(m.Z[i, j]), z, rel)
        dist = np.linalg.norm(pi.point - pj.point) / max(s.seg_len for p in (pi, pj) for s in p.segs)
        if dist >= 2.5:
            st['far'] += 1
            rs = abs(zs - m.Z[i, j]) / den
            st['worst_spec'] = max(st['worst_spec'], rs)
            if rs > 1e-4 and spec_bad is None:
                kinds = ['ground' if p.ground.any() else 'junction' if p.geo[0] is not p.geo[1] else 'interior' for p in (pi, pj)]
                spec_bad = ('Z[%d,%d] (%s/%s pulses, %.1f segments apart) deviates %.2e of the potential-term magnitude from the '
                            'adaptive-quadrature evaluation of the published formulation: %r vs %r' % (i + 1, j + 1, kinds[0], kinds[1], dist, rs, complex(m.Z[i, j]), zs))
    st['N'] = N
    st['kinds'] = sorted(set('ground' if p.ground.any() else 'junction' if p.geo[0] is not p.geo[1] else 'interior' for p in m.pulses))
    return algo_bad, spec_bad, st


def replay(rp):
    if 'ant' not in rp:
        print('replay: nothing to execute:', rp.get('kind'))
        return 1
    from common import Driver
    d = Driver()
    a, s, st = evaluate(d, rp['ant'])
    print('replay ->', s or 'property holds', '| algorithm tie:', a or 'ok')
    return 1 if s else 0


def run(ck):
    ck.proof_side()
    ck.cov['further_clauses'] = 'eight tube + thin-wire structures per run (radius above / below 1e-4 wavelengths, either listed first, thin wire drawn either way, free space and ground)'
    d = ck.get_driver()
    rng = ck.rng
    n = 40 if ck.tier == 'quick' else 500
    dis, viol = [], []
    worst = 0.0
    progs = 0
    for i in range(n):
        ant = gen_many_objects(rng) if (i == 2 or i % 100 == 57) else \
            antgen.gen_antenna(rng, families=['monopole_taper'], max_pulses=14) if i % 8 == 5 else gen(rng, ck.tier)
        try:
            a, s, st = evaluate(d, ant)
        except Exception as e:
            dis.append(dict(ant=ant, why='evaluation raised %s: %s' % (type(e).__name__, e)))
            continue
        progs += st['far']
        worst = max(worst, st['worst_spec'])
        ck.case((ant['family'], ant['ground'], st['N'], tuple(st['kinds'])), st['far'] > 0,
                sample=dict(family=ant['family'], ground=ant['ground'], pulses=st['N'], far_pairs=st['far'], worst_spec=st['worst_spec']))
        ck.count('family_' + ant['family'])
        for k in st['kinds']:
            ck.count('pulsekind_' + k)
        ck.count('threshold_ambiguous_entries', st['amb'])
        if s:
            viol.append(dict(kind='entry', ant=ant, observed=s))
        elif a:
            dis.append(dict(ant=ant, why=a))
    for k in range(8):
        ant = gen_thin_thick(rng, k)
        try:
            a, s_, st = evaluate(d, ant)
        except Exception as e:
            dis.append(dict(ant=ant, why='evaluation raised %s: %s' % (type(e).__name__, e)))
            continue
        progs += st['far']
        worst = max(worst, st['worst_spec'])
        ck.case(('thin-thick', k), st['far'] > 0)
        ck.count('family_thin-thick')
        if s_:
            viol.append(dict(kind='entry', ant=ant, observed=s_))
        elif a:
            dis.append(dict(ant=ant, why=a))
    # a model written with integer coordinates through the API (inverted L in free space, vertical on the ground)
    for ant in (dict(f=7.0, ground=False, family='integer-coordinates', lam=antgen.C / 7.0, seg=2.5, fresh=True,
                     wires=[dict(nseg=8, p0=[0, 0, 0], p1=[0, 0, 20], r=0.05), dict(nseg=6, p0=[0, 0, 20], p1=[15, 0, 20], r=0.05)]),
                dict(f=7.0, ground=True, family='integer-coordinates', lam=antgen.C / 7.0, seg=10 / 7, fresh=True,
                     wires=[dict(nseg=7, p0=[3, -2, 0], p1=[3, -2, 10], r=0.02)])):
        try:
            a, s_, st = evaluate(d, ant)
        except Exception as e:
            dis.append(dict(ant=ant, why='evaluation raised %s: %s' % (type(e).__name__, e)))
            continue
        progs += st['far']
        worst = max(worst, st['worst_spec'])
        ck.case(('integer-coordinates', ant['ground']), st['far'] > 0)
        ck.count('family_integer-coordinates')
        if s_:
            viol.append(dict(kind='entry', ant=ant, observed=s_))
        elif a:
            dis.append(dict(ant=ant, why=a))
    # one straight conductor written as two collinear wires with bit-identical direction, segment length and radius, with
    # another wire listed *between* the two pieces (and, for comparison, after them): the junction pulse is numbered with the
    # second piece, far from the pulses of the first
    s_ = 0.5
    for axis, between in ((0, True), (2, True), (0, False), (1, True)):
        e = [0.0, 0.0, 0.0]; e[axis] = 1.0
        A = dict(nseg=8, p0=[0.0, 0.0, 0.0], p1=[8 * s_ * e[0], 8 * s_ * e[1], 8 * s_ * e[2]], r=0.004)
        B = dict(nseg=5, p0=list(A['p1']), p1=[13 * s_ * e[0], 13 * s_ * e[1], 13 * s_ * e[2]], r=0.004)
        o = [1.0, 2.0, 0.0] if axis != 1 else [2.0, 0.0, 1.0]
        Cw = dict(nseg=4, p0=o, p1=[o[0] + (1.0 if axis == 2 else 0.0), o[1], o[2] + (0.0 if axis == 2 else 2.0)], r=0.004)
        ant = dict(f=20.0, ground=False, family='collinear-split', lam=antgen.C / 20.0, seg=s_, fresh=True,
                   wires=[A, Cw, B] if between else [A, B, Cw])
        try:
            a, sb, st = evaluate(d, ant)
        except Exception as e_:
            dis.append(dict(ant=ant, why='evaluation raised %s: %s' % (type(e_).__name__, e_)))
            continue
        progs += st['far']
        worst = max(worst, st['worst_spec'])
        ck.case(('collinear-split', axis, between), st['far'] > 0)
        ck.count('family_collinear-split')
        if sb:
            viol.append(dict(kind='entry', ant=ant, observed=sb))
        elif a:
            dis.append(dict(ant=ant, why=a))
    # grounded slopers exactly on the diagonals and axes (the non-vertical-grounded flag of the fill), grounded at either end
    import c05
    for ant in c05.diagonal_cases(rng)[:(6 if ck.tier == 'quick' else 12)]:
        try:
            a, s, st = evaluate(d, ant)
        except Exception as e:
            dis.append(dict(ant=ant, why='evaluation raised %s: %s' % (type(e).__name__, e)))
            continue
        progs += st['far']
        worst = max(worst, st['worst_spec'])
        ck.case(('diagonal', tuple(ant['wires'][0]['p0']), tuple(ant['wires'][0]['p1'])), st['far'] > 0)
        ck.count('family_diagonal-sloper')
        if s:
            viol.append(dict(kind='entry', ant=ant, observed=s))
        elif a:
            dis.append(dict(ant=ant, why=a))
    ck.cov['programs'] = max(progs, 1)
    ck.cov['disagreements_checked'] = len(dis)
    ck.stats['disagreements'] = len(dis)
    ck.stats['worst_deviation_from_spec'] = worst
    ck.cov['rule'] = ('antennas from the shared generator plus arcs, helices and tapered wires, and a structure of 257 .. 302 objects; every pulse pair compared with the '
                      'algorithm model, every pair >= 2.5 segments apart with the adaptive-quadrature specification at 1e-4 of the '
                      'potential-term scale; "programs" = number of far pairs validated; distinct = distinct (family, ground, N, pulse kinds)')
    ck.assumptions += ['the adaptive Simpson rule of the Lean specification (tolerance 1e-9, depth 40) is accurate to far better than 1e-4',
                       'the complete elliptic integral (AGM) of the model is only used for near pairs (exact kernel), not in the specification',
                       'scipy.special.ellipk and numpy leggauss are upstream data of the algorithm model']
    seen = set()
    for v in viol:
        k = v['observed'][:30]
        if k not in seen:
            seen.add(k); ck.violation(v)
    if (dis or ck.broken) and not viol:
        ck.violation(dict(kind='broken-tie', detail=dict(broken=ck.broken, disagreements=[x['why'] for x in dis[:3]], example=dis[0]['ant'] if dis else None),
                          theorem='Pmn.Props.C02.* / correspondence fill entries (algorithm model)'), found_input=False)
