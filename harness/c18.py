"""C18 — the generated BASIC-MININEC input describes the same antenna.

Proof side : Pmn/Props/C18.lean — `readAntenna (writeAntenna m ++ rest) = some (m, rest)` for every
             model in normal form (any number of media, wires, sources, loads), emulation counts.
Tie        : `Mininec.as_basic_input` token-for-token equal to Lean `writeAntenna ∘ project` (+ tail),
             where `project` (this file) states what the antenna *is*: frequency, environment, media,
             consolidated / emulated wires, sources with pulse number, magnitude, phase in DEGREES,
             loads with pulse number and value (µH/µF factor for version 9).  The driver also
             executes its reader on its own output (normal-form check of the projection).
Search     : an independent Python reader follows the prompts on the real text and compares the
             numbers it reads with the in-memory model at the printed precision.
"""
import math, types, random
import numpy as np
from common import hexs, unhexs, run_main

LEVEL = 'proof'
MODULES = ['C18']


class Nums:
    def __init__(self):
        self.v = [0.0]

    def id(self, x):
        self.v.append(float(x))
        return len(self.v) - 1


def gen_req(rng):
    """what is asked of the BASIC program after the antenna description: through `main` only the dBi pattern; through the
    API also V/m patterns (new power level, distance), a pattern file and near-field requests (new power level)"""
    u = rng.random()
    if u < 0.5:
        return None
    req = dict(ff_abs=rng.random() < 0.6, pwr_ff=None, ff_dist=None, near=None, pwr_nf=None, gainfile=None)
    if req['ff_abs']:
        req['ff_dist'] = rng.choice([1000.0, 250.0, 1e4])
        if rng.random() < 0.5:
            req['pwr_ff'] = rng.choice([100.0, 1.5, 1000.0])
    if rng.random() < 0.3:
        req['gainfile'] = 'PATTERN.OUT'
    if rng.random() < 0.6:
        req['near'] = [rng.choice([0.0, 1.0, -2.5]), rng.choice([0.0, 0.5]), rng.choice([1.0, 3.0]),
                       rng.choice([0.1, 1.0]), rng.choice([0.1, 0.5]), rng.choice([0.2, 1.0]),
                       rng.randint(1, 4), rng.randint(1, 3), rng.randint(1, 5)]
        if rng.random() < 0.5:
            req['pwr_nf'] = rng.choice([100.0, 2.5])
    return req


def project(m, version, zen, azi, req=None):
    """the antenna as BASIC MININEC must see it -> (request tokens, number table)"""
    from mininec.mininec import Impedance_Load, Skin_Effect_Load, Insulation_Load
    nm = Nums()
    t = [hexs('MININEC.OUT'), nm.id(m.f)]
    if not m.media:
        t.append('free')
    elif len(m.media) == 1 and m.media[0].is_ideal:
        t.append('ideal')
    else:
        n = len(m.media)
        circ = m.media[0].boundary == 'circular'
        t += ['media', 1 if (circ and n > 1) else 0, n]
        for i, md in enumerate(m.media):
            nr = md.nradials if (i == 0 and n > 1 and circ) else 0
            t += [nm.id(md.permittivity), nm.id(md.conductivity),
                  nm.id(md.height) if i > 0 else 0,
                  nm.id(md.coord) if i + 1 < n else 0,
                  nr, nm.id(md.radius) if nr else 0]
    t.append(len(m.geo))

    def tri(p):
        return [nm.id(p[0]), nm.id(p[1]), nm.id(p[2])]
    for w in m.geo:
        single = (w.n_emulated_wires == 1)
        t += [1 if single else 0, w.n_segments] + tri(m.endpoint(w.p1)) + tri(m.endpoint(w.p2)) + [nm.id(w.r)]
        if single:
            t.append(0)
        else:
            t.append(len(w.segments))
            for s in w.segments:
                t += tri(s.p1) + tri(s.p2) + tri(m.endpoint(s.p2))
    t.append(len(m.sources))
    for s in m.sources:
        # magnitude and phase as the source record holds them (a source may be given with any sign of the magnitude and any
        # number of turns in the phase; that they describe the voltage is what the independent reader checks)
        t += [s.idx + 1, nm.id(float(s.magnitude)), nm.id(float(s.phase_d))]
    ldtypes = (Impedance_Load, Skin_Effect_Load, Insulation_Load)
    is_s = any(not isinstance(l, ldtypes) for l in m.loads)
    loads = []
    for l in m.loads:
        for p in l.pulses:
            if isinstance(l, ldtypes):
                z = l._impedance if isinstance(l, Impedance_Load) else l.impedance(m.f, p)
                loads.append(['imp', p.idx + 1, nm.id(z.real), nm.id(z.imag)])
            else:
                cs = []
                for d in range(l.degree + 1):
                    fac = 10 ** (6 * d) if version == '9' else 1
                    cs += [nm.id(l.b[d] * fac), nm.id(l.a[d] * fac)]
                loads.append(['spar', p.idx + 1, l.degree + 1] + cs)
    t += [1 if (is_s and loads) else 0, len(loads)]
    for l in loads:
        t += l
    rq = req or {}
    if zen is not None:
        ffa = bool(rq.get('ff_abs'))
        pw = rq.get('pwr_ff') if ffa else None
        t += ['pat', 1 if ffa else 0, 1 if pw is not None else 0, nm.id(pw) if pw is not None else 0,
              nm.id(rq['ff_dist']) if ffa else 0] + [nm.id(zen.initial), nm.id(zen.inc), nm.id(zen.number)] + \
             [nm.id(azi.initial), nm.id(azi.inc), nm.id(azi.number)] + [hexs(rq['gainfile']) if rq.get('gainfile') else '-']
    else:
        t.append('nopat')
    if rq.get('near'):
        nr = rq['near']
        t.append('near')
        for k in range(3):
            t += [nm.id(nr[k]), nm.id(nr[3 + k]), int(nr[6 + k])]
        t += [1 if rq.get('pwr_nf') is not None else 0, nm.id(rq['pwr_nf']) if rq.get('pwr_nf') is not None else 0]
    else:
        t.append('nonear')
    return t, nm


def render(ans, nm):
    ok, body = ans.split(' ', 1)
    lines = []
    for l in body.split('|'):
        toks = []
        for tk in l.split(','):
            if tk[0] == 'L':
                toks.append(unhexs(tk[1:]))
            elif tk[0] == 'I':
                toks.append(tk[1:])
            else:
                i, fmt = tk[1:].split(':')
                toks.append(unhexs(fmt) % nm.v[int(i)])
        lines.append(', '.join(toks))
    return ok == '1', lines


def gen_argv(rng):
    f = rng.choice([3.5, 7.15, 14.2, 28.0])
    argv = ['-f', repr(f)]
    kind = rng.choice(['dipole', 'bent', 'ground', 'taper', 'arc', 'helix', 'fuzz', 'emul-join', 'emul-join', 'curve-ground', 'curve-ground'])
    L = 299.8 / f / 4
    if kind == 'dipole':
        argv += ['-w', '%d,0,0,%g,0,0,%g,%g' % (rng.randint(3, 9), -L, L, 0.001)]
    elif kind == 'bent':
        n1, n2 = rng.randint(2, 5), rng.randint(1, 4)
        argv += ['-w', '%d,0,0,0,0,0,%g,.001' % (n1, L), '-w', '%d,0,0,%g,%g,0,%g,.002' % (n2, L, L / 2, L)]
    elif kind == 'ground':
        argv += ['-w', '%d,0,0,0,0,0,%g,.001' % (rng.randint(3, 8), L)]
    elif kind == 'taper':
        argv += ['-w', '8,0,0,0,0,0,%g,.0005' % (2 * L), '--taper-wire=1,%d' % rng.choice([1, 2, 3])]
    elif kind == 'emul-join':
        # an object BASIC cannot express directly (arc, helix, tapered wire: written as one single-segment wire per
        # segment) whose FIRST end meets an end of an earlier object within the joining tolerance but not bit for bit:
        # BASIC joins ends on equal coordinates only, so the written points of one joint must be one point
        R = L / 2
        sub = rng.choice(['arc90', 'arc270', 'taper', 'helix'])
        if sub == 'arc90':          # arc starts at (R cos 90, 0, R) = (6e-17, 0, R)
            argv += ['-w', '1,3,0,0,0,0,0,%r,.001' % R, '-a', '2,%d,%r,90,%d,.001' % (rng.randint(4, 7), R, rng.choice([180, 200, 270]))]
        elif sub == 'arc270':       # starts at (-2e-16, 0, -R)
            argv += ['-w', '1,3,0,0,%r,0,0,%r,.001' % (-2 * R, -R), '-a', '2,%d,%r,270,%d,.001' % (rng.randint(4, 7), R, rng.choice([360, 400]))]
        elif sub == 'taper':
            eps = L / 8 * 1e-3 * rng.choice([0.2, 0.02])
            argv += ['-w', '1,3,0,0,0,0,0,%r,.0005' % L, '-w', '2,8,%r,0,%r,%r,0,%r,.0005' % (eps, L, 2 * L, L + L / 3),
                     '--taper-wire=2,%d' % rng.choice([1, 2, 3])]
        else:
            # helix axis along z from the origin; its first point is (rx, 0, 0): a wire ends there, a hair off
            rx = L / 3
            eps = L / 30 * 1e-3 * 0.3
            argv += ['-w', '1,3,%r,0,%r,%r,%r,0,.001' % (rx + L / 2, -L / 4, rx, eps),
                     '-H', '2,%d,%g,%g,.001,%g,%g' % (rng.randint(6, 10), L / 3, L / 3, rx, rx)]
    elif kind == 'curve-ground':
        # curved objects standing on a ground plane: their grounded ends are computed points (R sin 180 = 1.2e-16 R, a helix
        # moved down onto the plane) — BASIC grounds an end only when its Z is exactly 0
        R = L / 2
        sub = rng.choice(['half-loop', 'half-loop-rev', 'mast+quarter-arc', 'helix-on-plane', 'helix-moved-onto-plane'])
        if sub == 'half-loop':
            argv += ['-a', '%d,%r,0,180,.001' % (rng.randint(6, 10), R)]
        elif sub == 'half-loop-rev':
            argv += ['-a', '%d,%r,180,0,.001' % (rng.randint(6, 10), R)]
        elif sub == 'mast+quarter-arc':
            argv += ['-w', '1,4,0,0,0,0,0,%r,.001' % R, '-a', '2,%d,%r,90,180,.001' % (rng.randint(4, 7), R)]
        elif sub == 'helix-on-plane':
            argv += ['-H', '%d,%g,%g,.001,%g,%g' % (rng.randint(8, 12), L / 2, L / 4, L / 8, L / 8)]
        else:
            argv += ['-H', '1,%d,%g,%g,.001,%g,%g' % (rng.randint(8, 12), L / 2, L / 4, L / 8, L / 8),
                     '--geo-translate=1,0,0,%r,1' % rng.choice([1e-12, 3e-9])]
        argv += ['--medium=0,0,0']
    elif kind == 'arc':
        argv += ['-a', '%d,%g,0,%d,.001' % (rng.randint(4, 8), L / 2, rng.choice([90, 180, 270]))]
    elif kind == 'helix':
        argv += ['-H', '%d,%g,%g,%g,%g,%g,%g,.001' % (rng.randint(6, 10), L / 3, L / 3, L / 3, L / 3, L, L / 2)]
    else:
        n1 = rng.randint(2, 4)
        eps = L / n1 * 1e-3 * 0.5
        argv += ['-w', '%d,0,0,0,0,0,%r,.001' % (n1, L), '-w', '3,%r,0,%r,%g,0,%g,.001' % (eps, L + eps / 2, L, L)]
    if kind == 'ground':
        med = rng.choice(['ideal', 'one', 'two-lin', 'two-circ', 'three', 'radials'])
        if med == 'ideal':
            argv += ['--medium=0,0,0']
        elif med == 'one':
            argv += ['--medium=13,0.005,0']
        elif med == 'two-lin':
            argv += ['--medium=13,0.005,0,10', '--medium=5,0.001,-1']
        elif med == 'two-circ':
            argv += ['--medium=13,0.005,0,10', '--medium=5,0.001,-1', '--boundary=circular']
        elif med == 'three':
            argv += ['--medium=13,0.005,0,10', '--medium=5,0.001,-1,25', '--medium=80,4,-2']
        else:
            argv += ['--medium=13,0.005,0,12', '--medium=5,0.001,0', '--radial-count=%d' % rng.choice([8, 32]), '--radial-radius=0.001']
    # sources
    ns = rng.randint(1, 2)
    for k in range(ns):
        mag = rng.choice([1.0, 0.5, 2.0, 10.0])
        ph = rng.choice([0, 0, 90, 45, -120, 180])
        v = mag * complex(math.cos(math.radians(ph)), math.sin(math.radians(ph)))
        argv.append('--excitation-pulse=%d' % (k + 1))
        argv.append('--excitation-voltage=%s' % ('%r' % v).strip('()'))
    lk = rng.choice(['none', 'imp', 'imp2', 'imp3', 'rlc', 'rlc2', 'trap', 'laplace', 'skin', 'coat'] + (['skin', 'skin', 'coat'] if kind in ('taper', 'helix') else []))
    if lk == 'imp':
        argv += ['--load=%g%+gj' % (rng.uniform(1, 100), rng.uniform(-50, 50)), '--attach-load=1,1']
    elif lk == 'imp2':
        argv += ['--load=50', '--attach-load=1,all', '--load=5+3j', '--attach-load=2,2']
    elif lk == 'imp3':
        # one load reaching a pulse through several attachments: each attachment is a load line of its own in the BASIC input
        argv += ['--load=20+30j', '--attach-load=1,all', '--attach-load=1,2', '--load=7', '--attach-load=2,1', '--attach-load=2,1']
    elif lk == 'rlc2':
        argv += ['--rlc-load=%g,%g,%g' % (rng.uniform(1, 10), 1e-6, 1e-10), '--attach-load=1,2', '--attach-load=1,2', '--attach-load=1,1']
    elif lk == 'rlc':
        argv += ['--rlc-load=%g,%g,%g' % (rng.uniform(1, 10), 1e-6, 1e-10), '--attach-load=1,1']
    elif lk == 'trap':
        argv += ['--trap-load=1,1e-5,1e-11', '--attach-load=1,2']
    elif lk == 'laplace':
        if rng.random() < 0.3:
            argv += ['--laplace-load-b=1,2e-6,3e-12', '--laplace-load-a=0,1e-9', '--attach-load=1,1']
        else:
            # rational functions of order 1 .. 8 (several traps in series as one load): coefficient of s^d of the size
            # (1e-6 .. 1e-8)^d so that every term matters in the HF range
            order = rng.choice([1, 2, 3, 4, 4, 5, 6, 8])
            tau = 10 ** rng.uniform(-8, -6.5)
            b = [rng.uniform(0.5, 50) * tau ** d * rng.choice([1, 1, 0.3]) for d in range(order + 1)]
            a = [rng.uniform(0.2, 2) * tau ** d for d in range(order + 1)]
            if rng.random() < 0.3:
                a[0] = 0.0
            argv += ['--laplace-load-b=' + ','.join('%r' % x for x in b), '--laplace-load-a=' + ','.join('%r' % x for x in a),
                     '--attach-load=1,%d' % rng.choice([1, 2])]
    elif lk == 'skin':
        argv += ['--skin-effect-conductivity=5.8e7']
    elif lk == 'coat':
        argv += ['--insulation-load=0.004,2.3']
    argv += ['--theta=%d,%d,%d' % (0, rng.choice([10, 30]), rng.randint(2, 4)), '--phi=0,%d,%d' % (rng.choice([45, 90]), rng.randint(1, 3))]
    return argv, kind


SRCFORMS = [None, None, 'polar', 'polar-neg', 'polar-wrap']


def apply_srcform(m, form):
    """the same voltages given through the other constructor form of a source, magnitude and phase in degrees: as they
    are, with a negative magnitude and the phase turned by half a turn, or with the phase a full turn on"""
    from mininec.mininec import Excitation
    if not form:
        return
    old = list(m.sources)
    for s in old:
        m.sources.remove(s)
    for k, s in enumerate(old):
        v = complex(s.voltage)
        mag, ph = abs(v), math.degrees(math.atan2(v.imag, v.real))
        if form == 'polar-neg' and k % 2 == 0:
            mag, ph = -mag, ph + 180.0
        elif form == 'polar-wrap':
            ph = ph + (360.0 if k % 2 == 0 else -360.0)
        m.register_source(Excitation(mag, ph), s.idx)


def real_text(argv, version, srcform=None, req=None):
    from mininec.mininec import Angle
    r = run_main(argv, want_mininec=True)
    m = r['m']
    if m is None:
        return None, None, None, None, r
    apply_srcform(m, srcform)
    th = [a for a in argv if a.startswith('--theta=')][0].split('=')[1].split(',')
    ph = [a for a in argv if a.startswith('--phi=')][0].split('=')[1].split(',')
    zen = Angle(float(th[0]), float(th[1]), int(th[2]))
    azi = Angle(float(ph[0]), float(ph[1]), int(ph[2]))
    args = types.SimpleNamespace(mininec_version=version)
    kw = {}
    if req:
        kw = dict(ff_abs=req['ff_abs'], pwr_ff=req['pwr_ff'], ff_dist=req['ff_dist'], near=req['near'], pwr_nf=req['pwr_nf'])
        if req.get('gainfile'):
            kw['gainfile'] = req['gainfile']
    txt = m.as_basic_input(args, azi=azi, zen=zen, **kw)
    return m, txt, zen, azi, r


def python_reader(txt):
    """independent reader following the prompts; returns dict of what was read"""
    L = txt.split('\n')
    i = [0]

    def nxt():
        s = L[i[0]]; i[0] += 1
        return s
    out = {}
    assert nxt() == 'D'
    out['file'] = nxt()
    out['f'] = float(nxt())
    env = nxt()
    out['env'] = env
    media = []
    if env == '-1':
        n = int(nxt())
        if n:
            circ = False
            if n > 1:
                circ = nxt() == '2'
            for k in range(n):
                e, s = [float(x) for x in nxt().split(',')]
                md = dict(eps=e, sigma=s)
                if k > 0:
                    md['height'] = float(nxt())
                elif n > 1 and circ:
                    md['nradials'] = int(nxt())
                    if md['nradials']:
                        md['radius'] = float(nxt())
                if k + 1 < n:
                    md['coord'] = float(nxt())
                media.append(md)
            out['circ'] = circ
    out['media'] = media
    nw = int(nxt())
    wires = []
    for k in range(nw):
        ns = int(nxt())
        p1 = [float(x) for x in nxt().split(',')]
        p2 = [float(x) for x in nxt().split(',')]
        r = float(nxt())
        assert nxt() == 'N'
        wires.append((ns, p1, p2, r))
    out['wires'] = wires
    assert nxt() == 'N'
    ns = int(nxt())
    out['sources'] = []
    for k in range(ns):
        a = nxt().split(',')
        out['sources'].append((int(a[0]), float(a[1]), float(a[2])))
    nl = int(nxt())
    out['loads'] = []
    if nl:
        iss = nxt() == 'Y'
        for k in range(nl):
            a = nxt().split(',')
            if iss:
                p, order = int(a[0]), int(a[1])
                cs = [[float(x) for x in nxt().split(',')] for d in range(order + 1)]
                out['loads'].append((p, cs))
            else:
                out['loads'].append((int(a[0]), complex(float(a[1]), float(a[2]))))
    # the requests: currents (not saved), optional pattern, optional near fields, quit — every line is consumed
    assert nxt() == 'C'
    assert nxt() == 'N'
    tail = dict(pat=None, near=[])

    def power():
        a = nxt()
        if a == 'N':
            return None
        assert a == 'Y'
        w = float(nxt())
        assert nxt() == 'N'
        return w
    cmd = nxt()
    if cmd == 'P':
        kind = nxt()
        assert kind in ('D', 'V')
        pt = dict(ff_abs=(kind == 'V'), pwr=None, dist=None)
        if kind == 'V':
            pt['pwr'] = power()
            pt['dist'] = float(nxt())
        pt['zen'] = [float(x) for x in nxt().split(',')]
        pt['azi'] = [float(x) for x in nxt().split(',')]
        assert len(pt['zen']) == 3 and len(pt['azi']) == 3
        g = nxt()
        assert g in ('Y', 'N')
        pt['gainfile'] = nxt() if g == 'Y' else None
        tail['pat'] = pt
        cmd = nxt()
    while cmd == 'N':
        ft = nxt()
        assert ft in ('E', 'H')
        rg = []
        for k in range(3):
            a = nxt().split(',')
            assert len(a) == 3
            rg.append((float(a[0]), float(a[1]), int(a[2])))
        pw = power()
        assert nxt() == 'N'
        tail['near'].append((ft, rg, pw))
        cmd = nxt()
    assert cmd == 'Q', 'command %r where Q is expected' % cmd
    assert i[0] == len(L), 'lines after Q'
    out['tail'] = tail
    return out


def tail_bad(tail, zen, azi, req):
    """the requests read from the generated input against what was asked for"""
    def near(a, b):
        return abs(a - b) <= 2e-5 * max(abs(a), abs(b)) + 1e-12
    rq = req or {}
    pt = tail['pat']
    if pt is None:
        return 'no pattern request in the input'
    if pt['ff_abs'] != bool(rq.get('ff_abs')):
        return 'pattern asked in %s, the input answers %s' % ('V/m' if rq.get('ff_abs') else 'dBi', 'V' if pt['ff_abs'] else 'D')
    if pt['ff_abs']:
        want = rq.get('pwr_ff')
        if (pt['pwr'] is None) != (want is None) or (want is not None and not near(pt['pwr'], want)):
            return 'new power level of the pattern: asked %r, the input says %r' % (want, pt['pwr'])
        if not near(pt['dist'], rq['ff_dist']):
            return 'radial distance: asked %r, the input says %r' % (rq['ff_dist'], pt['dist'])
    for nm_, got, a in (('zenith', pt['zen'], zen), ('azimuth', pt['azi'], azi)):
        if not (near(got[0], a.initial) and near(got[1], a.inc) and near(got[2], a.number)):
            return '%s angles: asked %r, the input says %r' % (nm_, (a.initial, a.inc, a.number), got)
    if pt['gainfile'] != rq.get('gainfile'):
        return 'pattern file: asked %r, the input says %r' % (rq.get('gainfile'), pt['gainfile'])
    nr = rq.get('near')
    if not nr:
        if tail['near']:
            return 'near fields are requested in the input although none were asked for'
        return None
    if [t[0] for t in tail['near']] != ['E', 'H']:
        return 'near-field requests in the input: %r, expected the electric then the magnetic field' % [t[0] for t in tail['near']]
    for ft, rg, pw in tail['near']:
        for k in range(3):
            if not (near(rg[k][0], nr[k]) and near(rg[k][1], nr[3 + k]) and rg[k][2] == int(nr[6 + k])):
                return 'near field %s, axis %d: asked (%r, %r, %r), the input says %r' % (ft, k, nr[k], nr[3 + k], nr[6 + k], rg[k])
        want = rq.get('pwr_nf')
        if (pw is None) != (want is None) or (want is not None and not near(pw, want)):
            return 'new power level of the near field %s: asked %r, the input says %r' % (ft, want, pw)
    return None


def property_on_impl(argv, version, srcform=None, req=None):
    m, txt, zen, azi, r = real_text(argv, version, srcform, req)
    if m is None:
        return None
    try:
        rd = python_reader(txt)
    except Exception as e:
        return 'generated input does not follow the prompt order: %s' % e
    tb = tail_bad(rd['tail'], zen, azi, req)
    if tb:
        return tb

    def near(a, b, rel=2e-5):
        return abs(a - b) <= rel * max(abs(a), abs(b)) + 1e-12
    if not near(rd['f'], m.f):
        return 'frequency %r for %r' % (rd['f'], m.f)
    if (rd['env'] == '-1') != bool(m.media):
        return 'environment'
    if len(rd['sources']) != len(m.sources):
        return 'number of sources'
    for (p, mag, ph), s in zip(rd['sources'], m.sources):
        v = complex(s.voltage)
        # BASIC forms the voltage as magnitude (any sign) times exp (j phase)
        vv = mag * complex(math.cos(math.radians(ph)), math.sin(math.radians(ph)))
        if p != s.idx + 1 or not near(abs(mag), abs(v)):
            return 'source %d: pulse/magnitude %r, %r for voltage %r on pulse %d' % (p, p, mag, v, s.idx + 1)
        if abs(vv - v) > 2e-5 * abs(v):
            return ('source on pulse %d: the answers %r, %r describe the voltage %r, the model has %r'
                    % (p, mag, ph, complex(round(vv.real, 6), round(vv.imag, 6)), v))
    nseg = sum(w[0] for w in rd['wires'])
    if nseg != sum(w.n_segments for w in m.geo):
        return 'emulated wires have %d segments in total, model has %d' % (nseg, sum(w.n_segments for w in m.geo))
    # BASIC joins two wire ends when their coordinates are equal (single precision), not within a tolerance: the wires as
    # written must produce the pulse count of the model — sum (segments - 1) + one per joint end after the first + one per
    # end on the ground plane
    f32 = lambda v: tuple(float(np.float32(x)) for x in v)
    seen, npulse = set(), 0
    for (ns, p1, p2, rr) in rd['wires']:
        npulse += ns - 1
        for e in (p1, p2):
            k = f32(e)
            if rd['env'] == '-1' and k[2] == 0.0:
                npulse += 1
            elif k in seen:
                npulse += 1
            else:
                seen.add(k)
    if npulse != len(m.pulses):
        return ('read as BASIC reads it (ends are joined when their coordinates are equal) the written wires give %d current '
                'pulses, the model has %d: the pulse numbers of sources and loads address other places' % (npulse, len(m.pulses)))
    # loads given as S-parameters: the rational function the answers describe (BASIC version 9 takes the coefficients in
    # microhenry / microfarad units, i.e. of s in 1e6/s) is the impedance the model uses for that pulse
    if rd['loads'] and not any(isinstance(x[1], complex) for x in rd['loads']):
        want = [(p.idx + 1, complex(l.impedance(m.f, p))) for l in m.loads for p in l.pulses]
        if len(want) != len(rd['loads']):
            return 'the input lists %d loads, the model has %d load/pulse pairs' % (len(rd['loads']), len(want))
        sv = 2j * math.pi * m.f * 1e6 * (1e-6 if str(version) == '9' else 1.0)
        for (pw, zw), (pg, cs) in zip(want, rd['loads']):
            num = sum(c[0] * sv ** d for d, c in enumerate(cs))
            den = sum(c[1] * sv ** d for d, c in enumerate(cs))
            zg = num / den if den != 0 else complex('nan')
            # the answers carry six significant digits ('%g'): first-order effect of 5e-6 per coefficient on the quotient
            an = sum(abs(c[0] * sv ** d) for d, c in enumerate(cs)); ad = sum(abs(c[1] * sv ** d) for d, c in enumerate(cs))
            slack = 6e-6 * (an / abs(den) + abs(num) * ad / abs(den) ** 2) if den != 0 else 0.0
            if pw != pg or not abs(zw - zg) <= 2e-5 * max(abs(zw), 1e-30) + slack + 1e-12:
                return ('load on pulse %d: the %d coefficient pairs written for BASIC version %s describe %r ohm at %g MHz, the model '
                        'uses %r ohm (pulse answered: %d)' % (pw, len(cs), version, zg, m.f, zw, pg))
        lp = [(l, p) for l in m.loads for p in l.pulses]
        for (l, p), (pg, cs) in zip(lp, rd['loads']):
            if not hasattr(l, 'a') or len(cs) != l.degree + 1:
                return 'load on pulse %d: %d coefficient pairs for a function of order %s' % (p.idx + 1, len(cs), getattr(l, 'degree', '?'))
            for d, c in enumerate(cs):
                fac = 10 ** (6 * d) if str(version) == '9' else 1
                for got, wantc, nm in ((c[0], l.b[d] * fac, 'numerator'), (c[1], l.a[d] * fac, 'denominator')):
                    if abs(got - wantc) > 6e-6 * abs(wantc) + 1e-300:
                        return ('load on pulse %d: %s coefficient of s^%d is answered %r, the model has %r (in the units of BASIC '
                                'version %s)' % (p.idx + 1, nm, d, got, wantc, version))
    # loads given as impedances: one answer per load and pulse, the value the model uses for that pulse
    if rd['loads'] and all(isinstance(x[1], complex) for x in rd['loads']):
        want = [(p.idx + 1, complex(l.impedance(m.f, p))) for l in m.loads for p in l.pulses]
        got = rd['loads']
        if len(want) != len(got):
            return 'the input lists %d loads, the model has %d load/pulse pairs' % (len(got), len(want))
        for (pw, zw), (pg, zg) in zip(want, got):
            if pw != pg or abs(zw - zg) > 2e-5 * max(abs(zw), 1e-30) + 1e-12:
                return 'load answer "%d, %g, %g" for a load of %r ohm on pulse %d' % (pg, zg.real, zg.imag, zw, pw)
    return None


def replay(rp):
    if 'argv' not in rp:
        print('replay: nothing to execute:', rp.get('kind'))
        return 1
    bad = property_on_impl(rp['argv'], rp.get('version', '12'), rp.get('srcform'), rp.get('req'))
    print('replay ->', bad or 'property holds')
    return 1 if bad else 0


def run(ck):
    ck.proof_side()
    d = ck.get_driver()
    rng = ck.rng
    n = 120 if ck.tier == 'quick' else 1500
    dis, viol = [], []
    corpus = [(['-f', '7', '-w', '10,0,0,0,0,0,10,.001', '--excitation-pulse=5', '--excitation-voltage=1j',
                '--theta=0,10,3', '--phi=0,90,2'], 'corpus')]
    cases = corpus + [gen_argv(rng) for _ in range(n)]
    for argv, kind in cases:
        version = rng.choice(['9', '12', '13'])
        srcform = rng.choice(SRCFORMS)
        req = gen_req(rng)
        m, txt, zen, azi, r = real_text(argv, version, srcform, req)
        if m is None:
            ck.count('rejected_' + r['kind'])
            continue
        ck.count('sources_' + (srcform or 'complex'))
        try:
            toks, nm = project(m, version, zen, azi, req)
        except NotImplementedError:
            ck.count('not_expressible')
            continue
        ans = d.ask('basic write', *toks)
        ck.case((kind, version, tuple(a.split('=')[0] for a in argv)), True,
                sample=dict(argv=argv, version=version, lines=len(txt.split('\n'))))
        ck.count('kind_' + kind)
        ck.count('version_' + version)
        why = None
        if ans in ('parse-error', 'bad-op'):
            why = 'driver ' + ans
        else:
            rt, lines = render(ans, nm)
            real = txt.split('\n')
            if not rt:
                why = 'model reader does not recover the projected model (projection not in normal form)'
            elif lines != real:
                k = next((i for i, (a, b) in enumerate(zip(lines, real)) if a != b), min(len(lines), len(real)))
                why = 'line %d: implementation %r, model %r' % (k + 1, real[k] if k < len(real) else None, lines[k] if k < len(lines) else None)
        bad = property_on_impl(argv, version, srcform, req)
        if req:
            ck.count('requests_api' + ('_vm' if req['ff_abs'] else '') + ('_near' if req['near'] else ''))
        if bad:
            viol.append(dict(kind='basic-input', argv=argv, version=version, srcform=srcform, req=req, observed=bad))
        elif why:
            dis.append(dict(argv=argv, version=version, srcform=srcform, req=req, why=why))
    ck.stats['disagreements'] = len(dis)
    ck.cov['rule'] = ('command lines with straight / bent / fuzzily joined wires, tapered wires, arcs, helices, all media forms '
                      '(ideal, one, two linear/circular, three, radials), 1-2 source voltages (given as complex numbers or as magnitude and phase: plain, negative magnitude, phase a turn on), impedance / RLC / trap / '
                      'Laplace / skin / insulation loads, versions 9/12/13; generated input compared line by line with the model; '
                      'distinct = distinct (structure kind, version, option set)')
    ck.assumptions += ["the prompt order of MININEC-3 is taken from the comments in as_basic_input (the BASIC source is not in the repository)",
                       "numbers are rendered with Python's % operator from the format recorded in the model token",
                       'the V/m pattern request, the pattern file and the near-field blocks of as_basic_input are reachable only through the Python API; half of the cases go through it']
    seen = set()
    for v in viol:
        key = v['observed'].split(':')[0][:30]
        if key in seen:
            continue
        seen.add(key)
        ck.violation(v)
    if (dis or ck.broken) and not viol:
        ck.violation(dict(kind='broken-tie', detail=dict(broken=ck.broken, disagreements=dis[:3]),
                          theorem='Pmn.Props.C18.C18_roundtrip / correspondence basic write'), found_input=False)
