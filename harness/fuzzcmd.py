"""Malformed-argument stream for C20: documented options with syntactically well-formed but arbitrary
values (zero, negative, huge, tiny, non-finite, wrong arity, unknown tags, contradictory options,
degenerate and duplicate geometry)."""
import math, re, os, tempfile, atexit, shutil

# output files of --output-basic-input / --output-cmdline: a writable place, a directory that does not exist,
# and a directory given as the file name (scratch directory outside /repo and /verif, removed at exit)
OUTDIR = tempfile.mkdtemp(prefix='pmn_fuzz_')
atexit.register(shutil.rmtree, OUTDIR, True)
OUTPATHS = [os.path.join(OUTDIR, 'o.txt'), os.path.join(OUTDIR, 'o.txt'), os.path.join(OUTDIR, 'no', 'such', 'dir', 'o.txt'), OUTDIR]

SPECIAL = ['0', '-1', '1e308', '1e-308', 'inf', '-inf', 'nan', '1e-30', '-0.0', '1e30', '0.5', '3']
INTS = ['0', '-1', '1', '2', '-5', '7', '9' * 400, '-' + '9' * 400]      # Python integers have no upper limit
HUGEINT = '1000000'
WORDS = ['all', 'x', '', 'None', '1j', 'linear']

BASES = [
    ['-f', '7', '-w', '4,0,0,0,0,0,10,.01', '--excitation-pulse=2'],
    ['-f', '14', '-w', '3,0,0,0,0,0,5,.01', '-w', '3,0,0,5,3,0,5,.01', '--excitation-pulse=1', '--medium=0,0,0'],
    ['-f', '7', '-w', '4,0,0,0,0,0,10,.01', '--excitation-pulse=2', '--medium=13,0.005,0,5', '--medium=5,0.002,-1',
     '--radial-count=4', '--radial-radius=0.001', '--boundary=circular'],
    ['-f', '7', '-w', '6,0,0,0,0,0,10,.001', '--excitation-pulse=2', '--taper-wire=1,1'],
    ['-f', '7', '-a', '4,2,0,180,.01', '--excitation-pulse=2'],
    ['-f', '7', '-H', '8,2,1,.01,1,1', '--excitation-pulse=2'],
    ['-f', '7', '-w', '4,0,0,0,0,0,10,.01', '--excitation-pulse=2', '--load=5+3j', '--attach-load=1,2',
     '--skin-effect-conductivity=5e7', '--insulation-load=0.02,2'],
    ['-f', '7', '-w', '4,0,0,0,0,0,10,.01', '--excitation-pulse=2', '--near-field=1,1,1,1,1,1,2,1,1'],
    ['-f', '7', '-w', '4,0,0,0,0,0,10,.01', '--excitation-pulse=2', '--option=far-field-absolute', '--ff-distance=100', '--ff-power=10'],
    ['-f', '7', '-w', '4,0,0,0,0,0,10,.01', '--excitation-pulse=2', '--frequency-steps=2', '--frequency-increment=1'],
    ['-f', '7', '-w', '4,0,0,0,0,0,10,.01', '--excitation-pulse=2', '--geo-rotate=1,0,0,90', '--geo-translate=2,1,1,1', '--geo-scale=2'],
    ['-f', '7', '-w', '4,0,0,0,0,0,10,.01', '--excitation-pulse=2', '--rlc-load=1,1e-6,1e-10', '--attach-load=1,1',
     '--trap-load=1,1e-5,1e-11', '--attach-load=2,2', '--laplace-load-a=0,1e-9', '--laplace-load-b=1', '--attach-load=3,all'],
    ['-f', '7', '-w', '4,0,0,0,0,0,10,.01', '--excitation-pulse=2', '--theta=0,10,3', '--phi=0,90,2'],
    # every load kind side by side, as needed by the writers of the two output files
    ['-f', '7', '-w', '6,0,0,0,0,0,10,.01', '--excitation-pulse=2', '--load=50+5j', '--attach-load=1,1', '--laplace-load-a=1,2e-6',
     '--laplace-load-b=1,1e-6', '--attach-load=2,4', '--rlc-load=5,1e-6,', '--attach-load=3,5'],
    ['-f', '7', '-w', '4,0,0,0,0,0,10,.01', '-w', '4,0,0,10,5,0,10,.01', '--excitation-pulse=2', '--insulation-load=0.02,2',
     '--insulation-load=0.03,3,2', '--skin-effect-conductivity=5e7,1'],
    ['-f', '7', '-w', '4,0,0,0,0,0,10,.01', '--excitation-pulse=2', '--laplace-load-a=1,2e-6,3e-12,4e-18,5e-24',
     '--laplace-load-b=1,1e-6,1e-12,1e-18,1e-24', '--attach-load=1,1', '--mininec-version=9'],
]

EXTRA = ['--frequency-increment=%s', '--frequency-steps=%s', '--ff-distance=%s', '--ff-power=%s', '--nf-power=%s',
         '--radial-count=%s', '--radial-radius=%s', '--excitation-voltage=%s', '--geo-scale=%s',
         '--skin-effect-conductivity=%s', '--skin-effect-resistivity=%s', '-f %s', '--medium=%s,%s,%s',
         '--near-field=%s,%s,%s,%s,%s,%s,%s,%s,%s', '--theta=%s,%s,%s', '--phi=%s,%s,%s', '--insulation-load=%s,%s',
         '--load=%s', '--rlc-load=%s,%s,%s', '--trap-load=%s,%s,%s', '--taper-wire=%s,%s,%s,%s', '--attach-load=%s,%s',
         '--excitation-pulse=%s', '--option=near-field', '--option=far-field-absolute', '--boundary=circular',
         '--geo-rotate=%s,%s,%s,%s', '--geo-translate=%s,%s,%s,%s', '-w %s,%s,%s,%s,%s,%s,%s,%s', '-a %s,%s,%s,%s,%s',
         '-H %s,%s,%s,%s,%s,%s', '--laplace-load-a=%s,%s', '--laplace-load-b=%s,%s', '--mininec-version=%s',
         '--attach-load=%s,all,%s', '--attach-load=%s,all', '--attach-load=%s,%s,%s', '--excitation-pulse=%s,%s',
         '--geo-scale=%s,%s', '--geo-rotate=%s,%s,%s,%s,%s', '--geo-translate=%s,%s,%s,%s,%s', '--load=%s',
         '--output-basic-input=%p', '--output-cmdline=%p', '--output-basic-input=%p', '--output-cmdline=%p', '-T', '--timing',
         '--f-inc=%s', '--n-f=%s', '-l %s', '--insulation-load=%s,%s,%s', '--skin-effect-conductivity=%s,%s',
         '--skin-effect-resistivity=%s,%s', '--mininec-version=12', '--mininec-version=13', '--option=near-field-e',
         '--option=far-field', '--option=%s', '--boundary=%s', '--laplace-load-a=%s,%s,%s,%s,%s', '--laplace-load-b=%s,%s,%s,%s,%s']

# minimised past failures: run first
CORPUS = [
    ['--load=1', '--attach-load=1,all,7'],
    ['-w', '5,0,0,0,0,0,0.6347149590416762,0.042314330602778415', '--taper-wire=1,1,0,0.4952720600888217'],
]


def mutate_field(rng, opt):
    """replace one comma-separated field of an option value by a special value"""
    if '=' in opt:
        name, val = opt.split('=', 1)
        sep = '='
    else:
        return opt
    parts = val.split(',')
    k = rng.randrange(len(parts))
    parts[k] = rng.choice(SPECIAL + INTS) if rng.random() < 0.85 else rng.choice(WORDS)
    if rng.random() < 0.1:
        parts = parts[:-1] if len(parts) > 1 and rng.random() < .5 else parts + [rng.choice(SPECIAL)]
    elif rng.random() < 0.06 and len(parts) > 1:
        del parts[rng.randrange(len(parts))]
    return name + sep + ','.join(parts)


def gen_taper(rng):
    """tapered wire with random limits (exercises the search loops of taper.py)"""
    n = rng.randint(2, 12)
    l = 10 ** rng.uniform(-1, 2)
    r = l / n / rng.choice([3, 5, 10, 50, 200])
    mn = rng.choice([0, 0, l / n * rng.uniform(0.01, 1.2)])
    typ = rng.choice([1, 2, 3])
    t = '--taper-wire=1,%d,%r' % (typ, mn)
    u = rng.random()
    if u < 0.35:
        # the largest segment the untapered-maximum taper would have, to within a few units in the last place: the
        # boundary between "the maximum does not bind" and the search for a taper that respects it
        import numpy as np
        h = n // 2
        m0 = l * 2 ** (n - 1) / (2 ** n - 1) if typ < 3 else (l * 2 ** h / (2 * (2 ** h - 1) + 2 ** h) if n % 2 else l * 2 ** (h - 1) / (2 * (2 ** h - 1)))
        for _ in range(rng.choice([0, 0, 1, 1, 2, 3])):
            m0 = float(np.nextafter(m0, rng.choice([0.0, 1e300])))
        t += ',%r' % m0
    elif u < 0.8:
        t += ',%r' % (l / n * rng.uniform(0.8, 4))
    return ['-f', '%r' % (299.8 / (l / n) / 25), '-w', '%d,0,0,0,0,0,%r,%r' % (n, l, r), '--excitation-pulse=1', t, '--theta=0,45,2', '--phi=0,90,1']


def gen(rng):
    if rng.random() < 0.12:
        return gen_taper(rng)
    base = list(rng.choice(BASES))
    argv = []
    i = 0
    nmut = rng.choice([1, 1, 1, 2, 3])
    # positions that can be mutated
    idxs = [k for k, a in enumerate(base) if '=' in a or (k > 0 and base[k - 1] in ('-f', '-w', '-a', '-H', '-l'))]
    muts = set(rng.sample(idxs, min(nmut, len(idxs)))) if rng.random() < 0.75 else set()
    for k, a in enumerate(base):
        if k in muts:
            if '=' in a:
                a = mutate_field(rng, a)
            else:
                parts = a.split(',')
                j = rng.randrange(len(parts))
                parts[j] = rng.choice(SPECIAL + INTS)
                a = ','.join(parts)
        argv.append(a)
    for _ in range(rng.choice([0, 1, 1, 2])):
        t = rng.choice(EXTRA)
        t = t.replace('%p', rng.choice(OUTPATHS))
        n = t.count('%s')
        vals = tuple(rng.choice(SPECIAL + INTS + ['1', '2', '5', '0.1', '10']) for _ in range(n))
        s = t % vals
        if s.startswith('-') and not s.startswith('--') and ' ' in s:
            o, v = s.split(' ', 1)
            argv += [o, v]
        else:
            argv.append(s)
    if rng.random() < 0.1:
        argv = [a for a in argv if not a.startswith('--excitation-pulse')]
    return argv


NONFINITE = re.compile(r'(?<![A-Za-z])(nan|inf)(?![A-Za-z])', re.I)


class _Timeout(BaseException):
    pass


def outcome(argv, limit=20):
    """run the real main; classify. returns (cls, detail)"""
    from common import run_main
    import warnings, signal

    def on_alarm(*_):
        raise _Timeout()
    old = signal.signal(signal.SIGALRM, on_alarm)
    prev = signal.alarm(0)
    signal.alarm(limit)
    try:
        with warnings.catch_warnings():
            warnings.simplefilter('ignore')
            r = run_main(argv)
    except _Timeout:
        return 'timeout', ''
    finally:
        signal.alarm(0)
        signal.signal(signal.SIGALRM, old)
        if prev:
            signal.alarm(prev)
    if r['kind'] == 'crash':
        return 'crash', r['exc']
    if r['kind'] == 'usage':
        return 'usage', ''
    if r['kind'] == 'diag':
        if r['rc'] != 23:
            return 'crash', 'return value %r' % r['rc']
        msg = (r['err'] + r['out']).strip()
        if '-T' in argv or '--timing' in argv:
            # the timing lines the user asked for are not part of the diagnostic
            msg = '\n'.join(l for l in msg.split('\n') if not l.startswith('Time ')).strip()
        if msg.count('\n') > 0:
            return 'diag-multiline', msg[:120]
        return 'diag', msg[:120]
    out = r['out']
    mm = NONFINITE.search(out)
    if mm:
        line = [l for l in out.split('\n') if NONFINITE.search(l)][0]
        return 'nonfinite', line.strip()[:100]
    if 'SOURCE DATA' not in out:
        return 'incomplete', out[-100:]
    return 'report', ''
