#!/venv/bin/python
"""Entry point of every registered check:  harness/check.py Cxx [--tier quick|thorough] [--replay path]

exit 0: every proof obligation discharged and the model/implementation correspondence held
exit 1: VIOLATION line(s) printed
exit 2: time limit hit (no verdict)
"""
import sys, os, argparse, importlib, signal, json, traceback
sys.path.insert(0, os.path.dirname(os.path.abspath(__file__)))
import common


def main():
    ap = argparse.ArgumentParser()
    ap.add_argument('prop')
    ap.add_argument('--tier', default=os.environ.get('VERIF_TIER', 'quick'))
    ap.add_argument('--replay')
    ap.add_argument('--limit', type=int, default=None, help='wall-clock limit in seconds')
    a = ap.parse_args()
    tier = a.tier if a.tier in ('quick', 'thorough') else 'quick'
    seed = int(os.environ.get('VERIF_SEED', '1') or 1)
    pid = a.prop.upper()
    mod = importlib.import_module(pid.lower())
    limit = a.limit or (1500 if tier == 'quick' else 3 * 3600)

    def on_alarm(*_):
        print('%s TIMEOUT after %ds' % (pid, limit))
        os._exit(2)
    signal.signal(signal.SIGALRM, on_alarm)
    signal.alarm(limit)
    os.chdir(common.ROOT)
    if a.replay:
        rp = json.load(open(a.replay))
        rc = mod.replay(rp)
        sys.exit(rc)
    ck = common.Check(pid, tier, seed, mod.LEVEL, mod.MODULES)
    try:
        mod.run(ck)
    except Exception:
        # the machinery itself failed: never silently pass
        tb = traceback.format_exc()
        print(tb)
        ck.broken.append(dict(kind='harness-exception', detail=tb[-1500:]))
        ck.violation(dict(kind='harness-exception', detail=tb[-3000:]), found_input=False)
    sys.exit(ck.finish())


if __name__ == '__main__':
    main()
