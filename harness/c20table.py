"""Field x value-class table for C20: one documented numeric input at a time is replaced by a
representative of each value class; the rest of the command line stays valid."""

CLASSES = ['neg', 'zero', 'pos', 'inf', 'nan', 'word']
REP = dict(neg='-1', zero='0', inf='inf', nan='nan', word='all')          # 'pos' = the base value itself; 'word' = a keyword where a number belongs
REPI = dict(neg='-1', zero='0', word='all')                    # integer-typed fields have no inf/nan

W = '-w'
BASE = ['-f', '7', W, '4,0,0,1,0,0,10,.01', '--excitation-pulse=2']


def F(name, argv, idx, pos, integer=False, sep=','):
    """field: mutate comma-field `pos` of argv[idx] (value part after '=' if present)"""
    return dict(name=name, argv=argv, idx=idx, pos=pos, integer=integer)


FIELDS = [
    F('frequency', BASE, 1, 0),
    F('freq_steps', BASE + ['--frequency-increment=1', '--frequency-steps=2'], 6, 0, integer=True),
    F('freq_increment', BASE + ['--frequency-steps=2', '--frequency-increment=1'], 6, 0),
    F('wire_nseg', BASE, 3, 0, integer=True),
    F('wire_coord', BASE, 3, 1),
    F('wire_radius', BASE, 3, 7),
    F('voltage', BASE + ['--excitation-voltage=2'], 5, 0),
    F('load', BASE + ['--attach-load=1,1', '--load=5'], 6, 0),
    F('rlc_r', BASE + ['--attach-load=1,1', '--rlc-load=5,1e-6,1e-10'], 6, 0),
    F('rlc_l', BASE + ['--attach-load=1,1', '--rlc-load=5,1e-6,1e-10'], 6, 1),
    F('rlc_c', BASE + ['--attach-load=1,1', '--rlc-load=5,1e-6,1e-10'], 6, 2),
    F('trap_r', BASE + ['--attach-load=1,1', '--trap-load=5,1e-6,1e-10'], 6, 0),
    F('laplace_a', BASE + ['--attach-load=1,1', '--laplace-load-b=1,1e-6', '--laplace-load-a=1,1e-9'], 7, 1),
    F('laplace_b', BASE + ['--attach-load=1,1', '--laplace-load-a=1,1e-9', '--laplace-load-b=1,1e-6'], 7, 1),
    F('skin_conductivity', BASE + ['--skin-effect-conductivity=5e7'], 5, 0),
    F('skin_resistivity', BASE + ['--skin-effect-resistivity=2e-8'], 5, 0),
    F('insulation_radius', BASE + ['--insulation-load=0.02,2'], 5, 0),
    F('insulation_eps', BASE + ['--insulation-load=0.02,2'], 5, 1),
    F('geo_scale', BASE + ['--geo-scale=2'], 5, 0),
    F('geo_rotate_angle', BASE + ['--geo-rotate=1,10,20,30'], 5, 1),
    F('geo_translate', BASE + ['--geo-translate=1,1,2,3'], 5, 1),
    F('geo_key', BASE + ['--geo-translate=1,1,2,3'], 5, 0),
    F('taper_min', ['-f', '7', W, '6,0,0,0,0,0,10,.001', '--excitation-pulse=2', '--taper-wire=1,1,0.1,5'], 5, 2),
    F('taper_max', ['-f', '7', W, '6,0,0,0,0,0,10,.001', '--excitation-pulse=2', '--taper-wire=1,1,0.1,5'], 5, 3),
    F('medium_eps', BASE + ['--medium=13,0.005,0'], 5, 0),
    F('medium_sigma', BASE + ['--medium=13,0.005,0'], 5, 1),
    F('medium_height', BASE + ['--medium=13,0.005,0,5', '--medium=5,0.002,-1'], 6, 2),
    F('medium_coord', BASE + ['--medium=5,0.002,-1', '--medium=13,0.005,0,5'][::-1], 5, 3),
    F('radial_count', BASE + ['--medium=13,0.005,0,5', '--medium=5,0.002,0', '--radial-radius=.001', '--radial-count=4'], 8, 0, integer=True),
    F('radial_radius', BASE + ['--medium=13,0.005,0,5', '--medium=5,0.002,0', '--radial-count=4', '--radial-radius=.001'], 8, 0),
    F('nf_start', BASE + ['--near-field=1,1,1,1,1,1,2,1,1'], 5, 0),
    F('nf_inc', BASE + ['--near-field=1,1,1,1,1,1,2,1,1'], 5, 3),
    F('nf_count', BASE + ['--near-field=1,1,1,1,1,1,2,1,1'], 5, 6, integer=True),
    F('nf_power', BASE + ['--near-field=1,1,1,1,1,1,2,1,1', '--nf-power=100'], 6, 0),
    F('ff_power', BASE + ['--option=far-field-absolute', '--ff-distance=100', '--ff-power=10'], 7, 0),
    F('ff_distance', BASE + ['--option=far-field-absolute', '--ff-power=10', '--ff-distance=100'], 7, 0),
    F('theta_start', BASE + ['--theta=10,10,3'], 5, 0),
    F('theta_count', BASE + ['--theta=10,10,3'], 5, 2, integer=True),
    F('phi_inc', BASE + ['--phi=10,10,3'], 5, 1),
    F('arc_radius', ['-f', '7', '-a', '4,2,0,180,.01', '--excitation-pulse=2'], 3, 1),
    F('arc_angle', ['-f', '7', '-a', '4,2,10,180,.01', '--excitation-pulse=2'], 3, 2),
    F('arc_nseg', ['-f', '7', '-a', '4,2,0,180,.01', '--excitation-pulse=2'], 3, 0, integer=True),
    F('helix_length', ['-f', '7', '-H', '8,2,1,.01,1,1', '--excitation-pulse=2'], 3, 1),
    F('helix_turnlen', ['-f', '7', '-H', '8,2,1,.01,1,1', '--excitation-pulse=2'], 3, 2),
    F('helix_radius', ['-f', '7', '-H', '8,2,1,.01,1,1', '--excitation-pulse=2'], 3, 4),
    F('helix_nseg', ['-f', '7', '-H', '8,2,1,.01,1,1', '--excitation-pulse=2'], 3, 0, integer=True),
    F('excitation_pulse', BASE, 4, 0, integer=True),
    F('attach_load_idx', BASE + ['--load=5', '--attach-load=1,1'], 6, 0, integer=True),
    F('attach_pulse', BASE + ['--load=5', '--attach-load=1,1'], 6, 1, integer=True),
]


def mutated(field, cls):
    argv = list(field['argv'])
    if cls == 'pos':
        return argv
    rep = (REPI if field['integer'] else REP).get(cls)
    if rep is None:
        return None
    a = argv[field['idx']]
    if '=' in a and a.startswith('--'):
        name, val = a.split('=', 1)
        parts = val.split(',')
        parts[field['pos']] = rep
        argv[field['idx']] = name + '=' + ','.join(parts)
    else:
        parts = a.split(',')
        parts[field['pos']] = rep
        argv[field['idx']] = ','.join(parts)
    return argv


def paired(field, cls, order):
    """the mutated option together with a second, valid copy of the same option (after it: order 0, before it:
    order 1) — options that may be given several times act on shared state (the same geo object, the same load
    list), so a value that is harmless alone can meet code that evaluates it when the second option arrives"""
    if cls == 'pos':
        return None
    argv = mutated(field, cls)
    if argv is None:
        return None
    i = field['idx']
    orig = field['argv'][i]
    if orig.startswith('--'):
        if orig.split('=')[0] in ('--frequency-steps', '--frequency-increment', '--radial-count', '--radial-radius', '--nf-power',
                                  '--ff-power', '--ff-distance', '--theta', '--phi'):
            return None                      # single-valued options: the last one wins, nothing shared
        extra = [orig]
    else:
        extra = [field['argv'][i - 1], orig]
        i = i - 1
    n = len(extra) if not orig.startswith('--') else 1
    return argv[:i + n] + extra + argv[i + n:] if order == 0 else argv[:i] + extra + argv[i:]


WORDS = ['all', 'x', '', 'None', '1j', ' 2', '2 3']


def word_sweep():
    """every comma field of every option of the table's command lines holding a *word* instead of a number (the keyword
    `all`, which is legal in one slot only; an empty field; a complex literal …), and every field deleted: the outcome
    must still be usage error, diagnostic or report.  Yields (what, argv)."""
    seen = set()
    for f in FIELDS:
        base = list(f['argv'])
        for idx, a in enumerate(base):
            if idx == 0 or not (a.startswith('--') and '=' in a or base[idx - 1] in ('-f', '-w', '-a', '-H')):
                continue
            if a.startswith('--') and '=' in a:
                name, val = a.split('=', 1)
                head = name + '='
            else:
                head, val = '', a
            parts = val.split(',')
            for pos in range(len(parts)):
                for w in WORDS + [None]:
                    q = list(parts)
                    if w is None:
                        del q[pos]
                        if not q:
                            continue
                    else:
                        q[pos] = w
                    new = head + ','.join(q)
                    key = (tuple(base[:idx]), new, tuple(base[idx + 1:]))
                    if key in seen:
                        continue
                    seen.add(key)
                    yield ('%s field %d %s' % (head or base[idx - 1], pos + 1, 'deleted' if w is None else 'holds %r' % w),
                           base[:idx] + [new] + base[idx + 1:])
