"""C16 — field tables contain exactly the requested sample points.

Proof side : Pmn/Props/C16.lean (lengths and elements of angle lists, far table, near grid).
Tie        : bit-exact comparison of the implementation's angle lists / far-field table rows /
             near-field coordinate array with the Lean model's `anglesDeg`, `farTable`,
             `nearGrid`, plus row counts of the printed report.
Search     : the property itself on the implementation (count = product, point = start+k*inc).
"""
import math, itertools
import numpy as np
from common import f2b, b2f, run_main

LEVEL = 'proof'
MODULES = ['C16']

BASE = ['-w', '2,0,0,0,0,0,1,.001', '--excitation-pulse=1', '-f', '10']


def dec(rng):
    """decimal with 1..3 significant digits, mostly not representable in binary"""
    digits = rng.choice([1, 1, 2, 3])
    mant = rng.randint(1, 10 ** digits - 1)
    exp = rng.choice([-3, -2, -1, -1, -1, 0, 1])
    s = '%de%d' % (mant, exp)
    v = float(s)
    return v


def gen_case(rng, tier):
    big = 100 if tier == 'thorough' else 40
    kind = rng.random()
    start = [rng.choice([0.0, dec(rng), -dec(rng), dec(rng) * 10]) for _ in range(3)]
    inc = [dec(rng) * rng.choice([1, 1, 1, -1]) for _ in range(3)]
    if rng.random() < 0.15:
        inc[rng.randrange(3)] = 0.0          # a zero increment with a count > 1: the same point several times
    if kind < 0.4:
        n = [1, 1, 1]
        n[rng.randrange(3)] = rng.randint(1, big)
    elif kind < 0.8:
        n = [rng.randint(1, 5) for _ in range(3)]
    else:
        n = [rng.randint(1, 9), rng.randint(1, 9), rng.randint(1, 3)]
        rng.shuffle(n)
    # keep field points away from the wire (x=y=0, 0<=z<=1) so the field itself is finite
    if abs(start[0]) < 1e-9 and abs(start[1]) < 1e-9:
        start[0] = 0.3
    return start, inc, n


def prior_requests(rng, start, inc, n):
    """requests made on the same object before the one that is judged: the table of a request is a function of
    that request alone.  Nearly equal requests (a scan line moved by a few steps at 20 km, a step changed in
    the sixth digit) are what a grid kept from the previous call is mistaken for."""
    u = rng.random()
    if u < 0.55:
        return []
    out = []
    for _ in range(rng.choice([1, 1, 2])):
        rel = 10 ** rng.uniform(-9, -3)
        st = [x * (1 + rel * rng.choice([-1, 1])) if x else rel * rng.choice([-1, 1, 0]) for x in start]
        ic = [x * (1 + rel * rng.choice([-1, 0, 1])) for x in inc]
        if abs(st[0]) < 1e-9 and abs(st[1]) < 1e-9:
            st[0] = 0.3
        out.append(['near', st, ic, list(n) if rng.random() < 0.8 else [1, 1, 1]])
    if rng.random() < 0.3:
        out.append(['far', [0.0, 10.0, 3], [0.0, 90.0, 2]])
    if rng.random() < 0.3:
        out.insert(0, ['near', list(start), list(inc), list(n)])      # the very same request before
    return out


BASES = [BASE,
         BASE + ['--geo-scale=0.3048'],
         BASE + ['--geo-scale=2,1'],
         BASE + ['--geo-scale=0.5', '--geo-scale=3'],
         BASE + ['--geo-rotate=1,10,20,30', '--geo-translate=2,0.5,0.25,1.5'],
         ['-w', '2,0,0,0,0,0,1,.001', '--excitation-pulse=1', '-f', '10', '--medium=0,0,0'],
         ['-w', '2,0,0,0,0,0,1,.001', '--excitation-pulse=1', '-f', '10', '--medium=13,0.005,0'],
         ['-w', '2,0,0,0,0,0,1,.001', '--excitation-pulse=1', '-f', '10', '--medium=13,0.005,0,5', '--medium=5,0.001,-2'],
         ['-w', '2,0,0,0.5,0,0,1.5,.001', '-w', '2,0,0,1.5,0.7,0,1.5,.001', '--excitation-pulse=1', '-f', '10', '--geo-scale=1.5']]


BIGBASE = ['-f', '10', '-w', '60,0,0,0,0,0,14,.001', '--excitation-pulse=30']


def big_maps(tier):
    out = [([0.3, 0.2, 0.1], [0.1, 0.1, 0.1], [37, 41, 1]), ([0.3, 0.2, 0.1], [0.1, -0.1, 0.7], [7, 11, 13])]
    if tier == 'thorough':
        out += [([0.3, 0.2, 0.1], [0.05, 0.05, 0.1], [97, 89, 1]), ([0.3, 0.2, 0.1], [0.1, 0.1, 0.1], [100, 100, 1]),
                ([0.3, 0.2, 0.1], [0.1, 0.1, 0.1], [31, 29, 5]), ([0.3, 0.2, 0.1], [0.0, 0.1, 0.1], [3, 67, 23])]
    return out


def base_of(start, inc, n):
    """the model behind a request, a function of the request (so that replays agree); the grid of a request does not
    depend on the model, its units or its transformations"""
    import hashlib
    h = int(hashlib.sha1(repr((start, inc, n)).encode()).hexdigest()[:6], 16)
    return BASES[h % len(BASES)] if h % 2 else BASE


def impl_near(start, inc, n, prior=()):
    from mininec.mininec import Angle
    r = run_main(base_of(start, inc, n), want_mininec=True)
    m = r['m']
    m.compute()
    for pr in prior:
        if pr[0] == 'near':
            m.compute_near_field(pr[1], pr[2], pr[3])
        else:
            m.compute_far_field(Angle(*pr[1]), Angle(*pr[2]))
    m.compute_near_field(start, inc, n)
    coords = np.array(m.near_field_coord).T
    return m, coords, len(m.e_field), len(m.h_field)


def prop_near(start, inc, n, coords, ne, nh, report_points=None):
    """the property, evaluated on what the implementation produced"""
    want = n[0] * n[1] * n[2]
    if len(coords) != want or ne != want or nh != want:
        return 'count: %d coords / %d E / %d H for %dx%dx%d = %d' % (len(coords), ne, nh, n[0], n[1], n[2], want)
    if report_points is not None and report_points != 2 * want:
        return 'report has %d FIELD POINT blocks, want %d' % (report_points, 2 * want)
    idx = 0
    for c in range(n[2]):
        for b in range(n[1]):
            for a in range(n[0]):
                w = (start[0] + a * inc[0], start[1] + b * inc[1], start[2] + c * inc[2])
                for k in range(3):
                    tol = 1e-12 * (abs(start[k]) + abs(n[k] * inc[k])) + 1e-300
                    if abs(coords[idx][k] - w[k]) > tol:
                        return 'point %d axis %d is %r, want %r' % (idx, k, coords[idx][k], w[k])
                idx += 1
    return None


def near_argv(start, inc, n):
    return base_of(start, inc, n) + ['--near-field=' + ','.join([repr(x) for x in start + inc] + [str(k) for k in n])]


def replay(rp):
    if rp.get('kind') == 'near-big':
        start, inc, n = rp['start'], rp['inc'], rp['n']
        mb = run_main(BIGBASE, want_mininec=True)['m']
        mb.compute()
        mb.compute_near_field(start, inc, n)
        bad = prop_near(start, inc, n, np.array(mb.near_field_coord).T, len(mb.e_field), len(mb.h_field))
        print('replay near-big', n, '->', bad or 'property holds')
        return 1 if bad else 0
    if rp.get('kind') == 'near':
        start, inc, n = rp['start'], rp['inc'], rp['n']
        m, coords, ne, nh = impl_near(start, inc, n, rp.get('prior', ()))
        bad = prop_near(start, inc, n, coords, ne, nh)
        print('replay near', start, inc, n, 'after', rp.get('prior', []), '->', bad or 'property holds')
        return 1 if bad else 0
    if rp.get('kind') == 'far':
        from mininec.mininec import Angle
        z, a = rp['zen'], rp['azi']
        bad = prop_far(z, a, *impl_far(z, a))
        print('replay far', z, a, '->', bad or 'property holds')
        return 1 if bad else 0
    print('replay: nothing to execute:', rp.get('kind'), rp.get('detail'))
    return 1


def impl_far(zen, azi):
    from mininec.mininec import Angle
    r = run_main(BASE, want_mininec=True)
    m = r['m']
    m.compute()
    m.compute_far_field(Angle(*zen), Angle(*azi))
    ff = m.far_field
    rows = list(zip(ff.zen.flat, ff.azi.flat))
    nrows_gain = ff.gain.reshape(-1, 3).shape[0]
    # both tables of the pattern, each rendered twice (a report with both result options prints both; a table is a function
    # of the pattern, not of what was printed before): the smallest row count is judged
    counts = []
    for _ in range(2):
        counts.append(len([l for l in ff.db_as_mininec().split('\n') if l.strip()]))
        counts.append(len([l for l in ff.abs_gain_as_mininec().split('\n') if l.strip()]))
    return rows, nrows_gain, min(counts)


def prop_far(zen, azi, rows, ngain, ntxt):
    want = zen[2] * azi[2]
    if len(rows) != want or ngain != want or ntxt != want:
        return 'far rows %d / gain %d / text %d, want %d' % (len(rows), ngain, ntxt, want)
    k = 0
    for j in range(azi[2]):
        for i in range(zen[2]):
            wz, wa = zen[0] + i * zen[1], azi[0] + j * azi[1]
            tz = 1e-12 * (abs(zen[0]) + abs(zen[1] * zen[2])) + 1e-300
            ta = 1e-12 * (abs(azi[0]) + abs(azi[1] * azi[2])) + 1e-300
            if abs(rows[k][0] - wz) > tz or abs(rows[k][1] - wa) > ta:
                return 'far row %d is %r, want (%r, %r)' % (k, rows[k], wz, wa)
            k += 1
    return None


def run(ck):
    ck.proof_side()
    ck.cov['further_clauses'] = 'printed FIELD POINT coordinates of the E and H tables against the model grid, incl. grids crossing a thick wire'
    d = ck.get_driver()
    rng = ck.rng
    N_near = 60 if ck.tier == 'quick' else 600
    N_far = 40 if ck.tier == 'quick' else 400
    disagreements = []
    # fixed corpus first: the input that exposed the former np.arange grid
    corpus = [([0.0, 0.0, 1.0], [0.1, 0.1, 0.1], [3, 3, 3]),
              ([0.3, 0.0, 1.0], [0.1, -0.1, 0.7], [7, 1, 3]),
              ([1.0, 1.0, 1.0], [0.1, 0.1, 0.1], [1, 1, 1]),
              ([0.3, 0.0, 1.0], [0.1, 0.0, 0.0], [3, 2, 1]),
              ([0.3, 0.2, 1.0], [0.0, 0.0, 0.5], [2, 2, 2])]
    cases = corpus + [gen_case(rng, ck.tier) for _ in range(N_near)]
    # far-away scan lines (relative differences between neighbouring requests of 1e-6 and less)
    for k in range(6 if ck.tier == 'quick' else 40):
        x0 = rng.choice([2000.0, 20000.0, 1e5])
        cases.append(([x0 + dec(rng), dec(rng), 10.0], [dec(rng) * 0.5, 0.0, 0.0], [rng.randint(2, 6), 1, 1]))
    priors = {}
    for ci, (start, inc, n) in enumerate(cases):
        prior = prior_requests(rng, start, inc, n) if ci >= len(corpus) else []
        priors[ci] = prior
        if prior:
            ck.count('near_after_other_requests')
        m, coords, ne, nh = impl_near(start, inc, n, prior)
        ans = d.ask('grid near', *[f2b(x) for x in start + inc], *n)
        model = [b2f(t) for t in ans.split()]
        model = [tuple(model[i:i + 3]) for i in range(0, len(model), 3)]
        impl = [tuple(float(v) for v in c) for c in coords]
        nontrivial = (n[0] * n[1] * n[2] > 1)
        ck.case(('near', tuple(start), tuple(inc), tuple(n)), nontrivial,
                sample=dict(kind='near', start=start, inc=inc, n=n, points=len(impl)))
        ck.count('near_points', len(impl))
        same = (len(model) == len(impl) == ne == nh and
                all(f2b(a) == f2b(b) for p, q in zip(model, impl) for a, b in zip(p, q)))
        if not same:
            disagreements.append(dict(kind='near', start=start, inc=inc, n=n, prior=prior,
                                      model_points=len(model), impl_points=len(impl), e=ne, h=nh))
    # field maps of a thousand and more points around a structure of about sixty pulses (sizes without common factors):
    # the tables still hold exactly the requested points — what evaluation in batches or blocks gets wrong
    for (start, inc, n) in big_maps(ck.tier):
        mb = run_main(BIGBASE, want_mininec=True)['m']
        mb.compute()
        mb.compute_near_field(start, inc, n)
        coords = np.array(mb.near_field_coord).T
        ck.case(('near-big', tuple(n)), True, sample=dict(kind='near-big', n=n, points=len(coords), pulses=len(mb.pulses)))
        ck.count('near_big_maps')
        bad = prop_near(start, inc, n, coords, len(mb.e_field), len(mb.h_field))
        if not bad and not (np.isfinite(np.array(mb.e_field)).all() and np.abs(np.array(mb.e_field)).max(axis=-1).min() > 0):
            bad = 'a field map of %d points has rows without a field value' % len(coords)
        if bad:
            ck.violation(dict(kind='near-big', start=start, inc=inc, n=n, observed=bad))
            return
    # a few end-to-end reports: number of FIELD POINT blocks printed
    rep_cases = cases[:5] + cases[5:5 + (4 if ck.tier == 'quick' else 20)] + [c for c in cases[5:] if 0.0 in c[1]][:6]
    import re
    # requests with points inside the conductor of a thick wire (off the axis, within the radius), on its surface and on its axis
    THICK = ['-f', '10', '-w', '10,0,0,-1,0,0,1,0.01', '--excitation-pulse=5']
    thick = [([-0.008, 0.0, 0.1], [0.004, 0.0, 0.05], [5, 1, 3]), ([0.006, 0.006, -0.3], [-0.003, -0.003, 0.2], [5, 5, 2]),
             ([0.01, 0.0, 0.0], [-0.0025, 0.0, 0.0], [9, 1, 1])]
    for (start, inc, n) in rep_cases + thick:
        if n[0] * n[1] * n[2] > 60:
            continue
        is_thick = (start, inc, n) in thick
        argv = near_argv(start, inc, n) if not is_thick else \
            THICK + ['--near-field=' + ','.join([repr(x) for x in start + inc] + [str(k) for k in n])]
        r = run_main(argv)
        pts = r['out'].count('FIELD POINT:')
        ck.case(('near-report', tuple(start), tuple(inc), tuple(n), is_thick), True)
        if r['kind'] != 'report' or pts != 2 * n[0] * n[1] * n[2]:
            disagreements.append(dict(kind='near', start=start, inc=inc, n=n, report_points=pts,
                                      outcome=r['kind'], exc=r['exc']))
            continue
        # the printed coordinates: the E table and then the H table, each point of the grid once, in grid order
        ans = d.ask('grid near', *[f2b(x) for x in start + inc], *n).split()
        grid = [tuple(b2f(ans[i + j]) for j in range(3)) for i in range(0, len(ans), 3)]
        printed = [tuple(float(v) for v in mm) for mm in
                   re.findall(r'FIELD POINT: X =\s*(\S+)\s+Y =\s*(\S+)\s+Z =\s*(\S+)', r['out'])]
        want = grid + grid
        badp = None
        if len(printed) != len(want):
            badp = '%d coordinate lines for %d points' % (len(printed), len(want))
        else:
            for k_, (a_, b_) in enumerate(zip(printed, want)):
                if any(abs(x_ - y_) > 2e-6 * max(abs(y_), 1e-3) for x_, y_ in zip(a_, b_)):
                    badp = 'printed field point %d is %r, requested point %r' % (k_ + 1, a_, b_)
                    break
        if badp:
            ck.violation(dict(kind='near-printed', start=start, inc=inc, n=n, argv=argv, observed=badp))
            return
    # far field
    for _ in range(N_far):
        zen = [rng.choice([0.0, dec(rng), -dec(rng)]), dec(rng) * rng.choice([1, 1, -1]), rng.randint(1, 100 if rng.random() < .2 else 12)]
        azi = [rng.choice([0.0, dec(rng) * 10, -dec(rng)]), dec(rng) * rng.choice([1, 1, -1]) * 10, rng.randint(1, 100 if rng.random() < .2 else 12)]
        rows, ngain, ntxt = impl_far(zen, azi)
        az = [b2f(t) for t in d.ask('grid angles', f2b(zen[0]), f2b(zen[1]), zen[2]).split()]
        aa = [b2f(t) for t in d.ask('grid angles', f2b(azi[0]), f2b(azi[1]), azi[2]).split()]
        order = [tuple(int(x) for x in t.split(',')) for t in d.ask('grid fartable', zen[2], azi[2]).split()]
        model = [(az[i], aa[j]) for (i, j) in order]
        ck.case(('far', tuple(zen), tuple(azi)), zen[2] * azi[2] > 1,
                sample=dict(kind='far', zen=zen, azi=azi, rows=len(rows)))
        ck.count('far_rows', len(rows))
        same = (len(model) == len(rows) == ngain == ntxt and
                all(f2b(p[0]) == f2b(float(q[0])) and f2b(p[1]) == f2b(float(q[1])) for p, q in zip(model, rows)))
        if not same:
            disagreements.append(dict(kind='far', zen=zen, azi=azi, model_rows=len(model), impl_rows=len(rows)))
    # an Angle object is plain data: changing its attributes between requests must be honoured
    from mininec.mininec import Angle
    for _ in range(N_far // 2):
        z1 = [0.0, dec(rng), rng.randint(1, 12)]
        z2 = [dec(rng), dec(rng) * rng.choice([1, -1]), rng.randint(1, 12)]
        a1 = [0.0, 10.0, rng.randint(1, 6)]
        zen, azi = Angle(*z1), Angle(*a1)
        r = run_main(BASE, want_mininec=True); m = r['m']; m.compute()
        m.compute_far_field(zen, azi)
        zen.initial, zen.inc, zen.number = z2
        m.compute_far_field(zen, azi)
        ff = m.far_field
        rows = list(zip(ff.zen.flat, ff.azi.flat))
        az = [b2f(t) for t in d.ask('grid angles', f2b(z2[0]), f2b(z2[1]), z2[2]).split()]
        aa = [b2f(t) for t in d.ask('grid angles', f2b(a1[0]), f2b(a1[1]), a1[2]).split()]
        order = [tuple(int(x) for x in t.split(',')) for t in d.ask('grid fartable', z2[2], a1[2]).split()]
        model = [(az[i], aa[j]) for (i, j) in order]
        ck.case(('far-reuse', tuple(z1), tuple(z2), tuple(a1)), True)
        same = (len(model) == len(rows) and all(f2b(p[0]) == f2b(float(q[0])) and f2b(p[1]) == f2b(float(q[1])) for p, q in zip(model, rows)))
        if not same:
            disagreements.append(dict(kind='far', zen=z2, azi=a1, model_rows=len(model), impl_rows=len(rows), reuse_from=z1))
    ck.cov['rule'] = ('near-field grids (start, increment decimals with 1-3 digits incl. negative steps, counts 1..%d) and '
                      'far-field angle lists compared bit for bit between implementation and Lean model; '
                      'non-trivial = more than one point; distinct = distinct parameter tuples; 45 %% of the near-field requests are made on an '
                      'object that has already answered other requests (nearly equal ones, the same one, a far field)' % (100 if ck.tier == 'thorough' else 40))
    ck.cov['explanation'] = 'theorems C16_* over any commutative ring; tie by bit-exact grid correspondence'
    ck.assumptions += ['IEEE rounding of start + k*inc is outside the theorems (stated over exact arithmetic); the tie is bit-exact on the sampled grids',
                       'numpy meshgrid/flatten semantics are modelled by flatMap order, checked by the correspondence']
    ck.stats['disagreements'] = len(disagreements)
    # ------------------------------------------------------------------ resolution
    if disagreements or ck.broken:
        found = False
        seen = 0
        for dg in disagreements:
            seen += 1
            if dg['kind'] == 'near':
                m, coords, ne, nh = impl_near(dg['start'], dg['inc'], dg['n'], dg.get('prior', ()))
                bad = prop_near(dg['start'], dg['inc'], dg['n'], coords, ne, nh, dg.get('report_points'))
                if bad:
                    ck.violation(dict(kind='near', start=dg['start'], inc=dg['inc'], n=dg['n'], observed=bad, prior=dg.get('prior', []),
                                      argv=near_argv(dg['start'], dg['inc'], dg['n']),
                                      required='exactly Nx*Ny*Nz points at start + k*increment'))
                    found = True
                    break
            else:
                if 'reuse_from' in dg:
                    from mininec.mininec import Angle
                    zen, azi = Angle(*dg['reuse_from']), Angle(*dg['azi'])
                    r = run_main(BASE, want_mininec=True); m = r['m']; m.compute()
                    m.compute_far_field(zen, azi)
                    zen.initial, zen.inc, zen.number = dg['zen']
                    m.compute_far_field(zen, azi)
                    ff = m.far_field
                    rows = list(zip(ff.zen.flat, ff.azi.flat))
                    bad = prop_far(dg['zen'], dg['azi'], rows, ff.gain.reshape(-1, 3).shape[0], len(ff.db_as_mininec().split('\n')))
                    if bad:
                        ck.violation(dict(kind='far-reuse', zen=dg['zen'], azi=dg['azi'], reuse_from=dg['reuse_from'],
                                          observed=bad + ' (Angle object re-used after changing its attributes)'))
                        found = True
                        break
                    continue
                bad = prop_far(dg['zen'], dg['azi'], *impl_far(dg['zen'], dg['azi']))
                if bad:
                    ck.violation(dict(kind='far', zen=dg['zen'], azi=dg['azi'], observed=bad))
                    found = True
                    break
        if not found and not disagreements:
            # a proof obligation broke although model and code agree: search the property on the code
            for (start, inc, n) in cases:
                m, coords, ne, nh = impl_near(start, inc, n)
                bad = prop_near(start, inc, n, coords, ne, nh)
                if bad:
                    ck.violation(dict(kind='near', start=start, inc=inc, n=n, observed=bad))
                    found = True
                    break
        if not found:
            ck.violation(dict(kind='broken-tie', detail=dict(broken=ck.broken, disagreements=disagreements[:5]),
                              theorem='Pmn.Props.C16.* / correspondence grid near|angles|fartable'),
                         found_input=False)
