"""C19 — the report text carries the computed values.

Proof side : Pmn/Props/C19.lean — error bounds of `fmtVal` (the number the printed field denotes)
             for every finite double, by magnitude class.
Tie        : (i) `util.format_float` string-equal to the Lean `formatFloat` on structured values
             (canonicalisation: trailing blanks); the driver also checks on every case that reading
             its own text back gives `fmtVal`; (ii) report-level: see report_tie().
Search     : read numbers of real output back and compare with the value under the property's bounds.
"""
import math, re
import numpy as np
from common import f2b, b2f, unhexs, run_main

LEVEL = 'proof'
MODULES = ['C19', 'C19b', 'C19c']


def gen_values(rng, n):
    vals = [0.0, -0.0, 1e6, -1e6, 999999.95, 0.1, 0.5, 1e-30, 1e12, -1e-16, 3e7]
    for k in range(-30, 13):
        for m in (1.0, 0.9999999, 0.99999995, 0.999999999999, 1.0000001, 9.9999995, 9.99999949, 5.0, 2.5):
            f = m * 10.0 ** k
            vals += [f, -f, math.nextafter(f, 0), math.nextafter(f, math.inf)]
    for _ in range(n):
        e = rng.uniform(-30, 12)
        f = rng.choice((1, -1)) * 10 ** e
        vals.append(f)
        vals.append(round(f, rng.randint(0, 8)))
        vals.append(rng.randint(-10 ** 8, 10 ** 8) / 10 ** rng.randint(0, 9))
        # half-way decimals at the rounding position
        k = rng.randint(-8, 6)
        vals.append((rng.randint(1, 10 ** 7) + 0.5) * 10.0 ** k)
    return vals


def prop_value(f, ue, text):
    """the property on one field: text read back vs value"""
    try:
        v = float(text.strip().replace(' ', ''))
    except ValueError:
        return 'unreadable %r' % text
    a = abs(f)
    if a == 0:
        return None if v == 0 else 'zero printed as %r' % text
    if ue or a >= 0.1:
        rel = 5e-6
        if abs(v - f) <= rel * a * (1 + 1e-9):
            return None
        return 'value %r printed as %r: relative error %.3g' % (f, text, abs(v - f) / a)
    if abs(v - f) < 1e-6 * (1 + 1e-9):
        return None
    return 'value %r printed as %r: absolute error %.3g' % (f, text, abs(v - f))


def replay(rp):
    from mininec.util import format_float
    if rp.get('kind') == 'format_float':
        f, ue = rp['value'], rp['use_e']
        s = format_float((f,), ue)[0]
        bad = prop_value(f, ue, s)
        print('replay format_float(%r, %d) = %r ->' % (f, ue, s), bad or 'property holds')
        return 1 if bad else 0
    if rp.get('kind') == 'full-report':
        import c19report
        txt, m, kind = c19report.run_report(rp['argv'])
        bads = [b for b in c19report.report_bad(txt, m) if b[0] != 'vm-table-precision'] if txt else []
        print('replay full report', rp['argv'], '->', bads[:3] or 'property holds')
        return 1 if bads else 0
    if rp.get('kind') == 'rerender':
        import c19report, random
        txt, m, kind = c19report.run_report(rp['argv'])
        bad = None
        for sd in range(20):
            txt, m, kind = c19report.run_report(rp['argv'])
            bad = rerender_property(m, random.Random(sd))
            if bad:
                break
        print('replay rerender', rp['argv'], '->', bad or 'property holds')
        return 1 if bad else 0
    if rp.get('kind') == 'report':
        bad = report_property(rp['argv'])
        print('replay report', rp['argv'], '->', bad or 'property holds')
        return 1 if bad else 0
    print('replay: nothing to execute:', rp.get('kind'))
    return 1


# ---------------------------------------------------------------- report level

def parse_sources_listing(out):
    """lines 'PULSE NO., VOLTAGE MAGNITUDE, PHASE (DEGREES): p , m , ph'"""
    res = []
    for l in out.split('\n'):
        if l.startswith('PULSE NO., VOLTAGE MAGNITUDE'):
            t = l.split(':', 1)[1].split(',')
            res.append(tuple(x.strip() for x in t))
    return res


def report_property(argv):
    """numbers of the source listing / source data read back vs the in-memory values"""
    r = run_main(argv, want_mininec=True)
    if r['m'] is None:
        return None
    m = r['m']
    m.compute()
    out = m.sources_as_mininec() + '\n' + m.source_data_as_mininec()
    lst = parse_sources_listing(out)
    if len(lst) != len(m.sources):
        return 'source listing has %d lines for %d sources' % (len(lst), len(m.sources))
    for (p, mag, ph), s in zip(lst, m.sources):
        if int(p) != s.idx + 1:
            return 'source listing names pulse %s, source is on %d' % (p, s.idx + 1)
        b = prop_value(abs(s.voltage), 0, mag)
        if b and abs(float(mag) - abs(s.voltage)) > 5e-6 * abs(s.voltage):
            return 'source listing magnitude: ' + b
        phd = math.degrees(math.atan2(s.voltage.imag, s.voltage.real))
        if abs(float(ph) - phd) > max(5e-6 * abs(phd), 1e-6) * (1 + 1e-9):
            return 'source listing phase %r for %r degrees' % (ph, phd)
    # SOURCE DATA blocks
    blocks = re.findall(r'PULSE\s+(\d+)\s+VOLTAGE = \(([^,]*),([^J]*)J\)\s*\n\s*CURRENT = \(([^,]*),([^J]*)J\)\s*\n'
                        r'\s*IMPEDANCE = \(([^,]*),([^J]*)J\)\s*\n\s*POWER =\s*(\S+)\s+WATTS', out)
    if len(blocks) != len(m.sources):
        return 'SOURCE DATA has %d blocks for %d sources' % (len(blocks), len(m.sources))
    for b, s in zip(blocks, m.sources):
        cur = m.current[s.idx]
        z = s.voltage / cur
        pw = 0.5 * (s.voltage * cur.conjugate()).real
        vals = [(s.voltage.real, b[1]), (s.voltage.imag, b[2]), (cur.real, b[3]), (cur.imag, b[4]),
                (z.real, b[5]), (z.imag, b[6]), (pw, b[7])]
        for k, (v, t) in enumerate(vals):
            bad = prop_value(float(v), 0 if k < 2 else 1, t)   # voltage fields are fixed-point
            if bad and not (k < 2 and abs(v) < 1e-6):
                return 'SOURCE DATA pulse %s: %s' % (b[0], bad)
    return current_block_property(m)


def current_block_property(m):
    """CURRENT DATA: every numbered row carries the pulse current; magnitude and phase columns agree with the
    real and imaginary columns (also for currents far below 1 A: the property covers 1e-30 and up)"""
    txt = m.currents_as_mininec()
    rows = 0
    numbered = set()
    for l in txt.split('\n'):
        t = l.split()
        if len(t) != 5 or not (t[0].isdigit() or t[0] == 'J'):
            continue
        try:
            re_, im_, mag, ph = (float(x) for x in t[1:])
        except ValueError:
            continue
        if t[0].isdigit():
            rows += 1
            numbered.add(int(t[0]) - 1)
            if not (1 <= int(t[0]) <= len(m.pulses)):
                return 'CURRENT DATA row for pulse %s, model has %d pulses' % (t[0], len(m.pulses))
            c = m.current[int(t[0]) - 1]
            for name, v, tx in (('real', c.real, t[1]), ('imaginary', c.imag, t[2])):
                if abs(v) >= 1e-30:
                    b = prop_value(float(v), 1, tx)
                    if b:
                        return 'CURRENT DATA pulse %s %s part: %s' % (t[0], name, b)
        a = math.hypot(re_, im_)
        if a >= 1e-30:
            # printed precision of the magnitude plus that of the parts: seven digits, six for a value in 0.1 .. 1
            six = lambda v: 0.1 <= abs(v) < 1
            tolm = (5e-6 if six(mag) else 5e-7) + (5e-6 if (six(re_) or six(im_)) else 5e-7)
            if abs(mag - a) > 1.05 * tolm * a:
                return 'CURRENT DATA row %s: magnitude %r printed for (%r, %r)' % (t[0], mag, re_, im_)
            want = math.degrees(math.atan2(im_, re_))
            if abs(((ph - want + 180) % 360) - 180) > 1e-3:
                return 'CURRENT DATA row %s: phase %r printed for (%r, %r), i.e. %.5f degrees' % (t[0], ph, re_, im_, want)
    # one numbered row per pulse that is not a junction pulse (those are the J lines of their owner's block: C09)
    missing = [p for p in m.pulses if p.idx not in numbered]
    for p in missing:
        g0, g1 = p.geo
        at_end = any(np.max(np.abs(np.array(p.point, dtype=float) - np.array(e, dtype=float))) <= 2.5e-3 * float(m.min_seglen)
                     for g in (g0, g1) for e in g.endpoints)
        if g0 is g1 and not at_end:
            return 'CURRENT DATA has no row for pulse %d (an interior pulse of object %d)' % (p.idx + 1, g0.tag)
    if len(numbered) != rows:
        return 'CURRENT DATA lists a pulse twice: %d numbered rows, %d distinct pulses' % (rows, len(numbered))
    return None


def rerender_property(m, rng):
    """the report is a function of the model as it is now: after a first rendering (i) an already registered load is
    attached to a further pulse, (ii) a new load and a new source are registered; after each step the model is solved
    again and the report rendered again must list exactly the loads, sources and currents the model now has"""
    import c19report
    from mininec.mininec import Impedance_Load, Excitation
    m.as_mininec(options=set())
    N = len(m.pulses)
    lumped = [l for l in m.loads if type(l).__name__ in ('Impedance_Load', 'Laplace_Load', 'Series_RLC_Load', 'Trap_Load')]

    def judge(step):
        try:
            m.compute()
        except Exception:
            return None
        txt = m.as_mininec(options=set())
        try:
            bads = c19report.report_bad(txt, m)
        except Exception as e:
            return 'after %s the report cannot be read back: %s: %s' % (step, type(e).__name__, e)
        bads = [b for b in bads if b[0] != 'vm-table-precision']
        if bads:
            return 'after %s: %s: %s' % ((step,) + bads[0])
        return None
    try:
        if not lumped:
            ld = Impedance_Load(complex(rng.uniform(1, 100), rng.uniform(-50, 50)))
            m.register_load(ld, rng.randrange(N))
            lumped = [ld]
            bad = judge('registering a first load')
            if bad:
                return bad
        m.register_load(rng.choice(lumped), rng.randrange(N))
    except Exception:
        return None
    bad = judge('attaching an already registered load to a further pulse')
    if bad:
        return bad
    try:
        m.register_load(Impedance_Load(complex(25, 5)), rng.randrange(N))
        free = [k for k in range(N) if k not in [s.idx for s in m.sources]]
        if free:
            m.register_source(Excitation(complex(0.5, 0.25)), rng.choice(free))
    except Exception:
        return None
    return judge('registering a further load and a further source')


def gen_report_argv(rng):
    nseg = rng.randint(2, 8)
    L = rng.choice([1.0, 5.0, 10.3])
    argv = ['-w', '%d,0,0,0,0,0,%g,.001' % (nseg, L), '-f', '%g' % rng.choice([7.0, 14.2, 28.5])]
    ns = rng.randint(1, min(3, nseg - 1))
    pulses = rng.sample(range(1, nseg), ns)
    for p in pulses:
        argv.append('--excitation-pulse=%d' % p)
        mag = rng.choice([0.5, 1.0, 2.0, 0.25, 10.0, 1.5, 100.0, 0.001, 3.0, 1e-15, 3e-22, 1e-12])
        ph = rng.choice([0, 0, 30, 90, -45, 180, 12.5])
        v = mag * complex(math.cos(math.radians(ph)), math.sin(math.radians(ph)))
        if ph == 0:
            argv.append('--excitation-voltage=%g' % mag)
        else:
            argv.append('--excitation-voltage=%r' % v if False else '--excitation-voltage=%s' % (str(v).strip('()')))
    return argv


def power_lines_bad(txt, argv):
    """the power levels the report announces for its V/m pattern and its near fields are the ones asked for on the command
    line (--ff-power, --nf-power), section by section"""
    import re
    def opt(name):
        v = [a.split('=', 1)[1] for a in argv if a.startswith(name + '=')]
        return float(v[-1]) if v else None
    out = []
    ffp, nfp = opt('--ff-power'), opt('--nf-power')
    L = txt.split('\n')
    vm = [l for l in L if re.match(r'^\s+POWER LEVEL = ', l)]
    if ffp and vm:
        got = float(vm[0].split('=')[1].replace('WATTS', ''))
        if abs(got - ffp) > 1e-5 * ffp:
            out.append(('power-line', 'the V/m pattern announces a power level of %g W, --ff-power=%g was given' % (got, ffp)))
    nf = [l for l in L if l.startswith('NEW POWER LEVEL (WATTS) =')]
    if any('NEAR FIELDS' in l for l in L):
        if nfp:
            if not nf:
                out.append(('power-line', 'the near-field section announces no new power level, --nf-power=%g was given' % nfp))
            else:
                got = float(nf[0].split('=')[1])
                if abs(got - nfp) > 1e-5 * nfp:
                    out.append(('power-line', 'the near-field section announces a power level of %g W, --nf-power=%g was given' % (got, nfp)))
        elif nf:
            out.append(('power-line', 'the near-field section announces the power level %s although none was asked for' % nf[0].split('=')[1].strip()))
    return out


def run(ck):
    from mininec.util import format_float
    ck.proof_side()
    d = ck.get_driver()
    rng = ck.rng
    vals = gen_values(rng, 3000 if ck.tier == 'quick' else 60000)
    disagreements = []
    reqs, meta = [], []
    for f in vals:
        for ue in (0, 1):
            reqs.append('fmt ff %s %d' % (f2b(f), ue))
            meta.append((f, ue))
    answers = d.ask_many(reqs)
    classes = {}
    for (f, ue), ans in zip(meta, answers):
        a = ans.split()
        impl = format_float((f,), ue)[0]
        model = unhexs(a[0])
        a_ = abs(f)
        cls = ('zero' if a_ == 0 else 'sci' if (ue and a_ < .1) else 'ge1' if a_ >= 1 else 'frac' if a_ >= .1 else 'small')
        classes[cls] = classes.get(cls, 0) + 1
        ck.case(('ff', f2b(f), ue), a_ != 0, sample=dict(value=f, use_e=ue, text=impl))
        if impl.rstrip() != model.rstrip() or a[1] != '1':
            disagreements.append(dict(kind='format_float', value=f, use_e=ue, impl=impl, model=model, readback_ok=a[1]))
    ck.stats['classes'] = classes
    # report level: source listing and source data carry the values
    rep_bad = []
    nrep = 25 if ck.tier == 'quick' else 250
    corpus = [['-w', '10,0,0,0,0,0,10,.001', '-f', '7', '--excitation-pulse=5', '--excitation-voltage=0.5'],
              ['-w', '10,0,0,0,0,0,10,.001', '-f', '7', '--excitation-pulse=5', '--excitation-voltage=1.5+2j']]
    for argv in corpus + [gen_report_argv(rng) for _ in range(nrep)]:
        bad = report_property(argv)
        ck.case(('report', tuple(argv)), True, sample=dict(kind='report', argv=argv) if len(ck.cov['samples']) < 4 else None)
        if bad:
            rep_bad.append(dict(kind='report', argv=argv, observed=bad))
    # complete reports of `main` for command lines with every option kind: every number and the row structure of
    # every block (c19report); then the same object rendered again after further loads / sources were registered
    import c19report, cmdgen, collections
    nfull = 30 if ck.tier == 'quick' else 400
    sites = collections.Counter()
    vm_examples = []
    env_corpus = [[], ['--medium=0,0,0'], ['--medium=13,0.005,0'], ['--medium=13,0.005,0,10', '--medium=5,0.001,-1'],
                  ['--medium=13,0.005,0,10', '--medium=5,0.001,-1', '--boundary=circular'],
                  ['--medium=13,0.005,0,10', '--medium=5,0.001,-1,25', '--medium=80,4,-2', '--boundary=circular'],
                  ['--medium=13,0.005,0,12', '--medium=5,0.001,0', '--radial-count=8', '--radial-radius=0.001'],
                  ['--medium=13,0.005,0,10', '--medium=5,0.001,-1,25', '--medium=80,4,-2']]
    # very large and very small structures (the same dipole in other units): coordinates and radii up to 1e12 and down to 1e-9
    big_corpus = [['-f', '%.17g' % (7.0 / sc), '-w', '4,0,0,1,0,0,9,.12', '--excitation-pulse=2', '--geo-scale=%.17g' % sc,
                   '--theta=10,35,2', '--phi=0,90,2'] for sc in (1e12, 1e10, 1e6, 1e-6, 1e-9, 0.7e12)]
    for i in range(nfull + len(big_corpus)):
        argv, meta = cmdgen.gen_cmdline(rng)
        if i >= nfull:
            argv = list(big_corpus[i - nfull])
        if i < len(env_corpus):
            # every kind of environment block once: free space, perfect ground, one / two / three media, linear and
            # circular boundaries with and without a radial screen
            argv = ['-f', '7', '-w', '5,0,0,2,0,0,12,.001', '--excitation-pulse=2', '--theta=10,35,3', '--phi=0,90,2'] + env_corpus[i]
        if rng.random() < 0.5:
            argv += ['--option=far-field-absolute', '--ff-distance=%g' % rng.choice([1, 100, 2500.5]), '--option=far-field']
            if rng.random() < 0.5:
                argv += ['--ff-power=%g' % rng.choice([1, 100, 0.25])]
        if rng.random() < 0.4:
            argv += ['--near-field=%g,%g,%g,0.5,0.25,1,2,1,2' % (rng.uniform(50, 60), rng.uniform(40, 50), rng.uniform(30, 60)),
                     '--option=near-field']
            if rng.random() < 0.6:
                argv += ['--nf-power=%g' % rng.choice([2.5, 40, 1000])]
        txt, m, kind = c19report.run_report(argv)
        ck.count('full_report_' + kind)
        if txt is None:
            continue
        ck.case(('full-report', tuple(argv)), True)
        try:
            bads = c19report.report_bad(txt, m)
            bads += power_lines_bad(txt, argv)
        except Exception as e:
            bads = [('structure', 'the report cannot be read back: %s: %s' % (type(e).__name__, e))]
        # row structure of the real text vs the Lean report model (C19c)
        try:
            st = c19report.structure_tie(d, txt, m)
        except Exception as e:
            st = 'structure tie raised %s: %s' % (type(e).__name__, e)
        ck.count('structure_ties')
        if st:
            disagreements.append(dict(kind='report-structure', argv=argv, why=st))
        for site, msg in bads:
            sites[site] += 1
            if site == 'vm-table-precision':
                if len(vm_examples) < 1:
                    vm_examples.append(msg)
                continue
            rep_bad.append(dict(kind='full-report', argv=argv, observed='%s: %s' % (site, msg)))
        # render again after the model has grown
        if i % 3 == 0 and len(m.pulses) >= 3:
            bad = rerender_property(m, rng)
            ck.count('rerender_cases')
            if bad:
                rep_bad.append(dict(kind='rerender', argv=argv, observed=bad))
    ck.stats['report_sites_flagged'] = dict(sites)
    if vm_examples:
        ck.report_known('vm-table-four-digits', 'vm-table-four-digits: the V/m far-field table prints four significant digits and two '
                        'decimals (%d fields beyond 5e-6 this run, e.g. %s)' % (sites['vm-table-precision'], vm_examples[0]))
    ck.stats['disagreements'] = len(disagreements)
    ck.stats['report_cases'] = nrep + len(corpus)
    ck.cov['rule'] = ('format_float vs Lean formatFloat on finite doubles 1e-30..1e12 of both signs (powers of ten and their '
                      'neighbours, half-way decimals, rounded decimals, random log-uniform), both use_e settings; '
                      'non-trivial = non-zero value; distinct = distinct (bit pattern, use_e); plus printed source blocks read back')
    ck.assumptions += ["CPython '%f' / '%e' formatting is correctly rounded (ties to even): modelled, exercised by the string correspondence",
                       'np.log(|f|)/np.log(10) truncation is modelled exactly; at exact powers of ten the float quotient may be one below (only effect: a trailing blank, canonicalised by rstrip)',
                       'report-level tie covers the source listing and SOURCE DATA blocks; the remaining blocks use the same format_float calls (string-tied) but their row structure is tied in C09/C12/C17']
    if rep_bad:
        # the evaluator *is* the property on real output: a hit is a failing input
        seen = set()
        for rb in rep_bad:
            key = rb['observed'].split(':')[0]
            if key in seen:
                continue
            seen.add(key)
            if 'source listing magnitude' in rb['observed'] or 'source listing phase' in rb['observed']:
                if ck.report_known('source-listing-%2d'):
                    continue
            ck.violation(dict(kind='report', argv=rb['argv'], observed=rb['observed'],
                              required='every printed number reads back within 5e-6 relative / 1e-6 absolute'))
    if disagreements or ck.broken:
        found = False
        for dg in disagreements:
            if dg.get('kind') != 'format_float':
                continue
            bad = prop_value(dg['value'], dg['use_e'], dg['impl'])
            if bad:
                ck.violation(dict(kind='format_float', value=dg['value'], use_e=dg['use_e'], observed=bad,
                                  bits=f2b(dg['value'])))
                found = True
                break
        if not found:
            for f in vals:
                for ue in (0, 1):
                    bad = prop_value(f, ue, format_float((f,), ue)[0]) if math.isfinite(f) else None
                    if bad:
                        ck.violation(dict(kind='format_float', value=f, use_e=ue, observed=bad))
                        found = True
                        break
                if found:
                    break
        if not found:
            ck.violation(dict(kind='broken-tie', detail=dict(broken=ck.broken, disagreements=disagreements[:5]),
                              theorem='Pmn.Props.C19.* / correspondence fmt ff'), found_input=False)
