"""C07 — currents are linear in the source voltages; source data are V/I and Re(V·conj I)/2.

Proof side : Pmn/Props/C07.lean (rhs scaling/additivity/superposition with assignment semantics,
             uniqueness and linearity of the solution, impedance and power scaling, power formula).
Tie        : (i) `compute_rhs` vs Lean `rhs` (1-4 sources incl. duplicates on one pulse, interior /
             junction / grounded pulses); (ii) the `Solves` hypothesis: residual of the implementation's
             own Z, rhs, current; (iii) `Excitation.impedance/.power` and the printed SOURCE DATA
             vs Lean `srcImpedance`, `srcPower`.
Search     : scaled and split source sets solved on the implementation.
"""
import math, cmath
import numpy as np
import antgen
from common import f2b, b2f, close

LEVEL = 'proof'
MODULES = ['C07']


def cx(tokens):
    v = [b2f(t) for t in tokens]
    return [complex(v[i], v[i + 1]) for i in range(0, len(v), 2)]


def gflags(m):
    return ''.join('1' if (p.ground.any() and m.media is not None) else '0' for p in m.pulses)


def gflags_rhs(m):
    # compute_rhs doubles on pulse.ground.any () (a pulse is only grounded when there is a ground plane)
    return ''.join('1' if p.ground.any() else '0' for p in m.pulses)


def loads_of(ant, n):
    """lumped loads of the model, a function of the model (so that every solve of one case sees the same loads):
    none for two models out of five, else 1-2 complex impedances on pulses chosen by a hash"""
    import hashlib, json
    h = int(hashlib.sha1(json.dumps(ant, sort_keys=True, default=str).encode()).hexdigest()[8:16], 16)
    if h % 5 < 2 or n == 0:
        return []
    return [((h >> (8 * k)) % n, complex(5 + (h >> (3 + k)) % 200, ((h >> (11 + k)) % 300) - 150)) for k in range(1 + h % 2)]


def solve_with(ant, srcs):
    from mininec.mininec import Excitation, Impedance_Load
    m = antgen.build(ant)
    for p, z in loads_of(ant, len(m.pulses)):
        m.register_load(Impedance_Load(z), p)
    for p, v in srcs:
        m.register_source(Excitation(v), p)
    m.compute()
    return m


def property_on_impl(ant, srcs, c):
    """scaling and superposition on the implementation (well-conditioned models only)"""
    m0 = solve_with(ant, srcs)
    cn = antgen.cond(m0)
    if cn > 1e5:
        return None
    tol = 5e-4 if cn <= 1e3 else 5e-7 * cn
    scale = max(abs(m0.current))
    m1 = solve_with(ant, [(p, c * v) for p, v in srcs])
    if max(abs(m1.current - c * m0.current)) > tol * abs(c) * scale:
        return 'scaling voltages by %r does not scale currents' % (c,)
    for s0, s1 in zip(m0.sources, m1.sources):
        if abs(s0.impedance - s1.impedance) > tol * abs(s0.impedance):
            return 'impedance changes under voltage scaling: %r vs %r' % (s0.impedance, s1.impedance)
    # ... and the dBi pattern, with and without a requested power level
    import farlib
    ths, phs = [20.0, 75.0], [10.0, 200.0]
    for kw in ({}, dict(pwr=25.0, dist=300.0)):
        g0 = farlib.impl_far(m0, ths, phs, **kw); g1 = farlib.impl_far(m1, ths, phs, **kw)
        mx = max(v['db'][2] for v in g0.values())
        for kk in g0:
            a, b = g0[kk]['db'][2], g1[kk]['db'][2]
            if a > mx - 40 and abs(a - b) > 1e-6 + 20 * tol:
                return ('multiplying all voltages by %r changes the dBi pattern%s: %.5f dBi becomes %.5f dBi at %r'
                        % (c, ' (power level of 25 W requested)' if kw else '', a, b, kk))
    if len({p for p, v in srcs}) == len(srcs) and len(srcs) > 1:
        tot = np.zeros(len(m0.pulses), dtype=complex)
        for k in range(len(srcs)):
            mk = solve_with(ant, [(p, v if j == k else 0j) for j, (p, v) in enumerate(srcs)])
            tot += mk.current
        if max(abs(tot - m0.current)) > tol * scale:
            return 'superposition of single-source responses deviates by %.3g' % (max(abs(tot - m0.current)) / scale)
        # each source really alone (nothing else registered), and the sources registered in another order
        tot = np.zeros(len(m0.pulses), dtype=complex)
        for p, v in srcs:
            tot += solve_with(ant, [(p, v)]).current
        if max(abs(tot - m0.current)) > tol * scale:
            return 'the response to all sources deviates by %.3g from the sum of the responses to each source alone' % (max(abs(tot - m0.current)) / scale)
        mr = solve_with(ant, list(reversed(srcs)))
        if max(abs(mr.current - m0.current)) > tol * scale:
            return 'currents depend on the order in which the sources are registered (%.3g)' % (max(abs(mr.current - m0.current)) / scale)
    # the same voltages written in the other constructor form — magnitude and phase in degrees, also with a negative
    # magnitude and the phase turned by half a turn (the usual way to write an antiphase feed): same excitation, same solution
    from mininec.mininec import Excitation, Impedance_Load
    for form in ('polar', 'polar-neg'):
        mf = antgen.build(ant)
        for p_, z_ in loads_of(ant, len(mf.pulses)):
            mf.register_load(Impedance_Load(z_), p_)
        for k_, (p_, v_) in enumerate(srcs):
            mag, ph = abs(v_), math.degrees(math.atan2(v_.imag, v_.real))
            if form == 'polar-neg' and k_ % 2 == 0:
                mag, ph = -mag, ph + 180.0
            mf.register_source(Excitation(mag, ph), p_)
        mf.compute()
        if max(abs(mf.current - m0.current)) > max(tol, 1e-9) * scale:
            return ('the voltages %r given as magnitude and phase%s give currents that deviate by %.3g from those of the complex form'
                    % ([v_ for _, v_ in srcs], ' (negative magnitude, phase + 180)' if form == 'polar-neg' else '',
                       max(abs(mf.current - m0.current)) / scale))
    # the same object solved again with all voltages multiplied by c (nothing else touched)
    i0 = m0.current.copy()
    z0 = [s.impedance for s in m0.sources]
    for s_ in m0.sources:
        s_.voltage = s_.voltage * c
    m0.compute()
    if max(abs(m0.current - c * i0)) > tol * abs(c) * scale:
        return ('the same object solved again with all voltages multiplied by %r: currents deviate by %.3g from %r times the '
                'first solution (%d loads)' % (c, max(abs(m0.current - c * i0)) / (abs(c) * scale), c, len(m0.loads)))
    for s_, z in zip(m0.sources, z0):
        if abs(s_.impedance - z) > tol * abs(z):
            return 'the same object solved again with scaled voltages: source impedance %r becomes %r' % (z, s_.impedance)
    for s in m0.sources:
        i = m0.current[s.idx]
        if abs(s.impedance - s.voltage / i) > 1e-9 * abs(s.impedance):
            return 'source impedance is not V/I'
        if abs(s.power - 0.5 * (s.voltage * i.conjugate()).real) > 1e-9 * abs(s.voltage * i):
            return 'source power is not Re(V conj I)/2'
    return None


def replay(rp):
    if 'ant' not in rp:
        print('replay: nothing to execute:', rp.get('kind'))
        return 1
    srcs = [(p, complex(*v)) for p, v in rp['srcs']]
    bad = property_on_impl(rp['ant'], srcs, complex(*rp['c']))
    print('replay ->', bad or 'property holds')
    return 1 if bad else 0


def run(ck):
    from mininec.mininec import Excitation
    ck.proof_side()
    d = ck.get_driver()
    rng = ck.rng
    n = 150 if ck.tier == 'quick' else 2500
    dis = []
    for i in range(n):
        ant = antgen.gen_antenna(rng, max_pulses=20 if ck.tier == 'quick' else 60)
        m = antgen.build(ant)
        N = len(m.pulses)
        k = rng.randint(1, 4)
        ps = [rng.randrange(N) for _ in range(k)]          # duplicates allowed
        if rng.random() < 0.3:
            g = [j for j, p in enumerate(m.pulses) if p.ground.any()]
            if g:
                ps[0] = rng.choice(g)
        srcs = []
        same = (k >= 2 and rng.random() < 0.25)       # every source fed with exactly the same voltage (an in-phase array)
        for p in ps:
            mag = 10 ** rng.uniform(-2, 2)
            ph = rng.uniform(-math.pi, math.pi)
            v = complex(mag * math.cos(ph), mag * math.sin(ph)) if rng.random() < .8 else complex(mag, 0)
            if same and srcs:
                v = srcs[0][1]
            m.register_source(Excitation(v), p)
            srcs.append((p, v))
        if same:
            ck.count('equal_voltages')
        try:
            m.compute()
        except Exception as e:
            dis.append(dict(ant=ant, srcs=srcs, why='compute raised %s: %s' % (type(e).__name__, e)))
            continue
        kinds = set()
        for p in set(ps):
            pu = m.pulses[p]
            kinds.add('ground' if pu.ground.any() else 'junction' if pu.geo[0] is not pu.geo[1] else 'interior')
        for kd in kinds:
            ck.count('src_' + kd)
        ck.count('dup_sources' if len(set(ps)) < len(ps) else 'distinct_sources')
        ck.case((ant['family'], ant['ground'], N, tuple(ps)), True,
                sample=dict(family=ant['family'], ground=ant['ground'], pulses=N, sources=[(p, [v.real, v.imag]) for p, v in srcs]))
        why = None
        # (i) rhs
        toks = ['ckt rhs', N, f2b(1 / m.m), gflags_rhs(m), len(srcs)]
        for p, v in srcs:
            toks += [p, f2b(v.real), f2b(v.imag)]
        model_rhs = cx(d.ask(*toks).split())
        if len(model_rhs) != N or any(not close(a, b, 1e-12, 1e-300) for a, b in zip(model_rhs, m.rhs)):
            why = 'rhs'
        # (ii) Solves hypothesis on the implementation's own data
        res = np.max(np.abs(m.Z @ m.current - m.rhs))
        cn = antgen.cond(m)
        if res > 1e-10 * max(cn, 1) * max(np.max(np.abs(m.rhs)), 1e-300):
            why = 'residual %.3g' % res
        # (iii) source data
        txt = m.source_data_as_mininec()
        for s in m.sources:
            i = m.current[s.idx]
            a = d.ask('ckt srcdata', f2b(s.voltage.real), f2b(s.voltage.imag), f2b(i.real), f2b(i.imag)).split()
            z = complex(b2f(a[0]), b2f(a[1])); pw = b2f(a[2])
            if not close(z, s.impedance, 1e-12) or not close(pw, s.power, 1e-11, 1e-300):
                why = 'source data'
        pt = sum(s.power for s in m.sources)
        if not close(pt, m.power, 1e-12, 1e-300):
            why = 'total power'
        if txt.count('PULSE') != len(m.sources):
            why = 'SOURCE DATA blocks'
        if why:
            dis.append(dict(ant=ant, srcs=srcs, why=why))
    ck.stats['disagreements'] = len(dis)
    # property evaluator on a small vetted corpus (well inside the domain)
    corpus_rng = __import__('random').Random(12345)
    for j in range(12 if ck.tier == 'quick' else 60):
        ant = antgen.gen_antenna(corpus_rng, families=['dipole', 'tee', 'monopole'], max_pulses=14)
        m = antgen.build(ant)
        N = len(m.pulses)
        srcs = [(p, complex(1 + j, 0.5 * p)) for p in corpus_rng.sample(range(N), min(2, N))]
        bad = property_on_impl(ant, srcs, complex(0.3, -2.0))
        ck.case(('corpus', j), True)
        if bad:
            ck.violation(dict(kind='linearity', ant=ant, srcs=[(p, [v.real, v.imag]) for p, v in srcs], c=[0.3, -2.0], observed=bad))
    ck.cov['rule'] = ('antennas from the shared structured generator (10 families, free space / ground), 1-4 sources with '
                      'repetitions on interior, junction and grounded pulses, complex voltages over 4 decades; compared: rhs '
                      'vector (rtol 1e-12), residual of the direct solve, source impedance/power, total power; '
                      'distinct = distinct (family, ground, N, source pulses)')
    ck.assumptions += ['np.linalg.solve is specified by Z·I = rhs; its residual is checked on every case, not proved',
                       'IEEE rounding of complex products differs between numpy and the model in the last bits (rtol 1e-12)']
    if dis or ck.broken:
        found = False
        raised = None
        for dg in dis[:60]:
            try:
                bad = property_on_impl(dg['ant'], dg['srcs'], complex(0.3, -2.0))
            except Exception as e:
                raised = raised or (dg, 'the sources cannot be solved: %s: %s' % (type(e).__name__, e))
                continue
            if bad:
                ck.violation(dict(kind='linearity', ant=dg['ant'], srcs=[(p, [v.real, v.imag]) for p, v in dg['srcs']],
                                  c=[0.3, -2.0], observed=bad, disagreement=dg['why']))
                found = True
                break
        if not found and raised:
            dg, msg = raised
            ck.violation(dict(kind='linearity', ant=dg['ant'], srcs=[(p, [v.real, v.imag]) for p, v in dg['srcs']],
                              c=[0.3, -2.0], observed=msg, disagreement=dg['why']))
            found = True
        if not found:
            ck.violation(dict(kind='broken-tie', detail=dict(broken=ck.broken, disagreements=[x['why'] for x in dis[:5]],
                                                             example=dis[0]['ant'] if dis else None),
                              theorem='Pmn.Props.C07.* / correspondence ckt rhs | srcdata | residual'), found_input=False)
