"""far-field tie shared by C10 and C11: request for the Lean `Far` model from a solved Mininec object"""
import math
import numpy as np
from common import f2b, b2f


class DirAngles:
    """an `Angle` with explicit values (the implementation only calls angle_deg / angle_rad)"""
    def __init__(self, vals):
        self.v = np.array(vals, dtype=float)
        self.initial = float(vals[0]); self.inc = 0.0; self.number = len(vals)

    def angle_deg(self):
        return self.v

    def angle_rad(self):
        return self.v / 180 * np.pi


def request(m, dirs, env=None):
    """`env='ideal'`: the same structure and currents over a perfect ground (whatever the media of `m` are)"""
    t = ['far run', f2b(m.f)]
    if not m.media:
        t.append('free')
    elif m.media[0].is_ideal or env == 'ideal':
        t.append('ideal')
    else:
        md = m.media
        t += ['real', 1 if m.boundary != 'linear' else 0, md[0].nradials, f2b(md[0].radius), len(md)]
        for x in md:
            t += [f2b(x.coord), f2b(x.height), f2b(x.permittivity), f2b(x.conductivity)]
    t += [f2b(m.w), f2b(m.power), len(m.pulses)]
    for p in m.pulses:
        t += [f2b(x) for x in p.point]
        for h in (0, 1):
            s = p.segs[h]
            t += [f2b(p.sign[h]), f2b(s.seg_len)] + [f2b(x) for x in s.dirvec] + [int(bool(p.ground[h])), int(bool(p.inv_ground[h]))]
        c = m.current[p.idx]
        t += [f2b(c.real), f2b(c.imag)]
    t.append(len(dirs))
    for th, ph in dirs:
        t += [f2b(th), f2b(ph)]
    return t


def model_far(d, m, dirs, env=None):
    ans = d.ask(*request(m, dirs, env))
    v = [b2f(x) for x in ans.split()]
    out = []
    for i in range(0, len(v), 10):
        out.append(dict(lin=v[i:i + 3], h12=complex(v[i + 3], v[i + 4]), x34=complex(v[i + 5], v[i + 6]), db=v[i + 7:i + 10]))
    return out


def impl_far(m, thetas, phis, **kw):
    """returns dict (theta, phi) -> dict(lin, db, e_theta, e_phi)"""
    m.compute_far_field(DirAngles(thetas), DirAngles(phis), **kw)
    ff = m.far_field
    res = {}
    for pi, ph in enumerate(phis):
        for ti, th in enumerate(thetas):
            g = ff.gain[ti][pi]
            res[(th, ph)] = dict(db=[float(x) for x in g], e_theta=complex(ff.e_theta[pi][ti]), e_phi=complex(ff.e_phi[pi][ti]))
    return res


def compare(d, m, thetas, phis, rtol=1e-9):
    """tie: model vs implementation for all directions; returns (why or None, max linear gain)"""
    dirs = [(th, ph) for ph in phis for th in thetas]
    mod = model_far(d, m, dirs)
    imp = impl_far(m, thetas, phis)
    mx = max(x['lin'][2] for x in mod) or 1e-300
    emax = max(max(abs(x['h12']), abs(x['x34'])) for x in mod) or 1e-300
    for (th, ph), mo in zip(dirs, mod):
        im = imp[(th, ph)]
        if abs(im['e_theta'] - mo['h12']) > rtol * emax or abs(im['e_phi'] - mo['x34']) > rtol * emax:
            return 'field amplitude at theta=%g phi=%g: implementation (%r, %r) model (%r, %r)' % (
                th, ph, im['e_theta'], im['e_phi'], mo['h12'], mo['x34']), mx
        for k in range(3):
            a, b = im['db'][k], mo['db'][k]
            if (a <= -900) != (b <= -900):
                # the floor decision sits at 1e-30: accept either side when the linear value is that small
                if mo['lin'][k] > 1e-29 or (a > -900 and 10 ** (a / 10) > 1e-29):
                    return 'dB floor at theta=%g phi=%g' % (th, ph), mx
                continue
            if a > -900 and abs(10 ** (a / 10) - mo['lin'][k]) > rtol * mx + 1e-9 * mo['lin'][k]:
                return 'gain at theta=%g phi=%g component %d: implementation %r dB, model linear %r' % (th, ph, k, a, mo['lin'][k]), mx
    return None, mx
